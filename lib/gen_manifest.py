#!/usr/bin/env python3
"""Regenerates /verif/MANIFEST.json from lib/props.py and lib/manifest_text.py."""
import json, os, sys
sys.path.insert(0, os.path.dirname(os.path.abspath(__file__)))
from props import PROPS
from manifest_text import TEXT, NOT_APPLICABLE, ENGINES

V = os.path.dirname(os.path.dirname(os.path.abspath(__file__)))
ids = [json.loads(l)["id"] for l in open(os.path.join(V, "properties.jsonl"))]
checks = []
for pid in ids:
    if pid not in PROPS or pid in NOT_APPLICABLE:
        continue
    t = TEXT[pid]
    checks.append({
        "property_id": pid,
        "quick_cmd": "./check %s --tier quick" % pid,
        "thorough_cmd": "./check %s --tier thorough" % pid,
        "evidence_file": "/verif/evidence/%s.json" % pid,
        "replay_cmd_template": "./check %s --replay {path}" % pid,
        "engine": t["engine"],
        "level_claimed": {"category": PROPS[pid].get("level", "proof"), "text": t["level_text"], "design_ref": t["design_ref"]},
        "level_note": t["level_note"],
        "technique": t["technique"],
    })
man = {
    "version": 1,
    "setup_cmd": "./setup.sh",
    "hooks": {
        "guard": "verif (Go build tag)",
        "enable": "go build -tags verif (harness module /verif/harness with replace github.com/vimeo/dials => /repo)",
        "baseline_off_cmd": "cd /repo && go test -mod=mod -vet=off -count=1 -timeout 25m ./...",
        "source_commits": json.load(open(os.path.join(V, "lib", "hook_commits.json"))),
        "add_only": True,
    },
    "engines": ENGINES,
    "checks": checks,
    "notes": "Technique family: machine-checked proof in Coq 8.16.1. Hand-written executable Gallina models; theorems in coq/theories/Properties; models tied to /repo by a correspondence check that runs the implementation (Go harness built against the current working tree) and evaluates the model inside Coq (vm_compute) on the same cases. See DESIGN.md.",
    "not_applicable": [{"property_id": p, "reason": r} for p, r in sorted(NOT_APPLICABLE.items()) if p in ids],
}
json.dump(man, open(os.path.join(V, "MANIFEST.json"), "w"), indent=1)
print("MANIFEST.json:", len(checks), "checks,", len(man["not_applicable"]), "not_applicable")
