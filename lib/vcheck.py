"""Common machinery of /verif/check: proof step, harness build, correspondence
run (implementation vs. Coq model evaluated by coqc), decision, evidence."""
import concurrent.futures as cf
import json
import os
import re
import shutil
import subprocess
import sys
import time

VERIF = os.path.dirname(os.path.dirname(os.path.abspath(__file__)))
COQ = os.path.join(VERIF, "coq")
HARNESS = os.path.join(VERIF, "harness")
BUILD = os.path.join(VERIF, "build")
REPO = os.environ.get("VERIF_REPO", "/repo")

GOENV = dict(os.environ, GOFLAGS="-mod=mod", GOPROXY="off", GOSUMDB="off",
             GOTOOLCHAIN="local", CGO_ENABLED="0", VERIF_REPO=REPO)

FORBIDDEN = re.compile(
    r"\b(Admitted|admit|Axiom|Axioms|Parameter|Parameters|Conjecture|Conjectures|Abort All|"
    r"Admit Obligations|bypass_check|native_compute)\b|Unset\s+Guard|Unset\s+Positivity|"
    r"Unset\s+Universe|type-in-type|impredicative-set")

TRUSTED_BASE = [
    "Coq 8.16.1 kernel (coqc, full .vo builds; vm_compute used for Examples, refutation witnesses, "
    "finite side conditions and for evaluating the model on harness cases; no native_compute)",
    "no Axiom/Parameter/Admitted declared by this development (grep gate on every run)",
    "hand-written Gallina model of the Go code (modelled, not verified); tie = correspondence check "
    "evaluated inside Coq on cases produced by running /repo's current tree",
    "Go harness (generators, projection of observables to Coq terms), python driver",
    "Go runtime/reflect/strconv/unicode semantics as projected by the harness",
]


def sh(cmd, cwd=None, env=None, timeout=1800, check=False):
    p = subprocess.run(cmd, cwd=cwd, env=env, shell=isinstance(cmd, str),
                       stdout=subprocess.PIPE, stderr=subprocess.STDOUT, timeout=timeout)
    out = p.stdout.decode("utf-8", "replace")
    if check and p.returncode != 0:
        raise RuntimeError("command failed: %s\n%s" % (cmd, out[-4000:]))
    return p.returncode, out


def log(msg):
    print("[check] " + msg, flush=True)


# ---------------------------------------------------------------- coq side

def coq_sources():
    out = []
    for root, _, files in os.walk(os.path.join(COQ, "theories")):
        for f in files:
            if f.endswith(".v"):
                out.append(os.path.join(root, f))
    return sorted(out)


def grep_gate():
    """no Admitted/Axiom/... anywhere in the development (comments stripped)"""
    bad = []
    for path in coq_sources():
        txt = open(path, encoding="utf-8").read()
        # strip (nested) comments
        res, depth, i = [], 0, 0
        while i < len(txt):
            if txt.startswith("(*", i):
                depth += 1
                i += 2
            elif txt.startswith("*)", i) and depth > 0:
                depth -= 1
                i += 2
            else:
                if depth == 0:
                    res.append(txt[i])
                elif txt[i] == "\n":
                    res.append("\n")
                i += 1
        code = "".join(res)
        for ln, line in enumerate(code.split("\n"), 1):
            if FORBIDDEN.search(line):
                bad.append("%s:%d: %s" % (os.path.relpath(path, VERIF), ln, line.strip()))
    return bad


def ensure_makefile():
    srcs = [os.path.relpath(p, COQ) for p in coq_sources()]
    listing = "\n".join(srcs)
    stamp = os.path.join(COQ, ".filelist")
    old = open(stamp).read() if os.path.exists(stamp) else None
    if old != listing or not os.path.exists(os.path.join(COQ, "Makefile")):
        sh(["coq_makefile", "-f", "_CoqProject"] + srcs + ["-o", "Makefile"], cwd=COQ, check=True)
        open(stamp, "w").write(listing)


def regenerate_from_source():
    """Model fragments that are regenerated from /repo on every run."""
    geninit = build_harness("geninit")
    rc, out = sh([geninit], env=GOENV, timeout=120)
    if rc != 0:
        raise RuntimeError("geninit failed: " + out)
    path = os.path.join(COQ, "theories", "Generated", "Initialisms.v")
    old = open(path).read() if os.path.exists(path) else None
    if old != out:
        open(path, "w").write(out)


def coq_make(targets, jobs=16, timeout=3000):
    ensure_makefile()
    return sh(["make", "-j%d" % jobs] + targets, cwd=COQ, timeout=timeout)


def property_file(prop):
    return os.path.join(COQ, "theories", "Properties", prop + ".v")


def proof_step(prop, extra_targets=(), extra_files=()):
    """Build the property file (and everything it depends on) with full .vo
    compilation, then re-run coqc on the property file to capture
    Print Assumptions.  Returns dict."""
    files = [prop] + list(extra_files)   # further statement-only files of the same property
    theorems = []
    for f in files:
        src = open(property_file(f), encoding="utf-8").read()
        theorems += re.findall(r"^\s*Theorem\s+([A-Za-z0-9_']+)", src, re.M)
    t0 = time.time()
    rc, out = coq_make(["theories/Properties/%s.vo" % f for f in files] + list(extra_targets))
    res = {"theorems": theorems, "obligations": len(theorems), "discharged": 0,
           "ok": rc == 0, "log": out[-6000:], "axioms": {}, "wall": 0.0}
    if rc == 0:
        allout, ok = "", True
        for f in files:
            rc2, out2 = sh(["coqc", "-Q", "theories", "Dials",
                            "-w", "-notation-overridden,-deprecated-hint-without-locality",
                            "theories/Properties/%s.v" % f], cwd=COQ, timeout=1200)
            allout += out2
            if rc2 != 0:
                ok = False
                res["log"] = out2[-6000:]
        res["ok"] = ok
        if ok:
            res["discharged"] = len(theorems)
            res["axioms"] = parse_assumptions(allout)
    res["wall"] = time.time() - t0
    return res


def coqchk(prop, timeout=2400):
    """Independent re-check of the compiled property module and everything it
    depends on (thorough tier only).  Returns (ok, axioms_text)."""
    rc, out = sh(["coqchk", "-silent", "-o", "-Q", "theories", "Dials", "Dials.Properties." + prop],
                 cwd=COQ, timeout=timeout)
    m = re.search(r"\* Axioms:(.*?)\n\s*\n\* Constants", out, re.S)
    axioms = " ".join(m.group(1).split()) if m else "?"
    return rc == 0, axioms, out[-1500:]


def parse_assumptions(out):
    """Return {'closed': n, 'axioms': [names]} from Print Assumptions output."""
    closed = len(re.findall(r"Closed under the global context", out))
    axioms = []
    for block in re.findall(r"Axioms:\n((?:.+\n?)+?)(?:\n|$)", out):
        for m in re.finditer(r"^([A-Za-z0-9_.']+)\s*:", block, re.M):
            axioms.append(m.group(1))
    return {"closed": closed, "axioms": sorted(set(axioms))}


# ---------------------------------------------------------------- go side

def build_harness(name, tags="verif"):
    os.makedirs(BUILD, exist_ok=True)
    # go.sum must cover /repo's dependencies
    shutil.copyfile(os.path.join(REPO, "go.sum"), os.path.join(HARNESS, "go.sum")) \
        if not os.path.exists(os.path.join(HARNESS, "go.sum.extra")) else merge_gosum()
    exe = os.path.join(BUILD, name)
    cmd = ["go", "build", "-tags", tags, "-o", exe]
    if REPO != "/repo":
        # development against a scratch worktree of the repository
        import hashlib
        tag = hashlib.sha1(REPO.encode()).hexdigest()[:10]
        alt = os.path.join(BUILD, "alt_%s.mod" % tag)
        open(alt, "w").write(open(os.path.join(HARNESS, "go.mod")).read().replace("=> /repo", "=> " + REPO))
        shutil.copyfile(os.path.join(HARNESS, "go.sum"), os.path.join(BUILD, "alt_%s.sum" % tag))
        exe = os.path.join(BUILD, name + "_" + tag)
        cmd = ["go", "build", "-tags", tags, "-o", exe, "-modfile", alt]
    rc, out = sh(cmd + ["./cmd/" + name], cwd=HARNESS, env=GOENV, timeout=1200)
    if rc != 0:
        raise BuildError("go build of harness %s against /repo failed:\n%s" % (name, out[-4000:]))
    return exe


def merge_gosum():
    lines = set(open(os.path.join(REPO, "go.sum")).read().splitlines())
    lines |= set(open(os.path.join(HARNESS, "go.sum.extra")).read().splitlines())
    open(os.path.join(HARNESS, "go.sum"), "w").write("\n".join(sorted(l for l in lines if l)) + "\n")


class BuildError(Exception):
    pass


def run_harness(exe, prop, seed, n, tier, replay=None, shard=400, timeout=3000, extra=()):
    # unique per process: concurrent runs of the same check must not wipe each other's cases
    out = os.path.join(BUILD, "cases", "%s_%d" % (prop, os.getpid()))
    shutil.rmtree(out, ignore_errors=True)
    os.makedirs(out)
    cmd = [exe, "--seed", str(seed), "--n", str(n), "--out", out, "--tier", tier, "--shard", str(shard)] + list(extra)
    if replay:
        cmd += ["--replay", replay]
    rc, o = sh(cmd, env=GOENV, timeout=timeout, cwd=HARNESS)
    if rc != 0:
        raise RuntimeError("harness %s failed (rc=%d):\n%s" % (exe, rc, o[-4000:]))
    st = json.load(open(os.path.join(out, "stats.json")))
    return out, st


def eval_shard(args):
    out, name = args
    rc, o = sh(["coqc", "-Q", os.path.join(COQ, "theories"), "Dials", name], cwd=out, timeout=3000)
    return name, rc, o


def eval_cases(out, st, jobs=12):
    """Run coqc on every shard; return list of (global index, verdict code, extra)."""
    verdicts = []
    errors = []
    shards = list(zip(st.get("shards") or [], st.get("shard_base") or []))
    with cf.ThreadPoolExecutor(max_workers=jobs) as ex:
        for (name, rc, o), (_, base) in zip(ex.map(eval_shard, [(out, s) for s, _ in shards]), shards):
            if rc != 0:
                errors.append("%s: coqc failed:\n%s" % (name, o[-3000:]))
                continue
            flat = " ".join(o.split())
            m = re.search(r"R = (.*?) : list", flat)
            if not m:
                errors.append("%s: no result in coqc output:\n%s" % (name, o[-2000:]))
                continue
            for idx, code in re.findall(r"\((\d+), (\d+)\)", m.group(1)):
                verdicts.append((base + int(idx), int(code)))
    return verdicts, errors


_LINE_OFFSETS = {}


def input_line(out, idx):
    """line idx of <out>/inputs.jsonl (offsets are indexed once per file: a broken
    tree can make tens of thousands of cases fail, each of which is looked up)"""
    path = os.path.join(out, "inputs.jsonl")
    key = (path, os.path.getmtime(path), os.path.getsize(path))
    offs = _LINE_OFFSETS.get(key)
    if offs is None:
        offs, pos = [], 0
        with open(path, "rb") as f:
            for line in f:
                offs.append(pos)
                pos += len(line)
        _LINE_OFFSETS.clear()
        _LINE_OFFSETS[key] = offs
    if idx < 0 or idx >= len(offs):
        return None
    with open(path, "rb") as f:
        f.seek(offs[idx])
        return f.readline().decode("utf-8", "replace").strip()


def case_term(out, st, idx):
    shards = list(zip(st["shards"], st["shard_base"]))
    for name, base in reversed(shards):
        if idx >= base:
            for line in open(os.path.join(out, name)):
                if line.startswith("(* %d *)" % (idx - base + base)):
                    return line.strip().rstrip(";")
    return None


# ---------------------------------------------------------------- findings

def load_known():
    out = []
    import glob
    for path in sorted(glob.glob(os.path.join(VERIF, "known_findings", "C*.json"))):
        out += json.load(open(path))["findings"]
    return out


def write_replay(prop, seed, k, payload):
    d = os.path.join(VERIF, "replays", prop + ("_mutant" if os.environ.get("VERIF_NO_EVIDENCE") else ""))
    os.makedirs(d, exist_ok=True)
    path = os.path.join(d, "%s-%d.json" % (seed, k))
    json.dump(payload, open(path, "w"), indent=1)
    return path


def write_evidence(prop, tier, seed, level, coverage, assumptions, wall, violations):
    if os.environ.get("VERIF_NO_EVIDENCE"):
        return  # mutant runs against a scratch worktree must not overwrite the evidence of /repo
    os.makedirs(os.path.join(VERIF, "evidence"), exist_ok=True)
    ev = {"property_id": prop, "tier": tier, "seed": seed, "level": level, "coverage": coverage,
          "assumptions": assumptions, "wall_s": round(wall, 2), "violations": violations}
    json.dump(ev, open(os.path.join(VERIF, "evidence", prop + ".json"), "w"), indent=1)
