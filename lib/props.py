"""Registry: one JSON file per property under lib/props.d (keys: check,
manifest, engine_entry)."""
import glob
import json
import os

_D = os.path.join(os.path.dirname(os.path.abspath(__file__)), "props.d")
ENTRIES = {}
for _f in sorted(glob.glob(os.path.join(_D, "C*.json"))):
    ENTRIES[os.path.basename(_f)[:-5]] = json.load(open(_f))
PROPS = {k: v["check"] for k, v in ENTRIES.items()}
