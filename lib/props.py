"""Registry: which harnesses and Coq targets decide which property."""

PROPS = {
    "C19": {
        "level": "proof",
        "engines": [{"cmd": "c19", "n_quick": 4000, "n_thorough": 120000, "shard": 500}],
        "coq_targets": ["theories/Check/C19Check.vo"],
        "assumptions": [
            "ASCII restriction: the model's unicode classification is Go's restricted to code points < 128; "
            "generated inputs compared with the model stay inside ASCII",
            "cases.Title(language.English, cases.NoLower) upper-cases the first rune of a lower-case ASCII word "
            "(validated by comparing encoder outputs on every round-trip case)",
        ],
    },
}
