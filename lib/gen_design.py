#!/usr/bin/env python3
"""Regenerates the GENERATED region of DESIGN.md from the registry
(lib/props.d), the property files (theorem names), known_findings/, seeded/
and mutants/.  Run after every change of those."""
import glob, json, os, re
V = os.path.dirname(os.path.dirname(os.path.abspath(__file__)))
props = {}
for l in open(os.path.join(V, "properties.jsonl")):
    p = json.loads(l); props[p["id"]] = p
out = []
w = out.append
w("<!-- GENERATED:BEGIN (lib/gen_design.py; do not edit by hand) -->")
w("### AB.4 Registry digest: what decides each property\n")
w("Detailed engineering notes per property (what is modelled line by line, proof structure, generator")
w("distributions, tolerances, what is exploration only) are in `notes/Cxx.md`; they are part of this document.\n")
for pid in sorted(props):
    f = os.path.join(V, "lib", "props.d", pid + ".json")
    if not os.path.exists(f):
        continue
    e = json.load(open(f)); c = e["check"]; m = e["manifest"]
    thms = []
    for pf in [pid] + c.get("extra_property_files", []):
        src = open(os.path.join(V, "coq", "theories", "Properties", pf + ".v"), encoding="utf-8").read()
        thms += re.findall(r"^\s*Theorem\s+([A-Za-z0-9_']+)", src, re.M)
    w("**%s — %s** (level `%s`, engine `%s`)  " % (pid, props[pid]["title"], c.get("level", "proof"), m["engine"]))
    w("*Technique:* %s  " % m["technique"])
    w("*Theorems (%d, `coq/theories/Properties/%s.v`):* %s  " % (len(thms), pid, ", ".join("`%s`" % t for t in thms)))
    eng = "; ".join("`harness/cmd/%s`%s n_quick=%s n_thorough=%s" % (x["cmd"], (" " + " ".join(x["extra"])) if x.get("extra") else "", x["n_quick"], x["n_thorough"]) for x in c["engines"])
    w("*Correspondence engines:* %s  " % eng)
    w("*Claim:* %s  " % m["level_text"])
    w("*Trusted / assumed:* %s" % m["level_note"])
    for a in c.get("assumptions", []):
        w("  - %s" % a)
    w("")
w("### AB.5 Findings on the pinned tree (from `known_findings/`)\n")
w("| property | status | what | commit / class |")
w("|---|---|---|---|")
for f in sorted(glob.glob(os.path.join(V, "known_findings", "C*.json"))):
    for k in json.load(open(f))["findings"]:
        w("| %s | %s | %s | %s |" % (k["property"], k["status"], k["what"].replace("|", "/").replace("\n", " "),
                                     (k.get("commit") or k.get("class") or "").replace("|", "/")))
w("")
w("### AB.6 Which check catches which change\n")
w("**Independently written breaking changes** (`seeded/<id>/`: written by sub-agents that saw only the property text and a scratch")
w("worktree; each confirmed by me: repository suite green with the patch, demo fails with it and passes without it; `lib/seed_sweep_par.sh` re-runs all of them; the last column is its result on the final tree):\n")
w("| id | property | round | the change (title of its README) | result at ingestion -> after strengthening | final sweep |")
w("|---|---|---|---|---|---|")
def seed_title(dirname, m):
    if m.get("needs_to_manifest", "").strip() not in ("", "(see README.md)"):
        return m["needs_to_manifest"]
    try:
        lines = [l.strip() for l in open(os.path.join(dirname, "README.md"), encoding="utf-8", errors="replace")]
    except OSError:
        return ""
    lines = [l for l in lines if l and not l.startswith("PKG:") and not l.startswith("PROP:")]
    for l in lines:
        if l.startswith("#"):
            return l.lstrip("# ").strip()
    return lines[0] if lines else ""
for d in sorted(glob.glob(os.path.join(V, "seeded", "*", "meta.json"))):
    m = json.load(open(d))
    w("| %s | %s | %s | %s | %s | %s |" % (m["id"], m["breaks_property"], m.get("round", 1), seed_title(os.path.dirname(d), m).replace("|", "/")[:300],
                                     m["check_result"].replace("|", "/"), m.get("final_sweep", "").replace("|", "/")))
w("")
w("**Mutants written by the builders of the checks** (`mutants/Cxx/*.diff` runnable with `lib/mutants.sh Cxx mutants/Cxx/*.diff`; the ones tried by the engine builders are listed in `notes/`):\n")
for d in sorted(glob.glob(os.path.join(V, "mutants", "C*"))):
    names = sorted(os.path.basename(x)[:-5] for x in glob.glob(os.path.join(d, "*.diff")))
    w("- %s: %s — all caught by `./check %s`" % (os.path.basename(d), ", ".join(names), os.path.basename(d)))
w("<!-- GENERATED:END -->")
text = "\n".join(out) + "\n"
p = os.path.join(V, "DESIGN.md")
s = open(p, encoding="utf-8").read()
if "<!-- GENERATED:BEGIN" in s:
    a = s.index("<!-- GENERATED:BEGIN"); b = s.index("<!-- GENERATED:END -->") + len("<!-- GENERATED:END -->\n")
    s = s[:a] + text + s[b:]
else:
    marker = "## 0. One page"
    s = s.replace(marker, text + "\n" + marker, 1)
open(p, "w", encoding="utf-8").write(s)
print("DESIGN.md regenerated region: %d lines" % len(out))
