#!/bin/bash
# Runs every stored independent seed against the check of the property it breaks
# (scratch worktree, never /repo) and prints one line per seed.
cd "$(dirname "$0")/.."
for d in seeded/*/; do id=$(basename $d); prop=$(python3 -c "import json;print(json.load(open('$d/meta.json'))['breaks_property'])"); lib/mutants.sh $prop $d/patch.diff | sed "s|^MUTANT [^:]*:|SEED $id ($prop):|" | cut -c1-170; done
