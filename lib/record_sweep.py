#!/usr/bin/env python3
"""Stores the result of the last lib/seed_sweep_par.sh run (build/sweep/<id>.txt) as
"final_sweep" in seeded/<id>/meta.json (development-time bookkeeping; no check reads it)."""
import glob, json, os, re
V = os.path.dirname(os.path.dirname(os.path.abspath(__file__)))
n = {"caught": 0, "missed": 0, "other": 0}
for f in sorted(glob.glob(os.path.join(V, "build", "sweep", "*.txt"))):
    sid = os.path.basename(f)[:-4]
    t = open(f).read()
    mp = os.path.join(V, "seeded", sid, "meta.json")
    if not os.path.exists(mp):
        continue
    m = json.load(open(mp))
    if "VIOLATION" in t:
        r = "caught" + (" (no-failing-input-found: correspondence or proof broken)" if "no-failing" in t and t.count("VIOLATION property") == 1 else "")
        n["caught"] += 1
    elif re.search(r": ok \(", t):
        r = "NOT caught by ./check %s" % m["breaks_property"]
        n["missed"] += 1
    elif "does not apply" in t:
        r = "patch no longer applies to the repaired tree"
        n["other"] += 1
    else:
        r = "no verdict (" + t.strip()[-80:] + ")"
        n["other"] += 1
    m["final_sweep"] = r
    json.dump(m, open(mp, "w"), indent=1)
print(n)
