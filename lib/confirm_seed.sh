#!/bin/bash
# usage: confirm_seed.sh <worktree> <outdir> <demo package dir relative to repo>
# Confirms an independently written breaking change: suite green with the patch,
# demo fails with it and passes without it.  Leaves the worktree clean.
export GOFLAGS=-mod=mod GOPROXY=off GOSUMDB=off GOTOOLCHAIN=local
wt=$1; out=$2; pkg=$3
cd $wt && git checkout -q -- . && git clean -fdq
git apply $out/patch.diff || { echo "PATCH-DOES-NOT-APPLY"; exit 1; }
suite=$(go test -vet=off -count=1 ./... 2>&1 | grep -cv '^ok\|no test files')
cp $out/demo_test.go $pkg/zz_demo_test.go
go test -vet=off -count=1 -run 'TestDemo' ./$pkg/ >/tmp/seed_demo_with.log 2>&1; with=$?
git checkout -q -- . ; 
go test -vet=off -count=1 -run 'TestDemo' ./$pkg/ >/tmp/seed_demo_without.log 2>&1; without=$?
rm -f $pkg/zz_demo_test.go; git clean -fdq
echo "suite_nonok_lines=$suite demo_with_patch_exit=$with demo_without_patch_exit=$without"
