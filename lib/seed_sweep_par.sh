#!/bin/bash
# usage: lib/seed_sweep_par.sh [lanes]
# Parallel version of seed_sweep.sh: the stored seeds are run against the check of the
# property they break in <lanes> lanes (default 5), one scratch worktree each (never /repo).
# Seeds that edit the initialism list (they make the check regenerate
# coq/theories/Generated/Initialisms.v and rebuild its dependents) run alone afterwards.
# Output: one line per seed on stdout; results also written to build/sweep/<id>.txt
cd "$(dirname "$0")/.."
lanes=${1:-5}
mkdir -p build/sweep; rm -f build/sweep/*.txt
one() {
  d=$1; id=$(basename $d)
  prop=$(python3 -c "import json;print(json.load(open('$d/meta.json'))['breaks_property'])")
  lib/mutants.sh $prop $d/patch.diff | sed "s|^MUTANT [^:]*:|SEED $id ($prop):|" | cut -c1-170 | tee build/sweep/$id.txt
}
export -f one
serial=$(grep -l "commonInitialisms\|^[-+]\s*\"[A-Z0-9]*\": *true" seeded/*/patch.diff | xargs -n1 dirname)
par=$(for d in seeded/*/; do d=${d%/}; echo "$serial" | grep -qx "$d" || echo $d; done)
echo "$par" | xargs -P $lanes -I{} bash -c 'one {}'
for d in $serial; do one $d; done
