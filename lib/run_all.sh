#!/bin/bash
# Runs every claimed check (quick tier by default) and prints one line each.
cd "$(dirname "$0")/.."
tier=${1:-quick}
for p in $(python3 -c "import json;print(' '.join(c['property_id'] for c in json.load(open('MANIFEST.json'))['checks']))"); do
  t0=$(date +%s); out=$(./check $p --tier $tier 2>&1); rc=$?; t1=$(date +%s)
  echo "$p rc=$rc $((t1-t0))s $(echo "$out" | grep -c '^VIOLATION') violations, $(echo "$out" | grep -c '^KNOWN-FINDING') known; $(echo "$out" | grep 'theorems checked' | sed 's/.*\] *//')"
done
