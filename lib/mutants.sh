#!/bin/bash
# usage: lib/mutants.sh <prop> <patchfile>...
# Applies each patch to a SCRATCH worktree of /repo (never to /repo itself), runs the
# quick check against it (VERIF_REPO), removes the worktree.  Safe to run concurrently.
prop=$1; shift
for p0 in "$@"; do p=$(realpath "$p0")
  wt=/var/tmp/mut-$$-$RANDOM
  git -C /repo worktree add -q --detach $wt HEAD || { echo "MUTANT $p0: cannot create worktree"; continue; }
  if ! git -C $wt apply "$p" 2>/dev/null; then echo "MUTANT $(basename $(dirname $p))/$(basename $p): patch does not apply"; git -C /repo worktree remove --force $wt; continue; fi
  out=$(cd "$(dirname "$0")/.." && VERIF_REPO=$wt VERIF_NO_EVIDENCE=1 ./check $prop 2>&1 | grep -E "^VIOLATION|: ok|: VIOLATION" | head -3)
  tag=$(printf %s "$wt" | sha1sum | cut -c1-10); rm -f "$(dirname "$0")/../build/"*_$tag "$(dirname "$0")/../build/"alt_$tag.*
  git -C /repo worktree remove --force $wt; git -C /repo worktree prune
  echo "MUTANT $(basename $(dirname $p))/$(basename $p): $out" | tr '\n' ' '; echo
done
