#!/bin/bash
# usage: lib/mutants.sh <prop> <patchfile>...   applies each patch to /repo, runs the quick check, reverts.
prop=$1; shift
for p0 in "$@"; do p=$(realpath "$p0")
  if ! git -C /repo apply --check "$p" 2>/dev/null; then echo "MUTANT $p: patch does not apply"; continue; fi
  git -C /repo apply "$p"
  out=$(cd /verif && ./check $prop 2>&1 | grep -E "^VIOLATION|: ok|: VIOLATION" | head -3)
  git -C /repo checkout -- .
  echo "MUTANT $(basename $p): $out" | tr '\n' ' '; echo
done
