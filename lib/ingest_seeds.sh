#!/bin/bash
# usage: lib/ingest_seeds.sh <seed-root e.g. /var/tmp/seed/r2a>
# For every out/k: confirm (suite green with patch, demo fails with / passes without),
# run the quick check of the property named in README (PROP:) against the patch, and
# store it as seeded/<PROP>-<next letter>/ with a meta.json (needs_to_manifest to be edited).
root=$1; round=${2:-2}
V="$(cd "$(dirname "$0")/.." && pwd)"
for d in $root/out/*/; do
  k=$(basename $d)
  pkg=$(grep -m1 '^PKG:' $d/README.md | sed 's/PKG: *//;s/`//g')
  prop=$(grep -m1 '^PROP:' $d/README.md | sed 's/PROP: *//;s/`//g' | grep -o 'C[0-9][0-9]' | head -1)
  [ -z "$pkg" ] && pkg=.
  conf=$($V/lib/confirm_seed.sh $root/repo $d $pkg)
  res=$($V/lib/mutants.sh $prop $d/patch.diff | sed 's/^MUTANT [^:]*: *//' | cut -c1-200)
  for l in a b c d e f g h i j k l m n o p q r s t u v w x y z; do [ -e $V/seeded/$prop-$l ] || break; done
  id=$prop-$l
  mkdir -p $V/seeded/$id; cp $d/patch.diff $d/demo_test.go $d/README.md $V/seeded/$id/
  python3 - "$id" "$prop" "$pkg" "$conf" "$res" "$round" <<'PY'
import json,sys
id,prop,pkg,conf,res,rnd=sys.argv[1:7]
caught = "VIOLATION" in res
json.dump({"id":id,"breaks_property":prop,"round":int(rnd),"written_by":"independent sub-agent given only the property text and a scratch worktree",
 "demo":"demo_test.go, to be placed in package directory '%s' of the repository (go test -run TestDemo ./%s/)"%(pkg,pkg),
 "needs_to_manifest":"(see README.md)",
 "confirmed_by_me":"lib/confirm_seed.sh: "+conf,
 "check_result":("caught by ./check %s" % prop) if caught else ("MISSED by ./check %s at the time of ingestion" % prop),
 "check_output":res},open("/verif/seeded/%s/meta.json"%id,"w"),indent=1)
PY
  echo "$id <- $root/out/$k pkg=$pkg | $conf | $res" | cut -c1-260
done
