"""Texts for MANIFEST.json."""
ENGINES = [
    {"name": "text", "path": "coq/theories/Text + harness/cmd/c19", "serves_properties": ["C19"],
     "kind_free_text": "Gallina model of caseconversion at rune level, theorems by induction over word/segment lists; correspondence via coqc vm_compute on harness cases"},
]

PENDING = "not yet built in this round (claimed once its model, theorems and correspondence check exist)"
NOT_APPLICABLE = {p: PENDING for p in
                  ["C01", "C02", "C03", "C04", "C05", "C06", "C07", "C08", "C09", "C10", "C11", "C12", "C13",
                   "C14", "C15", "C16", "C17", "C18", "C20"]}

TEXT = {
    "C19": {
        "engine": "text",
        "design_ref": "DESIGN.md 5/C19",
        "technique": "Coq proof by induction over word and segment lists on a rune-level Gallina model; model-vs-implementation correspondence evaluated by vm_compute",
        "level_text": "Machine-checked theorems (Coq kernel, closed under the global context): the six decode(encode ws) = ws laws for every non-empty list of words over [a-z][a-z0-9]*, and DecodeGoCamelCase(name) = tokens for every name assembled from capitalised words and initialisms of the source's own list inside a decidable guard whose complement is exactly four known-finding classes (each refuted by a vm_compute witness). The theorems are about a hand-written rune-level model of case_conversion.go; the initialism list is regenerated from the Go source on every run; the model is tied to the code by running all 8 decoders and 6 encoders of the current tree on generated inputs and comparing with the model inside Coq.",
        "level_note": "Trusted: Coq kernel; the hand-written model (checked against the code only on sampled inputs); ASCII restriction of unicode classification; x/text cases.Title on ASCII words; Go harness and python driver.",
    },
}
