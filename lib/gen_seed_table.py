#!/usr/bin/env python3
"""Prints the DESIGN.md table of independently written breaking changes (seeded/*)."""
import glob, json, os
V = os.path.dirname(os.path.dirname(os.path.abspath(__file__)))
print("| id | property | what it needs to manifest | result |")
print("|---|---|---|---|")
for d in sorted(glob.glob(os.path.join(V, "seeded", "*", "meta.json"))):
    m = json.load(open(d))
    print("| %s | %s | %s | %s |" % (m["id"], m["breaks_property"], m["needs_to_manifest"].replace("|", "/"), m["check_result"].replace("|", "/")))
