(* Non-vacuity examples for C18 / C20-B: a concrete config type, layers and
   files satisfying every hypothesis of the theorems, evaluated. *)
From Coq Require Import String.
From Coq Require Import List NArith ZArith Bool.
From Dials Require Import Base.Outcome Base.Runes Reflect.Ty Reflect.Ptrify Stack.Overlay Stack.StackSpec
  Stack.Spine Stack.StackProofs Ez.SeqDials Ez.Ez Ez.EzProofs.
Import ListNotations.
Open Scope string_scope.
Open Scope list_scope.

Definition tint := TBasic (KInt 64) [].
Definition tstr := TBasic KString [].
Definition tbool := TBasic KBool [].
Definition F (n : string) (t : ty) (r : fields) := FCons (s2r n) [] false t r.

(* struct { ConfigFile string; Valid bool; A int; Sub struct{ X int } } *)
Definition cfg : fields :=
  F "ConfigFile" tstr (F "Valid" tbool (F "A" tint (F "Sub" (TStruct (F "X" tint FNil) (s2r "Sub")) FNil))).
Definition defaults : cfgv := [VStr (s2r "a.json"); VBool false; VInt 1; VStruct [VInt 10]].
Definition envl : val := VStruct [VNil; VNil; VPtr (VInt 2); VNil].
Definition flagl : val := VStruct [VPtr (VStr (s2r "b.json")); VNil; VNil; VPtr (VStruct [VPtr (VInt 30)])].
Definition file_a : val := VPtr (VStruct [VNil; VPtr (VBool true); VPtr (VInt 7); VNil]).
Definition file_b : val := VPtr (VStruct [VNil; VPtr (VBool true); VPtr (VInt 8); VPtr (VStruct [VPtr (VInt 80)])]).

Definition cpath (c : cfgv) : option str :=
  match c with VStr (ch :: s) :: _ => Some (ch :: s) | _ => None end.
Definition verify (c : cfgv) : bool := match c with _ :: VBool true :: _ => true | _ => false end.
Definition files (p : str) : outcome val :=
  if str_eqb p (s2r "a.json") then Ok file_a else if str_eqb p (s2r "b.json") then Ok file_b else Err 0.

Example hypotheses_hold :
  cfg_ok cfg && spine_fields cfg defaults && layer_ok cfg envl && layer_ok cfg flagl
  && layer_ok cfg file_a && layer_ok cfg file_b = true.
Proof. vm_compute. reflexivity. Qed.

(* the flag overrides the path: file b is read; precedence defaults < file < env < flag per leaf;
   the config is valid only thanks to the file; exactly one Verify call, on the full stack *)
Example ez_example :
  let r := ez_run cfg defaults verify envl flagl cpath files true in
  ez_ok r = true /\
  option_map (@d_cur) (ez_state r) = Some [VStr (s2r "b.json"); VBool true; VInt 2; VStruct [VInt 30]] /\
  ez_vlog r = [[VStr (s2r "b.json"); VBool true; VInt 2; VStruct [VInt 30]]] /\
  ez_newcfg_calls r = O /\ ez_hang r = false.
Proof. vm_compute. repeat split; reflexivity. Qed.

(* a missing file is an error and Verify is never called *)
Example ez_missing_file :
  let r := ez_run cfg defaults verify envl (VStruct [VPtr (VStr (s2r "nope.json")); VNil; VNil; VNil]) cpath files false in
  ez_ok r = false /\ ez_vlog r = [].
Proof. vm_compute. split; reflexivity. Qed.
