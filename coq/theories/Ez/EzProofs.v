(* Proofs for C18 (ez) and the Blank half of C20 over the sequential models. *)
From Coq Require Import List NArith ZArith Bool Lia.
From Dials Require Import Base.Outcome Base.Runes Reflect.Ty Reflect.Ptrify Stack.Overlay Stack.StackSpec
  Stack.Spine Stack.StackProofs Ez.SeqDials Ez.Ez.
Import ListNotations.
Open Scope N_scope.

Lemma spine_ptrified_nil t pt : ptrify_ty t = Some pt -> spine pt VNil = true.
Proof.
  destruct t; cbn; intro H; inversion H; subst; try reflexivity.
  destruct t; inversion H; reflexivity.
Qed.

Lemma spine_nils fs : spine_fields (ptrify_fields fs) (nils (fields_len (ptrify_fields fs))) = true.
Proof.
  induction fs as [|n tags anon t r IH]; [reflexivity|]. cbn [ptrify_fields].
  destruct (omit_field n tags); [exact IH|].
  destruct (ptrify_ty t) as [pt|] eqn:E; [|exact IH].
  cbn. rewrite (spine_ptrified_nil t pt E), IH. reflexivity.
Qed.

Lemma forallb_nils n : forallb is_vnil (nils n) = true.
Proof. induction n; cbn; auto. Qed.

Section EzProofs.
  Variable fs : fields.
  Variable defaults : cfgv.
  Variable verify : cfgv -> bool.
  Variable env_layer flag_layer : val.
  Variable config_path : cfgv -> option str.
  Variable file_value : str -> outcome val.
  Variable watch : bool.

  Hypothesis Hcfg : cfg_ok fs = true.
  Hypothesis Hd : spine_fields fs defaults = true.
  Hypothesis Henv : layer_ok fs env_layer = true.
  Hypothesis Hflag : layer_ok fs flag_layer = true.
  Hypothesis Hfile : forall p l, file_value p = Ok l -> layer_ok fs l = true.

  Lemma blank_ok : layer_ok fs (blank_layer fs) = true.
  Proof. unfold layer_ok, blank_layer. cbn. apply spine_nils. Qed.

  Lemma blank_unset : all_unset (blank_layer fs) = true.
  Proof. unfold all_unset, blank_layer. cbn. apply forallb_nils. Qed.

  Lemma compose3 l : layer_ok fs l = true ->
    compose fs defaults [l; env_layer; flag_layer] = Ok (stack fs defaults [l; env_layer; flag_layer]).
  Proof.
    intros Hl. refine (proj1 (compose_eq_stack_l fs Hcfg _ defaults Hd _)).
    cbn. rewrite Hl, Henv, Hflag. reflexivity.
  Qed.

  (* the intermediate, file-less config *)
  Definition v0 : cfgv := stack fs defaults [env_layer; flag_layer].
  (* the full stack for a file layer *)
  Definition full (fl : val) : cfgv := stack fs defaults [fl; env_layer; flag_layer].

  Lemma blank_stack : stack fs defaults [blank_layer fs; env_layer; flag_layer] = v0.
  Proof. apply (stack_unset_layer_id_l fs defaults [] (blank_layer fs) [env_layer; flag_layer]), blank_unset. Qed.

  Notation run := (ez_run fs defaults verify env_layer flag_layer config_path file_value watch).

  (* complete description of what the entry point does *)
  Definition ez_expected : bool * list cfgv * option cfgv :=
    match config_path v0 with
    | None => (verify v0, [v0], Some v0)
    | Some p =>
        match file_value p with
        | Ok fl => (verify (full fl), [full fl], Some (full fl))
        | _ => (false, [], None)
        end
    end.

  Lemma ez_run_spec :
    (forall st, ez_state run = Some st -> ez_ok run = true) /\
    ez_ok run = fst (fst ez_expected) /\
    ez_vlog run = snd (fst ez_expected) /\
    ez_newcfg_calls run = O /\ ez_err_calls run = O /\ ez_hang run = false /\
    (ez_ok run = true -> exists st, ez_state run = Some st /\ Some (d_cur st) = snd ez_expected /\
                                    d_events st = None /\ d_skipv st = false /\
                                    d_slots st = match config_path v0 with
                                                 | Some p => match file_value p with
                                                             | Ok fl => [fl; env_layer; flag_layer]
                                                             | _ => [] end
                                                 | None => [blank_layer fs; env_layer; flag_layer] end).
  Proof.
    unfold ez_run, ez_expected, d_config. rewrite (compose3 _ blank_ok), blank_stack. cbn [ez_params p_skip p_delay negb andb].
    cbn [d_cur]. destruct (config_path v0) as [p|] eqn:Ep.
    - (* a config file is named *)
      unfold blank_set_source. cbn [b_inner d_alive existsb orb negb].
      destruct watch eqn:Ew; cbn [src_value].
      + destruct (file_value p) as [fl|c|c] eqn:Ef; cbn [fst snd].
        * unfold d_update. cbn [d_slots set_nth]. rewrite (compose3 fl (Hfile p fl Ef)). fold (full fl).
          cbn [d_skipv ez_params p_delay p_suppress negb andb d_events d_vlog d_newcfg d_errcb d_cur d_serial d_watching d_alive].
          unfold d_enable. cbn [ez_params p_delay negb d_skipv d_cur d_serial d_vlog d_events d_newcfg d_errcb d_slots d_watching d_alive].
          destruct (verify (full fl)) eqn:Ev; cbn [d_recv_event d_events mk_res mk_hang ez_ok ez_vlog ez_newcfg_calls ez_err_calls ez_hang ez_state d_vlog d_newcfg d_errcb length app fst snd];
            repeat split; try reflexivity; try discriminate; try (intros ? ?; (reflexivity || discriminate)).
          intros _. eexists. split; [reflexivity|]. cbn. repeat split; reflexivity.
        * cbn. repeat split; try reflexivity; try discriminate; intros ? ?; discriminate.
        * cbn. repeat split; try reflexivity; try discriminate; intros ? ?; discriminate.
      + destruct (file_value p) as [fl|c|c] eqn:Ef; cbn [fst snd].
        * unfold d_update. cbn [d_slots set_nth]. rewrite (compose3 fl (Hfile p fl Ef)). fold (full fl).
          cbn [d_skipv ez_params p_delay p_suppress negb andb d_events d_vlog d_newcfg d_errcb d_cur d_serial d_watching d_alive].
          unfold d_enable. cbn [ez_params p_delay negb d_skipv d_cur d_serial d_vlog d_events d_newcfg d_errcb d_slots d_watching d_alive].
          destruct (verify (full fl)) eqn:Ev; cbn [d_recv_event d_events mk_res mk_hang ez_ok ez_vlog ez_newcfg_calls ez_err_calls ez_hang ez_state d_vlog d_newcfg d_errcb length app fst snd blank_done b_inner is_watcher b_has_wa d_done];
            repeat split; try reflexivity; try discriminate; try (intros ? ?; (reflexivity || discriminate)).
          intros _. eexists. split; [reflexivity|]. cbn. repeat split; reflexivity.
        * cbn. repeat split; try reflexivity; try discriminate; intros ? ?; discriminate.
        * cbn. repeat split; try reflexivity; try discriminate; intros ? ?; discriminate.
    - (* no config file: verify the env+flag stack *)
      unfold d_enable. cbn [ez_params p_delay negb d_skipv d_cur d_serial d_vlog d_events d_newcfg d_errcb d_slots d_watching d_alive].
      destruct (verify v0) eqn:Ev; destruct watch;
        cbn [mk_res ez_ok ez_vlog ez_newcfg_calls ez_err_calls ez_hang ez_state d_vlog d_newcfg d_errcb length app fst snd blank_done b_inner b_has_wa d_done];
        repeat split; try reflexivity; try discriminate; try (intros ? ?; (reflexivity || discriminate));
        intros _; eexists; (split; [reflexivity|]); cbn; repeat split; reflexivity.
  Qed.

  Lemma ez_first_view_l : ez_ok run = true ->
    exists st, ez_state run = Some st /\ d_events st = None /\ d_skipv st = false /\
      match config_path v0 with
      | Some p => exists fl, file_value p = Ok fl /\ d_cur st = full fl /\ verify (full fl) = true
      | None => d_cur st = v0 /\ verify v0 = true
      end.
  Proof.
    intros Hok. destruct ez_run_spec as (_ & E1 & _ & _ & _ & _ & E6).
    destruct (E6 Hok) as (st & Hs & Hc & He & Hk & _). exists st. repeat split; try assumption.
    rewrite Hok in E1. unfold ez_expected in *.
    destruct (config_path v0) as [p|].
    - destruct (file_value p) as [fl|c|c]; cbn in *; try discriminate.
      exists fl. inversion Hc. repeat split; congruence.
    - cbn in *. inversion Hc. split; congruence.
  Qed.

  Lemma ez_verify_only_full_l :
    match config_path v0 with
    | Some p => match file_value p with
                | Ok fl => ez_vlog run = [full fl] /\ ez_ok run = verify (full fl)
                | _ => ez_vlog run = [] /\ ez_ok run = false
                end
    | None => ez_vlog run = [v0] /\ ez_ok run = verify v0
    end.
  Proof.
    destruct ez_run_spec as (_ & E1 & E2 & _). unfold ez_expected in *.
    destruct (config_path v0) as [p|]; [destruct (file_value p)|]; cbn in *; split; assumption.
  Qed.

  Lemma ez_intermediate_hidden_l :
    ez_newcfg_calls run = O /\ ez_err_calls run = O /\ ez_hang run = false /\
    (forall st, ez_state run = Some st -> d_events st = None).
  Proof.
    destruct ez_run_spec as (E0 & _ & _ & E3 & E4 & E5 & E6).
    repeat split; try assumption. intros st Hst.
    destruct (E6 (E0 st Hst)) as (st' & Hs & _ & He & _). congruence.
  Qed.
End EzProofs.

(* ---- later file changes re-stack under the same precedence ---- *)
Section Restack.
  Variable fs : fields.
  Variable defaults : cfgv.
  Variable verify : cfgv -> bool.
  Variable env_layer flag_layer : val.
  Hypothesis Hcfg : cfg_ok fs = true.
  Hypothesis Hd : spine_fields fs defaults = true.
  Hypothesis Henv : layer_ok fs env_layer = true.
  Hypothesis Hflag : layer_ok fs flag_layer = true.

  Lemma ez_restack_l st fl0 fl : layer_ok fs fl = true ->
    d_slots st = [fl0; env_layer; flag_layer] -> d_skipv st = false ->
    let v := full fs defaults env_layer flag_layer fl in
    let st' := ez_file_update fs defaults verify st fl in
    (verify v = true ->
       d_cur st' = v /\ d_serial st' = d_serial st + 1 /\ d_vlog st' = d_vlog st ++ [v] /\
       d_newcfg st' = d_newcfg st ++ [(d_cur st, v)] /\ d_errcb st' = d_errcb st) /\
    (verify v = false ->
       d_cur st' = d_cur st /\ d_serial st' = d_serial st /\ d_vlog st' = d_vlog st ++ [v] /\
       d_newcfg st' = d_newcfg st /\ d_errcb st' = d_errcb st ++ [(d_cur st, Some v)]) /\
    d_slots st' = [fl; env_layer; flag_layer] /\ d_skipv st' = false.
  Proof.
    intros Hfl Hslots Hsk v st'. subst v st'. unfold ez_file_update, d_update. rewrite Hslots. cbn [set_nth].
    rewrite (compose3 fs defaults env_layer flag_layer Hcfg Hd Henv Hflag fl Hfl).
    fold (full fs defaults env_layer flag_layer fl). rewrite Hsk. cbn [negb andb].
    destruct (verify (full fs defaults env_layer flag_layer fl)) eqn:Ev; cbn;
      (split; [intro H; try discriminate; repeat split; reflexivity|]);
      (split; [intro H; try discriminate; repeat split; reflexivity|]); split; reflexivity.
  Qed.
End Restack.

(* ---- sourcewrap.Blank (C20, second half) ---- *)
Section BlankProofs.
  Variable fs : fields.
  Variable defaults : cfgv.
  Variable verify : cfgv -> bool.
  Variable prm : dparams.

  Notation set_source := (blank_set_source fs defaults verify prm).

  Lemma blank_refuses_replacing_watcher_l b st old s :
    b_inner b = Some old -> is_watcher old = true ->
    set_source b st s = (b, st, Err 20).
  Proof. intros Hi Hw. unfold blank_set_source. rewrite Hi, Hw. reflexivity. Qed.

  Lemma blank_failed_value_keeps_old_l b st s :
    is_ok (src_value s) = false ->
    (forall old, b_inner b = Some old -> is_watcher old = false) ->
    exists r, set_source b st s = (b, st, r) /\ is_ok r = false.
  Proof.
    intros Hv Hold. unfold blank_set_source. destruct (b_inner b) as [old|] eqn:Ei.
    - rewrite (Hold old eq_refl). destruct (src_value s); [discriminate| |]; eexists; split; reflexivity.
    - destruct (src_value s); [discriminate| |]; eexists; split; reflexivity.
  Qed.

  (* a successful SetSource makes the Blank delegate to the new source, and
     what reaches the config is exactly a value update of slot 0 with the
     inner source's value - as if the inner source had reported it natively *)
  Lemma blank_delegates_latest_l b st s v :
    src_value s = Ok v -> d_alive st = true ->
    (forall old, b_inner b = Some old -> is_watcher old = false) ->
    let '(b', st', r) := set_source b st s in
    b_inner b' = Some s /\ blank_value fs b' = Ok v /\
    st' = fst (d_update fs defaults verify prm st 0 v) /\
    (is_ok r = true -> snd (d_update fs defaults verify prm st 0 v) = Ok tt).
  Proof.
    intros Hv Hal Hold. unfold blank_set_source. rewrite Hal. cbn [negb].
    destruct (b_inner b) as [old|] eqn:Ei; [rewrite (Hold old eq_refl)|]; rewrite Hv;
      destruct (d_update fs defaults verify prm st 0 v) as [st' r] eqn:Eu; cbn [fst snd];
      destruct r as [[]|c|c]; try (destruct s as [sv|sv [|]]); cbn in *;
      unfold blank_value; cbn; rewrite ?Hv; repeat split; try reflexivity; try discriminate.
  Qed.

  (* Done is forwarded exactly while the Blank owns the watch slot *)
  Lemma blank_done_only_while_owner_l b st :
    blank_done b st =
    match b_inner b with
    | Some s => if is_watcher s then st else if b_has_wa b then d_done st 0 else st
    | None => if b_has_wa b then d_done st 0 else st
    end.
  Proof. reflexivity. Qed.

  (* once a watching source is inside, no sequence of SetSource / Done / report
     operations replaces it, and the Blank never signals Done for the slot *)
  Notation step := (blank_step fs defaults verify prm).

  Lemma watcher_sticky_l ops : forall b st w, b_inner b = Some w -> is_watcher w = true ->
    let '(b', st') := fold_left (fun bs o => fst (step bs o)) ops (b, st) in
    b' = b /\ d_watching st' = d_watching st.
  Proof.
    induction ops as [|o ops IH]; intros b st w Hi Hw; [split; reflexivity|]. cbn [fold_left].
    assert (E : exists st1, fst (step (b, st) o) = (b, st1) /\ d_watching st1 = d_watching st).
    { destruct o as [s| |v]; cbn [blank_step fst snd].
      - rewrite (blank_refuses_replacing_watcher_l b st w s Hi Hw). eexists. split; reflexivity.
      - unfold blank_done. rewrite Hi, Hw. eexists. split; reflexivity.
      - rewrite Hi. destruct w as [?|? [|]]; try discriminate.
        + destruct (d_alive st); [|eexists; split; reflexivity].
          unfold d_update. destruct (compose fs defaults (set_nth 0 v (d_slots st))) as [c|c|c];
            [destruct (negb (d_skipv st) && negb (verify c))| |]; eexists; split; reflexivity.
        + eexists. split; reflexivity. }
    destruct E as (st1 & E & Hw1). rewrite E.
    specialize (IH b st1 w Hi Hw). destruct (fold_left _ ops (b, st1)) as [b' st'].
    destruct IH as [A B]. split; [exact A|congruence].
  Qed.
End BlankProofs.
