(* A sequential model of the dials operations that the ez entry points (and
   sourcewrap.Blank) perform one after the other on a single goroutine:
   Config (dials.go:94-171), the monitor's handling of a value update
   (updateSourceValue, dials.go:429-492 + the newConfigEvent of monitor,
   dials.go:653-665), EnableVerification through the monitor
   (monitorEnableVerify, dials.go:605-624), the source-error report
   (dials.go:666-674), Done (markSourceDone) and the callback goroutine's
   treatment of global callbacks (cb_mgr.go:72-81).  Every operation ez uses
   is synchronous (blocking report, enable with a response channel), so the
   interleaving with the monitor goroutine is fully determined; registered
   (non-global) callbacks and concurrent readers are the subject of C04-C09,
   not of this file.  Stacking is C01's compose. *)
From Coq Require Import List NArith ZArith Bool.
From Dials Require Import Base.Outcome Base.Runes Reflect.Ty Reflect.Ptrify Stack.Overlay.
Import ListNotations.
Open Scope N_scope.

Definition cfgv := list val.   (* field values of the config struct *)

Record dparams := {
  p_skip : bool;       (* SkipInitialVerification *)
  p_delay : bool;      (* DelayInitialVerification *)
  p_suppress : bool;   (* CallGlobalCallbacksAfterVerificationEnabled *)
}.

Record dstate := {
  d_slots : list val;            (* the current layer of every source, in argument order *)
  d_watching : list bool;        (* which sources still own a watch slot *)
  d_cur : cfgv;                  (* installed config *)
  d_serial : N;
  d_skipv : bool;                (* monitor-local skipVerify *)
  d_events : option cfgv;        (* the capacity-1 Events channel *)
  d_vlog : list cfgv;            (* receivers of every Verify call, in order *)
  d_newcfg : list (cfgv * cfgv); (* OnNewConfig invocations (old, new) *)
  d_errcb : list (cfgv * option cfgv); (* OnWatchedError invocations (old, rejected) *)
  d_alive : bool;                (* monitor goroutine running *)
}.

Section Seq.
  Variable fs : fields.               (* the config struct type *)
  Variable defaults : cfgv.
  Variable verify : cfgv -> bool.     (* the config's Verify method *)
  Variable prm : dparams.

  (* Params.Config *)
  Definition d_config (layers : list val) (watching : list bool) : outcome dstate :=
    match compose fs defaults layers with
    | Ok v =>
        let st := {| d_slots := layers; d_watching := watching; d_cur := v; d_serial := 0;
                     d_skipv := p_delay prm; d_events := None; d_vlog := []; d_newcfg := []; d_errcb := [];
                     d_alive := existsb (fun b => b) watching |} in
        if negb (p_skip prm) && negb (p_delay prm) then
          if verify v then Ok {| d_slots := layers; d_watching := watching; d_cur := v; d_serial := 0;
                                 d_skipv := p_delay prm; d_events := None; d_vlog := [v]; d_newcfg := [];
                                 d_errcb := []; d_alive := existsb (fun b => b) watching |}
          else Err 10
        else Ok st
    | Err c => Err c
    | Panic c => Panic c
    end.

  Fixpoint set_nth {A} (i : nat) (x : A) (l : list A) : list A :=
    match l, i with
    | [], _ => []
    | _ :: r, O => x :: r
    | y :: r, S j => y :: set_nth j x r
    end.

  (* a value update from source i handled by the monitor; the returned
     outcome is what a blocking reporter receives on its reply channel *)
  Definition d_update (st : dstate) (i : nat) (layer : val) : dstate * outcome unit :=
    let slots := set_nth i layer (d_slots st) in
    match compose fs defaults slots with
    | Ok v =>
        if negb (d_skipv st) && negb (verify v) then
          ({| d_slots := slots; d_watching := d_watching st; d_cur := d_cur st; d_serial := d_serial st;
              d_skipv := d_skipv st; d_events := d_events st; d_vlog := d_vlog st ++ [v];
              d_newcfg := d_newcfg st; d_errcb := d_errcb st ++ [(d_cur st, Some v)]; d_alive := d_alive st |},
           Err 11)
        else
          let suppressed := d_skipv st && p_suppress prm in
          ({| d_slots := slots; d_watching := d_watching st; d_cur := v; d_serial := d_serial st + 1;
              d_skipv := d_skipv st;
              d_events := match d_events st with None => Some v | Some e => Some e end;
              d_vlog := if d_skipv st then d_vlog st else d_vlog st ++ [v];
              d_newcfg := if suppressed then d_newcfg st else d_newcfg st ++ [(d_cur st, v)];
              d_errcb := d_errcb st; d_alive := d_alive st |},
           Ok tt)
    | Err c =>
        ({| d_slots := slots; d_watching := d_watching st; d_cur := d_cur st; d_serial := d_serial st;
            d_skipv := d_skipv st; d_events := d_events st; d_vlog := d_vlog st;
            d_newcfg := d_newcfg st; d_errcb := d_errcb st ++ [(d_cur st, None)]; d_alive := d_alive st |},
         Err c)
    | Panic c => (st, Panic c)
    end.

  (* EnableVerification with a running monitor *)
  Definition d_enable (st : dstate) : dstate * outcome (cfgv * N) :=
    if negb (p_delay prm) then (st, Ok (d_cur st, d_serial st))
    else if negb (d_skipv st) then (st, Ok (d_cur st, d_serial st))
    else
      let st' := {| d_slots := d_slots st; d_watching := d_watching st; d_cur := d_cur st; d_serial := d_serial st;
                    d_skipv := negb (verify (d_cur st)); d_events := d_events st;
                    d_vlog := d_vlog st ++ [d_cur st]; d_newcfg := d_newcfg st; d_errcb := d_errcb st;
                    d_alive := d_alive st |} in
      if verify (d_cur st) then (st', Ok (d_cur st, d_serial st)) else (st', Err 12).

  (* WatchArgs.Done of source i *)
  Definition d_done (st : dstate) (i : nat) : dstate :=
    let w := set_nth i false (d_watching st) in
    {| d_slots := d_slots st; d_watching := w; d_cur := d_cur st; d_serial := d_serial st;
       d_skipv := d_skipv st; d_events := d_events st; d_vlog := d_vlog st; d_newcfg := d_newcfg st;
       d_errcb := d_errcb st; d_alive := d_alive st && existsb (fun b => b) w |}.

  (* <-d.Events() *)
  Definition d_recv_event (st : dstate) : dstate * option cfgv :=
    ({| d_slots := d_slots st; d_watching := d_watching st; d_cur := d_cur st; d_serial := d_serial st;
        d_skipv := d_skipv st; d_events := None; d_vlog := d_vlog st; d_newcfg := d_newcfg st;
        d_errcb := d_errcb st; d_alive := d_alive st |}, d_events st).
End Seq.
