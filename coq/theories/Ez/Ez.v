(* Model of ez.ConfigFileEnvFlagDecoderFactoryParams (/repo/ez/ez.go:158-272)
   and of sourcewrap.Blank (/repo/sourcewrap/blank.go) as sequential scripts
   over Ez/SeqDials.v. *)
From Coq Require Import List NArith ZArith Bool.
From Dials Require Import Base.Outcome Base.Runes Reflect.Ty Reflect.Ptrify Stack.Overlay Ez.SeqDials.
Import ListNotations.
Open Scope N_scope.

(* ---- sourcewrap.Blank ---- *)
Inductive inner_src :=
| SrcStatic (v : outcome val)                 (* a non-watching source: what Value returns *)
| SrcWatcher (v : outcome val) (watch_ok : bool). (* a watching source: Value, and whether Watch succeeds *)

Record blank := {
  b_inner : option inner_src;
  b_has_wa : bool;   (* Watch has been called: the Blank knows its WatchArgs *)
}.

Definition src_value (s : inner_src) : outcome val :=
  match s with SrcStatic v => v | SrcWatcher v _ => v end.
Definition is_watcher (s : inner_src) : bool :=
  match s with SrcWatcher _ _ => true | SrcStatic _ => false end.

(* Blank.Value: delegates, or a pointer to the zero value of the pointerified type *)
Fixpoint nils (n : nat) : list val := match n with O => [] | S k => VNil :: nils k end.
Definition blank_layer (fs : fields) : val := VPtr (VStruct (nils (fields_len (ptrify_fields fs)))).

Definition blank_value (fs : fields) (b : blank) : outcome val :=
  match b_inner b with Some s => src_value s | None => Ok (blank_layer fs) end.

Section Ez.
  Variable fs : fields.
  Variable defaults : cfgv.
  Variable verify : cfgv -> bool.

  (* ez always uses Delay + Suppress *)
  Definition ez_params : dparams := {| p_skip := false; p_delay := true; p_suppress := true |}.

  (* Blank.SetSource on the Blank sitting in slot 0 *)
  Definition blank_set_source (prm : dparams) (b : blank) (st : dstate) (s : inner_src)
    : blank * dstate * outcome unit :=
    match b_inner b with
    | Some old =>
        if is_watcher old then (b, st, Err 20)
        else
          match src_value s with
          | Ok v =>
              let b' := {| b_inner := Some s; b_has_wa := b_has_wa b |} in
              if negb (d_alive st) then (b', st, Err 23) else   (* nobody receives the report: context expires *)
              let '(st', r) := d_update fs defaults verify prm st 0 v in
              match r with
              | Ok _ => match s with
                        | SrcWatcher _ false => (b', st', Err 22)
                        | _ => (b', st', Ok tt)
                        end
              | Err c => (b', st', Err c)
              | Panic c => (b', st', Panic c)
              end
          | Err c => (b, st, Err 21)
          | Panic c => (b, st, Panic c)
          end
    | None =>
        match src_value s with
        | Ok v =>
            let b' := {| b_inner := Some s; b_has_wa := b_has_wa b |} in
            if negb (d_alive st) then (b', st, Err 23) else
            let '(st', r) := d_update fs defaults verify prm st 0 v in
            match r with
            | Ok _ => match s with
                      | SrcWatcher _ false => (b', st', Err 22)
                      | _ => (b', st', Ok tt)
                      end
            | Err c => (b', st', Err c)
            | Panic c => (b', st', Panic c)
            end
        | Err c => (b, st, Err 21)
        | Panic c => (b, st, Panic c)
        end
    end.

  (* Blank.Done: forwarded only while the Blank still owns the watch slot *)
  Definition blank_done (b : blank) (st : dstate) : dstate :=
    match b_inner b with
    | Some s => if is_watcher s then st else if b_has_wa b then d_done st 0 else st
    | None => if b_has_wa b then d_done st 0 else st
    end.

  (* histories of operations on a Blank in slot 0 *)
  Inductive blank_op :=
  | OpSet (s : inner_src)
  | OpDone
  | OpReport (v : val).   (* the inner WATCHING source reports a new value through the WatchArgs it was handed *)

  Definition blank_step (prm : dparams) (bs : blank * dstate) (o : blank_op) : blank * dstate * outcome unit :=
    match o with
    | OpSet s => blank_set_source prm (fst bs) (snd bs) s
    | OpDone => (fst bs, blank_done (fst bs) (snd bs), Ok tt)
    | OpReport v =>
        match b_inner (fst bs) with
        | Some (SrcWatcher _ true) =>
            if d_alive (snd bs) then
              let '(st', r) := d_update fs defaults verify prm (snd bs) 0 v in (fst bs, st', r)
            else (fst bs, snd bs, Err 23)
        | _ => (fst bs, snd bs, Err 24)   (* no watching inner source holds the WatchArgs *)
        end
    end.

  (* ---- the ez entry point ---- *)
  Variable env_layer flag_layer : val.
  Variable config_path : cfgv -> option str.        (* ConfigPath() *)
  Variable file_value : str -> outcome val.         (* the (wrapped) file source's Value for a path *)
  Variable watch : bool.                            (* Params.WatchConfigFile *)

  Record ez_result := {
    ez_ok : bool;             (* the entry point returned a Dials (no error) *)
    ez_state : option dstate; (* state of that Dials when the entry point returns *)
    ez_vlog : list cfgv;      (* every Verify call made while the entry point ran *)
    ez_newcfg_calls : nat;    (* global callbacks invoked while it ran *)
    ez_err_calls : nat;
    ez_hang : bool;           (* the entry point would block forever on <-d.Events() *)
  }.

  Definition mk_res (ok : bool) (st : dstate) : ez_result :=
    {| ez_ok := ok; ez_state := if ok then Some st else None; ez_vlog := d_vlog st;
       ez_newcfg_calls := length (d_newcfg st); ez_err_calls := length (d_errcb st); ez_hang := false |}.

  Definition mk_hang (st : dstate) : ez_result :=
    {| ez_ok := false; ez_state := None; ez_vlog := d_vlog st;
       ez_newcfg_calls := length (d_newcfg st); ez_err_calls := length (d_errcb st); ez_hang := true |}.

  Definition ez_run : ez_result :=
    let b0 := {| b_inner := None; b_has_wa := true |} in
    match d_config fs defaults verify ez_params [blank_layer fs; env_layer; flag_layer] [true; false; false] with
    | Ok st0 =>
        match config_path (d_cur st0) with
        | None =>
            let '(st1, r) := d_enable verify ez_params st0 in
            let st2 := if watch then st1 else blank_done b0 st1 in
            match r with Ok _ => mk_res true st2 | _ => mk_res false st2 end
        | Some p =>
            let src := if watch then SrcWatcher (file_value p) true else SrcStatic (file_value p) in
            let '(b1, st1, r1) := blank_set_source ez_params b0 st0 src in
            match r1 with
            | Ok _ =>
                let '(st2, r2) := d_enable verify ez_params st1 in
                match r2 with
                | Ok _ =>
                    let '(st3, ev) := d_recv_event st2 in
                    match ev with
                    | Some _ => mk_res true (if watch then st3 else blank_done b1 st3)
                    | None => mk_hang st3
                    end
                | _ => mk_res false (if watch then st2 else blank_done b1 st2)
                end
            | _ => mk_res false (if watch then st1 else blank_done b1 st1)
            end
        end
    | _ => {| ez_ok := false; ez_state := None; ez_vlog := []; ez_newcfg_calls := 0; ez_err_calls := 0;
              ez_hang := false |}
    end.

  (* a later change of the watched file: the file source reports a new layer *)
  Definition ez_file_update (st : dstate) (layer : val) : dstate :=
    fst (d_update fs defaults verify ez_params st 0 layer).
End Ez.
