(* Text -> value parsing as the sources need it.

   Integers, booleans, strings, slices, sets and maps are parsed by the model
   of package parse (Text/ParseString.v: parse_string over the modelled
   text/scanner, Text/ParseInt.v: strconv.ParseInt/ParseUint), whose theorems
   are property C15.  This file holds
     (1) the bridge from reflect types / tree values (Reflect/Ty.v) to that
         model's own type and value universe (to_ps, of_pval, parse_text);
     (2) exactly what that model lacks and the sources need:
         - (durations are Text/ParseDuration.v; a fraction that model flags as
           inexact is Err 98 here),
         - strconv.ParseFloat / ParseComplex on plain decimal texts whose
           value times 1024 is an integer (Err 98 otherwise),
         - net.IP.UnmarshalText on dotted-quad IPv4 text,
         - pflag's own StringSlice reader (encoding/csv) on unquoted fields.
   unicode.IsPrint is the table isp0 (ASCII plus three printable non-ASCII
   runes): texts that go through the modelled scanner in the correspondence
   checks use no other non-ASCII rune.

   Err codes: ParseInt.e_syntax 1, e_range 2, e_overflow 3, Split's 5-7,
   ParseString.e_kind 8; here 96/97/98 unmodelled. *)
From Coq Require Import String.
From Coq Require Import List NArith ZArith Bool.
From Dials Require Import Base.Outcome Base.Runes Reflect.Ty Text.ParseInt Text.Quote Text.Split.
From Dials Require Text.ParseString Text.ParseDuration.
Import ListNotations.
Open Scope list_scope.
Open Scope N_scope.

Module PS := Dials.Text.ParseString.
Module PD := Dials.Text.ParseDuration.

Definition e_kind : N := PS.e_kind.
Definition e_unmodelled : N := 97.
Definition pow2 (b : N) : N := 2 ^ b.

(* unicode.IsPrint: ASCII plus the three non-ASCII runes the generators use in
   scanned texts (U+00B5, U+03BC: the micro signs of duration units; U+00E9) *)
Definition isp0 : rune -> bool := mk_print [181; 956; 233].

(* ---- time.ParseDuration: the model of Text/ParseDuration.v; a text whose
   fraction step is not exact in that model (flagged there) is Err 98 here ---- *)
Definition parse_duration (s : str) : outcome Z :=
  r <- PD.parse_duration_x s ;; if snd r then Err 98 else Ok (fst r).

(* ---- strconv.ParseFloat / ParseComplex on the plain decimal subset
     [+-]? digits* [. digits*] [ (e|E) [+-]? digits+ ]
   whose value times 1024 is an integer (values are carried as VFloat (v*1024)).
   Anything else in the subset is Err 98 (inexact: not modelled); text outside
   the subset is a syntax error here - "inf", "nan", hexadecimal floats and
   digit separators are never generated. ---- *)
Fixpoint dec_val (acc : N) (s : str) : option N :=
  match s with
  | [] => Some acc
  | c :: r => if is_digit c then dec_val (acc * 10 + (c - 48)) r else None
  end.

Fixpoint span_digits (s : str) : str * str :=
  match s with
  | c :: r => if is_digit c then let '(d, rest) := span_digits r in (c :: d, rest) else ([], s)
  | [] => ([], [])
  end.

(* magnitude bound of a float of the given size: 2^128 / 2^1024 *)
Definition float_bound (bits : N) : Z := Z.of_N (if bits =? 32 then pow2 128 else pow2 1024).
(* math.MaxFloat32 / math.MaxFloat64: the largest finite values *)
Definition float_max (bits : N) : Z :=
  if bits =? 32 then (2 ^ 24 - 1) * 2 ^ 104 else (2 ^ 53 - 1) * 2 ^ 971.

(* how an infinity is carried (no finite float times 1024 reaches it) *)
Definition float_inf : Z := 2 ^ 2000.

Definition parse_float (bits : N) (s : str) : outcome Z :=
  let '(neg, body) :=
    match s with
    | c :: r => if c =? 45 then (true, r) else if c =? 43 then (false, r) else (false, s)
    | [] => (false, s)
    end in
  let '(ip, r1) := span_digits body in
  let '(fp, r2) := match r1 with 46 :: r => span_digits r | _ => ([], r1) end in
  match ip, fp with
  | [], [] =>
      (* strconv's special values: "inf" / "infinity" in any letter case, signed or not, are an
         infinity of either size (never an overflow); "nan" is not modelled *)
      let w := lower_s body in
      if str_eqb w (s2r "inf") || str_eqb w (s2r "infinity") then Ok (if neg then (- float_inf)%Z else float_inf)
      else Err e_syntax
  | _, _ =>
      let eo : option (bool * N) :=
        match r2 with
        | [] => Some (false, 0)
        | c :: r => if (c =? 101) || (c =? 69) then
                      let '(eneg, ed) := match r with
                                         | x :: r' => if x =? 45 then (true, r') else if x =? 43 then (false, r') else (false, r)
                                         | [] => (false, r) end in
                      match ed with [] => None | _ => match dec_val 0 ed with Some e => Some (eneg, e) | None => None end end
                    else None
        end in
      match eo, dec_val 0 (ip ++ fp) with
      | Some (eneg, e), Some m =>
          let k := N.of_nat (length fp) in
          let num := m * 1024 * (if eneg then 1 else 10 ^ e) in
          let den := 10 ^ k * (if eneg then 10 ^ e else 1) in
          if negb (num mod den =? 0) then Err 98
          else let v := Z.of_N (num / den) in
               if (float_bound bits * 1024 <=? v)%Z then Err e_range
               else Ok (if neg then (- v)%Z else v)
      | _, _ => Err e_syntax
      end
  end.

(* split "a+bi" at the sign that starts the imaginary part (not the sign of an exponent) *)
Fixpoint imag_split (prev : rune) (acc : str) (s : str) (best : option (str * str)) : option (str * str) :=
  match s with
  | [] => best
  | c :: r =>
      let here := if ((c =? 43) || (c =? 45)) && negb ((prev =? 101) || (prev =? 69)) && negb (match acc with [] => true | _ => false end)
                  then Some (acc, s) else best in
      imag_split c (acc ++ [c]) r here
  end.

Definition complex_parts (bits : N) (s : str) : outcome Z * outcome Z :=
  let half := if bits =? 64 then 32 else 64 in
  let s := match s with
           | 40 :: r => match rev r with 41 :: r' => rev r' | _ => s end
           | _ => s end in
  match rev s with
  | 105 :: rbody =>                                   (* ends in i *)
      let body := rev rbody in
      match imag_split 0 [] body None with
      | Some (re, im) => (parse_float half re, parse_float half im)
      | None => (Ok 0%Z, parse_float half body)
      end
  | _ => (parse_float half s, Ok 0%Z)
  end.

Definition parse_complex (bits : N) (s : str) : outcome val :=
  a <- fst (complex_parts bits s) ;; b <- snd (complex_parts bits s) ;; Ok (VList [VFloat a; VFloat b]).

(* ---- reflect widths (rty encodes int/uint as width 0, uintptr as 1) ---- *)
Definition duration_name : str := s2r "time.Duration"%string.
Definition predeclared (name : str) : bool := negb (existsb (N.eqb 46) name).

Definition int_bits (w : N) : N := if w <=? 1 then 64 else w.

Definition sw_of (w : N) : swidth :=
  match w with 8 => I8 | 16 => I16 | 32 => I32 | 64 => I64 | _ => IInt end.
Definition uw_of (w : N) : uwidth :=
  match w with 8 => U8 | 16 => U16 | 32 => U32 | 64 => U64 | 1 => UPtr | _ => UInt end.

Definition in_int_range (w : N) (z : Z) : bool := in_srange (sw_of w) z.
Definition in_uint_range (w : N) (n : N) : bool := in_urange (uw_of w) n.

(* ---- the bridge to the model of package parse ---- *)
Definition is_pstring (t : ty) : bool :=
  match t with TBasic KString n => predeclared n | _ => false end.

(* the ParseString type of a reflect type; None: outside that model
   (floats, complex - handled below) *)
Fixpoint to_ps (t : ty) {struct t} : option PS.ty :=
  match t with
  | TBasic k name =>
      if str_eqb name duration_name then Some PS.TDur else
      match k with
      | KString => Some PS.TStr
      | KBool => Some PS.TBool
      | KInt w => Some (PS.TInt (sw_of w))
      | KUint w => Some (PS.TUint (uw_of w))
      | KFloat _ | KComplex _ => None
      end
  | TSlice e _ => option_map PS.TSlice (to_ps e)
  | TMap k v name =>
      (* parse.String compares the type itself with map[string][]string and map[string]struct{} *)
      if match name with [] => true | _ => false end && is_pstring k &&
         match v with TSlice e [] => is_pstring e | _ => false end then Some PS.TMss
      else if match name with [] => true | _ => false end && is_pstring k &&
              match v with TStruct FNil [] => true | _ => false end then Some PS.TSet
      else match to_ps k, to_ps v with
           | Some k', Some v' => Some (PS.TMap k' v')
           | _, _ => None
           end
  | _ => Some PS.TOther
  end.

Fixpoint of_pval (v : PS.pval) : val :=
  match v with
  | PS.VStr s => VStr s
  | PS.VBool b => VBool b
  | PS.VInt z => VInt z
  | PS.VList l => VList (map of_pval l)
  | PS.VSet l => VMap (map (fun k => (VStr k, VStruct [])) l)
  | PS.VMss m => VMap (map (fun kv => (VStr (fst kv), VList (map VStr (snd kv)))) m)
  | PS.VMap m => VMap (map (fun kv => (of_pval (fst kv), of_pval (snd kv))) m)
  | PS.VOpaque => VOpaque 98          (* a duration the model cannot determine: never generated *)
  end.

(* scalars the parse model lacks *)
Definition parse_extra (t : ty) (s : str) : outcome val :=
  match t with
  | TBasic k name =>
      if str_eqb name duration_name then Err 96   (* durations are in the parse model *)
      else match k with
           | KFloat b => omap VFloat (parse_float b s)
           | KComplex b => parse_complex b s
           | _ => Err 96
           end
  | _ => Err e_unmodelled
  end.

(* parse.String(str, t): the value for castTo = t (before the pointer wrap).
   fixed = true, fixed_elem = true: the current tree (findings 9 and the
   nested-slice panic are repaired). *)
Definition parse_text (t : ty) (s : str) : outcome val :=
  match to_ps t with
  | Some pt => omap of_pval (PS.parse_string isp0 true true pt s)
  | None =>
      match t with
      | TSlice e _ =>                       (* a slice of floats: element-wise, as the code does *)
          (* blanks around a non-string element are trimmed (parse_string.go) *)
          l <- string_slice isp0 s ;; omap VList (map_out (fun x => parse_extra e (trim_space x)) l)
      | TMap _ _ _ => Err e_unmodelled      (* maps with float components *)
      | _ => parse_extra t s
      end
  end.

(* ==== what the flag sources need beyond package parse ==== *)

(* ---- net.IP.UnmarshalText restricted to dotted-quad IPv4 text (and the
   empty text, which yields a nil IP without error) ---- *)
Definition netip_name : str := s2r "net.IP"%string.
Definition netip (e : ty) (name : str) : bool :=
  match e with TBasic (KUint 8) _ => str_eqb name netip_name | _ => false end.
Definition is_netip (t : ty) : bool :=
  match t with TSlice e n => netip e n | _ => false end.

Definition ip_field (f : str) : option N :=
  match f with
  | [] => None
  | c :: r =>
      if negb (forallb is_digit f) then None
      else if (c =? 48) && (match r with [] => false | _ => true end) then None   (* leading zero *)
      else if (3 <? N.of_nat (length f)) then None
      else let n := fold_left (fun a d => a * 10 + (d - 48)) f 0 in
           if 255 <? n then None else Some n
  end.

Definition parse_ip (s : str) : outcome val :=
  match s with
  | [] => Ok VNil
  | _ =>
      match map ip_field (split_on 46 s) with
      | [Some a; Some b; Some c; Some d] =>
          Ok (VList (map (fun n => VInt (Z.of_N n)) [0;0;0;0;0;0;0;0;0;0;255;255;a;b;c;d]))
      | _ => Err e_syntax
      end
  end.

(* ---- pflag's stringSliceValue.Set: encoding/csv on one line.  Modelled for
   fields without quotes, CR/LF or leading blanks issues: plain fields split
   at ','; the empty text is the empty list; a quote is outside (Err 97) ---- *)
Definition pflag_csv (s : str) : outcome (list str) :=
  match s with
  | [] => Ok []
  | _ => if existsb (fun c => (c =? 34) || (c =? 10) || (c =? 13)) s then Err e_unmodelled
         else Ok (split_on 44 s)
  end.
