(* Text -> value parsing as the sources need it (interface of the sources'
   models towards package parse / strconv / the flag packages' setters).

   This file is the small stand-in used by the source models of C11/C12: it
   is meant to be swapped for the C15 model of package parse.  It mirrors
     strconv.ParseBool, strconv.ParseUint/ParseInt (base 0 incl. prefixes and
     underscores; any bit size), time.ParseDuration (without non-zero
     fractions), parse.String's dispatch for scalar kinds (parse_string.go,
     number.go).
   Kinds that are NOT modelled here (floats, complex, slices, maps, arrays,
   named scalars other than time.Duration) return `Err unmodelled`; the
   generators of the correspondence checks never feed text to such leaves.

   Err codes: 1 syntax, 2 out of range, 3 unsupported kind (parse.String's
   default branch), 96/97/98 unmodelled. *)
From Coq Require Import String.
From Coq Require Import List NArith ZArith Bool.
From Dials Require Import Base.Outcome Base.Runes Reflect.Ty.
Import ListNotations.
Open Scope list_scope.
Open Scope N_scope.

Definition e_syntax : N := 1.
Definition e_range : N := 2.
Definition e_kind : N := 3.
Definition e_unmodelled : N := 97.

(* ---- strconv.ParseBool ---- *)
Definition parse_bool (s : str) : outcome bool :=
  if existsb (str_eqb s) [[49]; [116]; [84]; [84;82;85;69]; [116;114;117;101]; [84;114;117;101]] then Ok true
  else if existsb (str_eqb s) [[48]; [102]; [70]; [70;65;76;83;69]; [102;97;108;115;101]; [70;97;108;115;101]] then Ok false
  else Err e_syntax.

(* ---- strconv.ParseUint(s, 0, bits) ---- *)
Definition lower_b (c : rune) : rune := N.lor c 32.   (* strconv.lower: c | ('x'-'X') *)

Definition digit_val (c : rune) : option N :=
  if (48 <=? c) && (c <=? 57) then Some (c - 48)
  else let l := lower_b c in
       if (97 <=? l) && (l <=? 122) then Some (l - 97 + 10) else None.

Definition pow2 (b : N) : N := 2 ^ b.

(* the digit loop: n accumulates; `under` records that a '_' was skipped *)
Fixpoint uint_loop (base : N) (maxv : N) (n : N) (under : bool) (s : str) : outcome (N * bool) :=
  match s with
  | [] => Ok (n, under)
  | c :: s' =>
      if c =? 95 then uint_loop base maxv n true s'       (* base0 is always true here *)
      else match digit_val c with
           | None => Err e_syntax
           | Some d =>
               if base <=? d then Err e_syntax
               else if (18446744073709551615 / base + 1) <=? n then Err e_range
               else let n1 := n * base + d in
                    if maxv <? n1 then Err e_range else uint_loop base maxv n1 under s'
           end
  end.

(* strconv.underscoreOK *)
Inductive usaw := SawStart | SawDigit | SawUnder | SawOther.
Fixpoint under_loop (hex : bool) (saw : usaw) (s : str) : bool :=
  match s with
  | [] => match saw with SawUnder => false | _ => true end
  | c :: s' =>
      if ((48 <=? c) && (c <=? 57)) || (hex && (97 <=? lower_b c) && (lower_b c <=? 102))
      then under_loop hex SawDigit s'
      else if c =? 95 then
        match saw with SawDigit => under_loop hex SawUnder s' | _ => false end
      else match saw with SawUnder => false | _ => under_loop hex SawOther s' end
  end.

Definition is_base_letter (c : rune) : bool :=
  let l := lower_b c in (l =? 98) || (l =? 111) || (l =? 120).

Definition underscore_ok (s : str) : bool :=
  let s := match s with c :: r => if (c =? 45) || (c =? 43) then r else s | [] => s end in
  match s with
  | 48 :: c1 :: r => if is_base_letter c1 then under_loop (lower_b c1 =? 120) SawDigit r
                     else under_loop false SawStart s
  | _ => under_loop false SawStart s
  end.

Definition parse_uint (bits : N) (s : str) : outcome N :=
  match s with
  | [] => Err e_syntax
  | c0 :: rest =>
      let '(base, digits) :=
        if c0 =? 48 then
          match rest with
          | c1 :: _ :: _ =>
              let l := lower_b c1 in
              if l =? 98 then (2, tl rest) else if l =? 111 then (8, tl rest)
              else if l =? 120 then (16, tl rest) else (8, rest)
          | _ => (8, rest)
          end
        else (10, s) in
      r <- uint_loop base (pow2 bits - 1) 0 false digits ;;
      let '(n, under) := r in
      if under && negb (underscore_ok s) then Err e_syntax else Ok n
  end.

(* ---- strconv.ParseInt(s, 0, bits) ---- *)
Definition parse_int (bits : N) (s : str) : outcome Z :=
  match s with
  | [] => Err e_syntax
  | c0 :: rest =>
      let neg := c0 =? 45 in
      let body := if (c0 =? 43) || neg then rest else s in
      (* a range error of ParseUint stays a range error; syntax errors return *)
      un <- parse_uint bits body ;;
      let cutoff := pow2 (bits - 1) in
      if negb neg && (cutoff <=? un) then Err e_range
      else if neg && (cutoff <? un) then Err e_range
      else Ok (if neg then (- Z.of_N un)%Z else Z.of_N un)
  end.

(* ---- time.ParseDuration (fractions with a non-zero digit are not modelled) ---- *)
Definition two63 : N := pow2 63.

Fixpoint leading_int (x : N) (s : str) : outcome (N * str) :=
  match s with
  | c :: s' =>
      if (48 <=? c) && (c <=? 57) then
        if two63 / 10 <? x then Err e_range
        else let x' := x * 10 + (c - 48) in
             if two63 <? x' then Err e_range else leading_int x' s'
      else Ok (x, s)
  | [] => Ok (x, s)
  end.

(* leadingFraction: returns (all digits zero?, rest) *)
Fixpoint leading_fraction (allzero : bool) (s : str) : bool * str :=
  match s with
  | c :: s' => if (48 <=? c) && (c <=? 57) then leading_fraction (allzero && (c =? 48)) s' else (allzero, s)
  | [] => (allzero, s)
  end.

Fixpoint unit_span (s : str) : str * str :=
  match s with
  | c :: s' => if (c =? 46) || ((48 <=? c) && (c <=? 57)) then ([], s)
               else let '(u, r) := unit_span s' in (c :: u, r)
  | [] => ([], [])
  end.

Definition unit_ns (u : str) : option N :=
  if str_eqb u [110;115] then Some 1
  else if str_eqb u [117;115] || str_eqb u [181;115] || str_eqb u [956;115] then Some 1000
  else if str_eqb u [109;115] then Some 1000000
  else if str_eqb u [115] then Some 1000000000
  else if str_eqb u [109] then Some 60000000000
  else if str_eqb u [104] then Some 3600000000000
  else None.

Fixpoint dur_loop (fuel : nat) (d : N) (s : str) : outcome N :=
  match s with
  | [] => Ok d
  | c :: _ =>
      match fuel with
      | O => Err e_unmodelled
      | S fuel' =>
          if negb ((c =? 46) || ((48 <=? c) && (c <=? 57))) then Err e_syntax else
          r <- leading_int 0 s ;;
          let '(v, s1) := r in
          let pre := negb (length s1 =? length s)%nat in
          let '(post, fzero, s2) :=
            match s1 with
            | 46 :: s1' => let '(z, s2) := leading_fraction true s1' in
                           (negb (length s2 =? length s1')%nat, z, s2)
            | _ => (false, true, s1)
            end in
          if negb pre && negb post then Err e_syntax else
          let '(u, s3) := unit_span s2 in
          match u with
          | [] => Err e_syntax
          | _ =>
              match unit_ns u with
              | None => Err e_syntax
              | Some unit =>
                  if two63 / unit <? v then Err e_range
                  else if negb fzero then Err 98     (* float arithmetic: not modelled *)
                  else let d' := d + v * unit in
                       if two63 <? d' then Err e_range else dur_loop fuel' d' s3
              end
          end
      end
  end.

Definition parse_duration (s : str) : outcome Z :=
  let '(neg, body) :=
    match s with
    | c :: r => if c =? 45 then (true, r) else if c =? 43 then (false, r) else (false, s)
    | [] => (false, s)
    end in
  if str_eqb body [48] then Ok 0%Z
  else match body with
       | [] => Err e_syntax
       | _ =>
           d <- dur_loop (S (length body)) 0 body ;;
           if neg then Ok (- Z.of_N d)%Z
           else if (two63 - 1) <? d then Err e_range else Ok (Z.of_N d)
       end.

(* ---- parse.String at a leaf type ---- *)
Definition duration_name : str := s2r "time.Duration"%string.

(* bit size of a kind as rty encodes it: 0 = int/uint (64 on the checked
   platform), 1 = uintptr *)
Definition int_bits (w : N) : N := if w <=? 1 then 64 else w.

Definition in_int_range (w : N) (z : Z) : bool :=
  let b := int_bits w in
  ((- Z.of_N (pow2 (b - 1)) <=? z) && (z <? Z.of_N (pow2 (b - 1))))%Z.

Definition in_uint_range (w : N) (n : N) : bool := n <? pow2 (int_bits w).

(* rty prints predeclared types with their own name ("int", "string"); a
   declared type has a package-qualified name ("time.Duration", "rty.NLevel") *)
Definition predeclared (name : str) : bool := negb (existsb (N.eqb 46) name).

(* ---- strconv.ParseFloat / ParseComplex on the plain decimal subset
     [+-]? digits* [. digits*] [ (e|E) [+-]? digits+ ]
   whose value times 1024 is an integer (values are carried as VFloat (v*1024)).
   Anything else in the subset is Err 98 (inexact: not modelled); text outside
   the subset is a syntax error here - "inf", "nan", hexadecimal floats and
   digit separators are never generated. ---- *)
Fixpoint digits_val (acc : N) (s : str) : option N :=
  match s with
  | [] => Some acc
  | c :: r => if is_digit c then digits_val (acc * 10 + (c - 48)) r else None
  end.

Fixpoint span_digits (s : str) : str * str :=
  match s with
  | c :: r => if is_digit c then let '(d, rest) := span_digits r in (c :: d, rest) else ([], s)
  | [] => ([], [])
  end.

(* magnitude bound of a float of the given size: 2^128 / 2^1024 *)
Definition float_bound (bits : N) : Z := Z.of_N (if bits =? 32 then pow2 128 else pow2 1024).

Definition parse_float (bits : N) (s : str) : outcome Z :=
  let '(neg, body) :=
    match s with
    | c :: r => if c =? 45 then (true, r) else if c =? 43 then (false, r) else (false, s)
    | [] => (false, s)
    end in
  let '(ip, r1) := span_digits body in
  let '(fp, r2) := match r1 with 46 :: r => span_digits r | _ => ([], r1) end in
  match ip, fp with
  | [], [] => Err e_syntax
  | _, _ =>
      let eo : option (bool * N) :=
        match r2 with
        | [] => Some (false, 0)
        | c :: r => if (c =? 101) || (c =? 69) then
                      let '(eneg, ed) := match r with
                                         | x :: r' => if x =? 45 then (true, r') else if x =? 43 then (false, r') else (false, r)
                                         | [] => (false, r) end in
                      match ed with [] => None | _ => match digits_val 0 ed with Some e => Some (eneg, e) | None => None end end
                    else None
        end in
      match eo, digits_val 0 (ip ++ fp) with
      | Some (eneg, e), Some m =>
          let k := N.of_nat (length fp) in
          let num := m * 1024 * (if eneg then 1 else 10 ^ e) in
          let den := 10 ^ k * (if eneg then 10 ^ e else 1) in
          if negb (num mod den =? 0) then Err 98
          else let v := Z.of_N (num / den) in
               if (float_bound bits * 1024 <=? v)%Z then Err e_range
               else Ok (if neg then (- v)%Z else v)
      | _, _ => Err e_syntax
      end
  end.

(* split "a+bi" at the sign that starts the imaginary part (not the sign of an exponent) *)
Fixpoint imag_split (prev : rune) (acc : str) (s : str) (best : option (str * str)) : option (str * str) :=
  match s with
  | [] => best
  | c :: r =>
      let here := if ((c =? 43) || (c =? 45)) && negb ((prev =? 101) || (prev =? 69)) && negb (match acc with [] => true | _ => false end)
                  then Some (acc, s) else best in
      imag_split c (acc ++ [c]) r here
  end.

Definition parse_complex (bits : N) (s : str) : outcome val :=
  let half := if bits =? 64 then 32 else 64 in
  let s := match s with
           | 40 :: r => match rev r with 41 :: r' => rev r' | _ => s end
           | _ => s end in
  match rev s with
  | 105 :: rbody =>                                   (* ends in i *)
      let body := rev rbody in
      match imag_split 0 [] body None with
      | Some (re, im) => a <- parse_float half re ;; b <- parse_float half im ;; Ok (VList [VFloat a; VFloat b])
      | None => b <- parse_float half body ;; Ok (VList [VFloat 0; VFloat b])
      end
  | _ => a <- parse_float half s ;; Ok (VList [VFloat a; VFloat 0])
  end.

(* the value produced for castTo = t (before the pointer wrap).  A declared
   scalar type is parsed as its kind (parseNumber dispatches on Kind; the only
   type looked at is time.Duration) and converted by the flatten mangler. *)
Definition parse_text (t : ty) (s : str) : outcome val :=
  match t with
  | TBasic k name =>
      if str_eqb name duration_name then
        match k with KInt 64 => omap VInt (parse_duration s) | _ => Err 96 end
      else
        match k with
        | KString => Ok (VStr s)
        | KBool => omap VBool (parse_bool s)
        | KInt w => z <- parse_int 64 s ;;
                    if in_int_range w z then Ok (VInt z) else Err e_range
        | KUint w =>
            if w =? 1 then Err e_kind           (* uintptr: parse.String has no case for it *)
            else n <- parse_uint 64 s ;;
                 if in_uint_range w n then Ok (VInt (Z.of_N n)) else Err e_range
        | KFloat b => omap VFloat (parse_float b s)
        | KComplex b => parse_complex b s
        end
  | TSlice _ _ | TMap _ _ _ => Err e_unmodelled
  | _ => Err e_kind                       (* struct, array, pointer, interface ... *)
  end.

(* ==== helpers used by the flag sources (C12) ==== *)

(* ---- net.IP.UnmarshalText restricted to dotted-quad IPv4 text (and the
   empty text, which yields a nil IP without error); IPv6 text is not modelled
   and never generated ---- *)
Fixpoint split_on (sep : rune) (cur : str) (s : str) : list str :=
  match s with
  | [] => [cur]
  | c :: s' => if c =? sep then cur :: split_on sep [] s' else split_on sep (cur ++ [c]) s'
  end.

Definition ip_field (f : str) : option N :=
  match f with
  | [] => None
  | c :: r =>
      if negb (forallb is_digit f) then None
      else if (c =? 48) && (match r with [] => false | _ => true end) then None   (* leading zero *)
      else if (3 <? N.of_nat (length f)) then None
      else let n := fold_left (fun a d => a * 10 + (d - 48)) f 0 in
           if 255 <? n then None else Some n
  end.

Definition parse_ip (s : str) : outcome val :=
  match s with
  | [] => Ok VNil
  | _ =>
      match map ip_field (split_on 46 [] s) with
      | [Some a; Some b; Some c; Some d] =>
          Ok (VList (map (fun n => VInt (Z.of_N n)) [0;0;0;0;0;0;0;0;0;0;255;255;a;b;c;d]))
      | _ => Err e_syntax
      end
  end.

Definition netip_name : str := s2r "net.IP"%string.
(* net.IP = `type IP []byte` *)
Definition netip (e : ty) (name : str) : bool :=
  match e with TBasic (KUint 8) _ => str_eqb name netip_name | _ => false end.
Definition is_netip (t : ty) : bool :=
  match t with TSlice e n => netip e n | _ => false end.

(* ---- parse.StringSlice / parse.StringSet / splitMap on the simple alphabet:
   tokens over [a-z0-9], separated by ',' (and ':' in maps).  Quoting,
   whitespace and every other rune are outside this stand-in (Err 97). ---- *)
Definition simple_rune (c : rune) : bool := is_lower c || is_digit c.

Fixpoint csv_loop (cur : str) (acc : list str) (s : str) : outcome (list str) :=
  match s with
  | [] => Ok (match cur with [] => acc | _ => acc ++ [cur] end)
  | c :: s' =>
      if c =? 44 then csv_loop [] (match cur with [] => acc | _ => acc ++ [cur] end) s'
      else if simple_rune c then csv_loop (cur ++ [c]) acc s'
      else Err e_unmodelled
  end.
Definition simple_csv (s : str) : outcome (list str) := csv_loop [] [] s.

(* one "k", "k:" or "k:v" segment *)
Definition kv_segment (seg : str) : outcome (option (str * str)) :=
  match seg with
  | [] => Ok None
  | _ =>
      if negb (forallb (fun c => simple_rune c || (c =? 58)) seg) then Err e_unmodelled
      else match split_on 58 [] seg with
           | [k] => Ok (Some (k, []))
           | [k; v] => match k with [] => Err e_syntax | _ => Ok (Some (k, v)) end
           | _ => Err e_syntax                                   (* "unexpected colon" *)
           end
  end.

Fixpoint kv_list (segs : list str) : outcome (list (str * str)) :=
  match segs with
  | [] => Ok []
  | seg :: r =>
      o <- kv_segment seg ;;
      rest <- kv_list r ;;
      Ok match o with Some kv => kv :: rest | None => rest end
  end.
Definition simple_kvs (s : str) : outcome (list (str * str)) := kv_list (split_on 44 [] s).

(* strings.TrimSpace restricted to ' ' and tab *)
Fixpoint trim_left (s : str) : str :=
  match s with c :: r => if (c =? 32) || (c =? 9) then trim_left r else s | [] => [] end.
Definition trim_space (s : str) : str := rev (trim_left (rev (trim_left s))).

(* parse.SignedIntegralSlice / UnsignedIntegralSlice *)
Definition int_elem (signed : bool) (bits : N) (p : str) : outcome val :=
  if signed then omap VInt (parse_int bits (trim_space p))
  else omap (fun n => VInt (Z.of_N n)) (parse_uint bits (trim_space p)).

Fixpoint int_elems (signed : bool) (bits : N) (l : list str) : outcome (list val) :=
  match l with
  | [] => Ok []
  | a :: r => b <- int_elem signed bits a ;; bs <- int_elems signed bits r ;; Ok (b :: bs)
  end.

Definition int_slice (signed : bool) (bits : N) (s : str) : outcome (list val) :=
  match s with
  | [] => Ok []                            (* the empty text is the empty slice *)
  | _ => int_elems signed bits (split_on 44 [] s)
  end.
