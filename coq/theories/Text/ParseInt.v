(* Model of the integer side of /repo/parse: strconv.ParseUint / ParseInt with
   base 0 (strconv/atoi.go), dials' parseNumber width handling
   (parse/number.go:12-80) and the generic integral-slice parsers
   (parse/integral_slice.go), plus the decimal printer of the flag helpers
   (strconv.FormatInt/FormatUint base 10, sources/flag/flaghelper/ints.go,
   uints.go).  Definitions only; proofs are in ParseIntProofs.v.

   Machine arithmetic is written out: the uint64 accumulator of ParseUint
   wraps modulo 2^64 (`n1 < n` is the overflow test of the source), int64(x)
   and the narrowing conversions intN(x)/uintN(x) are two's-complement
   wrap-arounds.  That no wrap ever reaches a returned value is a theorem
   (Properties/C15.v), not an assumption.

   Strings are rune lists; ParseUint works on bytes, every byte of a
   non-ASCII rune is >= 0x80 and is rejected exactly as a rune >= 128 is here.
   Error codes: 1 syntax, 2 range (strconv), 3 overflow (dials). *)
From Coq Require Import List NArith ZArith Bool.
From Dials Require Import Base.Outcome Base.Runes.
Import ListNotations.
Open Scope N_scope.

Definition e_syntax : N := 1.
Definition e_range : N := 2.
Definition e_overflow : N := 3.

Definition two64 : N := 18446744073709551616.
Definition max_uint64 : N := two64 - 1.

(* strconv.lower: ('a' - 'A') | c *)
Definition lower_b (c : rune) : rune := N.lor c 32.

(* digit value of a byte in ParseUint's loop: '0'..'9', then letters *)
Definition digit_of (c : rune) : option N :=
  if (48 <=? c) && (c <=? 57) then Some (c - 48)
  else if (c <? 128) && (97 <=? lower_b c) && (lower_b c <=? 122) then Some (lower_b c - 97 + 10)
  else None.

(* ---- underscoreOK (atoi.go:282-327) ---- *)
Inductive saw := SawBegin | SawDigit | SawUnder | SawOther.

Fixpoint us_loop (hex : bool) (sw : saw) (s : str) : bool :=
  match s with
  | [] => match sw with SawUnder => false | _ => true end
  | c :: r =>
      if ((48 <=? c) && (c <=? 57)) || (hex && (c <? 128) && (97 <=? lower_b c) && (lower_b c <=? 102))
      then us_loop hex SawDigit r
      else if c =? 95 then
        match sw with SawDigit => us_loop hex SawUnder r | _ => false end
      else match sw with SawUnder => false | _ => us_loop hex SawOther r end
  end.

Definition is_base_letter (c : rune) : bool :=
  (c <? 128) && ((lower_b c =? 98) || (lower_b c =? 111) || (lower_b c =? 120)).

Definition underscore_ok (s : str) : bool :=
  let s1 := match s with
            | c :: r => if (c =? 45) || (c =? 43) then r else s
            | [] => s
            end in
  match s1 with
  | c0 :: c1 :: r =>
      if (c0 =? 48) && is_base_letter c1 then us_loop (lower_b c1 =? 120) SawDigit r
      else us_loop false SawBegin s1
  | _ => us_loop false SawBegin s1
  end.

(* ---- ParseUint(s, 0, bitSize) (atoi.go:69-160) ---- *)
(* base-0 prefix detection: (base, digits part) *)
Definition base_prefix (s : str) : N * str :=
  match s with
  | c0 :: r0 =>
      if c0 =? 48 then
        match r0 with
        | c1 :: (_ :: _) as r1 =>              (* len(s) >= 3 *)
            if (c1 <? 128) && (lower_b c1 =? 98) then (2, r1)
            else if (c1 <? 128) && (lower_b c1 =? 111) then (8, r1)
            else if (c1 <? 128) && (lower_b c1 =? 120) then (16, r1)
            else (8, r0)
        | _ => (8, r0)
        end
      else (10, s)
  | [] => (10, s)
  end.

Inductive lres := LOk (n : N) (underscores : bool) | LSyntax | LRange.

Fixpoint pu_loop (base cutoff maxv : N) (s : str) (n : N) (us : bool) : lres :=
  match s with
  | [] => LOk n us
  | c :: r =>
      if c =? 95 then pu_loop base cutoff maxv r n true          (* '_' && base0 *)
      else match digit_of c with
           | None => LSyntax
           | Some d =>
               if base <=? d then LSyntax
               else if cutoff <=? n then LRange                  (* n*base overflows *)
               else
                 let n' := (n * base) mod two64 in
                 let n1 := (n' + d) mod two64 in
                 if (n1 <? n') || (maxv <? n1) then LRange      (* n+d overflows *)
                 else pu_loop base cutoff maxv r n1 us
           end
  end.

(* result of ParseUint: value, syntax error, or range error carrying maxVal *)
Inductive ures := UOk (n : N) | USyntax | URange (maxv : N).

Definition parse_uint (s : str) (bits : N) : ures :=
  match s with
  | [] => USyntax
  | _ =>
      let '(base, body) := base_prefix s in
      let cutoff := max_uint64 / base + 1 in
      let maxv := 2 ^ bits - 1 in
      match pu_loop base cutoff maxv body 0 false with
      | LSyntax => USyntax
      | LRange => URange maxv
      | LOk n us => if us && negb (underscore_ok s) then USyntax else UOk n
      end
  end.

Definition ures_out (u : ures) : outcome N :=
  match u with UOk n => Ok n | USyntax => Err e_syntax | URange _ => Err e_range end.

(* two's-complement reinterpretation of the low `bits` bits *)
Definition wrap_signed (bits : N) (x : Z) : Z :=
  let m := Z.of_N (2 ^ bits) in
  let h := Z.of_N (2 ^ (bits - 1)) in
  ((x + h) mod m - h)%Z.
Definition wrap_unsigned (bits : N) (x : N) : N := x mod 2 ^ bits.

(* ---- ParseInt(s, 0, bitSize) (atoi.go:199-244) ---- *)
Definition parse_int (s : str) (bits : N) : outcome Z :=
  match s with
  | [] => Err e_syntax
  | c0 :: r =>
      let '(neg, s1) := if c0 =? 43 then (false, r) else if c0 =? 45 then (true, r) else (false, s) in
      match parse_uint s1 bits with
      | USyntax => Err e_syntax
      | u =>
          let un := match u with UOk n => n | URange m => m | USyntax => 0 end in
          let cutoff := 2 ^ (bits - 1) in
          if negb neg && (cutoff <=? un) then Err e_range
          else if neg && (cutoff <? un) then Err e_range
          else
            let n := wrap_signed 64 (Z.of_N un) in               (* int64(un) *)
            Ok (if neg then wrap_signed 64 (- n) else n)
      end
  end.

(* ---- widths ---- *)
Definition int_size : N := 64.    (* strconv.IntSize on the checked platform; the harness asserts it *)

Inductive swidth := I8 | I16 | I32 | I64 | IInt.
Inductive uwidth := U8 | U16 | U32 | U64 | UInt | UPtr.

Definition sbits (w : swidth) : N :=
  match w with I8 => 8 | I16 => 16 | I32 => 32 | I64 => 64 | IInt => int_size end.
Definition ubits (w : uwidth) : N :=
  match w with U8 => 8 | U16 => 16 | U32 => 32 | U64 => 64 | UInt => int_size | UPtr => int_size end.

Definition smin (w : swidth) : Z := (- Z.of_N (2 ^ (sbits w - 1)))%Z.
Definition smax (w : swidth) : Z := (Z.of_N (2 ^ (sbits w - 1)) - 1)%Z.
Definition umax (w : uwidth) : N := 2 ^ ubits w - 1.

Definition in_srange (w : swidth) (z : Z) : bool := (smin w <=? z)%Z && (z <=? smax w)%Z.
Definition in_urange (w : uwidth) (n : N) : bool := n <=? umax w.

(* ---- parseNumber, integer kinds (number.go:16-80): 64-bit parse,
   reflect.Value.OverflowInt/OverflowUint for the concrete width
   (x != (x << (64-bits)) >> (64-bits)), then the narrowing conversion ---- *)
Definition overflow_int (bits : N) (x : Z) : bool := negb (x =? wrap_signed bits x)%Z.
Definition overflow_uint (bits : N) (x : N) : bool := negb (x =? wrap_unsigned bits x).

Definition parse_number_int (w : swidth) (s : str) : outcome Z :=
  c <- parse_int s 64 ;;
  if overflow_int (sbits w) c then Err e_overflow else Ok (wrap_signed (sbits w) c).

Definition parse_number_uint (w : uwidth) (s : str) : outcome N :=
  c <- ures_out (parse_uint s 64) ;;
  if overflow_uint (ubits w) c then Err e_overflow else Ok (wrap_unsigned (ubits w) c).

(* ---- strings.Split(s, ","), strings.TrimSpace ---- *)
Fixpoint split_on (sep : rune) (s : str) : list str :=
  match s with
  | [] => [[]]
  | c :: r =>
      if c =? sep then [] :: split_on sep r
      else match split_on sep r with
           | h :: t => (c :: h) :: t
           | [] => [[c]]
           end
  end.

(* unicode.IsSpace: the complete White_Space table *)
Definition is_space (r : rune) : bool :=
  ((9 <=? r) && (r <=? 13)) || (r =? 32) || (r =? 133) || (r =? 160) || (r =? 5760)
  || ((8192 <=? r) && (r <=? 8202)) || (r =? 8232) || (r =? 8233) || (r =? 8239)
  || (r =? 8287) || (r =? 12288).

Fixpoint drop_space (s : str) : str :=
  match s with c :: r => if is_space c then drop_space r else s | [] => [] end.
Definition trim_space (s : str) : str := rev (drop_space (rev (drop_space s))).

(* ---- SignedIntegralSlice / UnsignedIntegralSlice (integral_slice.go) ---- *)
Fixpoint map_out {A B} (f : A -> outcome B) (l : list A) : outcome (list B) :=
  match l with
  | [] => Ok []
  | a :: r => b <- f a ;; bs <- map_out f r ;; Ok (b :: bs)
  end.

Definition comma : rune := 44.
Definition nilb {A} (l : list A) : bool := match l with [] => true | _ => false end.

Definition signed_elem (w : swidth) (p : str) : outcome Z :=
  v <- parse_int (trim_space p) (sbits w) ;; Ok (wrap_signed (sbits w) v).   (* I(val) *)
Definition unsigned_elem (w : uwidth) (p : str) : outcome N :=
  v <- ures_out (parse_uint (trim_space p) (ubits w)) ;; Ok (wrap_unsigned (ubits w) v).

(* `fixed` = false: the pinned code (Split of "" is [""], ParseInt("") fails);
   `fixed` = true: an empty input is the empty slice (fix: commit for finding 10) *)
Definition signed_slice_gen (fixed : bool) (w : swidth) (s : str) : outcome (list Z) :=
  if fixed && nilb s then Ok [] else map_out (signed_elem w) (split_on comma s).
Definition unsigned_slice_gen (fixed : bool) (w : uwidth) (s : str) : outcome (list N) :=
  if fixed && nilb s then Ok [] else map_out (unsigned_elem w) (split_on comma s).

(* the current tree (with the fix: commit for finding 10) *)
Definition signed_slice := signed_slice_gen true.
Definition unsigned_slice := unsigned_slice_gen true.

(* ---- decimal printer: strconv.FormatUint(n, 10) / FormatInt(z, 10) ---- *)
Fixpoint dec_digits (fuel : nat) (n : N) (acc : str) : str :=
  match fuel with
  | O => acc
  | S f =>
      let acc' := (48 + n mod 10) :: acc in
      if n <? 10 then acc' else dec_digits f (n / 10) acc'
  end.
Definition format_uint (n : N) : str := dec_digits (S (N.to_nat (N.log2 n))) n [].
Definition format_int (z : Z) : str :=
  if (z <? 0)%Z then 45 :: format_uint (Z.to_N (- z)) else format_uint (Z.to_N z).

(* ---- SPEC side: the mathematical value of a Go base-0 integer literal ---- *)
Fixpoint digits_val (base : N) (s : str) (acc : N) : option N :=
  match s with
  | [] => Some acc
  | c :: r =>
      if c =? 95 then digits_val base r acc
      else match digit_of c with
           | Some d => if d <? base then digits_val base r (acc * base + d) else None
           | None => None
           end
  end.
Definition has_underscore (s : str) : bool := existsb (fun c => c =? 95) s.

Definition lit_uvalue (s : str) : option N :=
  match s with
  | [] => None
  | _ =>
      let '(base, body) := base_prefix s in
      if has_underscore body && negb (underscore_ok s) then None else digits_val base body 0
  end.

Definition lit_value (s : str) : option Z :=
  match s with
  | [] => None
  | c0 :: r =>
      if c0 =? 43 then option_map Z.of_N (lit_uvalue r)
      else if c0 =? 45 then option_map (fun n => (- Z.of_N n)%Z) (lit_uvalue r)
      else option_map Z.of_N (lit_uvalue s)
  end.
