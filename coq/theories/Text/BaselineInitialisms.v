(* The golint initialism list as it stands in the pinned tree: the "common
   initialisms" property C19 speaks about.  The source's current list
   (Generated/Initialisms.v, regenerated on every run) may grow; losing one of
   these is a violation. *)
From Coq Require Import List String.
Import ListNotations.
Open Scope string_scope.
Definition baseline_initialisms_src : list string :=
  ["ACL"; "API"; "ASCII"; "CPU"; "CSS"; "DNS"; "EOF"; "GUID"; "HTML"; "HTTP"; "HTTPS"; "ID"; "IP"; "JSON"; "LHS"; "QPS"; "RAM"; "RHS"; "RPC"; "SLA"; "SMTP"; "SQL"; "SSH"; "TCP"; "TLS"; "TTL"; "UDP"; "UI"; "UID"; "UUID"; "URI"; "URL"; "UTF8"; "VM"; "XML"; "XMPP"; "XSRF"; "XSS"].
