(* Model of time.ParseDuration (time/format.go:1547-1714, Go 1.23) - which
   parse.String calls for a time.Duration target (parse/number.go:17-23) - and
   of Duration.String (time/time.go:674-786).  Definitions only.

   The uint64 arithmetic is written out (d += v wraps modulo 2^64).  The one
   floating-point step, uint64(float64(f) * (float64(unit) / scale)) for a
   fraction .f of a unit, is modelled by the exact quotient f*unit / scale and
   the term is flagged `inexact` unless scale divides unit - then the quotient
   unit/scale and the product (< unit <= 3.6e12 < 2^53) are integers that
   float64 represents and computes exactly.  Every form Duration.String
   prints is exact; on inexact inputs the correspondence check compares
   nothing but "returned".  Error codes as in ParseInt.v; 99 = out of fuel. *)
From Coq Require Import List NArith ZArith Bool.
From Dials Require Import Base.Outcome Base.Runes Text.ParseInt.
Import ListNotations.
Open Scope N_scope.

Definition two63 : N := 9223372036854775808.
Definition e_dhang : N := 99.

(* leadingInt: [0-9]* with overflow detection; None = errLeadingInt *)
Fixpoint lead_int (s : str) (x : N) : option (N * str) :=
  match s with
  | c :: r =>
      if is_digit c then
        if two63 / 10 <? x then None
        else let x' := x * 10 + (c - 48) in
             if two63 <? x' then None else lead_int r x'
      else Some (x, s)
  | [] => Some (x, [])
  end.

(* leadingFraction: digits accumulate into x while they fit; k counts the
   accumulated digits (scale = 10^k) *)
Fixpoint lead_frac (s : str) (x k : N) (ov : bool) : N * N * str :=
  match s with
  | c :: r =>
      if is_digit c then
        if ov then lead_frac r x k true
        else if (two63 - 1) / 10 <? x then lead_frac r x k true
        else let y := x * 10 + (c - 48) in
             if two63 <? y then lead_frac r x k true else lead_frac r y (k + 1) false
      else (x, k, s)
  | [] => (x, k, [])
  end.

Definition starts_digit (s : str) : bool := match s with c :: _ => is_digit c | [] => false end.

(* the unit: everything up to the next '.' or digit *)
Fixpoint span_unit (s : str) : str * str :=
  match s with
  | c :: r => if (c =? 46) || is_digit c then ([], s) else let '(u, rest) := span_unit r in (c :: u, rest)
  | [] => ([], [])
  end.

(* unitMap; U+00B5 micro sign and U+03BC Greek mu *)
Definition unit_of (u : str) : option N :=
  if str_eqb u [110; 115] then Some 1
  else if str_eqb u [117; 115] || str_eqb u [181; 115] || str_eqb u [956; 115] then Some 1000
  else if str_eqb u [109; 115] then Some 1000000
  else if str_eqb u [115] then Some 1000000000
  else if str_eqb u [109] then Some 60000000000
  else if str_eqb u [104] then Some 3600000000000
  else None.

(* one iteration of the loop up to `d += v`: the term's nanoseconds *)
Inductive tres := TSyntax | TBig | TTerm (v : N) (rest : str) (inexact : bool).

Definition next_term (s : str) : tres :=
  match s with
  | [] => TSyntax
  | c0 :: _ =>
      if negb ((c0 =? 46) || is_digit c0) then TSyntax
      else
        match lead_int s 0 with
        | None => TBig
        | Some (v, s1) =>
            let pre := is_digit c0 in
            let '(f, k, s2, post) :=
              match s1 with
              | c1 :: r1 => if c1 =? 46 then let '(x, k, rem) := lead_frac r1 0 0 false in (x, k, rem, starts_digit r1)
                            else (0, 0, s1, false)
              | [] => (0, 0, s1, false)
              end in
            if negb pre && negb post then TSyntax
            else
              let '(u, s3) := span_unit s2 in
              if nilb u then TSyntax
              else match unit_of u with
                   | None => TSyntax
                   | Some unit =>
                       if two63 / unit <? v then TBig
                       else
                         let v1 := v * unit in
                         let v2 := if 0 <? f then v1 + f * unit / 10 ^ k else v1 in
                         if two63 <? v2 then TBig
                         else TTerm v2 s3 ((0 <? f) && negb (unit mod 10 ^ k =? 0))
                   end
        end
  end.

(* the loop; the accumulator d is a uint64 *)
Fixpoint pd_loop (fuel : nat) (s : str) (d : N) (inexact : bool) : outcome (N * bool) :=
  match s with
  | [] => Ok (d, inexact)
  | _ =>
      match fuel with
      | O => Err e_dhang
      | S fl =>
          match next_term s with
          | TSyntax => Err e_syntax
          | TBig => Err e_range
          | TTerm v rest ix =>
              let d' := (d + v) mod two64 in
              if two63 <? d' then Err e_range else pd_loop fl rest d' (inexact || ix)
          end
      end
  end.

(* Consume [-+]? *)
Definition dur_sign (s : str) : bool * str :=
  match s with
  | c :: r => if c =? 45 then (true, r) else if c =? 43 then (false, r) else (false, s)
  | [] => (false, s)
  end.

(* result and whether a float step was inexact (then the model's value is not authoritative) *)
Definition parse_duration_x (s : str) : outcome (Z * bool) :=
  let '(neg, s1) := dur_sign s in
  if str_eqb s1 [48] then Ok (0%Z, false)
  else if nilb s1 then Err e_syntax
  else
    r <- pd_loop (length s1) s1 0 false ;;
    let '(d, ix) := r in
    if neg then Ok (wrap_signed 64 (- wrap_signed 64 (Z.of_N d)), ix)      (* -Duration(d) *)
    else if two63 - 1 <? d then Err e_range
    else Ok (Z.of_N d, ix).

Definition parse_duration (s : str) : outcome Z := omap fst (parse_duration_x s).

(* ---- SPEC side: the unbounded sum of the terms ---- *)
Inductive dspec := DSyntax | DBig | DVal (neg : bool) (total : N).

Fixpoint pd_total (fuel : nat) (s : str) (t : N) : option (option N) :=
  match s with
  | [] => Some (Some t)
  | _ =>
      match fuel with
      | O => None
      | S fl =>
          match next_term s with
          | TSyntax => None
          | TBig => Some None
          | TTerm v rest _ => pd_total fl rest (t + v)
          end
      end
  end.

(* does some term of s take an inexact float step (then neither the model's value nor the
   unbounded sum is authoritative to the nanosecond) *)
Fixpoint pd_inexact (fuel : nat) (s : str) : bool :=
  match s, fuel with
  | [], _ | _, O => false
  | _, S fl => match next_term s with TTerm _ rest ix => ix || pd_inexact fl rest | _ => false end
  end.
Definition dur_inexact (s : str) : bool := let '(_, s1) := dur_sign s in pd_inexact (length s1) s1.

Definition dur_spec (s : str) : dspec :=
  let '(neg, s1) := dur_sign s in
  if str_eqb s1 [48] then DVal neg 0
  else if nilb s1 then DSyntax
  else match pd_total (length s1) s1 0 with
       | None => DSyntax
       | Some None => DBig
       | Some (Some t) => DVal neg t
       end.

(* ---- Duration.String ---- *)
Fixpoint fmt_frac (prec : nat) (v : N) (print : bool) (acc : str) : str * N :=
  match prec with
  | O => (if print then 46 :: acc else acc, v)
  | S p =>
      let dg := v mod 10 in
      let print' := print || negb (dg =? 0) in
      fmt_frac p (v / 10) print' (if print' then (48 + dg) :: acc else acc)
  end.

Definition dur_body (u : N) : str :=
  if u <? 1000000000 then
    if u =? 0 then [48; 115]
    else if u <? 1000 then format_uint u ++ [110; 115]
    else if u <? 1000000 then let '(fr, u') := fmt_frac 3 u false [] in format_uint u' ++ fr ++ [181; 115]
    else let '(fr, u') := fmt_frac 6 u false [] in format_uint u' ++ fr ++ [109; 115]
  else
    let '(fr, secs) := fmt_frac 9 u false [] in
    let s_part := format_uint (secs mod 60) ++ fr ++ [115] in
    let mins := secs / 60 in
    if 0 <? mins then
      let m_part := format_uint (mins mod 60) ++ [109] in
      let hours := mins / 60 in
      if 0 <? hours then format_uint hours ++ [104] ++ m_part ++ s_part else m_part ++ s_part
    else s_part.

Definition dur_string (z : Z) : str :=
  let u := Z.to_N (Z.abs z) in            (* uint64(d), negated when d < 0 *)
  if (z <? 0)%Z then 45 :: dur_body u else dur_body u.
