(* Proofs about the integer model (Text/ParseInt.v): the machine-arithmetic
   parsers return exactly the mathematical value of the literal when it fits
   the width and an error otherwise; decimal printing is inverted. *)
From Coq Require Import String.
From Coq Require Import List NArith ZArith Bool Lia ZifyBool.
From Dials Require Import Base.Outcome Base.Runes Text.ParseInt Text.FlagHelpers.
Import ListNotations.
Open Scope string_scope.
Open Scope list_scope.
Open Scope N_scope.
Ltac Zify.zify_post_hook ::= Z.to_euclidean_division_equations.

(* ------------------------------------------------------------------ *)
(* the digit loop *)

Lemma digits_val_mono base s : 0 < base -> forall n v, digits_val base s n = Some v -> n <= v.
Proof.
  intros Hb. induction s as [|c r IH]; intros n v H; cbn [digits_val] in H.
  - inversion H. lia.
  - destruct (c =? 95); [eauto|].
    destruct (digit_of c) as [d|]; [|discriminate].
    destruct (d <? base); [|discriminate].
    apply IH in H. nia.
Qed.

Definition good_base (base : N) : Prop := base = 2 \/ base = 8 \/ base = 10 \/ base = 16.

Lemma cutoff_hit base n : good_base base -> max_uint64 / base + 1 <= n -> max_uint64 < n * base.
Proof. unfold max_uint64, two64. intros [-> | [-> | [-> | ->]]] H; lia. Qed.

Lemma cutoff_miss base n : good_base base -> n < max_uint64 / base + 1 -> n * base <= max_uint64.
Proof. unfold max_uint64, two64. intros [-> | [-> | [-> | ->]]] H; lia. Qed.

Lemma good_base_pos base : good_base base -> 0 < base /\ base <= 16.
Proof. intros [-> | [-> | [-> | ->]]]; lia. Qed.

Lemma pu_loop_spec base maxv : good_base base -> maxv <= max_uint64 ->
  forall s n us, n <= maxv ->
  match pu_loop base (max_uint64 / base + 1) maxv s n us with
  | LOk v us' => digits_val base s n = Some v /\ v <= maxv /\ us' = us || has_underscore s
  | _ => forall v, digits_val base s n = Some v -> maxv < v
  end.
Proof.
  intros Hb Hm. destruct (good_base_pos _ Hb) as [Hb0 Hb16].
  induction s as [|c r IH]; intros n us Hn; cbn [pu_loop digits_val has_underscore existsb].
  - rewrite orb_false_r. auto.
  - destruct (c =? 95) eqn:E95.
    + specialize (IH n true Hn). cbn [orb].
      destruct (pu_loop base (max_uint64 / base + 1) maxv r n true); auto.
      destruct IH as (H1 & H2 & H3). rewrite orb_true_r. auto.
    + cbn [orb]. destruct (digit_of c) as [d|] eqn:Ed; [|discriminate].
      destruct (base <=? d) eqn:Ebd.
      { apply N.leb_le in Ebd. destruct (d <? base) eqn:E; [apply N.ltb_lt in E; lia|discriminate]. }
      apply N.leb_gt in Ebd. assert (E : (d <? base) = true) by (apply N.ltb_lt; lia). rewrite E.
      destruct (max_uint64 / base + 1 <=? n) eqn:Ec.
      { apply N.leb_le in Ec. apply cutoff_hit in Ec; [|exact Hb].
        intros v Hv. apply digits_val_mono in Hv; [|exact Hb0]. lia. }
      apply N.leb_gt in Ec. apply cutoff_miss in Ec; [|exact Hb].
      assert (Hmod : (n * base) mod two64 = n * base) by (apply N.mod_small; unfold max_uint64, two64 in *; lia).
      rewrite Hmod.
      destruct (two64 <=? n * base + d) eqn:Ew.
      { apply N.leb_le in Ew.
        assert (Hlt : (n * base + d) mod two64 < n * base).
        { unfold max_uint64, two64 in *. lia. }
        apply N.ltb_lt in Hlt. rewrite Hlt. cbn [orb].
        intros v Hv. apply digits_val_mono in Hv; [|exact Hb0]. unfold max_uint64, two64 in *. lia. }
      apply N.leb_gt in Ew. rewrite (N.mod_small (n * base + d)) by exact Ew.
      assert (Hnl : (n * base + d <? n * base) = false) by (apply N.ltb_ge; lia). rewrite Hnl. cbn [orb].
      destruct (maxv <? n * base + d) eqn:Emx.
      { apply N.ltb_lt in Emx. intros v Hv. apply digits_val_mono in Hv; [|exact Hb0]. lia. }
      apply N.ltb_ge in Emx. exact (IH (n * base + d) us Emx).
Qed.

Lemma base_prefix_good s : good_base (fst (base_prefix s)).
Proof.
  unfold base_prefix, good_base. destruct s as [|c0 r0]; cbn; [auto|].
  destruct (c0 =? 48); cbn; [|auto].
  destruct r0 as [|c1 [|c2 r2]]; cbn; auto.
  destruct ((c1 <? 128) && (lower_b c1 =? 98)); cbn; [auto|].
  destruct ((c1 <? 128) && (lower_b c1 =? 111)); cbn; [auto|].
  destruct ((c1 <? 128) && (lower_b c1 =? 120)); cbn; auto.
Qed.

Lemma pow2_le_64 bits : bits <= 64 -> 2 ^ bits - 1 <= max_uint64.
Proof.
  intros H. assert (2 ^ bits <= 2 ^ 64) by (apply N.pow_le_mono_r; lia).
  unfold max_uint64, two64. change (2 ^ 64) with 18446744073709551616 in H0. lia.
Qed.

(* ParseUint returns the value of the literal iff it fits; otherwise an error *)
Theorem parse_uint_spec s bits v : bits <= 64 ->
  parse_uint s bits = UOk v <-> lit_uvalue s = Some v /\ v <= 2 ^ bits - 1.
Proof.
  intros Hbits. unfold parse_uint, lit_uvalue. destruct s as [|c0 r0]; [split; [discriminate|intros [? _]; discriminate]|].
  pose proof (base_prefix_good (c0 :: r0)) as Hg.
  destruct (base_prefix (c0 :: r0)) as [base body]. cbn [fst] in Hg.
  pose proof (pu_loop_spec base (2 ^ bits - 1) Hg (pow2_le_64 _ Hbits) body 0 false ltac:(lia)) as H.
  destruct (pu_loop base (max_uint64 / base + 1) (2 ^ bits - 1) body 0 false) as [n us| |].
  - destruct H as (H1 & H2 & H3). cbn [orb] in H3. subst us.
    destruct (has_underscore body && negb (underscore_ok (c0 :: r0))).
    + split; [discriminate|intros [? _]; discriminate].
    + rewrite H1. split; [intros [= <-]; auto|intros [[= <-] _]; reflexivity].
  - split; [discriminate|]. intros [Hv Hle].
    destruct (has_underscore body && negb (underscore_ok (c0 :: r0))); [discriminate|].
    apply H in Hv. lia.
  - split; [discriminate|]. intros [Hv Hle].
    destruct (has_underscore body && negb (underscore_ok (c0 :: r0))); [discriminate|].
    apply H in Hv. lia.
Qed.

Lemma parse_uint_range s bits m : parse_uint s bits = URange m -> m = 2 ^ bits - 1.
Proof.
  unfold parse_uint. destruct s; [discriminate|]. destruct (base_prefix (r :: s)) as [base body].
  destruct (pu_loop _ _ _ _ _ _); try discriminate.
  - destruct (_ && _); discriminate.
  - intros [= <-]. reflexivity.
Qed.

(* ------------------------------------------------------------------ *)
(* two's complement *)

Definition good_bits (bits : N) : Prop := bits = 8 \/ bits = 16 \/ bits = 32 \/ bits = 64.

Lemma wrap_signed_range bits x : good_bits bits ->
  (- Z.of_N (2 ^ (bits - 1)) <= wrap_signed bits x < Z.of_N (2 ^ (bits - 1)))%Z.
Proof. unfold wrap_signed. intros [-> | [-> | [-> | ->]]]; cbn; lia. Qed.

Lemma wrap_signed_id bits x : good_bits bits ->
  (- Z.of_N (2 ^ (bits - 1)) <= x < Z.of_N (2 ^ (bits - 1)))%Z -> wrap_signed bits x = x.
Proof. unfold wrap_signed. intros [-> | [-> | [-> | ->]]]; cbn; lia. Qed.

Lemma wrap_signed_neg64 un : un <= 9223372036854775808 ->
  wrap_signed 64 (- wrap_signed 64 (Z.of_N un)) = (- Z.of_N un)%Z.
Proof. unfold wrap_signed. cbn. lia. Qed.

Lemma pow2_half bits : good_bits bits -> 2 ^ bits = 2 * 2 ^ (bits - 1) /\ 2 ^ (bits - 1) <= 9223372036854775808.
Proof. intros [-> | [-> | [-> | ->]]]; cbn; lia. Qed.

Lemma good_bits_le bits : good_bits bits -> bits <= 64.
Proof. intros [-> | [-> | [-> | ->]]]; lia. Qed.

(* ParseInt returns the value of the literal iff it lies in the signed range *)
Theorem parse_int_spec s bits z : good_bits bits ->
  parse_int s bits = Ok z <->
  lit_value s = Some z /\ (- Z.of_N (2 ^ (bits - 1)) <= z < Z.of_N (2 ^ (bits - 1)))%Z.
Proof.
  intros Hb. destruct (pow2_half _ Hb) as [Hp Hq]. pose proof (good_bits_le _ Hb) as Hle.
  unfold parse_int, lit_value. destruct s as [|c0 r]; [split; [discriminate|intros [? _]; discriminate]|].
  assert (Hcore : forall (neg : bool) s1,
    match parse_uint s1 bits with
    | USyntax => Err e_syntax
    | u => let un := match u with UOk n => n | URange m => m | USyntax => 0 end in
           if negb neg && (2 ^ (bits - 1) <=? un) then Err e_range
           else if neg && (2 ^ (bits - 1) <? un) then Err e_range
           else Ok (if neg then wrap_signed 64 (- wrap_signed 64 (Z.of_N un)) else wrap_signed 64 (Z.of_N un))
    end = Ok z <->
    option_map (fun n => if neg then (- Z.of_N n)%Z else Z.of_N n) (lit_uvalue s1) = Some z /\
    (- Z.of_N (2 ^ (bits - 1)) <= z < Z.of_N (2 ^ (bits - 1)))%Z).
  { intros neg s1. destruct (parse_uint s1 bits) as [n| |m] eqn:E.
    - apply parse_uint_spec in E as [E1 E2]; [|exact Hle]. rewrite E1. cbn [option_map].
      destruct neg; cbn [negb andb].
      + destruct (2 ^ (bits - 1) <? n) eqn:E3.
        * apply N.ltb_lt in E3. split; [discriminate|]. intros [[= <-] H]. lia.
        * apply N.ltb_ge in E3. rewrite wrap_signed_neg64 by lia.
          split; [intros [= <-]; split; [reflexivity|lia]|intros [[= <-] _]; reflexivity].
      + destruct (2 ^ (bits - 1) <=? n) eqn:E3.
        * apply N.leb_le in E3. split; [discriminate|]. intros [[= <-] H]. lia.
        * apply N.leb_gt in E3. rewrite (wrap_signed_id 64); [|right; right; right; reflexivity|cbn; lia].
          split; [intros [= <-]; split; [reflexivity|lia]|intros [[= <-] _]; reflexivity].
    - split; [discriminate|]. intros [H1 H2].
      destruct (lit_uvalue s1) as [v|] eqn:Ev; [|discriminate].
      cbn in H1. assert (Hv : parse_uint s1 bits = UOk v).
      { apply parse_uint_spec; [exact Hle|]. split; [exact Ev|]. destruct neg; inversion H1; subst; lia. }
      congruence.
    - pose proof (parse_uint_range _ _ _ E) as ->.
      assert (Hno : forall v, lit_uvalue s1 = Some v -> 2 ^ bits - 1 < v).
      { intros v Hv. destruct (N.le_gt_cases v (2 ^ bits - 1)) as [Hl|Hl]; [|exact Hl].
        assert (parse_uint s1 bits = UOk v) by (apply parse_uint_spec; auto). congruence. }
      assert (E1 : (2 ^ (bits - 1) <=? 2 ^ bits - 1) = true) by (apply N.leb_le; lia).
      destruct neg; cbn [negb andb].
      + assert (E2 : (2 ^ (bits - 1) <? 2 ^ bits - 1) = true).
        { apply N.ltb_lt. destruct Hb as [-> | [-> | [-> | ->]]]; cbn; lia. }
        rewrite E2. split; [discriminate|]. intros [H1 H2].
        destruct (lit_uvalue s1) as [v|] eqn:Ev; [|discriminate]. inversion H1; subst. specialize (Hno _ eq_refl). lia.
      + rewrite E1. split; [discriminate|]. intros [H1 H2].
        destruct (lit_uvalue s1) as [v|] eqn:Ev; [|discriminate]. inversion H1; subst. specialize (Hno _ eq_refl). lia. }
  destruct (c0 =? 43).
  - rewrite <- (Hcore false r). cbn [negb andb]. reflexivity.
  - destruct (c0 =? 45).
    + rewrite <- (Hcore true r). cbn [negb andb]. reflexivity.
    + rewrite <- (Hcore false (c0 :: r)). cbn [negb andb]. reflexivity.
Qed.

Lemma parse_int_class s bits : is_panic (parse_int s bits) = false.
Proof.
  unfold parse_int. destruct s as [|c0 r]; [reflexivity|].
  destruct (if c0 =? 43 then _ else _) as [neg s1].
  destruct (parse_uint s1 bits); [|reflexivity|].
  - cbv zeta. destruct (negb neg && _); [reflexivity|]. destruct (neg && _); reflexivity.
  - cbv zeta. destruct (negb neg && _); [reflexivity|]. destruct (neg && _); reflexivity.
Qed.

Lemma not_ok_err {A} (o : outcome A) : is_panic o = false -> (forall a, o <> Ok a) -> exists c, o = Err c.
Proof. destruct o; cbn; intros H1 H2; [exfalso; eapply H2; reflexivity|eauto|discriminate]. Qed.

(* ------------------------------------------------------------------ *)
(* widths: parseNumber and slice elements *)

Lemma sbits_good w : good_bits (sbits w).
Proof. unfold good_bits. destruct w; cbn; auto. Qed.
Lemma ubits_le w : ubits w <= 64.
Proof. destruct w; cbn; unfold int_size; lia. Qed.

Lemma in_srange_iff w z : in_srange w z = true <->
  (- Z.of_N (2 ^ (sbits w - 1)) <= z < Z.of_N (2 ^ (sbits w - 1)))%Z.
Proof. unfold in_srange, smin, smax. lia. Qed.

Lemma srange_in_64 w z : in_srange w z = true -> (- Z.of_N (2 ^ (64 - 1)) <= z < Z.of_N (2 ^ (64 - 1)))%Z.
Proof. rewrite in_srange_iff. destruct w; cbn; unfold int_size; cbn; lia. Qed.

Theorem parse_number_int_spec w s z :
  parse_number_int w s = Ok z <-> lit_value s = Some z /\ in_srange w z = true.
Proof.
  unfold parse_number_int, obind. destruct (parse_int s 64) as [c| |] eqn:E.
  - apply parse_int_spec in E as [E1 E2]; [|right; right; right; reflexivity].
    unfold overflow_int. destruct (c =? wrap_signed (sbits w) c)%Z eqn:Eo; cbn [negb].
    + apply Z.eqb_eq in Eo. rewrite <- Eo. rewrite E1.
      split.
      * intros [= <-]. split; [reflexivity|]. apply in_srange_iff. rewrite Eo. apply wrap_signed_range, sbits_good.
      * intros [[= <-] _]. reflexivity.
    + apply Z.eqb_neq in Eo. split; [discriminate|]. intros [H1 H2]. rewrite E1 in H1. inversion H1; subst.
      apply in_srange_iff in H2. rewrite wrap_signed_id in Eo by (auto using sbits_good). congruence.
  - split; [discriminate|]. intros [H1 H2].
    assert (parse_int s 64 = Ok z).
    { apply parse_int_spec; [right; right; right; reflexivity|]. split; [exact H1|]. eapply srange_in_64; eauto. }
    congruence.
  - pose proof (parse_int_class s 64) as H. rewrite E in H. discriminate.
Qed.

Theorem signed_elem_spec w p z :
  signed_elem w p = Ok z <-> lit_value (trim_space p) = Some z /\ in_srange w z = true.
Proof.
  unfold signed_elem, obind. destruct (parse_int (trim_space p) (sbits w)) as [c| |] eqn:E.
  - apply parse_int_spec in E as [E1 E2]; [|apply sbits_good].
    rewrite wrap_signed_id by (auto using sbits_good). rewrite E1.
    split; [intros [= <-]; split; [reflexivity|apply in_srange_iff; exact E2]|intros [[= <-] _]; reflexivity].
  - split; [discriminate|]. intros [H1 H2].
    assert (parse_int (trim_space p) (sbits w) = Ok z).
    { apply parse_int_spec; [apply sbits_good|]. split; [exact H1|apply in_srange_iff; exact H2]. }
    congruence.
  - pose proof (parse_int_class (trim_space p) (sbits w)) as H. rewrite E in H. discriminate.
Qed.

Lemma in_urange_iff w n : in_urange w n = true <-> n <= 2 ^ ubits w - 1.
Proof. unfold in_urange, umax. lia. Qed.

Lemma wrap_unsigned_id bits n : 0 < 2 ^ bits -> n <= 2 ^ bits - 1 -> wrap_unsigned bits n = n.
Proof. intros. unfold wrap_unsigned. apply N.mod_small. lia. Qed.

Lemma pow2_pos bits : 0 < 2 ^ bits.
Proof. apply N.neq_0_lt_0, N.pow_nonzero. lia. Qed.

Lemma ures_out_ok u v : ures_out u = Ok v <-> u = UOk v.
Proof. destruct u; cbn; split; intros H; inversion H; reflexivity. Qed.

Theorem parse_number_uint_spec w s n :
  parse_number_uint w s = Ok n <-> lit_uvalue s = Some n /\ in_urange w n = true.
Proof.
  unfold parse_number_uint, obind. destruct (ures_out (parse_uint s 64)) as [c| |] eqn:E.
  - apply ures_out_ok, parse_uint_spec in E as [E1 E2]; [|lia].
    unfold overflow_uint. destruct (c =? wrap_unsigned (ubits w) c) eqn:Eo; cbn [negb].
    + apply N.eqb_eq in Eo. rewrite <- Eo, E1. split.
      * intros [= <-]. split; [reflexivity|]. apply in_urange_iff. rewrite Eo. unfold wrap_unsigned.
        pose proof (N.mod_lt c (2 ^ ubits w)) as Hl. pose proof (pow2_pos (ubits w)). lia.
      * intros [[= <-] _]. reflexivity.
    + apply N.eqb_neq in Eo. split; [discriminate|]. intros [H1 H2]. rewrite E1 in H1. inversion H1; subst.
      apply in_urange_iff in H2. rewrite wrap_unsigned_id in Eo by (auto using pow2_pos). congruence.
  - split; [discriminate|]. intros [H1 H2].
    assert (parse_uint s 64 = UOk n).
    { apply parse_uint_spec; [lia|]. split; [exact H1|]. apply in_urange_iff in H2.
      pose proof (pow2_le_64 _ (ubits_le w)). change (2 ^ 64 - 1) with max_uint64. lia. }
    rewrite H in E. discriminate.
  - destruct (parse_uint s 64); discriminate.
Qed.

Theorem unsigned_elem_spec w p n :
  unsigned_elem w p = Ok n <-> lit_uvalue (trim_space p) = Some n /\ in_urange w n = true.
Proof.
  unfold unsigned_elem, obind. destruct (ures_out (parse_uint (trim_space p) (ubits w))) as [c| |] eqn:E.
  - apply ures_out_ok, parse_uint_spec in E as [E1 E2]; [|apply ubits_le].
    rewrite wrap_unsigned_id by (auto using pow2_pos). rewrite E1.
    split; [intros [= <-]; split; [reflexivity|apply in_urange_iff; exact E2]|intros [[= <-] _]; reflexivity].
  - split; [discriminate|]. intros [H1 H2].
    assert (parse_uint (trim_space p) (ubits w) = UOk n).
    { apply parse_uint_spec; [apply ubits_le|]. split; [exact H1|apply in_urange_iff; exact H2]. }
    rewrite H in E. discriminate.
  - destruct (parse_uint _ _); discriminate.
Qed.

(* ------------------------------------------------------------------ *)
(* map_out *)

Lemma map_out_ok {A B} (f : A -> outcome B) l bs :
  map_out f l = Ok bs <-> Forall2 (fun a b => f a = Ok b) l bs.
Proof.
  revert bs. induction l as [|a r IH]; intros bs; cbn [map_out].
  - split; [intros [= <-]; constructor|intros H; inversion H; reflexivity].
  - unfold obind. destruct (f a) as [b| |] eqn:E.
    + destruct (map_out f r) as [bs'| |] eqn:E2.
      * split.
        -- intros [= <-]. constructor; [exact E|]. apply IH. reflexivity.
        -- intros H. inversion H; subst. apply IH in H4. rewrite E in H2. inversion H2; inversion H4; subst. reflexivity.
      * split; [discriminate|]. intros H. inversion H; subst. apply IH in H4. discriminate.
      * split; [discriminate|]. intros H. inversion H; subst. apply IH in H4. discriminate.
    + split; [discriminate|]. intros H. inversion H; subst. congruence.
    + split; [discriminate|]. intros H. inversion H; subst. congruence.
Qed.

Lemma map_out_no_panic {A B} (f : A -> outcome B) l :
  (forall a, is_panic (f a) = false) -> is_panic (map_out f l) = false.
Proof.
  intros Hf. induction l as [|a r IH]; cbn [map_out]; [reflexivity|].
  unfold obind. specialize (Hf a). destruct (f a); [|reflexivity|discriminate].
  destruct (map_out f r); [reflexivity|reflexivity|discriminate].
Qed.

(* ------------------------------------------------------------------ *)
(* decimal printing *)

Definition is_dec (c : rune) : Prop := 48 <= c <= 57.

Lemma digit_of_dec d : d < 10 -> digit_of (48 + d) = Some d.
Proof.
  intros H. unfold digit_of.
  assert (E : (48 <=? 48 + d) && (48 + d <=? 57) = true) by (apply andb_true_iff; split; apply N.leb_le; lia).
  rewrite E. f_equal. lia.
Qed.

Lemma dec_digits_val f : forall n acc, n < 2 ^ N.of_nat f ->
  digits_val 10 (dec_digits f n acc) 0 = digits_val 10 acc n.
Proof.
  induction f as [|f IH]; intros n acc Hn.
  - cbn in Hn. assert (n = 0) by lia. subst. reflexivity.
  - cbn [dec_digits]. assert (Hm : n mod 10 < 10) by (apply N.mod_lt; lia).
    assert (Hstep : forall a, digits_val 10 ((48 + n mod 10) :: acc) a = digits_val 10 acc (a * 10 + n mod 10)).
    { intros a. cbn [digits_val]. assert (E : (48 + n mod 10 =? 95) = false) by (apply N.eqb_neq; lia).
      rewrite E, digit_of_dec by exact Hm. assert (E2 : (n mod 10 <? 10) = true) by (apply N.ltb_lt; exact Hm).
      rewrite E2. reflexivity. }
    destruct (n <? 10) eqn:E.
    + apply N.ltb_lt in E. rewrite Hstep. f_equal. rewrite N.mod_small by exact E. lia.
    + apply N.ltb_ge in E. rewrite IH.
      * rewrite Hstep. f_equal. lia.
      * rewrite Nat2N.inj_succ, N.pow_succ_r' in Hn. lia.
Qed.

Lemma dec_digits_all f : forall n acc, Forall is_dec acc -> Forall is_dec (dec_digits f n acc).
Proof.
  induction f as [|f IH]; intros n acc Ha; cbn [dec_digits]; [exact Ha|].
  assert (Hm : n mod 10 < 10) by (apply N.mod_lt; lia).
  assert (Forall is_dec ((48 + n mod 10) :: acc)) by (constructor; [unfold is_dec; lia|exact Ha]).
  destruct (n <? 10); [exact H|apply IH; exact H].
Qed.

Lemma dec_digits_head f : forall n acc, 0 < n -> n < 2 ^ N.of_nat f ->
  exists d rest, dec_digits f n acc = d :: rest /\ 49 <= d <= 57.
Proof.
  induction f as [|f IH]; intros n acc Hp Hn.
  - cbn in Hn. lia.
  - cbn [dec_digits]. destruct (n <? 10) eqn:E.
    + apply N.ltb_lt in E. exists (48 + n mod 10), acc. split; [reflexivity|]. rewrite N.mod_small by exact E. lia.
    + apply N.ltb_ge in E. apply IH; [lia|]. rewrite Nat2N.inj_succ, N.pow_succ_r' in Hn. lia.
Qed.

Lemma format_fuel n : n < 2 ^ N.of_nat (S (N.to_nat (N.log2 n))).
Proof.
  rewrite Nat2N.inj_succ, N2Nat.id. destruct (N.eq_dec n 0) as [->|Hn]; [cbn; lia|].
  apply N.log2_spec. lia.
Qed.

Lemma format_uint_dec n : Forall is_dec (format_uint n).
Proof. apply dec_digits_all. constructor. Qed.

Lemma has_underscore_dec s : Forall is_dec s -> has_underscore s = false.
Proof.
  induction 1 as [|c r Hc _ IH]; [reflexivity|]. unfold has_underscore in *. cbn [existsb]. rewrite IH.
  assert (E : (c =? 95) = false) by (apply N.eqb_neq; unfold is_dec in Hc; lia). rewrite E. reflexivity.
Qed.

Theorem lit_uvalue_format n : lit_uvalue (format_uint n) = Some n.
Proof.
  destruct (N.eq_dec n 0) as [->|Hn]; [reflexivity|].
  pose proof (format_fuel n) as Hf.
  destruct (dec_digits_head _ n [] ltac:(lia) Hf) as (d & rest & E & Hd).
  pose proof (dec_digits_val _ n [] Hf) as Hv. pose proof (format_uint_dec n) as Ha.
  unfold format_uint in *. rewrite E in *. unfold lit_uvalue, base_prefix.
  assert (E48 : (d =? 48) = false) by (apply N.eqb_neq; lia). rewrite E48.
  rewrite has_underscore_dec by exact Ha. cbn [andb]. exact Hv.
Qed.

Lemma format_uint_head n : exists d rest, format_uint n = d :: rest /\ 48 <= d <= 57.
Proof.
  pose proof (format_uint_dec n) as H. destruct (format_uint n) as [|d rest] eqn:E.
  - exfalso. destruct (N.eq_dec n 0) as [->|Hn]; [discriminate|].
    destruct (dec_digits_head _ n [] ltac:(lia) (format_fuel n)) as (d & rest & E2 & _).
    unfold format_uint in E. congruence.
  - inversion H; subst. eauto.
Qed.

Theorem lit_value_format z : lit_value (format_int z) = Some z.
Proof.
  unfold format_int. destruct (z <? 0)%Z eqn:E.
  - apply Z.ltb_lt in E. unfold lit_value. change (45 =? 43) with false. change (45 =? 45) with true. cbv iota.
    rewrite lit_uvalue_format. cbn [option_map]. f_equal. lia.
  - apply Z.ltb_ge in E. destruct (format_uint_head (Z.to_N z)) as (d & rest & E2 & Hd).
    pose proof (lit_uvalue_format (Z.to_N z)) as Hv. rewrite E2 in *. unfold lit_value.
    assert (E43 : (d =? 43) = false) by (apply N.eqb_neq; lia).
    assert (E45 : (d =? 45) = false) by (apply N.eqb_neq; lia). rewrite E43, E45, Hv. cbn [option_map]. f_equal. lia.
Qed.

(* ------------------------------------------------------------------ *)
(* scalar round trips and never-wraps *)

Theorem int_roundtrip_signed w z : in_srange w z = true -> parse_number_int w (format_int z) = Ok z.
Proof. intros H. apply parse_number_int_spec. split; [apply lit_value_format|exact H]. Qed.

Theorem int_roundtrip_unsigned w n : in_urange w n = true -> parse_number_uint w (format_uint n) = Ok n.
Proof. intros H. apply parse_number_uint_spec. split; [apply lit_uvalue_format|exact H]. Qed.

Lemma parse_number_int_class w s : is_panic (parse_number_int w s) = false.
Proof.
  unfold parse_number_int, obind. pose proof (parse_int_class s 64) as H.
  destruct (parse_int s 64); [|reflexivity|discriminate]. destruct (overflow_int _ _); reflexivity.
Qed.
Lemma parse_number_uint_class w s : is_panic (parse_number_uint w s) = false.
Proof.
  unfold parse_number_uint, obind. destruct (parse_uint s 64); cbn; try reflexivity.
  destruct (overflow_uint _ _); reflexivity.
Qed.

Theorem int_out_of_range_signed w s v :
  lit_value s = Some v -> in_srange w v = false -> exists c, parse_number_int w s = Err c.
Proof.
  intros Hv Hr. apply not_ok_err; [apply parse_number_int_class|].
  intros a H. apply parse_number_int_spec in H as [H1 H2]. congruence.
Qed.

Theorem int_out_of_range_unsigned w s v :
  lit_uvalue s = Some v -> in_urange w v = false -> exists c, parse_number_uint w s = Err c.
Proof.
  intros Hv Hr. apply not_ok_err; [apply parse_number_uint_class|].
  intros a H. apply parse_number_uint_spec in H as [H1 H2]. congruence.
Qed.

(* ------------------------------------------------------------------ *)
(* slices: Split / TrimSpace / join *)

Definition no_comma (s : str) : Prop := Forall (fun c => c <> comma) s.

Lemma split_on_app a b : no_comma a -> split_on comma (a ++ comma :: b) = a :: split_on comma b.
Proof.
  induction 1 as [|c a Hc _ IH]; cbn [app split_on].
  - rewrite N.eqb_refl. reflexivity.
  - apply N.eqb_neq in Hc. rewrite Hc, IH. reflexivity.
Qed.

Lemma split_on_single a : no_comma a -> split_on comma a = [a].
Proof.
  induction 1 as [|c a Hc _ IH]; cbn [split_on]; [reflexivity|].
  apply N.eqb_neq in Hc. rewrite Hc, IH. reflexivity.
Qed.

Lemma split_join l : l <> [] -> Forall no_comma l -> split_on comma (join_with comma l) = l.
Proof.
  induction l as [|x r IH]; intros Hne Hall; [congruence|]. inversion Hall; subst.
  destruct r as [|y r']; cbn [join_with comma].
  - apply split_on_single. assumption.
  - rewrite split_on_app by assumption. f_equal. apply IH; [discriminate|assumption].
Qed.

Definition no_space (s : str) : Prop := Forall (fun c => is_space c = false) s.

Lemma drop_space_id s : no_space s -> drop_space s = s.
Proof. destruct 1 as [|c r Hc _]; cbn; [reflexivity|rewrite Hc; reflexivity]. Qed.

Lemma trim_space_id s : no_space s -> trim_space s = s.
Proof.
  intros H. unfold trim_space. rewrite (drop_space_id s H).
  rewrite drop_space_id; [apply rev_involutive|]. unfold no_space. apply Forall_rev. exact H.
Qed.

Lemma is_dec_props c : is_dec c -> c <> comma /\ is_space c = false.
Proof. unfold is_dec, comma, is_space. intros H. split; [lia|]. repeat (apply orb_false_iff; split); lia. Qed.

Lemma format_uint_clean n : no_comma (format_uint n) /\ no_space (format_uint n).
Proof.
  pose proof (format_uint_dec n) as H. split; eapply Forall_impl; try exact H; intros c Hc; apply is_dec_props in Hc; tauto.
Qed.

Lemma format_int_clean z : no_comma (format_int z) /\ no_space (format_int z).
Proof.
  unfold format_int. destruct (z <? 0)%Z.
  - destruct (format_uint_clean (Z.to_N (- z))). split; constructor; auto. unfold comma. lia.
  - apply format_uint_clean.
Qed.


Lemma join_with_nonempty sep x r : x <> [] -> join_with sep (x :: r) <> [].
Proof. intros Hx. destruct r; cbn [join_with]; [exact Hx|]. destruct x; [congruence|discriminate]. Qed.

Lemma format_uint_nonempty n : format_uint n <> [].
Proof. destruct (format_uint_head n) as (d & rest & E & _). rewrite E. discriminate. Qed.
Lemma format_int_nonempty z : format_int z <> [].
Proof. unfold format_int. destruct (z <? 0)%Z; [discriminate|apply format_uint_nonempty]. Qed.

Lemma nilb_false {A} (l : list A) : l <> [] -> nilb l = false.
Proof. destruct l; [congruence|reflexivity]. Qed.

(* SignedIntegralSlice inverts SignedIntegralSliceFlag.String; for the pinned
   code (fixed = false) only on non-empty slices *)
Theorem signed_slice_roundtrip_gen fixed w zs :
  fixed = true \/ zs <> [] -> Forall (fun z => in_srange w z = true) zs ->
  signed_slice_gen fixed w (int_slice_string zs) = Ok zs.
Proof.
  intros Hf Hr. unfold signed_slice_gen, int_slice_string. destruct zs as [|z r].
  - destruct Hf as [-> | Hf]; [reflexivity|congruence].
  - rewrite (nilb_false (join_with comma (map format_int (z :: r)))), andb_false_r
      by (apply join_with_nonempty, format_int_nonempty).
    rewrite split_join; [|discriminate|apply Forall_map, Forall_forall; intros; apply format_int_clean].
    apply map_out_ok. clear Hf. induction Hr as [|a l Ha _ IH]; cbn [map]; constructor; [|exact IH].
    apply signed_elem_spec. rewrite trim_space_id by apply format_int_clean.
    split; [apply lit_value_format|exact Ha].
Qed.

Theorem unsigned_slice_roundtrip_gen fixed w ns :
  fixed = true \/ ns <> [] -> Forall (fun n => in_urange w n = true) ns ->
  unsigned_slice_gen fixed w (uint_slice_string ns) = Ok ns.
Proof.
  intros Hf Hr. unfold unsigned_slice_gen, uint_slice_string. destruct ns as [|z r].
  - destruct Hf as [-> | Hf]; [reflexivity|congruence].
  - rewrite (nilb_false (join_with comma (map format_uint (z :: r)))), andb_false_r
      by (apply join_with_nonempty, format_uint_nonempty).
    rewrite split_join; [|discriminate|apply Forall_map, Forall_forall; intros; apply format_uint_clean].
    apply map_out_ok. clear Hf. induction Hr as [|a l Ha _ IH]; cbn [map]; constructor; [|exact IH].
    apply unsigned_elem_spec. rewrite trim_space_id by apply format_uint_clean.
    split; [apply lit_uvalue_format|exact Ha].
Qed.

(* finding 10 on the pinned code: the empty slice prints as "" and does not parse back *)
Example int_slice_roundtrip_pre_fix_refuted :
  signed_slice_gen false I64 (int_slice_string []) = Err e_syntax /\
  unsigned_slice_gen false U8 (uint_slice_string []) = Err e_syntax.
Proof. split; vm_compute; reflexivity. Qed.

Lemma Forall2_imp {A B} (P Q : A -> B -> Prop) l l' :
  (forall a b, P a b -> Q a b) -> Forall2 P l l' -> Forall2 Q l l'.
Proof. intros H. induction 1; constructor; auto. Qed.

(* every element a slice parser returns is the value of its literal and in range *)
Theorem signed_slice_sound fixed w s zs : signed_slice_gen fixed w s = Ok zs ->
  (s = [] /\ zs = []) \/
  Forall2 (fun p z => lit_value (trim_space p) = Some z /\ in_srange w z = true) (split_on comma s) zs.
Proof.
  unfold signed_slice_gen. destruct (fixed && nilb s) eqn:E.
  - intros [= <-]. left. apply andb_true_iff in E as [_ E]. destruct s; [auto|discriminate].
  - intros H. right. apply map_out_ok in H. eapply Forall2_imp; [|exact H].
    intros p z Hz. apply signed_elem_spec. exact Hz.
Qed.

Theorem unsigned_slice_sound fixed w s ns : unsigned_slice_gen fixed w s = Ok ns ->
  (s = [] /\ ns = []) \/
  Forall2 (fun p n => lit_uvalue (trim_space p) = Some n /\ in_urange w n = true) (split_on comma s) ns.
Proof.
  unfold unsigned_slice_gen. destruct (fixed && nilb s) eqn:E.
  - intros [= <-]. left. apply andb_true_iff in E as [_ E]. destruct s; [auto|discriminate].
  - intros H. right. apply map_out_ok in H. eapply Forall2_imp; [|exact H].
    intros p z Hz. apply unsigned_elem_spec. exact Hz.
Qed.

Lemma signed_elem_class w p : is_panic (signed_elem w p) = false.
Proof.
  unfold signed_elem, obind. pose proof (parse_int_class (trim_space p) (sbits w)).
  destruct (parse_int _ _); [reflexivity|reflexivity|discriminate].
Qed.
Lemma unsigned_elem_class w p : is_panic (unsigned_elem w p) = false.
Proof. unfold unsigned_elem, obind. destruct (parse_uint _ _); reflexivity. Qed.

Lemma signed_slice_class fixed w s : is_panic (signed_slice_gen fixed w s) = false.
Proof.
  unfold signed_slice_gen. destruct (fixed && nilb s); [reflexivity|].
  apply map_out_no_panic, signed_elem_class.
Qed.
Lemma unsigned_slice_class fixed w s : is_panic (unsigned_slice_gen fixed w s) = false.
Proof.
  unfold unsigned_slice_gen. destruct (fixed && nilb s); [reflexivity|].
  apply map_out_no_panic, unsigned_elem_class.
Qed.

Lemma Forall2_Exists_l {A B} (P : A -> B -> Prop) (Q : A -> Prop) l l' :
  Forall2 P l l' -> Exists Q l -> exists a b, P a b /\ Q a.
Proof.
  induction 1 as [|a b l l' Hab _ IH]; intros HE; inversion HE; subst; eauto.
Qed.

(* an element whose literal value is outside the width makes the whole call fail *)
Theorem signed_slice_rejects fixed w s : s <> [] ->
  Exists (fun p => exists v, lit_value (trim_space p) = Some v /\ in_srange w v = false) (split_on comma s) ->
  exists c, signed_slice_gen fixed w s = Err c.
Proof.
  intros Hs HE. apply not_ok_err; [apply signed_slice_class|]. intros zs H.
  apply signed_slice_sound in H as [[H _]|H]; [congruence|].
  destruct (Forall2_Exists_l _ _ _ _ H HE) as (p & z & [H1 H2] & (v & H3 & H4)). congruence.
Qed.

Theorem unsigned_slice_rejects fixed w s : s <> [] ->
  Exists (fun p => exists v, lit_uvalue (trim_space p) = Some v /\ in_urange w v = false) (split_on comma s) ->
  exists c, unsigned_slice_gen fixed w s = Err c.
Proof.
  intros Hs HE. apply not_ok_err; [apply unsigned_slice_class|]. intros zs H.
  apply unsigned_slice_sound in H as [[H _]|H]; [congruence|].
  destruct (Forall2_Exists_l _ _ _ _ H HE) as (p & z & [H1 H2] & (v & H3 & H4)). congruence.
Qed.

(* ------------------------------------------------------------------ *)
(* Go literal forms denote the positional value; blanks around slice elements are ignored *)

Lemma drop_space_app a q : Forall (fun c => is_space c = true) a -> drop_space (a ++ q) = drop_space q.
Proof. induction 1 as [|c a Hc _ IH]; cbn [app drop_space]; [reflexivity|rewrite Hc; exact IH]. Qed.

Lemma drop_space_head c r : is_space c = false -> drop_space (c :: r) = c :: r.
Proof. intros H. cbn. rewrite H. reflexivity. Qed.

Lemma drop_space_all b : Forall (fun c => is_space c = true) b -> drop_space b = [].
Proof. induction 1 as [|c b Hc _ IH]; cbn; [reflexivity|rewrite Hc; exact IH]. Qed.

Theorem trim_space_pad a p b :
  Forall (fun c => is_space c = true) a -> Forall (fun c => is_space c = true) b ->
  no_space p -> trim_space (a ++ p ++ b) = p.
Proof.
  intros Ha Hb Hp. unfold trim_space. rewrite drop_space_app by exact Ha.
  destruct p as [|c p'].
  - cbn [app]. rewrite (drop_space_all b Hb). reflexivity.
  - inversion Hp; subst. cbn [app]. rewrite drop_space_head by assumption.
    change (c :: p' ++ b) with ((c :: p') ++ b).
    rewrite rev_app_distr, drop_space_app by (apply Forall_rev; exact Hb).
    rewrite drop_space_id by (apply Forall_rev; exact Hp). apply rev_involutive.
Qed.

(* prefix forms: the digits after 0x / 0o / 0b / 0 are read in that base *)
Definition plain_digits (s : str) : Prop := has_underscore s = false.

Theorem lit_prefix_forms d ds : plain_digits (d :: ds) ->
  lit_uvalue (48 :: 120 :: d :: ds) = digits_val 16 (d :: ds) 0 /\
  lit_uvalue (48 :: 88 :: d :: ds) = digits_val 16 (d :: ds) 0 /\
  lit_uvalue (48 :: 111 :: d :: ds) = digits_val 8 (d :: ds) 0 /\
  lit_uvalue (48 :: 79 :: d :: ds) = digits_val 8 (d :: ds) 0 /\
  lit_uvalue (48 :: 98 :: d :: ds) = digits_val 2 (d :: ds) 0 /\
  lit_uvalue (48 :: 66 :: d :: ds) = digits_val 2 (d :: ds) 0.
Proof.
  intros H. unfold plain_digits in H.
  repeat split; unfold lit_uvalue, base_prefix; change (48 =? 48) with true; cbv iota;
    cbn [N.ltb N.compare Pos.compare Pos.compare_cont lower_b N.lor Pos.lor N.eqb Pos.eqb andb];
    rewrite H; reflexivity.
Qed.

(* legacy octal: a leading 0 *)
Theorem lit_legacy_octal ds : plain_digits ds ->
  (forall c r, ds = c :: r -> is_base_letter c = false) ->
  lit_uvalue (48 :: ds) = digits_val 8 ds 0.
Proof.
  intros H Hc. unfold plain_digits in H. unfold lit_uvalue, base_prefix. change (48 =? 48) with true. cbv iota.
  destruct ds as [|c1 [|c2 r]]; [reflexivity| |].
  - rewrite H. reflexivity.
  - specialize (Hc _ _ eq_refl). unfold is_base_letter in Hc.
    destruct (c1 <? 128); cbn [andb] in *; [|rewrite H; reflexivity].
    apply orb_false_iff in Hc as [Hc H3]. apply orb_false_iff in Hc as [H1 H2].
    rewrite H1, H2, H3, H. reflexivity.
Qed.

(* digit separators do not contribute to the value *)
Theorem digits_val_skips_underscores base s : forall acc,
  digits_val base s acc = digits_val base (filter (fun c => negb (c =? 95)) s) acc.
Proof.
  induction s as [|c r IH]; intros acc; [reflexivity|]. cbn [digits_val filter].
  destruct (c =? 95) eqn:E; cbn [negb]; [apply IH|].
  cbn [digits_val]. rewrite E. destruct (digit_of c); [|reflexivity]. destruct (_ <? _); [apply IH|reflexivity].
Qed.

Example go_forms_examples :
  lit_value (s2r "0x_7f") = Some 127%Z /\ lit_value (s2r "1_000") = Some 1000%Z /\
  lit_value (s2r "-0b1000_0000") = Some (-128)%Z /\ lit_value (s2r "0o17") = Some 15%Z /\
  lit_value (s2r "017") = Some 15%Z /\ lit_value (s2r "+0X7F") = Some 127%Z /\
  lit_value (s2r "1__0") = None /\ lit_value (s2r "_1") = None /\ lit_value (s2r "0x") = None /\
  signed_slice_gen true I8 (s2r " 0x7f ,-128,	0b1 ") = Ok [127; -128; 1]%Z /\
  (exists c, signed_slice_gen true I8 (s2r "1, 128") = Err c).
Proof. repeat split; try (vm_compute; reflexivity). eexists. vm_compute. reflexivity. Qed.

(* ------------------------------------------------------------------ *)
(* floats: the dials part on top of strconv's print/parse round trip *)
From Dials Require Import Text.ParseFloat.

Section FloatRT.
  Variables F64 F32 : Type.
  Variable parse_float : N -> str -> outcome F64.
  Variable overflow32 : F64 -> bool.
  Variable to32 : F64 -> F32.
  Variable of32 : F32 -> F64.                      (* exact widening float64(x) *)
  Variable fmt64 : F64 -> str.                     (* strconv.FormatFloat(f, 'g', -1, 64) *)
  Variable fmt32 : F32 -> str.                     (* strconv.FormatFloat(float64(f), 'g', -1, 32) *)
  Hypothesis strconv64 : forall f, parse_float 64 (fmt64 f) = Ok f.
  Hypothesis strconv32 : forall f, parse_float 32 (fmt32 f) = Ok (of32 f).
  Hypothesis narrow_widen : forall f, to32 (of32 f) = f.
  Hypothesis widened_fits : forall f, overflow32 (of32 f) = false.

  Lemma float_roundtrip_given_strconv_l :
    (forall f, parse_number_f64 F64 parse_float (fmt64 f) = Ok f) /\
    (forall f, parse_number_f32 F64 F32 parse_float overflow32 to32 (fmt32 f) = Ok f).
  Proof.
    split; intros f.
    - unfold parse_number_f64. rewrite strconv64. reflexivity.
    - unfold parse_number_f32. rewrite strconv32. cbn [obind]. rewrite widened_fits, narrow_widen. reflexivity.
  Qed.
End FloatRT.

(* the current tree *)
Lemma int_slice_roundtrip_l w zs : Forall (fun z => in_srange w z = true) zs ->
  signed_slice w (int_slice_string zs) = Ok zs.
Proof. exact (signed_slice_roundtrip_gen true w zs (or_introl eq_refl)). Qed.
Lemma uint_slice_roundtrip_l w ns : Forall (fun n => in_urange w n = true) ns ->
  unsigned_slice w (uint_slice_string ns) = Ok ns.
Proof. exact (unsigned_slice_roundtrip_gen true w ns (or_introl eq_refl)). Qed.

Definition go_forms_l :=
  conj lit_prefix_forms (conj lit_legacy_octal (conj digits_val_skips_underscores trim_space_pad)).

From Dials Require Import Text.ParseString.
Lemma bool_roundtrip_l b : parse_bool (format_bool b) = Ok b.
Proof. destruct b; reflexivity. Qed.
