(* Model of /repo/parse/split_string_slice.go and split_map.go: token-level
   state machines over the token stream of a modelled text/scanner
   (text/scanner/scanner.go, Go 1.23), plus StringSlice, StringSet,
   StringStringSliceMap (string_slice.go, string_set.go,
   map_string_string_slice.go).  Definitions only; proofs in SplitProofs.v
   and NoPanicProofs.v.

   The scanner is modelled on the remaining input (a rune list whose head is
   the scanner's one-rune look-ahead).  What is modelled: white-space
   skipping (GoWhitespace), identifiers by the code's custom IsIdentRune,
   double-quoted strings and single-quoted chars with Go escapes (scanString,
   scanEscape, scanDigits), raw strings, every other rune as a one-rune token.
   Scanner errors (unterminated literal, bad escape, bad char literal, NUL)
   only ever increase ErrorCount, and every way out of the callers' loops
   with ErrorCount > 0 returns an error, so a scanner error is one outcome
   SErr.  The NUL rule (next() reports NUL whenever it reads one, and every
   rune is read before EOF is returned) is the up-front test has_nul.
   Invalid UTF-8: next() reports "invalid UTF-8 encoding" for a byte that starts no valid
   sequence (a raw pseudo rune of the front end Text/Utf8.v), like NUL: has_invalid.
   Not modelled: scanNumber (unreachable:
   the custom IsIdentRune accepts digits and '.', both printable), positions. *)
From Coq Require Import List NArith Bool.
From Dials Require Import Base.Outcome Base.Runes Text.ParseInt Text.Quote.
Import ListNotations.
Open Scope N_scope.

Definition e_scan : N := 5.     (* scanner reported an error *)
Definition e_token : N := 6.    (* unexpected token *)
Definition e_dup : N := 7.      (* duplicate key / set member *)
Definition e_hang : N := 99.    (* fuel exhausted: the Go loop would not terminate *)

(* GoWhitespace = 1<<'\t' | 1<<'\n' | 1<<'\r' | 1<<' ' *)
Definition is_ws (c : rune) : bool := (c =? 9) || (c =? 10) || (c =? 13) || (c =? 32).
Fixpoint skip_ws (s : str) : str :=
  match s with c :: r => if is_ws c then skip_ws r else s | [] => [] end.

Section Scanner.
  Variable isp : rune -> bool.          (* unicode.IsPrint *)
  Variable colon_ident : bool.          (* ':' allowed inside identifiers (slices/sets) or not (maps) *)

  (* the IsIdentRune callbacks of split_string_slice.go:31-50 / split_map.go:32-52 *)
  Definition ident_rune (ch : rune) : bool :=
    if (ch =? bslash) || (ch =? 44) || (ch =? dquote) || (ch =? squote) || (ch =? bquote) || (ch =? 0)
    then false
    else if ch =? 58 then colon_ident
    else if (ch =? 46) || (ch =? 47) || (ch =? 43) || (ch =? 45) || (ch =? 36) || (ch =? 37) then true
    else if (ch <? 32) && is_ws ch then false
    else isp ch.

  Fixpoint span_ident (s : str) : str * str :=
    match s with
    | c :: r => if ident_rune c then let '(a, b) := span_ident r in (c :: a, b) else ([], s)
    | [] => ([], [])
    end.

  (* scanString / scanEscape / scanDigits as one automaton over the input.
     SDig base k: k+1 more digits of that base are required. *)
  Inductive sstate := SNorm | SEsc | SDig (base : N) (k : nat).

  Definition digit_val (c : rune) : N :=
    match unhex c with Some v => v | None => 16 end.

  Definition simple_escape (c : rune) : bool :=
    (c =? 97) || (c =? 98) || (c =? 102) || (c =? 110) || (c =? 114) || (c =? 116) || (c =? 118)
    || (c =? bslash).

  (* result: token text after the opening quote (closing quote included),
     the remaining input, the number of characters in the literal *)
  Definition pre (c : rune) (bump : bool) (o : option (str * str * N)) : option (str * str * N) :=
    match o with
    | Some (t, rest, n) => Some (c :: t, rest, if bump then n + 1 else n)
    | None => None
    end.

  Fixpoint scan_str (q : rune) (st : sstate) (s : str) : option (str * str * N) :=
    match s with
    | [] => None                                           (* literal not terminated / bad escape at EOF *)
    | c :: r =>
        match st with
        | SNorm =>
            if c =? q then Some ([c], r, 0)
            else if c =? 10 then None
            else if c =? bslash then pre c true (scan_str q SEsc r)
            else pre c true (scan_str q SNorm r)
        | SEsc =>
            if simple_escape c || (c =? q) then pre c false (scan_str q SNorm r)
            else if (48 <=? c) && (c <=? 55) then pre c false (scan_str q (SDig 8 1) r)
            else if c =? 120 then pre c false (scan_str q (SDig 16 1) r)
            else if c =? 117 then pre c false (scan_str q (SDig 16 3) r)
            else if c =? 85 then pre c false (scan_str q (SDig 16 7) r)
            else None
        | SDig base k =>
            if digit_val c <? base then
              pre c false (scan_str q (match k with O => SNorm | S k' => SDig base k' end) r)
            else None
        end
    end.

  Inductive token :=
  | TEOF | TIdent (t : str) | TString (t : str) | TRawString (t : str) | TChar | TOther (c : rune).
  Inductive sres := SErr | STok (t : token) (rest : str).

  (* Scanner.Scan with Mode = ScanStrings|ScanRawStrings|ScanIdents|ScanChars
     (|ScanInts|ScanFloats for maps; irrelevant, see the header) *)
  Definition scan (s : str) : sres :=
    match skip_ws s with
    | [] => STok TEOF []
    | c :: r =>
        if ident_rune c then let '(a, rest) := span_ident r in STok (TIdent (c :: a)) rest
        else if c =? dquote then
          match scan_str dquote SNorm r with
          | Some (t, rest, _) => STok (TString (c :: t)) rest
          | None => SErr
          end
        else if c =? squote then
          match scan_str squote SNorm r with
          | Some (_, rest, n) => if n =? 1 then STok TChar rest else SErr
          | None => SErr
          end
        else if c =? bquote then
          match raw_body r with
          | Some (b, rest) => STok (TRawString (c :: b ++ [bquote])) rest
          | None => SErr
          end
        else STok (TOther c) r
    end.

  (* text of a value token: identifiers verbatim, strings through strconv.Unquote *)
  Definition token_text (t : token) : option (outcome str) :=
    match t with
    | TIdent x => Some (Ok x)
    | TString x | TRawString x => Some (unquote x)
    | _ => None
    end.
End Scanner.

Definition has_nul (s : str) : bool := existsb (fun c => c =? 0) s.

(* Scanner.Peek, first call only: a leading U+FEFF (byte order mark) is skipped *)
Definition strip_bom (s : str) : str :=
  match s with c :: r => if c =? 65279 then r else s | [] => [] end.

(* ---- splitStringsSlice (split_string_slice.go:13-85); the callback addVal
   is a state transformer that may fail ---- *)
Section SplitSlice.
  Variable isp : rune -> bool.
  Context {A : Type}.
  Variable add : A -> str -> outcome A.

  Fixpoint sss_loop (fuel : nat) (s : str) (in_value : bool) (a : A) : outcome A :=
    match fuel with
    | O => Err e_hang
    | S f =>
        match scan isp true s with
        | SErr => Err e_scan
        | STok TEOF _ => Ok a
        | STok (TOther c) rest => if c =? 44 then sss_loop f rest true a else Err e_token
        | STok TChar _ => Err e_token
        | STok t rest =>
            match token_text t with
            | Some (Ok txt) =>
                if in_value then a' <- add a txt ;; sss_loop f rest false a' else Err e_token
            | Some (Err c) => Err c
            | Some (Panic c) => Panic c
            | None => Err e_token
            end
        end
    end.

  Definition split_strings_slice (s : str) (a : A) : outcome A :=
    match s with
    | [] => Ok a
    | _ => if has_nul s || has_invalid s then Err e_scan else sss_loop (S (length s)) (strip_bom s) true a
    end.
End SplitSlice.

(* ---- splitMap (split_map.go:13-111) ----
   `fixed` = false is the pinned code, which uses curKey == "" as the
   "no key yet" sentinel; `fixed` = true tracks the presence of a key in a
   separate flag (fix: commit for finding 9). *)
Section SplitMap.
  Variable isp : rune -> bool.
  Variable fixed : bool.
  Context {A : Type}.
  Variable add : A -> str -> str -> outcome A.

  Record mstate := MS { in_key : bool; in_val : bool; have_key : bool; cur_key : str; cur_val : str }.
  Definition ms0 := MS true false false [] [].

  (* "a key is present" as the code decides it *)
  Definition key_present (m : mstate) : bool :=
    if fixed then have_key m else negb (nilb (cur_key m)).

  Definition flush_kv (m : mstate) (a : A) : outcome A :=
    if key_present m then add a (cur_key m) (cur_val m) else Ok a.

  Fixpoint sm_loop (fuel : nat) (s : str) (m : mstate) (a : A) : outcome A :=
    match fuel with
    | O => Err e_hang
    | S f =>
        match scan isp false s with
        | SErr => Err e_scan
        | STok TEOF _ => flush_kv m a
        | STok (TOther c) rest =>
            if c =? 44 then
              a' <- flush_kv m a ;; sm_loop f rest ms0 a'
            else if c =? 58 then
              if in_val m || negb (key_present m) then Err e_token
              else sm_loop f rest (MS false true (have_key m) (cur_key m) (cur_val m)) a
            else sm_loop f rest m a                       (* no case: token ignored *)
        | STok TChar rest => sm_loop f rest m a           (* no case: token ignored *)
        | STok t rest =>
            match token_text t with
            | Some (Ok txt) =>
                if in_key m then sm_loop f rest (MS true (in_val m) true txt (cur_val m)) a
                else if in_val m && key_present m then
                  sm_loop f rest (MS false true (have_key m) (cur_key m) txt) a
                else Err e_token
            | Some (Err c) => Err c
            | Some (Panic c) => Panic c
            | None => Err e_token
            end
        end
    end.

  Definition split_map (s : str) (a : A) : outcome A :=
    if has_nul s || has_invalid s then Err e_scan else sm_loop (S (length s)) (strip_bom s) ms0 a.
End SplitMap.

(* ---- callers ---- *)
Definition mem_str (x : str) (l : list str) : bool := existsb (str_eqb x) l.

(* StringSlice: append *)
Definition string_slice (isp : rune -> bool) (s : str) : outcome (list str) :=
  split_strings_slice isp (fun acc v => Ok (acc ++ [v])) s [].

(* StringSet: members in insertion order, duplicates are an error *)
Definition string_set (isp : rune -> bool) (s : str) : outcome (list str) :=
  split_strings_slice isp (fun acc v => if mem_str v acc then Err e_dup else Ok (acc ++ [v])) s [].

(* StringStringSliceMap: ss[k] = append(ss[k], v); association list in
   first-insertion order of the keys *)
Fixpoint mss_add (m : list (str * list str)) (k v : str) : list (str * list str) :=
  match m with
  | [] => [(k, [v])]
  | (k', vs) :: r => if str_eqb k k' then (k', vs ++ [v]) :: r else (k', vs) :: mss_add r k v
  end.
Definition mss_parse_gen (fixed : bool) (isp : rune -> bool) (s : str) : outcome (list (str * list str)) :=
  split_map isp fixed (fun m k v => Ok (mss_add m k v)) s [].

(* Map with string keys and string values (map.go): a key already present is an error *)
Definition map_ss_parse_gen (fixed : bool) (isp : rune -> bool) (s : str) : outcome (list (str * str)) :=
  split_map isp fixed
    (fun m k v => if mem_str k (map fst m) then Err e_dup else Ok (m ++ [(k, v)])) s [].

(* the current tree (with the fix: commit for finding 9) *)
Definition mss_parse := mss_parse_gen true.
Definition map_ss_parse := map_ss_parse_gen true.
