(* C16, text half: every text entry point of the models returns Ok or Err for
   every rune list - never Panic - and never exhausts its fuel (Err 99 is the
   models' "the Go loop would not terminate" outcome). *)
From Coq Require Import String.
From Coq Require Import List NArith ZArith Bool Lia.
From Dials Require Import Base.Outcome Base.Runes Text.CaseConv Text.GoCamelSpec Text.GoCamelFacts
  Text.GoCamelProofs Text.ParseInt Text.Quote Text.Split Text.ParseDuration Text.ParseString Text.ParseIntProofs Text.DurationProofs.
Import ListNotations.
Open Scope string_scope.
Open Scope list_scope.
Open Scope N_scope.

Opaque extract_initialisms initialisms.

Definition is_hang {A} (o : outcome A) : bool :=
  match o with Err c => c =? 99 | _ => false end.
Definition safe {A} (o : outcome A) : Prop := is_panic o = false /\ is_hang o = false.

Lemma safe_not_hang {A} (o : outcome A) : safe o -> o <> Err 99.
Proof. intros [_ H] ->. discriminate. Qed.
Lemma safe_no_panic {A} (o : outcome A) : safe o -> is_panic o = false.
Proof. intros [H _]. exact H. Qed.

Ltac triv := split; reflexivity.

Lemma safe_obind {A B} (o : outcome A) (f : A -> outcome B) :
  safe o -> (forall a, safe (f a)) -> safe (obind o f).
Proof. intros Ho Hf. destruct o; cbn [obind]; [apply Hf|exact Ho|exact Ho]. Qed.
Lemma safe_omap {A B} (f : A -> B) (o : outcome A) : safe o -> safe (omap f o).
Proof. destruct o; intros H; [triv|exact H|exact H]. Qed.

(* ------------------------------------------------------------------ *)
(* the case decoders of Text/CaseConv.v *)

Lemma camel_loop_safe s : forall acc ws, safe (camel_loop acc ws s).
Proof.
  induction s as [|c s IH]; intros acc ws; cbn [camel_loop]; [triv|].
  destruct (negb (is_letter c) && negb (is_digit c)); [triv|]. destruct (is_upper c); apply IH.
Qed.
Lemma decode_camel_safe s : safe (decode_camel s).
Proof. unfold decode_camel. destruct (first_bad s); [triv|apply camel_loop_safe]. Qed.
Lemma decode_upper_camel_safe s : safe (decode_upper_camel s).
Proof. unfold decode_upper_camel. destruct s; [triv|]. destruct (_ && _); [apply decode_camel_safe|triv]. Qed.
Lemma decode_lower_camel_safe s : safe (decode_lower_camel s).
Proof. unfold decode_lower_camel. destruct s; [triv|]. destruct (_ && _); [apply decode_camel_safe|triv]. Qed.

Lemma lsplit_loop_safe sp s : forall acc ws, safe (lsplit_loop sp acc ws s).
Proof.
  induction s as [|c s IH]; intros acc ws; cbn [lsplit_loop]; [triv|].
  destruct (c =? sp); [apply IH|]. destruct (_ || _); [triv|apply IH].
Qed.
Lemma decode_lower_split_safe sp s : safe (decode_lower_split sp s).
Proof. unfold decode_lower_split. destruct (first_bad s); [triv|apply lsplit_loop_safe]. Qed.

Lemma usnake_loop_safe s : forall acc ws, safe (usnake_loop acc ws s).
Proof.
  induction s as [|c s IH]; intros acc ws; cbn [usnake_loop]; [triv|].
  destruct (c =? underscore); [apply IH|]. destruct (_ || _); [triv|apply IH].
Qed.
Lemma decode_upper_snake_safe s : safe (decode_upper_snake s).
Proof. unfold decode_upper_snake. destruct (first_bad s); [triv|apply usnake_loop_safe]. Qed.

Lemma cpsnake_loop_safe s : forall acc ws, safe (cpsnake_loop acc ws s).
Proof.
  induction s as [|c s IH]; intros acc ws; cbn [cpsnake_loop]; [triv|].
  destruct (c =? underscore); [apply IH|]. destruct (_ && _); [triv|apply IH].
Qed.
Lemma decode_cp_snake_safe s : safe (decode_cp_snake s).
Proof. unfold decode_cp_snake. destruct (first_bad s); [triv|apply cpsnake_loop_safe]. Qed.

Lemma go_flush_some acc ws : exists ws', go_flush acc ws = Some ws'.
Proof.
  unfold go_flush. destruct (nonempty acc); [|eauto]. destruct (all_upper acc); [|eauto].
  destruct (extract_initialisms acc) eqn:E; [eauto|]. exfalso. exact (extract_total acc E).
Qed.

Lemma go_loop_safe wb s : forall prev acc ws, safe (go_loop wb prev acc ws s).
Proof.
  induction s as [|c s IH]; intros prev acc ws; [triv|].
  rewrite go_loop_cons. cbv zeta.
  destruct (_ || _ || wb c).
  - destruct (go_flush_some acc ws) as [ws' ->]. apply IH.
  - destruct (_ && is_upper c); [|apply IH].
    destruct (nonempty acc && all_upper (acc ++ [c])); [|apply IH].
    destruct (extract_initialisms (acc ++ [c])) eqn:E; [triv|]. exfalso. exact (extract_total _ E).
Qed.

Lemma decode_go_camel_safe s : safe (decode_go_camel s).
Proof. unfold decode_go_camel, decode_go_with. destruct (is_identifier s); [apply go_loop_safe|triv]. Qed.
Lemma decode_go_tags_safe s : safe (decode_go_tags s).
Proof. unfold decode_go_tags, decode_go_with. apply go_loop_safe. Qed.

(* ------------------------------------------------------------------ *)
(* integers *)

Lemma parse_int_safe s bits : safe (parse_int s bits).
Proof.
  unfold parse_int. destruct s as [|c0 r]; [triv|].
  destruct (if c0 =? 43 then _ else _) as [neg s1].
  destruct (parse_uint s1 bits); [|triv|]; cbv zeta;
    (destruct (negb neg && _); [triv|]; destruct (neg && _); triv).
Qed.

Lemma parse_number_int_safe w s : safe (parse_number_int w s).
Proof.
  unfold parse_number_int. apply safe_obind; [apply parse_int_safe|]. intros c. destruct (overflow_int _ _); triv.
Qed.
Lemma ures_out_safe u : safe (ures_out u).
Proof. destruct u; triv. Qed.
Lemma parse_number_uint_safe w s : safe (parse_number_uint w s).
Proof.
  unfold parse_number_uint. apply safe_obind; [apply ures_out_safe|]. intros c. destruct (overflow_uint _ _); triv.
Qed.

Lemma map_out_safe {A B} (f : A -> outcome B) l : (forall a, safe (f a)) -> safe (map_out f l).
Proof.
  intros Hf. induction l as [|a r IH]; cbn [map_out]; [triv|].
  apply safe_obind; [apply Hf|]. intros b. apply safe_obind; [exact IH|]. intros bs. triv.
Qed.

Lemma signed_slice_safe fixed w s : safe (signed_slice_gen fixed w s).
Proof.
  unfold signed_slice_gen. destruct (fixed && nilb s); [triv|]. apply map_out_safe. intros p.
  unfold signed_elem. apply safe_obind; [apply parse_int_safe|]. intros; triv.
Qed.
Lemma unsigned_slice_safe fixed w s : safe (unsigned_slice_gen fixed w s).
Proof.
  unfold unsigned_slice_gen. destruct (fixed && nilb s); [triv|]. apply map_out_safe. intros p.
  unfold unsigned_elem. apply safe_obind; [apply ures_out_safe|]. intros; triv.
Qed.

Lemma parse_bool_safe s : safe (parse_bool s).
Proof. unfold parse_bool. destruct (existsb _ _); [triv|]. destruct (existsb _ _); triv. Qed.

(* ------------------------------------------------------------------ *)
(* Unquote *)

Lemma unq_loop_safe : forall n s acc, (length s <= n)%nat -> safe (unq_loop s acc).
Proof.
  induction n as [|n IH]; intros s acc Hl.
  - destruct s; [triv|cbn in Hl; lia].
  - destruct s as [|c r]; [triv|]. cbn [length] in Hl. cbn [unq_loop].
    destruct (c =? dquote); [triv|]. destruct (c =? 10); [triv|].
    destruct (negb (c =? bslash)); [apply IH; lia|].
    destruct r as [|e r2]; [triv|]. cbn [length] in Hl.
    repeat match goal with
           | |- safe (if ?b then _ else _) => destruct b; [apply IH; lia|]
           end.
    destruct (e =? 120).
    { destruct r2 as [|a [|b r3]]; try triv. destruct (unhex_list [a; b] 0); [apply IH; cbn [length] in Hl; lia|triv]. }
    destruct (e =? 117).
    { destruct r2 as [|a [|b [|c1 [|d r3]]]]; try triv.
      destruct (unhex_list _ 0); [|triv]. destruct (valid_rune _); [apply IH; cbn [length] in Hl; lia|triv]. }
    destruct (e =? 85).
    { destruct r2 as [|a [|b [|c1 [|d [|a2 [|b2 [|c2 [|d2 r3]]]]]]]]; try triv.
      destruct (unhex_list _ 0); [|triv]. destruct (valid_rune _); [apply IH; cbn [length] in Hl; lia|triv]. }
    destruct (unoct e); [|triv].
    destruct r2 as [|a [|b r3]]; try triv.
    destruct (unoct a); [|triv]. destruct (unoct b); [|triv].
    destruct (255 <? _); [triv|apply IH; cbn [length] in Hl; lia].
Qed.

Lemma unquote_safe s : safe (unquote s).
Proof.
  unfold unquote. destruct s as [|q [|c body]]; try triv.
  destruct (q =? dquote).
  - pose proof (unq_loop_safe _ (c :: body) [] (le_n _)) as H.
    destruct (unq_loop (c :: body) []) as [[v rem]| |]; [|exact H|exact H]. destruct (nilb rem); triv.
  - destruct (q =? bquote); [|triv]. destruct (raw_body (c :: body)) as [[b rem]|]; [|triv]. destruct (nilb rem); triv.
Qed.

(* ------------------------------------------------------------------ *)
(* the scanner consumes input: termination of the token loops *)

Lemma skip_ws_len s : (length (skip_ws s) <= length s)%nat.
Proof. induction s as [|c r IH]; cbn [skip_ws]; [lia|]. destruct (is_ws c); cbn [length]; lia. Qed.

Lemma span_ident_len isp ci s : forall a b, span_ident isp ci s = (a, b) -> (length b <= length s)%nat.
Proof.
  induction s as [|c r IH]; intros a b H; cbn [span_ident] in H; [inversion H; cbn; lia|].
  destruct (ident_rune isp ci c).
  - destruct (span_ident isp ci r) as [a' b'] eqn:E. inversion H; subst. specialize (IH _ _ eq_refl). cbn [length]. lia.
  - inversion H; subst. lia.
Qed.

Lemma scan_str_len q s : forall st t rest n, scan_str q st s = Some (t, rest, n) -> (length rest < length s)%nat.
Proof.
  induction s as [|c r IH]; intros st t rest n H; cbn [scan_str] in H; [discriminate|].
  assert (Hpre : forall b st', pre c b (scan_str q st' r) = Some (t, rest, n) -> (length rest < length (c :: r))%nat).
  { intros b st' Hp. unfold pre in Hp. destruct (scan_str q st' r) as [[[t' rest'] n']|] eqn:E; [|discriminate].
    inversion Hp; subst. apply IH in E. cbn [length]. lia. }
  destruct st as [| |base k].
  - destruct (c =? q); [inversion H; subst; cbn [length]; lia|].
    destruct (c =? 10); [discriminate|]. destruct (c =? bslash); eapply Hpre; exact H.
  - repeat match type of H with (if ?b then _ else _) = _ => destruct b; [eapply Hpre; exact H|] end. discriminate.
  - destruct (digit_val c <? base); [eapply Hpre; exact H|discriminate].
Qed.

Lemma raw_body_len s : forall b rest, raw_body s = Some (b, rest) -> (length rest < length s)%nat.
Proof.
  induction s as [|c r IH]; intros b rest H; cbn [raw_body] in H; [discriminate|].
  destruct (c =? bquote); [inversion H; subst; cbn [length]; lia|].
  destruct (raw_body r) as [[b' rem]|] eqn:E; [|discriminate]. inversion H; subst.
  specialize (IH _ _ eq_refl). cbn [length]. lia.
Qed.

Lemma scan_shrinks isp ci s t rest : scan isp ci s = STok t rest -> t <> TEOF -> (length rest < length s)%nat.
Proof.
  unfold scan. pose proof (skip_ws_len s) as Hs. destruct (skip_ws s) as [|c r]; [intros [= <- <-]; congruence|].
  cbn [length] in Hs. destruct (ident_rune isp ci c).
  { destruct (span_ident isp ci r) as [a b] eqn:E. intros [= <- <-] _. apply span_ident_len in E. lia. }
  destruct (c =? dquote).
  { destruct (scan_str dquote SNorm r) as [[[t' rest'] n']|] eqn:E; [|discriminate].
    intros [= <- <-] _. apply scan_str_len in E. lia. }
  destruct (c =? squote).
  { destruct (scan_str squote SNorm r) as [[[t' rest'] n']|] eqn:E; [|discriminate].
    destruct (n' =? 1); [|discriminate]. intros [= <- <-] _. apply scan_str_len in E. lia. }
  destruct (c =? bquote).
  { destruct (raw_body r) as [[b rest']|] eqn:E; [|discriminate]. intros [= <- <-] _. apply raw_body_len in E. lia. }
  intros [= <- <-] _. lia.
Qed.

Lemma token_text_safe t o : token_text t = Some o -> safe o.
Proof. destruct t; cbn [token_text]; intros H; inversion H; subst; try triv; apply unquote_safe. Qed.

(* ------------------------------------------------------------------ *)
(* the splitters *)

Section Splitters.
  Variable isp : rune -> bool.

  Lemma sss_loop_safe {A} (add : A -> str -> outcome A) : (forall a x, safe (add a x)) ->
    forall fuel s iv a, (length s < fuel)%nat -> safe (sss_loop isp add fuel s iv a).
  Proof.
    intros Hadd. induction fuel as [|f IH]; intros s iv a Hl; [lia|]. cbn [sss_loop].
    destruct (scan isp true s) as [|t rest] eqn:E; [triv|].
    assert (Hrest : t <> TEOF -> (length rest < f)%nat).
    { intros Ht. pose proof (scan_shrinks _ _ _ _ _ E Ht). lia. }
    destruct t as [|x|x|x| |c]; try triv.
    - (* TIdent *) cbn [token_text]. destruct iv; [|triv]. apply safe_obind; [apply Hadd|]. intros a'. apply IH, Hrest. discriminate.
    - pose proof (token_text_safe (TString x) _ eq_refl) as Hs. cbn [token_text] in *.
      destruct (unquote x); [|exact Hs|exact Hs]. destruct iv; [|triv].
      apply safe_obind; [apply Hadd|]. intros a'. apply IH, Hrest. discriminate.
    - pose proof (token_text_safe (TRawString x) _ eq_refl) as Hs. cbn [token_text] in *.
      destruct (unquote x); [|exact Hs|exact Hs]. destruct iv; [|triv].
      apply safe_obind; [apply Hadd|]. intros a'. apply IH, Hrest. discriminate.
    - destruct (c =? 44); [|triv]. apply IH, Hrest. discriminate.
  Qed.

  Lemma split_strings_slice_safe {A} (add : A -> str -> outcome A) s a :
    (forall a x, safe (add a x)) -> safe (split_strings_slice isp add s a).
  Proof.
    intros Hadd. unfold split_strings_slice. destruct s as [|c r]; [triv|].
    destruct (has_nul (c :: r) || has_invalid (c :: r)); [triv|]. apply sss_loop_safe; [exact Hadd|].
    unfold strip_bom. destruct (c =? 65279); cbn [length]; lia.
  Qed.

  Lemma sm_loop_safe {A} fixed (add : A -> str -> str -> outcome A) : (forall a k v, safe (add a k v)) ->
    forall fuel s m a, (length s < fuel)%nat -> safe (sm_loop isp fixed add fuel s m a).
  Proof.
    intros Hadd. induction fuel as [|f IH]; intros s m a Hl; [lia|]. cbn [sm_loop].
    assert (Hflush : forall m a, safe (flush_kv fixed add m a)).
    { intros m' a'. unfold flush_kv. destruct (key_present fixed m'); [apply Hadd|triv]. }
    destruct (scan isp false s) as [|t rest] eqn:E; [triv|].
    assert (Hrest : t <> TEOF -> (length rest < f)%nat).
    { intros Ht. pose proof (scan_shrinks _ _ _ _ _ E Ht). lia. }
    destruct t as [|x|x|x| |c].
    - apply Hflush.
    - cbn [token_text]. destruct (in_key m); [apply IH, Hrest; discriminate|].
      destruct (in_val m && key_present fixed m); [apply IH, Hrest; discriminate|triv].
    - pose proof (token_text_safe (TString x) _ eq_refl) as Hs. cbn [token_text] in *.
      destruct (unquote x); [|exact Hs|exact Hs]. destruct (in_key m); [apply IH, Hrest; discriminate|].
      destruct (in_val m && key_present fixed m); [apply IH, Hrest; discriminate|triv].
    - pose proof (token_text_safe (TRawString x) _ eq_refl) as Hs. cbn [token_text] in *.
      destruct (unquote x); [|exact Hs|exact Hs]. destruct (in_key m); [apply IH, Hrest; discriminate|].
      destruct (in_val m && key_present fixed m); [apply IH, Hrest; discriminate|triv].
    - apply IH, Hrest. discriminate.
    - destruct (c =? 44).
      + apply safe_obind; [apply Hflush|]. intros a'. apply IH, Hrest. discriminate.
      + destruct (c =? 58); [|apply IH, Hrest; discriminate].
        destruct (in_val m || negb (key_present fixed m)); [triv|apply IH, Hrest; discriminate].
  Qed.

  Lemma split_map_safe {A} fixed (add : A -> str -> str -> outcome A) s a :
    (forall a k v, safe (add a k v)) -> safe (split_map isp fixed add s a).
  Proof.
    intros Hadd. unfold split_map. destruct (has_nul s || has_invalid s); [triv|]. apply sm_loop_safe; [exact Hadd|].
    unfold strip_bom. destruct s as [|c r]; [cbn; lia|]. destruct (c =? 65279); cbn [length]; lia.
  Qed.

  Lemma string_slice_safe s : safe (string_slice isp s).
  Proof. apply split_strings_slice_safe. intros; triv. Qed.
  Lemma string_set_safe s : safe (string_set isp s).
  Proof. apply split_strings_slice_safe. intros a x. destruct (mem_str x a); triv. Qed.
  Lemma mss_parse_safe fixed s : safe (mss_parse_gen fixed isp s).
  Proof. apply split_map_safe. intros; triv. Qed.
  Lemma map_ss_parse_safe fixed s : safe (map_ss_parse_gen fixed isp s).
  Proof. apply split_map_safe. intros a k v. destruct (mem_str k (map fst a)); triv. Qed.

  (* ---------------- parse.String ---------------- *)
  Lemma parse_scalar_safe t s : safe (parse_scalar t s).
  Proof.
    destruct t; cbn [parse_scalar]; try triv.
    - apply safe_omap, parse_bool_safe.
    - apply safe_omap, parse_number_int_safe.
    - destruct w; try triv; apply safe_omap, parse_number_uint_safe.
    - apply safe_omap. destruct (parse_duration_x_total s) as [H1 H2]. split; [exact H1|].
      destruct (parse_duration_x s) as [|c|]; try reflexivity. cbn. destruct (c =? 99) eqn:E; [|reflexivity].
      apply N.eqb_eq in E. subst. exfalso. apply H2. reflexivity.
    - destruct t; try triv.
      + apply safe_omap, parse_bool_safe.
      + apply safe_omap, parse_number_int_safe.
      + destruct w; try triv; apply safe_omap, parse_number_uint_safe.
      + apply safe_omap, parse_number_int_safe.
  Qed.

  Theorem parse_string_gen_safe fixed ft : forall t s, safe (parse_string_gen isp fixed true ft t s).
  Proof.
    assert (Hmap : forall k v s, safe (if scalar_kind k && scalar_kind v then
              omap VMap (split_map isp fixed
                 (fun m ks vs => kc <- parse_scalar k (tok ft k ks) ;;
                    if existsb (fun kv => scalar_eqb kc (fst kv)) m then Err e_dup
                    else vc <- parse_scalar v (tok ft v vs) ;; Ok (m ++ [(kc, vc)])) s [])
            else Err e_kind)).
    { intros k v s. destruct (scalar_kind k && scalar_kind v); [|triv]. apply safe_omap, split_map_safe.
      intros m ks vs. apply safe_obind; [apply parse_scalar_safe|]. intros kc.
      destruct (existsb _ m); [triv|]. apply safe_obind; [apply parse_scalar_safe|]. intros; triv. }
    fix IH 1. intros t s.
    assert (Hloop : forall e l, (forall x, safe (parse_string_gen isp fixed true ft e x)) ->
              safe (omap VList (map_out (fun x => v <- parse_string_gen isp fixed true ft e (tok ft e x) ;;
                                                 if true || scalar_kind e then Ok v else Panic p_elem_panic) l))).
    { intros e l He. apply safe_omap, map_out_safe. intros x. apply safe_obind; [apply He|]. intros; triv. }
    destruct t as [| |w|w| |e| | |k v| |u]; cbn [parse_string_gen].
    - apply (parse_scalar_safe TStr).
    - apply (parse_scalar_safe TBool).
    - apply (parse_scalar_safe (TInt w)).
    - apply (parse_scalar_safe (TUint w)).
    - apply (parse_scalar_safe TDur).
    - apply safe_obind; [apply string_slice_safe|]. intros l.
      pose proof (Hloop e l (IH e)) as H. destruct e; try exact H. triv.
    - apply safe_omap, string_set_safe.
    - apply safe_omap, mss_parse_safe.
    - apply Hmap.
    - triv.
    - destruct u as [| |w|w| |e| | |k v| |u']; try apply (parse_scalar_safe (TNamed _)); try triv.
      + apply safe_obind; [apply string_slice_safe|]. intros l. apply (Hloop e l (IH e)).
      + apply Hmap.
  Qed.

  Theorem parse_string_safe fixed t : forall s, safe (parse_string isp fixed true t s).
  Proof. intros s. apply parse_string_gen_safe. Qed.
End Splitters.

(* the nested-slice panic of the pinned parse.String (fixed_elem = false) *)
Example parse_string_pre_fix_refuted :
  parse_string (mk_print []) true false (TSlice (TSlice TStr)) [97] = Panic p_elem_panic /\
  parse_string (mk_print []) true false (TSlice (TMap TStr TStr)) [97] = Panic p_elem_panic /\
  parse_string (mk_print []) true true (TSlice (TSlice TStr)) [97] = Ok (VList [VList [VStr [97]]]).
Proof. repeat split; vm_compute; reflexivity. Qed.

(* non-vacuity: the entry points do return values and errors *)
Example entry_points_examples :
  decode_go_camel (s2r "HTTPPort") = Ok [s2r "http"; s2r "port"] /\
  decode_kebab (s2r "a--b") = Ok [s2r "a"; s2r "b"] /\ is_ok (decode_upper_snake (s2r "a")) = false /\
  string_slice (mk_print []) (s2r "a b, ""c,d"" ,`e`") = Ok [s2r "a b"; s2r "c,d"; s2r "e"] /\
  class_of (string_slice (mk_print []) (s2r "a,""b")) = CErr /\
  map_ss_parse (mk_print []) (s2r "k: v, k2 :""x""") = Ok [(s2r "k", s2r "v"); (s2r "k2 ", s2r "x")] /\
  class_of (map_ss_parse (mk_print []) (s2r "k:v:w")) = CErr.
Proof. repeat split; vm_compute; reflexivity. Qed.

(* ------------------------------------------------------------------ *)
(* statements in the form used by Properties/C16.v *)
Definition total {A} (o : outcome A) : Prop := is_panic o = false /\ o <> Err hang.
Lemma safe_total {A} (o : outcome A) : safe o -> total o.
Proof. intros H. split; [apply safe_no_panic, H|apply safe_not_hang, H]. Qed.

Lemma decode_upper_camel_total_l s : total (decode_upper_camel s). Proof. apply safe_total, decode_upper_camel_safe. Qed.
Lemma decode_lower_camel_total_l s : total (decode_lower_camel s). Proof. apply safe_total, decode_lower_camel_safe. Qed.
Lemma decode_lower_snake_total_l s : total (decode_lower_snake s). Proof. apply safe_total, decode_lower_split_safe. Qed.
Lemma decode_kebab_total_l s : total (decode_kebab s). Proof. apply safe_total, decode_lower_split_safe. Qed.
Lemma decode_upper_snake_total_l s : total (decode_upper_snake s). Proof. apply safe_total, decode_upper_snake_safe. Qed.
Lemma decode_cp_snake_total_l s : total (decode_cp_snake s). Proof. apply safe_total, decode_cp_snake_safe. Qed.
Lemma decode_go_camel_total_l s : total (decode_go_camel s). Proof. apply safe_total, decode_go_camel_safe. Qed.
Lemma decode_go_tags_total_l s : total (decode_go_tags s). Proof. apply safe_total, decode_go_tags_safe. Qed.

Lemma unquote_total_l s : total (unquote s). Proof. apply safe_total, unquote_safe. Qed.
Lemma parse_number_int_total_l w s : total (parse_number_int w s). Proof. apply safe_total, parse_number_int_safe. Qed.
Lemma parse_number_uint_total_l w s : total (parse_number_uint w s). Proof. apply safe_total, parse_number_uint_safe. Qed.
Lemma signed_slice_total_l w s : total (signed_slice w s). Proof. apply safe_total, signed_slice_safe. Qed.
Lemma unsigned_slice_total_l w s : total (unsigned_slice w s). Proof. apply safe_total, unsigned_slice_safe. Qed.

Lemma split_strings_slice_total_l isp {A} (add : A -> str -> outcome A) :
  (forall a x, total (add a x)) -> forall s a, total (split_strings_slice isp add s a).
Proof.
  intros H s a. apply safe_total, split_strings_slice_safe. intros a' x. destruct (H a' x) as [H1 H2].
  split; [exact H1|]. destruct (add a' x) as [|c|]; try reflexivity. cbn. destruct (c =? 99) eqn:E; [|reflexivity].
  apply N.eqb_eq in E. subst. exfalso. apply H2. reflexivity.
Qed.
Lemma split_map_total_l isp fixed {A} (add : A -> str -> str -> outcome A) :
  (forall a k v, total (add a k v)) -> forall s a, total (split_map isp fixed add s a).
Proof.
  intros H s a. apply safe_total, split_map_safe. intros a' k v. destruct (H a' k v) as [H1 H2].
  split; [exact H1|]. destruct (add a' k v) as [|c|]; try reflexivity. cbn. destruct (c =? 99) eqn:E; [|reflexivity].
  apply N.eqb_eq in E. subst. exfalso. apply H2. reflexivity.
Qed.
Lemma string_slice_total_l isp s : total (string_slice isp s). Proof. apply safe_total, string_slice_safe. Qed.
Lemma string_set_total_l isp s : total (string_set isp s). Proof. apply safe_total, string_set_safe. Qed.
Lemma map_ss_parse_total_l isp s : total (map_ss_parse isp s). Proof. apply safe_total, map_ss_parse_safe. Qed.
Lemma mss_parse_total_l isp s : total (mss_parse isp s). Proof. apply safe_total, mss_parse_safe. Qed.
Lemma parse_string_total_l isp t s : total (parse_string isp true true t s).
Proof. apply safe_total, parse_string_safe. Qed.

(* The trailing blank (fix: commit "parse.String trims blanks around non-string slice
   elements and map keys/values"): before the fix (fixed_trim = false) a blank after an
   unquoted element stayed in the token and integer elements failed on it, while blanks
   before the element were skipped; the integral slice parsers always trimmed both sides. *)
Example trailing_blank_pre_fix_refuted :
  class_of (parse_string_gen (mk_print []) true true false (TSlice (TInt IInt)) (s2r "1 ,2")) = CErr /\
  parse_string_gen (mk_print []) true true false (TSlice (TInt IInt)) (s2r "1, 2") = Ok (VList [VInt 1; VInt 2]) /\
  signed_slice IInt (s2r "1 ,2") = Ok [1; 2]%Z.
Proof. repeat split; vm_compute; reflexivity. Qed.

Example trailing_blank_fixed :
  parse_string (mk_print []) true true (TSlice (TInt IInt)) (s2r " 1 , 2 ,3 ") = Ok (VList [VInt 1; VInt 2; VInt 3]) /\
  parse_string (mk_print []) true true (TMap TStr (TUint U8)) (s2r "a: 1 ,b:2 ") = Ok (VMap [(VStr (s2r "a"), VInt 1); (VStr (s2r "b"), VInt 2)]) /\
  parse_string (mk_print []) true true (TSlice TStr) (s2r "a b , c") = Ok (VList [VStr (s2r "a b "); VStr (s2r "c")]).
Proof. repeat split; vm_compute; reflexivity. Qed.

(* ------------------------------------------------------------------ *)
(* encoders: whatever word list they are given (empty words, the empty list),
   decoding their output is total, and so are the decode-encode-decode pipelines *)
From Dials Require Import Text.CasePipeline.

Lemma decode_by_total_l d s : total (decode_by d s).
Proof.
  unfold decode_by.
  repeat match goal with |- total (match ?x with _ => _ end _) => destruct x end;
    auto using decode_upper_camel_total_l, decode_lower_camel_total_l,
    decode_lower_snake_total_l, decode_upper_snake_total_l, decode_kebab_total_l, decode_cp_snake_total_l,
    decode_go_camel_total_l, decode_go_tags_total_l.
Qed.

Lemma encode_then_decode_total_l e d ws : total (decode_by d (encode_by e ws)).
Proof. apply decode_by_total_l. Qed.

Lemma pipeline_total_l d1 e d2 s : total (pipeline d1 e d2 s).
Proof.
  unfold pipeline. pose proof (decode_by_total_l d1 s) as H.
  destruct (decode_by d1 s) as [ws|c|c]; cbn [obind]; [apply decode_by_total_l|exact H|exact H].
Qed.

Example encoders_on_empty_words :
  encode_by 0 [s2r "foo"; []] = s2r "Foo" /\ encode_by 1 [] = [] /\ encode_by 1 [[]; s2r "x"] = s2r "X" /\
  encode_by 3 [[]; []] = s2r "_" /\ decode_by 5 (s2r "foo_") = Ok [s2r "foo"; []] /\
  pipeline 5 0 0 (s2r "foo_") = Ok [s2r "foo"].
Proof. repeat split; vm_compute; reflexivity. Qed.

From Dials Require Import Text.CaseTitle.
Lemma encode_go_then_decode_total_l e d ws : total (decode_by d (encode_by_go e ws)).
Proof. apply decode_by_total_l. Qed.
