(* C19, second half: DecodeGoCamelCase splits names assembled from capitalised
   words and initialisms into exactly those tokens, under go_guard. *)
From Coq Require Import List NArith Bool Lia.
From Dials Require Import Base.Outcome Base.Runes Text.CaseConv Text.GoCamelSpec Text.CaseConvProofs.
Import ListNotations.
Open Scope N_scope.

Definition wbu (r : rune) : bool := r =? underscore.

Lemma go_loop_cons wb prev acc ws c s' :
  go_loop wb prev acc ws (c :: s') =
      let fci := match prev with Some p => is_upper c && is_lower p | None => false end in
      let fcai := is_upper c && match s' with n :: _ :: _ => is_lower n | _ => false end in
      if fci || fcai || wb c then
        match go_flush acc ws with
        | Some ws' => go_loop wb (Some c) (if wb c then [] else [c]) ws' s'
        | None => Err hang
        end
      else if (match s' with [] => true | _ => false end) && is_upper c then
        if nonempty acc && all_upper (acc ++ [c]) then
          match extract_initialisms (acc ++ [c]) with Some e => Ok (ws ++ e) | None => Err hang end
        else go_loop wb (Some c) [c] ws s'
      else go_loop wb (Some c) (acc ++ [c]) ws s'.
Proof. reflexivity. Qed.

Definition last_or (p : option rune) (t : str) : option rune :=
  match rev t with c :: _ => Some c | [] => p end.

Lemma last_or_cons p c t : last_or p (c :: t) = last_or (Some c) t.
Proof.
  unfold last_or. simpl. destruct (rev t) as [|x r] eqn:E; simpl; reflexivity.
Qed.

Lemma lod_not_wb c : low_or_dig c = true -> wbu c = false.
Proof. intros H. apply lod_not_sep in H. tauto. Qed.

Lemma uod_not_lower c : up_or_dig c = true -> is_lower c = false.
Proof. unfold up_or_dig. intros H. apply orb_true_iff in H as [H|H];
  [apply upper_not_lower|apply digit_not_lower]; exact H. Qed.

Lemma uod_not_wb c : up_or_dig c = true -> wbu c = false.
Proof. intros H. apply uod_props in H. tauto. Qed.

(* interior of a word: lower-case letters and digits never trigger anything *)
Lemma go_eat_low t : Forall (fun x => low_or_dig x = true) t ->
  forall prev acc ws rest,
  go_loop wbu prev acc ws (t ++ rest) = go_loop wbu (last_or prev t) (acc ++ t) ws rest.
Proof.
  induction 1 as [|c t Hc Ht IH]; intros prev acc ws rest.
  - simpl. rewrite app_nil_r. reflexivity.
  - rewrite last_or_cons. simpl. rewrite (lod_not_upper c Hc), (lod_not_wb c Hc).
    destruct prev; simpl; rewrite ?andb_false_r; simpl; rewrite IH, <- app_assoc; reflexivity.
Qed.

(* interior of a run of initialisms: the previous rune is upper-case or a
   digit and the text continues with a rune that is not lower-case *)
Lemma go_eat_up t : Forall (fun x => up_or_dig x = true) t ->
  forall p acc ws r0 rest, up_or_dig p = true -> is_lower r0 = false ->
  go_loop wbu (Some p) acc ws (t ++ r0 :: rest) = go_loop wbu (last_or (Some p) t) (acc ++ t) ws (r0 :: rest).
Proof.
  induction 1 as [|c t Hc Ht IH]; intros p acc ws r0 rest Hp Hr0.
  - simpl. rewrite app_nil_r. reflexivity.
  - rewrite last_or_cons. cbn [app go_loop].
    rewrite (uod_not_lower p Hp), (uod_not_wb c Hc), andb_false_r. cbn [orb].
    assert (Hn : match t ++ r0 :: rest with n :: _ :: _ => is_lower n | _ => false end = false).
    { destruct t as [|n t']; cbn [app].
      - destruct rest; [reflexivity|exact Hr0].
      - inversion Ht as [|? ? Hn' _]; subst. destruct (t' ++ r0 :: rest); [reflexivity|apply uod_not_lower, Hn']. }
    rewrite Hn, andb_false_r.
    assert (Hne : match t ++ r0 :: rest with [] => true | _ => false end = false) by (destruct t; reflexivity).
    rewrite Hne. cbn [andb orb]. rewrite IH by assumption. rewrite <- app_assoc. reflexivity.
Qed.

(* ---- entering a capitalised word ---- *)
Definition fci (prev : option rune) : bool :=
  match prev with Some p => is_lower p | None => false end.

Lemma enter_word u l t prev acc ws ws' rest :
  wf_word (u :: l :: t) = true ->
  (fci prev = true \/ nonempty (t ++ rest) = true \/ acc = []) ->
  go_flush acc ws = Some ws' ->
  go_loop wbu prev acc ws ((u :: l :: t) ++ rest)
  = go_loop wbu (last_or prev (u :: l :: t)) (u :: l :: t) ws' rest.
Proof.
  intros Hwf Hb Hfl. cbn [wf_word] in Hwf.
  apply andb_true_iff in Hwf as [Hwf Ht]. apply andb_true_iff in Hwf as [Hu Hl].
  rewrite forallb_forall in Ht. assert (Ht' : Forall (fun x => low_or_dig x = true) t) by (apply Forall_forall; exact Ht).
  assert (Hlt : Forall (fun x => low_or_dig x = true) (l :: t)).
  { constructor; [unfold low_or_dig; rewrite Hl; reflexivity|exact Ht']. }
  rewrite last_or_cons.
  assert (Hwb : wbu u = false) by (apply uod_not_wb; unfold up_or_dig; rewrite Hu; reflexivity).
  cbn [app]. rewrite go_loop_cons. cbv zeta. rewrite Hu, Hwb. cbn [andb].
  change (l :: t ++ rest) with ((l :: t) ++ rest).
  assert (Hfcai : match t ++ rest with [] => false | _ :: _ => is_lower l end = nonempty (t ++ rest)).
  { destruct (t ++ rest); [reflexivity|exact Hl]. }
  rewrite Hfcai.
  assert (Hfci : match prev with Some p => is_lower p | None => false end = fci prev) by reflexivity.
  rewrite Hfci. rewrite orb_false_r.
  destruct (fci prev || nonempty (t ++ rest)) eqn:HB.
  - rewrite Hfl. rewrite go_eat_low by exact Hlt. reflexivity.
  - apply orb_false_iff in HB as [HB1 HB2].
    destruct Hb as [Hb|[Hb|Hb]]; [congruence|congruence|].
    subst acc. cbn [go_flush nonempty] in Hfl. inversion Hfl; subst ws'.
    change ([] ++ [u]) with [u]. rewrite go_eat_low by exact Hlt. reflexivity.
Qed.

(* ---- runs of initialisms ---- *)
Lemma wf_init_uod i : wf_init i = true -> Forall (fun x => up_or_dig x = true) i.
Proof.
  destruct i as [|u [|c t]]; cbn [wf_init]; try discriminate. intros H.
  apply andb_true_iff in H as [H Ht]. apply andb_true_iff in H as [Hu Hc].
  constructor; [unfold up_or_dig; rewrite Hu; reflexivity|]. constructor; [exact Hc|].
  apply Forall_forall. apply forallb_forall. exact Ht.
Qed.

Lemma wf_inits_uod r : forallb wf_init r = true -> Forall (fun x => up_or_dig x = true) (concat r).
Proof.
  induction r as [|i r IH]; cbn [forallb concat]; intros H; [constructor|].
  apply andb_true_iff in H as [Hi Hr]. apply Forall_app. split; [apply wf_init_uod, Hi|apply IH, Hr].
Qed.

Lemma run_shape r : wf_seg (SRun r) = true ->
  exists u t, concat r = u :: t /\ is_upper u = true /\ Forall (fun x => up_or_dig x = true) t /\ t <> [].
Proof.
  cbn [wf_seg]. intros H. apply andb_true_iff in H as [H Hr]. apply andb_true_iff in H as [_ Hne].
  destruct r as [|i r]; [discriminate|]. cbn [forallb] in Hr. apply andb_true_iff in Hr as [Hi Hr].
  pose proof (wf_inits_uod r Hr) as Hc.
  pose proof (wf_init_uod _ Hi) as Hi'.
  destruct i as [|u [|c t]]; cbn [wf_init] in Hi; try discriminate.
  apply andb_true_iff in Hi as [Hi _]. apply andb_true_iff in Hi as [Hu _].
  exists u, ((c :: t) ++ concat r). cbn [concat app]. repeat split; try assumption.
  - inversion Hi' as [|? ? _ Hct]; subst. change (c :: t ++ concat r) with ((c :: t) ++ concat r).
    apply Forall_app. split; assumption.
  - discriminate.
Qed.

Lemma upper_s_uod s : Forall (fun x => up_or_dig x = true) s -> upper_s s = s.
Proof.
  induction 1 as [|x s Hx _ IH]; [reflexivity|]. unfold upper_s in *. cbn [map].
  unfold to_upper at 1. rewrite (uod_not_lower x Hx). rewrite IH. reflexivity.
Qed.

Lemma all_upper_uod s : Forall (fun x => up_or_dig x = true) s -> all_upper s = true.
Proof. intros H. unfold all_upper. rewrite upper_s_uod by exact H. apply str_eqb_refl. Qed.

Lemma last_or_uod p t : up_or_dig p = true -> Forall (fun x => up_or_dig x = true) t ->
  exists q, last_or (Some p) t = Some q /\ up_or_dig q = true.
Proof.
  intros Hp Ht. unfold last_or. destruct (rev t) as [|c r] eqn:E.
  - exists p. auto.
  - exists c. split; [reflexivity|]. rewrite Forall_forall in Ht. apply Ht. apply in_rev. rewrite E. left. reflexivity.
Qed.

Lemma enter_run_nonfinal u t prev acc ws ws' r0 rest :
  is_upper u = true -> Forall (fun x => up_or_dig x = true) t -> t <> [] -> is_lower r0 = false ->
  (fci prev = true \/ acc = []) ->
  go_flush acc ws = Some ws' ->
  go_loop wbu prev acc ws ((u :: t) ++ r0 :: rest)
  = go_loop wbu (last_or (Some u) t) (u :: t) ws' (r0 :: rest).
Proof.
  intros Hu Ht Hne Hr0 Hb Hfl.
  assert (Huod : up_or_dig u = true) by (unfold up_or_dig; rewrite Hu; reflexivity).
  cbn [app]. rewrite go_loop_cons. cbv zeta. rewrite Hu, (uod_not_wb u Huod). cbn [andb].
  assert (Hn : match t ++ r0 :: rest with n :: _ :: _ => is_lower n | _ => false end = false).
  { destruct t as [|n t']; [congruence|]. cbn [app]. inversion Ht as [|? ? Hn' _]; subst.
    destruct (t' ++ r0 :: rest); [reflexivity|apply uod_not_lower, Hn']. }
  rewrite Hn.
  assert (Hfci : match prev with Some p => is_lower p | None => false end = fci prev) by reflexivity.
  rewrite Hfci. rewrite !orb_false_r.
  assert (Hne' : match t ++ r0 :: rest with [] => true | _ => false end = false) by (destruct t; reflexivity).
  rewrite Hne'. cbn [andb].
  destruct (fci prev) eqn:HB.
  - rewrite Hfl. rewrite go_eat_up by assumption. reflexivity.
  - destruct Hb as [Hb|Hb]; [congruence|]. subst acc. cbn [go_flush nonempty] in Hfl. inversion Hfl; subst ws'.
    change ([] ++ [u]) with [u]. rewrite go_eat_up by assumption. reflexivity.
Qed.

Lemma enter_run_final u t z prev acc ws ws' :
  is_upper u = true -> Forall (fun x => up_or_dig x = true) (t ++ [z]) ->
  (fci prev = true \/ acc = []) ->
  go_flush acc ws = Some ws' ->
  go_loop wbu prev acc ws (u :: t ++ [z])
  = if is_upper z then
      match extract_initialisms (u :: t ++ [z]) with Some e => Ok (ws' ++ e) | None => Err hang end
    else Ok (ws' ++ [lower_s (u :: t ++ [z])]).
Proof.
  intros Hu Htz Hb Hfl.
  assert (Huod : up_or_dig u = true) by (unfold up_or_dig; rewrite Hu; reflexivity).
  apply Forall_app in Htz as [Ht Hz]. inversion Hz as [|? ? Hz' _]; subst.
  assert (A : go_loop wbu prev acc ws (u :: t ++ [z]) = go_loop wbu (last_or (Some u) t) (u :: t) ws' [z]).
  { change (u :: t ++ [z]) with ((u :: t) ++ z :: []).
    destruct t as [|c t'].
    - (* run of exactly u z *)
      cbn [app]. rewrite go_loop_cons. cbv zeta. rewrite Hu, (uod_not_wb u Huod). cbn [andb].
      assert (Hfci : match prev with Some p => is_lower p | None => false end = fci prev) by reflexivity.
      rewrite Hfci. rewrite !orb_false_r.
      destruct (fci prev) eqn:HB.
      + rewrite Hfl. reflexivity.
      + destruct Hb as [Hb|Hb]; [congruence|]. subst acc. cbn [go_flush nonempty] in Hfl. inversion Hfl; subst.
        reflexivity.
    - apply enter_run_nonfinal; try assumption; [discriminate|apply uod_not_lower, Hz']. }
  rewrite A.
  destruct (last_or_uod u t Huod Ht) as (q & Hq & Hquod). rewrite Hq.
  rewrite go_loop_cons. cbv zeta. rewrite (uod_not_lower q Hquod), (uod_not_wb z Hz'), !andb_false_r. cbn [orb andb].
  destruct (is_upper z) eqn:Huz.
  - cbn [nonempty andb]. change ((u :: t) ++ [z]) with (u :: t ++ [z]).
    rewrite all_upper_uod; [reflexivity|]. constructor; [exact Huod|]. apply Forall_app; split; [exact Ht|exact Hz].
  - cbn [go_loop]. unfold flush. reflexivity.
Qed.

(* ---- one segment ---- *)
Opaque extract_initialisms initialisms.
Definition lastc (s : str) : option rune := last_or None s.

Lemma last_or_nonempty p c t : last_or p (c :: t) = lastc (c :: t).
Proof. unfold lastc. rewrite !last_or_cons. reflexivity. Qed.

Lemma render_cons s rest : render (s :: rest) = render_seg s ++ render rest.
Proof. reflexivity. Qed.

Lemma wf_seg_head s : wf_seg s = true -> exists c t, render_seg s = c :: t /\ is_upper c = true.
Proof.
  destruct s as [w|r]; intros H.
  - destruct w as [|u [|l t]]; cbn [wf_seg wf_word] in H; try discriminate.
    apply andb_true_iff in H as [H _]. apply andb_true_iff in H as [Hu _]. exists u, (l :: t). auto.
  - destruct (run_shape r H) as (u & t & E & Hu & _). exists u, t. auto.
Qed.

Lemma render_head_not_lower ss : ss <> [] -> Forall (fun s => wf_seg s = true) ss ->
  exists r0 rest, render ss = r0 :: rest /\ is_lower r0 = false.
Proof.
  destruct ss as [|s ss]; [congruence|]. intros _ H. inversion H as [|? ? Hs _]; subst.
  destruct (wf_seg_head s Hs) as (c & t & E & Hc). rewrite render_cons, E.
  exists c, (t ++ render ss). split; [reflexivity|apply upper_not_lower, Hc].
Qed.

Definition run_ok (s : seg) (islast : bool) : Prop :=
  match s with SRun r => run_class r islast = 0 | SWord _ => True end.

Definition entry_ok (prev : option rune) (acc : str) (s : seg) (rest : list seg) : Prop :=
  fci prev = true \/ acc = [] \/
  match s with SWord w => nonempty (skipn 2 w ++ render rest) = true | SRun _ => False end.

Lemma run_class_extract r b : run_class r b = 0 ->
  extract_initialisms (concat r) = Some (map lower_s r).
Proof.
  unfold run_class. destruct (words_eqb (extract_initialisms (concat r)) _) eqn:E; cbn [negb];
    [|destruct (longest_ok r); discriminate]. intros _.
  unfold words_eqb in E. destruct (extract_initialisms (concat r)); [|discriminate].
  apply strs_eqb_eq in E. subst. reflexivity.
Qed.

Lemma lower_self_neq l : is_lower l = true -> (l =? to_upper l) = false.
Proof. intros H. unfold to_upper. rewrite H. runes. apply andb_true_iff in H as [H1 H2].
  apply N.leb_le in H1, H2. apply N.eqb_neq. lia. Qed.

Lemma consume_seg s rest prev acc ws ws' :
  wf_seg s = true -> Forall (fun x => wf_seg x = true) rest ->
  entry_ok prev acc s rest -> go_flush acc ws = Some ws' -> run_ok s (is_nil rest) ->
  go_loop wbu prev acc ws (render (s :: rest)) =
  match rest with
  | [] => Ok (ws' ++ seg_words s)
  | _ => go_loop wbu (lastc (render_seg s)) (render_seg s) ws' (render rest)
  end.
Proof.
  intros Hwf Hrest He Hfl Hrun. rewrite render_cons.
  destruct s as [w|r].
  - (* word *)
    destruct w as [|u [|l t]]; cbn [wf_seg wf_word] in Hwf; try discriminate.
    cbn [render_seg]. rewrite (enter_word u l t prev acc ws ws' (render rest) Hwf); [| |exact Hfl].
    + rewrite last_or_nonempty. destruct rest as [|s' rest']; [|reflexivity].
      cbn [render concat map go_loop]. unfold flush. reflexivity.
    + unfold entry_ok in He. cbn [skipn] in He. tauto.
  - (* run *)
    destruct (run_shape r Hwf) as (u & t & E & Hu & Ht & Hne). cbn [render_seg]. rewrite E.
    assert (He' : fci prev = true \/ acc = []) by (unfold entry_ok in He; tauto).
    destruct rest as [|s' rest'].
    + cbn [render concat map]. rewrite app_nil_r.
      destruct (exists_last Hne) as (t' & z & Et). subst t.
      rewrite (enter_run_final u t' z prev acc ws ws' Hu Ht He' Hfl).
      cbn [run_ok is_nil] in Hrun. pose proof (run_class_extract r true Hrun) as Hex.
      rewrite <- E. rewrite Hex. cbn [seg_words].
      destruct (is_upper z) eqn:Hz; [reflexivity|].
      (* last rune is a digit: the run must be a single initialism *)
      unfold run_class in Hrun. rewrite Hex in Hrun. unfold words_eqb in Hrun.
      rewrite (proj2 (strs_eqb_eq _ _) eq_refl) in Hrun. cbn [negb] in Hrun.
      assert (Hd : last_is is_digit (concat r) = true).
      { rewrite E. unfold last_is. change (u :: t' ++ [z]) with ((u :: t') ++ [z]). rewrite rev_app_distr. cbn [rev app].
        apply Forall_app in Ht as [_ Hz']. inversion Hz' as [|? ? Hz'' _]; subst.
        unfold up_or_dig in Hz''. rewrite Hz in Hz''. exact Hz''. }
      rewrite Hd in Hrun. cbn [andb] in Hrun.
      destruct r as [|i [|i2 r']]; cbn [length] in Hrun; try discriminate.
      * cbn [concat map]. rewrite app_nil_r. reflexivity.
      * exfalso. destruct (N.of_nat (S (S (length r'))) =? 1) eqn:E1; [|discriminate].
        apply N.eqb_eq in E1. lia.
    + destruct (render_head_not_lower (s' :: rest') ltac:(discriminate) Hrest) as (r0 & rr & Er & Hr0).
      rewrite Er. rewrite (enter_run_nonfinal u t prev acc ws ws' r0 rr Hu Ht Hne Hr0 He' Hfl).
      destruct t as [|c t0]; [congruence|]. rewrite last_or_cons. unfold lastc. rewrite !last_or_cons. reflexivity.
Qed.

(* ---- all segments ---- *)
Lemma all_upper_word u l t : is_lower l = true -> all_upper (u :: l :: t) = false.
Proof.
  intros Hl. unfold all_upper, upper_s. cbn [map str_eqb]. rewrite (lower_self_neq l Hl).
  rewrite andb_false_r. reflexivity.
Qed.

Lemma flush_seg p ws : wf_seg p = true -> run_ok p false ->
  go_flush (render_seg p) ws = Some (ws ++ seg_words p).
Proof.
  intros Hwf Hrun. unfold go_flush. destruct p as [w|r].
  - destruct w as [|u [|l t]]; cbn [wf_seg wf_word] in Hwf; try discriminate.
    apply andb_true_iff in Hwf as [Hwf _]. apply andb_true_iff in Hwf as [_ Hl].
    cbn [render_seg nonempty]. rewrite (all_upper_word u l t Hl). reflexivity.
  - destruct (run_shape r Hwf) as (u & t & E & Hu & Ht & Hne). cbn [render_seg].
    cbn [run_ok] in Hrun. rewrite (run_class_extract r false Hrun).
    rewrite E. cbn [nonempty]. rewrite <- E.
    rewrite all_upper_uod; [reflexivity|]. rewrite E. constructor; [unfold up_or_dig; rewrite Hu; reflexivity|exact Ht].
Qed.

Lemma run_class_mono r b : run_class r b = 0 -> run_class r false = 0.
Proof.
  unfold run_class. destruct (negb (words_eqb (extract_initialisms (concat r)) _));
    [destruct (longest_ok r); discriminate|]. intros _. reflexivity.
Qed.

Lemma fci_lastc pw : last_is is_lower pw = true -> fci (lastc pw) = true.
Proof.
  unfold last_is, fci, lastc, last_or. destruct (rev pw); [discriminate|]. tauto.
Qed.

Lemma go_segs ss : forall p ws, ss <> [] -> wf_seg p = true -> Forall (fun s => wf_seg s = true) ss ->
  guard_class (Some p) ss = 0 -> run_ok p false ->
  go_loop wbu (lastc (render_seg p)) (render_seg p) ws (render ss) = Ok (ws ++ seg_words p ++ expected ss).
Proof.
  induction ss as [|s rest IH]; intros p ws Hne Hp Hss Hg Hrun; [congruence|].
  inversion Hss as [|? ? Hs Hrest]; subst.
  cbn [guard_class] in Hg.
  destruct (boundary_class p s (is_nil rest) =? 0) eqn:Hb; cbn [negb] in Hg; [|apply N.eqb_neq in Hb; congruence].
  apply N.eqb_eq in Hb.
  set (rc := match s with SRun r => run_class r (is_nil rest) | SWord _ => 0 end) in *.
  destruct (rc =? 0) eqn:Hrc; cbn [negb] in Hg; [|apply N.eqb_neq in Hrc; congruence].
  apply N.eqb_eq in Hrc.
  assert (Hrs : run_ok s (is_nil rest)) by (destruct s; [exact I|exact Hrc]).
  assert (He : entry_ok (lastc (render_seg p)) (render_seg p) s rest).
  { unfold entry_ok. destruct p as [pw|pr], s as [w|r]; cbn [boundary_class] in Hb.
    - destruct (last_is is_lower pw) eqn:Hl; cbn [orb] in Hb.
      + left. apply fci_lastc, Hl.
      + right. right. destruct (negb (is_nil rest && (N.of_nat (length w) =? 2))) eqn:Hn; [|discriminate].
        apply negb_true_iff in Hn. apply andb_false_iff in Hn as [Hn|Hn].
        * destruct rest as [|s' rest']; [discriminate|].
          destruct (render_head_not_lower (s' :: rest') ltac:(discriminate) Hrest) as (r0 & rr & Er & _).
          rewrite Er. apply nonempty_app_r. reflexivity.
        * destruct w as [|u [|l [|x t]]]; cbn [wf_seg wf_word] in Hs; try discriminate.
          reflexivity.
    - destruct (last_is is_lower pw) eqn:Hl; [|discriminate]. left. apply fci_lastc, Hl.
    - right. right. destruct (negb (is_nil rest && (N.of_nat (length w) =? 2))) eqn:Hn; [|discriminate].
      apply negb_true_iff in Hn. apply andb_false_iff in Hn as [Hn|Hn].
      + destruct rest as [|s' rest']; [discriminate|].
        destruct (render_head_not_lower (s' :: rest') ltac:(discriminate) Hrest) as (r0 & rr & Er & _).
        rewrite Er. apply nonempty_app_r. reflexivity.
      + destruct w as [|u [|l [|x t]]]; cbn [wf_seg wf_word] in Hs; try discriminate.
        reflexivity.
    - discriminate. }
  rewrite (consume_seg s rest _ _ ws (ws ++ seg_words p) Hs Hrest He (flush_seg p ws Hp Hrun) Hrs).
  destruct rest as [|s' rest'].
  - cbn [expected concat map]. rewrite app_nil_r, <- app_assoc. reflexivity.
  - rewrite IH; try assumption; try discriminate.
    + change (expected (s :: s' :: rest')) with (seg_words s ++ expected (s' :: rest')).
      rewrite <- !app_assoc. reflexivity.
Qed.

Lemma keywords_lower : forallb (fun k => match k with c :: _ => is_lower c | [] => false end) keywords = true.
Proof. vm_compute. reflexivity. Qed.

Lemma not_keyword u t : is_upper u = true -> existsb (str_eqb (u :: t)) keywords = false.
Proof.
  intros Hu. pose proof keywords_lower as H. rewrite forallb_forall in H.
  destruct (existsb (str_eqb (u :: t)) keywords) eqn:E; [|reflexivity].
  apply existsb_exists in E as (k & Hin & Hk). apply str_eqb_eq in Hk. subst k.
  apply H in Hin. rewrite (upper_not_lower u Hu) in Hin. discriminate.
Qed.

Lemma seg_ident s : wf_seg s = true -> forallb ident_rune (render_seg s) = true.
Proof.
  intros H. apply forallb_forall. intros x Hx.
  assert (A : up_or_dig x = true \/ low_or_dig x = true).
  { destruct s as [w|r].
    - destruct w as [|u [|l t]]; cbn [wf_seg wf_word] in H; try discriminate.
      apply andb_true_iff in H as [H Ht]. apply andb_true_iff in H as [Hu Hl].
      cbn [render_seg] in Hx. destruct Hx as [Hx|[Hx|Hx]]; subst.
      + left. unfold up_or_dig. rewrite Hu. reflexivity.
      + right. unfold low_or_dig. rewrite Hl. reflexivity.
      + right. rewrite forallb_forall in Ht. apply Ht, Hx.
    - left. cbn [wf_seg] in H. apply andb_true_iff in H as [_ H]. apply wf_inits_uod in H.
      rewrite Forall_forall in H. apply H, Hx. }
  unfold ident_rune, is_letter. unfold up_or_dig, low_or_dig in A.
  destruct (is_upper x), (is_lower x), (is_digit x); cbn in *; try reflexivity; destruct A; discriminate.
Qed.

Lemma render_ident ss : Forall (fun s => wf_seg s = true) ss -> forallb ident_rune (render ss) = true.
Proof.
  induction 1 as [|s ss Hs _ IH]; [reflexivity|]. rewrite render_cons, forallb_app, (seg_ident s Hs), IH. reflexivity.
Qed.

Theorem go_camel_splits_l ss :
  ss <> [] -> Forall (fun s => wf_seg s = true) ss -> go_guard ss = true ->
  decode_go_camel (render ss) = Ok (expected ss).
Proof.
  intros Hne Hwf Hg. unfold go_guard in Hg. apply N.eqb_eq in Hg.
  destruct ss as [|s rest]; [congruence|]. inversion Hwf as [|? ? Hs Hrest]; subst.
  unfold decode_go_camel.
  assert (Hid : is_identifier (render (s :: rest)) = true).
  { destruct (wf_seg_head s Hs) as (c & t & E & Hc). unfold is_identifier.
    pose proof (render_ident (s :: rest) Hwf) as Hi. rewrite render_cons, E in *. cbn [app] in *.
    rewrite Hi, (upper_not_digit c Hc), (not_keyword c _ Hc). reflexivity. }
  rewrite Hid. unfold decode_go_with. change (fun r : rune => r =? underscore) with wbu.
  cbn [guard_class] in Hg. change (0 =? 0) with true in Hg. cbn [negb] in Hg.
  set (rc := match s with SRun r => run_class r (is_nil rest) | SWord _ => 0 end) in *.
  destruct (rc =? 0) eqn:Hrc; cbn [negb] in Hg; [|apply N.eqb_neq in Hrc; congruence].
  apply N.eqb_eq in Hrc.
  assert (Hrs : run_ok s (is_nil rest)) by (destruct s; [exact I|exact Hrc]).
  assert (He : entry_ok None [] s rest) by (unfold entry_ok; tauto).
  rewrite (consume_seg s rest None [] [] [] Hs Hrest He eq_refl Hrs).
  destruct rest as [|s' rest'].
  - cbn [expected concat map app]. rewrite app_nil_r. reflexivity.
  - rewrite go_segs; try assumption; try discriminate.
    reflexivity.
Qed.
