(* Slices whose element kind is string but whose type is not exactly []string
   ([]Label with type Label string; type Names []string) take parse.String's
   element loop; the elements are parsed as strings and - being of string kind -
   are NOT trimmed, so the flag helper's quoted form round-trips blanks and all. *)
From Coq Require Import String.
From Coq Require Import List NArith ZArith Bool.
From Dials Require Import Base.Outcome Base.Runes Text.ParseInt Text.Quote Text.Split Text.FlagHelpers
  Text.QuoteProofs Text.SplitProofs Text.ParseIntProofs.
From Dials Require Import Text.ParseString.
Import ListNotations.
Open Scope list_scope.
Open Scope N_scope.

Lemma map_out_strings isp fixed (e : ty) l :
  (forall x, parse_string_gen isp fixed true true e (tok true e x) = Ok (VStr x)) ->
  map_out (fun x => v <- parse_string_gen isp fixed true true e (tok true e x) ;;
                    if true || scalar_kind e then Ok v else Panic p_elem_panic) l = Ok (map VStr l).
Proof.
  intros He. apply map_out_ok. induction l as [|x l IH]; cbn [map]; constructor; [|exact IH].
  rewrite He. reflexivity.
Qed.

Theorem named_slice_roundtrip_l isp : (forall r, r < 128 -> isp r = ascii_print r) ->
  forall l, Forall str_valid l ->
  parse_string isp true true (TSlice (TNamed TStr)) (slice_string isp l) = Ok (VList (map VStr l)) /\
  parse_string isp true true (TNamed (TSlice TStr)) (slice_string isp l) = Ok (VList (map VStr l)) /\
  parse_string isp true true (TSlice TStr) (slice_string isp l) = Ok (VList (map VStr l)).
Proof.
  intros Hasc l Hl. pose proof (slice_roundtrip_l isp Hasc l Hl) as H. unfold parse_string.
  repeat split; cbn [parse_string_gen]; rewrite H; cbn [obind]; try reflexivity.
  all: match goal with |- omap VList (map_out ?F ?L) = _ => assert (E : map_out F L = Ok (map VStr L)) end;
    [apply map_out_ok; clear; induction l as [|x l IH]; cbn [map]; constructor; [reflexivity|exact IH]
    |rewrite E; reflexivity].
Qed.

(* the seeded change "trim every element" is visible exactly here: with an unconditional
   TrimSpace the quoted element " a " would come back as "a" *)
Example named_slice_keeps_blanks :
  parse_string (mk_print []) true true (TSlice (TNamed TStr)) (s2r """ a "",b ") = Ok (VList [VStr (s2r " a "); VStr (s2r "b ")]) /\
  parse_string (mk_print []) true true (TNamed (TSlice TStr)) (s2r """ a """) = Ok (VList [VStr (s2r " a ")]) /\
  parse_string (mk_print []) true true (TSlice (TNamed (TUint U8))) (s2r " 7 , 8 ") = Ok (VList [VInt 7; VInt 8]) /\
  parse_string (mk_print []) true true (TMap (TNamed TStr) (TNamed TStr)) (s2r """ k "":"" v """)
    = Ok (VMap [(VStr (s2r " k "), VStr (s2r " v "))]).
Proof. repeat split; vm_compute; reflexivity. Qed.
