(* The parser model accepts exactly the grammar of Text/IntGrammar.v and gives
   every literal its positional value (digit separators do not count). *)
From Coq Require Import String.
From Coq Require Import List NArith ZArith Bool Lia ZifyBool.
From Dials Require Import Base.Outcome Base.Runes Text.ParseInt Text.IntGrammar Text.ParseIntProofs.
Import ListNotations.
Open Scope list_scope.
Open Scope N_scope.

(* ------------------------------------------------------------------ *)
(* digit classes *)

Definition usclass (hex : bool) (c : rune) : bool :=
  ((48 <=? c) && (c <=? 57)) || (hex && (c <? 128) && (97 <=? lower_b c) && (lower_b c <=? 102)).

Lemma us_loop_digit hex sw c r : usclass hex c = true -> us_loop hex sw (c :: r) = us_loop hex SawDigit r.
Proof. unfold usclass. intros H. cbn [us_loop]. rewrite H. reflexivity. Qed.

Lemma usclass_us hex : usclass hex 95 = false.
Proof. destruct hex; reflexivity. Qed.

Lemma us_loop_us hex r : us_loop hex SawDigit (95 :: r) = us_loop hex SawUnder r.
Proof. pose proof (usclass_us hex) as H. unfold usclass in H. cbn [us_loop]. rewrite H. reflexivity. Qed.

Lemma digit_ok_dec base c : base <= 10 -> digit_ok base c = true -> 48 <= c <= 57.
Proof.
  unfold digit_ok, digit_of. intros Hb. destruct ((48 <=? c) && (c <=? 57)) eqn:E; [lia|].
  generalize (lower_b c). intros l. destruct ((c <? 128) && (97 <=? l) && (l <=? 122)) eqn:E2; [|discriminate]. lia.
Qed.

Lemma digit_ok_usclass base hex c : base <= 10 \/ (base <= 16 /\ hex = true) ->
  digit_ok base c = true -> usclass hex c = true.
Proof.
  intros Hb H. destruct Hb as [Hb|[Hb ->]].
  - pose proof (digit_ok_dec _ _ Hb H). unfold usclass. lia.
  - unfold digit_ok, digit_of in H. unfold usclass. destruct ((48 <=? c) && (c <=? 57)) eqn:E; [reflexivity|].
    cbn [orb andb]. revert H. generalize (lower_b c). intros l H.
    destruct ((c <? 128) && (97 <=? l) && (l <=? 122)) eqn:E2; [|discriminate]. lia.
Qed.

Lemma digit_ok_not_us base c : digit_ok base c = true -> (c =? 95) = false.
Proof. destruct (c =? 95) eqn:E; [|reflexivity]. apply N.eqb_eq in E. subst. discriminate. Qed.

Lemma digit_ok_val base c : digit_ok base c = true -> digit_of c = Some (dval c) /\ dval c < base.
Proof. unfold digit_ok, dval. destruct (digit_of c); [|discriminate]. intros H. split; [reflexivity|lia]. Qed.

Lemma lower_b_digit c : 48 <= c <= 57 -> lower_b c = c.
Proof.
  intros H. assert (E : c = 48 \/ c = 49 \/ c = 50 \/ c = 51 \/ c = 52 \/ c = 53 \/ c = 54 \/ c = 55 \/ c = 56 \/ c = 57) by lia.
  repeat (destruct E as [-> | E]; [reflexivity|]). subst. reflexivity.
Qed.

Definition all_ok (base : N) (l : list item) : Prop := Forall (fun it : item => digit_ok base (snd it) = true) l.

(* ------------------------------------------------------------------ *)
(* soundness: every literal of the grammar has its positional value *)

Lemma us_loop_items base hex l : base <= 10 \/ (base <= 16 /\ hex = true) -> all_ok base l ->
  us_loop hex SawDigit (render_items l) = true.
Proof.
  intros Hb. induction 1 as [|[u c] l Hc _ IH]; [reflexivity|]. cbn [render_items flat_map fst snd] in *.
  fold (render_items l). pose proof (digit_ok_usclass _ _ _ Hb Hc) as Hu.
  destruct u; cbn [app].
  - rewrite us_loop_us, us_loop_digit by exact Hu. exact IH.
  - rewrite us_loop_digit by exact Hu. exact IH.
Qed.

Lemma digits_val_items base l : all_ok base l -> forall acc,
  digits_val base (render_items l) acc = Some (items_val base l acc).
Proof.
  induction 1 as [|[u c] l Hc _ IH]; intros acc; [reflexivity|]. cbn [render_items flat_map fst snd] in *.
  fold (render_items l). destruct (digit_ok_val _ _ Hc) as [Hd Hlt].
  assert (Hstep : digits_val base (c :: render_items l) acc = Some (items_val base ((u, c) :: l) acc)).
  { cbn [digits_val]. rewrite (digit_ok_not_us _ _ Hc), Hd. assert (E : (dval c <? base) = true) by lia. rewrite E.
    rewrite IH. reflexivity. }
  destruct u; cbn [app]; [|exact Hstep]. cbn [digits_val]. change (95 =? 95) with true. cbv iota. exact Hstep.
Qed.

Lemma underscore_ok_plain c0 r : (c0 =? 45) = false -> (c0 =? 43) = false ->
  ((c0 =? 48) = false \/ match r with c1 :: _ => is_base_letter c1 = false | [] => True end) ->
  underscore_ok (c0 :: r) = us_loop false SawBegin (c0 :: r).
Proof.
  intros H1 H2 H. unfold underscore_ok. rewrite H1, H2. cbn [orb]. destruct r as [|c1 r']; [reflexivity|].
  destruct H as [H|H]; [rewrite H; reflexivity|]. rewrite H, andb_false_r. reflexivity.
Qed.

Lemma not_letter_item base c : base <= 10 -> (c = 95 \/ digit_ok base c = true) ->
  is_base_letter c = false /\ ((c <? 128) && (lower_b c =? 98) = false) /\
  ((c <? 128) && (lower_b c =? 111) = false) /\ ((c <? 128) && (lower_b c =? 120) = false).
Proof.
  intros Hb [-> | H]; [repeat split; reflexivity|].
  pose proof (digit_ok_dec _ _ Hb H) as Hr. unfold is_base_letter. rewrite (lower_b_digit c Hr). lia.
Qed.

Lemma render_items_head base l : all_ok base l -> match render_items l with c :: _ => c = 95 \/ digit_ok base c = true | [] => True end.
Proof.
  destruct 1 as [|[u c] l Hc _]; [exact I|]. cbn [render_items flat_map fst snd]. destruct u; cbn [app]; auto.
Qed.

Theorem form_sound f : wf_form f = true -> lit_uvalue (render_form f) = Some (form_val f).
Proof.
  destruct f as [items|items|base letter items]; cbn [wf_form render_form form_val].
  - (* decimal *)
    destruct items as [|[[|] c] r]; try discriminate. intros H.
    apply andb_true_iff in H as [H Hr]. apply andb_true_iff in H as [Hc H48]. apply negb_true_iff in H48.
    assert (Hall : all_ok 10 ((false, c) :: r)).
    { constructor; [exact Hc|]. apply Forall_forall. rewrite forallb_forall in Hr. exact Hr. }
    pose proof (digit_ok_dec 10 c ltac:(lia) Hc) as Hrange.
    cbn [render_items flat_map fst snd app]. fold (render_items r).
    unfold lit_uvalue, base_prefix. rewrite H48.
    rewrite underscore_ok_plain by (try lia; left; exact H48).
    rewrite (us_loop_digit false SawBegin c) by (unfold usclass; lia).
    inversion Hall; subst. rewrite (us_loop_items 10 false r) by (auto; left; lia).
    rewrite andb_false_r. exact (digits_val_items 10 _ Hall 0).
  - (* legacy octal *)
    intros H. assert (Hall : all_ok 8 items) by (apply Forall_forall; rewrite forallb_forall in H; exact H).
    unfold lit_uvalue, base_prefix. change (48 =? 48) with true. cbv iota.
    pose proof (render_items_head 8 items Hall) as Hh.
    destruct items as [|it items']; [reflexivity|]. set (items := it :: items') in *.
    assert (Hr : exists d r, render_items items = d :: r).
    { subst items. destruct it as [[|] c]; cbn [render_items flat_map fst snd app]; eauto. }
    destruct Hr as (c1 & r1 & E). rewrite E in Hh |- *.
    destruct (not_letter_item 8 c1 ltac:(lia) Hh) as (Hl & E1 & E2 & E3).
    assert (Hgo : (if has_underscore (c1 :: r1) && negb (underscore_ok (48 :: c1 :: r1)) then None
                   else digits_val 8 (c1 :: r1) 0) = Some (items_val 8 items 0)).
    { rewrite underscore_ok_plain by (try reflexivity; right; exact Hl).
      rewrite (us_loop_digit false SawBegin 48) by reflexivity. rewrite <- E.
      rewrite (us_loop_items 8 false items) by (auto; left; lia). rewrite andb_false_r.
      exact (digits_val_items 8 _ Hall 0). }
    destruct r1 as [|c2 r2]; [exact Hgo|]. rewrite E1, E2, E3. exact Hgo.
  - (* prefixed *)
    intros H. apply andb_true_iff in H as [H Hi]. apply andb_true_iff in H as [Hl Hne].
    assert (Hall : all_ok base items) by (apply Forall_forall; rewrite forallb_forall in Hi; exact Hi).
    destruct items as [|it items']; [discriminate|]. set (items := it :: items') in *.
    assert (Hr : exists d r, render_items items = d :: r).
    { subst items. destruct it as [[|] c]; cbn [render_items flat_map fst snd app]; eauto. }
    destruct Hr as (d & r & Er).
    unfold lit_uvalue, base_prefix. change (48 =? 48) with true. cbv iota. rewrite Er.
    unfold letter_ok in Hl.
    assert (Hcases : (base = 2 /\ (letter = 98 \/ letter = 66)) \/ (base = 8 /\ (letter = 111 \/ letter = 79))
                     \/ (base = 16 /\ (letter = 120 \/ letter = 88))) by lia.
    assert (Hgo : forall hex, base <= 10 \/ (base <= 16 /\ hex = true) ->
                  (if has_underscore (d :: r) && negb (us_loop hex SawDigit (d :: r)) then None
                   else digits_val base (d :: r) 0) = Some (items_val base items 0)).
    { intros hex Hb. rewrite <- Er. rewrite (us_loop_items base hex items Hb Hall). rewrite andb_false_r.
      exact (digits_val_items base _ Hall 0). }
    destruct Hcases as [[-> [-> | ->]]|[[-> [-> | ->]]|[-> [-> | ->]]]];
      cbn [N.ltb N.compare Pos.compare Pos.compare_cont lower_b N.lor Pos.lor N.eqb Pos.eqb andb];
      unfold underscore_ok; cbn [N.eqb Pos.eqb orb andb is_base_letter N.ltb N.compare Pos.compare Pos.compare_cont lower_b N.lor Pos.lor];
      apply Hgo; (left; lia) || (right; split; [lia|reflexivity]).
Qed.

(* ------------------------------------------------------------------ *)
(* finite facts about ASCII runes, by exhaustive computation below 128 *)

Definition check_below (k : nat) (P : N -> bool) : bool := forallb P (map N.of_nat (seq 0 k)).

Lemma check_below_spec k P : check_below k P = true -> forall c, c < N.of_nat k -> P c = true.
Proof.
  unfold check_below. rewrite forallb_forall. intros H c Hc. apply H.
  apply in_map_iff. exists (N.to_nat c). split; [apply N2Nat.id|]. apply in_seq. lia.
Qed.

Definition ascii_facts (c : N) : bool :=
  implb (lower_b c =? 98) ((c =? 98) || (c =? 66)) &&
  implb (lower_b c =? 111) ((c =? 111) || (c =? 79)) &&
  implb (lower_b c =? 120) ((c =? 120) || (c =? 88)) &&
  implb ((97 <=? lower_b c) && (lower_b c <=? 122)) (negb (is_space c) && negb (c =? 44) && negb (c =? 43) && negb (c =? 45)).

Lemma ascii_facts_ok : check_below 128 ascii_facts = true.
Proof. vm_compute. reflexivity. Qed.

Lemma ascii_fact c : c < 128 -> ascii_facts c = true.
Proof. intros H. apply (check_below_spec 128 _ ascii_facts_ok). exact H. Qed.

Lemma letter_of_test c x : (c <? 128) && (lower_b c =? x) = true -> x = 98 \/ x = 111 \/ x = 120 ->
  c = x \/ c + 32 = x.
Proof.
  intros H Hx. apply andb_true_iff in H as [H1 H2]. apply N.ltb_lt in H1. pose proof (ascii_fact c H1) as F.
  unfold ascii_facts in F. destruct Hx as [-> | [-> | ->]]; rewrite H2 in F; cbn [implb] in F; lia.
Qed.

Lemma digit_ok_plainchar base c : digit_ok base c = true ->
  is_space c = false /\ c <> 44 /\ c <> 43 /\ c <> 45.
Proof.
  unfold digit_ok, digit_of. destruct ((48 <=? c) && (c <=? 57)) eqn:E.
  - intros _. unfold is_space. lia.
  - destruct ((c <? 128) && (97 <=? lower_b c) && (lower_b c <=? 122)) eqn:E2; [|discriminate]. intros _.
    assert (Hc : c < 128) by lia. pose proof (ascii_fact c Hc) as F. unfold ascii_facts in F.
    assert (E3 : (97 <=? lower_b c) && (lower_b c <=? 122) = true) by lia. rewrite E3 in F. cbn [implb] in F.
    repeat (apply andb_true_iff in F as [F ?]). split; [destruct (is_space c); [discriminate|reflexivity]|]. lia.
Qed.

(* ------------------------------------------------------------------ *)
(* completeness: whatever the parser accepts is a literal of the grammar *)

Lemma digits_val_cons base c r acc v : (c =? 95) = false -> digits_val base (c :: r) acc = Some v ->
  digit_ok base c = true /\ digits_val base r (acc * base + dval c) = Some v.
Proof.
  intros E H. cbn [digits_val] in H. rewrite E in H. unfold digit_ok, dval.
  destruct (digit_of c) as [d|]; [|discriminate]. destruct (d <? base); [auto|discriminate].
Qed.

Lemma us_free base hex body : base <= 10 \/ (base <= 16 /\ hex = true) -> has_underscore body = false ->
  forall acc v, digits_val base body acc = Some v -> us_loop hex SawDigit body = true.
Proof.
  intros Hb. induction body as [|c r IH]; intros Hu acc v H; [reflexivity|].
  unfold has_underscore in Hu. cbn [existsb] in Hu. apply orb_false_iff in Hu as [Hc Hr].
  destruct (digits_val_cons _ _ _ _ _ Hc H) as [Hok Hrest].
  rewrite us_loop_digit by (eapply digit_ok_usclass; eauto). eapply IH; eauto.
Qed.

Lemma items_recover base hex : base <= 10 \/ (base <= 16 /\ hex = true) ->
  forall n body acc v, (length body <= n)%nat ->
  digits_val base body acc = Some v -> us_loop hex SawDigit body = true ->
  render_items (items_of body) = body /\ all_ok base (items_of body) /\ items_val base (items_of body) acc = v.
Proof.
  intros Hb. induction n as [|n IH]; intros body acc v Hl Hv Hu.
  - destruct body; [|cbn in Hl; lia]. cbn in *. inversion Hv. repeat split. constructor.
  - destruct body as [|c r]; [cbn in *; inversion Hv; repeat split; constructor|]. cbn [length] in Hl.
    destruct (c =? 95) eqn:Ec.
    + apply N.eqb_eq in Ec. subst c. rewrite us_loop_us in Hu.
      destruct r as [|d r']; [discriminate|].
      assert (Hd : usclass hex d = true /\ us_loop hex SawDigit r' = true).
      { cbn [us_loop] in Hu. fold (usclass hex d) in Hu. destruct (usclass hex d); [auto|].
        destruct (d =? 95); discriminate. }
      destruct Hd as [Hd Hu'].
      assert (Ed : (d =? 95) = false).
      { destruct (d =? 95) eqn:E; [|reflexivity]. apply N.eqb_eq in E. subst. rewrite usclass_us in Hd. discriminate. }
      cbn [digits_val] in Hv. change (95 =? 95) with true in Hv. cbv iota in Hv.
      destruct (digits_val_cons _ _ _ _ _ Ed Hv) as [Hok Hrest].
      cbn [length] in Hl. destruct (IH r' _ _ ltac:(lia) Hrest Hu') as (H1 & H2 & H3).
      cbn [items_of]. change (95 =? 95) with true. cbv iota.
      cbn [render_items flat_map fst snd app]. fold (render_items (items_of r')). rewrite H1.
      repeat split; [constructor; [exact Hok|exact H2]|]. cbn [items_val fold_left snd]. exact H3.
    + destruct (digits_val_cons _ _ _ _ _ Ec Hv) as [Hok Hrest].
      rewrite us_loop_digit in Hu by (eapply digit_ok_usclass; eauto).
      destruct (IH r _ _ ltac:(lia) Hrest Hu) as (H1 & H2 & H3).
      cbn [items_of]. rewrite Ec. cbn [render_items flat_map fst snd app]. fold (render_items (items_of r)). rewrite H1.
      repeat split; [constructor; [exact Hok|exact H2]|]. cbn [items_val fold_left snd]. exact H3.
Qed.

Lemma forallb_all_ok base l : all_ok base l -> forallb (fun it : item => digit_ok base (snd it)) l = true.
Proof. unfold all_ok. intros H. apply forallb_forall. rewrite Forall_forall in H. exact H. Qed.

(* the test of lit_uvalue: either no separators, or underscoreOK holds *)
Lemma guard_split (hu uok : bool) (x : option N) v :
  (if hu && negb uok then None else x) = Some v -> (hu = false \/ uok = true) /\ x = Some v.
Proof. destruct hu, uok; cbn; intros H; try discriminate; auto. Qed.

Theorem form_complete s v : lit_uvalue s = Some v ->
  exists f, wf_form f = true /\ render_form f = s /\ form_val f = v.
Proof.
  unfold lit_uvalue. destruct s as [|c0 r0]; [discriminate|]. unfold base_prefix.
  destruct (c0 =? 48) eqn:E0.
  - apply N.eqb_eq in E0. subst c0.
    assert (Hleg : (if has_underscore r0 && negb (underscore_ok (48 :: r0)) then None else digits_val 8 r0 0) = Some v ->
                   exists f, wf_form f = true /\ render_form f = 48 :: r0 /\ form_val f = v).
    { intros H. apply guard_split in H as [Hg Hv].
      assert (Hu : us_loop false SawDigit r0 = true).
      { destruct Hg as [Hg|Hg]; [eapply (us_free 8 false); eauto; left; lia|].
        destruct r0 as [|c1 r1]; [reflexivity|].
        assert (Hc1 : c1 = 95 \/ digit_ok 8 c1 = true).
        { destruct (c1 =? 95) eqn:E; [left; apply N.eqb_eq, E|right]. eapply digits_val_cons; eauto. }
        rewrite underscore_ok_plain in Hg by (try reflexivity; right; apply (not_letter_item 8 c1 ltac:(lia) Hc1)).
        rewrite (us_loop_digit false SawBegin 48) in Hg by reflexivity. exact Hg. }
      destruct (items_recover 8 false ltac:(left; lia) _ r0 0 v (le_n _) Hv Hu) as (H1 & H2 & H3).
      exists (GLegacy (items_of r0)). cbn [wf_form render_form form_val]. rewrite H1.
      split; [apply forallb_all_ok, H2|auto]. }
    destruct r0 as [|c1 [|c2 r2]]; try exact Hleg.
    assert (Hpre : forall base x, (c1 <? 128) && (lower_b c1 =? x) = true ->
              (x = 98 /\ base = 2) \/ (x = 111 /\ base = 8) \/ (x = 120 /\ base = 16) ->
              (if has_underscore (c2 :: r2) && negb (underscore_ok (48 :: c1 :: c2 :: r2)) then None
               else digits_val base (c2 :: r2) 0) = Some v ->
              exists f, wf_form f = true /\ render_form f = 48 :: c1 :: c2 :: r2 /\ form_val f = v).
    { intros base x Ht Hx H. apply guard_split in H as [Hg Hv].
      assert (Hlet : c1 = x \/ c1 + 32 = x) by (apply letter_of_test; [exact Ht|lia]).
      apply andb_true_iff in Ht as [Ht1 Ht2]. apply N.eqb_eq in Ht2.
      set (hex := lower_b c1 =? 120).
      assert (Hb : base <= 10 \/ (base <= 16 /\ hex = true)).
      { subst hex. rewrite Ht2. destruct Hx as [[-> ->]|[[-> ->]|[-> ->]]]; [left; lia|left; lia|right; split; [lia|reflexivity]]. }
      assert (Huok : underscore_ok (48 :: c1 :: c2 :: r2) = us_loop hex SawDigit (c2 :: r2)).
      { unfold underscore_ok. change (48 =? 45) with false. change (48 =? 43) with false. cbn [orb].
        change (48 =? 48) with true. unfold is_base_letter. rewrite Ht1, Ht2.
        assert (E : (x =? 98) || (x =? 111) || (x =? 120) = true) by lia. rewrite E. cbn [andb]. subst hex. rewrite Ht2. reflexivity. }
      assert (Hu : us_loop hex SawDigit (c2 :: r2) = true).
      { destruct Hg as [Hg|Hg]; [eapply (us_free base hex); eauto|]. rewrite <- Huok. exact Hg. }
      destruct (items_recover base hex Hb _ (c2 :: r2) 0 v (le_n _) Hv Hu) as (H1 & H2 & H3).
      exists (GPre base c1 (items_of (c2 :: r2))). cbn [wf_form render_form form_val]. rewrite H1.
      split; [|auto]. rewrite (forallb_all_ok _ _ H2), andb_true_r.
      assert (Hne : nilb (items_of (c2 :: r2)) = false).
      { cbn [items_of]. destruct (c2 =? 95); [destruct r2|]; reflexivity. }
      rewrite Hne. cbn [negb]. rewrite andb_true_r. unfold letter_ok. lia. }
    destruct ((c1 <? 128) && (lower_b c1 =? 98)) eqn:T1; [apply (Hpre 2 98 T1); auto|].
    destruct ((c1 <? 128) && (lower_b c1 =? 111)) eqn:T2; [apply (Hpre 8 111 T2); auto|].
    destruct ((c1 <? 128) && (lower_b c1 =? 120)) eqn:T3; [apply (Hpre 16 120 T3); auto|].
    exact Hleg.
  - intros H. apply guard_split in H as [Hg Hv].
    assert (E95 : (c0 =? 95) = false).
    { destruct (c0 =? 95) eqn:E; [|reflexivity]. apply N.eqb_eq in E. subst c0. exfalso.
      destruct Hg as [Hg|Hg]; [unfold has_underscore in Hg; cbn in Hg; discriminate|].
      destruct r0; vm_compute in Hg; discriminate. }
    destruct (digits_val_cons _ _ _ _ _ E95 Hv) as [Hok Hrest].
    pose proof (digit_ok_dec 10 c0 ltac:(lia) Hok) as Hr.
    assert (Hu : us_loop false SawDigit r0 = true).
    { destruct Hg as [Hg|Hg].
      - unfold has_underscore in Hg. cbn [existsb] in Hg. apply orb_false_iff in Hg as [_ Hg].
        eapply (us_free 10 false); eauto. left; lia.
      - rewrite underscore_ok_plain in Hg by (try lia; left; exact E0).
        rewrite (us_loop_digit false SawBegin c0) in Hg by (unfold usclass; lia). exact Hg. }
    destruct (items_recover 10 false ltac:(left; lia) _ r0 _ v (le_n _) Hrest Hu) as (H1 & H2 & H3).
    exists (GDec ((false, c0) :: items_of r0)). cbn [wf_form render_form form_val].
    cbn [render_items flat_map fst snd app]. fold (render_items (items_of r0)). rewrite H1.
    split; [|split; [reflexivity|exact H3]]. rewrite Hok, E0. cbn [negb andb]. apply forallb_all_ok, H2.
Qed.

(* ------------------------------------------------------------------ *)
(* signed literals, digit separators, blanks, all widths *)

Lemma render_form_head f : wf_form f = true -> exists c r, render_form f = c :: r /\ 48 <= c <= 57.
Proof.
  destruct f as [items|items|base letter items]; cbn [wf_form render_form]; intros H.
  - destruct items as [|[[|] c] r]; try discriminate. apply andb_true_iff in H as [H _]. apply andb_true_iff in H as [H _].
    exists c, (render_items r). split; [reflexivity|]. apply (digit_ok_dec 10); [lia|exact H].
  - eexists _, _. split; [reflexivity|lia].
  - eexists _, _. split; [reflexivity|lia].
Qed.

Theorem lit_sound g : wf_lit g = true -> lit_value (render_lit g) = Some (lit_val g).
Proof.
  destruct g as [sg f]. unfold wf_lit, render_lit, lit_val. cbn [fst snd]. intros H.
  pose proof (form_sound f H) as Hs. destruct (render_form_head f H) as (c & r & E & Hc).
  destruct sg as [[|]|]; unfold lit_value.
  - change (45 =? 43) with false. change (45 =? 45) with true. cbv iota. rewrite Hs. reflexivity.
  - change (43 =? 43) with true. cbv iota. rewrite Hs. reflexivity.
  - rewrite E in *. assert (E1 : (c =? 43) = false) by lia. assert (E2 : (c =? 45) = false) by lia.
    rewrite E1, E2, Hs. reflexivity.
Qed.

Theorem lit_complete s z : lit_value s = Some z ->
  exists g, wf_lit g = true /\ render_lit g = s /\ lit_val g = z.
Proof.
  unfold lit_value. destruct s as [|c0 r]; [discriminate|].
  destruct (c0 =? 43) eqn:E1.
  - apply N.eqb_eq in E1. subst. destruct (lit_uvalue r) as [v|] eqn:E; [|discriminate]. intros [= <-].
    destruct (form_complete r v E) as (f & H1 & H2 & H3). exists (Some false, f). unfold wf_lit, render_lit, lit_val.
    cbn [fst snd]. rewrite H2, H3. auto.
  - destruct (c0 =? 45) eqn:E2.
    + apply N.eqb_eq in E2. subst. destruct (lit_uvalue r) as [v|] eqn:E; [|discriminate]. intros [= <-].
      destruct (form_complete r v E) as (f & H1 & H2 & H3). exists (Some true, f). unfold wf_lit, render_lit, lit_val.
      cbn [fst snd]. rewrite H2, H3. auto.
    + destruct (lit_uvalue (c0 :: r)) as [v|] eqn:E; [|discriminate]. intros [= <-].
      destruct (form_complete _ v E) as (f & H1 & H2 & H3). exists (None, f). unfold wf_lit, render_lit, lit_val.
      cbn [fst snd]. rewrite H2, H3. auto.
Qed.

Lemma items_val_strip base l : forall acc, items_val base (strip_items l) acc = items_val base l acc.
Proof. induction l as [|it l IH]; intros acc; [reflexivity|]. cbn [strip_items map items_val fold_left snd]. apply IH. Qed.

Lemma forallb_strip base l :
  forallb (fun it : item => digit_ok base (snd it)) (strip_items l) = forallb (fun it : item => digit_ok base (snd it)) l.
Proof. induction l as [|it l IH]; [reflexivity|]. cbn [strip_items map forallb snd]. f_equal. exact IH. Qed.

(* removing the digit separators of a literal gives a literal of the same value *)
Theorem strip_lit_ok g : wf_lit g = true -> wf_lit (strip_lit g) = true /\ lit_val (strip_lit g) = lit_val g.
Proof.
  destruct g as [sg f]. unfold wf_lit, strip_lit, lit_val. cbn [fst snd]. intros H.
  assert (Hv : form_val (strip_form f) = form_val f).
  { destruct f; cbn [strip_form form_val]; apply items_val_strip. }
  rewrite Hv. split; [|reflexivity].
  destruct f as [items|items|base letter items]; cbn [strip_form wf_form] in *.
  - destruct items as [|[[|] c] r]; try discriminate. cbn [strip_items map snd]. fold (strip_items r). rewrite forallb_strip. exact H.
  - rewrite forallb_strip. exact H.
  - rewrite forallb_strip. destruct items; exact H.
Qed.

Lemma render_items_clean base l : all_ok base l -> no_space (render_items l) /\ no_comma (render_items l).
Proof.
  induction 1 as [|[u c] l Hc _ [IH1 IH2]]; [split; constructor|]. cbn [render_items flat_map fst snd] in *.
  fold (render_items l). destruct (digit_ok_plainchar _ _ Hc) as (Hs & Hcm & _).
  destruct u; cbn [app]; split; repeat constructor; auto; unfold comma; try lia.
Qed.

Lemma render_lit_clean g : wf_lit g = true -> no_space (render_lit g) /\ no_comma (render_lit g).
Proof.
  destruct g as [sg f]. unfold wf_lit, render_lit. cbn [fst snd]. intros H.
  assert (Hf : no_space (render_form f) /\ no_comma (render_form f)).
  { destruct f as [items|items|base letter items]; cbn [wf_form render_form] in *.
    - destruct items as [|[[|] c] r]; try discriminate.
      apply andb_true_iff in H as [H Hr]. apply andb_true_iff in H as [Hc _].
      apply (render_items_clean 10). constructor; [exact Hc|]. apply Forall_forall. rewrite forallb_forall in Hr. exact Hr.
    - destruct (render_items_clean 8 items) as [H1 H2]; [apply Forall_forall; rewrite forallb_forall in H; exact H|].
      split; constructor; auto. unfold comma. lia.
    - apply andb_true_iff in H as [H Hi]. apply andb_true_iff in H as [Hl _].
      destruct (render_items_clean base items) as [H1 H2]; [apply Forall_forall; rewrite forallb_forall in Hi; exact Hi|].
      unfold letter_ok in Hl.
      assert (Hx : is_space letter = false /\ letter <> comma).
      { assert (Hc : letter = 98 \/ letter = 66 \/ letter = 111 \/ letter = 79 \/ letter = 120 \/ letter = 88) by lia.
        unfold comma. repeat (destruct Hc as [-> | Hc]; [split; [reflexivity|lia]|]). subst. split; [reflexivity|lia]. }
      destruct Hx. split; constructor; try (constructor; auto); auto; unfold comma; lia. }
  destruct Hf as [H1 H2]. destruct sg as [[|]|]; [| |auto]; split; constructor; auto; unfold comma; lia.
Qed.

(* int_accepts_go_forms: one statement over the grammar, every signed width *)
Theorem go_forms_signed w g : wf_lit g = true ->
  (in_srange w (lit_val g) = true ->
     parse_number_int w (render_lit g) = Ok (lit_val g) /\
     parse_number_int w (render_lit (strip_lit g)) = Ok (lit_val g) /\
     forall a b, Forall (fun c => is_space c = true) a -> Forall (fun c => is_space c = true) b ->
       signed_elem w (a ++ render_lit g ++ b) = Ok (lit_val g)) /\
  (in_srange w (lit_val g) = false ->
     (exists c, parse_number_int w (render_lit g) = Err c) /\
     forall a b, Forall (fun c => is_space c = true) a -> Forall (fun c => is_space c = true) b ->
       exists c, signed_elem w (a ++ render_lit g ++ b) = Err c).
Proof.
  intros H. pose proof (lit_sound g H) as Hs. destruct (strip_lit_ok g H) as [Hw Hv].
  pose proof (lit_sound _ Hw) as Hs'. rewrite Hv in Hs'. destruct (render_lit_clean g H) as [Hns _].
  split; intros Hr.
  - split; [apply parse_number_int_spec; auto|]. split; [apply parse_number_int_spec; auto|].
    intros a b Ha Hb. apply signed_elem_spec. rewrite trim_space_pad by assumption. auto.
  - split; [eapply int_out_of_range_signed; eauto|]. intros a b Ha Hb.
    apply not_ok_err; [apply signed_elem_class|]. intros z Hz. apply signed_elem_spec in Hz as [H1 H2].
    rewrite trim_space_pad in H1 by assumption. congruence.
Qed.

(* unsigned widths: literals without a sign *)
Theorem go_forms_unsigned w f : wf_form f = true ->
  (in_urange w (form_val f) = true ->
     parse_number_uint w (render_form f) = Ok (form_val f) /\
     forall a b, Forall (fun c => is_space c = true) a -> Forall (fun c => is_space c = true) b ->
       unsigned_elem w (a ++ render_form f ++ b) = Ok (form_val f)) /\
  (in_urange w (form_val f) = false -> exists c, parse_number_uint w (render_form f) = Err c).
Proof.
  intros H. pose proof (form_sound f H) as Hs. destruct (render_lit_clean (None, f) H) as [Hns _].
  unfold render_lit in Hns. cbn [fst snd] in Hns.
  split; intros Hr.
  - split; [apply parse_number_uint_spec; auto|]. intros a b Ha Hb.
    apply unsigned_elem_spec. rewrite trim_space_pad by assumption. auto.
  - eapply int_out_of_range_unsigned; eauto.
Qed.

(* and conversely: whatever a parser accepts is a literal of the grammar with that value *)
Theorem go_forms_complete_signed w s z : parse_number_int w s = Ok z ->
  exists g, wf_lit g = true /\ render_lit g = s /\ lit_val g = z.
Proof. intros H. apply parse_number_int_spec in H as [H _]. apply lit_complete. exact H. Qed.

Theorem go_forms_complete_unsigned w s n : parse_number_uint w s = Ok n ->
  exists f, wf_form f = true /\ render_form f = s /\ form_val f = n.
Proof. intros H. apply parse_number_uint_spec in H as [H _]. apply form_complete. exact H. Qed.

(* misplaced separators are rejected: none of these is in the grammar *)
Example misplaced_underscores_rejected :
  lit_value (s2r "_1") = None /\ lit_value (s2r "1_") = None /\ lit_value (s2r "1__0") = None /\
  lit_value (s2r "0x__1") = None /\ lit_value (s2r "0_x1") = None /\ lit_value (s2r "-_1") = None /\
  lit_value (s2r "0b1_") = None /\ lit_value (s2r "+0_") = None.
Proof. repeat split; vm_compute; reflexivity. Qed.

Example grammar_examples :
  render_lit (Some true, GPre 16 120 [(true, 55); (false, 102)]) = s2r "-0x_7f" /\
  lit_val (Some true, GPre 16 120 [(true, 55); (false, 102)]) = (-127)%Z /\
  wf_lit (Some true, GPre 16 120 [(true, 55); (false, 102)]) = true /\
  render_lit (None, GDec [(false, 49); (true, 48); (false, 48); (false, 48)]) = s2r "1_000" /\
  render_lit (strip_lit (None, GDec [(false, 49); (true, 48); (false, 48); (false, 48)])) = s2r "1000" /\
  render_lit (None, GLegacy []) = s2r "0" /\ render_lit (Some false, GLegacy [(true, 55)]) = s2r "+0_7".
Proof. repeat split; vm_compute; reflexivity. Qed.
