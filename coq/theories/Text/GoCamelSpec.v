(* Specification side of Go-identifier decoding (property C19, second half):
   names are assembled from capitalised words and initialisms; the expected
   decoding is the list of those tokens, lower-cased.  The decidable guard
   `go_guard` delimits the names on which the pinned code is proved to do so;
   its complement is exactly the known-finding classes 1-4. *)
From Coq Require Import List NArith Bool.
From Dials Require Import Base.Outcome Base.Runes Text.CaseConv Text.BaselineInitialisms.
Import ListNotations.
Open Scope N_scope.

Inductive seg := SWord (w : str) | SRun (run : list str).

Definition render_seg (s : seg) : str :=
  match s with SWord w => w | SRun r => concat r end.
Definition seg_words (s : seg) : words :=
  match s with SWord w => [lower_s w] | SRun r => map lower_s r end.
Definition render (ss : list seg) : str := concat (map render_seg ss).
Definition expected (ss : list seg) : words := concat (map seg_words ss).

Definition low_or_dig (c : rune) : bool := is_lower c || is_digit c.
Definition up_or_dig (c : rune) : bool := is_upper c || is_digit c.

(* capitalised word: [A-Z][a-z][a-z0-9]* *)
Definition wf_word (w : str) : bool :=
  match w with
  | u :: l :: t => is_upper u && is_lower l && forallb low_or_dig t
  | _ => false
  end.

(* initialism as the code needs it: upper-case first rune, then upper-case or
   digits, at least two runes *)
Definition wf_init (i : str) : bool :=
  match i with
  | u :: c :: t => is_upper u && up_or_dig c && forallb up_or_dig t
  | _ => false
  end.

Definition wf_seg (s : seg) : bool :=
  match s with
  | SWord w => wf_word w
  | SRun r => nonempty (concat r) && match r with [] => false | _ => true end && forallb wf_init r
  end.

Definition last_is (p : rune -> bool) (s : str) : bool :=
  match rev s with c :: _ => p c | [] => false end.

Definition is_nil {A} (l : list A) : bool := match l with [] => true | _ => false end.

Definition words_eqb (a b : option words) : bool :=
  match a, b with Some x, Some y => strs_eqb x y | _, _ => false end.

(* 0 = inside the guard; otherwise the known-finding class *)
Definition boundary_class (p s : seg) (islast : bool) : N :=
  match p, s with
  | SWord pw, SWord w => if last_is is_lower pw || negb (islast && (N.of_nat (length w) =? 2)) then 0 else 3
  | SRun _, SWord w => if negb (islast && (N.of_nat (length w) =? 2)) then 0 else 3
  | SWord pw, SRun _ => if last_is is_lower pw then 0 else 2
  | SRun _, SRun _ => 5   (* not a grouping: adjacent runs must be merged *)
  end.

(* longest-match-first extraction over the source's current list: what
   "longest-known-initialism extraction" would yield.
   Class 1 (list-order matching) only explains a run this extraction splits
   correctly; anything else (e.g. an initialism missing from the list) is not
   a known finding. *)
Definition baseline_initialisms : list str := map s2r baseline_initialisms_src.

Fixpoint longest_prefix (inits : list str) (s : str) (best : option (str * str)) : option (str * str) :=
  match inits with
  | [] => best
  | i :: rest =>
      match strip_prefix i s with
      | Some s' =>
          match best with
          | Some (b, _) => if Nat.ltb (length b) (length i) then longest_prefix rest s (Some (i, s'))
                           else longest_prefix rest s best
          | None => longest_prefix rest s (Some (i, s'))
          end
      | None => longest_prefix rest s best
      end
  end.

Fixpoint extract_longest (fuel : nat) (inits : list str) (s : str) : option words :=
  match s with
  | [] => Some []
  | _ =>
      match fuel with
      | O => None
      | S f =>
          match longest_prefix inits s None with
          | Some (i, s') =>
              match i with
              | [] => None
              | _ => match extract_longest f inits s' with Some ws => Some (lower_s i :: ws) | None => None end
              end
          | None => None
          end
      end
  end.

Definition longest_ok (r : list str) : bool :=
  words_eqb (extract_longest (S (length (concat r))) initialisms (concat r))
            (Some (map lower_s r)).

Definition run_class (r : list str) (islast : bool) : N :=
  if negb (words_eqb (extract_initialisms (concat r)) (Some (map lower_s r))) then (if longest_ok r then 1 else 6)
  else if islast && last_is is_digit (concat r) && negb (N.of_nat (length r) =? 1) then 4
  else 0.

Fixpoint guard_class (prev : option seg) (ss : list seg) : N :=
  match ss with
  | [] => 0
  | s :: rest =>
      let b := match prev with None => 0 | Some p => boundary_class p s (is_nil rest) end in
      if negb (b =? 0) then b else
      let r := match s with SRun r => run_class r (is_nil rest) | SWord _ => 0 end in
      if negb (r =? 0) then r else guard_class (Some s) rest
  end.

Definition go_guard (ss : list seg) : bool := guard_class None ss =? 0.

(* grouping of a token list (is_initialism, text) into segments *)
Fixpoint group (toks : list (bool * str)) : list seg :=
  match toks with
  | [] => []
  | (false, w) :: rest => SWord w :: group rest
  | (true, i) :: rest =>
      match group rest with
      | SRun r :: ss => SRun (i :: r) :: ss
      | ss => SRun [i] :: ss
      end
  end.
