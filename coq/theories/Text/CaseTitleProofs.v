(* title_go (x/text's algorithm on ASCII) agrees with CaseConv.title
   (upper-case the first rune) on the words of the C19 theorems and on every
   "safe" word, so all theorems stated with `title` describe the library. *)
From Coq Require Import String.
From Coq Require Import List NArith Bool Lia ZifyBool.
From Dials Require Import Base.Outcome Base.Runes Text.CaseConv Text.GoCamelSpec Text.CaseConvProofs Text.CaseTitle.
Import ListNotations.
Open Scope list_scope.
Open Scope N_scope.

Definition let_or_dig (c : rune) : bool := is_letter c || is_digit c.

Lemma title_loop_lod t : Forall (fun x => let_or_dig x = true) t -> title_loop true t = t.
Proof.
  induction 1 as [|x t Hx Ht IH]; [reflexivity|]. cbn [title_loop].
  assert (Hm : t_mid x = false).
  { unfold t_mid. unfold let_or_dig, is_letter, is_upper, is_lower, is_digit in Hx. lia. }
  rewrite Hm. cbn [andb negb]. rewrite andb_false_r.
  assert (Hmw : (if is_letter x then true else if t_break x then false else true) = true).
  { destruct (is_letter x) eqn:El; [reflexivity|]. unfold t_break. rewrite El.
    unfold let_or_dig in Hx. rewrite El in Hx. cbn [orb] in Hx. rewrite Hx.
    cbn [negb andb]. rewrite andb_false_r. reflexivity. }
  rewrite Hmw. assert (E : match t with [] => true | _ :: _ => true end = true) by (destruct t; reflexivity).
  rewrite E, IH. reflexivity.
Qed.

(* safe words: empty, or a letter followed by letters and digits *)
Definition title_safe (w : str) : bool :=
  match w with [] => true | c :: r => is_letter c && forallb let_or_dig r end.

Theorem title_go_safe w : title_safe w = true -> title_go w = title w.
Proof.
  destruct w as [|c t]; [reflexivity|]. cbn [title_safe title]. intros H.
  apply andb_true_iff in H as [Hl Ht]. rewrite forallb_forall in Ht.
  unfold title_go. cbn [title_loop]. rewrite Hl. cbn [andb negb].
  assert (Hm : t_mid c = false) by (unfold t_mid; unfold is_letter, is_upper, is_lower in Hl; lia).
  rewrite Hm. cbn [andb].
  assert (E : match t with [] => true | _ :: _ => true end = true) by (destruct t; reflexivity).
  rewrite E, title_loop_lod; [reflexivity|]. apply Forall_forall. exact Ht.
Qed.

Lemma lword_safe w : lword w -> title_safe w = true.
Proof.
  destruct w as [|c t]; simpl; [tauto|]. intros [Hc Ht].
  apply andb_true_iff. split; [unfold is_letter; rewrite Hc; apply orb_true_r|].
  apply forallb_forall. rewrite Forall_forall in Ht. intros x Hx. specialize (Ht x Hx).
  unfold let_or_dig, is_letter. unfold low_or_dig in Ht. destruct (is_lower x); [rewrite orb_true_r; reflexivity|].
  cbn [orb] in Ht. rewrite Ht. apply orb_true_r.
Qed.

Theorem title_go_lword w : lword w -> title_go w = title w.
Proof. intros H. apply title_go_safe, lword_safe, H. Qed.

Lemma map_title_go ws : Forall (fun w => title_safe w = true) ws -> map title_go ws = map title ws.
Proof. induction 1 as [|w ws Hw _ IH]; cbn [map]; [reflexivity|]. rewrite title_go_safe, IH by exact Hw. reflexivity. Qed.

(* the camel encoders built on title_go are the encoders of CaseConv.v on safe word lists,
   in particular on the word lists of the six C19 round-trip theorems *)
Theorem encode_camel_go_safe ws : Forall (fun w => title_safe w = true) ws ->
  encode_upper_camel_go ws = encode_upper_camel ws /\ encode_lower_camel_go ws = encode_lower_camel ws.
Proof.
  intros H. unfold encode_upper_camel_go, encode_upper_camel, encode_lower_camel_go, encode_lower_camel.
  split; [rewrite map_title_go by exact H; reflexivity|].
  destruct ws as [|w r]; [reflexivity|]. inversion H; subst. rewrite map_title_go by assumption. reflexivity.
Qed.

Corollary encode_camel_go_lwords ws : Forall lword ws ->
  encode_upper_camel_go ws = encode_upper_camel ws /\ encode_lower_camel_go ws = encode_lower_camel ws.
Proof. intros H. apply encode_camel_go_safe. eapply Forall_impl; [|exact H]. intros w. apply lword_safe. Qed.

(* where the two differ: after digits, at inner word boundaries, around mid-word punctuation *)
Example title_go_examples :
  title_go (s2r "9ab") = s2r "9Ab" /\ title (s2r "9ab") = s2r "9ab" /\
  title_go (s2r "a-b") = s2r "A-B" /\ title_go (s2r "a.b") = s2r "A.b" /\ title_go (s2r "a..b") = s2r "A..B" /\
  title_go (s2r "a_b") = s2r "A_b" /\ title_go (s2r "a b") = s2r "A B" /\ title_go (s2r "9.a") = s2r "9.A" /\
  title_go (s2r "a.:b") = s2r "A.:B" /\ title_go (s2r "aBC") = s2r "ABC" /\ title_go [] = [].
Proof. repeat split; vm_compute; reflexivity. Qed.
