(* Consequences of the six round-trip laws: no two distinct word lists share a
   name in any of the six cases (so two configuration leaves whose word lists
   differ can never collide on an environment variable / flag / file key), and
   re-casing a name from case A to case B loses nothing. *)
From Coq Require Import List NArith.
From Dials Require Import Base.Outcome Base.Runes Text.CaseConv Text.CaseConvProofs.
Import ListNotations.

Section Inj.
  Variable enc : words -> str.
  Variable dec : str -> outcome words.
  Hypothesis rt : forall ws, Forall lword ws -> ws <> [] -> dec (enc ws) = Ok ws.

  Lemma enc_injective : forall ws1 ws2,
    Forall lword ws1 -> ws1 <> [] -> Forall lword ws2 -> ws2 <> [] ->
    enc ws1 = enc ws2 -> ws1 = ws2.
  Proof.
    intros ws1 ws2 H1 N1 H2 N2 E.
    pose proof (rt ws1 H1 N1) as R1. pose proof (rt ws2 H2 N2) as R2.
    rewrite E in R1. rewrite R1 in R2. inversion R2. reflexivity.
  Qed.

  (* re-casing: a name in case (enc, dec) decoded and re-encoded with enc', read
     back with dec', gives the words of the original name *)
  Variable enc' : words -> str.
  Variable dec' : str -> outcome words.
  Hypothesis rt' : forall ws, Forall lword ws -> ws <> [] -> dec' (enc' ws) = Ok ws.

  Lemma recase_lossless : forall ws, Forall lword ws -> ws <> [] ->
    match dec (enc ws) with Ok ws' => dec' (enc' ws') | Err e => Err e | Panic p => Panic p end = Ok ws.
  Proof. intros ws H N. rewrite (rt ws H N). apply rt'; assumption. Qed.
End Inj.

Definition six_encoders : list (words -> str) :=
  [encode_upper_camel; encode_lower_camel; encode_lower_snake; encode_upper_snake; encode_kebab; encode_cp_snake].

Lemma six_encoders_injective_l : forall enc, In enc six_encoders ->
  forall ws1 ws2, Forall lword ws1 -> ws1 <> [] -> Forall lword ws2 -> ws2 <> [] ->
  enc ws1 = enc ws2 -> ws1 = ws2.
Proof.
  intros enc Hin. unfold six_encoders in Hin. cbn [In] in Hin.
  destruct Hin as [<-|[<-|[<-|[<-|[<-|[<-|[]]]]]]].
  - exact (enc_injective _ _ decode_encode_upper_camel_l).
  - exact (enc_injective _ _ decode_encode_lower_camel_l).
  - exact (enc_injective _ _ decode_encode_lower_snake_l).
  - exact (enc_injective _ _ decode_encode_upper_snake_l).
  - exact (enc_injective _ _ decode_encode_kebab_l).
  - exact (enc_injective _ _ decode_encode_cp_snake_l).
Qed.
