(* Faithful ASCII model of cases.Title(language.English, cases.NoLower).String(w)
   as x/text implements it (cases/map.go, titleCaser.Transform), and the two
   camel encoders built on it.  Text/CaseConv.v's `title` (upper-case the first
   rune) is kept for everybody's theorems; the two agree on the words those
   theorems quantify over (CaseTitleProofs.v: title_go_lword) and on every
   word whose runes after the first are letters or digits and whose first rune
   is a letter (title_go_safe).  Definitions only.

   x/text classifies runes by its own trie; on ASCII (established by probing
   all 128 code points against the library, re-validated on every run by the
   correspondence check): a rune is *cased* (the letters), *mid* (MidLetter /
   MidNumLet: ' . :), neither (digits, '_'), or *break* (every other ASCII
   rune).  State isMidWord: the next cased rune is title-cased iff it is
   false; a cased rune sets it; a break rune clears it; two mid runes in a row
   clear it.  With NoLower the other runes are copied.  English has no rewrite
   rule; the title mapping of an ASCII letter is its upper case.  Runes >= 128
   are outside the model (treated as uncased and non-break). *)
From Coq Require Import List NArith Bool.
From Dials Require Import Base.Outcome Base.Runes Text.CaseConv.
Import ListNotations.
Open Scope N_scope.

Definition t_mid (c : rune) : bool := (c =? 39) || (c =? 46) || (c =? 58).
Definition t_break (c : rune) : bool :=
  (c <? 128) && negb (is_letter c) && negb (is_digit c) && negb (c =? underscore) && negb (t_mid c).

Fixpoint title_loop (mid_word : bool) (s : str) : str :=
  match s with
  | [] => []
  | c :: r =>
      let out := if is_letter c && negb mid_word then to_upper c else c in
      let mw := if is_letter c then true else if t_break c then false else mid_word in
      let mw' := match r with n :: _ => if t_mid c && t_mid n then false else mw | [] => mw end in
      out :: title_loop mw' r
  end.
Definition title_go (w : str) : str := title_loop false w.

Definition encode_upper_camel_go (ws : words) : str := concat (map title_go ws).
Definition encode_lower_camel_go (ws : words) : str :=
  match ws with [] => [] | w :: r => w ++ concat (map title_go r) end.

(* the six encoders by number, camel ones through title_go *)
Definition encode_by_go (e : N) : words -> str :=
  match e with
  | 0 => encode_upper_camel_go | 1 => encode_lower_camel_go | 2 => encode_lower_snake
  | 3 => encode_upper_snake | 4 => encode_kebab | _ => encode_cp_snake
  end.
