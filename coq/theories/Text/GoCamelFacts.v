(* Finite facts about the initialism list regenerated from the Go source,
   non-vacuity examples and refutation witnesses for C19. *)
From Coq Require Import String.
From Coq Require Import List NArith Bool Lia.
From Dials Require Import Base.Outcome Base.Runes Text.CaseConv Text.GoCamelSpec.
Import ListNotations.
Open Scope string_scope.
Open Scope list_scope.
Open Scope N_scope.

(* every initialism of the current source is upper-case/digits, >= 2 runes *)
Definition wf_initialisms : bool := forallb wf_init initialisms.
Lemma wf_initialisms_ok : wf_initialisms = true.
Proof. vm_compute. reflexivity. Qed.

(* termination of extractInitialisms: the fuel is never exhausted *)
Lemma strip_prefix_len i s s' : strip_prefix i s = Some s' -> (length s' + length i = length s)%nat.
Proof.
  revert s s'; induction i as [|x i IH]; intros s s' H; cbn [strip_prefix] in H.
  - inversion H; subst. cbn. lia.
  - destruct s as [|y s]; [discriminate|]. destruct (x =? y); [|discriminate].
    apply IH in H. cbn [length]. lia.
Qed.

Lemma pass_len inits : Forall (fun i => i <> []) inits -> forall s ws f s' ws' f',
  extract_pass inits s ws f = (s', ws', f') ->
  (length s' <= length s)%nat /\ (f' = true -> f = true \/ (length s' < length s)%nat).
Proof.
  induction 1 as [|i inits Hi _ IH]; intros s ws f s' ws' f' H; cbn [extract_pass] in H.
  - inversion H; subst. split; [lia|auto].
  - destruct (strip_prefix i s) as [s1|] eqn:E.
    + apply strip_prefix_len in E. apply IH in H as [H1 H2].
      assert (length i <> 0)%nat by (destruct i; [congruence|cbn; lia]).
      split; [lia|]. intros _. right. lia.
    + apply IH in H. exact H.
Qed.

Lemma extract_loop_total inits : Forall (fun i => i <> []) inits -> forall fuel s ws,
  (length s < fuel)%nat -> extract_loop fuel inits s ws <> None.
Proof.
  intros Hne. induction fuel as [|fuel IH]; intros s ws Hl; [lia|]. cbn [extract_loop].
  destruct (extract_pass inits s ws false) as [[s' ws'] f'] eqn:E.
  destruct (pass_len inits Hne _ _ _ _ _ _ E) as [H1 H2].
  destruct f'; [|discriminate]. apply IH. destruct (H2 eq_refl) as [H|H]; [discriminate|lia].
Qed.

Lemma extract_total_with inits s : Forall (fun i => i <> []) inits -> extract_initialisms_with inits s <> None.
Proof.
  intros Hne. unfold extract_initialisms_with.
  pose proof (extract_loop_total inits Hne (S (length s)) s [] ltac:(lia)) as H.
  destruct (extract_loop (S (length s)) inits s []) as [[rest ws]|]; [discriminate|congruence].
Qed.

Lemma initialisms_nonempty : Forall (fun i => i <> []) initialisms.
Proof.
  pose proof wf_initialisms_ok as H. unfold wf_initialisms in H. rewrite forallb_forall in H.
  apply Forall_forall. intros i Hi. apply H in Hi. destruct i; [discriminate|congruence].
Qed.

Lemma extract_total s : extract_initialisms s <> None.
Proof. apply extract_total_with, initialisms_nonempty. Qed.

(* which single initialisms / adjacent pairs the pinned code mis-splits *)
Definition bad_singles : list str := filter (fun i => negb (run_class [i] false =? 0)) initialisms.
Definition bad_pairs : N :=
  N.of_nat (length (filter (fun p => negb (run_class [fst p; snd p] false =? 0)) (list_prod initialisms initialisms))).

Example bad_singles_are : bad_singles = map s2r ["HTTPS"; "UID"]%string.
Proof. vm_compute. reflexivity. Qed.

(* non-vacuity: names from the property text satisfy every hypothesis *)
Definition W (s : string) := SWord (s2r s).
Definition R (l : list string) := SRun (map s2r l).

Example guard_JSONFile : forallb wf_seg [R ["JSON"%string]; W "File"] && go_guard [R ["JSON"%string]; W "File"] = true.
Proof. vm_compute. reflexivity. Qed.
Example guard_UserID : forallb wf_seg [W "User"; R ["ID"%string]] && go_guard [W "User"; R ["ID"%string]] = true.
Proof. vm_compute. reflexivity. Qed.
Example guard_HTTPPort : forallb wf_seg [R ["HTTP"%string]; W "Port"] && go_guard [R ["HTTP"%string]; W "Port"] = true.
Proof. vm_compute. reflexivity. Qed.
Example guard_long :
  let n := [W "Max"; W "Conns"; R ["XML"; "JSON"; "API"]; W "Docs"; W "Sha256"; W "Sum"; R ["UTF8"]] in
  forallb wf_seg n && go_guard n = true.
Proof. vm_compute. reflexivity. Qed.

(* the guard is not vacuous: outside it the pinned code really fails *)
Definition refutes (n : list seg) : bool :=
  forallb wf_seg n &&
  negb (match decode_go_camel (render n) with Ok ws => strs_eqb ws (expected n) | _ => false end).

Example go_camel_refuted_class1 : refutes [W "User"; R ["UID"]] = true.       (* user ui d *)
Proof. vm_compute. reflexivity. Qed.
Example go_camel_refuted_class2 : refutes [W "Sha256"; R ["URL"]] = true.     (* l *)
Proof. vm_compute. reflexivity. Qed.
Example go_camel_refuted_class3 : refutes [R ["JSON"%string]; W "Is"] = true.        (* jsonis *)
Proof. vm_compute. reflexivity. Qed.
Example go_camel_refuted_class4 : refutes [R ["JSON"; "UTF8"]] = true.        (* jsonutf8 *)
Proof. vm_compute. reflexivity. Qed.

(* class 6: list-order matching goes wrong (UI before UID) on a run whose concatenation is, in addition,
   ambiguous for greedy longest-first matching (HTTP+SSH also reads HTTPS+SH): html ui dxsrfhttpssh *)
Example go_camel_refuted_class6 :
  refutes [R ["HTML"; "UID"; "XSRF"; "HTTP"; "SSH"]] = true /\
  guard_class None [R ["HTML"; "UID"; "XSRF"; "HTTP"; "SSH"]] = 6%N.
Proof. split; vm_compute; reflexivity. Qed.
