(* parseNumber for the float kinds (parse/number.go:81-106), parametrised by
   strconv and reflect: IEEE arithmetic is not modelled.  Definitions only. *)
From Coq Require Import List NArith.
From Dials Require Import Base.Outcome Base.Runes Text.ParseInt.
Import ListNotations.
Open Scope N_scope.

Section Float.
  Variables F64 F32 : Type.
  Variable parse_float : N -> str -> outcome F64.   (* strconv.ParseFloat(s, bitSize) *)
  Variable overflow32 : F64 -> bool.               (* reflect OverflowFloat for a float32: finite and |x| > MaxFloat32 *)
  Variable to32 : F64 -> F32.                      (* the conversion float32(x) *)

  (* reflect.Value.OverflowFloat on a float64 is constantly false *)
  Definition parse_number_f64 (s : str) : outcome F64 :=
    c <- parse_float 64 s ;; if false then Err e_overflow else Ok c.

  Definition parse_number_f32 (s : str) : outcome F32 :=
    c <- parse_float 32 s ;; if overflow32 c then Err e_overflow else Ok (to32 c).
End Float.
