(* UTF-8 front end of the rune-level models: a Go string is a byte list; the
   models work on what `for _, r := range s` / utf8.DecodeRuneInString see.
   utf8_decode mirrors utf8.DecodeRune (unicode/utf8/utf8.go: first-byte table,
   accept ranges - no overlong forms, no surrogates, nothing above U+10FFFF):
   a byte that does not start a valid sequence is consumed alone.  Such a byte b
   is presented as the pseudo rune raw_byte_base + b (Text/Quote.v), because Go
   code tells it apart from a literal U+FFFD by its width 1 (text/scanner:
   "invalid UTF-8 encoding"; strconv.Quote: \xNN); range_view replaces it by
   U+FFFD for code that only looks at the rune (range loops, strings.ToLower).
   Definitions only; facts in Utf8Proofs.v. *)
From Coq Require Import List NArith Bool.
From Dials Require Import Base.Outcome Base.Runes Text.ParseInt Text.Quote.
Import ListNotations.
Open Scope N_scope.

Definition cont (b : N) : bool := (128 <=? b) && (b <=? 191).

(* accept range of the second byte for a 3- or 4-byte lead *)
Definition second_ok (b0 b1 : N) : bool :=
  if b0 =? 224 then (160 <=? b1) && (b1 <=? 191)
  else if b0 =? 237 then (128 <=? b1) && (b1 <=? 159)
  else if b0 =? 240 then (144 <=? b1) && (b1 <=? 191)
  else if b0 =? 244 then (128 <=? b1) && (b1 <=? 143)
  else cont b1.

Fixpoint utf8_decode (bs : list N) : str :=
  match bs with
  | [] => []
  | b0 :: r0 =>
      if b0 <? 128 then b0 :: utf8_decode r0
      else
        let bad := (raw_byte_base + b0) :: utf8_decode r0 in
        match r0 with
        | [] => bad
        | b1 :: r1 =>
            if (194 <=? b0) && (b0 <=? 223) then
              if cont b1 then ((b0 - 192) * 64 + (b1 - 128)) :: utf8_decode r1 else bad
            else if (224 <=? b0) && (b0 <=? 239) then
              match r1 with
              | b2 :: r2 =>
                  if second_ok b0 b1 && cont b2
                  then ((b0 - 224) * 4096 + (b1 - 128) * 64 + (b2 - 128)) :: utf8_decode r2 else bad
              | [] => bad
              end
            else if (240 <=? b0) && (b0 <=? 244) then
              match r1 with
              | b2 :: b3 :: r3 =>
                  if second_ok b0 b1 && cont b2 && cont b3
                  then ((b0 - 240) * 262144 + (b1 - 128) * 4096 + (b2 - 128) * 64 + (b3 - 128)) :: utf8_decode r3
                  else bad
              | _ => bad
              end
            else bad
        end
  end.

(* what a range loop sees *)
Definition range_view (s : str) : str := map (fun r => if is_raw r then 65533 else r) s.

(* utf8.AppendRune for valid runes; a raw byte is itself *)
Definition utf8_encode_rune (r : rune) : list N :=
  if r <? 128 then [r]
  else if r <? 2048 then [192 + r / 64; 128 + r mod 64]
  else if r <? 65536 then [224 + r / 4096; 128 + r / 64 mod 64; 128 + r mod 64]
  else if r <? raw_byte_base then [240 + r / 262144; 128 + r / 4096 mod 64; 128 + r / 64 mod 64; 128 + r mod 64]
  else [r - raw_byte_base].
Definition utf8_encode (s : str) : list N := flat_map utf8_encode_rune s.
