(* Proofs about Text/Quote.v: strconv.Unquote inverts strconv.Quote on every
   string of valid runes, for every IsPrint table that agrees with Go's on
   ASCII. *)
From Coq Require Import String.
From Coq Require Import List NArith ZArith Bool Lia ZifyBool.
From Dials Require Import Base.Outcome Base.Runes Text.ParseInt Text.Quote.
Import ListNotations.
Open Scope list_scope.
Open Scope N_scope.
Ltac Zify.zify_post_hook ::= Z.to_euclidean_division_equations.

Lemma unhex_hexdig n : n < 16 -> unhex (hexdig n) = Some n.
Proof.
  intros H. unfold unhex, hexdig. destruct (n <? 10) eqn:E.
  - assert (E1 : (48 <=? 48 + n) && (48 + n <=? 57) = true) by lia. rewrite E1. f_equal. lia.
  - assert (E1 : (48 <=? 87 + n) && (87 + n <=? 57) = false) by lia.
    assert (E2 : (97 <=? 87 + n) && (87 + n <=? 102) = true) by lia. rewrite E1, E2. f_equal. lia.
Qed.

Lemma hexdig_range n : n < 16 -> 48 <= hexdig n <= 102.
Proof. unfold hexdig. destruct (n <? 10) eqn:E; lia. Qed.

(* one-step equations of the unquote loop, all by computation *)
Lemma unq_plain c tl acc : (c =? dquote) = false -> (c =? 10) = false -> (c =? bslash) = false ->
  is_raw c = false -> unq_loop (c :: tl) acc = unq_loop tl (acc ++ [c]).
Proof. intros H1 H2 H3 H4. cbn [unq_loop]. rewrite H1, H2, H3, H4. reflexivity. Qed.

Lemma unq_x a b tl acc : unq_loop (bslash :: 120 :: a :: b :: tl) acc =
  match unhex_list [a; b] 0 with Some v => unq_loop tl (acc ++ [as_byte v]) | None => Err e_unquote end.
Proof. reflexivity. Qed.

Lemma unq_u a b c d tl acc : unq_loop (bslash :: 117 :: a :: b :: c :: d :: tl) acc =
  match unhex_list [a; b; c; d] 0 with
  | Some v => if valid_rune v then unq_loop tl (acc ++ [v]) else Err e_unquote
  | None => Err e_unquote end.
Proof. reflexivity. Qed.

Lemma unq_U a b c d a2 b2 c2 d2 tl acc :
  unq_loop (bslash :: 85 :: a :: b :: c :: d :: a2 :: b2 :: c2 :: d2 :: tl) acc =
  match unhex_list [a; b; c; d; a2; b2; c2; d2] 0 with
  | Some v => if valid_rune v then unq_loop tl (acc ++ [v]) else Err e_unquote
  | None => Err e_unquote end.
Proof. reflexivity. Qed.

Lemma unhex_list_hexdigs l : Forall (fun n => n < 16) l -> forall acc,
  unhex_list (map hexdig l) acc = Some (fold_left (fun a n => a * 16 + n) l acc).
Proof.
  induction 1 as [|n l Hn _ IH]; intros acc; cbn [map unhex_list fold_left]; [reflexivity|].
  rewrite unhex_hexdig by exact Hn. apply IH.
Qed.

Lemma nib_lt r k : r / k mod 16 < 16.
Proof. apply N.mod_lt. lia. Qed.

Lemma hex2_val r : r < 256 -> unhex_list (hex2 r) 0 = Some r.
Proof.
  intros H. change (hex2 r) with (map hexdig [r / 16 mod 16; r mod 16]).
  rewrite unhex_list_hexdigs by (repeat constructor; apply N.mod_lt; lia).
  cbn [fold_left]. f_equal. lia.
Qed.

Lemma hex4_val r : r < 65536 -> unhex_list (hex4 r) 0 = Some r.
Proof.
  intros H. change (hex4 r) with (map hexdig [r / 4096 mod 16; r / 256 mod 16; r / 16 mod 16; r mod 16]).
  rewrite unhex_list_hexdigs by (repeat constructor; apply N.mod_lt; lia).
  cbn [fold_left]. f_equal. lia.
Qed.

Lemma hex8_val r : r <= max_rune -> unhex_list (hex8 r) 0 = Some r.
Proof.
  intros H. unfold max_rune in H.
  change (hex8 r) with (map hexdig [r / 268435456 mod 16; r / 16777216 mod 16; r / 1048576 mod 16;
                                     r / 65536 mod 16; r / 4096 mod 16; r / 256 mod 16; r / 16 mod 16; r mod 16]).
  rewrite unhex_list_hexdigs by (repeat constructor; apply N.mod_lt; lia).
  cbn [fold_left]. f_equal.
  assert (E1 : r / 268435456 = 0) by (apply N.div_small; lia).
  assert (E2 : r / 16777216 = 0) by (apply N.div_small; lia).
  rewrite E1, E2. change (0 mod 16) with 0. cbn [N.mul N.add].
  assert (Hq : r / 65536 < 17) by (apply N.div_lt_upper_bound; lia).
  assert (E3 : r / 1048576 = r / 65536 / 16) by (rewrite N.div_div by lia; reflexivity).
  assert (E4 : r / 4096 = (r mod 65536) / 4096 + 16 * (r / 65536)) by lia.
  assert (E5 : r / 256 = (r mod 65536) / 256 + 256 * (r / 65536)) by lia.
  assert (E6 : r / 16 = (r mod 65536) / 16 + 4096 * (r / 65536)) by lia.
  set (h := r / 65536) in *. set (l := r mod 65536) in *.
  assert (Hl : l < 65536) by (apply N.mod_lt; lia).
  assert (Hr : r = h * 65536 + l) by (subst h l; lia).
  rewrite E3, E4, E5, E6.
  replace ((l / 4096 + 16 * h) mod 16) with (l / 4096 mod 16) by lia.
  replace ((l / 256 + 256 * h) mod 16) with (l / 256 mod 16) by lia.
  replace ((l / 16 + 4096 * h) mod 16) with (l / 16 mod 16) by lia.
  replace (r mod 16) with (l mod 16) by lia.
  lia.
Qed.

(* the runes of a Go string: Unicode scalar values and raw (invalid) bytes *)
Definition go_rune (r : rune) : bool := valid_rune r || is_raw r.

Lemma valid_not_raw r : valid_rune r = true -> is_raw r = false.
Proof. unfold valid_rune, is_raw, max_rune, raw_byte_base. lia. Qed.

Section Quote.
  Variable isp : rune -> bool.
  Hypothesis isp_ascii : forall r, r < 128 -> isp r = ascii_print r.

  Lemma isp_not_special r : isp r = true -> r <> 10 /\ r <> 0.
  Proof.
    intros H. split; intros ->; rewrite isp_ascii in H by lia; discriminate.
  Qed.

  (* Unquote reads back one escaped rune *)
  Lemma unq_esc_rune r tl acc : go_rune r = true ->
    unq_loop (esc_rune isp r ++ tl) acc = unq_loop tl (acc ++ [r]).
  Proof.
    intros Hg. unfold esc_rune. destruct (is_raw r) eqn:Eraw.
    { unfold is_raw, raw_byte_base in Eraw. cbn [app].
      change (bslash :: 120 :: hex2 (r - raw_byte_base) ++ tl)
        with (bslash :: 120 :: hexdig ((r - raw_byte_base) / 16 mod 16) :: hexdig ((r - raw_byte_base) mod 16) :: tl).
      rewrite unq_x. change [hexdig ((r - raw_byte_base) / 16 mod 16); hexdig ((r - raw_byte_base) mod 16)] with (hex2 (r - raw_byte_base)).
      rewrite hex2_val by (unfold raw_byte_base; lia). unfold as_byte.
      assert (E : (r - raw_byte_base <? 128) = false) by (unfold raw_byte_base; lia). rewrite E.
      f_equal. f_equal. f_equal. unfold raw_byte_base. lia. }
    assert (Hv : valid_rune r = true) by (unfold go_rune in Hg; rewrite Eraw, orb_false_r in Hg; exact Hg).
    destruct ((r =? dquote) || (r =? bslash)) eqn:E1.
    { apply orb_true_iff in E1 as [E|E]; apply N.eqb_eq in E; subst r; reflexivity. }
    apply orb_false_iff in E1 as [E1a E1b].
    destruct (isp r) eqn:Ep.
    { destruct (isp_not_special r Ep) as [H10 _]. apply unq_plain; auto. apply N.eqb_neq. exact H10. }
    destruct (r =? 7) eqn:E7; [apply N.eqb_eq in E7; subst r; reflexivity|].
    destruct (r =? 8) eqn:E8; [apply N.eqb_eq in E8; subst r; reflexivity|].
    destruct (r =? 12) eqn:E12; [apply N.eqb_eq in E12; subst r; reflexivity|].
    destruct (r =? 10) eqn:E10; [apply N.eqb_eq in E10; subst r; reflexivity|].
    destruct (r =? 13) eqn:E13; [apply N.eqb_eq in E13; subst r; reflexivity|].
    destruct (r =? 9) eqn:E9; [apply N.eqb_eq in E9; subst r; reflexivity|].
    destruct (r =? 11) eqn:E11; [apply N.eqb_eq in E11; subst r; reflexivity|].
    destruct ((r <? 32) || (r =? 127)) eqn:Ex.
    { assert (Hr : r < 128) by lia. cbn [app].
      change (bslash :: 120 :: hex2 r ++ tl) with (bslash :: 120 :: hexdig (r / 16 mod 16) :: hexdig (r mod 16) :: tl).
      rewrite unq_x. change [hexdig (r / 16 mod 16); hexdig (r mod 16)] with (hex2 r).
      rewrite hex2_val by lia. unfold as_byte. assert (E : (r <? 128) = true) by lia. rewrite E. reflexivity. }
    rewrite Hv. destruct (r <? 65536) eqn:E16.
    - cbn [app].
      change (bslash :: 117 :: hex4 r ++ tl) with
        (bslash :: 117 :: hexdig (r / 4096 mod 16) :: hexdig (r / 256 mod 16) :: hexdig (r / 16 mod 16) :: hexdig (r mod 16) :: tl).
      rewrite unq_u.
      change [hexdig (r / 4096 mod 16); hexdig (r / 256 mod 16); hexdig (r / 16 mod 16); hexdig (r mod 16)] with (hex4 r).
      rewrite hex4_val by lia. rewrite Hv. reflexivity.
    - cbn [app].
      change (bslash :: 85 :: hex8 r ++ tl) with
        (bslash :: 85 :: hexdig (r / 268435456 mod 16) :: hexdig (r / 16777216 mod 16) :: hexdig (r / 1048576 mod 16)
           :: hexdig (r / 65536 mod 16) :: hexdig (r / 4096 mod 16) :: hexdig (r / 256 mod 16) :: hexdig (r / 16 mod 16)
           :: hexdig (r mod 16) :: tl).
      rewrite unq_U.
      change [hexdig (r / 268435456 mod 16); hexdig (r / 16777216 mod 16); hexdig (r / 1048576 mod 16);
              hexdig (r / 65536 mod 16); hexdig (r / 4096 mod 16); hexdig (r / 256 mod 16); hexdig (r / 16 mod 16);
              hexdig (r mod 16)] with (hex8 r).
      rewrite hex8_val by (unfold valid_rune in Hv; lia). rewrite Hv. reflexivity.
  Qed.

  Lemma unq_flat s : Forall (fun r => go_rune r = true) s -> forall rem acc,
    unq_loop (flat_map (esc_rune isp) s ++ dquote :: rem) acc = Ok (acc ++ s, rem).
  Proof.
    induction 1 as [|r s Hr _ IH]; intros rem acc; cbn [flat_map app].
    - rewrite app_nil_r. reflexivity.
    - rewrite <- app_assoc, unq_esc_rune by exact Hr. rewrite IH, <- app_assoc. reflexivity.
  Qed.

  Theorem quote_unquote_l s : Forall (fun r => go_rune r = true) s ->
    unquote (quote isp s) = Ok s.
  Proof.
    intros Hs. unfold quote, unquote.
    destruct (flat_map (esc_rune isp) s ++ [dquote]) as [|c body] eqn:E.
    { apply app_eq_nil in E as [_ E]. discriminate. }
    change (dquote =? dquote) with true. cbv iota. rewrite <- E.
    rewrite (unq_flat s Hs [] []). reflexivity.
  Qed.

  (* the quoted text contains no NUL and no newline *)
  Lemma esc_rune_clean r : Forall (fun c => c <> 0 /\ c <> 10 /\ is_raw c = false) (esc_rune isp r).
  Proof.
    assert (Hh : forall n, n < 16 -> hexdig n <> 0 /\ hexdig n <> 10 /\ is_raw (hexdig n) = false).
    { intros n Hn. pose proof (hexdig_range n Hn). unfold is_raw, raw_byte_base. lia. }
    assert (Hs : forall c, 0 < c < 128 -> c <> 10 -> c <> 0 /\ c <> 10 /\ is_raw c = false).
    { intros c Hc H10. unfold is_raw, raw_byte_base. lia. }
    unfold esc_rune. destruct (is_raw r) eqn:Eraw.
    { unfold hex2. repeat constructor; try (apply Hs; unfold bslash; lia); apply Hh, N.mod_lt; lia. }
    destruct ((r =? dquote) || (r =? bslash)) eqn:E1.
    { repeat constructor; apply Hs; unfold bslash, dquote in *; lia. }
    destruct (isp r) eqn:Ep.
    { destruct (isp_not_special r Ep). repeat constructor; auto. }
    repeat match goal with |- context [if ?b then _ else _] => destruct b end;
      unfold hex8, hex4, hex2; cbn [app]; repeat constructor;
      try (apply Hs; unfold bslash; lia); apply Hh, N.mod_lt; lia.
  Qed.
End Quote.

Example quote_example :
  quote (mk_print []) (s2r "a,b:""\"%string) = s2r """a,b:\""\\"""%string /\
  quote (mk_print []) [0; 10; 127; 233; 128512] = s2r """\x00\n\x7f\u00e9\U0001f600"""%string /\
  quote (mk_print [233; 128512]) [233; 128512] = [34; 233; 128512; 34].
Proof. repeat split; vm_compute; reflexivity. Qed.
