(* Proofs about Text/Split.v and Text/FlagHelpers.v: the splitters invert the
   flag helpers' String() forms (C15 round trips over the full scanner
   model), for every IsPrint table that agrees with Go's on ASCII. *)
From Coq Require Import String.
From Coq Require Import List NArith ZArith Bool Lia ZifyBool Permutation.
From Dials Require Import Base.Outcome Base.Runes Text.ParseInt Text.Quote Text.Split
  Text.FlagHelpers Text.QuoteProofs.
Import ListNotations.
Open Scope list_scope.
Open Scope N_scope.

(* every rune is a Unicode scalar value or a raw (invalid UTF-8) byte: true of every Go string
   seen through the UTF-8 front end (Utf8Proofs.decode_wf) *)
Definition str_valid (s : str) : Prop := Forall (fun r => go_rune r = true) s.

(* ------------------------------------------------------------------ *)
(* the string automaton on escaped runes *)

Definition pres (l : str) (o : option (str * str * N)) : option (str * str * N) :=
  match o with Some (t, rest, n) => Some (l ++ t, rest, n + 1) | None => None end.
Definition pre_list (l : str) (o : option (str * str * N)) : option (str * str * N) :=
  fold_right (fun c o => pre c false o) o l.

Lemma pre_list_pres a l o : pre a true (pre_list l o) = pres (a :: l) o.
Proof.
  assert (H : forall l, pre_list l o = match o with Some (t, rest, n) => Some (l ++ t, rest, n) | None => None end).
  { induction l0 as [|c l0 IH]; cbn [pre_list fold_right]; [destruct o as [[[? ?] ?]|]; reflexivity|].
    fold (pre_list l0 o). rewrite IH. destruct o as [[[? ?] ?]|]; reflexivity. }
  rewrite H. destruct o as [[[? ?] ?]|]; reflexivity.
Qed.

Lemma digit_val_hexdig n : n < 16 -> digit_val (hexdig n) = n.
Proof. intros H. unfold digit_val. rewrite unhex_hexdig by exact H. reflexivity. Qed.

Lemma scan_str_digits q tl : forall l k, length l = S k -> Forall (fun n => n < 16) l ->
  scan_str q (SDig 16 k) (map hexdig l ++ tl) = pre_list (map hexdig l) (scan_str q SNorm tl).
Proof.
  induction l as [|n l IH]; intros k Hl Hall; [discriminate|].
  inversion Hall; subst. cbn [map app scan_str pre_list fold_right].
  rewrite digit_val_hexdig by assumption.
  assert (E : (n <? 16) = true) by lia. rewrite E.
  destruct k as [|k'].
  - destruct l; [reflexivity|discriminate].
  - f_equal. apply IH; [cbn in Hl; lia|assumption].
Qed.

Lemma scan_str_plain q c tl : (c =? q) = false -> (c =? 10) = false -> (c =? bslash) = false ->
  scan_str q SNorm (c :: tl) = pres [c] (scan_str q SNorm tl).
Proof.
  intros H1 H2 H3. cbn [scan_str]. rewrite H1, H2, H3.
  destruct (scan_str q SNorm tl) as [[[? ?] ?]|]; reflexivity.
Qed.

Lemma scan_str_simple e tl : simple_escape e || (e =? dquote) = true ->
  scan_str dquote SNorm (bslash :: e :: tl) = pres [bslash; e] (scan_str dquote SNorm tl).
Proof.
  intros H. cbn [scan_str]. change (bslash =? dquote) with false. change (bslash =? 10) with false.
  change (bslash =? bslash) with true. cbv iota. rewrite H.
  destruct (scan_str dquote SNorm tl) as [[[? ?] ?]|]; reflexivity.
Qed.

Lemma scan_str_x tl : scan_str dquote SNorm (bslash :: 120 :: tl) =
  pre bslash true (pre 120 false (scan_str dquote (SDig 16 1) tl)).
Proof. reflexivity. Qed.
Lemma scan_str_u tl : scan_str dquote SNorm (bslash :: 117 :: tl) =
  pre bslash true (pre 117 false (scan_str dquote (SDig 16 3) tl)).
Proof. reflexivity. Qed.
Lemma scan_str_U tl : scan_str dquote SNorm (bslash :: 85 :: tl) =
  pre bslash true (pre 85 false (scan_str dquote (SDig 16 7) tl)).
Proof. reflexivity. Qed.

Section RT.
  Variable isp : rune -> bool.
  Hypothesis isp_ascii : forall r, r < 128 -> isp r = ascii_print r.

  Lemma scan_esc_rune r tl :
    scan_str dquote SNorm (esc_rune isp r ++ tl) = pres (esc_rune isp r) (scan_str dquote SNorm tl).
  Proof.
    unfold esc_rune. destruct (is_raw r).
    { cbn [app]. rewrite scan_str_x.
      change (hex2 (r - raw_byte_base)) with (map hexdig [(r - raw_byte_base) / 16 mod 16; (r - raw_byte_base) mod 16]).
      rewrite scan_str_digits by (try reflexivity; repeat constructor; apply N.mod_lt; lia).
      rewrite <- pre_list_pres. reflexivity. }
    destruct ((r =? dquote) || (r =? bslash)) eqn:E1.
    { apply scan_str_simple. unfold simple_escape. lia. }
    destruct (isp r) eqn:Ep.
    { destruct (isp_not_special isp isp_ascii r Ep) as [H10 _].
      apply scan_str_plain; unfold dquote, bslash in *; lia. }
    destruct (r =? 7) eqn:E7; [apply scan_str_simple; reflexivity|].
    destruct (r =? 8) eqn:E8; [apply scan_str_simple; reflexivity|].
    destruct (r =? 12) eqn:E12; [apply scan_str_simple; reflexivity|].
    destruct (r =? 10) eqn:E10; [apply scan_str_simple; reflexivity|].
    destruct (r =? 13) eqn:E13; [apply scan_str_simple; reflexivity|].
    destruct (r =? 9) eqn:E9; [apply scan_str_simple; reflexivity|].
    destruct (r =? 11) eqn:E11; [apply scan_str_simple; reflexivity|].
    destruct ((r <? 32) || (r =? 127)) eqn:Ex.
    { cbn [app]. rewrite scan_str_x.
      change (hex2 r) with (map hexdig [r / 16 mod 16; r mod 16]).
      rewrite scan_str_digits by (try reflexivity; repeat constructor; apply N.mod_lt; lia).
      rewrite <- pre_list_pres. reflexivity. }
    set (r' := if valid_rune r then r else 65533).
    destruct (r' <? 65536).
    - cbn [app]. rewrite scan_str_u.
      change (hex4 r') with (map hexdig [r' / 4096 mod 16; r' / 256 mod 16; r' / 16 mod 16; r' mod 16]).
      rewrite scan_str_digits by (try reflexivity; repeat constructor; apply N.mod_lt; lia).
      rewrite <- pre_list_pres. reflexivity.
    - cbn [app]. rewrite scan_str_U.
      change (hex8 r') with (map hexdig [r' / 268435456 mod 16; r' / 16777216 mod 16; r' / 1048576 mod 16;
                                          r' / 65536 mod 16; r' / 4096 mod 16; r' / 256 mod 16; r' / 16 mod 16; r' mod 16]).
      rewrite scan_str_digits by (try reflexivity; repeat constructor; apply N.mod_lt; lia).
      rewrite <- pre_list_pres. reflexivity.
  Qed.

  Lemma scan_str_flat s rest : exists n,
    scan_str dquote SNorm (flat_map (esc_rune isp) s ++ dquote :: rest)
    = Some (flat_map (esc_rune isp) s ++ [dquote], rest, n).
  Proof.
    induction s as [|r s [n IH]]; cbn [flat_map app].
    - exists 0. reflexivity.
    - rewrite <- app_assoc, scan_esc_rune, IH. cbn [pres]. rewrite <- app_assoc. eauto.
  Qed.

  Variable ci : bool.

  Lemma scan_dquote X : scan isp ci (dquote :: X) =
    match scan_str dquote SNorm X with
    | Some (t, rest, _) => STok (TString (dquote :: t)) rest
    | None => SErr
    end.
  Proof. reflexivity. Qed.

  Lemma scan_quoted s rest : scan isp ci (quote isp s ++ rest) = STok (TString (quote isp s)) rest.
  Proof.
    unfold quote. cbn [app]. rewrite <- app_assoc. cbn [app]. rewrite scan_dquote.
    destruct (scan_str_flat s rest) as [n ->]. reflexivity.
  Qed.

  Lemma scan_comma X : scan isp ci (comma :: X) = STok (TOther comma) X.
  Proof. reflexivity. Qed.
  Lemma scan_nil : scan isp ci [] = STok TEOF [].
  Proof. reflexivity. Qed.
End RT.

Lemma scan_colon isp X : scan isp false (58 :: X) = STok (TOther 58) X.
Proof. reflexivity. Qed.

(* ------------------------------------------------------------------ *)
(* generic facts *)

Fixpoint fold_out {A B} (add : A -> B -> outcome A) (a : A) (l : list B) : outcome A :=
  match l with [] => Ok a | x :: r => a' <- add a x ;; fold_out add a' r end.

Lemma fold_out_cons {A B} (add : A -> B -> outcome A) a x r :
  fold_out add a (x :: r) = (a' <- add a x ;; fold_out add a' r).
Proof. reflexivity. Qed.

Definition clean (s : str) : Prop := Forall (fun c => c <> 0 /\ is_raw c = false) s.

Lemma has_nul_clean s : clean s -> has_nul s || has_invalid s = false.
Proof.
  unfold has_nul, has_invalid. induction 1 as [|c s [Hc Hr] _ IH]; cbn [existsb]; [reflexivity|].
  apply orb_false_iff in IH as [IH1 IH2]. rewrite IH1, IH2, Hr. apply N.eqb_neq in Hc. rewrite Hc. reflexivity.
Qed.

Lemma join_clean l : Forall clean l -> clean (join_with comma l).
Proof.
  induction 1 as [|x l Hx Hl IH]; cbn [join_with]; [constructor|].
  destruct l as [|y l']; [exact Hx|].
  apply Forall_app. split; [exact Hx|]. constructor; [unfold comma, is_raw, raw_byte_base; lia|exact IH].
Qed.

Lemma join_cons2 sep (x y : str) r : join_with sep (x :: y :: r) = x ++ sep :: join_with sep (y :: r).
Proof. reflexivity. Qed.

Lemma join_map_cons2 {A} (f : A -> str) sep (x y : A) r :
  join_with sep (map f (x :: y :: r)) = f x ++ sep :: join_with sep (map f (y :: r)).
Proof. reflexivity. Qed.

Lemma mem_str_in x l : mem_str x l = true <-> In x l.
Proof.
  unfold mem_str. rewrite existsb_exists. split.
  - intros (y & Hy & E). apply str_eqb_eq in E. subst. exact Hy.
  - intros H. exists x. split; [exact H|apply str_eqb_refl].
Qed.
Lemma mem_str_notin x l : ~ In x l -> mem_str x l = false.
Proof. intros H. destruct (mem_str x l) eqn:E; [apply mem_str_in in E; contradiction|reflexivity]. Qed.

Lemma str_eqb_neq a b : a <> b -> str_eqb a b = false.
Proof. intros H. destruct (str_eqb a b) eqn:E; [apply str_eqb_eq in E; contradiction|reflexivity]. Qed.

(* insertion sort is a permutation *)
Lemma insert_by_perm {A} (key : A -> str) x l : Permutation (insert_by key x l) (x :: l).
Proof.
  induction l as [|y r IH]; cbn [insert_by]; [reflexivity|].
  destruct (str_leb (key x) (key y)); [reflexivity|].
  rewrite IH. apply perm_swap.
Qed.
Lemma isort_by_perm {A} (key : A -> str) l : Permutation (isort_by key l) l.
Proof.
  induction l as [|x r IH]; cbn [isort_by]; [reflexivity|].
  rewrite insert_by_perm. constructor. exact IH.
Qed.

Section Loops.
  Variable isp : rune -> bool.
  Hypothesis isp_ascii : forall r, r < 128 -> isp r = ascii_print r.

  Lemma quote_clean s : clean (quote isp s).
  Proof.
    unfold quote, clean. constructor; [unfold dquote, is_raw, raw_byte_base; lia|]. apply Forall_app. split.
    - induction s as [|r s IH]; cbn [flat_map]; [constructor|]. apply Forall_app. split; [|exact IH].
      eapply Forall_impl; [|apply (esc_rune_clean isp isp_ascii r)]. intros c (H1 & _ & H3). auto.
    - repeat constructor; unfold dquote, is_raw, raw_byte_base; lia.
  Qed.

  Lemma quote_length s : (2 <= length (quote isp s))%nat.
  Proof. unfold quote. cbn [length]. rewrite app_length. cbn [length]. lia. Qed.

  Lemma scan_quoted_nil ci s : scan isp ci (quote isp s) = STok (TString (quote isp s)) [].
  Proof. rewrite <- (app_nil_r (quote isp s)) at 1. apply (scan_quoted isp isp_ascii). Qed.

  (* ---------------- splitStringsSlice on rendered lists ---------------- *)
  Section Slice.
    Context {A : Type}.
    Variable add : A -> str -> outcome A.

    Lemma sss_item fuel x R a : str_valid x ->
      sss_loop isp add (S fuel) (quote isp x ++ R) true a = a' <- add a x ;; sss_loop isp add fuel R false a'.
    Proof.
      intros Hx. cbn [sss_loop]. rewrite (scan_quoted isp isp_ascii). cbn [token_text].
      rewrite (quote_unquote_l isp isp_ascii x Hx). reflexivity.
    Qed.

    Lemma sss_rendered : forall l a fuel, l <> [] -> Forall str_valid l ->
      (length (join_with comma (map (quote isp) l)) < fuel)%nat ->
      sss_loop isp add fuel (join_with comma (map (quote isp) l)) true a = fold_out add a l.
    Proof.
      induction l as [|x r IH]; intros a fuel Hne Hv Hf; [congruence|].
      inversion Hv as [|? ? Hx Hr]; subst. destruct r as [|y r'].
      - cbn [map join_with] in *. pose proof (quote_length x).
        destruct fuel as [|[|f]]; try lia.
        rewrite <- (app_nil_r (quote isp x)), sss_item by exact Hx.
        cbn [fold_out obind]. destruct (add a x); reflexivity.
      - cbn [map join_with] in *. rewrite app_length in Hf. cbn [length] in Hf. pose proof (quote_length x).
        destruct fuel as [|[|f]]; try lia.
        rewrite sss_item by exact Hx. cbn [fold_out obind]. destruct (add a x); try reflexivity.
        cbn [sss_loop]. rewrite scan_comma. change (comma =? 44) with true. cbv iota.
        apply IH; [discriminate|exact Hr|cbn [map]; lia].
    Qed.
  End Slice.

  Lemma rendered_head l : l <> [] -> exists tl, join_with comma (map (quote isp) l) = dquote :: tl.
  Proof.
    destruct l as [|x [|y r]]; intros H; [congruence| |]; cbn [map join_with]; unfold quote; cbn [app]; eauto.
  Qed.

  Lemma split_strings_slice_dq {A} (add : A -> str -> outcome A) s tl a : s = dquote :: tl -> clean s ->
    split_strings_slice isp add s a = sss_loop isp add (S (length s)) s true a.
  Proof.
    intros -> Hc. unfold split_strings_slice. rewrite has_nul_clean by exact Hc. reflexivity.
  Qed.

  Lemma split_strings_slice_rendered {A} (add : A -> str -> outcome A) l a : Forall str_valid l ->
    split_strings_slice isp add (join_with comma (map (quote isp) l)) a = fold_out add a l.
  Proof.
    intros Hv. destruct l as [|x r]; [reflexivity|].
    destruct (rendered_head (x :: r) ltac:(discriminate)) as [tl E].
    rewrite (split_strings_slice_dq add _ tl a E)
      by (apply join_clean, Forall_map, Forall_forall; intros; apply quote_clean).
    apply sss_rendered; [discriminate|exact Hv|lia].
  Qed.

  (* StringSlice (StringSliceFlag.String v) = v *)
  Theorem slice_roundtrip_l l : Forall str_valid l -> string_slice isp (slice_string isp l) = Ok l.
  Proof.
    intros Hv. unfold string_slice, slice_string. rewrite split_strings_slice_rendered by exact Hv.
    assert (H : forall (l acc : list str), fold_out (fun acc v => Ok (acc ++ [v])) acc l = Ok (acc ++ l)).
    { clear. induction l as [|x r IH]; intros acc; cbn [fold_out obind]; [rewrite app_nil_r; reflexivity|].
      rewrite IH, <- app_assoc. reflexivity. }
    apply (H l []).
  Qed.

  Lemma fold_set l : forall acc, NoDup (acc ++ l) ->
    fold_out (fun acc v => if mem_str v acc then Err e_dup else Ok (acc ++ [v])) acc l = Ok (acc ++ l).
  Proof.
    induction l as [|x r IH]; intros acc Hn; cbn [fold_out obind]; [rewrite app_nil_r; reflexivity|].
    rewrite mem_str_notin.
    - cbn [obind]. rewrite IH; rewrite <- app_assoc; [reflexivity|exact Hn].
    - apply NoDup_remove_2 in Hn. intros Hin. apply Hn. apply in_or_app. left. exact Hin.
  Qed.

  (* StringSet (StringSetFlag.String v) = v, as sets *)
  Theorem set_roundtrip_l l : NoDup l -> Forall str_valid l ->
    exists l', string_set isp (set_string isp l) = Ok l' /\ Permutation l' l.
  Proof.
    intros Hn Hv. exists (isort_by (fun x => x) l). split; [|apply isort_by_perm].
    unfold string_set, set_string, slice_string.
    pose proof (isort_by_perm (fun x => x) l) as Hp.
    rewrite split_strings_slice_rendered by (eapply Permutation_Forall; [symmetry; exact Hp|exact Hv]).
    apply (fold_set _ []). cbn [app]. eapply Permutation_NoDup; [symmetry; exact Hp|exact Hn].
  Qed.

  (* ---------------- splitMap on rendered pair lists ---------------- *)
  Section MapLoop.
    Variable fixed : bool.
    Context {A : Type}.
    Variable add : A -> str -> str -> outcome A.

    Definition key_ok (k : str) : Prop := fixed = true \/ k <> [].

    Lemma key_present_ok iv k v : key_ok k -> key_present fixed (MS false iv true k v) = true.
    Proof.
      intros [-> | Hk]; unfold key_present; cbn; [reflexivity|].
      destruct fixed; [reflexivity|]. destruct k; [congruence|reflexivity].
    Qed.
    Lemma key_present_ok' ik iv k v : key_ok k -> key_present fixed (MS ik iv true k v) = true.
    Proof.
      intros [-> | Hk]; unfold key_present; cbn; [reflexivity|].
      destruct fixed; [reflexivity|]. destruct k; [congruence|reflexivity].
    Qed.

    Lemma sm_pair fuel k v R a : str_valid k -> str_valid v -> key_ok k ->
      sm_loop isp fixed add (S (S (S fuel))) (quote isp k ++ 58 :: quote isp v ++ R) (ms0) a
      = sm_loop isp fixed add fuel R (MS false true true k v) a.
    Proof.
      intros Hk Hv Hok.
      (* key *)
      cbn [sm_loop]. rewrite (scan_quoted isp isp_ascii). cbn [token_text].
      rewrite (quote_unquote_l isp isp_ascii k Hk). cbn [ms0 in_key].
      (* colon *)
      cbn [sm_loop]. rewrite scan_colon. change (58 =? 44) with false. change (58 =? 58) with true. cbv iota.
      cbn [in_val]. rewrite key_present_ok' by exact Hok. cbn [negb orb].
      (* value *)
      cbn [sm_loop]. rewrite (scan_quoted isp isp_ascii). cbn [token_text].
      rewrite (quote_unquote_l isp isp_ascii v Hv). cbn [in_key in_val have_key cur_key cur_val].
      rewrite key_present_ok by exact Hok. cbn [andb]. reflexivity.
    Qed.

    Lemma sm_rendered : forall kvl a fuel, kvl <> [] ->
      Forall (fun kv => str_valid (fst kv) /\ str_valid (snd kv) /\ key_ok (fst kv)) kvl ->
      (length (join_with comma (map (kv_string isp) kvl)) < fuel)%nat ->
      sm_loop isp fixed add fuel (join_with comma (map (kv_string isp) kvl)) ms0 a
      = fold_out (fun a kv => add a (fst kv) (snd kv)) a kvl.
    Proof.
      induction kvl as [|[k v] r IH]; intros a fuel Hne Hv Hf; [congruence|].
      inversion Hv as [|? ? (Hk & Hvv & Hok) Hr]; subst. cbn [fst snd] in *.
      pose proof (quote_length k). pose proof (quote_length v).
      destruct r as [|y r'].
      - cbn [map join_with] in *. unfold kv_string in *. cbn [fst snd] in *.
        rewrite app_length in Hf. cbn [length] in Hf.
        destruct fuel as [|[|[|[|f]]]]; try lia.
        rewrite <- (app_nil_r (quote isp v)), sm_pair by assumption.
        cbn [sm_loop]. rewrite scan_nil. unfold flush_kv. rewrite key_present_ok by exact Hok.
        cbn [cur_key cur_val fold_out obind fst snd]. destruct (add a k v); reflexivity.
      - rewrite join_map_cons2 in *. unfold kv_string at 1. unfold kv_string at 1 in Hf. cbn [fst snd] in *.
        rewrite ?app_length in Hf; cbn [length] in Hf; rewrite ?app_length in Hf.
        destruct fuel as [|[|[|[|f]]]]; try lia.
        rewrite <- app_assoc. cbn [app]. rewrite sm_pair by assumption.
        cbn [sm_loop]. rewrite scan_comma. change (comma =? 44) with true. cbv iota.
        unfold flush_kv. rewrite key_present_ok by exact Hok.
        rewrite fold_out_cons. cbn [cur_key cur_val fst snd]. destruct (add a k v); cbn [obind]; try reflexivity.
        apply IH; [discriminate|exact Hr|lia].
    Qed.

    Lemma kv_rendered_head kvl : kvl <> [] ->
      exists tl, join_with comma (map (kv_string isp) kvl) = dquote :: tl.
    Proof.
      destruct kvl as [|x [|y r]]; intros H; [congruence| |]; cbn [map join_with]; unfold kv_string, quote; cbn [app]; eauto.
    Qed.

    Lemma kv_clean kv : clean (kv_string isp kv).
    Proof.
      unfold kv_string. apply Forall_app. split; [apply quote_clean|].
      constructor; [unfold is_raw, raw_byte_base; lia|apply quote_clean].
    Qed.

    Lemma split_map_dq s tl a : s = dquote :: tl -> clean s ->
      split_map isp fixed add s a = sm_loop isp fixed add (S (length s)) s ms0 a.
    Proof.
      intros -> Hc. unfold split_map. rewrite has_nul_clean by exact Hc. reflexivity.
    Qed.

    Lemma split_map_rendered kvl a :
      Forall (fun kv => str_valid (fst kv) /\ str_valid (snd kv) /\ key_ok (fst kv)) kvl ->
      split_map isp fixed add (join_with comma (map (kv_string isp) kvl)) a
      = fold_out (fun a kv => add a (fst kv) (snd kv)) a kvl.
    Proof.
      intros Hv. destruct kvl as [|x r]; [destruct fixed; reflexivity|].
      destruct (kv_rendered_head (x :: r) ltac:(discriminate)) as [tl E].
      rewrite (split_map_dq _ tl a E)
        by (apply join_clean, Forall_map, Forall_forall; intros; apply kv_clean).
      apply sm_rendered; [discriminate|exact Hv|lia].
    Qed.
  End MapLoop.
End Loops.

(* ------------------------------------------------------------------ *)
(* maps *)

Lemma fold_out_app {A B} (add : A -> B -> outcome A) l1 : forall a l2,
  fold_out add a (l1 ++ l2) = (a' <- fold_out add a l1 ;; fold_out add a' l2).
Proof.
  induction l1 as [|x r IH]; intros a l2; cbn [app fold_out]; [reflexivity|].
  destruct (add a x); cbn [obind]; [apply IH|reflexivity|reflexivity].
Qed.

Definition pair_valid (kv : str * str) : Prop := str_valid (fst kv) /\ str_valid (snd kv).
Definition entry_valid (kv : str * list str) : Prop := str_valid (fst kv) /\ Forall str_valid (snd kv).

Definition add_ss (m : list (str * str)) (k v : str) : outcome (list (str * str)) :=
  if mem_str k (map fst m) then Err e_dup else Ok (m ++ [(k, v)]).

Lemma fold_ss kvl : forall acc, NoDup (map fst (acc ++ kvl)) ->
  fold_out (fun a kv => add_ss a (fst kv) (snd kv)) acc kvl = Ok (acc ++ kvl).
Proof.
  induction kvl as [|[k v] r IH]; intros acc Hn; cbn [fold_out]; [rewrite app_nil_r; reflexivity|].
  unfold add_ss at 1. cbn [fst snd]. rewrite mem_str_notin.
  - cbn [obind]. rewrite IH; rewrite <- app_assoc; [reflexivity|exact Hn].
  - rewrite map_app in Hn. cbn [map fst] in Hn. apply NoDup_remove_2 in Hn.
    intros Hin. apply Hn. apply in_or_app. left. exact Hin.
Qed.

Definition flatten (m : list (str * list str)) : list (str * str) :=
  flat_map (fun kv => map (pair (fst kv)) (snd kv)) m.

Definition join_trail (l : list str) : str := flat_map (fun e => e ++ [comma]) l.

Lemma join_app_trail l1 : forall l2, l2 <> [] ->
  join_with comma (l1 ++ l2) = join_trail l1 ++ join_with comma l2.
Proof.
  induction l1 as [|x r IH]; intros l2 Hne; [reflexivity|].
  cbn [app join_trail flat_map]. fold (join_trail r).
  destruct (r ++ l2) as [|y t] eqn:E.
  { apply app_eq_nil in E as [_ E]. congruence. }
  change (join_with comma (x :: y :: t)) with (x ++ comma :: join_with comma (y :: t)).
  rewrite <- E, IH by exact Hne. rewrite <- !app_assoc. reflexivity.
Qed.

Lemma mss_add_new acc k v : ~ In k (map fst acc) -> mss_add acc k v = acc ++ [(k, [v])].
Proof.
  induction acc as [|[k' vs] r IH]; intros Hn; cbn [mss_add app]; [reflexivity|].
  cbn [map fst] in Hn. rewrite str_eqb_neq by (intros ->; apply Hn; left; reflexivity).
  rewrite IH; [reflexivity|]. intros Hin. apply Hn. right. exact Hin.
Qed.

Lemma mss_add_last acc k vs v : ~ In k (map fst acc) ->
  mss_add (acc ++ [(k, vs)]) k v = acc ++ [(k, vs ++ [v])].
Proof.
  induction acc as [|[k' vs'] r IH]; intros Hn; cbn [mss_add app].
  - rewrite str_eqb_refl. reflexivity.
  - cbn [map fst] in Hn. rewrite str_eqb_neq by (intros ->; apply Hn; left; reflexivity).
    rewrite IH; [reflexivity|]. intros Hin. apply Hn. right. exact Hin.
Qed.

Definition add_mss (m : list (str * list str)) (kv : str * str) : outcome (list (str * list str)) :=
  Ok (mss_add m (fst kv) (snd kv)).

Lemma fold_group k vs : forall acc vs0, ~ In k (map fst acc) ->
  fold_out add_mss (acc ++ [(k, vs0)]) (map (pair k) vs) = Ok (acc ++ [(k, vs0 ++ vs)]).
Proof.
  induction vs as [|v r IH]; intros acc vs0 Hn; cbn [map fold_out]; [rewrite app_nil_r; reflexivity|].
  unfold add_mss at 1. cbn [fst snd obind]. rewrite mss_add_last by exact Hn.
  rewrite IH by exact Hn. rewrite <- app_assoc. reflexivity.
Qed.

Lemma fold_flatten m : forall acc, NoDup (map fst (acc ++ m)) -> Forall (fun kv => snd kv <> []) m ->
  fold_out add_mss acc (flatten m) = Ok (acc ++ m).
Proof.
  induction m as [|[k vs] r IH]; intros acc Hn Hne; cbn [flatten flat_map fold_out]; [rewrite app_nil_r; reflexivity|].
  fold (flatten r). inversion Hne as [|? ? Hvs Hr]; subst. cbn [fst snd] in *.
  destruct vs as [|v vs']; [congruence|].
  assert (Hk : ~ In k (map fst acc)).
  { rewrite map_app in Hn. cbn [map fst] in Hn. apply NoDup_remove_2 in Hn.
    intros Hin. apply Hn. apply in_or_app. left. exact Hin. }
  rewrite fold_out_app. cbn [map fold_out]. unfold add_mss at 1. cbn [fst snd obind].
  rewrite mss_add_new by exact Hk. rewrite fold_group by exact Hk. cbn [obind app].
  rewrite IH; [rewrite <- app_assoc; reflexivity| |exact Hr].
  rewrite <- app_assoc. exact Hn.
Qed.

Section Final.
  Variable isp : rune -> bool.
  Hypothesis isp_ascii : forall r, r < 128 -> isp r = ascii_print r.

  Lemma mss_vals_cons qk z r lk : mss_vals isp qk (z :: r) lk =
    qk ++ 58 :: quote isp z ++ (if lk && nilb r then [] else [comma]) ++ mss_vals isp qk r lk.
  Proof. reflexivity. Qed.

  Lemma mss_vals_trail k vs :
    mss_vals isp (quote isp k) vs false = join_trail (map (kv_string isp) (map (pair k) vs)).
  Proof.
    induction vs as [|z r IH]; [reflexivity|]. cbn [mss_vals map join_trail flat_map andb].
    fold (join_trail (map (kv_string isp) (map (pair k) r))). rewrite IH.
    unfold kv_string. cbn [fst snd]. rewrite <- !app_assoc. reflexivity.
  Qed.

  Lemma mss_vals_last k vs : vs <> [] ->
    mss_vals isp (quote isp k) vs true = join_with comma (map (kv_string isp) (map (pair k) vs)).
  Proof.
    induction vs as [|z r IH]; intros Hne; [congruence|]. destruct r as [|z' r'].
    - cbn [mss_vals map join_with andb nilb]. unfold kv_string. cbn [fst snd app].
      rewrite !app_nil_r. reflexivity.
    - rewrite mss_vals_cons. change (nilb (z' :: r')) with false. rewrite andb_false_r.
      rewrite IH by discriminate.
      change (map (pair k) (z :: z' :: r')) with ((k, z) :: map (pair k) (z' :: r')).
      change (map (kv_string isp) ((k, z) :: map (pair k) (z' :: r')))
        with (kv_string isp (k, z) :: map (kv_string isp) (map (pair k) (z' :: r'))).
      change (map (pair k) (z' :: r')) with ((k, z') :: map (pair k) r').
      change (map (kv_string isp) ((k, z') :: map (pair k) r'))
        with (kv_string isp (k, z') :: map (kv_string isp) (map (pair k) r')).
      rewrite join_cons2. unfold kv_string. cbn [fst snd]. rewrite <- ?app_assoc. reflexivity.
  Qed.

  Lemma flatten_nonempty m : m <> [] -> Forall (fun kv : str * list str => snd kv <> []) m -> flatten m <> [].
  Proof.
    destruct m as [|[k vs] r]; intros H Hne; [congruence|]. inversion Hne; subst. cbn [snd] in *.
    destruct vs; [congruence|]. discriminate.
  Qed.

  Lemma mss_keys_flat m : Forall (fun kv => snd kv <> []) m ->
    mss_keys isp m = join_with comma (map (kv_string isp) (flatten m)).
  Proof.
    induction 1 as [|[k vs] r Hvs Hr IH]; [reflexivity|]. cbn [mss_keys flatten flat_map fst snd] in *.
    fold (flatten r). destruct r as [|e r'].
    - cbn [nilb mss_keys flatten flat_map]. rewrite !app_nil_r. apply mss_vals_last. exact Hvs.
    - change (nilb (e :: r')) with false. rewrite mss_vals_trail, IH, map_app.
      symmetry. apply join_app_trail.
      intros E. apply map_eq_nil in E. revert E. apply flatten_nonempty; [discriminate|exact Hr].
  Qed.

  (* Map(MapStringStringFlag.String v) = v; on the pinned code (fixed = false)
     only when no key is the empty string *)
  Theorem map_roundtrip_gen fixed m : NoDup (map fst m) -> Forall pair_valid m ->
    fixed = true \/ Forall (fun kv => fst kv <> []) m ->
    exists m', map_ss_parse_gen fixed isp (map_ss_string isp m) = Ok m' /\ Permutation m' m.
  Proof.
    intros Hn Hv Hk. exists (isort_by fst m). split; [|apply isort_by_perm].
    pose proof (isort_by_perm fst m) as Hp.
    unfold map_ss_parse_gen, map_ss_string. fold add_ss.
    rewrite (split_map_rendered isp isp_ascii fixed add_ss).
    - apply (fold_ss _ []). cbn [app]. eapply Permutation_NoDup; [|exact Hn]. apply Permutation_map. symmetry. exact Hp.
    - eapply Permutation_Forall; [symmetry; exact Hp|].
      apply Forall_forall. intros kv Hin. rewrite Forall_forall in Hv. destruct (Hv kv Hin) as [H1 H2].
      repeat split; auto. unfold key_ok. destruct Hk as [Hk|Hk]; [left; exact Hk|right].
      rewrite Forall_forall in Hk. apply Hk. exact Hin.
  Qed.

  (* StringStringSliceMap(MapStringStringSliceFlag.String v) = v when no value slice is empty *)
  Theorem mss_roundtrip_gen fixed m : NoDup (map fst m) -> Forall entry_valid m ->
    Forall (fun kv => snd kv <> []) m ->
    fixed = true \/ Forall (fun kv => fst kv <> []) m ->
    exists m', mss_parse_gen fixed isp (mss_string isp m) = Ok m' /\ Permutation m' m.
  Proof.
    intros Hn Hv Hne Hk. exists (isort_by fst m). split; [|apply isort_by_perm].
    pose proof (isort_by_perm fst m) as Hp. set (m' := isort_by fst m) in *.
    assert (Hne' : Forall (fun kv => snd kv <> []) m') by (eapply Permutation_Forall; [symmetry; exact Hp|exact Hne]).
    unfold mss_parse_gen, mss_string. fold m'. rewrite mss_keys_flat by exact Hne'.
    rewrite (split_map_rendered isp isp_ascii fixed (fun m k v => Ok (mss_add m k v))).
    - apply (fold_flatten m' []); [|exact Hne']. cbn [app].
      eapply Permutation_NoDup; [|exact Hn]. apply Permutation_map. symmetry. exact Hp.
    - assert (Hall : Forall (fun kv => entry_valid kv /\ key_ok fixed (fst kv)) m').
      { eapply Permutation_Forall; [symmetry; exact Hp|].
        apply Forall_forall. intros kv Hin. rewrite Forall_forall in Hv. split; [apply Hv; exact Hin|].
        unfold key_ok. destruct Hk as [Hk|Hk]; [left; exact Hk|right]. rewrite Forall_forall in Hk. apply Hk. exact Hin. }
      clear -Hall. induction Hall as [|[k vs] r [[H1 H2] H3] _ IH]; cbn [flatten flat_map]; [constructor|].
      apply Forall_app. split; [|exact IH]. cbn [fst snd] in *.
      clear -H1 H2 H3. induction H2 as [|v vs Hv _ IH]; cbn [map]; constructor; [|exact IH].
      cbn [fst snd]. auto.
  Qed.
End Final.

(* ------------------------------------------------------------------ *)
(* non-vacuity and refutation witnesses *)

Definition P0 := mk_print [].
Lemma P0_ascii : forall r, r < 128 -> P0 r = ascii_print r.
Proof. intros r H. unfold P0, mk_print. apply N.ltb_lt in H. rewrite H. reflexivity. Qed.
Lemma mk_print_ascii extra : forall r, r < 128 -> mk_print extra r = ascii_print r.
Proof. intros r H. unfold mk_print. apply N.ltb_lt in H. rewrite H. reflexivity. Qed.

Example slice_example :
  string_slice P0 (slice_string P0 [s2r "a,b"; []; s2r "q""\"; [0; 10; 233; 128512]])
  = Ok [s2r "a,b"; []; s2r "q""\"; [0; 10; 233; 128512]].
Proof. vm_compute. reflexivity. Qed.

Example map_example :
  map_ss_parse_gen true P0 (map_ss_string P0 [(s2r "k:1", s2r "v,1"); ([], s2r "x")])
  = Ok [([], s2r "x"); (s2r "k:1", s2r "v,1")].
Proof. vm_compute. reflexivity. Qed.

(* finding 9 on the pinned code: a map with the empty key does not parse back *)
Example map_roundtrip_pre_fix_refuted :
  map_ss_parse_gen false P0 (map_ss_string P0 [([], s2r "x")]) = Err e_token /\
  mss_parse_gen false P0 (mss_string P0 [([], [s2r "x"])]) = Err e_token.
Proof. split; vm_compute; reflexivity. Qed.

(* finding 11: a key whose value slice is empty is lost (also after the fixes) *)
Example mss_roundtrip_refuted :
  mss_parse_gen true P0 (mss_string P0 [(s2r "a", [])]) = Ok [] /\
  mss_parse_gen true P0 (mss_string P0 [(s2r "a", [s2r "x"]); (s2r "b", [])]) = Ok [(s2r "a", [s2r "x"])].
Proof. split; vm_compute; reflexivity. Qed.

(* the current tree *)
Lemma map_roundtrip_l isp : (forall r, r < 128 -> isp r = ascii_print r) ->
  forall m, NoDup (map fst m) -> Forall pair_valid m ->
  exists m', map_ss_parse isp (map_ss_string isp m) = Ok m' /\ Permutation m' m.
Proof. intros H m Hn Hv. exact (map_roundtrip_gen isp H true m Hn Hv (or_introl eq_refl)). Qed.

Lemma mss_roundtrip_l isp : (forall r, r < 128 -> isp r = ascii_print r) ->
  forall m, NoDup (map fst m) -> Forall entry_valid m -> Forall (fun kv => snd kv <> []) m ->
  exists m', mss_parse isp (mss_string isp m) = Ok m' /\ Permutation m' m.
Proof. intros H m Hn Hv Hne. exact (mss_roundtrip_gen isp H true m Hn Hv Hne (or_introl eq_refl)). Qed.
