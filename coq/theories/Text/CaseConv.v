(* Model of /repo/tagformat/caseconversion/case_conversion.go at rune level.
   Byte offsets `lastBoundary`/`z` of the Go loops are represented by the
   accumulated slice `acc = s[lastBoundary:z]` (so `lastBoundary < z` is
   `acc <> []`).  Error texts are not modelled; error codes are:
   1 = bad first rune, 2 = illegal rune inside, 3 = not a Go identifier. *)
From Coq Require Import String.
From Coq Require Import List NArith Bool.
From Dials Require Import Base.Outcome Base.Runes Generated.Initialisms.
Import ListNotations.
Open Scope list_scope.
Open Scope N_scope.

Definition words := list str.

Definition nonempty (s : str) : bool := match s with [] => false | _ => true end.
Definition flush (f : str -> str) (acc : str) (ws : words) : words :=
  if nonempty acc then ws ++ [f acc] else ws.

(* ---- decodeCamelCase (case_conversion.go:29-53) ---- *)
Fixpoint camel_loop (acc : str) (ws : words) (s : str) : outcome words :=
  match s with
  | [] => Ok (ws ++ [lower_s acc])
  | c :: s' =>
      if negb (is_letter c) && negb (is_digit c) then Err 2
      else if is_upper c then camel_loop [c] (flush lower_s acc ws) s'
      else camel_loop (acc ++ [c]) ws s'
  end.

(* utf8.DecodeRuneInString(s): RuneError on the empty string *)
Definition first_bad (s : str) : bool :=
  match s with [] => true | r :: _ => is_digit r end.

Definition decode_camel (s : str) : outcome words :=
  if first_bad s then Err 1 else camel_loop [] [] s.

Definition decode_upper_camel (s : str) : outcome words :=
  match s with
  | r :: _ => if is_letter r && is_upper r then decode_camel s else Err 1
  | [] => Err 1
  end.

Definition decode_lower_camel (s : str) : outcome words :=
  match s with
  | r :: _ => if is_letter r && is_lower r then decode_camel s else Err 1
  | [] => Err 1
  end.

(* ---- decodeLowerCaseWithSplitChar (204-229) ---- *)
Fixpoint lsplit_loop (split : rune) (acc : str) (ws : words) (s : str) : outcome words :=
  match s with
  | [] => Ok (flush lower_s acc ws)
  | c :: s' =>
      if c =? split then lsplit_loop split [] (flush (fun x => x) acc ws) s'
      else if (negb (is_letter c) && negb (is_digit c)) || (negb (is_lower c) && negb (is_digit c))
           then Err 2
      else lsplit_loop split (acc ++ [c]) ws s'
  end.

Definition decode_lower_split (split : rune) (s : str) : outcome words :=
  if first_bad s then Err 1 else lsplit_loop split [] [] s.

Definition underscore : rune := 95.
Definition hyphen : rune := 45.
Definition decode_lower_snake := decode_lower_split underscore.
Definition decode_kebab := decode_lower_split hyphen.

(* ---- DecodeUpperSnakeCase (243-268) ---- *)
Fixpoint usnake_loop (acc : str) (ws : words) (s : str) : outcome words :=
  match s with
  | [] => Ok (flush lower_s acc ws)
  | c :: s' =>
      if c =? underscore then usnake_loop [] (flush lower_s acc ws) s'
      else if (negb (is_letter c) && negb (is_digit c)) || (negb (is_upper c) && negb (is_digit c))
           then Err 2
      else usnake_loop (acc ++ [c]) ws s'
  end.

Definition decode_upper_snake (s : str) : outcome words :=
  if first_bad s then Err 1 else usnake_loop [] [] s.

(* ---- DecodeCasePreservingSnakeCase (272-295) ---- *)
Fixpoint cpsnake_loop (acc : str) (ws : words) (s : str) : outcome words :=
  match s with
  | [] => Ok (ws ++ [lower_s acc])
  | c :: s' =>
      if c =? underscore then cpsnake_loop [] (flush lower_s acc ws) s'
      else if negb (is_letter c) && negb (is_digit c) then Err 2
      else cpsnake_loop (acc ++ [c]) ws s'
  end.

Definition decode_cp_snake (s : str) : outcome words :=
  if first_bad s then Err 1 else cpsnake_loop [] [] s.

(* ---- encoders (306-370).  cases.Title(language.English, cases.NoLower)
   on a single lower-case ASCII word upper-cases its first rune (assumption
   about x/text, validated by the correspondence check). ---- *)
Definition title (w : str) : str :=
  match w with [] => [] | c :: r => to_upper c :: r end.

Fixpoint join (sep : rune) (ws : words) : str :=
  match ws with
  | [] => []
  | [w] => w
  | w :: ws' => w ++ sep :: join sep ws'
  end.

Definition encode_upper_camel (ws : words) : str := concat (map title ws).
Definition encode_lower_camel (ws : words) : str :=
  match ws with [] => [] | w :: r => w ++ concat (map title r) end.
Definition encode_kebab (ws : words) : str := join hyphen ws.
Definition encode_lower_snake (ws : words) : str := join underscore (map lower_s ws).
Definition encode_upper_snake (ws : words) : str := join underscore (map upper_s ws).
Definition encode_cp_snake (ws : words) : str := join underscore ws.

(* ---- extractInitialisms (180-202) ----
   Inner loop: over the list in list order, stripping every initialism that
   prefixes the current remainder; outer loop: until a pass finds nothing.
   Every successful pass strips at least one rune when all initialisms are
   non-empty, so fuel = length s + 1 always suffices (see CaseConvProofs). *)
Definition initialisms : list str := map s2r commonInitialisms_src.

Fixpoint extract_pass (inits : list str) (s : str) (ws : words) (found : bool)
  : str * words * bool :=
  match inits with
  | [] => (s, ws, found)
  | i :: rest =>
      match strip_prefix i s with
      | Some s' => extract_pass rest s' (ws ++ [lower_s i]) true
      | None => extract_pass rest s ws found
      end
  end.

Fixpoint extract_loop (fuel : nat) (inits : list str) (s : str) (ws : words) : option (str * words) :=
  match fuel with
  | O => None
  | S f =>
      match extract_pass inits s ws false with
      | (s', ws', true) => extract_loop f inits s' ws'
      | (s', ws', false) => Some (s', ws')
      end
  end.

(* None = the Go loop would not terminate (only possible with an empty initialism) *)
Definition extract_initialisms_with (inits : list str) (s : str) : option words :=
  match extract_loop (S (length s)) inits s [] with
  | Some (rest, ws) => Some (flush lower_s rest ws)
  | None => None
  end.
Definition extract_initialisms := extract_initialisms_with initialisms.

(* ---- decodeGoCamelCase (114-151) ---- *)
Definition all_upper (w : str) : bool := str_eqb w (upper_s w).

(* word flushed at a boundary *)
Definition go_flush (acc : str) (ws : words) : option words :=
  if nonempty acc then
    if all_upper acc then
      match extract_initialisms acc with Some e => Some (ws ++ e) | None => None end
    else Some (ws ++ [lower_s acc])
  else Some ws.

Definition hang : N := 99.   (* Err hang: the Go code would loop forever *)

Fixpoint go_loop (wb : rune -> bool) (prev : option rune) (acc : str) (ws : words) (s : str)
  : outcome words :=
  match s with
  | [] => Ok (flush lower_s acc ws)
  | c :: s' =>
      let fci := match prev with Some p => is_upper c && is_lower p | None => false end in
      let fcai := is_upper c && match s' with n :: _ :: _ => is_lower n | _ => false end in
      if fci || fcai || wb c then
        match go_flush acc ws with
        | Some ws' => go_loop wb (Some c) (if wb c then [] else [c]) ws' s'
        | None => Err hang
        end
      else if (match s' with [] => true | _ => false end) && is_upper c then
        if nonempty acc && all_upper (acc ++ [c]) then
          match extract_initialisms (acc ++ [c]) with Some e => Ok (ws ++ e) | None => Err hang end
        else go_loop wb (Some c) [c] ws s'
      else go_loop wb (Some c) (acc ++ [c]) ws s'
  end.

Definition decode_go_with (wb : rune -> bool) (s : str) : outcome words := go_loop wb None [] [] s.

(* go/token.IsIdentifier on ASCII: letters, digits, '_' , not starting with a
   digit, non-empty, not a keyword *)
Definition keywords : list str := map s2r
  ["break"; "case"; "chan"; "const"; "continue"; "default"; "defer"; "else"; "fallthrough";
   "for"; "func"; "go"; "goto"; "if"; "import"; "interface"; "map"; "package"; "range";
   "return"; "select"; "struct"; "switch"; "type"; "var"]%string.

Definition ident_rune (r : rune) : bool := is_letter r || is_digit r || (r =? underscore).
Definition is_identifier (s : str) : bool :=
  match s with
  | [] => false
  | r :: _ => negb (is_digit r) && forallb ident_rune s && negb (existsb (str_eqb s) keywords)
  end.

Definition decode_go_camel (s : str) : outcome words :=
  if is_identifier s then decode_go_with (fun r => r =? underscore) s else Err 3.

Definition decode_go_tags (s : str) : outcome words :=
  decode_go_with (fun r => (r =? underscore) || (r =? hyphen)) s.
