(* Proofs of the six decode/encode inverse laws of C19 over the model. *)
From Coq Require Import List NArith Bool Lia.
From Dials Require Import Base.Outcome Base.Runes Text.CaseConv Text.GoCamelSpec.
Import ListNotations.
Open Scope N_scope.

(* lower-case alphanumeric word not starting with a digit: [a-z][a-z0-9]* *)
Definition lword (w : str) : Prop :=
  match w with c :: t => is_lower c = true /\ Forall (fun x => low_or_dig x = true) t | [] => False end.

(* ---- rune facts ---- *)
Ltac runes := unfold low_or_dig, up_or_dig, is_letter, is_upper, is_lower, is_digit, to_lower, to_upper,
  underscore, hyphen in *.

Lemma lower_not_upper c : is_lower c = true -> is_upper c = false.
Proof. runes. intros H. apply andb_true_iff in H as [H1 H2]. apply N.leb_le in H1, H2.
  apply andb_false_iff. right. apply N.leb_gt. lia. Qed.
Lemma digit_not_upper c : is_digit c = true -> is_upper c = false.
Proof. runes. intros H. apply andb_true_iff in H as [H1 H2]. apply N.leb_le in H1, H2.
  apply andb_false_iff. left. apply N.leb_gt. lia. Qed.
Lemma digit_not_lower c : is_digit c = true -> is_lower c = false.
Proof. runes. intros H. apply andb_true_iff in H as [H1 H2]. apply N.leb_le in H1, H2.
  apply andb_false_iff. left. apply N.leb_gt. lia. Qed.
Lemma upper_not_lower c : is_upper c = true -> is_lower c = false.
Proof. runes. intros H. apply andb_true_iff in H as [H1 H2]. apply N.leb_le in H1, H2.
  apply andb_false_iff. left. apply N.leb_gt. lia. Qed.
Lemma upper_not_digit c : is_upper c = true -> is_digit c = false.
Proof. runes. intros H. apply andb_true_iff in H as [H1 H2]. apply N.leb_le in H1, H2.
  apply andb_false_iff. right. apply N.leb_gt. lia. Qed.
Lemma lower_not_digit c : is_lower c = true -> is_digit c = false.
Proof. runes. intros H. apply andb_true_iff in H as [H1 H2]. apply N.leb_le in H1, H2.
  apply andb_false_iff. right. apply N.leb_gt. lia. Qed.

Lemma lod_not_upper c : low_or_dig c = true -> is_upper c = false.
Proof. unfold low_or_dig. intros H. apply orb_true_iff in H as [H|H];
  [apply lower_not_upper|apply digit_not_upper]; exact H. Qed.

Lemma lod_letter_or_digit c : low_or_dig c = true -> negb (is_letter c) && negb (is_digit c) = false.
Proof. unfold low_or_dig, is_letter. intros H. apply orb_true_iff in H as [H|H]; rewrite H;
  rewrite ?orb_true_r; simpl; try reflexivity. rewrite andb_false_r. reflexivity. Qed.

Lemma to_upper_lower c : is_lower c = true -> is_upper (to_upper c) = true /\ to_lower (to_upper c) = c.
Proof. intros H. unfold to_upper. rewrite H. runes.
  apply andb_true_iff in H as [H1 H2]. apply N.leb_le in H1, H2.
  assert (Hu : (65 <=? c - 32) && (c - 32 <=? 90) = true).
  { apply andb_true_iff; split; apply N.leb_le; lia. }
  unfold is_upper. rewrite Hu. split; [reflexivity|lia]. Qed.

Lemma to_lower_lod c : low_or_dig c = true -> to_lower c = c.
Proof. intros H. unfold to_lower. rewrite (lod_not_upper c H). reflexivity. Qed.

Lemma lower_s_lod t : Forall (fun x => low_or_dig x = true) t -> lower_s t = t.
Proof. induction 1 as [|x t Hx Ht IH]; simpl; [reflexivity|]. rewrite to_lower_lod by exact Hx. rewrite IH. reflexivity. Qed.

Lemma lword_lod w : lword w -> Forall (fun x => low_or_dig x = true) w.
Proof. destruct w as [|c t]; simpl; [tauto|]. intros [Hc Ht]. constructor; [|exact Ht].
  unfold low_or_dig. rewrite Hc. reflexivity. Qed.

Lemma lower_s_lword w : lword w -> lower_s w = w.
Proof. intros H. apply lower_s_lod, lword_lod, H. Qed.

Lemma lword_nonempty w : lword w -> nonempty w = true.
Proof. destruct w; simpl; [tauto|reflexivity]. Qed.

Lemma nonempty_app_r (a b : str) : nonempty b = true -> nonempty (a ++ b) = true.
Proof. destruct a; simpl; [tauto|reflexivity]. Qed.

Lemma lower_title w : lword w -> lower_s (title w) = w.
Proof. destruct w as [|c t]; simpl; [tauto|]. intros [Hc Ht].
  destruct (to_upper_lower c Hc) as [_ H2]. rewrite H2. rewrite lower_s_lod by exact Ht. reflexivity. Qed.

(* ---- camel ---- *)
Lemma camel_eat t : Forall (fun x => low_or_dig x = true) t ->
  forall acc ws rest, camel_loop acc ws (t ++ rest) = camel_loop (acc ++ t) ws rest.
Proof.
  induction 1 as [|x t Hx Ht IH]; intros acc ws rest; simpl.
  - rewrite app_nil_r. reflexivity.
  - rewrite (lod_letter_or_digit x Hx), (lod_not_upper x Hx). rewrite IH.
    rewrite <- app_assoc. reflexivity.
Qed.

Lemma camel_title_word w acc ws rest : lword w ->
  camel_loop acc ws (title w ++ rest) = camel_loop (title w) (flush lower_s acc ws) rest.
Proof.
  destruct w as [|c t]; simpl; [tauto|]. intros [Hc Ht].
  destruct (to_upper_lower c Hc) as [Hu _]. unfold is_letter. rewrite Hu. simpl.
  rewrite camel_eat by exact Ht. reflexivity.
Qed.

Lemma camel_words wl : Forall lword wl -> forall acc ws, nonempty acc = true ->
  camel_loop acc ws (concat (map title wl)) = Ok (ws ++ [lower_s acc] ++ wl).
Proof.
  induction 1 as [|w wl Hw Hwl IH]; intros acc ws Hacc; simpl.
  - reflexivity.
  - rewrite camel_title_word by exact Hw. rewrite IH.
    + unfold flush. rewrite Hacc. rewrite lower_title by exact Hw. rewrite <- app_assoc. reflexivity.
    + destruct w; simpl in *; [tauto|reflexivity].
Qed.

Lemma title_first_upper w : lword w -> exists u t, title w = u :: t /\ is_upper u = true.
Proof. destruct w as [|c t]; simpl; [tauto|]. intros [Hc _]. exists (to_upper c), t. split; [reflexivity|].
  apply to_upper_lower, Hc. Qed.

Lemma decode_upper_camel_head w rest : lword w ->
  decode_upper_camel (title w ++ rest) = camel_loop (title w) [] rest.
Proof.
  destruct w as [|c t]; simpl; [tauto|]. intros [Hc Ht].
  destruct (to_upper_lower c Hc) as [Hu _].
  unfold is_letter. rewrite Hu. simpl. unfold decode_camel. simpl.
  rewrite (upper_not_digit _ Hu). unfold is_letter. rewrite Hu. simpl.
  rewrite camel_eat by exact Ht. reflexivity.
Qed.

Lemma decode_encode_upper_camel_l wl : Forall lword wl -> wl <> [] ->
  decode_upper_camel (encode_upper_camel wl) = Ok wl.
Proof.
  intros H Hne. destruct wl as [|w wl]; [congruence|]. inversion H as [|? ? Hw Hwl]; subst.
  unfold encode_upper_camel. simpl. rewrite decode_upper_camel_head by exact Hw.
  rewrite camel_words; [|exact Hwl|destruct w; simpl in *; [tauto|reflexivity]].
  rewrite lower_title by exact Hw. reflexivity.
Qed.

Lemma decode_encode_lower_camel_l wl : Forall lword wl -> wl <> [] ->
  decode_lower_camel (encode_lower_camel wl) = Ok wl.
Proof.
  intros H Hne. destruct wl as [|w wl]; [congruence|]. inversion H as [|? ? Hw Hwl]; subst.
  unfold encode_lower_camel. destruct w as [|c t]; [simpl in Hw; tauto|]. destruct Hw as [Hc Ht].
  simpl. unfold is_letter. rewrite Hc. rewrite orb_true_r. simpl.
  unfold decode_camel. simpl. rewrite (lower_not_digit c Hc).
  unfold is_letter. rewrite Hc, orb_true_r. simpl. rewrite (lower_not_upper c Hc).
  rewrite camel_eat by exact Ht. simpl.
  rewrite camel_words; [|exact Hwl|reflexivity]. simpl.
  rewrite to_lower_lod by (unfold low_or_dig; rewrite Hc; reflexivity).
  rewrite lower_s_lod by exact Ht. reflexivity.
Qed.

(* ---- separator-based schemes ---- *)
Lemma lod_not_sep x : low_or_dig x = true -> (x =? underscore) = false /\ (x =? hyphen) = false.
Proof. runes. intros H. split; apply N.eqb_neq; intro; subst; discriminate. Qed.

Lemma lod_lsplit_ok x : low_or_dig x = true ->
  (negb (is_letter x) && negb (is_digit x)) || (negb (is_lower x) && negb (is_digit x)) = false.
Proof. intros H. rewrite (lod_letter_or_digit x H). simpl. unfold low_or_dig in H.
  destruct (is_lower x); simpl; [reflexivity|]. simpl in H. rewrite H. reflexivity. Qed.

Lemma lsplit_eat split t : Forall (fun x => low_or_dig x = true) t -> (split = underscore \/ split = hyphen) ->
  forall acc ws rest, lsplit_loop split acc ws (t ++ rest) = lsplit_loop split (acc ++ t) ws rest.
Proof.
  intros Ht Hs. induction Ht as [|x t Hx Ht IH]; intros acc ws rest; simpl.
  - rewrite app_nil_r. reflexivity.
  - destruct (lod_not_sep x Hx) as [H1 H2].
    assert (Hne : (x =? split) = false) by (destruct Hs; subst; assumption).
    rewrite Hne, (lod_lsplit_ok x Hx), IH, <- app_assoc. reflexivity.
Qed.

Lemma lsplit_sep split acc ws s' :
  lsplit_loop split acc ws (split :: s') = lsplit_loop split [] (flush (fun x => x) acc ws) s'.
Proof. simpl. rewrite N.eqb_refl. reflexivity. Qed.

Lemma join_cons2 sep w w' wl : join sep (w :: w' :: wl) = w ++ sep :: join sep (w' :: wl).
Proof. reflexivity. Qed.

Lemma lsplit_words split wl : (split = underscore \/ split = hyphen) -> Forall lword wl ->
  forall w ws, lword w ->
  lsplit_loop split [] ws (join split (w :: wl)) = Ok (ws ++ w :: wl).
Proof.
  intros Hs H. induction H as [|w' wl Hw' Hwl IH]; intros w ws Hw.
  - simpl. rewrite <- (app_nil_r w) at 1. rewrite lsplit_eat by (auto using lword_lod). simpl.
    unfold flush. rewrite (lword_nonempty w Hw), lower_s_lword by exact Hw. reflexivity.
  - rewrite join_cons2.
    rewrite lsplit_eat by (auto using lword_lod). rewrite lsplit_sep.
    rewrite IH by exact Hw'. unfold flush. simpl app. rewrite (lword_nonempty w Hw). rewrite <- app_assoc. reflexivity.
Qed.

Lemma first_bad_join split w wl : lword w -> first_bad (join split (w :: wl)) = false.
Proof. destruct w as [|c t]; simpl; [tauto|]. intros [Hc _].
  destruct wl; simpl; apply lower_not_digit, Hc. Qed.

Lemma decode_encode_split_l split wl : (split = underscore \/ split = hyphen) -> Forall lword wl -> wl <> [] ->
  decode_lower_split split (join split wl) = Ok wl.
Proof.
  intros Hs H Hne. destruct wl as [|w wl]; [congruence|]. inversion H as [|? ? Hw Hwl]; subst.
  unfold decode_lower_split. rewrite first_bad_join by exact Hw.
  rewrite lsplit_words by assumption. reflexivity.
Qed.

Lemma map_lower_lwords wl : Forall lword wl -> map lower_s wl = wl.
Proof. induction 1 as [|w wl Hw _ IH]; simpl; [reflexivity|]. rewrite lower_s_lword, IH by exact Hw. reflexivity. Qed.

(* upper snake *)
Definition uword (w : str) : Prop :=
  match w with c :: t => is_upper c = true /\ Forall (fun x => up_or_dig x = true) t | [] => False end.

Lemma uod_props x : up_or_dig x = true ->
  (x =? underscore) = false /\
  (negb (is_letter x) && negb (is_digit x)) || (negb (is_upper x) && negb (is_digit x)) = false.
Proof.
  unfold up_or_dig. intros H. split.
  - runes. apply N.eqb_neq; intro; subst; discriminate.
  - unfold is_letter. destruct (is_upper x); simpl; [reflexivity|]. simpl in H. rewrite H.
    rewrite !andb_false_r. reflexivity.
Qed.

Lemma usnake_eat t : Forall (fun x => up_or_dig x = true) t ->
  forall acc ws rest, usnake_loop acc ws (t ++ rest) = usnake_loop (acc ++ t) ws rest.
Proof.
  induction 1 as [|x t Hx Ht IH]; intros acc ws rest; simpl.
  - rewrite app_nil_r. reflexivity.
  - destruct (uod_props x Hx) as [H1 H2]. rewrite H1, H2, IH, <- app_assoc. reflexivity.
Qed.

Lemma upper_lod_uod x : low_or_dig x = true -> up_or_dig (to_upper x) = true /\ to_lower (to_upper x) = x.
Proof.
  unfold low_or_dig. intros H. destruct (is_lower x) eqn:Hl.
  - destruct (to_upper_lower x Hl) as [H1 H2]. unfold up_or_dig. rewrite H1. auto.
  - simpl in H. unfold to_upper. rewrite Hl. unfold up_or_dig. rewrite H, orb_true_r. split; [reflexivity|].
    unfold to_lower. rewrite (digit_not_upper x H). reflexivity.
Qed.

Lemma upper_s_lword w : lword w -> Forall (fun x => up_or_dig x = true) (upper_s w) /\ lower_s (upper_s w) = w
  /\ nonempty (upper_s w) = true /\ first_bad (upper_s w ++ []) = false.
Proof.
  intros Hw. pose proof (lword_lod w Hw) as Hl.
  assert (A : Forall (fun x => up_or_dig x = true) (upper_s w) /\ lower_s (upper_s w) = w).
  { clear Hw. induction Hl as [|x t Hx Ht [IH1 IH2]]; simpl; [split; [constructor|reflexivity]|].
    destruct (upper_lod_uod x Hx) as [H1 H2]. split; [constructor; assumption|]. rewrite H2, IH2. reflexivity. }
  destruct A as [A1 A2]. repeat split; try assumption.
  - destruct w; simpl in *; [tauto|reflexivity].
  - destruct w as [|c t]; simpl in *; [tauto|]. destruct Hw as [Hc _].
    destruct (to_upper_lower c Hc) as [Hu _]. apply upper_not_digit, Hu.
Qed.

Lemma usnake_sep acc ws s' :
  usnake_loop acc ws (underscore :: s') = usnake_loop [] (flush lower_s acc ws) s'.
Proof. reflexivity. Qed.

Lemma usnake_words wl : Forall lword wl -> forall w ws, lword w ->
  usnake_loop [] ws (join underscore (map upper_s (w :: wl))) = Ok (ws ++ w :: wl).
Proof.
  induction 1 as [|w' wl Hw' Hwl IH]; intros w ws Hw;
    destruct (upper_s_lword w Hw) as (U1 & U2 & U3 & _).
  - simpl. rewrite <- (app_nil_r (upper_s w)) at 1. rewrite usnake_eat by exact U1. simpl.
    unfold flush. rewrite U3, U2. reflexivity.
  - change (join underscore (map upper_s (w :: w' :: wl)))
      with (upper_s w ++ underscore :: join underscore (map upper_s (w' :: wl))).
    rewrite usnake_eat by exact U1. rewrite usnake_sep.
    rewrite IH by exact Hw'. unfold flush. simpl app. rewrite U3, U2, <- app_assoc. reflexivity.
Qed.

Lemma decode_encode_upper_snake_l wl : Forall lword wl -> wl <> [] ->
  decode_upper_snake (encode_upper_snake wl) = Ok wl.
Proof.
  intros H Hne. destruct wl as [|w wl]; [congruence|]. inversion H as [|? ? Hw Hwl]; subst.
  unfold decode_upper_snake, encode_upper_snake.
  assert (Hfb : first_bad (join underscore (map upper_s (w :: wl))) = false).
  { destruct (upper_s_lword w Hw) as (_ & _ & _ & U4). rewrite app_nil_r in U4.
    simpl. destruct (upper_s w) eqn:E; [simpl in U4; discriminate|]. destruct (map upper_s wl); simpl in *; exact U4. }
  rewrite Hfb. rewrite usnake_words by assumption. reflexivity.
Qed.

(* case-preserving snake *)
Lemma cps_eat t : Forall (fun x => low_or_dig x = true) t ->
  forall acc ws rest, cpsnake_loop acc ws (t ++ rest) = cpsnake_loop (acc ++ t) ws rest.
Proof.
  induction 1 as [|x t Hx Ht IH]; intros acc ws rest; simpl.
  - rewrite app_nil_r. reflexivity.
  - destruct (lod_not_sep x Hx) as [H1 _]. rewrite H1, (lod_letter_or_digit x Hx), IH, <- app_assoc. reflexivity.
Qed.

Lemma cps_sep acc ws s' :
  cpsnake_loop acc ws (underscore :: s') = cpsnake_loop [] (flush lower_s acc ws) s'.
Proof. reflexivity. Qed.

Lemma cps_words wl : Forall lword wl -> forall w ws, lword w ->
  cpsnake_loop [] ws (join underscore (w :: wl)) = Ok (ws ++ w :: wl).
Proof.
  induction 1 as [|w' wl Hw' Hwl IH]; intros w ws Hw.
  - simpl. rewrite <- (app_nil_r w) at 1. rewrite cps_eat by (auto using lword_lod). simpl.
    rewrite lower_s_lword by exact Hw. reflexivity.
  - change (join underscore (w :: w' :: wl)) with (w ++ underscore :: join underscore (w' :: wl)).
    rewrite cps_eat by (auto using lword_lod). rewrite cps_sep.
    rewrite IH by exact Hw'. unfold flush. simpl app. rewrite (lword_nonempty w Hw), lower_s_lword by exact Hw.
    rewrite <- app_assoc. reflexivity.
Qed.

Lemma decode_encode_cp_snake_l wl : Forall lword wl -> wl <> [] ->
  decode_cp_snake (encode_cp_snake wl) = Ok wl.
Proof.
  intros H Hne. destruct wl as [|w wl]; [congruence|]. inversion H as [|? ? Hw Hwl]; subst.
  unfold decode_cp_snake, encode_cp_snake. rewrite first_bad_join by exact Hw.
  rewrite cps_words by assumption. reflexivity.
Qed.

Lemma decode_encode_lower_snake_l wl : Forall lword wl -> wl <> [] ->
  decode_lower_snake (encode_lower_snake wl) = Ok wl.
Proof.
  intros H Hne. unfold decode_lower_snake, encode_lower_snake. rewrite map_lower_lwords by exact H.
  apply decode_encode_split_l; auto.
Qed.

Lemma decode_encode_kebab_l wl : Forall lword wl -> wl <> [] ->
  decode_kebab (encode_kebab wl) = Ok wl.
Proof. intros H Hne. apply decode_encode_split_l; auto. Qed.
