From Coq Require Import List NArith ZArith Bool Lia ZifyBool.
From Dials Require Import Base.Outcome Base.Runes Text.ParseInt Text.Quote Text.Utf8 Text.QuoteProofs.
Import ListNotations.
Open Scope N_scope.
Ltac Zify.zify_post_hook ::= Z.to_euclidean_division_equations.

(* decoding inverts encoding on every string of Unicode scalar values *)
Lemma decode_encode_rune r rest : valid_rune r = true ->
  utf8_decode (utf8_encode_rune r ++ rest) = r :: utf8_decode rest.
Proof.
  unfold valid_rune, max_rune. intros Hv. unfold utf8_encode_rune.
  destruct (r <? 128) eqn:E1.
  { cbn [app utf8_decode]. rewrite E1. reflexivity. }
  destruct (r <? 2048) eqn:E2.
  { cbn [app utf8_decode].
    assert (H0 : (192 + r / 64 <? 128) = false) by lia. rewrite H0.
    assert (H1 : (194 <=? 192 + r / 64) && (192 + r / 64 <=? 223) = true) by lia. rewrite H1.
    assert (H2 : cont (128 + r mod 64) = true) by (unfold cont; lia). rewrite H2. f_equal. lia. }
  destruct (r <? 65536) eqn:E3.
  { cbn [app utf8_decode].
    assert (H0 : (224 + r / 4096 <? 128) = false) by lia. rewrite H0.
    assert (H1 : (194 <=? 224 + r / 4096) && (224 + r / 4096 <=? 223) = false) by lia. rewrite H1.
    assert (H2 : (224 <=? 224 + r / 4096) && (224 + r / 4096 <=? 239) = true) by lia. rewrite H2.
    assert (H3 : second_ok (224 + r / 4096) (128 + r / 64 mod 64) = true).
    { unfold second_ok, cont. destruct (224 + r / 4096 =? 224) eqn:A; [lia|].
      destruct (224 + r / 4096 =? 237) eqn:B; [lia|].
      destruct (224 + r / 4096 =? 240) eqn:C; [lia|]. destruct (224 + r / 4096 =? 244) eqn:D; lia. }
    assert (H4 : cont (128 + r mod 64) = true) by (unfold cont; lia). rewrite H3, H4. cbn [andb]. f_equal. lia. }
  assert (E4 : (r <? raw_byte_base) = true) by (unfold raw_byte_base; lia). rewrite E4.
  cbn [app utf8_decode].
  assert (H0 : (240 + r / 262144 <? 128) = false) by lia. rewrite H0.
  assert (H1 : (194 <=? 240 + r / 262144) && (240 + r / 262144 <=? 223) = false) by lia. rewrite H1.
  assert (H2 : (224 <=? 240 + r / 262144) && (240 + r / 262144 <=? 239) = false) by lia. rewrite H2.
  assert (H3 : (240 <=? 240 + r / 262144) && (240 + r / 262144 <=? 244) = true) by lia. rewrite H3.
  assert (H4 : second_ok (240 + r / 262144) (128 + r / 4096 mod 64) = true).
  { unfold second_ok, cont. destruct (240 + r / 262144 =? 224) eqn:A; [lia|].
    destruct (240 + r / 262144 =? 237) eqn:B; [lia|].
    destruct (240 + r / 262144 =? 240) eqn:C; [lia|]. destruct (240 + r / 262144 =? 244) eqn:D; lia. }
  assert (H5 : cont (128 + r / 64 mod 64) = true) by (unfold cont; lia).
  assert (H6 : cont (128 + r mod 64) = true) by (unfold cont; lia). rewrite H4, H5, H6. cbn [andb]. f_equal. lia.
Qed.

Theorem decode_encode s : Forall (fun r => valid_rune r = true) s -> utf8_decode (utf8_encode s) = s.
Proof.
  induction 1 as [|r s Hr _ IH]; [reflexivity|]. cbn [utf8_encode flat_map]. fold (utf8_encode s).
  rewrite decode_encode_rune by exact Hr. rewrite IH. reflexivity.
Qed.

(* every decoded element is a Unicode scalar value or a raw byte >= 0x80 *)
Lemma decode_wf : forall n bs, (length bs <= n)%nat -> Forall (fun b => b < 256) bs ->
  Forall (fun r => go_rune r = true) (utf8_decode bs).
Proof.
  induction n as [|n IH]; intros bs Hl Hb; [destruct bs; [constructor|cbn in Hl; lia]|].
  destruct bs as [|b0 r0]; [constructor|]. cbn [length] in Hl. inversion Hb as [|? ? H0 Hr0]; subst.
  cbn [utf8_decode].
  assert (Hbad : Forall (fun r => go_rune r = true) ((raw_byte_base + b0) :: utf8_decode r0) \/ b0 < 128).
  { destruct (N.lt_ge_cases b0 128); [right; assumption|left]. constructor; [|apply IH; [lia|assumption]].
    unfold go_rune, is_raw, raw_byte_base. lia. }
  destruct (b0 <? 128) eqn:E0.
  { constructor; [unfold go_rune, valid_rune, max_rune; lia|apply IH; [lia|assumption]]. }
  destruct Hbad as [Hbad|Hbad]; [|lia].
  destruct r0 as [|b1 r1]; [exact Hbad|]. inversion Hr0 as [|? ? H1 Hr1]; subst. cbn [length] in Hl.
  destruct ((194 <=? b0) && (b0 <=? 223)) eqn:E2.
  { destruct (cont b1) eqn:C1; [|exact Hbad]. constructor; [|apply IH; [lia|assumption]].
    unfold cont in C1. unfold go_rune, valid_rune, max_rune. lia. }
  destruct ((224 <=? b0) && (b0 <=? 239)) eqn:E3.
  { destruct r1 as [|b2 r2]; [exact Hbad|]. inversion Hr1 as [|? ? H2 Hr2]; subst. cbn [length] in Hl.
    destruct (second_ok b0 b1 && cont b2) eqn:C; [|exact Hbad]. constructor; [|apply IH; [lia|assumption]].
    apply andb_true_iff in C as [C1 C2]. unfold second_ok, cont in *. unfold go_rune, valid_rune, max_rune.
    destruct (b0 =? 224) eqn:A; [lia|]. destruct (b0 =? 237) eqn:B; [lia|].
    destruct (b0 =? 240) eqn:C3; [lia|]. destruct (b0 =? 244) eqn:D; lia. }
  destruct ((240 <=? b0) && (b0 <=? 244)) eqn:E4; [|exact Hbad].
  destruct r1 as [|b2 [|b3 r3]]; try exact Hbad.
  inversion Hr1 as [|? ? H2 Hr2]; subst. inversion Hr2 as [|? ? H3 Hr3]; subst. cbn [length] in Hl.
  destruct (second_ok b0 b1 && cont b2 && cont b3) eqn:C; [|exact Hbad]. constructor; [|apply IH; [lia|assumption]].
  apply andb_true_iff in C as [C C3]. apply andb_true_iff in C as [C1 C2].
  unfold second_ok, cont in *. unfold go_rune, valid_rune, max_rune.
  destruct (b0 =? 224) eqn:A; [lia|]. destruct (b0 =? 237) eqn:B; [lia|].
  destruct (b0 =? 240) eqn:C4; [lia|]. destruct (b0 =? 244) eqn:D; lia.
Qed.

Example decode_examples :
  utf8_decode [97; 195; 169; 228; 184; 150; 240; 159; 152; 128] = [97; 233; 19990; 128512] /\
  utf8_decode [255; 97; 195] = [raw_byte_base + 255; 97; raw_byte_base + 195] /\
  utf8_decode [192; 128] = [raw_byte_base + 192; raw_byte_base + 128] /\           (* overlong *)
  utf8_decode [237; 160; 128] = [raw_byte_base + 237; raw_byte_base + 160; raw_byte_base + 128] /\  (* surrogate *)
  utf8_decode [239; 191; 189] = [65533] /\                                          (* a literal U+FFFD *)
  range_view (utf8_decode [255; 97]) = [65533; 97].
Proof. repeat split; vm_compute; reflexivity. Qed.

Lemma decode_valid bs : Forall (fun b => b < 256) bs -> Forall (fun r => go_rune r = true) (utf8_decode bs).
Proof. apply (decode_wf (length bs)). apply le_n. Qed.
