(* Model of strconv.Quote and strconv.Unquote (strconv/quote.go) at rune
   level, for the forms dials uses: the flag helpers quote with
   strconv.Quote, the splitters unquote double-quoted and back-quoted scanner tokens.
   Definitions only; proofs are in QuoteProofs.v.

   `isp` is unicode.IsPrint / strconv.IsPrint.  Its ASCII part is fixed
   (ascii_print); for code points >= 128 it is whatever table the caller
   supplies (theorems hold for every such table, the correspondence check
   passes Go's own answers for the runes occurring in a case).

   Byte-level residue: an escape \xNN or \NNN with value >= 0x80 denotes a
   single byte, not a code point.  The model represents it as the pseudo rune
   raw_byte_base + value, so that it can never be confused with a code point;
   compared cases containing such a pseudo rune are compared by outcome class
   only.  strconv.Quote emits \xNN (NN >= 80) exactly for the invalid bytes of
   its argument (pseudo runes of the UTF-8 front end Text/Utf8.v). *)
From Coq Require Import List NArith Bool.
From Dials Require Import Base.Outcome Base.Runes Text.ParseInt.
Import ListNotations.
Open Scope N_scope.

Definition ascii_print (r : rune) : bool := (32 <=? r) && (r <=? 126).
(* IsPrint table: ASCII fixed, the listed non-ASCII runes printable *)
Definition mk_print (extra : list rune) (r : rune) : bool :=
  if r <? 128 then ascii_print r else existsb (N.eqb r) extra.

Definition max_rune : N := 1114111.            (* 0x10FFFF *)
Definition valid_rune (r : rune) : bool :=      (* utf8.ValidRune *)
  ((r <? 55296) || (57343 <? r)) && (r <=? max_rune).
Definition raw_byte_base : N := 1114112.       (* 0x110000 + b : the byte b >= 0x80 *)

(* a raw (invalid UTF-8) byte, see Text/Utf8.v *)
Definition is_raw (r : rune) : bool := (raw_byte_base + 128 <=? r) && (r <? raw_byte_base + 256).
Definition has_invalid (s : str) : bool := existsb is_raw s.

Definition dquote : rune := 34.
Definition bslash : rune := 92.
Definition bquote : rune := 96.
Definition squote : rune := 39.

(* lowerhex[n] *)
Definition hexdig (n : N) : rune := if n <? 10 then 48 + n else 87 + n.

Definition hex2 (r : N) : str := [hexdig (r / 16 mod 16); hexdig (r mod 16)].
Definition hex4 (r : N) : str :=
  [hexdig (r / 4096 mod 16); hexdig (r / 256 mod 16); hexdig (r / 16 mod 16); hexdig (r mod 16)].
Definition hex8 (r : N) : str :=
  [hexdig (r / 268435456 mod 16); hexdig (r / 16777216 mod 16); hexdig (r / 1048576 mod 16);
   hexdig (r / 65536 mod 16)] ++ hex4 r.

(* appendEscapedRune (quote.go:67-119) with quote = double quote, ASCIIonly = graphicOnly = false *)
Definition esc_rune (isp : rune -> bool) (r : rune) : str :=
  if is_raw r then bslash :: 120 :: hex2 (r - raw_byte_base)      (* appendQuotedWith: width 1 RuneError *)
  else if (r =? dquote) || (r =? bslash) then [bslash; r]
  else if isp r then [r]
  else if r =? 7 then [bslash; 97]
  else if r =? 8 then [bslash; 98]
  else if r =? 12 then [bslash; 102]
  else if r =? 10 then [bslash; 110]
  else if r =? 13 then [bslash; 114]
  else if r =? 9 then [bslash; 116]
  else if r =? 11 then [bslash; 118]
  else if (r <? 32) || (r =? 127) then bslash :: 120 :: hex2 r
  else
    let r' := if valid_rune r then r else 65533 in
    if r' <? 65536 then bslash :: 117 :: hex4 r' else bslash :: 85 :: hex8 r'.

Definition quote (isp : rune -> bool) (s : str) : str :=
  dquote :: flat_map (esc_rune isp) s ++ [dquote].

(* ---- Unquote ---- *)
Definition unhex (c : rune) : option N :=
  if (48 <=? c) && (c <=? 57) then Some (c - 48)
  else if (97 <=? c) && (c <=? 102) then Some (c - 97 + 10)
  else if (65 <=? c) && (c <=? 70) then Some (c - 65 + 10)
  else None.
Definition unoct (c : rune) : option N :=
  if (48 <=? c) && (c <=? 55) then Some (c - 48) else None.

Fixpoint unhex_list (l : str) (acc : N) : option N :=
  match l with
  | [] => Some acc
  | c :: r => match unhex c with Some x => unhex_list r (acc * 16 + x) | None => None end
  end.

(* the byte appended for a value that is not multibyte *)
Definition as_byte (v : N) : rune := if v <? 128 then v else raw_byte_base + v.

Definition e_unquote : N := 4.

(* the loop of unquote (quote.go:455-487) with UnquoteChar (quote.go:262-367)
   inlined, quote = double quote.  Returns the value and what follows the closing quote. *)
Fixpoint unq_loop (s : str) (acc : str) : outcome (str * str) :=
  match s with
  | [] => Err e_unquote                                   (* no terminating quote *)
  | c :: r =>
      if c =? dquote then Ok (acc, r)
      else if c =? 10 then Err e_unquote
      else if negb (c =? bslash) then unq_loop r (acc ++ [if is_raw c then 65533 else c])   (* DecodeRuneInString + AppendRune *)
      else
        match r with
        | [] => Err e_unquote
        | e :: r2 =>
            if e =? 97 then unq_loop r2 (acc ++ [7])
            else if e =? 98 then unq_loop r2 (acc ++ [8])
            else if e =? 102 then unq_loop r2 (acc ++ [12])
            else if e =? 110 then unq_loop r2 (acc ++ [10])
            else if e =? 114 then unq_loop r2 (acc ++ [13])
            else if e =? 116 then unq_loop r2 (acc ++ [9])
            else if e =? 118 then unq_loop r2 (acc ++ [11])
            else if e =? bslash then unq_loop r2 (acc ++ [bslash])
            else if e =? dquote then unq_loop r2 (acc ++ [dquote])
            else if e =? 120 then
              match r2 with
              | a :: b :: r3 =>
                  match unhex_list [a; b] 0 with
                  | Some v => unq_loop r3 (acc ++ [as_byte v])
                  | None => Err e_unquote
                  end
              | _ => Err e_unquote
              end
            else if e =? 117 then
              match r2 with
              | a :: b :: c1 :: d :: r3 =>
                  match unhex_list [a; b; c1; d] 0 with
                  | Some v => if valid_rune v then unq_loop r3 (acc ++ [v]) else Err e_unquote
                  | None => Err e_unquote
                  end
              | _ => Err e_unquote
              end
            else if e =? 85 then
              match r2 with
              | a :: b :: c1 :: d :: a2 :: b2 :: c2 :: d2 :: r3 =>
                  match unhex_list [a; b; c1; d; a2; b2; c2; d2] 0 with
                  | Some v => if valid_rune v then unq_loop r3 (acc ++ [v]) else Err e_unquote
                  | None => Err e_unquote
                  end
              | _ => Err e_unquote
              end
            else
              match unoct e with
              | Some v0 =>
                  match r2 with
                  | a :: b :: r3 =>
                      match unoct a, unoct b with
                      | Some x, Some y =>
                          let v := (v0 * 8 + x) * 8 + y in
                          if 255 <? v then Err e_unquote else unq_loop r3 (acc ++ [as_byte v])
                      | _, _ => Err e_unquote
                      end
                  | _ => Err e_unquote
                  end
              | None => Err e_unquote                     (* \' and everything else *)
              end
        end
  end.

(* raw strings: up to the first back quote; carriage returns are discarded *)
Fixpoint raw_body (s : str) : option (str * str) :=
  match s with
  | [] => None
  | c :: r => if c =? bquote then Some ([], r)
              else match raw_body r with Some (b, rem) => Some (c :: b, rem) | None => None end
  end.

(* strconv.Unquote(s) for s starting with a double or a back quote (the only forms dials
   passes); single-quoted literals are not modelled (Err 9) *)
Definition unquote (s : str) : outcome str :=
  match s with
  | q :: (_ :: _) as body =>
      if q =? dquote then
        match unq_loop body [] with
        | Ok (v, rem) => if nilb rem then Ok v else Err e_unquote
        | Err c => Err c
        | Panic c => Panic c
        end
      else if q =? bquote then
        match raw_body body with
        | Some (b, rem) => if nilb rem then Ok (filter (fun c => negb (c =? 13)) b) else Err e_unquote
        | None => Err e_unquote
        end
      else Err 9
  | _ => Err e_unquote
  end.
