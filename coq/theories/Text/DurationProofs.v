(* Proofs about Text/ParseDuration.v: termination, totality, the machine loop
   against the unbounded sum (never wraps below 2^64; the wrap at exactly 2^64
   is refuted by a witness), and Duration.String round trip. *)
From Coq Require Import String.
From Coq Require Import List NArith ZArith Bool Lia ZifyBool.
From Dials Require Import Base.Outcome Base.Runes Text.ParseInt Text.ParseDuration Text.ParseIntProofs.
Import ListNotations.
Open Scope list_scope.
Open Scope N_scope.
Ltac Zify.zify_post_hook ::= Z.to_euclidean_division_equations.

(* ------------------------------------------------------------------ *)
(* every term consumes input *)

Lemma lead_int_len s : forall x v r, lead_int s x = Some (v, r) -> (length r <= length s)%nat.
Proof.
  induction s as [|c s IH]; intros x v r H; cbn [lead_int] in H; [inversion H; subst; lia|].
  destruct (is_digit c); [|inversion H; subst; lia].
  destruct (two63 / 10 <? x); [discriminate|]. destruct (two63 <? _); [discriminate|].
  apply IH in H. cbn [length]. lia.
Qed.

Lemma lead_frac_len s : forall x k ov y k' r, lead_frac s x k ov = (y, k', r) -> (length r <= length s)%nat.
Proof.
  induction s as [|c s IH]; intros x k ov y k' r H; cbn [lead_frac] in H; [inversion H; subst; lia|].
  destruct (is_digit c); [|inversion H; subst; lia].
  destruct ov; [apply IH in H; cbn [length]; lia|].
  destruct (_ <? x); [apply IH in H; cbn [length]; lia|].
  destruct (two63 <? _); apply IH in H; cbn [length]; lia.
Qed.

Lemma span_unit_len s : forall u r, span_unit s = (u, r) -> (length u + length r = length s)%nat.
Proof.
  induction s as [|c s IH]; intros u r H; cbn [span_unit] in H; [inversion H; subst; reflexivity|].
  destruct ((c =? 46) || is_digit c); [inversion H; subst; reflexivity|].
  destruct (span_unit s) as [u' r'] eqn:E. inversion H; subst. specialize (IH _ _ eq_refl). cbn [length]. lia.
Qed.

Lemma next_term_shrinks s v r ix : next_term s = TTerm v r ix -> (length r < length s)%nat /\ v <= two63.
Proof.
  unfold next_term. destruct s as [|c0 s']; [discriminate|]. set (s := c0 :: s').
  destruct (negb _); [discriminate|].
  destruct (lead_int s 0) as [[v0 s1]|] eqn:E1; [|discriminate]. apply lead_int_len in E1.
  assert (H2 : forall f k s2 post, (length s2 <= length s1)%nat ->
     (if negb (is_digit c0) && negb post then TSyntax
      else let '(u, s3) := span_unit s2 in
           if nilb u then TSyntax
           else match unit_of u with
                | None => TSyntax
                | Some unit =>
                    if two63 / unit <? v0 then TBig
                    else let v1 := v0 * unit in
                         let v2 := if 0 <? f then v1 + f * unit / 10 ^ k else v1 in
                         if two63 <? v2 then TBig else TTerm v2 s3 ((0 <? f) && negb (unit mod 10 ^ k =? 0))
                end) = TTerm v r ix -> (length r < length s)%nat /\ v <= two63).
  { intros f k s2 post Hl H. destruct (negb (is_digit c0) && negb post); [discriminate|].
    destruct (span_unit s2) as [u s3] eqn:E3. apply span_unit_len in E3.
    destruct u as [|u0 u']; [discriminate|]. cbn [nilb] in H.
    destruct (unit_of (u0 :: u')) as [unit|]; [|discriminate].
    destruct (two63 / unit <? v0); [discriminate|]. cbv zeta in H.
    destruct (two63 <? _) eqn:E4; [discriminate|]. inversion H; subst. cbn [length] in E3. split; lia. }
  destruct s1 as [|c1 r1]; [apply (H2 0 0 [] false); cbn; lia|].
  destruct (c1 =? 46).
  - destruct (lead_frac r1 0 0 false) as [[x k] rem] eqn:E2. apply lead_frac_len in E2.
    apply H2. cbn [length]. lia.
  - apply (H2 0 0 (c1 :: r1) false). lia.
Qed.

(* ------------------------------------------------------------------ *)
(* totality of the model: no Panic, fuel never exhausted *)

Lemma pd_loop_total fuel : forall s d ix, (length s <= fuel)%nat ->
  is_panic (pd_loop fuel s d ix) = false /\ pd_loop fuel s d ix <> Err e_dhang.
Proof.
  induction fuel as [|fl IH]; intros s d ix Hl.
  - destruct s; [split; [reflexivity|discriminate]|cbn in Hl; lia].
  - destruct s as [|c s']; [split; [reflexivity|discriminate]|]. cbn [pd_loop].
    destruct (next_term (c :: s')) as [| |v r ix'] eqn:E; try (split; [reflexivity|discriminate]).
    apply next_term_shrinks in E as [E _]. destruct (two63 <? _); [split; [reflexivity|discriminate]|].
    apply IH. lia.
Qed.

Lemma parse_duration_x_total s :
  is_panic (parse_duration_x s) = false /\ parse_duration_x s <> Err e_dhang.
Proof.
  unfold parse_duration_x.
  destruct (dur_sign s) as [neg s1].
  destruct (str_eqb s1 [48]); [split; [reflexivity|discriminate]|].
  destruct (nilb s1); [split; [reflexivity|discriminate]|].
  destruct (pd_loop_total (length s1) s1 0 false (le_n _)) as [H1 H2].
  destruct (pd_loop (length s1) s1 0 false) as [[d ix]|c|c]; cbn [obind].
  - destruct neg; [split; [reflexivity|discriminate]|]. destruct (_ <? d); split; try reflexivity; discriminate.
  - split; [reflexivity|]. intros H. apply H2. inversion H. reflexivity.
  - discriminate.
Qed.

(* ------------------------------------------------------------------ *)
(* the machine loop against the unbounded sum *)

Lemma pd_total_mono fuel : forall s t t', pd_total fuel s t = Some (Some t') -> t <= t'.
Proof.
  induction fuel as [|fl IH]; intros s t t' H; destruct s as [|c s']; cbn [pd_total] in H;
    try (inversion H; subst; lia); try discriminate.
  destruct (next_term (c :: s')) as [| |v r ix]; try discriminate. apply IH in H. lia.
Qed.

Lemma pd_loop_bad fuel : forall r t d b, (forall t', pd_total fuel r t <> Some (Some t')) ->
  exists c, pd_loop fuel r d b = Err c.
Proof.
  induction fuel as [|fl IH]; intros r t d b H; destruct r as [|c r']; cbn [pd_total pd_loop] in *;
    try (exfalso; eapply H; reflexivity); eauto.
  destruct (next_term (c :: r')) as [| |v' r2 ix2]; eauto.
  destruct (two63 <? _); eauto.
Qed.

Lemma lockstep fuel : forall s d ix, d <= two63 ->
  match pd_total fuel s d with
  | Some (Some t) => t < two64 ->
      if t <=? two63 then exists ix', pd_loop fuel s d ix = Ok (t, ix')
      else exists c, pd_loop fuel s d ix = Err c
  | _ => exists c, pd_loop fuel s d ix = Err c
  end.
Proof.
  induction fuel as [|fl IH]; intros s d ix Hd; destruct s as [|c s']; cbn [pd_total pd_loop].
  - intros _. assert (E : (d <=? two63) = true) by lia. rewrite E. eauto.
  - eauto.
  - intros _. assert (E : (d <=? two63) = true) by lia. rewrite E. eauto.
  - destruct (next_term (c :: s')) as [| |v r ix'] eqn:E; eauto.
    destruct (next_term_shrinks _ _ _ _ E) as [_ Hv].
    destruct (pd_total fl r (d + v)) as [[t|]|] eqn:Et.
    + intros Ht. pose proof (pd_total_mono _ _ _ _ Et) as Hm.
      assert (Hmod : (d + v) mod two64 = d + v) by (apply N.mod_small; lia). rewrite Hmod.
      destruct (two63 <? d + v) eqn:E2.
      * assert (E3 : (t <=? two63) = false) by lia. rewrite E3. eauto.
      * specialize (IH r (d + v) (ix || ix') ltac:(lia)). rewrite Et in IH. exact (IH Ht).
    + destruct (two63 <? (d + v) mod two64) eqn:E2; [eauto|].
      apply (pd_loop_bad fl r (d + v)). intros t' Ht'. congruence.
    + destruct (two63 <? (d + v) mod two64) eqn:E2; [eauto|].
      apply (pd_loop_bad fl r (d + v)). intros t' Ht'. congruence.
Qed.

(* ------------------------------------------------------------------ *)
(* duration_never_wraps: below 2^64 the result is the unbounded sum of the
   terms when that lies in the int64 range, and an error otherwise *)

Theorem duration_never_wraps_l s :
  match dur_spec s with
  | DVal neg t => t < two64 ->
      if neg then (if t <=? two63 then parse_duration s = Ok (- Z.of_N t)%Z else exists c, parse_duration s = Err c)
      else (if t <=? two63 - 1 then parse_duration s = Ok (Z.of_N t) else exists c, parse_duration s = Err c)
  | _ => exists c, parse_duration s = Err c
  end.
Proof.
  unfold dur_spec, parse_duration, parse_duration_x. destruct (dur_sign s) as [neg s1].
  destruct (str_eqb s1 [48]).
  { intros _. destruct neg; reflexivity. }
  destruct (nilb s1); [cbn [obind omap]; eauto|].
  pose proof (lockstep (length s1) s1 0 false ltac:(unfold two63; lia)) as H.
  destruct (pd_total (length s1) s1 0) as [[t|]|].
  - intros Ht. specialize (H Ht). destruct (t <=? two63) eqn:E.
    + destruct H as [ix' ->]. cbn [obind]. destruct neg.
      * rewrite wrap_signed_neg64 by (unfold two63 in E; lia). reflexivity.
      * destruct (two63 - 1 <? t) eqn:E2.
        -- assert (E3 : (t <=? two63 - 1) = false) by lia. rewrite E3. cbn [obind omap]. eauto.
        -- assert (E3 : (t <=? two63 - 1) = true) by lia. rewrite E3. reflexivity.
    + destruct H as [c ->]. cbn [obind omap]. destruct neg; [eauto|].
      assert (E3 : (t <=? two63 - 1) = false) by (unfold two63 in *; lia). rewrite E3. eauto.
  - destruct H as [c ->]. cbn [obind omap]. eauto.
  - destruct H as [c ->]. cbn [obind omap]. eauto.
Qed.

(* at 2^64 the uint64 accumulator of time.ParseDuration wraps: two terms of 2^63 ns
   are accepted as the zero duration *)
Example duration_wraps_refuted :
  dur_spec (s2r "9223372036854775808ns9223372036854775808ns") = DVal false 18446744073709551616 /\
  parse_duration (s2r "9223372036854775808ns9223372036854775808ns") = Ok 0%Z.
Proof. split; vm_compute; reflexivity. Qed.

Example duration_examples :
  parse_duration (s2r "1h2m3.5s") = Ok 3723500000000%Z /\ parse_duration (s2r "-1.5ms") = Ok (-1500000)%Z /\
  parse_duration (s2r "2562047h47m16.854775807s") = Ok 9223372036854775807%Z /\
  (exists c, parse_duration (s2r "2562047h47m16.854775808s") = Err c) /\
  parse_duration (s2r "-2562047h47m16.854775808s") = Ok (-9223372036854775808)%Z /\
  (exists c, parse_duration (s2r "1") = Err c) /\ (exists c, parse_duration (s2r ".s") = Err c) /\
  dur_string 3723500000000%Z = s2r "1h2m3.5s" /\ dur_string (-1500000)%Z = s2r "-1.5ms" /\ dur_string 0%Z = s2r "0s".
Proof. repeat split; try (eexists; vm_compute; reflexivity); vm_compute; reflexivity. Qed.

(* ------------------------------------------------------------------ *)
(* Duration.String round trip *)

Definition dec_val (D : str) (x : N) : N := fold_left (fun a c => a * 10 + (c - 48)) D x.
Definition pow10 (k : nat) : N := 10 ^ N.of_nat k.

Lemma pow10_S k : pow10 (S k) = 10 * pow10 k.
Proof. unfold pow10. rewrite Nat2N.inj_succ, N.pow_succ_r'. reflexivity. Qed.
Lemma pow10_0 : pow10 0 = 1.
Proof. reflexivity. Qed.
Lemma pow10_pos k : 0 < pow10 k.
Proof. unfold pow10. apply N.neq_0_lt_0, N.pow_nonzero. lia. Qed.

Lemma dec_val_shift D : forall x, dec_val D x = x * pow10 (length D) + dec_val D 0.
Proof.
  induction D as [|c D IH]; intros x; cbn [dec_val fold_left length].
  - unfold pow10. cbn. lia.
  - fold (dec_val D (x * 10 + (c - 48))). fold (dec_val D (0 * 10 + (c - 48))).
    rewrite (IH (x * 10 + (c - 48))), (IH (0 * 10 + (c - 48))), pow10_S. lia.
Qed.

Lemma dec_val_mono D x : x <= dec_val D x.
Proof. rewrite dec_val_shift. pose proof (pow10_pos (length D)). nia. Qed.

Lemma is_dec_digit c : is_dec c -> is_digit c = true /\ (c =? 46) = false.
Proof. unfold is_dec, is_digit. lia. Qed.

Lemma digits_val_dec D : Forall is_dec D -> forall x, digits_val 10 D x = Some (dec_val D x).
Proof.
  induction 1 as [|c D Hc _ IH]; intros x; [reflexivity|]. cbn [digits_val dec_val fold_left].
  unfold is_dec in Hc. assert (E : (c =? 95) = false) by lia. rewrite E.
  replace c with (48 + (c - 48)) at 1 by lia. rewrite digit_of_dec by lia.
  assert (E2 : (c - 48 <? 10) = true) by lia. rewrite E2. apply IH.
Qed.

Lemma some_inj (a b : N) : Some a = Some b -> a = b.
Proof. intros [= H]. exact H. Qed.

Lemma format_uint_val n : dec_val (format_uint n) 0 = n.
Proof.
  pose proof (digits_val_dec _ (format_uint_dec n) 0) as H.
  unfold format_uint in *. rewrite dec_digits_val in H by apply format_fuel.
  change (digits_val 10 [] n) with (Some n) in H. symmetry. exact (some_inj _ _ H).
Qed.

Lemma lead_int_digits D : Forall is_dec D -> forall x rest, starts_digit rest = false ->
  dec_val D x <= two63 -> lead_int (D ++ rest) x = Some (dec_val D x, rest).
Proof.
  induction 1 as [|c D Hc _ IH]; intros x rest Hr Hb; cbn [app].
  - destruct rest as [|c r]; [reflexivity|]. cbn [starts_digit] in Hr. cbn [lead_int]. rewrite Hr. reflexivity.
  - cbn [lead_int dec_val fold_left] in *. fold (dec_val D (x * 10 + (c - 48))) in *.
    destruct (is_dec_digit c Hc) as [Hd _]. rewrite Hd.
    pose proof (dec_val_mono D (x * 10 + (c - 48))) as Hm.
    assert (E1 : (two63 / 10 <? x) = false) by (unfold two63 in *; lia). rewrite E1.
    assert (E2 : (two63 <? x * 10 + (c - 48)) = false) by lia. rewrite E2. apply IH; assumption.
Qed.

Lemma lead_frac_digits D : Forall is_dec D -> forall x k rest, starts_digit rest = false ->
  dec_val D x <= (two63 - 1) / 10 ->
  lead_frac (D ++ rest) x k false = (dec_val D x, k + N.of_nat (length D), rest).
Proof.
  induction 1 as [|c D Hc _ IH]; intros x k rest Hr Hb; cbn [app].
  - cbn [length]. rewrite N.add_0_r. destruct rest as [|c r]; [reflexivity|]. cbn [starts_digit] in Hr.
    cbn [lead_frac]. rewrite Hr. reflexivity.
  - cbn [lead_frac dec_val fold_left] in *. fold (dec_val D (x * 10 + (c - 48))) in *.
    destruct (is_dec_digit c Hc) as [Hd _]. rewrite Hd.
    pose proof (dec_val_mono D (x * 10 + (c - 48))) as Hm.
    assert (E1 : ((two63 - 1) / 10 <? x) = false) by (unfold two63 in *; lia). rewrite E1.
    assert (E2 : (two63 <? x * 10 + (c - 48)) = false) by (unfold two63 in *; lia). rewrite E2.
    rewrite IH by assumption. cbn [length]. rewrite Nat2N.inj_succ. f_equal. f_equal. lia.
Qed.

Lemma mod_pow10_S v p : v mod pow10 (S p) = 10 * ((v / 10) mod pow10 p) + v mod 10.
Proof.
  rewrite pow10_S. pose proof (pow10_pos p). rewrite N.mod_mul_r by lia. lia.
Qed.

Definition frac_text (D : str) : str := if nilb D then [] else 46 :: D.

Lemma fmt_frac_spec p : forall v print acc, Forall is_dec acc -> print = negb (nilb acc) ->
  exists D, fmt_frac p v print acc = (frac_text D, v / pow10 p) /\ Forall is_dec D /\
            (length D <= p + length acc)%nat /\
            dec_val D 0 * pow10 (p + length acc - length D) = (v mod pow10 p) * pow10 (length acc) + dec_val acc 0.
Proof.
  induction p as [|p IH]; intros v print acc Ha Hp.
  - exists acc. cbn [fmt_frac]. rewrite Hp. rewrite pow10_0, N.div_1_r.
    split; [unfold frac_text; destruct acc; reflexivity|]. split; [exact Ha|]. cbn [Nat.add]. split; [apply le_n|].
    rewrite Nat.sub_diag. rewrite pow10_0, N.mod_1_r. lia.
  - cbn [fmt_frac]. cbv zeta. set (dg := v mod 10).
    assert (Hdg : dg < 10) by (apply N.mod_lt; lia).
    assert (Hdiv : v / 10 / pow10 p = v / pow10 (S p)).
    { rewrite pow10_S, N.div_div by (pose proof (pow10_pos p); lia). reflexivity. }
    rewrite mod_pow10_S. fold dg.
    destruct (print || negb (dg =? 0)) eqn:Epr.
    + assert (Ha' : Forall is_dec ((48 + dg) :: acc)) by (constructor; [unfold is_dec; lia|exact Ha]).
      destruct (IH (v / 10) true ((48 + dg) :: acc) Ha' eq_refl) as (D & E & HD & Hlen & Hval).
      exists D. rewrite E, Hdiv. split; [reflexivity|]. split; [exact HD|]. cbn [length] in *. split; [lia|].
      replace (S p + length acc - length D)%nat with (p + S (length acc) - length D)%nat by lia. rewrite Hval.
      change (dec_val ((48 + dg) :: acc) 0) with (dec_val acc (0 * 10 + (48 + dg - 48))).
      rewrite (dec_val_shift acc), pow10_S. replace (48 + dg - 48) with dg by lia. lia.
    + assert (Hacc : acc = []).
      { destruct print; [discriminate|]. destruct acc; [reflexivity|discriminate]. }
      subst acc. assert (Hz : dg = 0) by (destruct print; [discriminate|]; cbn in Epr; lia).
      destruct (IH (v / 10) false [] Ha eq_refl) as (D & E & HD & Hlen & Hval).
      exists D. rewrite E, Hdiv. split; [reflexivity|]. split; [exact HD|]. cbn [length] in *. split; [lia|].
      rewrite Nat.add_0_r in *. replace (S p - length D)%nat with (S (p - length D)) by lia.
      rewrite pow10_S. rewrite pow10_0 in *. cbn [dec_val fold_left] in *. lia.
Qed.

Definition unit_char (c : rune) : bool := negb ((c =? 46) || is_digit c).

Lemma span_unit_app u : forall rest, Forall (fun c => unit_char c = true) u ->
  (rest = [] \/ starts_digit rest = true) -> span_unit (u ++ rest) = (u, rest).
Proof.
  induction u as [|c u IH]; intros rest Hu Hr; cbn [app].
  - destruct Hr as [-> | Hr]; [reflexivity|]. destruct rest as [|c r]; [discriminate|].
    cbn [starts_digit] in Hr. cbn [span_unit]. rewrite Hr, orb_true_r. reflexivity.
  - inversion Hu as [|? ? Hc Hu']; subst. cbn [span_unit]. unfold unit_char in Hc. apply negb_true_iff in Hc.
    rewrite Hc, IH by assumption. reflexivity.
Qed.

Definition frac_ns (D : str) (unit : N) : N :=
  if 0 <? dec_val D 0 then dec_val D 0 * unit / 10 ^ N.of_nat (length D) else 0.

(* one rendered term: integer part, optional fraction, unit *)
Lemma next_term_rendered n D u unit rest :
  n <= two63 -> Forall is_dec D -> dec_val D 0 <= (two63 - 1) / 10 ->
  u <> [] -> Forall (fun c => unit_char c = true) u -> unit_of u = Some unit -> n <= two63 / unit ->
  (rest = [] \/ starts_digit rest = true) ->
  n * unit + frac_ns D unit <= two63 ->
  exists ix, next_term (format_uint n ++ frac_text D ++ u ++ rest) = TTerm (n * unit + frac_ns D unit) rest ix.
Proof.
  unfold frac_ns. intros Hn HD HDb Hu0 Hu Hunit Hnu Hrest Hv2.
  set (tail := frac_text D ++ u ++ rest).
  assert (Htail : starts_digit tail = false).
  { subst tail. unfold frac_text. destruct D as [|c D']; cbn [nilb app].
    - destruct u as [|c0 u']; [congruence|]. inversion Hu as [|? ? Hc _]; subst. cbn [app starts_digit].
      unfold unit_char in Hc. apply negb_true_iff in Hc. apply orb_false_iff in Hc. tauto.
    - reflexivity. }
  pose proof (lead_int_digits _ (format_uint_dec n) 0 tail Htail) as Hli. rewrite format_uint_val in Hli.
  specialize (Hli Hn).
  destruct (format_uint_head n) as (d & r & E & Hd). unfold next_term. rewrite E in *. cbn [app].
  change (d :: r ++ tail) with ((d :: r) ++ tail). rewrite Hli.
  assert (Hdig : is_digit d = true) by (unfold is_digit; lia). rewrite Hdig. rewrite orb_true_r. cbn [negb andb].
  assert (Hcore : forall f k post, f = dec_val D 0 -> k = N.of_nat (length D) ->
    exists ix,
    (if negb true && negb post then TSyntax
     else let '(u0, s3) := span_unit (u ++ rest) in
          if nilb u0 then TSyntax
          else match unit_of u0 with
               | None => TSyntax
               | Some unit0 =>
                   if two63 / unit0 <? n then TBig
                   else let v1 := n * unit0 in
                        let v2 := if 0 <? f then v1 + f * unit0 / 10 ^ k else v1 in
                        if two63 <? v2 then TBig else TTerm v2 s3 ((0 <? f) && negb (unit0 mod 10 ^ k =? 0))
               end) = TTerm (n * unit + (if 0 <? dec_val D 0 then dec_val D 0 * unit / 10 ^ N.of_nat (length D) else 0)) rest ix).
  { intros f k post -> ->. cbn [negb andb]. rewrite span_unit_app by assumption.
    destruct u as [|c0 u']; [congruence|]. cbn [nilb]. rewrite Hunit.
    assert (E1 : (two63 / unit <? n) = false) by lia. rewrite E1. cbv zeta.
    destruct (0 <? dec_val D 0) eqn:Ef.
    - assert (E2 : (two63 <? n * unit + dec_val D 0 * unit / 10 ^ N.of_nat (length D)) = false) by lia.
      rewrite E2. eauto.
    - rewrite N.add_0_r in *. assert (E2 : (two63 <? n * unit) = false) by lia. rewrite E2. eauto. }
  subst tail. unfold frac_text. destruct D as [|c D']; cbn [nilb app].
  - (* no fraction *)
    destruct u as [|c0 u']; [congruence|]. cbn [app]. inversion Hu as [|? ? Hc _]; subst.
    unfold unit_char in Hc. apply negb_true_iff in Hc. apply orb_false_iff in Hc as [Hc46 _]. rewrite Hc46.
    destruct (Hcore 0 0 false eq_refl eq_refl) as [ix Hix]. exists ix. exact Hix.
  - change (46 =? 46) with true. cbv iota.
    assert (Hst : starts_digit (u ++ rest) = false).
    { destruct u as [|c0 u']; [congruence|]. inversion Hu as [|? ? Hc _]; subst. cbn [app starts_digit].
      unfold unit_char in Hc. apply negb_true_iff in Hc. apply orb_false_iff in Hc. tauto. }
    change (c :: D' ++ u ++ rest) with ((c :: D') ++ (u ++ rest)).
    rewrite (lead_frac_digits _ HD 0 0 (u ++ rest) Hst HDb).
    destruct (Hcore (dec_val (c :: D') 0) (0 + N.of_nat (length (c :: D'))) (starts_digit ((c :: D') ++ u ++ rest)) eq_refl ltac:(lia)) as [ix Hix].
    exists ix. exact Hix.
Qed.

Lemma pd_loop_fuel f1 : forall f2 s d ix, (length s <= f1)%nat -> (length s <= f2)%nat ->
  pd_loop f1 s d ix = pd_loop f2 s d ix.
Proof.
  induction f1 as [|f1 IH]; intros f2 s d ix H1 H2.
  - destruct s; [destruct f2; reflexivity|cbn in H1; lia].
  - destruct s as [|c s']; [destruct f2; reflexivity|]. destruct f2 as [|f2]; [cbn in H2; lia|].
    cbn [pd_loop]. destruct (next_term (c :: s')) as [| |v r ix'] eqn:E; try reflexivity.
    apply next_term_shrinks in E as [E _]. destruct (two63 <? _); [reflexivity|]. cbn [length] in *. apply IH; lia.
Qed.


Lemma pd_step s v r ix' d ix : next_term s = TTerm v r ix' -> d + v <= two63 ->
  pd_loop (length s) s d ix = pd_loop (length r) r (d + v) (ix || ix').
Proof.
  intros Hnt Hsum. destruct (next_term_shrinks _ _ _ _ Hnt) as [Hlen _].
  destruct s as [|c w]; [cbn in Hlen; lia|]. cbn [length pd_loop]. rewrite Hnt.
  rewrite N.mod_small by (unfold two63, two64 in *; lia).
  assert (E : (two63 <? d + v) = false) by lia. rewrite E.
  apply pd_loop_fuel; [cbn [length] in Hlen; lia|lia].
Qed.

(* the loop over one rendered term *)
Lemma pd_term n D u unit rest d ix :
  n <= two63 -> Forall is_dec D -> dec_val D 0 <= (two63 - 1) / 10 ->
  u <> [] -> Forall (fun c => unit_char c = true) u -> unit_of u = Some unit -> n <= two63 / unit ->
  (rest = [] \/ starts_digit rest = true) ->
  d + (n * unit + frac_ns D unit) <= two63 ->
  exists ix', pd_loop (length (format_uint n ++ frac_text D ++ u ++ rest)) (format_uint n ++ frac_text D ++ u ++ rest) d ix
              = pd_loop (length rest) rest (d + (n * unit + frac_ns D unit)) ix'.
Proof.
  intros Hn HD HDb Hu0 Hu Hunit Hnu Hrest Hsum.
  destruct (next_term_rendered n D u unit rest Hn HD HDb Hu0 Hu Hunit Hnu Hrest ltac:(lia)) as [ix' Hnt].
  rewrite (pd_step _ _ _ _ d ix Hnt Hsum). eauto.
Qed.

Lemma pow10_add a b : pow10 (a + b) = pow10 a * pow10 b.
Proof. unfold pow10. rewrite Nat2N.inj_add, N.pow_add_r. reflexivity. Qed.

Lemma frac_value p D w : (length D <= p)%nat -> dec_val D 0 * pow10 (p - length D) = w ->
  frac_ns D (pow10 p) = w /\ dec_val D 0 <= w.
Proof.
  intros Hl Hw. unfold frac_ns. pose proof (pow10_pos (p - length D)) as Hp.
  replace p with (length D + (p - length D))%nat at 1 by lia. rewrite pow10_add. fold (pow10 (length D)).
  split; [|nia]. destruct (0 <? dec_val D 0) eqn:E.
  - rewrite N.mul_assoc, (N.mul_comm (dec_val D 0)), <- N.mul_assoc, N.mul_comm.
    rewrite N.div_mul by (pose proof (pow10_pos (length D)); lia). exact Hw.
  - assert (dec_val D 0 = 0) by lia. nia.
Qed.

Lemma unit_chars_ok :
  Forall (fun c => unit_char c = true) [110; 115] /\ Forall (fun c => unit_char c = true) [181; 115] /\
  Forall (fun c => unit_char c = true) [109; 115] /\ Forall (fun c => unit_char c = true) [115] /\
  Forall (fun c => unit_char c = true) [109] /\ Forall (fun c => unit_char c = true) [104].
Proof. repeat split; repeat constructor. Qed.

Lemma format_uint_starts n rest : starts_digit (format_uint n ++ rest) = true.
Proof. destruct (format_uint_head n) as (d & r & E & Hd). rewrite E. cbn. unfold is_digit. lia. Qed.

(* a sub-second body: one term with a fraction of p digits *)
Lemma sub_second p u us : (0 < p)%nat -> u <= two63 -> pow10 p <= 1000000000 ->
  us <> [] -> Forall (fun c => unit_char c = true) us -> unit_of us = Some (pow10 p) ->
  let '(fr, u') := fmt_frac p u false [] in
  exists ixf, pd_loop (length (format_uint u' ++ fr ++ us)) (format_uint u' ++ fr ++ us) 0 false = Ok (u, ixf).
Proof.
  intros Hp Hu Hpow Hus0 Hus Hunit.
  destruct (fmt_frac_spec p u false [] ltac:(constructor) eq_refl) as (D & E & HD & Hlen & Hval).
  rewrite E. cbn [length] in *. rewrite Nat.add_0_r, pow10_0 in *. cbn [dec_val fold_left] in Hval.
  rewrite N.mul_1_r, N.add_0_r in Hval.
  destruct (frac_value p D _ Hlen Hval) as [Hfv Hle].
  pose proof (pow10_pos p) as Hpp. assert (Hm : u mod pow10 p < pow10 p) by (apply N.mod_lt; lia).
  destruct (pd_term (u / pow10 p) D us (pow10 p) [] 0 false) as [ix' Hpd]; auto.
  - apply N.div_le_upper_bound; [lia|]. nia.
  - unfold two63 in *. lia.
  - apply N.div_le_mono; lia.
  - rewrite Hfv. rewrite N.add_0_l. pose proof (N.div_mod u (pow10 p) ltac:(lia)). lia.
  - rewrite app_nil_r in Hpd. rewrite Hpd. cbn [length pd_loop]. rewrite Hfv, N.add_0_l.
    pose proof (N.div_mod u (pow10 p) ltac:(lia)). exists ix'. f_equal. f_equal. lia.
Qed.

Lemma frac_ns_nil unit : frac_ns [] unit = 0.
Proof. reflexivity. Qed.

Ltac u63 := unfold two63 in *; cbn [dec_val fold_left] in *; lia.

Lemma nil_ok : Forall is_dec [] /\ dec_val [] 0 <= (two63 - 1) / 10.
Proof. split; [constructor|u63]. Qed.

Lemma body_parses u : u <= two63 ->
  exists ixf, pd_loop (length (dur_body u)) (dur_body u) 0 false = Ok (u, ixf).
Proof.
  intros Hu. destruct unit_chars_ok as (Uns & Uus & Ums & Us & Um & Uh). destruct nil_ok as [Nil1 Nil2].
  unfold dur_body.
  destruct (u <? 1000000000) eqn:E9.
  - destruct (u =? 0) eqn:E0.
    { assert (u = 0) by lia. subst. exists false. vm_compute. reflexivity. }
    destruct (u <? 1000) eqn:E3.
    { destruct (pd_term u [] [110; 115] 1 [] 0 false Hu Nil1 Nil2 ltac:(discriminate) Uns eq_refl
                  ltac:(change (two63 / 1) with two63; exact Hu) (or_introl eq_refl)
                  ltac:(rewrite frac_ns_nil; lia)) as [ix' H].
      exists ix'. etransitivity; [exact H|]. rewrite frac_ns_nil. cbn [length pd_loop]. do 2 f_equal; lia. }
    destruct (u <? 1000000) eqn:E6.
    + apply (sub_second 3 u [181; 115]); auto; try discriminate; try (change (pow10 3) with 1000; lia).
    + apply (sub_second 6 u [109; 115]); auto; try discriminate; try (change (pow10 6) with 1000000; lia).
  - destruct (fmt_frac_spec 9 u false [] ltac:(constructor) eq_refl) as (D & E & HD & Hlen & Hval).
    rewrite E. cbn [length] in Hlen, Hval. rewrite Nat.add_0_r, pow10_0 in *. cbn [dec_val fold_left] in Hval.
    rewrite N.mul_1_r, N.add_0_r in Hval.
    destruct (frac_value 9 D _ Hlen Hval) as [Hfv Hle]. change (pow10 9) with 1000000000 in *.
    assert (Hm : u mod 1000000000 < 1000000000) by (apply N.mod_lt; lia).
    assert (HDb : dec_val D 0 <= (two63 - 1) / 10) by (unfold two63; lia).
    set (secs := u / 1000000000). set (mins := secs / 60). set (hours := mins / 60).
    set (spart := format_uint (secs mod 60) ++ frac_text D ++ [115]).
    (* the seconds term, from any accumulator d *)
    assert (Hs : forall d ix, d + (secs mod 60 * 1000000000 + u mod 1000000000) <= two63 ->
              exists ix', pd_loop (length spart) spart d ix = Ok (d + (secs mod 60 * 1000000000 + u mod 1000000000), ix')).
    { intros d ix Hd. subst spart.
      destruct (pd_term (secs mod 60) D [115] 1000000000 [] d ix ltac:(u63) HD HDb ltac:(discriminate) Us eq_refl
                  ltac:(u63) (or_introl eq_refl) ltac:(rewrite Hfv; exact Hd)) as [ix' H].
      exists ix'. etransitivity; [exact H|]. rewrite Hfv. reflexivity. }
    cbv zeta. fold secs mins hours spart.
    set (mpart := format_uint (mins mod 60) ++ [109]).
    assert (Hmt : forall d ix, d + (mins mod 60 * 60000000000 + (secs mod 60 * 1000000000 + u mod 1000000000)) <= two63 ->
              exists ix', pd_loop (length (mpart ++ spart)) (mpart ++ spart) d ix
                          = Ok (d + (mins mod 60 * 60000000000 + (secs mod 60 * 1000000000 + u mod 1000000000)), ix')).
    { intros d ix Hd. subst mpart. rewrite <- app_assoc.
      destruct (pd_term (mins mod 60) [] [109] 60000000000 spart d ix ltac:(u63) Nil1 Nil2 ltac:(discriminate) Um eq_refl
                  ltac:(u63) (or_intror (format_uint_starts _ _)) ltac:(rewrite frac_ns_nil; lia)) as [ix' H].
      destruct (Hs (d + mins mod 60 * 60000000000) ix' ltac:(lia)) as [ix2 H2].
      exists ix2. etransitivity; [exact H|]. rewrite frac_ns_nil, N.add_0_r. etransitivity; [exact H2|]. do 2 f_equal; lia. }
    destruct (0 <? mins) eqn:Emin.
    + destruct (0 <? hours) eqn:Eh.
      * assert (Hst : starts_digit (mpart ++ spart) = true) by (subst mpart; rewrite <- app_assoc; apply format_uint_starts).
        destruct (pd_term hours [] [104] 3600000000000 (mpart ++ spart) 0 false
                    ltac:(unfold hours, mins, secs, two63 in *; lia) Nil1 Nil2 ltac:(discriminate) Uh eq_refl
                    ltac:(unfold hours, mins, secs, two63 in *; lia) (or_intror Hst)
                    ltac:(rewrite frac_ns_nil; unfold hours, mins, secs, two63 in *; lia)) as [ix' H].
        destruct (Hmt (hours * 3600000000000) ix' ltac:(unfold hours, mins, secs, two63 in *; lia)) as [ix2 H2].
        exists ix2. etransitivity; [exact H|]. rewrite frac_ns_nil, N.add_0_r, N.add_0_l. etransitivity; [exact H2|].
        do 2 f_equal; unfold hours, mins, secs; lia.
      * destruct (Hmt 0 false ltac:(unfold hours, mins, secs, two63 in *; lia)) as [ix2 H2].
        exists ix2. etransitivity; [exact H2|]. do 2 f_equal; unfold hours, mins, secs in *; lia.
    + destruct (Hs 0 false ltac:(unfold mins, secs, two63 in *; lia)) as [ix2 H2].
      exists ix2. etransitivity; [exact H2|]. do 2 f_equal; unfold mins, secs in *; lia.
Qed.

Lemma format_app_head n X : X <> [] -> exists d c r, format_uint n ++ X = d :: c :: r /\ 48 <= d <= 57.
Proof.
  intros HX. destruct (format_uint_head n) as (d & r & E & Hd). rewrite E. cbn [app].
  destruct (r ++ X) as [|c r'] eqn:E2; [apply app_eq_nil in E2 as [_ E2]; congruence|]. eauto.
Qed.

Lemma dur_body_head u : exists d c r, dur_body u = d :: c :: r /\ 48 <= d <= 57.
Proof.
  unfold dur_body. destruct (u <? 1000000000).
  - destruct (u =? 0); [exists 48, 115, []; split; [reflexivity|lia]|].
    destruct (u <? 1000); [apply format_app_head; discriminate|].
    destruct (u <? 1000000).
    + destruct (fmt_frac 3 u false []) as [fr u']. apply format_app_head. destruct fr; discriminate.
    + destruct (fmt_frac 6 u false []) as [fr u']. apply format_app_head. destruct fr; discriminate.
  - destruct (fmt_frac 9 u false []) as [fr secs]. cbv zeta.
    destruct (0 <? secs / 60).
    + destruct (0 <? secs / 60 / 60).
      * apply format_app_head. discriminate.
      * rewrite <- app_assoc. apply format_app_head. discriminate.
    + apply format_app_head. destruct fr; discriminate.
Qed.

(* Duration.String of every int64 nanosecond count parses back to it *)
Theorem duration_roundtrip_l z : (- Z.of_N two63 <= z < Z.of_N two63)%Z -> parse_duration (dur_string z) = Ok z.
Proof.
  intros Hz. set (u := Z.to_N (Z.abs z)). assert (Hu : u <= two63) by (unfold two63 in *; lia).
  destruct (body_parses u Hu) as [ixf Hb]. destruct (dur_body_head u) as (d & c & r & Eb & Hd).
  unfold parse_duration, parse_duration_x, dur_string. fold u.
  destruct (z <? 0)%Z eqn:En.
  - cbn [dur_sign]. change (45 =? 45) with true. cbv iota.
    assert (E48 : str_eqb (dur_body u) [48] = false) by (rewrite Eb; cbn; apply andb_false_r).
    assert (Enil : nilb (dur_body u) = false) by (rewrite Eb; reflexivity).
    rewrite E48, Enil, Hb. cbn [obind omap fst]. rewrite wrap_signed_neg64 by (unfold two63 in Hu; exact Hu).
    f_equal. unfold two63 in *. lia.
  - assert (Hs : dur_sign (dur_body u) = (false, dur_body u)).
    { rewrite Eb. cbn [dur_sign]. assert (E1 : (d =? 45) = false) by lia. assert (E2 : (d =? 43) = false) by lia.
      rewrite E1, E2. reflexivity. }
    rewrite Hs.
    assert (E48 : str_eqb (dur_body u) [48] = false) by (rewrite Eb; cbn; apply andb_false_r).
    assert (Enil : nilb (dur_body u) = false) by (rewrite Eb; reflexivity).
    rewrite E48, Enil, Hb. cbn [obind omap fst].
    assert (E : (two63 - 1 <? u) = false) by (unfold two63 in *; lia). rewrite E. cbn [omap fst].
    f_equal. unfold two63 in *. lia.
Qed.
