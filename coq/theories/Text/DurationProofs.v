(* Proofs about Text/ParseDuration.v: termination, totality, the machine loop
   against the unbounded sum (never wraps below 2^64; the wrap at exactly 2^64
   is refuted by a witness), and Duration.String round trip. *)
From Coq Require Import String.
From Coq Require Import List NArith ZArith Bool Lia ZifyBool.
From Dials Require Import Base.Outcome Base.Runes Text.ParseInt Text.ParseDuration Text.ParseIntProofs.
Import ListNotations.
Open Scope list_scope.
Open Scope N_scope.
Ltac Zify.zify_post_hook ::= Z.to_euclidean_division_equations.

(* ------------------------------------------------------------------ *)
(* every term consumes input *)

Lemma lead_int_len s : forall x v r, lead_int s x = Some (v, r) -> (length r <= length s)%nat.
Proof.
  induction s as [|c s IH]; intros x v r H; cbn [lead_int] in H; [inversion H; subst; lia|].
  destruct (is_digit c); [|inversion H; subst; lia].
  destruct (two63 / 10 <? x); [discriminate|]. destruct (two63 <? _); [discriminate|].
  apply IH in H. cbn [length]. lia.
Qed.

Lemma lead_frac_len s : forall x k ov y k' r, lead_frac s x k ov = (y, k', r) -> (length r <= length s)%nat.
Proof.
  induction s as [|c s IH]; intros x k ov y k' r H; cbn [lead_frac] in H; [inversion H; subst; lia|].
  destruct (is_digit c); [|inversion H; subst; lia].
  destruct ov; [apply IH in H; cbn [length]; lia|].
  destruct (_ <? x); [apply IH in H; cbn [length]; lia|].
  destruct (two63 <? _); apply IH in H; cbn [length]; lia.
Qed.

Lemma span_unit_len s : forall u r, span_unit s = (u, r) -> (length u + length r = length s)%nat.
Proof.
  induction s as [|c s IH]; intros u r H; cbn [span_unit] in H; [inversion H; subst; reflexivity|].
  destruct ((c =? 46) || is_digit c); [inversion H; subst; reflexivity|].
  destruct (span_unit s) as [u' r'] eqn:E. inversion H; subst. specialize (IH _ _ eq_refl). cbn [length]. lia.
Qed.

Lemma next_term_shrinks s v r ix : next_term s = TTerm v r ix -> (length r < length s)%nat /\ v <= two63.
Proof.
  unfold next_term. destruct s as [|c0 s']; [discriminate|]. set (s := c0 :: s').
  destruct (negb _); [discriminate|].
  destruct (lead_int s 0) as [[v0 s1]|] eqn:E1; [|discriminate]. apply lead_int_len in E1.
  assert (H2 : forall f k s2 post, (length s2 <= length s1)%nat ->
     (if negb (is_digit c0) && negb post then TSyntax
      else let '(u, s3) := span_unit s2 in
           if nilb u then TSyntax
           else match unit_of u with
                | None => TSyntax
                | Some unit =>
                    if two63 / unit <? v0 then TBig
                    else let v1 := v0 * unit in
                         let v2 := if 0 <? f then v1 + f * unit / 10 ^ k else v1 in
                         if two63 <? v2 then TBig else TTerm v2 s3 ((0 <? f) && negb (unit mod 10 ^ k =? 0))
                end) = TTerm v r ix -> (length r < length s)%nat /\ v <= two63).
  { intros f k s2 post Hl H. destruct (negb (is_digit c0) && negb post); [discriminate|].
    destruct (span_unit s2) as [u s3] eqn:E3. apply span_unit_len in E3.
    destruct u as [|u0 u']; [discriminate|]. cbn [nilb] in H.
    destruct (unit_of (u0 :: u')) as [unit|]; [|discriminate].
    destruct (two63 / unit <? v0); [discriminate|]. cbv zeta in H.
    destruct (two63 <? _) eqn:E4; [discriminate|]. inversion H; subst. cbn [length] in E3. split; lia. }
  destruct s1 as [|c1 r1]; [apply (H2 0 0 [] false); cbn; lia|].
  destruct (c1 =? 46).
  - destruct (lead_frac r1 0 0 false) as [[x k] rem] eqn:E2. apply lead_frac_len in E2.
    apply H2. cbn [length]. lia.
  - apply (H2 0 0 (c1 :: r1) false). lia.
Qed.

(* ------------------------------------------------------------------ *)
(* totality of the model: no Panic, fuel never exhausted *)

Lemma pd_loop_total fuel : forall s d ix, (length s <= fuel)%nat ->
  is_panic (pd_loop fuel s d ix) = false /\ pd_loop fuel s d ix <> Err e_dhang.
Proof.
  induction fuel as [|fl IH]; intros s d ix Hl.
  - destruct s; [split; [reflexivity|discriminate]|cbn in Hl; lia].
  - destruct s as [|c s']; [split; [reflexivity|discriminate]|]. cbn [pd_loop].
    destruct (next_term (c :: s')) as [| |v r ix'] eqn:E; try (split; [reflexivity|discriminate]).
    apply next_term_shrinks in E as [E _]. destruct (two63 <? _); [split; [reflexivity|discriminate]|].
    apply IH. lia.
Qed.

Lemma parse_duration_x_total s :
  is_panic (parse_duration_x s) = false /\ parse_duration_x s <> Err e_dhang.
Proof.
  unfold parse_duration_x.
  destruct (dur_sign s) as [neg s1].
  destruct (str_eqb s1 [48]); [split; [reflexivity|discriminate]|].
  destruct (nilb s1); [split; [reflexivity|discriminate]|].
  destruct (pd_loop_total (length s1) s1 0 false (le_n _)) as [H1 H2].
  destruct (pd_loop (length s1) s1 0 false) as [[d ix]|c|c]; cbn [obind].
  - destruct neg; [split; [reflexivity|discriminate]|]. destruct (_ <? d); split; try reflexivity; discriminate.
  - split; [reflexivity|]. intros H. apply H2. inversion H. reflexivity.
  - discriminate.
Qed.

(* ------------------------------------------------------------------ *)
(* the machine loop against the unbounded sum *)

Lemma pd_total_mono fuel : forall s t t', pd_total fuel s t = Some (Some t') -> t <= t'.
Proof.
  induction fuel as [|fl IH]; intros s t t' H; destruct s as [|c s']; cbn [pd_total] in H;
    try (inversion H; subst; lia); try discriminate.
  destruct (next_term (c :: s')) as [| |v r ix]; try discriminate. apply IH in H. lia.
Qed.

Lemma pd_loop_bad fuel : forall r t d b, (forall t', pd_total fuel r t <> Some (Some t')) ->
  exists c, pd_loop fuel r d b = Err c.
Proof.
  induction fuel as [|fl IH]; intros r t d b H; destruct r as [|c r']; cbn [pd_total pd_loop] in *;
    try (exfalso; eapply H; reflexivity); eauto.
  destruct (next_term (c :: r')) as [| |v' r2 ix2]; eauto.
  destruct (two63 <? _); eauto.
Qed.

Lemma lockstep fuel : forall s d ix, d <= two63 ->
  match pd_total fuel s d with
  | Some (Some t) => t < two64 ->
      if t <=? two63 then exists ix', pd_loop fuel s d ix = Ok (t, ix')
      else exists c, pd_loop fuel s d ix = Err c
  | _ => exists c, pd_loop fuel s d ix = Err c
  end.
Proof.
  induction fuel as [|fl IH]; intros s d ix Hd; destruct s as [|c s']; cbn [pd_total pd_loop].
  - intros _. assert (E : (d <=? two63) = true) by lia. rewrite E. eauto.
  - eauto.
  - intros _. assert (E : (d <=? two63) = true) by lia. rewrite E. eauto.
  - destruct (next_term (c :: s')) as [| |v r ix'] eqn:E; eauto.
    destruct (next_term_shrinks _ _ _ _ E) as [_ Hv].
    destruct (pd_total fl r (d + v)) as [[t|]|] eqn:Et.
    + intros Ht. pose proof (pd_total_mono _ _ _ _ Et) as Hm.
      assert (Hmod : (d + v) mod two64 = d + v) by (apply N.mod_small; lia). rewrite Hmod.
      destruct (two63 <? d + v) eqn:E2.
      * assert (E3 : (t <=? two63) = false) by lia. rewrite E3. eauto.
      * specialize (IH r (d + v) (ix || ix') ltac:(lia)). rewrite Et in IH. exact (IH Ht).
    + destruct (two63 <? (d + v) mod two64) eqn:E2; [eauto|].
      apply (pd_loop_bad fl r (d + v)). intros t' Ht'. congruence.
    + destruct (two63 <? (d + v) mod two64) eqn:E2; [eauto|].
      apply (pd_loop_bad fl r (d + v)). intros t' Ht'. congruence.
Qed.

(* ------------------------------------------------------------------ *)
(* duration_never_wraps: below 2^64 the result is the unbounded sum of the
   terms when that lies in the int64 range, and an error otherwise *)

Theorem duration_never_wraps_l s :
  match dur_spec s with
  | DVal neg t => t < two64 ->
      if neg then (if t <=? two63 then parse_duration s = Ok (- Z.of_N t)%Z else exists c, parse_duration s = Err c)
      else (if t <=? two63 - 1 then parse_duration s = Ok (Z.of_N t) else exists c, parse_duration s = Err c)
  | _ => exists c, parse_duration s = Err c
  end.
Proof.
  unfold dur_spec, parse_duration, parse_duration_x. destruct (dur_sign s) as [neg s1].
  destruct (str_eqb s1 [48]).
  { intros _. destruct neg; reflexivity. }
  destruct (nilb s1); [cbn [obind omap]; eauto|].
  pose proof (lockstep (length s1) s1 0 false ltac:(unfold two63; lia)) as H.
  destruct (pd_total (length s1) s1 0) as [[t|]|].
  - intros Ht. specialize (H Ht). destruct (t <=? two63) eqn:E.
    + destruct H as [ix' ->]. cbn [obind]. destruct neg.
      * rewrite wrap_signed_neg64 by (unfold two63 in E; lia). reflexivity.
      * destruct (two63 - 1 <? t) eqn:E2.
        -- assert (E3 : (t <=? two63 - 1) = false) by lia. rewrite E3. cbn [obind omap]. eauto.
        -- assert (E3 : (t <=? two63 - 1) = true) by lia. rewrite E3. reflexivity.
    + destruct H as [c ->]. cbn [obind omap]. destruct neg; [eauto|].
      assert (E3 : (t <=? two63 - 1) = false) by (unfold two63 in *; lia). rewrite E3. eauto.
  - destruct H as [c ->]. cbn [obind omap]. eauto.
  - destruct H as [c ->]. cbn [obind omap]. eauto.
Qed.

(* at 2^64 the uint64 accumulator of time.ParseDuration wraps: two terms of 2^63 ns
   are accepted as the zero duration *)
Example duration_wraps_refuted :
  dur_spec (s2r "9223372036854775808ns9223372036854775808ns") = DVal false 18446744073709551616 /\
  parse_duration (s2r "9223372036854775808ns9223372036854775808ns") = Ok 0%Z.
Proof. split; vm_compute; reflexivity. Qed.

Example duration_examples :
  parse_duration (s2r "1h2m3.5s") = Ok 3723500000000%Z /\ parse_duration (s2r "-1.5ms") = Ok (-1500000)%Z /\
  parse_duration (s2r "2562047h47m16.854775807s") = Ok 9223372036854775807%Z /\
  (exists c, parse_duration (s2r "2562047h47m16.854775808s") = Err c) /\
  parse_duration (s2r "-2562047h47m16.854775808s") = Ok (-9223372036854775808)%Z /\
  (exists c, parse_duration (s2r "1") = Err c) /\ (exists c, parse_duration (s2r ".s") = Err c) /\
  dur_string 3723500000000%Z = s2r "1h2m3.5s" /\ dur_string (-1500000)%Z = s2r "-1.5ms" /\ dur_string 0%Z = s2r "0s".
Proof. repeat split; try (eexists; vm_compute; reflexivity); vm_compute; reflexivity. Qed.
