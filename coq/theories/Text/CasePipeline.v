(* Encoders and decoders of tagformat/caseconversion addressed by number, and
   the decode -> encode -> decode pipelines that dials' tag reformatting and
   flatten manglers run on field names and tags (definitions only; the
   functions themselves are in Text/CaseConv.v).  The encoders are total
   Gallina functions of type words -> str: every word list, including empty
   words and the empty list, has an encoding. *)
From Coq Require Import List NArith Bool.
From Dials Require Import Base.Outcome Base.Runes Text.CaseConv.
Import ListNotations.
Open Scope N_scope.

Definition encode_by (e : N) : words -> str :=
  match e with
  | 0 => encode_upper_camel | 1 => encode_lower_camel | 2 => encode_lower_snake
  | 3 => encode_upper_snake | 4 => encode_kebab | _ => encode_cp_snake
  end.

Definition decode_by (d : N) : str -> outcome words :=
  match d with
  | 0 => decode_upper_camel | 1 => decode_lower_camel | 2 => decode_lower_snake
  | 3 => decode_upper_snake | 4 => decode_kebab | 5 => decode_cp_snake
  | 6 => decode_go_camel | _ => decode_go_tags
  end.

(* decoders[d1](s), then encoders[e], then decoders[d2] *)
Definition pipeline (d1 e d2 : N) (s : str) : outcome words :=
  ws <- decode_by d1 s ;; decode_by d2 (encode_by e ws).
