(* The grammar of Go base-0 integer literals as strconv.ParseInt(s, 0, _)
   accepts them (Go spec "Integer literals" plus an optional sign), as a data
   type with a renderer and a mathematical value.  Definitions only; the
   theorems relating it to the parser model are in IntGrammarProofs.v.

     literal  = [ "+" | "-" ] form
     form     = decimal | legacy | prefixed
     decimal  = nonzero-digit { [ "_" ] digit }                 (base 10)
     legacy   = "0" { [ "_" ] octal-digit }                     (base 8; "0" itself)
     prefixed = "0" letter [ "_" ] digit { [ "_" ] digit }      (b B: 2, o O: 8, x X: 16)

   A digit sequence is a list of items (u, c): the digit rune c, preceded by
   one underscore iff u.  Digit runes are whatever ParseUint's loop accepts
   below the base (0-9, a-z, A-Z through digit_of). *)
From Coq Require Import List NArith ZArith Bool.
From Dials Require Import Base.Outcome Base.Runes Text.ParseInt.
Import ListNotations.
Open Scope N_scope.

Definition item := (bool * rune)%type.

Definition render_items (l : list item) : str :=
  flat_map (fun it : item => if fst it then [95; snd it] else [snd it]) l.

Definition digit_ok (base : N) (c : rune) : bool :=
  match digit_of c with Some d => d <? base | None => false end.
Definition dval (c : rune) : N := match digit_of c with Some d => d | None => 0 end.

(* positional value, underscores do not count *)
Definition items_val (base : N) (l : list item) (acc : N) : N :=
  fold_left (fun a (it : item) => a * base + dval (snd it)) l acc.

Inductive gform :=
| GDec (items : list item)
| GLegacy (items : list item)
| GPre (base : N) (letter : rune) (items : list item).

Definition letter_ok (base : N) (letter : rune) : bool :=
  ((base =? 2) && ((letter =? 98) || (letter =? 66)))
  || ((base =? 8) && ((letter =? 111) || (letter =? 79)))
  || ((base =? 16) && ((letter =? 120) || (letter =? 88))).

Definition wf_form (f : gform) : bool :=
  match f with
  | GDec items =>
      match items with
      | (false, c) :: r => digit_ok 10 c && negb (c =? 48) && forallb (fun it : item => digit_ok 10 (snd it)) r
      | _ => false
      end
  | GLegacy items => forallb (fun it : item => digit_ok 8 (snd it)) items
  | GPre base letter items =>
      letter_ok base letter && negb (nilb items) && forallb (fun it : item => digit_ok base (snd it)) items
  end.

Definition render_form (f : gform) : str :=
  match f with
  | GDec items => render_items items
  | GLegacy items => 48 :: render_items items
  | GPre _ letter items => 48 :: letter :: render_items items
  end.

Definition form_val (f : gform) : N :=
  match f with
  | GDec items => items_val 10 items 0
  | GLegacy items => items_val 8 items 0
  | GPre base _ items => items_val base items 0
  end.

(* sign: None, Some false = "+", Some true = "-" *)
Definition glit := (option bool * gform)%type.
Definition wf_lit (g : glit) : bool := wf_form (snd g).
Definition render_lit (g : glit) : str :=
  match fst g with
  | None => render_form (snd g)
  | Some false => 43 :: render_form (snd g)
  | Some true => 45 :: render_form (snd g)
  end.
Definition lit_val (g : glit) : Z :=
  match fst g with Some true => (- Z.of_N (form_val (snd g)))%Z | _ => Z.of_N (form_val (snd g)) end.

(* the same literal without digit separators *)
Definition strip_items (l : list item) : list item := map (fun it : item => (false, snd it)) l.
Definition strip_form (f : gform) : gform :=
  match f with
  | GDec l => GDec (strip_items l) | GLegacy l => GLegacy (strip_items l)
  | GPre b x l => GPre b x (strip_items l)
  end.
Definition strip_lit (g : glit) : glit := (fst g, strip_form (snd g)).

(* reading a digit sequence back into items *)
Fixpoint items_of (s : str) : list item :=
  match s with
  | [] => []
  | c :: r =>
      if c =? 95 then
        match r with
        | d :: r' => (true, d) :: items_of r'
        | [] => [(true, 95)]
        end
      else (false, c) :: items_of r
  end.
