(* Model of parse.String (parse_string.go) and parse.Map (map.go): dispatch on
   the kind of the target type.  Definitions only.
   Not modelled here: float and complex kinds (strconv.ParseFloat; see the
   Section-parametrised wrappers in ParseIntProofs.v).  time.Duration goes
   through Text/ParseDuration.v.  uintptr is not among parse.String's kinds (it is an
   error there); named map types differing from map[string][]string and
   map[string]struct{} take the generic map path as in the source. *)
From Coq Require Import List NArith ZArith Bool.
From Dials Require Import Base.Outcome Base.Runes Text.ParseInt Text.Quote Text.Split Text.ParseDuration.
Import ListNotations.
Open Scope N_scope.

Inductive ty :=
| TStr | TBool | TInt (w : swidth) | TUint (w : uwidth)
| TDur                      (* time.Duration: kind Int64, parsed by time.ParseDuration *)
| TSlice (t : ty)
| TSet                      (* map[string]struct{} *)
| TMss                      (* map[string][]string *)
| TMap (k v : ty)
| TOther                    (* struct, pointer, interface, uintptr, ... *)
| TNamed (t : ty).          (* a user-defined named type (type Label string, type Names []string,
                               type Env map[string]string ...) whose underlying type is t;
                               one level: t is not itself TNamed *)

Inductive pval :=
| VStr (s : str) | VBool (b : bool) | VInt (z : Z)
| VList (l : list pval)
| VSet (l : list str)
| VMss (m : list (str * list str))
| VMap (m : list (pval * pval))
| VOpaque.                  (* a duration whose float64 fraction step is not exact in the model: value not determined *)

Definition e_kind : N := 8.

(* strconv.ParseBool *)
Definition parse_bool (s : str) : outcome bool :=
  if existsb (str_eqb s) [[49]; [116]; [84]; [84;82;85;69]; [116;114;117;101]; [84;114;117;101]] then Ok true
  else if existsb (str_eqb s) [[48]; [102]; [70]; [70;65;76;83;69]; [102;97;108;115;101]; [70;97;108;115;101]] then Ok false
  else Err e_syntax.

(* strconv.FormatBool *)
Definition format_bool (b : bool) : str :=
  if b then [116;114;117;101] else [102;97;108;115;101].

(* checkKindsSupported: scalar kinds only (floats/complex are scalar kinds of
   the source that this model does not cover) *)
Definition scalar_kind (t : ty) : bool :=
  match t with
  | TStr | TBool | TInt _ | TDur => true
  | TUint w => match w with UPtr => false | _ => true end
  | TNamed u => match u with
                | TStr | TBool | TInt _ | TDur => true
                | TUint w => match w with UPtr => false | _ => true end
                | _ => false
                end
  | _ => false
  end.

(* reflect.Kind() == String *)
Definition string_kind (t : ty) : bool :=
  match t with TStr | TNamed TStr => true | _ => false end.

(* equality of scalar values, for the duplicate-key test m.MapIndex(key) *)
Definition scalar_eqb (a b : pval) : bool :=
  match a, b with
  | VStr x, VStr y => str_eqb x y
  | VBool x, VBool y => Bool.eqb x y
  | VInt x, VInt y => (x =? y)%Z
  | _, _ => false
  end.

Section Dispatch.
  Variable isp : rune -> bool.
  Variable fixed : bool.        (* finding 9 repaired in splitMap or not *)
  (* parse_string.go:42: castVal.Elem() is applied to what the recursive call
     returned.  Scalars come back as pointers, slices and maps as themselves,
     on which reflect.Value.Elem panics.  fixed_elem = false is that code;
     true dereferences pointer results only (fix: commit for the nested-slice panic). *)
  Variable fixed_elem : bool.
  (* fixed_trim = true: an element (map key, map value) whose kind is not string is
     passed through strings.TrimSpace before it is parsed (fix: commit for the trailing
     blank: the scanner skips blanks before a token but keeps those after an unquoted
     one); false: the token is parsed as scanned *)
  Variable fixed_trim : bool.
  Definition p_elem_panic : N := 1.
  Definition tok (e : ty) (x : str) : str :=
    if fixed_trim then (if string_kind e then x else trim_space x) else x.

  Definition parse_scalar (t : ty) (s : str) : outcome pval :=
    match t with
    | TStr => Ok (VStr s)
    | TBool => omap VBool (parse_bool s)
    | TInt w => omap VInt (parse_number_int w s)
    | TDur => omap (fun r : Z * bool => if snd r then VOpaque else VInt (fst r)) (parse_duration_x s)
    | TUint w => match w with
                 | UPtr => Err e_kind
                 | _ => omap (fun n => VInt (Z.of_N n)) (parse_number_uint w s)
                 end
    | TNamed u =>
        (* parse.String looks at the kind only; the one exact-type test among the scalars is
           numberType == durationType, so a named duration type is parsed as a plain int64 *)
        match u with
        | TStr => Ok (VStr s)
        | TBool => omap VBool (parse_bool s)
        | TInt w => omap VInt (parse_number_int w s)
        | TDur => omap VInt (parse_number_int I64 s)
        | TUint w => match w with
                     | UPtr => Err e_kind
                     | _ => omap (fun n => VInt (Z.of_N n)) (parse_number_uint w s)
                     end
        | _ => Err e_kind
        end
    | _ => Err e_kind
    end.

  Fixpoint parse_string_gen (t : ty) (s : str) : outcome pval :=
    match t with
    | TStr | TBool | TInt _ | TUint _ | TDur => parse_scalar t s
    | TSlice e =>
        l <- string_slice isp s ;;
        match e with
        | TStr => Ok (VList (map VStr l))
        | _ =>
            omap VList
              (map_out (fun x => v <- parse_string_gen e (tok e x) ;;
                                 if fixed_elem || scalar_kind e then Ok v else Panic p_elem_panic) l)
        end
    | TMss => omap VMss (mss_parse_gen fixed isp s)
    | TSet => omap VSet (string_set isp s)
    | TMap k v =>
        if scalar_kind k && scalar_kind v then
          omap VMap
            (split_map isp fixed
               (fun m ks vs =>
                  kc <- parse_scalar k (tok k ks) ;;
                  if existsb (fun kv => scalar_eqb kc (fst kv)) m then Err e_dup
                  else vc <- parse_scalar v (tok v vs) ;; Ok (m ++ [(kc, vc)]))
               s [])
        else Err e_kind
    | TOther => Err e_kind
    | TNamed u =>
        (* the exact-type tests ([]string, map[string][]string, map[string]struct{}) fail for a
           named type: a named slice goes through the element loop, a named map through parse.Map *)
        match u with
        | TSlice e =>
            l <- string_slice isp s ;;
            omap VList
              (map_out (fun x => v <- parse_string_gen e (tok e x) ;;
                                 if fixed_elem || scalar_kind e then Ok v else Panic p_elem_panic) l)
        | TMap k v =>
            if scalar_kind k && scalar_kind v then
              omap VMap
                (split_map isp fixed
                   (fun m ks vs =>
                      kc <- parse_scalar k (tok k ks) ;;
                      if existsb (fun kv => scalar_eqb kc (fst kv)) m then Err e_dup
                      else vc <- parse_scalar v (tok v vs) ;; Ok (m ++ [(kc, vc)]))
                   s [])
            else Err e_kind
        | TMss | TSet | TOther | TNamed _ => Err e_kind    (* value kinds slice / struct are not supported by parse.Map *)
        | _ => parse_scalar t s
        end
    end.
End Dispatch.

(* the current tree has the trailing-blank fix *)
Definition parse_string (isp : rune -> bool) (fixed fixed_elem : bool) : ty -> str -> outcome pval :=
  parse_string_gen isp fixed fixed_elem true.
