(* Model of the String() methods of /repo/sources/flag/flaghelper (strings.go,
   ints.go, uints.go): the canonical text forms that C15 round-trips.
   Definitions only.  Go maps are association lists with distinct keys;
   sort.Strings orders byte-wise, which on valid UTF-8 is the lexicographic
   order of the code points. *)
From Coq Require Import List NArith ZArith Bool.
From Dials Require Import Base.Outcome Base.Runes Text.ParseInt Text.Quote.
Import ListNotations.
Open Scope N_scope.

Fixpoint str_leb (a b : str) : bool :=
  match a, b with
  | [], _ => true
  | _ :: _, [] => false
  | x :: a', y :: b' => if x <? y then true else if y <? x then false else str_leb a' b'
  end.

Section Sort.
  Context {A : Type}.
  Variable key : A -> str.
  Fixpoint insert_by (x : A) (l : list A) : list A :=
    match l with
    | [] => [x]
    | y :: r => if str_leb (key x) (key y) then x :: l else y :: insert_by x r
    end.
  Fixpoint isort_by (l : list A) : list A :=
    match l with [] => [] | x :: r => insert_by x (isort_by r) end.
End Sort.

(* element, then ',' unless it is the last one *)
Fixpoint join_with (sep : rune) (l : list str) : str :=
  match l with
  | [] => []
  | [x] => x
  | x :: r => x ++ sep :: join_with sep r
  end.

Section Helpers.
  Variable isp : rune -> bool.

  (* StringSliceFlag.String (strings.go:49-61) *)
  Definition slice_string (l : list str) : str := join_with comma (map (quote isp) l).

  (* StringSetFlag.String (strings.go:100-120): sorted members *)
  Definition set_string (l : list str) : str := slice_string (isort_by (fun x => x) l).

  (* MapStringStringFlag.String (strings.go:230-253) *)
  Definition kv_string (kv : str * str) : str := quote isp (fst kv) ++ 58 :: quote isp (snd kv).
  Definition map_ss_string (m : list (str * str)) : str :=
    join_with comma (map kv_string (isort_by fst m)).

  (* MapStringStringSliceFlag.String (strings.go:161-188): for every key in
     sorted order, every value as key:value, then ',' unless this is the last
     value of the last key *)
  Fixpoint mss_vals (qk : str) (vs : list str) (last_key : bool) : str :=
    match vs with
    | [] => []
    | z :: r => qk ++ 58 :: quote isp z ++ (if last_key && nilb r then [] else [comma]) ++ mss_vals qk r last_key
    end.
  Fixpoint mss_keys (m : list (str * list str)) : str :=
    match m with
    | [] => []
    | (k, vs) :: r => mss_vals (quote isp k) vs (nilb r) ++ mss_keys r
    end.
  Definition mss_string (m : list (str * list str)) : str := mss_keys (isort_by fst m).
End Helpers.

(* SignedIntegralSliceFlag.String / UnsignedIntegralSliceFlag.String *)
Definition int_slice_string (zs : list Z) : str := join_with comma (map format_int zs).
Definition uint_slice_string (ns : list N) : str := join_with comma (map format_uint ns).
