(* MODEL of the concurrent core as a small-step system (DESIGN Appendix A).
   Definitions only.  One transition = one atomic action of one goroutine:
   the atomic store, a channel send / try-send / receive, a select firing, a
   callback call or return, a cancellation.  The sequential code between two
   such actions touches goroutine-local state only and is folded into the
   action it precedes (mon_recv, cb_step).

   Shared objects: the atomic value, updatesChan (cap 1), cbch (cap cbcap),
   monCtl (cap 3), the unbuffered watcherChan (a rendezvous: LMonRecv (ROffer t)),
   monDone (closed by the monitor when it exits; after the fix of finding 3 cbch
   itself is never closed), one capacity-1 reply channel per blocking report and
   per enable request, one done channel per unregister call.

   A Go select with several ready arms picks one at random; the label carries
   the arm that fired. *)
From Coq Require Import List NArith Bool.
From Dials Require Import Base.Outcome Core.CbMgr Core.Monitor.
Import ListNotations.
Open Scope N_scope.

Fixpoint lookup {A} (k : N) (l : list (N * A)) : option A :=
  match l with
  | [] => None
  | (k', a) :: r => if k' =? k then Some a else lookup k r
  end.

Fixpoint update {A} (k : N) (a : A) (l : list (N * A)) : list (N * A) :=
  match l with
  | [] => [(k, a)]
  | (k', a') :: r => if k' =? k then (k, a) :: r else (k', a') :: update k a r
  end.

Section System.
Context {cfg sv : Type}.
Variable stack : list sv -> option cfg.
Variable verify : cfg -> bool.
Variable p : params.
Variable on_new on_err : bool.
Variable cbcap : N.                    (* cap(cbch) = 64 *)
Definition ctlcap : N := 3.            (* cap(monCtl) *)

Notation vcfg := (vcfg cfg).
Notation cb_event := (cb_event cfg).
Notation cb_state := (cb_state cfg).
Notation cb_out := (cb_out cfg).
Notation invocation := (invocation cfg).
Notation mon_state := (mon_state sv).
Notation mon_in := (mon_in sv).
Notation mon_act := (mon_act cfg).
Notation enable_reply := (enable_reply cfg).

(* what a watching source offers on watcherChan (dials.go:206-229) *)
Inductive msg :=
| MsgUpdate (src : nat) (v : sv) (blocking : bool)
| MsgErr (src : nat)
| MsgDone (src : nat).

(* public operations issued by application goroutines *)
Inductive api_op :=
| OpView                                  (* ViewVersion, result discarded *)
| OpToken (slot : N)                      (* ViewVersion, CfgSerial kept in a slot *)
| OpEvents                                (* non-blocking receive from Events() *)
| OpOffer (m : msg)                       (* ReportNewValue / BlockingReportNewValue / ReportError / Done *)
| OpRegister (h : N) (slot : option N)    (* RegisterCallback with the token of a slot, or the zero CfgSerial *)
| OpUnregister (h : N)                    (* the UnregisterCBFunc returned for h *)
| OpEnable.                               (* EnableVerification *)

Inductive ret :=
| RetView (v : vcfg)
| RetEvents (v : option vcfg)
| RetUnit
| RetNil
| RetStackErr
| RetVerifyErr
| RetCtxErr
| RetRegOk
| RetRegNil
| RetBool (b : bool)
| RetEnable (r : enable_reply).

(* where an API goroutine stands *)
Inductive pc :=
| POffer (m : msg)             (* in the select offering on watcherChan *)
| PAwaitReply                  (* BlockingReportNewValue: select on installed / ctx *)
| PEnqueue (ev : cb_event)     (* submitEventBlocking: select on ctx / monDone / cbch<- *)
| PAwaitAck                    (* unregister: select on ctx / doneCh *)
| PCtlSend                     (* EnableVerification: select on monCtl<- / ctx *)
| PCtlAwait                    (* EnableVerification: select on resp / ctx *)
| PDone (r : ret).

Record thread := mkThr { t_op : api_op; t_pc : pc; t_cancel : bool }.

Inductive mon_ctrl :=
| MNone                                             (* no watching source: no goroutines, cbch = monCtl = nil *)
| MRun (st : mon_state) (pend : list mon_act)       (* pend = []: at the select *)
| MExited.

Inductive cb_ctrl :=
| CNone
| CRun (cst : cb_state) (pend : list cb_out)
  (* pend = []: at the receive; head OInv i: inside user callback i; head OAck a: about to close a *)
| CExited.

(* append-only ghost history *)
Inductive gevent :=
| GRecv (i : mon_in)
| GVerify (c : cfg) (ok : bool)
| GAct (a : mon_act) (dropped : bool)   (* the monitor performed a; dropped: a try-send that did not send *)
| GEnq (tid : N) (ev : cb_event)
| GTake (ev : cb_event)
| GCall (i : invocation)                (* a user callback is entered *)
| GCbRet
| GAck (a : N)
| GCbExit
| GStart (tid : N) (op : api_op)
| GRet (tid : N) (r : ret)
| GCancelMain
| GCancel (tid : N).

Inductive recv_src := RCtx | RCtl | ROffer (tid : N).

Inductive label :=
| LApiStart (tid : N) (op : api_op)
| LApiAct (tid : N) (arm : N)     (* the select the thread stands at fires with this arm; 0 is always ctx.Done *)
| LMonRecv (src : recv_src)
| LMonAct (drop : bool)           (* drop: a try-send takes the non-sending arm *)
| LCbTake
| LCbReturn
| LCbAck
| LCancelMain
| LCancelCall (tid : N).

Record sys := mkSys {
  s_value : vcfg;                          (* Dials.value *)
  s_updates : option vcfg;                 (* updatesChan *)
  s_mon : mon_ctrl;
  s_ctl : list N;                          (* monCtl: ids of the resp channels *)
  s_cbq : list cb_event;                   (* cbch *)
  s_done : bool;                           (* monDone closed *)
  s_cb : cb_ctrl;
  s_thr : list (N * thread);
  s_main : bool;                           (* the Config context is cancelled *)
  s_replies : list (N * reply);            (* installed channels holding a value *)
  s_eresps : list (N * enable_reply);      (* resp channels holding a value *)
  s_acks : list N;                         (* closed done channels *)
  s_tokens : list (N * vcfg);              (* CfgSerials kept by the application *)
  s_panic : bool;
  s_log : list gevent
}.

Definition with_value s v := mkSys v (s_updates s) (s_mon s) (s_ctl s) (s_cbq s) (s_done s) (s_cb s) (s_thr s) (s_main s) (s_replies s) (s_eresps s) (s_acks s) (s_tokens s) (s_panic s) (s_log s).
Definition with_updates s u := mkSys (s_value s) u (s_mon s) (s_ctl s) (s_cbq s) (s_done s) (s_cb s) (s_thr s) (s_main s) (s_replies s) (s_eresps s) (s_acks s) (s_tokens s) (s_panic s) (s_log s).
Definition with_mon s m := mkSys (s_value s) (s_updates s) m (s_ctl s) (s_cbq s) (s_done s) (s_cb s) (s_thr s) (s_main s) (s_replies s) (s_eresps s) (s_acks s) (s_tokens s) (s_panic s) (s_log s).
Definition with_ctl s c := mkSys (s_value s) (s_updates s) (s_mon s) c (s_cbq s) (s_done s) (s_cb s) (s_thr s) (s_main s) (s_replies s) (s_eresps s) (s_acks s) (s_tokens s) (s_panic s) (s_log s).
Definition with_cbq s q := mkSys (s_value s) (s_updates s) (s_mon s) (s_ctl s) q (s_done s) (s_cb s) (s_thr s) (s_main s) (s_replies s) (s_eresps s) (s_acks s) (s_tokens s) (s_panic s) (s_log s).
Definition with_done s d pn := mkSys (s_value s) (s_updates s) (s_mon s) (s_ctl s) (s_cbq s) d (s_cb s) (s_thr s) (s_main s) (s_replies s) (s_eresps s) (s_acks s) (s_tokens s) pn (s_log s).
Definition with_cb s c := mkSys (s_value s) (s_updates s) (s_mon s) (s_ctl s) (s_cbq s) (s_done s) c (s_thr s) (s_main s) (s_replies s) (s_eresps s) (s_acks s) (s_tokens s) (s_panic s) (s_log s).
Definition with_thr s t := mkSys (s_value s) (s_updates s) (s_mon s) (s_ctl s) (s_cbq s) (s_done s) (s_cb s) t (s_main s) (s_replies s) (s_eresps s) (s_acks s) (s_tokens s) (s_panic s) (s_log s).
Definition with_main s b := mkSys (s_value s) (s_updates s) (s_mon s) (s_ctl s) (s_cbq s) (s_done s) (s_cb s) (s_thr s) b (s_replies s) (s_eresps s) (s_acks s) (s_tokens s) (s_panic s) (s_log s).
Definition with_replies s r := mkSys (s_value s) (s_updates s) (s_mon s) (s_ctl s) (s_cbq s) (s_done s) (s_cb s) (s_thr s) (s_main s) r (s_eresps s) (s_acks s) (s_tokens s) (s_panic s) (s_log s).
Definition with_eresps s r := mkSys (s_value s) (s_updates s) (s_mon s) (s_ctl s) (s_cbq s) (s_done s) (s_cb s) (s_thr s) (s_main s) (s_replies s) r (s_acks s) (s_tokens s) (s_panic s) (s_log s).
Definition with_acks s a := mkSys (s_value s) (s_updates s) (s_mon s) (s_ctl s) (s_cbq s) (s_done s) (s_cb s) (s_thr s) (s_main s) (s_replies s) (s_eresps s) a (s_tokens s) (s_panic s) (s_log s).
Definition with_tokens s t := mkSys (s_value s) (s_updates s) (s_mon s) (s_ctl s) (s_cbq s) (s_done s) (s_cb s) (s_thr s) (s_main s) (s_replies s) (s_eresps s) (s_acks s) t (s_panic s) (s_log s).
Definition logged s es := mkSys (s_value s) (s_updates s) (s_mon s) (s_ctl s) (s_cbq s) (s_done s) (s_cb s) (s_thr s) (s_main s) (s_replies s) (s_eresps s) (s_acks s) (s_tokens s) (s_panic s) (s_log s ++ es).

Definition set_thread s tid t := with_thr s (update tid t (s_thr s)).

(* a thread finishes with r *)
Definition finish s tid (t : thread) (r : ret) : sys :=
  logged (set_thread s tid (mkThr (t_op t) (PDone r) (t_cancel t))) [GRet tid r].

Definition has_room (s : sys) : bool := N.of_nat (length (s_cbq s)) <? cbcap.

(* ---- the start of Config's goroutines ---- *)

Definition sys_init (inits : list sv) (watching : list bool) : list (cfg * bool) * outcome sys :=
  let cr := config_init stack verify p inits watching in
  (cr_verify_log cr,
   match cr_out cr with
   | Ok (v, st) =>
       let w := existsb (fun b => b) watching in
       Ok (mkSys v None (if w then MRun st [] else MNone) [] [] false
                 (if w then CRun cb_init [] else CNone) [] false [] [] [] [] false
                 (map (fun cb => GVerify (fst cb) (snd cb)) (cr_verify_log cr)))
   | Err c => Err c
   | Panic c => Panic c
   end).

(* ---- API goroutines ---- *)

Definition registered_ok (h : N) (nt : N * thread) : bool :=
  match t_op (snd nt), t_pc (snd nt) with
  | OpRegister h' _, PDone RetRegOk => h' =? h
  | _, _ => false
  end.
Definition registers (h : N) (nt : N * thread) : bool :=
  match t_op (snd nt) with OpRegister h' _ => h' =? h | _ => false end.

Definition enqueue_fail (op : api_op) : ret :=
  match op with OpRegister _ _ => RetRegNil | _ => RetBool false end.

(* submitEventBlocking up to its select: cbch == nil, then the non-blocking
   look at monDone (fix of finding 3) *)
Definition start_enqueue (s : sys) (tid : N) (op : api_op) (ev : cb_event) : sys :=
  let t := mkThr op (PEnqueue ev) false in
  match s_mon s with
  | MNone => finish s tid t (enqueue_fail op)
  | _ => if s_done s then finish s tid t (enqueue_fail op) else set_thread s tid t
  end.

Definition api_start (s0 : sys) (tid : N) (op : api_op) : option sys :=
  match lookup tid (s_thr s0) with
  | Some _ => None
  | None =>
    let s := logged s0 [GStart tid op] in
    match op with
    | OpView => Some (finish s tid (mkThr op (PDone RetUnit) false) (RetView (s_value s)))
    | OpToken slot =>
        Some (finish (with_tokens s (update slot (s_value s) (s_tokens s))) tid
                     (mkThr op (PDone RetUnit) false) (RetView (s_value s)))
    | OpEvents =>
        Some (finish (with_updates s None) tid (mkThr op (PDone RetUnit) false) (RetEvents (s_updates s)))
    | OpOffer m => Some (set_thread s tid (mkThr op (POffer m) false))
    | OpRegister h slot =>
        if existsb (registers h) (s_thr s) then None
        else
          let tok := match slot with Some sl => lookup sl (s_tokens s) | None => None end in
          Some (start_enqueue s tid op (EvReg h tok))
    | OpUnregister h =>
        if existsb (registered_ok h) (s_thr s)
        then Some (start_enqueue s tid op (EvUnreg h tid))
        else None
    | OpEnable =>
        let t := mkThr op PCtlSend false in
        if negb (p_delay p) then Some (finish s tid t (RetEnable (EOk (s_value s))))
        else match s_mon s with
             | MNone =>
                 let '(vl, r) := enable_nomon verify p (s_value s) in
                 Some (finish (logged s (map (fun cb => GVerify (fst cb) (snd cb)) vl)) tid t (RetEnable r))
             | _ => Some (set_thread s tid t)
             end
    end
  end.

Definition reply_ret (r : reply) : ret :=
  match r with RNil => RetNil | RStackErr => RetStackErr | RVerifyErr => RetVerifyErr end.

Definition api_act (s : sys) (tid : N) (arm : N) : option sys :=
  match lookup tid (s_thr s) with
  | None => None
  | Some t =>
    match t_pc t with
    | POffer _ => None            (* the ctx arm fires by itself at LCancelCall, the send arm is LMonRecv *)
    | PDone _ => None
    | PAwaitReply =>
        if arm =? 0 then (if t_cancel t then Some (finish s tid t RetCtxErr) else None)
        else match lookup tid (s_replies s) with
             | Some r => Some (finish s tid t (reply_ret r))
             | None => None
             end
    | PEnqueue ev =>
        if arm =? 0 then (if t_cancel t then Some (finish s tid t (enqueue_fail (t_op t))) else None)
        else if arm =? 1 then (if s_done s then Some (finish s tid t (enqueue_fail (t_op t))) else None)
        else if has_room s then
          let s1 := logged (with_cbq s (s_cbq s ++ [ev])) [GEnq tid ev] in
          match ev with
          | EvUnreg _ _ => Some (set_thread s1 tid (mkThr (t_op t) PAwaitAck (t_cancel t)))
          | _ => Some (finish s1 tid t RetRegOk)
          end
        else None
    | PAwaitAck =>
        if arm =? 0 then (if t_cancel t then Some (finish s tid t (RetBool false)) else None)
        else if existsb (N.eqb tid) (s_acks s) then Some (finish s tid t (RetBool true)) else None
    | PCtlSend =>
        if arm =? 0 then (if t_cancel t then Some (finish s tid t RetCtxErr) else None)
        else if N.of_nat (length (s_ctl s)) <? ctlcap
             then Some (set_thread (with_ctl s (s_ctl s ++ [tid])) tid (mkThr (t_op t) PCtlAwait (t_cancel t)))
             else None
    | PCtlAwait =>
        if arm =? 0 then (if t_cancel t then Some (finish s tid t RetCtxErr) else None)
        else match lookup tid (s_eresps s) with
             | Some r => Some (finish s tid t (RetEnable r))
             | None => None
             end
    end
  end.

Definition cancel_call (s : sys) (tid : N) : option sys :=
  match lookup tid (s_thr s) with
  | None => None
  | Some t =>
      if t_cancel t then None else
      match t_pc t with
      | PDone _ => None
      | POffer m =>
          (* the offering select sees ctx.Done at once: the monitor is not receiving *)
          let t' := mkThr (t_op t) (t_pc t) true in
          Some (finish (logged s [GCancel tid]) tid t'
                       (match m with MsgDone _ => RetUnit | _ => RetCtxErr end))
      | _ => Some (logged (set_thread s tid (mkThr (t_op t) (t_pc t) true)) [GCancel tid])
      end
  end.

(* ---- the monitor ---- *)

Definition msg_in (tid : N) (m : msg) : mon_in :=
  match m with
  | MsgUpdate src v blocking => InUpdate src v (if blocking then Some tid else None)
  | MsgErr src => InSrcErr src
  | MsgDone src => InSrcDone src
  end.

(* Verify calls are local to the monitor: they happen inside the receive step *)
Fixpoint split_verifies (acts : list mon_act) : list gevent * list mon_act :=
  match acts with
  | AVerify c b :: r => let '(g, r') := split_verifies r in (GVerify c b :: g, r')
  | _ => ([], acts)
  end.

Definition mon_take (s : sys) (st : mon_state) (i : mon_in) : sys :=
  let '(st', acts) := mon_recv stack verify p (s_value s) st i in
  let '(g, pend) := split_verifies acts in
  logged (with_mon s (MRun st' pend)) (GRecv i :: g).

Definition mon_recv_step (s : sys) (src : recv_src) : option sys :=
  match s_mon s with
  | MRun st [] =>
      match src with
      | RCtx => if s_main s then Some (mon_take s st InCtxDone) else None
      | RCtl =>
          match s_ctl s with
          | rid :: rest => Some (mon_take (with_ctl s rest) st (InEnable rid))
          | [] => None
          end
      | ROffer tid =>
          match lookup tid (s_thr s) with
          | Some t =>
              match t_pc t with
              | POffer m =>
                  (* rendezvous: the sender's select completes in the same instant *)
                  let s1 :=
                    match m with
                    | MsgUpdate _ _ true => set_thread s tid (mkThr (t_op t) PAwaitReply (t_cancel t))
                    | MsgDone _ => finish s tid t RetUnit
                    | _ => finish s tid t RetNil
                    end in
                  Some (mon_take s1 st (msg_in tid m))
              | _ => None
              end
          | None => None
          end
      end
  | _ => None
  end.

Definition mon_act_step (s : sys) (drop : bool) : option sys :=
  match s_mon s with
  | MRun st (a :: rest) =>
      let s1 := with_mon s (MRun st rest) in
      match a with
      | AVerify c b => Some (logged s1 [GVerify c b])
      | AStore v => if drop then None else Some (logged (with_value s1 v) [GAct a false])
      | ATryUpdates v =>
          (* select { case updatesChan <- v: default: } *)
          match s_updates s with
          | None => if drop then None else Some (logged (with_updates s1 (Some v)) [GAct a false])
          | Some _ => if drop then Some (logged s1 [GAct a true]) else None
          end
      | AReply rid r =>
          (* send on a capacity-1 channel: enabled iff it is empty *)
          if drop then None else
          match lookup rid (s_replies s) with
          | None => Some (logged (with_replies s1 (update rid r (s_replies s))) [GAct a false])
          | Some _ => None
          end
      | ATrySubmit ev =>
          (* select { case <-ctx.Done(): case cbch <- ev: default: } *)
          if drop then (if s_main s || negb (has_room s) then Some (logged s1 [GAct a true]) else None)
          else if has_room s then Some (logged (with_cbq s1 (s_cbq s ++ [ev])) [GAct a false]) else None
      | AEnableReply rid r =>
          if drop then None else
          match lookup rid (s_eresps s) with
          | None => Some (logged (with_eresps s1 (update rid r (s_eresps s))) [GAct a false])
          | Some _ => None
          end
      | AExit =>
          (* deferred close(monDone); closing a closed channel would panic *)
          if drop then None else
          Some (logged (with_done (with_mon s MExited) true (s_panic s || s_done s)) [GAct a false])
      end
  | _ => None
  end.

(* ---- the callback goroutine ---- *)

Definition cb_enter (pend : list cb_out) : list gevent :=
  match pend with OInv i :: _ => [GCall i] | _ => [] end.

Definition cb_take_step (s : sys) : option sys :=
  match s_cb s with
  | CRun cst [] =>
      match s_cbq s with
      | ev :: rest =>
          let '(cst', outs) := cb_step on_new on_err cst ev in
          Some (logged (with_cb (with_cbq s rest) (CRun cst' outs)) (GTake ev :: cb_enter outs))
      | [] =>
          (* nothing queued: the goroutine leaves only when monDone is closed *)
          if s_done s then Some (logged (with_cb s CExited) [GCbExit]) else None
      end
  | _ => None
  end.

Definition cb_return_step (s : sys) : option sys :=
  match s_cb s with
  | CRun cst (OInv _ :: rest) => Some (logged (with_cb s (CRun cst rest)) (GCbRet :: cb_enter rest))
  | _ => None
  end.

Definition cb_ack_step (s : sys) : option sys :=
  match s_cb s with
  | CRun cst (OAck a :: rest) =>
      Some (logged (with_acks (with_cb s (CRun cst rest)) (a :: s_acks s)) (GAck a :: cb_enter rest))
  | _ => None
  end.

Definition step (s : sys) (l : label) : option sys :=
  match l with
  | LApiStart tid op => api_start s tid op
  | LApiAct tid arm => api_act s tid arm
  | LMonRecv src => mon_recv_step s src
  | LMonAct drop => mon_act_step s drop
  | LCbTake => cb_take_step s
  | LCbReturn => cb_return_step s
  | LCbAck => cb_ack_step s
  | LCancelMain => if s_main s then None else Some (logged (with_main s true) [GCancelMain])
  | LCancelCall tid => cancel_call s tid
  end.

Fixpoint run (s : sys) (ls : list label) : option sys :=
  match ls with
  | [] => Some s
  | l :: r => match step s l with Some s' => run s' r | None => None end
  end.

Definition reachable_from (s0 s : sys) : Prop := exists ls, run s0 ls = Some s.

End System.

Arguments msg : clear implicits.
Arguments api_op : clear implicits.
Arguments ret : clear implicits.
Arguments pc : clear implicits.
Arguments thread : clear implicits.
Arguments mon_ctrl : clear implicits.
Arguments cb_ctrl : clear implicits.
Arguments gevent : clear implicits.
Arguments label : clear implicits.
Arguments sys : clear implicits.
