(* A concrete instance of the core model for the correspondence check: the
   config the harness uses (three integer fields plus one time.Time field that
   no source sets), its pointerified source values, stacking and Verify.
   Definitions only. *)
From Coq Require Import List NArith Bool.
From Dials Require Import Base.Outcome Core.CbMgr Core.Monitor Core.System.
Import ListNotations.
Open Scope N_scope.

Record cfg3 := mkCfg { fa : N; fb : N; fc : N }.

(* a value reported by a source: nil pointers are unset fields; bad = a value
   of a struct type whose fourth field is not assignable to the config's
   (overlayStruct returns an error: stacking fails) *)
Record sv3 := mkSv { va : option N; vb : option N; vc : option N; vbad : bool }.

Definition cfg3_eqb (x y : cfg3) : bool :=
  (fa x =? fa y) && (fb x =? fb y) && (fc x =? fc y).

Definition pick (o : option N) (d : N) : N := match o with Some x => x | None => d end.

Definition overlay3 (c : cfg3) (s : sv3) : cfg3 :=
  mkCfg (pick (va s) (fa c)) (pick (vb s) (fb c)) (pick (vc s) (fc c)).

(* compose: a fresh copy of the defaults overlaid by every source value in order *)
Fixpoint stack_from (c : cfg3) (l : list sv3) : option cfg3 :=
  match l with
  | [] => Some c
  | s :: r => if vbad s then None else stack_from (overlay3 c s) r
  end.
Definition stack3 (defaults : cfg3) (l : list sv3) : option cfg3 := stack_from defaults l.

(* the harness config's Verify: A <= B *)
Definition verify3 (c : cfg3) : bool := fa c <=? fb c.

Definition cbcap3 : N := 64.
