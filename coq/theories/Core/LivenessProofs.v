(* PROOFS: possibility of shutdown (C08).  From every reachable state there is
   a finite schedule - the monitor finishes what it has pending, the Config
   context is cancelled, callbacks return - after which the monitor and the
   callback goroutine are gone.  So no reachable state is a trap: the library
   cannot get itself into a state from which its goroutines could not exit.
   This is a possibility ("EF") statement; liveness under a fairness
   assumption on the Go scheduler is not formalised. *)
From Coq Require Import List NArith Bool Lia.
From Dials Require Import Base.Outcome Core.CbMgr Core.CbMgrProofs Core.Monitor Core.MonitorProofs
  Core.System Core.SystemProofs.
Import ListNotations.
Open Scope N_scope.

Section Proofs.
Context {cfg sv : Type}.
Variable stack : list sv -> option cfg.
Variable verify : cfg -> bool.
Variable p : params.
Variable on_new on_err : bool.
Variable cbcap : N.

Notation sys := (sys cfg sv).
Notation label := (label sv).
Notation step := (@step cfg sv stack verify p on_new on_err cbcap).
Notation run := (@run cfg sv stack verify p on_new on_err cbcap).
Notation pend_of := (@pend_of cfg sv).

(* once the monitor is gone monDone is closed *)
Definition inv_exited (s : sys) : Prop := s_mon s = MExited -> s_done s = true.

Lemma inv_exited_step : forall s l s', inv_exited s -> step s l = Some s' -> inv_exited s'.
Proof.
  intros s l s' I H.
  pose proof (non_monitor_frame stack verify p on_new on_err cbcap s l s' H) as F.
  destruct l; try (apply mon_part_eq in F; destruct F as [F1 [F2 _]]; unfold inv_exited; rewrite F1, F2; exact I).
  - cbn [System.step] in H. unfold System.mon_recv_step in H.
    destruct (s_mon s) as [|st pend|]; try discriminate H. destruct pend; [|discriminate H].
    intros Hx. exfalso.
    assert (exists st' pd, s_mon s' = MRun st' pd).
    { destruct src; inv_step H;
        match goal with |- exists _ _, s_mon (mon_take _ _ _ ?s1 ?st0 ?i) = _ =>
          destruct (mon_take_fields stack verify p s1 st0 i) as [_ [_ [_ [_ [_ [_ [_ [_ [_ [_ Hx']]]]]]]]]]; exact Hx' end. }
    destruct H0 as [st' [pd E]]. rewrite E in Hx. discriminate.
  - cbn [System.step] in H. unfold System.mon_act_step in H.
    destruct (s_mon s) as [|st pend|]; try discriminate H. destruct pend as [|a rest]; [discriminate H|].
    destruct a; inv_step H; intros Hx; cbn in *; try discriminate; reflexivity.
Qed.

(* ---- the callback goroutine can always be drained to its exit ---- *)

Definition cb_frame (s s' : sys) : Prop :=
  s_mon s' = s_mon s /\ s_done s' = s_done s /\ s_thr s' = s_thr s /\ s_main s' = s_main s.

Lemma cb_frame_refl : forall s, cb_frame s s.
Proof. intros; repeat split. Qed.
Lemma cb_frame_trans : forall a b c, cb_frame a b -> cb_frame b c -> cb_frame a c.
Proof. intros a b c [A1 [A2 [A3 A4]]] [B1 [B2 [B3 B4]]]. repeat split; congruence. Qed.

(* finish the iteration the goroutine is in: callbacks return, acks are sent *)
Lemma cb_finish_iteration : forall pend (s : sys) cst,
  s_cb s = CRun cst pend ->
  exists ls s', run s ls = Some s' /\ s_cb s' = CRun cst [] /\ s_cbq s' = s_cbq s /\ cb_frame s s' /\
                Forall (fun l => l = @LCbReturn sv \/ l = @LCbAck sv) ls.
Proof.
  induction pend as [|o r IH]; intros s cst Hc.
  - exists [], s. repeat split; auto.
  - destruct o as [i|a].
    + set (s1 := logged (with_cb s (CRun cst r)) (GCbRet :: cb_enter r)).
      assert (E : step s (@LCbReturn sv) = Some s1) by (cbn [System.step]; unfold cb_return_step; rewrite Hc; reflexivity).
      destruct (IH s1 cst eq_refl) as [ls [s' [R [C [Q [F Fa]]]]]].
      exists (@LCbReturn sv :: ls), s'. cbn [System.run]. rewrite E. repeat split; auto; try apply F.
    + set (s1 := logged (with_acks (with_cb s (CRun cst r)) (a :: s_acks s)) (GAck a :: cb_enter r)).
      assert (E : step s (@LCbAck sv) = Some s1) by (cbn [System.step]; unfold cb_ack_step; rewrite Hc; reflexivity).
      destruct (IH s1 cst eq_refl) as [ls [s' [R [C [Q [F Fa]]]]]].
      exists (@LCbAck sv :: ls), s'. cbn [System.run]. rewrite E. repeat split; auto; try apply F.
Qed.

Lemma cb_drains_to_exit : forall n (s : sys) cst pend,
  length (s_cbq s) = n -> s_cb s = CRun cst pend -> s_done s = true ->
  exists ls s', run s ls = Some s' /\ s_cb s' = CExited /\ cb_frame s s'.
Proof.
  induction n as [|n IH]; intros s cst pend Hn Hc Hd.
  - destruct (cb_finish_iteration pend s cst Hc) as [ls1 [s1 [R1 [C1 [Q1 [F1 _]]]]]].
    assert (Hq : s_cbq s1 = []) by (rewrite Q1; destruct (s_cbq s); [reflexivity|discriminate]).
    assert (Hd1 : s_done s1 = true) by (destruct F1 as [_ [D _]]; rewrite D; exact Hd).
    exists (ls1 ++ [@LCbTake sv]). eexists.
    rewrite (run_app stack verify p on_new on_err cbcap), R1. cbn [System.run System.step]. unfold System.cb_take_step.
    rewrite C1, Hq, Hd1. split; [reflexivity|]. split; [reflexivity|].
    eapply cb_frame_trans; [exact F1|]. repeat split.
  - destruct (cb_finish_iteration pend s cst Hc) as [ls1 [s1 [R1 [C1 [Q1 [F1 _]]]]]].
    destruct (s_cbq s) as [|ev rest] eqn:Eq; [discriminate|]. cbn in Hn. injection Hn as Hn.
    destruct (cb_step on_new on_err cst ev) as [cst' o] eqn:Es.
    set (s2 := logged (with_cb (with_cbq s1 rest) (CRun cst' o)) (GTake ev :: cb_enter o)).
    assert (E2 : step s1 (@LCbTake sv) = Some s2).
    { cbn [System.step]. unfold System.cb_take_step. rewrite C1, Q1, Es. reflexivity. }
    assert (Hd1 : s_done s1 = true) by (destruct F1 as [_ [D _]]; rewrite D; exact Hd).
    destruct (IH s2 cst' o) as [ls3 [s3 [R3 [C3 F3]]]]; [exact Hn|reflexivity|exact Hd1|].
    exists (ls1 ++ @LCbTake sv :: ls3), s3.
    rewrite (run_app stack verify p on_new on_err cbcap), R1. cbn [System.run]. rewrite E2.
    split; [exact R3|]. split; [exact C3|].
    eapply cb_frame_trans; [exact F1|]. eapply cb_frame_trans; [|exact F3]. repeat split.
Qed.

(* ---- the monitor can always be brought to its exit ---- *)

Definition not_cb_label (l : label) : Prop :=
  match l with LCbTake | LCbReturn | LCbAck => False | _ => True end.

Lemma noncb_keeps_cb : forall s l s', step s l = Some s' -> not_cb_label l -> s_cb s' = s_cb s.
Proof.
  intros s l s' H Hl. destruct l; try contradiction; cbn [System.step] in H.
  - apply (api_start_frame verify p) in H. tauto.
  - apply (api_act_frame cbcap) in H. tauto.
  - unfold System.mon_recv_step in H. inv_step H;
    match goal with |- s_cb (mon_take _ _ _ ?s1 ?st0 ?i) = _ =>
      destruct (mon_take_fields stack verify p s1 st0 i) as [_ [_ [_ [_ [_ [_ [_ [_ [Hc _]]]]]]]]]; rewrite Hc; reflexivity end.
  - unfold System.mon_act_step in H. inv_step H; reflexivity.
  - destruct (s_main s); [discriminate|]. inversion H. reflexivity.
  - apply cancel_call_frame in H. tauto.
Qed.

Lemma noncb_run_keeps_cb : forall ls s s', run s ls = Some s' -> Forall not_cb_label ls -> s_cb s' = s_cb s.
Proof.
  induction ls as [|l r IH]; intros s s' Hr Hf; cbn in Hr.
  - inversion Hr. reflexivity.
  - inversion Hf; subst. destruct (step s l) as [s1|] eqn:E; [|discriminate].
    rewrite (IH s1 s' Hr H2). eapply noncb_keeps_cb; eauto.
Qed.


Theorem monitor_can_exit_l : forall inits watching s0 ls s,
  snd (sys_init stack verify p inits watching) = Ok s0 -> run s0 ls = Some s ->
  s_mon s <> MNone ->
  exists ls' s', run s ls' = Some s' /\ s_mon s' = MExited /\ s_done s' = true /\
                 s_cb s' = s_cb s /\ Forall not_cb_label ls'.
Proof.
  intros inits watching s0 ls s H0 Hr Hn.
  destruct (monitor_drains_without_callbacks_l stack verify p on_new on_err cbcap inits watching s0 ls s H0 Hr)
    as [ms [s1 [Fm [R1 [P1 _]]]]].
  assert (Hr1 : run s0 (ls ++ ms) = Some s1) by (rewrite (run_app stack verify p on_new on_err cbcap), Hr; exact R1).
  assert (Hms : Forall not_cb_label ms).
  { eapply Forall_impl; [|exact Fm]. intros x Hx. destruct x; try contradiction; exact I. }
  (* monitor steps never turn a running monitor into "no monitor" *)
  assert (N1 : s_mon s1 <> MNone).
  { clear - R1 Fm Hn. revert s R1 Hn. induction ms as [|l r IH]; intros s R1 Hn; cbn in R1.
    - inversion R1; subst. exact Hn.
    - inversion Fm as [|? ? Hl Hf']; subst. destruct l; try contradiction.
      destruct (step s (LMonAct drop)) as [sc|] eqn:E; [|discriminate].
      apply (IH Hf' sc R1).
      cbn [System.step] in E. unfold System.mon_act_step in E.
      destruct (s_mon s) as [|st pd|] eqn:Em; try discriminate E. destruct pd as [|a rest]; [discriminate E|].
      destruct a; inv_step E; cbn; discriminate. }
  assert (I1 : inv_exited s1).
  { apply (run_inv stack verify p on_new on_err cbcap inv_exited inv_exited_step (ls ++ ms) s0 s1); [|exact Hr1].
    intros Hx. unfold sys_init in H0. cbn [snd] in H0.
    destruct (cr_out (config_init stack verify p inits watching)) as [[v st]| |]; try discriminate.
    inversion H0; subst. cbn in Hx. destruct (existsb _ watching); discriminate. }
  assert (Fin : forall tail s2, run s1 tail = Some s2 -> Forall not_cb_label tail ->
                  s_mon s2 = MExited -> s_done s2 = true ->
                  exists ls' s', run s ls' = Some s' /\ s_mon s' = MExited /\ s_done s' = true /\
                                 s_cb s' = s_cb s /\ Forall not_cb_label ls').
  { intros tail s2 R2 Ft M2 D2. exists (ms ++ tail), s2.
    assert (Rall : run s (ms ++ tail) = Some s2) by (rewrite (run_app stack verify p on_new on_err cbcap), R1; exact R2).
    assert (Fall : Forall not_cb_label (ms ++ tail)) by (apply Forall_app; auto).
    repeat split; auto. eapply noncb_run_keeps_cb; eauto. }
  unfold SystemProofs.pend_of in P1.
  destruct (s_mon s1) as [|st pd|] eqn:Em; [contradiction| |].
  - subst pd. destruct (s_main s1) eqn:Emain.
    + destruct (shutdown_monitor_l stack verify p on_new on_err cbcap s1 st Emain Em) as [s2 [R2 [M2 D2]]].
      apply (Fin [LMonRecv RCtx; LMonAct false] s2 R2); auto. repeat constructor.
    + set (s1' := logged (with_main s1 true) [GCancelMain]).
      assert (E : step s1 (@LCancelMain sv) = Some s1') by (cbn [System.step]; rewrite Emain; reflexivity).
      destruct (shutdown_monitor_l stack verify p on_new on_err cbcap s1' st eq_refl Em) as [s2 [R2 [M2 D2]]].
      apply (Fin (LCancelMain :: [LMonRecv RCtx; LMonAct false]) s2); auto; [|repeat constructor].
      cbn [System.run]. rewrite E. exact R2.
  - apply (Fin [] s1); auto; try (apply I1; reflexivity).
Qed.

(* C08: from every reachable state both goroutines can be brought to their
   exit by the monitor finishing its pending actions, a cancellation of the
   Config context and callbacks returning *)
Theorem shutdown_always_possible_l : forall inits watching s0 ls s,
  snd (sys_init stack verify p inits watching) = Ok s0 -> run s0 ls = Some s ->
  s_mon s <> MNone ->
  exists ls' s', run s ls' = Some s' /\ s_mon s' = MExited /\ s_done s' = true /\
                 (s_cb s' = CExited \/ s_cb s' = CNone).
Proof.
  intros inits watching s0 ls s H0 Hr Hn.
  destruct (monitor_can_exit_l inits watching s0 ls s H0 Hr Hn) as [l1 [s1 [R1 [M1 [D1 [C1 _]]]]]].
  destruct (s_cb s1) as [|cst pend|] eqn:Ec.
  - exists l1, s1. auto.
  - destruct (cb_drains_to_exit (length (s_cbq s1)) s1 cst pend eq_refl Ec D1) as [l2 [s2 [R2 [C2 [F1 [F2 _]]]]]].
    exists (l1 ++ l2), s2. rewrite (run_app stack verify p on_new on_err cbcap), R1.
    split; [exact R2|]. split; [rewrite F1; exact M1|]. split; [rewrite F2; exact D1|]. left. exact C2.
  - exists l1, s1. auto.
Qed.

End Proofs.
