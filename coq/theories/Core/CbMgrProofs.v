(* PROOFS about the pure fold cb_run of Core/CbMgr.v (property C06). *)
From Coq Require Import List NArith Bool Lia.
From Dials Require Import Base.Outcome Core.CbMgr.
Import ListNotations.
Open Scope N_scope.

Section Proofs.
Context {cfg : Type}.
Variable on_new on_err : bool.

Notation cb_event := (cb_event cfg).
Notation cb_state := (cb_state cfg).
Notation cb_out := (cb_out cfg).
Notation step := (@cb_step cfg on_new on_err).
Notation run := (@cb_run cfg on_new on_err).

Definition outs (st : cb_state) (evs : list cb_event) : list cb_out := snd (run st evs).
Definition after (st : cb_state) (evs : list cb_event) : cb_state := fst (run st evs).

Lemma run_cons : forall st ev r,
  run st (ev :: r) = (after (fst (step st ev)) r, snd (step st ev) ++ outs (fst (step st ev)) r).
Proof.
  intros. unfold after, outs. cbn [cb_run]. destruct (step st ev) as [s1 o1]. cbn [fst snd].
  destruct (run s1 r) as [s2 o2]. reflexivity.
Qed.

Lemma outs_cons : forall st ev r,
  outs st (ev :: r) = snd (step st ev) ++ outs (fst (step st ev)) r.
Proof. intros. unfold outs at 1. rewrite run_cons. reflexivity. Qed.

Lemma after_cons : forall st ev r, after st (ev :: r) = after (fst (step st ev)) r.
Proof. intros. unfold after at 1. rewrite run_cons. reflexivity. Qed.

Lemma outs_nil : forall st, outs st [] = [].
Proof. reflexivity. Qed.
Lemma after_nil : forall st, after st [] = st.
Proof. reflexivity. Qed.

Lemma after_app : forall a st b, after st (a ++ b) = after (after st a) b.
Proof.
  induction a; intros; cbn [app].
  - reflexivity.
  - rewrite !after_cons. apply IHa.
Qed.

Lemma outs_app : forall a st b, outs st (a ++ b) = outs st a ++ outs (after st a) b.
Proof.
  induction a; intros; cbn [app].
  - reflexivity.
  - rewrite !outs_cons, after_cons, IHa, app_assoc. reflexivity.
Qed.

(* ---------- the last announced serial ---------- *)

Lemma after_last_serial : forall evs st,
  cb_last_serial (after st evs) = last_announced (cb_last_serial st) evs.
Proof.
  induction evs as [|ev r IH]; intros.
  - reflexivity.
  - rewrite after_cons, IH. destruct ev; reflexivity.
Qed.

(* lastVersion is the config of lastSerial (nil only before any announcement) *)
Definition version_inv (st : cb_state) : Prop :=
  match cb_last_version st with
  | Some v => fst v = cb_last_serial st
  | None => cb_last_serial st = 0
  end.

Lemma version_inv_init : version_inv (@cb_init cfg).
Proof. reflexivity. Qed.

Lemma version_inv_step : forall st ev, ev_wf ev -> version_inv st -> version_inv (fst (step st ev)).
Proof.
  intros st ev Hwf Hv. destruct ev; cbn in *; try exact Hv.
  unfold version_inv. cbn. tauto.
Qed.

Lemma version_inv_after : forall evs st, Forall ev_wf evs -> version_inv st -> version_inv (after st evs).
Proof.
  induction evs; intros st Hwf Hv.
  - exact Hv.
  - inversion Hwf; subst. rewrite after_cons. apply IHevs; auto using version_inv_step.
Qed.

(* ---------- strictly increasing lists above a bound ---------- *)

Fixpoint sorted_above (lo : N) (l : list N) : Prop :=
  match l with
  | [] => True
  | d :: r => lo < d /\ sorted_above d r
  end.

Lemma sorted_above_weaken : forall l lo lo', lo' <= lo -> sorted_above lo l -> sorted_above lo' l.
Proof. destruct l; cbn; intros; [exact I|]. destruct H0. split; [lia|assumption]. Qed.

Lemma sorted_above_all : forall l lo, sorted_above lo l -> Forall (fun d => lo < d) l.
Proof.
  induction l; cbn; intros; constructor.
  - tauto.
  - destruct H as [H1 H2]. apply IHl in H2. eapply Forall_impl; [|exact H2]. cbn. intros. lia.
Qed.

(* ---------- the entries of one handle ---------- *)

Definition hsel (h : N) (hs : list (N * N)) : list (N * N) := filter (fun hm => fst hm =? h) hs.

Lemma hsel_app : forall h a b, hsel h (a ++ b) = hsel h a ++ hsel h b.
Proof. intros. apply filter_app. Qed.

Lemma hsel_remove_same : forall h hs, hsel h (remove_handle h hs) = [].
Proof.
  induction hs as [|x r IH]; cbn; [reflexivity|].
  destruct (fst x =? h) eqn:E; cbn; [exact IH|]. rewrite E. exact IH.
Qed.

Lemma hsel_remove_other : forall h h' hs, h' <> h -> hsel h (remove_handle h' hs) = hsel h hs.
Proof.
  induction hs as [|x r IH]; intros Hne; cbn; [reflexivity|].
  destruct (fst x =? h') eqn:E1; cbn.
  - apply N.eqb_eq in E1. destruct (fst x =? h) eqn:E2.
    + apply N.eqb_eq in E2. congruence.
    + auto.
  - destruct (fst x =? h); [f_equal|]; auto.
Qed.

Lemma deliveries_app : forall h (a b : list cb_out), deliveries h (a ++ b) = deliveries h a ++ deliveries h b.
Proof. intros. unfold deliveries. apply flat_map_app. Qed.

Lemma deliveries_new_sel : forall h old new k hs,
  deliveries h (flat_map (@deliver_new cfg old new k) hs)
  = deliveries h (flat_map (@deliver_new cfg old new k) (hsel h hs)).
Proof.
  induction hs as [|x r IH]; [reflexivity|].
  cbn [flat_map]. rewrite deliveries_app, IH. unfold hsel at 2. cbn [filter]. fold (hsel h r).
  destruct (fst x =? h) eqn:E.
  - cbn [flat_map]. rewrite deliveries_app. reflexivity.
  - unfold deliver_new. destruct (k <=? snd x); [reflexivity|]. cbn. rewrite E. reflexivity.
Qed.

Lemma user_inv_new_sel : forall h old new k hs,
  existsb (is_user_inv_of h) (flat_map (@deliver_new cfg old new k) hs)
  = existsb (is_user_inv_of h) (flat_map (@deliver_new cfg old new k) (hsel h hs)).
Proof.
  induction hs as [|x r IH]; [reflexivity|].
  cbn [flat_map]. rewrite existsb_app, IH. unfold hsel at 2. cbn [filter]. fold (hsel h r).
  destruct (fst x =? h) eqn:E.
  - cbn [flat_map]. rewrite existsb_app. reflexivity.
  - unfold deliver_new. destruct (k <=? snd x); [reflexivity|]. cbn. rewrite E. reflexivity.
Qed.

Lemma deliveries_global : forall h (b : bool) (i : invocation cfg),
  (forall h' o n c, i <> InvUser h' o n c) ->
  deliveries h (if b then [OInv i] else []) = [].
Proof. intros. destruct b; [|reflexivity]. destruct i; try reflexivity. exfalso. eapply H. reflexivity. Qed.

(* ---------- a handle that is not registered receives nothing ---------- *)

Definition no_reg (h : N) (evs : list cb_event) : Prop := forallb (fun ev => negb (reg_of h ev)) evs = true.
Definition no_unreg (h : N) (evs : list cb_event) : Prop := forallb (fun ev => negb (unreg_of h ev)) evs = true.

Lemma absent_silent : forall h evs st,
  hsel h (cb_handles st) = [] -> no_reg h evs ->
  existsb (is_user_inv_of h) (outs st evs) = false.
Proof.
  induction evs as [|ev r IH]; intros st Hs Hn.
  - reflexivity.
  - unfold no_reg in Hn. cbn in Hn. apply andb_true_iff in Hn. destruct Hn as [Hn1 Hn2].
    rewrite outs_cons, existsb_app. apply orb_false_iff. split.
    + destruct ev; cbn.
      * rewrite existsb_app, user_inv_new_sel, Hs. cbn. destruct (on_new && negb suppressed); reflexivity.
      * destruct on_err; reflexivity.
      * cbn in Hn1. apply negb_true_iff in Hn1.
        destruct tok as [tc|]; [|reflexivity]. destruct (fst tc <? cb_last_serial st); cbn; [|reflexivity].
        rewrite Hn1. reflexivity.
      * reflexivity.
    + apply IH; [|exact Hn2]. destruct ev; cbn [cb_step fst cb_handles]; try exact Hs.
      * rewrite hsel_app, Hs. cbn in Hn1. apply negb_true_iff in Hn1. cbn. rewrite Hn1. reflexivity.
      * destruct (N.eq_dec h0 h) as [->|Hne]; [apply hsel_remove_same|].
        rewrite hsel_remove_other; auto.
Qed.

Lemma no_user_inv_no_deliveries : forall h (os : list cb_out),
  existsb (is_user_inv_of h) os = false -> deliveries h os = [].
Proof.
  induction os as [|o r IH]; intros H; [reflexivity|].
  cbn [existsb] in H. apply orb_false_iff in H. destruct H as [H1 H2].
  unfold deliveries. cbn [flat_map]. fold (deliveries h r). rewrite (IH H2), app_nil_r.
  destruct o as [i|]; [|reflexivity]. destruct i; try reflexivity.
  cbn in H1. destruct new; [|reflexivity]. cbn. rewrite H1. reflexivity.
Qed.

(* ---------- never stale: a registered handle ---------- *)

Lemma present_sorted : forall h ms evs st,
  hsel h (cb_handles st) = [(h, ms)] -> no_reg h evs ->
  incr_from (cb_last_serial st) evs -> Forall ev_wf evs ->
  sorted_above (N.max ms (cb_last_serial st)) (deliveries h (outs st evs)).
Proof.
  induction evs as [|ev r IH]; intros st Hs Hn Hi Hwf.
  - exact I.
  - unfold no_reg in Hn. cbn in Hn. apply andb_true_iff in Hn. destruct Hn as [Hn1 Hn2].
    inversion Hwf as [|? ? Hw1 Hw2]; subst.
    rewrite outs_cons, deliveries_app.
    destruct ev as [old new k sup|e old rej|h' tok|h' ack].
    + (* EvNew *)
      cbn in Hi. destruct Hi as [Hlt Hi]. cbn in Hw1. destruct Hw1 as [Hnk Hok].
      cbn [cb_step fst snd]. rewrite deliveries_app, deliveries_new_sel, Hs.
      rewrite deliveries_global by (intros; discriminate).
      specialize (IH (mkCb k (Some new) (cb_handles st)) Hs Hn2 Hi Hw2). cbn [cb_last_serial] in IH.
      cbn [flat_map app deliver_new fst snd]. unfold deliver_new. cbn [fst snd].
      destruct (k <=? ms) eqn:E.
      * apply N.leb_le in E. cbn. eapply sorted_above_weaken; [|exact IH]. lia.
      * apply N.leb_gt in E. cbn. rewrite N.eqb_refl. cbn. split; [lia|].
        eapply sorted_above_weaken; [|exact IH]. lia.
    + cbn [cb_step fst snd]. rewrite deliveries_global by (intros; discriminate). cbn.
      apply IH; auto.
    + cbn in Hn1. apply negb_true_iff in Hn1. cbn [cb_step fst snd].
      assert (Hd : deliveries h (match tok with
                | Some tc => if fst tc <? cb_last_serial st
                             then [OInv (InvUser h' tc (cb_last_version st) true)] else []
                | None => [] end) = []).
      { destruct tok as [tc|]; [|reflexivity]. destruct (fst tc <? cb_last_serial st); [|reflexivity].
        cbn. destruct (cb_last_version st); [|reflexivity]. cbn. rewrite Hn1. reflexivity. }
      rewrite Hd. cbn [app].
      apply (IH (mkCb (cb_last_serial st) (cb_last_version st) (cb_handles st ++ [(h', tok_serial tok)]))); auto.
      cbn [cb_handles]. rewrite hsel_app, Hs. cbn. rewrite Hn1. reflexivity.
    + cbn [cb_step fst snd]. cbn [deliveries flat_map delivered_to app].
      destruct (N.eq_dec h' h) as [->|Hne].
      * (* the handle itself is removed: nothing more is delivered *)
        rewrite no_user_inv_no_deliveries; [exact I|].
        apply absent_silent; [|exact Hn2]. cbn. apply hsel_remove_same.
      * apply (IH (mkCb (cb_last_serial st) (cb_last_version st) (remove_handle h' (cb_handles st)))); auto.
        cbn [cb_handles]. rewrite hsel_remove_other; auto.
Qed.

(* first registration of h in an event list *)
Fixpoint first_reg (h : N) (evs : list cb_event) : option (option (vcfg cfg)) :=
  match evs with
  | [] => None
  | EvReg h' tok :: r => if h' =? h then Some tok else first_reg h r
  | _ :: r => first_reg h r
  end.

(* h is registered at most once *)
Fixpoint reg_once (h : N) (evs : list cb_event) : Prop :=
  match evs with
  | [] => True
  | ev :: r => (if reg_of h ev then no_reg h r else reg_once h r)
  end.

Lemma absent_sorted : forall h evs st,
  hsel h (cb_handles st) = [] -> reg_once h evs ->
  incr_from (cb_last_serial st) evs -> Forall ev_wf evs -> version_inv st ->
  match first_reg h evs with
  | None => deliveries h (outs st evs) = []
  | Some tok => sorted_above (tok_serial tok) (deliveries h (outs st evs))
  end.
Proof.
  induction evs as [|ev r IH]; intros st Hs Hr Hi Hwf Hv.
  - reflexivity.
  - inversion Hwf as [|? ? Hw1 Hw2]; subst.
    pose proof (version_inv_step st ev Hw1 Hv) as Hv'.
    rewrite outs_cons, deliveries_app.
    destruct ev as [old new k sup|e old rej|h' tok|h' ack]; cbn [first_reg].
    + cbn in Hi. destruct Hi as [Hlt Hi]. cbn in Hr.
      specialize (IH (mkCb k (Some new) (cb_handles st)) Hs Hr Hi Hw2 Hv').
      cbn [cb_step fst snd]. rewrite deliveries_app, deliveries_new_sel, Hs.
      rewrite deliveries_global by (intros; discriminate). cbn [flat_map deliveries app].
      exact IH.
    + cbn in Hr. cbn [cb_step fst snd]. rewrite deliveries_global by (intros; discriminate).
      cbn [app]. apply IH; auto.
    + cbn [reg_once reg_of] in Hr. cbn [cb_step fst snd].
      destruct (h' =? h) eqn:E.
      * apply N.eqb_eq in E. subst h'.
        pose proof (present_sorted h (tok_serial tok) r
                      (mkCb (cb_last_serial st) (cb_last_version st) (cb_handles st ++ [(h, tok_serial tok)]))) as P.
        cbn [cb_handles cb_last_serial] in P. rewrite hsel_app, Hs in P. cbn in P. rewrite N.eqb_refl in P.
        specialize (P eq_refl Hr Hi Hw2).
        destruct tok as [tc|]; cbn [tok_serial] in *.
        -- destruct tc as [ts tcf]. cbn [fst] in *. destruct (ts <? cb_last_serial st) eqn:E2.
           ++ apply N.ltb_lt in E2. unfold version_inv in Hv.
              destruct (cb_last_version st) as [lv|] eqn:Elv; [|lia].
              cbn. rewrite N.eqb_refl. cbn. split; [lia|].
              eapply sorted_above_weaken; [|exact P]. lia.
           ++ cbn. eapply sorted_above_weaken; [|exact P]. lia.
        -- cbn. eapply sorted_above_weaken; [|exact P]. lia.
      * assert (Hd : deliveries h (match tok with
                | Some tc => if fst tc <? cb_last_serial st
                             then [OInv (InvUser h' tc (cb_last_version st) true)] else []
                | None => [] end) = []).
        { destruct tok as [tc|]; [|reflexivity]. destruct (fst tc <? cb_last_serial st); [|reflexivity].
          cbn. destruct (cb_last_version st); [|reflexivity]. cbn. rewrite E. reflexivity. }
        rewrite Hd. cbn [app].
        apply (IH (mkCb (cb_last_serial st) (cb_last_version st) (cb_handles st ++ [(h', tok_serial tok)]))); auto.
        cbn [cb_handles]. rewrite hsel_app, Hs. cbn. rewrite E. reflexivity.
    + cbn in Hr. cbn [cb_step fst snd deliveries flat_map delivered_to app].
      apply (IH (mkCb (cb_last_serial st) (cb_last_version st) (remove_handle h' (cb_handles st)))); auto.
      cbn [cb_handles]. destruct (N.eq_dec h' h) as [->|Hne]; [apply hsel_remove_same|].
      rewrite hsel_remove_other; auto.
Qed.

(* C06 never_stale: for every well-formed queue content, the serials delivered
   to a handle strictly increase and are all above the serial it registered
   with; a handle that is never registered receives nothing. *)
Theorem never_stale_l : forall h evs,
  incr_from 0 evs -> Forall ev_wf evs -> reg_once h evs ->
  match first_reg h evs with
  | None => deliveries h (outs (@cb_init cfg) evs) = []
  | Some tok => sorted_above (tok_serial tok) (deliveries h (outs (@cb_init cfg) evs))
  end.
Proof.
  intros. apply absent_sorted; auto. apply version_inv_init.
Qed.

(* ---------- catch-up exactly when ... ---------- *)

Theorem catchup_iff_l : forall pre h tok, Forall ev_wf pre ->
  let st := after (@cb_init cfg) pre in
  let L := last_announced 0 pre in
  match tok with
  | Some tc =>
      if fst tc <? L
      then exists lv, cb_last_version st = Some lv /\ fst lv = L /\
                      snd (step st (EvReg h tok)) = [OInv (InvUser h tc (Some lv) true)]
      else snd (step st (EvReg h tok)) = []
  | None => snd (step st (EvReg h tok)) = []
  end.
Proof.
  intros pre h tok Hwf st L.
  assert (HL : cb_last_serial st = L) by (unfold st, L; rewrite after_last_serial; reflexivity).
  assert (Hv : version_inv st) by (apply version_inv_after; auto using version_inv_init).
  destruct tok as [tc|]; [|reflexivity]. cbn. rewrite HL.
  destruct (fst tc <? L) eqn:E; [|reflexivity].
  apply N.ltb_lt in E. unfold version_inv in Hv. destruct (cb_last_version st) as [lv|]; [|lia].
  exists lv. rewrite Hv, HL. auto.
Qed.

(* position form: the outputs of a queue prefix followed by a registration *)
Lemma outs_snoc : forall st pre ev, outs st (pre ++ [ev]) = outs st pre ++ snd (step (after st pre) ev).
Proof. intros. rewrite outs_app, outs_cons, outs_nil, app_nil_r. reflexivity. Qed.

(* ---------- none after unregister ---------- *)

Theorem none_after_unregister_l : forall pre h ack post st,
  no_reg h post ->
  existsb (is_user_inv_of h) (outs (after st (pre ++ [EvUnreg h ack])) post) = false.
Proof.
  intros. apply absent_silent; [|assumption].
  rewrite after_app, after_cons, after_nil. cbn. apply hsel_remove_same.
Qed.

(* the ack is emitted in the same iteration, after the removal: outputs of the
   whole run = outputs before ++ [OAck ack] ++ outputs after *)
Lemma outs_unreg_split : forall pre h ack post st,
  outs st (pre ++ EvUnreg h ack :: post)
  = outs st pre ++ [OAck ack] ++ outs (after st (pre ++ [EvUnreg h ack])) post.
Proof.
  intros. replace (pre ++ EvUnreg h ack :: post) with ((pre ++ [EvUnreg h ack]) ++ post)
    by (rewrite <- app_assoc; reflexivity).
  rewrite outs_app, outs_snoc, <- app_assoc. reflexivity.
Qed.

(* ---------- no skip ---------- *)

Lemma handle_stays : forall h ms mid st,
  In (h, ms) (cb_handles st) -> no_unreg h mid -> In (h, ms) (cb_handles (after st mid)).
Proof.
  induction mid as [|ev r IH]; intros st Hin Hn; [exact Hin|].
  unfold no_unreg in Hn. cbn in Hn. apply andb_true_iff in Hn. destruct Hn as [Hn1 Hn2].
  rewrite after_cons. apply IH; [|exact Hn2].
  destruct ev; cbn; auto.
  - apply in_or_app. auto.
  - cbn in Hn1. apply negb_true_iff, N.eqb_neq in Hn1.
    unfold remove_handle. apply filter_In. split; [exact Hin|]. cbn.
    apply negb_true_iff, N.eqb_neq. congruence.
Qed.

Lemma deliver_in : forall h ms old new k hs,
  In (h, ms) hs -> ms < k ->
  In (OInv (InvUser h old (Some new) false)) (flat_map (@deliver_new cfg old new k) hs).
Proof.
  intros. apply in_flat_map. exists (h, ms). split; [assumption|].
  unfold deliver_new. cbn. destruct (k <=? ms) eqn:E; [apply N.leb_le in E; lia|]. left. reflexivity.
Qed.

Theorem no_skip_l : forall pre h tok mid old new k sup post st,
  no_unreg h mid -> tok_serial tok < k ->
  In (OInv (InvUser h old (Some new) false))
     (outs st (pre ++ EvReg h tok :: mid ++ EvNew old new k sup :: post)).
Proof.
  intros. rewrite outs_app. apply in_or_app. right.
  rewrite outs_cons. apply in_or_app. right.
  rewrite outs_app. apply in_or_app. right.
  rewrite outs_cons. apply in_or_app. left.
  cbn [cb_step snd]. apply in_or_app. right.
  eapply deliver_in; [|eassumption].
  apply handle_stays; [|assumption]. cbn. apply in_or_app. right. left. reflexivity.
Qed.

(* ---------- ordinary calls: old is the immediate predecessor ---------- *)

Theorem old_is_predecessor_l : forall evs st h old new,
  Forall ev_wf evs ->
  In (OInv (InvUser h old (Some new) false)) (outs st evs) -> fst old + 1 = fst new.
Proof.
  induction evs as [|ev r IH]; intros st h old new Hwf Hin; [destruct Hin|].
  inversion Hwf as [|? ? Hw1 Hw2]; subst.
  rewrite outs_cons in Hin. apply in_app_or in Hin. destruct Hin as [Hin|Hin]; [|eauto].
  destruct ev as [o n k sup|e o rej|h' tok|h' ack]; cbn in Hin.
  - apply in_app_or in Hin. destruct Hin as [Hin|Hin].
    + destruct (on_new && negb sup); cbn in Hin; [destruct Hin as [Hin|[]]; discriminate|destruct Hin].
    + apply in_flat_map in Hin. destruct Hin as [x [_ Hx]]. unfold deliver_new in Hx.
      destruct (k <=? snd x); [destruct Hx|]. destruct Hx as [Hx|[]]. inversion Hx; subst.
      cbn in Hw1. lia.
  - destruct on_err; [destruct Hin as [Hin|[]]; discriminate|destruct Hin].
  - destruct tok as [tc|]; [|destruct Hin]. destruct (fst tc <? cb_last_serial st); [|destruct Hin].
    destruct Hin as [Hin|[]]. discriminate.
  - destruct Hin as [Hin|[]]. discriminate.
Qed.

(* the same for the global OnNewConfig callback *)
Theorem global_old_is_predecessor_l : forall evs st old new,
  Forall ev_wf evs ->
  In (OInv (InvNewGlobal old new)) (outs st evs) -> fst old + 1 = fst new.
Proof.
  induction evs as [|ev r IH]; intros st old new Hwf Hin; [destruct Hin|].
  inversion Hwf as [|? ? Hw1 Hw2]; subst.
  rewrite outs_cons in Hin. apply in_app_or in Hin. destruct Hin as [Hin|Hin]; [|eauto].
  destruct ev as [o n k sup|e o rej|h' tok|h' ack]; cbn in Hin.
  - apply in_app_or in Hin. destruct Hin as [Hin|Hin].
    + destruct (on_new && negb sup); cbn in Hin; [|destruct Hin].
      destruct Hin as [Hin|[]]. inversion Hin; subst. cbn in Hw1. lia.
    + apply in_flat_map in Hin. destruct Hin as [x [_ Hx]]. unfold deliver_new in Hx.
      destruct (k <=? snd x); [destruct Hx|]. destruct Hx as [Hx|[]]. discriminate.
  - destruct on_err; [destruct Hin as [Hin|[]]; discriminate|destruct Hin].
  - destruct tok as [tc|]; [|destruct Hin]. destruct (fst tc <? cb_last_serial st); [|destruct Hin].
    destruct Hin as [Hin|[]]. discriminate.
  - destruct Hin as [Hin|[]]. discriminate.
Qed.

(* ---------- install order of the global callback ---------- *)

Definition global_new_of (o : cb_out) : list N :=
  match o with OInv (InvNewGlobal _ nw) => [fst nw] | _ => [] end.
Definition global_news (os : list cb_out) : list N := flat_map global_new_of os.

Lemma global_news_app : forall a b, global_news (a ++ b) = global_news a ++ global_news b.
Proof. intros. apply flat_map_app. Qed.

Lemma global_news_deliver : forall old new k hs,
  global_news (flat_map (@deliver_new cfg old new k) hs) = [].
Proof.
  induction hs as [|x r IH]; [reflexivity|]. cbn. rewrite global_news_app, IH.
  unfold deliver_new. destruct (k <=? snd x); reflexivity.
Qed.

Theorem in_install_order_l : forall evs st,
  incr_from (cb_last_serial st) evs -> Forall ev_wf evs ->
  sorted_above (cb_last_serial st) (global_news (outs st evs)).
Proof.
  induction evs as [|ev r IH]; intros st Hi Hwf; [exact I|].
  inversion Hwf as [|? ? Hw1 Hw2]; subst.
  rewrite outs_cons, global_news_app.
  destruct ev as [o n k sup|e o rej|h' tok|h' ack]; cbn [cb_step fst snd].
  - cbn in Hi. destruct Hi as [Hlt Hi]. cbn in Hw1. destruct Hw1 as [Hn _].
    specialize (IH (mkCb k (Some n) (cb_handles st)) Hi Hw2). cbn [cb_last_serial] in IH.
    rewrite global_news_app, global_news_deliver, app_nil_r.
    destruct (on_new && negb sup); cbn.
    + rewrite Hn. split; [assumption|assumption].
    + eapply sorted_above_weaken; [|exact IH]. lia.
  - assert (E : global_news (if on_err then [OInv (InvErrGlobal e o rej)] else []) = [])
      by (destruct on_err; reflexivity).
    rewrite E. apply IH; auto.
  - assert (E : global_news (match tok with
                | Some tc => if fst tc <? cb_last_serial st
                             then [OInv (InvUser h' tc (cb_last_version st) true)] else []
                | None => [] end) = []).
    { destruct tok as [tc|]; [|reflexivity]. destruct (fst tc <? cb_last_serial st); reflexivity. }
    rewrite E. apply (IH (mkCb (cb_last_serial st) (cb_last_version st) _)); auto.
  - cbn. apply (IH (mkCb (cb_last_serial st) (cb_last_version st) _)); auto.
Qed.

(* every callback a registered handle ever gets carries a non-nil new config *)
Theorem user_new_not_nil_l : forall evs st h old cu,
  Forall ev_wf evs -> version_inv st ->
  ~ In (OInv (InvUser h old None cu)) (outs st evs).
Proof.
  induction evs as [|ev r IH]; intros st h old cu Hwf Hv Hin; [destruct Hin|].
  inversion Hwf as [|? ? Hw1 Hw2]; subst.
  rewrite outs_cons in Hin. apply in_app_or in Hin. destruct Hin as [Hin|Hin].
  2:{ eapply IH; [exact Hw2| |exact Hin]. apply version_inv_step; auto. }
  destruct ev as [o n k sup|e o rej|h' tok|h' ack]; cbn in Hin.
  - apply in_app_or in Hin. destruct Hin as [Hin|Hin].
    + destruct (on_new && negb sup); cbn in Hin; [destruct Hin as [Hin|[]]; discriminate|destruct Hin].
    + apply in_flat_map in Hin. destruct Hin as [x [_ Hx]]. unfold deliver_new in Hx.
      destruct (k <=? snd x); [destruct Hx|]. destruct Hx as [Hx|[]]. discriminate.
  - destruct on_err; [destruct Hin as [Hin|[]]; discriminate|destruct Hin].
  - destruct tok as [tc|]; [|destruct Hin]. destruct (fst tc <? cb_last_serial st) eqn:E; [|destruct Hin].
    destruct Hin as [Hin|[]]. unfold version_inv in Hv.
    destruct (cb_last_version st) eqn:Elv; [discriminate|]. apply N.ltb_lt in E. lia.
  - destruct Hin as [Hin|[]]. discriminate.
Qed.

(* ---------- the pinned tree's unregister arm panics (finding 4) ---------- *)

Lemma second_unregister_pre_fix_refuted : forall h a1 a2,
  (* register, unregister, unregister again: the third iteration panics *)
  let st := after (@cb_init cfg) [EvReg h None; EvUnreg h a1] in
  @cb_step_prefix cfg on_new on_err st (EvUnreg h a2) = Panic 2.
Proof. intros. cbn. rewrite N.eqb_refl. reflexivity. Qed.

Lemma unregister_total_after_fix : forall st h a, exists st', step st (EvUnreg h a) = (st', [OAck a]).
Proof. intros. eexists. reflexivity. Qed.

End Proofs.
