(* PROOFS linking the system's callback queue to the pure fold of
   Core/CbMgrProofs.v (property C06 at system level, all schedules):
   cbch is FIFO, the callback goroutine's state and outputs are the fold
   cb_run over the events taken so far, callbacks alternate call/return, and
   what gets into the queue is well-formed with increasing serials. *)
From Coq Require Import List NArith Bool Lia.
From Dials Require Import Base.Outcome Core.CbMgr Core.CbMgrProofs Core.Monitor Core.MonitorProofs
  Core.System Core.SystemProofs.
Import ListNotations.
Open Scope N_scope.

Section Proofs.
Context {cfg sv : Type}.
Variable stack : list sv -> option cfg.
Variable verify : cfg -> bool.
Variable p : params.
Variable on_new on_err : bool.
Variable cbcap : N.

Notation sys := (sys cfg sv).
Notation label := (label sv).
Notation gevent := (gevent cfg sv).
Notation cb_event := (cb_event cfg).
Notation cb_out := (cb_out cfg).
Notation mon_act := (mon_act cfg).
Notation step := (@step cfg sv stack verify p on_new on_err cbcap).
Notation run := (@run cfg sv stack verify p on_new on_err cbcap).
Notation outs := (@outs cfg on_new on_err).
Notation after := (@after cfg on_new on_err).
Notation mon_hist := (@mon_hist cfg sv).

(* read off the ghost history: what was put into cbch, what the callback
   goroutine took out, and what it did that others can observe *)
Definition enq_of (log : list gevent) : list cb_event :=
  flat_map (fun g => match g with
                     | GEnq _ ev => [ev]
                     | GAct (ATrySubmit ev) false => [ev]
                     | _ => [] end) log.
Definition taken_of (log : list gevent) : list cb_event :=
  flat_map (fun g => match g with GTake ev => [ev] | _ => [] end) log.
Definition cb_hist (log : list gevent) : list cb_out :=
  flat_map (fun g => match g with GCall i => [OInv i] | GAck a => [OAck a] | _ => [] end) log.

Lemma enq_of_app : forall a b, enq_of (a ++ b) = enq_of a ++ enq_of b.
Proof. intros. apply flat_map_app. Qed.
Lemma taken_of_app : forall a b, taken_of (a ++ b) = taken_of a ++ taken_of b.
Proof. intros. apply flat_map_app. Qed.
Lemma cb_hist_app : forall a b, cb_hist (a ++ b) = cb_hist a ++ cb_hist b.
Proof. intros. apply flat_map_app. Qed.

(* the head invocation of the pending outputs has been entered (and logged) already *)
Definition unstarted (pend : list cb_out) : list cb_out :=
  match pend with OInv _ :: r => r | _ => pend end.
Definition in_call (c : cb_ctrl cfg) : bool :=
  match c with CRun _ (OInv _ :: _) => true | _ => false end.

(* call / return alternation in a history; None: two callbacks overlapped *)
Fixpoint call_state (open : bool) (log : list gevent) : option bool :=
  match log with
  | [] => Some open
  | GCall _ :: r => if open then None else call_state true r
  | GCbRet :: r => if open then call_state false r else None
  | _ :: r => call_state open r
  end.

Lemma call_state_app : forall a b o,
  call_state o (a ++ b) = match call_state o a with Some o' => call_state o' b | None => None end.
Proof.
  induction a as [|g a IH]; intros b o; [reflexivity|].
  destruct g; cbn; try apply IH; destruct o; try reflexivity; apply IH.
Qed.

Definition inv_q (s : sys) : Prop :=
  enq_of (s_log s) = taken_of (s_log s) ++ s_cbq s /\
  call_state false (s_log s) = Some (in_call (s_cb s)) /\
  match s_cb s with
  | CNone => cb_hist (s_log s) = [] /\ taken_of (s_log s) = []
  | CRun cst pend =>
      cst = after cb_init (taken_of (s_log s)) /\
      cb_hist (s_log s) ++ unstarted pend = outs cb_init (taken_of (s_log s))
  | CExited => cb_hist (s_log s) = outs cb_init (taken_of (s_log s))
  end.

(* events that concern neither the queue nor the callback goroutine *)
Definition quiet (es : list gevent) : Prop :=
  enq_of es = [] /\ taken_of es = [] /\ cb_hist es = [] /\ (forall o, call_state o es = Some o).

Lemma inv_q_frame : forall s s' es,
  inv_q s -> s_log s' = s_log s ++ es -> quiet es -> s_cbq s' = s_cbq s -> s_cb s' = s_cb s -> inv_q s'.
Proof.
  intros s s' es [Q1 [Q2 Q3]] L [E1 [E2 [E3 E4]]] C B.
  unfold inv_q. rewrite L, C, B, enq_of_app, taken_of_app, cb_hist_app, call_state_app, E1, E2, E3, Q2, E4, !app_nil_r.
  auto.
Qed.

Lemma quiet_nil : quiet [].
Proof. repeat split. Qed.

Lemma quiet_app : forall a b, quiet a -> quiet b -> quiet (a ++ b).
Proof.
  intros a b [A1 [A2 [A3 A4]]] [B1 [B2 [B3 B4]]].
  unfold quiet. rewrite enq_of_app, taken_of_app, cb_hist_app, A1, A2, A3, B1, B2, B3.
  repeat split; auto. intros o. rewrite call_state_app, A4. apply B4.
Qed.

Lemma quiet_verifs : forall vl : list (cfg * bool), quiet (map (fun cb => GVerify (fst cb) (snd cb)) vl).
Proof.
  induction vl as [|x r [A [B [C D]]]]; [apply quiet_nil|]. cbn. repeat split; auto.
Qed.

Lemma quiet_splitv : forall acts : list mon_act, quiet (fst (@split_verifies cfg sv acts)).
Proof.
  induction acts as [|a r IH]; [apply quiet_nil|].
  destruct a; try apply quiet_nil.
  cbn [System.split_verifies]. destruct (split_verifies r) as [g r'] eqn:E. cbn [fst] in *.
  destruct IH as [A [B [C D]]]. repeat split; auto.
Qed.

Ltac quiet_conc := repeat split; try reflexivity; intros []; reflexivity.

Ltac log_ext := first [ cbn; rewrite <- ?app_assoc; reflexivity | cbn; symmetry; apply app_nil_r ].

Lemma inv_q_enq : forall s s' es ev,
  inv_q s -> s_log s' = s_log s ++ es ->
  enq_of es = [ev] -> taken_of es = [] -> cb_hist es = [] -> (forall o, call_state o es = Some o) ->
  s_cbq s' = s_cbq s ++ [ev] -> s_cb s' = s_cb s -> inv_q s'.
Proof.
  intros s s' es ev [Q1 [Q2 Q3]] L E1 E2 E3 E4 C B.
  unfold inv_q. rewrite L, C, B, enq_of_app, taken_of_app, cb_hist_app, call_state_app, E1, E2, E3, Q2, E4, !app_nil_r.
  split; [rewrite Q1, app_assoc; reflexivity|]. auto.
Qed.

Lemma cb_enter_spec : forall o : list cb_out,
  cb_hist (cb_enter o) ++ unstarted o = o /\ enq_of (cb_enter o) = [] /\ taken_of (cb_enter o) = [] /\
  call_state false (cb_enter o) = Some (match o with OInv _ :: _ => true | _ => false end).
Proof. intros [|[i|a] r]; repeat split. Qed.

Lemma inv_q_step : forall s l s', inv_q s -> step s l = Some s' -> inv_q s'.
Proof.
  intros s l s' I H. destruct l; cbn [System.step] in H.
  - (* LApiStart *)
    unfold System.api_start in H. destruct (lookup tid (s_thr s)); [discriminate|].
    destruct op; unfold start_enqueue in H; inv_step H;
      try (eapply inv_q_frame; [exact I|log_ext|quiet_conc|reflexivity|reflexivity]).
    eapply inv_q_frame; [exact I|log_ext| |reflexivity|reflexivity].
    apply quiet_app; [quiet_conc|]. apply quiet_app; [apply quiet_verifs|quiet_conc].
  - (* LApiAct *)
    unfold System.api_act in H. inv_step H;
      first [ eapply inv_q_frame; [exact I|log_ext|quiet_conc|reflexivity|reflexivity]
            | eapply inv_q_enq; [exact I|log_ext|reflexivity|reflexivity|reflexivity|intros []; reflexivity|reflexivity|reflexivity] ].
  - (* LMonRecv *)
    unfold System.mon_recv_step in H. inv_step H;
    match goal with |- inv_q (mon_take _ _ _ ?s1 ?st ?i) =>
      destruct (mon_take_fields stack verify p s1 st i) as [_ [_ [_ [_ [_ [_ [Fq [_ [Fc _]]]]]]]]];
      eapply inv_q_frame; [exact I|rewrite (mon_take_log stack verify p); log_ext| |rewrite Fq; reflexivity|rewrite Fc; reflexivity]
    end;
    repeat match goal with
    | |- quiet [] => apply quiet_nil
    | |- quiet (fst (split_verifies _)) => apply quiet_splitv
    | |- quiet (?a :: ?l) => change (a :: l) with ([a] ++ l); apply quiet_app; [quiet_conc|]
    | |- quiet (?a ++ ?l) => apply quiet_app; [quiet_conc|]
    end.
  - (* LMonAct *)
    unfold System.mon_act_step in H. inv_step H;
      first [ eapply inv_q_frame; [exact I|log_ext|quiet_conc|reflexivity|reflexivity]
            | eapply inv_q_enq; [exact I|log_ext|reflexivity|reflexivity|reflexivity|intros []; reflexivity|reflexivity|reflexivity] ].
  - (* LCbTake *)
    unfold System.cb_take_step in H. destruct I as [Q1 [Q2 Q3]].
    destruct (s_cb s) as [|cst pend|] eqn:Ec; try discriminate H. destruct pend; [|discriminate H].
    destruct Q3 as [Qs Qo]. cbn [unstarted] in Qo. rewrite app_nil_r in Qo.
    destruct (s_cbq s) as [|ev rest] eqn:Eq.
    + destruct (s_done s); [|discriminate]. inversion H; subst. unfold inv_q.
      cbn [s_log s_cbq s_cb logged with_cb].
      rewrite enq_of_app, taken_of_app, cb_hist_app, call_state_app, Q2.
      cbn [enq_of taken_of cb_hist flat_map app call_state in_call]. rewrite !app_nil_r.
      repeat split; auto. rewrite Q1, Eq, app_nil_r. reflexivity.
    + destruct (cb_step on_new on_err cst ev) as [cst' o] eqn:Es. inversion H; subst s'. clear H.
      destruct (cb_enter_spec o) as [A [B [C D]]].
      unfold inv_q. cbn [s_log s_cbq s_cb logged with_cb with_cbq].
      change (@GTake cfg sv ev :: cb_enter o) with ([@GTake cfg sv ev] ++ cb_enter o).
      rewrite !enq_of_app, !taken_of_app, !cb_hist_app, !call_state_app, Q2, B, C. cbn [in_call].
      cbn [enq_of taken_of cb_hist flat_map app call_state]. rewrite D, !app_nil_r.
      repeat split.
      * rewrite Q1. rewrite <- app_assoc. reflexivity.
      * rewrite after_app, after_cons, after_nil, <- Qs, Es. reflexivity.
      * rewrite outs_snoc, <- Qs, Es. cbn [snd]. rewrite <- app_assoc, A, Qo. reflexivity.
  - (* LCbReturn *)
    unfold cb_return_step in H. destruct I as [Q1 [Q2 Q3]].
    destruct (s_cb s) as [|cst pend|] eqn:Ec; try discriminate H. destruct pend as [|[i|a] r]; try discriminate H.
    inversion H; subst s'. clear H. destruct Q3 as [Qs Qo]. cbn [unstarted] in Qo.
    destruct (cb_enter_spec r) as [A [B [C D]]].
    unfold inv_q. cbn [s_log s_cbq s_cb logged with_cb].
    change (@GCbRet cfg sv :: cb_enter r) with ([@GCbRet cfg sv] ++ cb_enter r).
    rewrite !enq_of_app, !taken_of_app, !cb_hist_app, !call_state_app, Q2, B, C. cbn [in_call].
    cbn [enq_of taken_of cb_hist flat_map app call_state]. rewrite D, !app_nil_r.
    repeat split; auto.
    rewrite <- app_assoc, A. exact Qo.
  - (* LCbAck *)
    unfold cb_ack_step in H. destruct I as [Q1 [Q2 Q3]].
    destruct (s_cb s) as [|cst pend|] eqn:Ec; try discriminate H. destruct pend as [|[i|a] r]; try discriminate H.
    inversion H; subst s'. clear H. destruct Q3 as [Qs Qo]. cbn [unstarted] in Qo.
    destruct (cb_enter_spec r) as [A [B [C D]]].
    unfold inv_q. cbn [s_log s_cbq s_cb logged with_cb with_acks].
    change (@GAck cfg sv a :: cb_enter r) with ([@GAck cfg sv a] ++ cb_enter r).
    rewrite !enq_of_app, !taken_of_app, !cb_hist_app, !call_state_app, Q2, B, C. cbn [in_call].
    cbn [enq_of taken_of cb_hist flat_map app call_state]. rewrite D, !app_nil_r.
    repeat split; auto.
    rewrite <- !app_assoc. cbn [app]. rewrite <- Qo. f_equal. f_equal. exact A.
  - (* LCancelMain *)
    destruct (s_main s); [discriminate|]. inversion H; subst.
    eapply inv_q_frame; [exact I|log_ext|quiet_conc|reflexivity|reflexivity].
  - (* LCancelCall *)
    unfold cancel_call in H. inv_step H; (eapply inv_q_frame; [exact I|log_ext|quiet_conc|reflexivity|reflexivity]).
Qed.

Lemma init_inv_q : forall inits watching s0,
  snd (sys_init stack verify p inits watching) = Ok s0 -> inv_q s0.
Proof.
  intros inits watching s0 H.
  destruct (init_shape stack verify p inits watching s0 H) as [c0 [st0 [_ [_ [_ [_ [L M]]]]]]].
  assert (Hc : s_cbq s0 = [] /\ (s_cb s0 = CNone \/ s_cb s0 = CRun cb_init [])).
  { unfold sys_init in H. cbn [snd] in H.
    destruct (cr_out (config_init stack verify p inits watching)) as [[v st]| |]; try discriminate.
    inversion H; subst. cbn. split; [reflexivity|]. destruct (existsb _ watching); auto. }
  destruct Hc as [Hq Hb].
  destruct (quiet_verifs (cr_verify_log (config_init stack verify p inits watching))) as [A [B [C D]]].
  unfold inv_q. rewrite L, A, B, C, D, Hq. destruct Hb as [-> | ->]; cbn; auto.
Qed.

Theorem callback_fold_l : forall inits watching s0 ls s,
  snd (sys_init stack verify p inits watching) = Ok s0 -> run s0 ls = Some s -> inv_q s.
Proof.
  intros inits watching s0 ls s H0 Hr.
  apply (run_inv stack verify p on_new on_err cbcap inv_q inv_q_step ls s0 s); [|exact Hr].
  eapply init_inv_q; eauto.
Qed.

(* C06 callbacks_serialized, for every schedule: in the history, callback
   entries and returns alternate - a callback is entered only when every
   earlier one has returned *)
Theorem callbacks_serialized_l : forall inits watching s0 ls s,
  snd (sys_init stack verify p inits watching) = Ok s0 -> run s0 ls = Some s ->
  call_state false (s_log s) = Some (in_call (s_cb s)).
Proof. intros. eapply callback_fold_l; eauto. Qed.

(* cbch is FIFO and everything the callback goroutine has done is the fold
   cb_run over the events it has taken *)
Theorem callback_history_is_fold_l : forall inits watching s0 ls s,
  snd (sys_init stack verify p inits watching) = Ok s0 -> run s0 ls = Some s ->
  enq_of (s_log s) = taken_of (s_log s) ++ s_cbq s /\
  exists rest, cb_hist (s_log s) ++ rest = outs cb_init (taken_of (s_log s)).
Proof.
  intros inits watching s0 ls s H0 Hr.
  destruct (callback_fold_l inits watching s0 ls s H0 Hr) as [Q1 [_ Q3]]. split; [exact Q1|].
  destruct (s_cb s) as [|cst pend|].
  - destruct Q3 as [Qh Qt]. exists []. rewrite Qh, Qt. reflexivity.
  - destruct Q3 as [_ Qo]. eexists. exact Qo.
  - exists []. rewrite app_nil_r. exact Q3.
Qed.

End Proofs.
