(* PROOFS linking the system's callback queue to the pure fold of
   Core/CbMgrProofs.v (property C06 at system level, all schedules):
   cbch is FIFO, the callback goroutine's state and outputs are the fold
   cb_run over the events taken so far, callbacks alternate call/return, and
   what gets into the queue is well-formed with increasing serials. *)
From Coq Require Import List NArith Bool Lia.
From Dials Require Import Base.Outcome Core.CbMgr Core.CbMgrProofs Core.Monitor Core.MonitorProofs
  Core.System Core.SystemProofs.
Import ListNotations.
Open Scope N_scope.

Section Proofs.
Context {cfg sv : Type}.
Variable stack : list sv -> option cfg.
Variable verify : cfg -> bool.
Variable p : params.
Variable on_new on_err : bool.
Variable cbcap : N.

Notation sys := (sys cfg sv).
Notation label := (label sv).
Notation gevent := (gevent cfg sv).
Notation cb_event := (cb_event cfg).
Notation cb_out := (cb_out cfg).
Notation mon_act := (mon_act cfg).
Notation step := (@step cfg sv stack verify p on_new on_err cbcap).
Notation run := (@run cfg sv stack verify p on_new on_err cbcap).
Notation outs := (@outs cfg on_new on_err).
Notation after := (@after cfg on_new on_err).
Notation mon_hist := (@mon_hist cfg sv).

(* read off the ghost history: what was put into cbch, what the callback
   goroutine took out, and what it did that others can observe *)
Definition enq_of (log : list gevent) : list cb_event :=
  flat_map (fun g => match g with
                     | GEnq _ ev => [ev]
                     | GAct (ATrySubmit ev) false => [ev]
                     | _ => [] end) log.
Definition taken_of (log : list gevent) : list cb_event :=
  flat_map (fun g => match g with GTake ev => [ev] | _ => [] end) log.
Definition cb_hist (log : list gevent) : list cb_out :=
  flat_map (fun g => match g with GCall i => [OInv i] | GAck a => [OAck a] | _ => [] end) log.

Lemma enq_of_app : forall a b, enq_of (a ++ b) = enq_of a ++ enq_of b.
Proof. intros. apply flat_map_app. Qed.
Lemma taken_of_app : forall a b, taken_of (a ++ b) = taken_of a ++ taken_of b.
Proof. intros. apply flat_map_app. Qed.
Lemma cb_hist_app : forall a b, cb_hist (a ++ b) = cb_hist a ++ cb_hist b.
Proof. intros. apply flat_map_app. Qed.

(* the head invocation of the pending outputs has been entered (and logged) already *)
Definition unstarted (pend : list cb_out) : list cb_out :=
  match pend with OInv _ :: r => r | _ => pend end.
Definition in_call (c : cb_ctrl cfg) : bool :=
  match c with CRun _ (OInv _ :: _) => true | _ => false end.

(* call / return alternation in a history; None: two callbacks overlapped *)
Fixpoint call_state (open : bool) (log : list gevent) : option bool :=
  match log with
  | [] => Some open
  | GCall _ :: r => if open then None else call_state true r
  | GCbRet :: r => if open then call_state false r else None
  | _ :: r => call_state open r
  end.

Lemma call_state_app : forall a b o,
  call_state o (a ++ b) = match call_state o a with Some o' => call_state o' b | None => None end.
Proof.
  induction a as [|g a IH]; intros b o; [reflexivity|].
  destruct g; cbn; try apply IH; destruct o; try reflexivity; apply IH.
Qed.

Definition inv_q (s : sys) : Prop :=
  enq_of (s_log s) = taken_of (s_log s) ++ s_cbq s /\
  call_state false (s_log s) = Some (in_call (s_cb s)) /\
  match s_cb s with
  | CNone => cb_hist (s_log s) = [] /\ taken_of (s_log s) = []
  | CRun cst pend =>
      cst = after cb_init (taken_of (s_log s)) /\
      cb_hist (s_log s) ++ unstarted pend = outs cb_init (taken_of (s_log s))
  | CExited => cb_hist (s_log s) = outs cb_init (taken_of (s_log s))
  end.

(* events that concern neither the queue nor the callback goroutine *)
Definition quiet (es : list gevent) : Prop :=
  enq_of es = [] /\ taken_of es = [] /\ cb_hist es = [] /\ (forall o, call_state o es = Some o).

Lemma inv_q_frame : forall s s' es,
  inv_q s -> s_log s' = s_log s ++ es -> quiet es -> s_cbq s' = s_cbq s -> s_cb s' = s_cb s -> inv_q s'.
Proof.
  intros s s' es [Q1 [Q2 Q3]] L [E1 [E2 [E3 E4]]] C B.
  unfold inv_q. rewrite L, C, B, enq_of_app, taken_of_app, cb_hist_app, call_state_app, E1, E2, E3, Q2, E4, !app_nil_r.
  auto.
Qed.

Lemma quiet_nil : quiet [].
Proof. repeat split. Qed.

Lemma quiet_app : forall a b, quiet a -> quiet b -> quiet (a ++ b).
Proof.
  intros a b [A1 [A2 [A3 A4]]] [B1 [B2 [B3 B4]]].
  unfold quiet. rewrite enq_of_app, taken_of_app, cb_hist_app, A1, A2, A3, B1, B2, B3.
  repeat split; auto. intros o. rewrite call_state_app, A4. apply B4.
Qed.

Lemma quiet_verifs : forall vl : list (cfg * bool), quiet (map (fun cb => GVerify (fst cb) (snd cb)) vl).
Proof.
  induction vl as [|x r [A [B [C D]]]]; [apply quiet_nil|]. cbn. repeat split; auto.
Qed.

Lemma quiet_splitv : forall acts : list mon_act, quiet (fst (@split_verifies cfg sv acts)).
Proof.
  induction acts as [|a r IH]; [apply quiet_nil|].
  destruct a; try apply quiet_nil.
  cbn [System.split_verifies]. destruct (split_verifies r) as [g r'] eqn:E. cbn [fst] in *.
  destruct IH as [A [B [C D]]]. repeat split; auto.
Qed.

Ltac quiet_conc := repeat split; try reflexivity; intros []; reflexivity.

Ltac log_ext := first [ cbn; rewrite <- ?app_assoc; reflexivity | cbn; symmetry; apply app_nil_r ].

Lemma inv_q_enq : forall s s' es ev,
  inv_q s -> s_log s' = s_log s ++ es ->
  enq_of es = [ev] -> taken_of es = [] -> cb_hist es = [] -> (forall o, call_state o es = Some o) ->
  s_cbq s' = s_cbq s ++ [ev] -> s_cb s' = s_cb s -> inv_q s'.
Proof.
  intros s s' es ev [Q1 [Q2 Q3]] L E1 E2 E3 E4 C B.
  unfold inv_q. rewrite L, C, B, enq_of_app, taken_of_app, cb_hist_app, call_state_app, E1, E2, E3, Q2, E4, !app_nil_r.
  split; [rewrite Q1, app_assoc; reflexivity|]. auto.
Qed.

Lemma cb_enter_spec : forall o : list cb_out,
  cb_hist (cb_enter o) ++ unstarted o = o /\ enq_of (cb_enter o) = [] /\ taken_of (cb_enter o) = [] /\
  call_state false (cb_enter o) = Some (match o with OInv _ :: _ => true | _ => false end).
Proof. intros [|[i|a] r]; repeat split. Qed.

Lemma inv_q_step : forall s l s', inv_q s -> step s l = Some s' -> inv_q s'.
Proof.
  intros s l s' I H. destruct l; cbn [System.step] in H.
  - (* LApiStart *)
    unfold System.api_start in H. destruct (lookup tid (s_thr s)); [discriminate|].
    destruct op; unfold start_enqueue in H; inv_step H;
      try (eapply inv_q_frame; [exact I|log_ext|quiet_conc|reflexivity|reflexivity]).
    eapply inv_q_frame; [exact I|log_ext| |reflexivity|reflexivity].
    apply quiet_app; [quiet_conc|]. apply quiet_app; [apply quiet_verifs|quiet_conc].
  - (* LApiAct *)
    unfold System.api_act in H. inv_step H;
      first [ eapply inv_q_frame; [exact I|log_ext|quiet_conc|reflexivity|reflexivity]
            | eapply inv_q_enq; [exact I|log_ext|reflexivity|reflexivity|reflexivity|intros []; reflexivity|reflexivity|reflexivity] ].
  - (* LMonRecv *)
    unfold System.mon_recv_step in H. inv_step H;
    match goal with |- inv_q (mon_take _ _ _ ?s1 ?st ?i) =>
      destruct (mon_take_fields stack verify p s1 st i) as [_ [_ [_ [_ [_ [_ [Fq [_ [Fc _]]]]]]]]];
      eapply inv_q_frame; [exact I|rewrite (mon_take_log stack verify p); log_ext| |rewrite Fq; reflexivity|rewrite Fc; reflexivity]
    end;
    repeat match goal with
    | |- quiet [] => apply quiet_nil
    | |- quiet (fst (split_verifies _)) => apply quiet_splitv
    | |- quiet (?a :: ?l) => change (a :: l) with ([a] ++ l); apply quiet_app; [quiet_conc|]
    | |- quiet (?a ++ ?l) => apply quiet_app; [quiet_conc|]
    end.
  - (* LMonAct *)
    unfold System.mon_act_step in H. inv_step H;
      first [ eapply inv_q_frame; [exact I|log_ext|quiet_conc|reflexivity|reflexivity]
            | eapply inv_q_enq; [exact I|log_ext|reflexivity|reflexivity|reflexivity|intros []; reflexivity|reflexivity|reflexivity] ].
  - (* LCbTake *)
    unfold System.cb_take_step in H. destruct I as [Q1 [Q2 Q3]].
    destruct (s_cb s) as [|cst pend|] eqn:Ec; try discriminate H. destruct pend; [|discriminate H].
    destruct Q3 as [Qs Qo]. cbn [unstarted] in Qo. rewrite app_nil_r in Qo.
    destruct (s_cbq s) as [|ev rest] eqn:Eq.
    + destruct (s_done s); [|discriminate]. inversion H; subst. unfold inv_q.
      cbn [s_log s_cbq s_cb logged with_cb].
      rewrite enq_of_app, taken_of_app, cb_hist_app, call_state_app, Q2.
      cbn [enq_of taken_of cb_hist flat_map app call_state in_call]. rewrite !app_nil_r.
      repeat split; auto. rewrite Q1, Eq, app_nil_r. reflexivity.
    + destruct (cb_step on_new on_err cst ev) as [cst' o] eqn:Es. inversion H; subst s'. clear H.
      destruct (cb_enter_spec o) as [A [B [C D]]].
      unfold inv_q. cbn [s_log s_cbq s_cb logged with_cb with_cbq].
      change (@GTake cfg sv ev :: cb_enter o) with ([@GTake cfg sv ev] ++ cb_enter o).
      rewrite !enq_of_app, !taken_of_app, !cb_hist_app, !call_state_app, Q2, B, C. cbn [in_call].
      cbn [enq_of taken_of cb_hist flat_map app call_state]. rewrite D, !app_nil_r.
      repeat split.
      * rewrite Q1. rewrite <- app_assoc. reflexivity.
      * rewrite after_app, after_cons, after_nil, <- Qs, Es. reflexivity.
      * rewrite outs_snoc, <- Qs, Es. cbn [snd]. rewrite <- app_assoc, A, Qo. reflexivity.
  - (* LCbReturn *)
    unfold cb_return_step in H. destruct I as [Q1 [Q2 Q3]].
    destruct (s_cb s) as [|cst pend|] eqn:Ec; try discriminate H. destruct pend as [|[i|a] r]; try discriminate H.
    inversion H; subst s'. clear H. destruct Q3 as [Qs Qo]. cbn [unstarted] in Qo.
    destruct (cb_enter_spec r) as [A [B [C D]]].
    unfold inv_q. cbn [s_log s_cbq s_cb logged with_cb].
    change (@GCbRet cfg sv :: cb_enter r) with ([@GCbRet cfg sv] ++ cb_enter r).
    rewrite !enq_of_app, !taken_of_app, !cb_hist_app, !call_state_app, Q2, B, C. cbn [in_call].
    cbn [enq_of taken_of cb_hist flat_map app call_state]. rewrite D, !app_nil_r.
    repeat split; auto.
    rewrite <- app_assoc, A. exact Qo.
  - (* LCbAck *)
    unfold cb_ack_step in H. destruct I as [Q1 [Q2 Q3]].
    destruct (s_cb s) as [|cst pend|] eqn:Ec; try discriminate H. destruct pend as [|[i|a] r]; try discriminate H.
    inversion H; subst s'. clear H. destruct Q3 as [Qs Qo]. cbn [unstarted] in Qo.
    destruct (cb_enter_spec r) as [A [B [C D]]].
    unfold inv_q. cbn [s_log s_cbq s_cb logged with_cb with_acks].
    change (@GAck cfg sv a :: cb_enter r) with ([@GAck cfg sv a] ++ cb_enter r).
    rewrite !enq_of_app, !taken_of_app, !cb_hist_app, !call_state_app, Q2, B, C. cbn [in_call].
    cbn [enq_of taken_of cb_hist flat_map app call_state]. rewrite D, !app_nil_r.
    repeat split; auto.
    rewrite <- !app_assoc. cbn [app]. rewrite <- Qo. f_equal. f_equal. exact A.
  - (* LCancelMain *)
    destruct (s_main s); [discriminate|]. inversion H; subst.
    eapply inv_q_frame; [exact I|log_ext|quiet_conc|reflexivity|reflexivity].
  - (* LCancelCall *)
    unfold cancel_call in H. inv_step H; (eapply inv_q_frame; [exact I|log_ext|quiet_conc|reflexivity|reflexivity]).
Qed.

Lemma init_inv_q : forall inits watching s0,
  snd (sys_init stack verify p inits watching) = Ok s0 -> inv_q s0.
Proof.
  intros inits watching s0 H.
  destruct (init_shape stack verify p inits watching s0 H) as [c0 [st0 [_ [_ [_ [_ [L M]]]]]]].
  assert (Hc : s_cbq s0 = [] /\ (s_cb s0 = CNone \/ s_cb s0 = CRun cb_init [])).
  { unfold sys_init in H. cbn [snd] in H.
    destruct (cr_out (config_init stack verify p inits watching)) as [[v st]| |]; try discriminate.
    inversion H; subst. cbn. split; [reflexivity|]. destruct (existsb _ watching); auto. }
  destruct Hc as [Hq Hb].
  destruct (quiet_verifs (cr_verify_log (config_init stack verify p inits watching))) as [A [B [C D]]].
  unfold inv_q. rewrite L, A, B, C, D, Hq. destruct Hb as [-> | ->]; cbn; auto.
Qed.

Theorem callback_fold_l : forall inits watching s0 ls s,
  snd (sys_init stack verify p inits watching) = Ok s0 -> run s0 ls = Some s -> inv_q s.
Proof.
  intros inits watching s0 ls s H0 Hr.
  apply (run_inv stack verify p on_new on_err cbcap inv_q inv_q_step ls s0 s); [|exact Hr].
  eapply init_inv_q; eauto.
Qed.

(* C06 callbacks_serialized, for every schedule: in the history, callback
   entries and returns alternate - a callback is entered only when every
   earlier one has returned *)
Theorem callbacks_serialized_l : forall inits watching s0 ls s,
  snd (sys_init stack verify p inits watching) = Ok s0 -> run s0 ls = Some s ->
  call_state false (s_log s) = Some (in_call (s_cb s)).
Proof. intros. eapply callback_fold_l; eauto. Qed.

(* cbch is FIFO and everything the callback goroutine has done is the fold
   cb_run over the events it has taken *)
Theorem callback_history_is_fold_l : forall inits watching s0 ls s,
  snd (sys_init stack verify p inits watching) = Ok s0 -> run s0 ls = Some s ->
  enq_of (s_log s) = taken_of (s_log s) ++ s_cbq s /\
  exists rest, cb_hist (s_log s) ++ rest = outs cb_init (taken_of (s_log s)).
Proof.
  intros inits watching s0 ls s H0 Hr.
  destruct (callback_fold_l inits watching s0 ls s H0 Hr) as [Q1 [_ Q3]]. split; [exact Q1|].
  destruct (s_cb s) as [|cst pend|].
  - destruct Q3 as [Qh Qt]. exists []. rewrite Qh, Qt. reflexivity.
  - destruct Q3 as [_ Qo]. eexists. exact Qo.
  - exists []. rewrite app_nil_r. exact Q3.
Qed.

(* ---------- what gets into the queue is well-formed ---------- *)

Notation trace := (@trace cfg sv stack verify p).

(* API goroutines enqueue registrations and unregistrations only *)
Definition api_ev_ok (ev : cb_event) : Prop := match ev with EvNew _ _ _ _ => False | _ => True end.
Definition thr_ok (thr : list (N * thread cfg sv)) : Prop :=
  forall tid t ev, lookup tid thr = Some t -> t_pc t = PEnqueue ev -> api_ev_ok ev.

Lemma thr_ok_update : forall thr tid t,
  thr_ok thr -> (forall ev, t_pc t = PEnqueue ev -> api_ev_ok ev) -> thr_ok (update tid t thr).
Proof.
  intros thr tid t H Ht tid0 t0 ev Hl Hpc. rewrite lookup_update in Hl.
  destruct (tid0 =? tid); [inversion Hl; subst; eauto|eauto].
Qed.

Lemma step_thr_ok : forall s l s', thr_ok (s_thr s) -> step s l = Some s' -> thr_ok (s_thr s').
Proof.
  intros s l s' I H. destruct l; cbn [System.step] in H.
  - unfold System.api_start in H. destruct (lookup tid (s_thr s)); [discriminate|].
    destruct op; unfold start_enqueue in H; inv_step H; cbn; try exact I;
      apply thr_ok_update; auto; cbn; intros ev Hev; try discriminate; inversion Hev; exact I0 || (subst; exact Logic.I).
  - unfold System.api_act in H. inv_step H; cbn; apply thr_ok_update; auto; cbn; intros; discriminate.
  - unfold System.mon_recv_step in H. inv_step H;
    match goal with |- thr_ok (s_thr (mon_take _ _ _ ?s1 ?st ?i)) =>
      destruct (mon_take_fields stack verify p s1 st i) as [_ [_ [_ [_ [_ [Ft _]]]]]]; rewrite Ft end;
    cbn; try exact I; apply thr_ok_update; auto; cbn; intros; discriminate.
  - unfold System.mon_act_step in H. inv_step H; exact I.
  - unfold System.cb_take_step in H. inv_step H; exact I.
  - unfold cb_return_step in H. inv_step H. exact I.
  - unfold cb_ack_step in H. inv_step H. exact I.
  - destruct (s_main s); [discriminate|]. inversion H. exact I.
  - unfold cancel_call in H. inv_step H; cbn; apply thr_ok_update; auto; cbn; intros ev' Hev; try discriminate;
      eapply I; eauto; congruence.
Qed.

Notation recvs := (@recvs cfg sv).

Definition nosub (es : list gevent) : Prop := enq_of es = [] /\ submits_of (mon_hist es) = [].

Lemma nosub_app : forall a b, nosub a -> nosub b -> nosub (a ++ b).
Proof.
  intros a b [A1 A2] [B1 B2]. unfold nosub.
  rewrite enq_of_app, mon_hist_app, submits_of_app, A1, A2, B1, B2. auto.
Qed.
Lemma nosub_verifs : forall vl : list (cfg * bool), nosub (map (fun cb => GVerify (fst cb) (snd cb)) vl).
Proof. induction vl as [|x r [A B]]; [split; reflexivity|]. split; cbn; auto. Qed.
Lemma nosub_splitv : forall acts : list mon_act, nosub (fst (@split_verifies cfg sv acts)).
Proof.
  induction acts as [|a r IH]; [split; reflexivity|].
  destruct a; try (split; reflexivity).
  cbn [System.split_verifies]. destruct (split_verifies r) as [g r'] eqn:E. cbn [fst] in *.
  destruct IH as [A B]. split; cbn; auto.
Qed.
Lemma nosub_enter : forall (x : gevent) (o : list cb_out), nosub [x] -> nosub (x :: cb_enter o).
Proof.
  intros x o Hx. change (x :: cb_enter o) with ([x] ++ cb_enter o). apply nosub_app; [exact Hx|].
  destruct o as [|[]]; split; reflexivity.
Qed.

Ltac solve_nosub :=
  repeat match goal with
  | |- nosub [] => split; reflexivity
  | |- nosub (fst (split_verifies _)) => apply nosub_splitv
  | |- nosub (map _ _) => apply nosub_verifs
  | |- nosub (?x :: cb_enter ?o) => apply nosub_enter; split; reflexivity
  | |- nosub (?a :: ?l) => change (a :: l) with ([a] ++ l); apply nosub_app; [split; reflexivity|]
  | |- nosub (?a ++ ?l) => apply nosub_app
  end.

(* what a step appends to the history, as far as the queue is concerned *)
Lemma step_es : forall s l s', step s l = Some s' ->
  exists es, s_log s' = s_log s ++ es /\
  ( nosub es
    \/ (exists tid t ev, lookup tid (s_thr s) = Some t /\ t_pc t = PEnqueue ev /\
                          enq_of es = [ev] /\ submits_of (mon_hist es) = [] /\
                          exists t', lookup tid (s_thr s') = Some t' /\ t_op t' = t_op t /\
                                     match t_pc t' with PEnqueue _ => False | _ => True end)
    \/ (exists st ev rest_p (d : bool), s_mon s = MRun st (ATrySubmit ev :: rest_p) /\
                          mon_hist es = [ATrySubmit ev] /\ enq_of es = (if d then [] else [ev])) ).
Proof.
  intros s l s' H. destruct l; cbn [System.step] in H.
  - unfold System.api_start in H. destruct (lookup tid (s_thr s)); [discriminate|].
    destruct op; unfold start_enqueue in H; inv_step H; (eexists; split; [log_ext|left; solve_nosub]).
  - unfold System.api_act in H. inv_step H; (eexists; split; [log_ext|]);
      first [ left; solve_nosub; fail
            | right; left; do 3 eexists; (split; [eassumption|split; [eassumption|split; [reflexivity|split; [reflexivity|]]]]);
              eexists; (split; [cbn; rewrite lookup_update, N.eqb_refl; reflexivity|split; [reflexivity|exact I]]) ].
  - unfold System.mon_recv_step in H. inv_step H; rewrite (mon_take_log stack verify p);
      (eexists; split; [log_ext|left; solve_nosub]).
  - unfold System.mon_act_step in H. inv_step H; subst; (eexists; split; [log_ext|]);
      first [ left; solve_nosub; fail
            | right; right; do 3 eexists; exists true; (split; [reflexivity|split; reflexivity]); fail
            | right; right; do 3 eexists; exists false; (split; [reflexivity|split; reflexivity]) ].
  - unfold System.cb_take_step in H. inv_step H; (eexists; split; [log_ext|left; solve_nosub]).
  - unfold cb_return_step in H. inv_step H. eexists; split; [log_ext|left; solve_nosub].
  - unfold cb_ack_step in H. inv_step H. eexists; split; [log_ext|left; solve_nosub].
  - destruct (s_main s); [discriminate|]. inversion H. eexists. split; [reflexivity|left; split; reflexivity].
  - unfold cancel_call in H. inv_step H; (eexists; split; [log_ext|left; solve_nosub]).
Qed.

Lemma incr_from_app_inv : forall (a b : list cb_event) lo,
  incr_from lo (a ++ b) -> incr_from lo a /\ incr_from (last_announced lo a) b.
Proof.
  induction a as [|e a IH]; intros b lo H; [split; [exact I|exact H]|].
  destruct e; cbn in *; try (apply IH; assumption).
  destruct H as [H1 H2]. destruct (IH b serial H2). auto.
Qed.

Definition inv_wf (s : sys) : Prop :=
  Forall ev_wf (enq_of (s_log s)) /\ incr_from 0 (enq_of (s_log s)) /\
  last_announced 0 (enq_of (s_log s)) <= last_announced 0 (submits_of (mon_hist (s_log s))).

Lemma inv_wf_step : forall c0 st0 log0 s l s',
  submits_of (mon_hist log0) = [] ->
  inv_ref stack verify p (0, c0) st0 log0 s -> thr_ok (s_thr s) -> inv_wf s ->
  step s l = Some s' -> inv_wf s'.
Proof.
  intros c0 st0 log0 s l s' H0 R T [W1 [W2 W3]] H.
  destruct (step_es s l s' H) as [es [L [[E1 E2]|[[tid [t [ev [Hl [Hpc [E1 [E2 _]]]]]]]|[st [ev [rest_p [d [Em [E1 E2]]]]]]]]]];
    unfold inv_wf; rewrite L, enq_of_app, mon_hist_app, submits_of_app.
  - (* nothing for the queue *)
    rewrite E1, E2, !app_nil_r. auto.
  - (* an API goroutine enqueues a registration / unregistration *)
    rewrite E1, E2, app_nil_r. pose proof (T tid t ev Hl Hpc) as Hok.
    repeat split.
    + apply Forall_app. split; [exact W1|]. constructor; [|constructor]. destruct ev; try exact I. destruct Hok.
    + apply incr_from_app; [exact W2|]. destruct ev; try exact I. destruct Hok.
    + rewrite last_announced_app. destruct ev; try exact W3. destruct Hok.
  - (* the monitor submits ev (d: dropped) *)
    rewrite E1. cbn [submits_of flat_map app].
    (* ev sits in the pure trace right after what has been done so far *)
    destruct R as [rest [Rl Rm]]. rewrite Em in Rm. destruct Rm as [Rt _].
    assert (Hs : submits_of (mon_hist (s_log s)) = submits_of (mon_hist rest)).
    { rewrite Rl, mon_hist_app, submits_of_app, H0. reflexivity. }
    destruct (submitted_events_wf_l stack verify p (recvs rest) (0, c0) st0) as [F1 [F2 _]].
    unfold MonitorProofs.trace in F1, F2. fold (trace (0, c0) st0 (recvs rest)) in F1, F2.
    rewrite <- Rt, submits_of_app in F1, F2. cbn [submits_of flat_map app] in F1, F2.
    fold (submits_of rest_p) in F1, F2.
    apply Forall_app in F1. destruct F1 as [_ F1]. inversion F1 as [|? ? Fev _]; subst.
    apply incr_from_app_inv in F2. destruct F2 as [_ F2]. cbn [fst] in F2.
    rewrite Hs in *.
    assert (Hk : match ev with EvNew _ _ k _ => last_announced 0 (submits_of (mon_hist rest)) < k | _ => True end).
    { destruct ev; try exact I. cbn in F2. tauto. }
    destruct d; rewrite E2.
    + rewrite app_nil_r. repeat split; auto. rewrite last_announced_app. destruct ev; cbn; try exact W3. lia.
    + repeat split.
      * apply Forall_app. split; [exact W1|]. constructor; [exact Fev|constructor].
      * apply incr_from_app; [exact W2|]. destruct ev; try exact I. cbn. split; [lia|exact I].
      * rewrite !last_announced_app. destruct ev; cbn; try exact W3. lia.
Qed.

Lemma init_inv_wf : forall inits watching s0,
  snd (sys_init stack verify p inits watching) = Ok s0 ->
  inv_wf s0 /\ thr_ok (s_thr s0) /\ submits_of (mon_hist (s_log s0)) = [].
Proof.
  intros inits watching s0 H.
  destruct (init_shape stack verify p inits watching s0 H) as [c0 [st0 [_ [_ [_ [_ [L _]]]]]]].
  destruct (nosub_verifs (cr_verify_log (config_init stack verify p inits watching))) as [A B].
  assert (Ht : s_thr s0 = []).
  { unfold sys_init in H. cbn [snd] in H.
    destruct (cr_out (config_init stack verify p inits watching)) as [[v st]| |]; try discriminate.
    inversion H; subst. reflexivity. }
  unfold inv_wf. rewrite L, A, B, Ht. repeat split; try constructor; cbn; try lia.
  intros tid t ev Hl. discriminate Hl.
Qed.

(* all four invariants together, for every schedule *)
Theorem queue_well_formed_l : forall inits watching s0 ls s,
  snd (sys_init stack verify p inits watching) = Ok s0 -> run s0 ls = Some s ->
  inv_wf s /\ inv_q s.
Proof.
  intros inits watching s0 ls s H0 Hr. split; [|eapply callback_fold_l; eauto].
  destruct (init_shape stack verify p inits watching s0 H0) as [c0 [st0 [E _]]].
  destruct (init_inv_wf inits watching s0 H0) as [W0 [T0 S0]].
  pose proof (init_inv_ref stack verify p inits watching s0 c0 st0 H0 E) as R0.
  assert (G : forall ls s1 s, inv_ref stack verify p (0, c0) st0 (s_log s0) s1 -> thr_ok (s_thr s1) -> inv_wf s1 ->
              run s1 ls = Some s -> inv_wf s).
  { clear ls s Hr. induction ls as [|l r IH]; intros s1 s R T W Hr; cbn in Hr.
    - inversion Hr; subst. exact W.
    - destruct (step s1 l) as [s2|] eqn:Es; [|discriminate].
      eapply (IH s2 s); [| | |exact Hr].
      + eapply inv_ref_step; eauto.
      + eapply step_thr_ok; eauto.
      + eapply inv_wf_step; eauto. }
  eapply G; eauto.
Qed.

(* ---------- C06 for every schedule of the system ---------- *)

Lemma sorted_above_prefix : forall a b lo, sorted_above lo (a ++ b) -> sorted_above lo a.
Proof. induction a as [|x a IH]; cbn; intros; [exact I|]. destruct H. split; eauto. Qed.

Lemma reg_once_prefix : forall h (a b : list cb_event), reg_once h (a ++ b) -> reg_once h a.
Proof.
  induction a as [|e a IH]; intros b H; [exact I|].
  cbn in *. destruct (reg_of h e).
  - unfold no_reg in *. rewrite forallb_app in H. apply andb_true_iff in H. tauto.
  - eauto.
Qed.

(* the facts about the events taken so far and the callback history that the
   pure lemmas need *)
Lemma taken_facts : forall inits watching s0 ls s,
  snd (sys_init stack verify p inits watching) = Ok s0 -> run s0 ls = Some s ->
  Forall ev_wf (taken_of (s_log s)) /\ incr_from 0 (taken_of (s_log s)) /\
  exists rest, cb_hist (s_log s) ++ rest = outs cb_init (taken_of (s_log s)).
Proof.
  intros inits watching s0 ls s H0 Hr.
  destruct (queue_well_formed_l inits watching s0 ls s H0 Hr) as [[W1 [W2 _]] [Q1 _]].
  destruct (callback_history_is_fold_l inits watching s0 ls s H0 Hr) as [_ Hf].
  rewrite Q1 in W1, W2. apply Forall_app in W1. apply incr_from_app_inv in W2. tauto.
Qed.

(* OnNewConfig runs in installation order *)
Theorem sys_callbacks_in_install_order_l : forall inits watching s0 ls s,
  snd (sys_init stack verify p inits watching) = Ok s0 -> run s0 ls = Some s ->
  sorted_above 0 (global_news (cb_hist (s_log s))).
Proof.
  intros inits watching s0 ls s H0 Hr.
  destruct (taken_facts inits watching s0 ls s H0 Hr) as [F [I [rest Hh]]].
  pose proof (in_install_order_l on_new on_err (taken_of (s_log s)) cb_init I F) as S.
  unfold CbMgrProofs.outs in Hh. fold (outs cb_init (taken_of (s_log s))) in Hh.
  unfold CbMgrProofs.outs in S. fold (outs cb_init (taken_of (s_log s))) in S.
  rewrite <- Hh, global_news_app in S. eapply sorted_above_prefix; eauto.
Qed.

(* in every ordinary call the old config is the immediate predecessor of the new one *)
Theorem sys_old_is_predecessor_l : forall inits watching s0 ls s,
  snd (sys_init stack verify p inits watching) = Ok s0 -> run s0 ls = Some s ->
  (forall h old new, In (OInv (InvUser h old (Some new) false)) (cb_hist (s_log s)) -> fst old + 1 = fst new) /\
  (forall old new, In (OInv (InvNewGlobal old new)) (cb_hist (s_log s)) -> fst old + 1 = fst new) /\
  (forall h old cu, ~ In (OInv (InvUser h old None cu)) (cb_hist (s_log s))).
Proof.
  intros inits watching s0 ls s H0 Hr.
  destruct (taken_facts inits watching s0 ls s H0 Hr) as [F [I [rest Hh]]].
  repeat split.
  - intros h old new Hin. eapply (old_is_predecessor_l on_new on_err (taken_of (s_log s)) cb_init); eauto.
    unfold CbMgrProofs.outs in *. rewrite <- Hh. apply in_or_app. left. exact Hin.
  - intros old new Hin. eapply (global_old_is_predecessor_l on_new on_err (taken_of (s_log s)) cb_init); eauto.
    unfold CbMgrProofs.outs in *. rewrite <- Hh. apply in_or_app. left. exact Hin.
  - intros h old cu Hin. eapply (user_new_not_nil_l on_new on_err (taken_of (s_log s)) cb_init); eauto.
    + apply version_inv_init.
    + unfold CbMgrProofs.outs in *. rewrite <- Hh. apply in_or_app. left. exact Hin.
Qed.

Lemma deliveries_prefix_nil : forall h (a b : list cb_out), deliveries h (a ++ b) = [] -> deliveries h a = [].
Proof. intros h a b H. rewrite deliveries_app in H. apply app_eq_nil in H. tauto. Qed.

(* never stale: the serials delivered to a handle strictly increase and exceed
   the serial it registered with; nothing reaches a handle whose registration has
   not been processed.  reg_once is the API's guarantee that a handle is
   registered once (each RegisterCallback makes a fresh handle: System.api_start
   refuses a used one); its propagation to the queue is not mechanised. *)
Theorem sys_never_stale_partial_l : forall inits watching s0 ls s h,
  snd (sys_init stack verify p inits watching) = Ok s0 -> run s0 ls = Some s ->
  reg_once h (enq_of (s_log s)) ->
  match first_reg h (taken_of (s_log s)) with
  | Some tok => sorted_above (tok_serial tok) (deliveries h (cb_hist (s_log s)))
  | None => deliveries h (cb_hist (s_log s)) = []
  end.
Proof.
  intros inits watching s0 ls s h H0 Hr Ho.
  destruct (taken_facts inits watching s0 ls s H0 Hr) as [F [I [rest Hh]]].
  destruct (queue_well_formed_l inits watching s0 ls s H0 Hr) as [_ [Q1 _]].
  rewrite Q1 in Ho. apply reg_once_prefix in Ho.
  pose proof (never_stale_l on_new on_err h (taken_of (s_log s)) I F Ho) as S.
  unfold CbMgrProofs.outs in *. rewrite <- Hh in S.
  destruct (first_reg h (taken_of (s_log s))).
  - rewrite deliveries_app in S. eapply sorted_above_prefix; eauto.
  - eapply deliveries_prefix_nil; eauto.
Qed.

(* ---------- a handle reaches the queue at most once ---------- *)

Definition is_reg_op (h : N) (op : api_op sv) : bool :=
  match op with OpRegister h' _ => h' =? h | _ => false end.
Definition not_enq (c : pc cfg sv) : bool := match c with PEnqueue _ => false | _ => true end.

Lemma lookup_in : forall {A} k (a : A) l, lookup k l = Some a -> In (k, a) l.
Proof.
  induction l as [|[k0 a0] r IH]; cbn; intros H; [discriminate|].
  destruct (k0 =? k) eqn:E; [apply N.eqb_eq in E; inversion H; subst; left; reflexivity|right; auto].
Qed.

(* how a step changes the thread table *)
Lemma step_thr_shape : forall s l s', step s l = Some s' ->
  s_thr s' = s_thr s \/
  (exists tid t t', lookup tid (s_thr s) = Some t /\ s_thr s' = update tid t' (s_thr s) /\
     t_op t' = t_op t /\ (forall ev, t_pc t' = PEnqueue ev -> t_pc t = PEnqueue ev)) \/
  (exists tid op t', l = LApiStart tid op /\ lookup tid (s_thr s) = None /\ s_thr s' = update tid t' (s_thr s) /\
     t_op t' = op /\
     (forall ev, t_pc t' = PEnqueue ev ->
        match ev with
        | EvReg h _ => is_reg_op h op = true /\ existsb (registers h) (s_thr s) = false
        | EvUnreg _ _ => True
        | _ => False
        end) /\
     (forall h, is_reg_op h op = true -> existsb (registers h) (s_thr s) = false)).
Proof.
  intros s l s' H. destruct l; cbn [System.step] in H.
  - right. right. unfold System.api_start in H. destruct (lookup tid (s_thr s)) eqn:El; [discriminate|].
    destruct op; unfold start_enqueue in H; inv_step H;
      (eexists tid, _, _; split; [reflexivity|split; [exact El|split; [cbn; reflexivity|split; [reflexivity|]]]]);
      cbn; (split; [intros ev Hev; try discriminate; try (inversion Hev; subst; cbn; rewrite ?N.eqb_refl; auto)
                   |intros h0 Hh; try discriminate; try (apply N.eqb_eq in Hh; subst; assumption)]).
  - unfold System.api_act in H. destruct (lookup tid (s_thr s)) as [t|] eqn:El; [|discriminate].
    destruct (t_pc t) eqn:Epc; inv_step H; right; left; exists tid, t; eexists;
      (split; [exact El|split; [reflexivity|split; [reflexivity|cbn; intros; discriminate]]]).
  - unfold System.mon_recv_step in H. inv_step H;
    match goal with |- context [s_thr (mon_take _ _ _ ?s1 ?st ?i)] =>
      destruct (mon_take_fields stack verify p s1 st i) as [_ [_ [_ [_ [_ [Ft _]]]]]]; rewrite Ft end;
    try (left; reflexivity);
    right; left; do 3 eexists; (split; [eassumption|split; [reflexivity|split; [reflexivity|cbn; intros; discriminate]]]).
  - left. unfold System.mon_act_step in H. inv_step H; reflexivity.
  - left. unfold System.cb_take_step in H. inv_step H; reflexivity.
  - left. unfold cb_return_step in H. inv_step H. reflexivity.
  - left. unfold cb_ack_step in H. inv_step H. reflexivity.
  - left. destruct (s_main s); [discriminate|]. inversion H. reflexivity.
  - unfold cancel_call in H. destruct (lookup tid (s_thr s)) as [t|] eqn:El; [|discriminate].
    destruct (t_cancel t); [discriminate|].
    destruct (t_pc t) eqn:Epc; inv_step H; right; left; exists tid, t; eexists;
      (split; [exact El|split; [reflexivity|split; [reflexivity|cbn; intros ev' Hev; try discriminate; congruence]]]).
Qed.

(* the monitor submits new-config and error events only *)
Definition is_mon_ev (ev : cb_event) : Prop :=
  match ev with EvNew _ _ _ _ | EvErr _ _ _ => True | _ => False end.

Lemma recv_submit_kind : forall cur st (i : mon_in sv) ev,
  In (ATrySubmit ev) (snd (mon_recv stack verify p cur st i)) -> is_mon_ev ev.
Proof.
  intros cur st i ev H. destruct i as [src x rid|src|src|rid|]; cbn [mon_recv] in H.
  - destruct (stack _) as [c|]; [destruct (m_skip st); [|destruct (verify c)]|]; destruct rid; cbn in H;
      repeat (destruct H as [H|H]; [try discriminate; inversion H; exact I|]); destruct H.
  - cbn [snd] in H. destruct (src_err_delivered p (m_skip st)); cbn in H;
      repeat (destruct H as [H|H]; [try discriminate; inversion H; exact I|]); destruct H.
  - cbn [snd] in H. destruct (existsb _ _); cbn in H;
      repeat (destruct H as [H|H]; [try discriminate; inversion H; exact I|]); destruct H.
  - destruct (m_skip st); [destruct (verify (snd cur))|]; cbn in H;
      repeat (destruct H as [H|H]; [try discriminate; inversion H; exact I|]); destruct H.
  - cbn in H. repeat (destruct H as [H|H]; [try discriminate; inversion H; exact I|]); destruct H.
Qed.

Lemma trace_submit_kind : forall ins cur st ev, In (ATrySubmit ev) (trace cur st ins) -> is_mon_ev ev.
Proof.
  induction ins as [|i r IH]; intros cur st ev H; [destruct H|].
  unfold MonitorProofs.trace in H. fold (trace cur st (i :: r)) in H.
  rewrite (trace_cons stack verify p) in H. apply in_app_or in H. destruct H as [H|H].
  - eapply recv_submit_kind; eauto.
  - eapply IH; eauto.
Qed.

Record inv_reg (s : sys) : Prop := mkInvReg {
  ir_uniq : forall h tid t tid' t', lookup tid (s_thr s) = Some t -> lookup tid' (s_thr s) = Some t' ->
            is_reg_op h (t_op t) = true -> is_reg_op h (t_op t') = true -> tid = tid';
  ir_pend : forall tid t h tok, lookup tid (s_thr s) = Some t -> t_pc t = PEnqueue (EvReg h tok) ->
            is_reg_op h (t_op t) = true;
  ir_enq : forall h, existsb (reg_of h) (enq_of (s_log s)) = true ->
           exists tid t, lookup tid (s_thr s) = Some t /\ is_reg_op h (t_op t) = true /\ not_enq (t_pc t) = true;
  ir_once : forall h, reg_once h (enq_of (s_log s))
}.

Lemma no_reg_iff : forall h (l : list cb_event), no_reg h l <-> existsb (reg_of h) l = false.
Proof.
  intros h l. unfold no_reg. induction l as [|e l IH]; cbn; [tauto|].
  destruct (reg_of h e); cbn; [split; discriminate|exact IH].
Qed.

Lemma reg_once_snoc : forall h (a : list cb_event) e,
  reg_once h a -> (reg_of h e = true -> existsb (reg_of h) a = false) -> reg_once h (a ++ [e]).
Proof.
  induction a as [|x a IH]; intros e Ho He; cbn.
  - destruct (reg_of h e); [reflexivity|exact I].
  - cbn in Ho. destruct (reg_of h x) eqn:Ex.
    + apply no_reg_iff. rewrite existsb_app. apply no_reg_iff in Ho. rewrite Ho. cbn.
      destruct (reg_of h e) eqn:Ee; [|reflexivity]. specialize (He eq_refl). cbn in He. rewrite Ex in He. discriminate.
    + apply IH; [exact Ho|]. intros Ee. specialize (He Ee). cbn in He. rewrite Ex in He. exact He.
Qed.

Lemma not_registered : forall h (thr : list (N * thread cfg sv)) tid t,
  existsb (registers h) thr = false -> lookup tid thr = Some t -> is_reg_op h (t_op t) = false.
Proof.
  intros h thr tid t He Hl. apply lookup_in in Hl.
  destruct (is_reg_op h (t_op t)) eqn:E; [|reflexivity].
  assert (existsb (registers h) thr = true) by (apply existsb_exists; exists (tid, t); split; [exact Hl|exact E]).
  congruence.
Qed.

(* the thread-table part of inv_reg along any step, and the witnesses of ir_enq *)
Lemma inv_reg_threads : forall s l s', inv_reg s -> step s l = Some s' ->
  (forall h tid t tid' t', lookup tid (s_thr s') = Some t -> lookup tid' (s_thr s') = Some t' ->
     is_reg_op h (t_op t) = true -> is_reg_op h (t_op t') = true -> tid = tid') /\
  (forall tid t h tok, lookup tid (s_thr s') = Some t -> t_pc t = PEnqueue (EvReg h tok) -> is_reg_op h (t_op t) = true) /\
  (forall h tid t, lookup tid (s_thr s) = Some t -> is_reg_op h (t_op t) = true -> not_enq (t_pc t) = true ->
     exists t', lookup tid (s_thr s') = Some t' /\ is_reg_op h (t_op t') = true /\ not_enq (t_pc t') = true).
Proof.
  intros s l s' [U P _ _] H.
  destruct (step_thr_shape s l s' H) as [T|[[tid0 [t0 [t0' [Hl0 [T [Hop Hpc]]]]]]|[tid0 [op [t0' [_ [Hn [T [Hop [Hpc Hreg]]]]]]]]]]; rewrite T.
  - repeat split; eauto.
  - (* an existing thread moves on; its operation is unchanged *)
    assert (Back : forall tid t, lookup tid (update tid0 t0' (s_thr s)) = Some t ->
              exists t1, lookup tid (s_thr s) = Some t1 /\ t_op t1 = t_op t /\
                         (forall ev, t_pc t = PEnqueue ev -> t_pc t1 = PEnqueue ev)).
    { intros tid t Hl. rewrite lookup_update in Hl. destruct (tid =? tid0) eqn:E.
      - apply N.eqb_eq in E. subst. inversion Hl; subst. exists t0. auto.
      - exists t. auto. }
    repeat split.
    + intros h tid t tid' t' H1 H2 R1 R2.
      destruct (Back _ _ H1) as [a [A1 [A2 _]]]. destruct (Back _ _ H2) as [b [B1 [B2 _]]].
      eapply (U h tid a tid' b); eauto; congruence.
    + intros tid t h tok H1 H2. destruct (Back _ _ H1) as [a [A1 [A2 A3]]].
      rewrite <- A2. eapply P; eauto.
    + intros h tid t H1 R N. rewrite lookup_update. destruct (tid =? tid0) eqn:E.
      * apply N.eqb_eq in E. subst. rewrite Hl0 in H1. inversion H1; subst.
        exists t0'. split; [reflexivity|]. split; [rewrite Hop; exact R|].
        destruct (t_pc t0') eqn:Ep; try reflexivity. rewrite (Hpc ev eq_refl) in N. discriminate.
      * exists t. auto.
  - (* a new thread *)
    assert (Back : forall tid t, lookup tid (update tid0 t0' (s_thr s)) = Some t ->
              (tid = tid0 /\ t = t0') \/ (tid <> tid0 /\ lookup tid (s_thr s) = Some t)).
    { intros tid t Hl. rewrite lookup_update in Hl. destruct (tid =? tid0) eqn:E.
      - apply N.eqb_eq in E. inversion Hl; subst. auto.
      - apply N.eqb_neq in E. auto. }
    repeat split.
    + intros h tid t tid' t' H1 H2 R1 R2.
      destruct (Back _ _ H1) as [[-> ->]|[N1 O1]]; destruct (Back _ _ H2) as [[-> ->]|[N2 O2]]; auto.
      * rewrite Hop in R1. pose proof (not_registered h _ _ _ (Hreg h R1) O2). congruence.
      * rewrite Hop in R2. pose proof (not_registered h _ _ _ (Hreg h R2) O1). congruence.
      * eapply U; eauto.
    + intros tid t h tok H1 H2. destruct (Back _ _ H1) as [[-> ->]|[N1 O1]].
      * specialize (Hpc _ H2). cbn in Hpc. rewrite Hop. tauto.
      * eapply P; eauto.
    + intros h tid t H1 R N. exists t. rewrite lookup_update.
      destruct (tid =? tid0) eqn:E; [apply N.eqb_eq in E; subst; congruence|auto].
Qed.

Lemma inv_reg_step : forall c0 st0 log0 s l s',
  inv_ref stack verify p (0, c0) st0 log0 s -> inv_reg s -> step s l = Some s' -> inv_reg s'.
Proof.
  intros c0 st0 log0 s l s' R I H.
  destruct (inv_reg_threads s l s' I H) as [U' [P' K]].
  destruct I as [U P Q O].
  destruct (step_es s l s' H) as [es [L [[E1 _]|[[tid [t [ev [Hl [Hpc [E1 [_ [t' [Hl' [Hop' Hpc']]]]]]]]]]|[st [ev [rest_p [d [Em [_ E1]]]]]]]]]].
  - (* the queue history is unchanged *)
    constructor; auto; rewrite L, enq_of_app, E1, app_nil_r; auto.
    intros h Hh. destruct (Q h Hh) as [tid [t [A [B C]]]]. destruct (K h tid t A B C) as [t' [A' [B' C']]]. eauto.
  - (* an API goroutine enqueues ev *)
    constructor; auto; rewrite L, enq_of_app, E1.
    + intros h Hh. rewrite existsb_app in Hh. apply orb_true_iff in Hh. destruct Hh as [Hh|Hh].
      * destruct (Q h Hh) as [tid1 [t1 [A [B C]]]]. destruct (K h tid1 t1 A B C) as [t1' [A' [B' C']]]. eauto.
      * cbn in Hh. rewrite orb_false_r in Hh. destruct ev; cbn in Hh; try discriminate.
        apply N.eqb_eq in Hh. subst h0.
        exists tid, t'. split; [exact Hl'|]. split.
        -- rewrite Hop'. eapply P; eauto.
        -- destruct (t_pc t'); try reflexivity. destruct Hpc'.
    + intros h. apply reg_once_snoc; [apply O|]. intros Hr.
      destruct ev; cbn in Hr; try discriminate. apply N.eqb_eq in Hr. subst h0.
      destruct (existsb (reg_of h) (enq_of (s_log s))) eqn:Ee; [|reflexivity]. exfalso.
      destruct (Q h Ee) as [tid1 [t1 [A [B C]]]].
      assert (tid1 = tid) by (eapply (U h); eauto). subst tid1.
      rewrite Hl in A. inversion A; subst t1. rewrite Hpc in C. discriminate.
  - (* the monitor submits (or drops) ev: never a registration *)
    assert (Hk : is_mon_ev ev).
    { destruct R as [rest [_ Rm]]. rewrite Em in Rm. destruct Rm as [Rt _].
      eapply (trace_submit_kind (recvs rest) (0, c0) st0). unfold MonitorProofs.trace in *. rewrite <- Rt.
      apply in_or_app. right. left. reflexivity. }
    assert (Hr : forall h, reg_of h ev = false) by (intros h; destruct ev; try reflexivity; destruct Hk).
    constructor; auto; rewrite L, enq_of_app, E1; destruct d; rewrite ?app_nil_r; auto.
    + intros h Hh. destruct (Q h Hh) as [tid1 [t1 [A [B C]]]]. destruct (K h tid1 t1 A B C) as [t1' [A' [B' C']]]. eauto.
    + intros h Hh. rewrite existsb_app in Hh. cbn in Hh. rewrite Hr, !orb_false_r in Hh.
      destruct (Q h Hh) as [tid1 [t1 [A [B C]]]]. destruct (K h tid1 t1 A B C) as [t1' [A' [B' C']]]. eauto.
    + intros h. apply reg_once_snoc; [apply O|]. rewrite Hr. discriminate.
Qed.

Lemma init_inv_reg : forall inits watching s0,
  snd (sys_init stack verify p inits watching) = Ok s0 -> inv_reg s0.
Proof.
  intros inits watching s0 H.
  destruct (init_shape stack verify p inits watching s0 H) as [c0 [st0 [_ [_ [_ [_ [L _]]]]]]].
  destruct (nosub_verifs (cr_verify_log (config_init stack verify p inits watching))) as [A _].
  assert (Ht : s_thr s0 = []).
  { unfold sys_init in H. cbn [snd] in H.
    destruct (cr_out (config_init stack verify p inits watching)) as [[v st]| |]; try discriminate.
    inversion H; subst. reflexivity. }
  constructor; rewrite ?Ht, ?L, ?A; cbn; try discriminate; auto.
Qed.

Theorem handles_enqueued_once_l : forall inits watching s0 ls s h,
  snd (sys_init stack verify p inits watching) = Ok s0 -> run s0 ls = Some s ->
  reg_once h (enq_of (s_log s)).
Proof.
  intros inits watching s0 ls s h H0 Hr.
  destruct (init_shape stack verify p inits watching s0 H0) as [c0 [st0 [E _]]].
  pose proof (init_inv_ref stack verify p inits watching s0 c0 st0 H0 E) as R0.
  pose proof (init_inv_reg inits watching s0 H0) as I0.
  assert (G : forall ls s1 s, inv_ref stack verify p (0, c0) st0 (s_log s0) s1 -> inv_reg s1 ->
              run s1 ls = Some s -> inv_reg s).
  { clear ls s Hr. induction ls as [|l r IH]; intros s1 s R I Hr; cbn in Hr.
    - inversion Hr; subst. exact I.
    - destruct (step s1 l) as [s2|] eqn:Es; [|discriminate].
      eapply (IH s2 s); [| |exact Hr].
      + eapply inv_ref_step; eauto.
      + eapply inv_reg_step; eauto. }
  apply (ir_once s (G ls s0 s R0 I0 Hr)).
Qed.

(* C06 never_stale for every schedule of the whole system, no hypothesis left *)
Theorem sys_never_stale_l : forall inits watching s0 ls s h,
  snd (sys_init stack verify p inits watching) = Ok s0 -> run s0 ls = Some s ->
  match first_reg h (taken_of (s_log s)) with
  | Some tok => sorted_above (tok_serial tok) (deliveries h (cb_hist (s_log s)))
  | None => deliveries h (cb_hist (s_log s)) = []
  end.
Proof.
  intros. eapply sys_never_stale_partial_l; eauto. eapply handles_enqueued_once_l; eauto.
Qed.

(* ---------- none after unregister, on the system's queue ---------- *)

Lemma reg_once_after : forall h (pre : list cb_event) x post tok,
  reg_once h (pre ++ x :: post) -> In (EvReg h tok) pre -> no_reg h post.
Proof.
  induction pre as [|e pre IH]; intros x post tok Ho Hin; [destruct Hin|].
  cbn in Ho. destruct Hin as [->|Hin].
  - cbn in Ho. rewrite N.eqb_refl in Ho. unfold no_reg in *. rewrite forallb_app in Ho.
    apply andb_true_iff in Ho. destruct Ho as [_ Ho]. cbn in Ho. apply andb_true_iff in Ho. tauto.
  - destruct (reg_of h e) eqn:E.
    + (* e registers h as well: then nothing after it may, but tok's registration is there *)
      exfalso. unfold no_reg in Ho. rewrite forallb_app in Ho. apply andb_true_iff in Ho. destruct Ho as [Ho _].
      rewrite forallb_forall in Ho. specialize (Ho _ Hin). cbn in Ho. rewrite N.eqb_refl in Ho. discriminate.
    + eapply IH; eauto.
Qed.

(* every schedule: once the callback goroutine has taken the unregister event
   of a handle h whose registration it had processed, the ack is what it emits
   at that point and nothing it does afterwards is an invocation of h *)
Theorem sys_none_after_unregister_l : forall inits watching s0 ls s h a tok pre post,
  snd (sys_init stack verify p inits watching) = Ok s0 -> run s0 ls = Some s ->
  taken_of (s_log s) = pre ++ EvUnreg h a :: post -> In (EvReg h tok) pre ->
  exists rest,
    cb_hist (s_log s) ++ rest =
      outs cb_init pre ++ [OAck a] ++ outs (after cb_init (pre ++ [EvUnreg h a])) post /\
    existsb (is_user_inv_of h) (outs (after cb_init (pre ++ [EvUnreg h a])) post) = false.
Proof.
  intros inits watching s0 ls s h a tok pre post H0 Hr Ht Hin.
  destruct (callback_history_is_fold_l inits watching s0 ls s H0 Hr) as [Q1 [rest Hh]].
  pose proof (handles_enqueued_once_l inits watching s0 ls s h H0 Hr) as Ho.
  rewrite Q1, Ht in Ho. apply reg_once_prefix in Ho.
  pose proof (reg_once_after h pre (EvUnreg h a) post tok Ho Hin) as Hn.
  exists rest. split.
  - rewrite Hh, Ht. apply outs_unreg_split.
  - apply none_after_unregister_l. exact Hn.
Qed.

End Proofs.
