(* MODEL of the monitor goroutine of dials.go (monitor, updateSourceValue,
   markSourceDone, monitorEnableVerify) and of the tail of Params.Config and
   the no-monitor path of EnableVerification.  Definitions only.

   The monitor is a sequential machine: it receives one message at its select
   (mon_recv) and then performs a fixed list of externally visible actions
   (mon_act) before it returns to the select.  Stacking (compose over the
   pristine defaults) and Verify are parameters. *)
From Coq Require Import List NArith Bool.
From Dials Require Import Base.Outcome Core.CbMgr.
Import ListNotations.
Open Scope N_scope.

Record params := mkParams {
  p_skip_initial : bool;    (* Params.SkipInitialVerification *)
  p_delay : bool;           (* Params.DelayInitialVerification *)
  p_suppress : bool         (* Params.CallGlobalCallbacksAfterVerificationEnabled *)
}.

Fixpoint set_nth {A} (i : nat) (v : A) (l : list A) : list A :=
  match l, i with
  | [], _ => []
  | _ :: r, O => v :: r
  | x :: r, S j => x :: set_nth j v r
  end.

Section Monitor.
Context {cfg sv : Type}.
Variable stack : list sv -> option cfg.   (* compose(defaults copy, sourceValues); None = stacking error *)
Variable verify : cfg -> bool.            (* cfg.Verify() == nil *)
Variable p : params.

Notation vcfg := (vcfg cfg).
Notation cb_event := (cb_event cfg).

(* monitor-owned state after Config returned (dials.go:154,634) *)
Record mon_state := mkMon {
  m_slots : list sv;       (* sourceValues[i].value *)
  m_watch : list bool;     (* sourceValues[i].watching *)
  m_skip : bool            (* skipVerify *)
}.

Inductive reply := RNil | RStackErr | RVerifyErr.            (* what is sent on valueUpdate.installed *)
Inductive enable_reply := EOk (v : vcfg) | EErr.             (* verifyEnableResp *)

(* one message taken at the monitor's select (dials.go:636-652) *)
Inductive mon_in :=
| InUpdate (src : nat) (v : sv) (rid : option N)   (* *valueUpdate; rid = Some r: installed channel r *)
| InSrcErr (src : nat)                             (* *watchErrorReport *)
| InSrcDone (src : nat)                            (* *watcherDone *)
| InEnable (rid : N)                               (* verifyEnable from monCtl *)
| InCtxDone.                                       (* <-ctx.Done() *)

Inductive mon_act :=
| AVerify (c : cfg) (ok : bool)          (* a call of Verify and its result; local to the monitor *)
| AStore (v : vcfg)                      (* d.value.Store *)
| ATryUpdates (v : vcfg)                 (* non-blocking send on updatesChan *)
| AReply (rid : N) (r : reply)           (* watchTab.installed <- err *)
| ATrySubmit (ev : cb_event)             (* d.submitEvent *)
| AEnableReply (rid : N) (r : enable_reply)
| AExit.                                 (* deferred shutdown signal, then the goroutine ends *)

Definition reply_to (rid : option N) (r : reply) : list mon_act :=
  match rid with Some i => [AReply i r] | None => [] end.

(* source errors are handed to OnWatchedError unless delayed verification is
   still in force and the suppress option is set (after the fix of finding 5) *)
Definition src_err_delivered (skip : bool) : bool := negb (skip && p_suppress p).
(* the condition on the pinned tree (dials.go:667) *)
Definition src_err_delivered_prefix (skip : bool) : bool := negb skip && negb (p_suppress p).

Definition mon_recv (cur : vcfg) (st : mon_state) (i : mon_in) : mon_state * list mon_act :=
  match i with
  | InUpdate src v rid =>
      (* updateSourceValue: the slot is overwritten before anything can fail *)
      let slots := set_nth src v (m_slots st) in
      let st' := mkMon slots (m_watch st) (m_skip st) in
      let k := fst cur + 1 in
      match stack slots with
      | None =>
          (st', ATrySubmit (EvErr EStack cur None) :: reply_to rid RStackErr)
      | Some c =>
          let accept :=
            AStore (k, c) :: ATryUpdates (k, c) :: reply_to rid RNil
              ++ [ATrySubmit (EvNew cur (k, c) k (m_skip st && p_suppress p))] in
          if m_skip st then (st', accept)
          else if verify c then (st', AVerify c true :: accept)
          else (st', AVerify c false :: ATrySubmit (EvErr EVerify cur (Some c))
                       :: reply_to rid RVerifyErr)
      end
  | InSrcErr src =>
      (st, if src_err_delivered (m_skip st) then [ATrySubmit (EvErr ESource cur None)] else [])
  | InSrcDone src =>
      let w := set_nth src false (m_watch st) in
      let st' := mkMon (m_slots st) w (m_skip st) in
      (st', if existsb (fun b => b) w then [] else [AExit])
  | InEnable rid =>
      if m_skip st then
        (* monitorEnableVerify *)
        if verify (snd cur)
        then (mkMon (m_slots st) (m_watch st) false, [AVerify (snd cur) true; AEnableReply rid (EOk cur)])
        else (st, [AVerify (snd cur) false; AEnableReply rid EErr])
      else (st, [AEnableReply rid (EOk cur)])
  | InCtxDone => (st, [AExit])
  end.

(* the atomic value after the monitor performed a list of actions *)
Definition cur_after (cur : vcfg) (acts : list mon_act) : vcfg :=
  fold_left (fun c a => match a with AStore v => v | _ => c end) acts cur.

(* the monitor alone: every action list is performed before the next receive *)
Fixpoint mon_run (cur : vcfg) (st : mon_state) (ins : list mon_in) : vcfg * mon_state * list mon_act :=
  match ins with
  | [] => (cur, st, [])
  | i :: r =>
      let '(st1, acts) := mon_recv cur st i in
      let '(cur2, st2, acts2) := mon_run (cur_after cur acts) st1 r in
      (cur2, st2, acts ++ acts2)
  end.

(* ---- Params.Config, from compose on (dials.go:134-171) ---- *)

Record config_result := mkConfigResult {
  cr_verify_log : list (cfg * bool);      (* calls of Verify made by Config *)
  cr_out : outcome (vcfg * mon_state)     (* Err 1: stacking, Err 2: initial verification *)
}.

Definition config_init (inits : list sv) (watching : list bool) : config_result :=
  match stack inits with
  | None => mkConfigResult [] (Err 1)
  | Some c =>
      let st := mkMon inits watching (p_delay p) in
      if p_skip_initial p || p_delay p then mkConfigResult [] (Ok ((0, c), st))
      else if verify c then mkConfigResult [(c, true)] (Ok ((0, c), st))
      else mkConfigResult [(c, false)] (Err 2)
  end.

(* EnableVerification when no source watches (dials.go:577-587), after the fix of finding 6 *)
Definition enable_nomon (cur : vcfg) : list (cfg * bool) * enable_reply :=
  if negb (p_delay p) then ([], EOk cur)
  else if verify (snd cur) then ([(snd cur, true)], EOk cur)
  else ([(snd cur, false)], EErr).

(* ---- vocabulary of the specification ---- *)

Definition stores_of (acts : list mon_act) : list vcfg :=
  flat_map (fun a => match a with AStore v => [v] | _ => [] end) acts.
Definition verifies_of (acts : list mon_act) : list (cfg * bool) :=
  flat_map (fun a => match a with AVerify c b => [(c, b)] | _ => [] end) acts.
Definition submits_of (acts : list mon_act) : list cb_event :=
  flat_map (fun a => match a with ATrySubmit e => [e] | _ => [] end) acts.

(* per source, the value most recently reported (initially its Value()) *)
Definition latest (inits : list sv) (ins : list mon_in) : list sv :=
  fold_left (fun sl i => match i with InUpdate src v _ => set_nth src v sl | _ => sl end) ins inits.

(* the view a fresh Config over the latest values would build, or the last
   view that was accepted; computed from the history, newest message first *)
Fixpoint spec_rev (inits : list sv) (c0 : cfg) (skip0 : bool) (rins : list mon_in) : cfg * bool :=
  match rins with
  | [] => (c0, skip0)
  | m :: older =>
      let '(v, sk) := spec_rev inits c0 skip0 older in
      match m with
      | InUpdate _ _ _ =>
          match stack (latest inits (rev (m :: older))) with
          | Some c => if sk || verify c then (c, sk) else (v, sk)
          | None => (v, sk)
          end
      | InEnable _ => (v, sk && negb (verify v))
      | _ => (v, sk)
      end
  end.
Definition spec_view (inits : list sv) (c0 : cfg) (skip0 : bool) (ins : list mon_in) : cfg :=
  fst (spec_rev inits c0 skip0 (rev ins)).
Definition spec_skip (inits : list sv) (c0 : cfg) (skip0 : bool) (ins : list mon_in) : bool :=
  snd (spec_rev inits c0 skip0 (rev ins)).

Fixpoint consecutive_from (k : N) (l : list N) : Prop :=
  match l with
  | [] => True
  | x :: r => x = k + 1 /\ consecutive_from (k + 1) r
  end.

End Monitor.

Arguments mon_state : clear implicits.
Arguments mon_in : clear implicits.
Arguments mon_act : clear implicits.
Arguments enable_reply : clear implicits.
Arguments config_result : clear implicits.
