(* PROOFS: restatements of the C06 fold lemmas on the ghost history of every
   schedule of the system (catch-up iff, no skip without overflow, no drop =>
   every store announced), and the order between the callback goroutine's ack
   and the return of the unregister call. *)
From Coq Require Import List NArith Bool Lia.
From Dials Require Import Base.Outcome Core.CbMgr Core.CbMgrProofs Core.Monitor Core.MonitorProofs
  Core.System Core.SystemProofs Core.QueueProofs.
Import ListNotations.
Open Scope N_scope.

Section Proofs.
Context {cfg sv : Type}.
Variable stack : list sv -> option cfg.
Variable verify : cfg -> bool.
Variable p : params.
Variable on_new on_err : bool.
Variable cbcap : N.

Notation sys := (sys cfg sv).
Notation label := (label sv).
Notation gevent := (gevent cfg sv).
Notation cb_event := (cb_event cfg).
Notation cb_out := (cb_out cfg).
Notation mon_act := (mon_act cfg).
Notation vcfg := (vcfg cfg).
Notation step := (@step cfg sv stack verify p on_new on_err cbcap).
Notation run := (@run cfg sv stack verify p on_new on_err cbcap).
Notation outs := (@outs cfg on_new on_err).
Notation after := (@after cfg on_new on_err).
Notation cstep := (@cb_step cfg on_new on_err).
Notation mon_hist := (@mon_hist cfg sv).
Notation enq_of := (@enq_of cfg sv).
Notation taken_of := (@taken_of cfg sv).
Notation cb_hist := (@cb_hist cfg sv).
Notation inv_q := (@inv_q cfg sv on_new on_err).
Notation trace := (@trace cfg sv stack verify p).

(* what the callback goroutine still has to do in the iteration it is in (the
   invocation it is inside of has been logged when it was entered) *)
Definition pending_of (s : sys) : list cb_out :=
  match s_cb s with CRun _ pend => unstarted pend | _ => [] end.

(* the callback history, exactly: logged outputs ++ the rest of the current
   iteration = the fold over the events taken; nothing is pending whenever the
   goroutine is at its receive (or gone) *)
Theorem callback_history_exact_l : forall inits watching s0 ls s,
  snd (sys_init stack verify p inits watching) = Ok s0 -> run s0 ls = Some s ->
  cb_hist (s_log s) ++ pending_of s = outs cb_init (taken_of (s_log s)) /\
  (forall cst, s_cb s = CRun cst [] -> pending_of s = []) /\
  (s_cb s = CExited -> pending_of s = []).
Proof.
  intros inits watching s0 ls s H0 Hr.
  destruct (callback_fold_l stack verify p on_new on_err cbcap inits watching s0 ls s H0 Hr) as [_ [_ Q3]].
  split; [|split; intros; unfold pending_of; rewrite H; reflexivity].
  unfold pending_of. destruct (s_cb s) as [|cst pend|].
  - destruct Q3 as [Qh Qt]. rewrite Qh, Qt. reflexivity.
  - destruct Q3 as [_ Qo]. exact Qo.
  - rewrite app_nil_r. exact Q3.
Qed.

Lemma outs_mid_split : forall pre ev post st,
  outs st (pre ++ ev :: post)
  = outs st pre ++ snd (cstep (after st pre) ev) ++ outs (after st (pre ++ [ev])) post.
Proof.
  intros. replace (pre ++ ev :: post) with ((pre ++ [ev]) ++ post) by (rewrite <- app_assoc; reflexivity).
  rewrite outs_app, outs_snoc, <- app_assoc. reflexivity.
Qed.

(* C06 catch-up, every schedule: for a registration the callback goroutine
   has taken, its output sequence has, exactly at that registration's place,
   the immediate call (token config, last announced config) iff the token is
   valid and below the last serial announced before the registration was
   taken, and nothing otherwise *)
Theorem sys_catchup_iff_l : forall inits watching s0 ls s h tok pre post,
  snd (sys_init stack verify p inits watching) = Ok s0 -> run s0 ls = Some s ->
  taken_of (s_log s) = pre ++ EvReg h tok :: post ->
  let L := last_announced 0 pre in
  exists call,
    cb_hist (s_log s) ++ pending_of s =
      outs cb_init pre ++ call ++ outs (after cb_init (pre ++ [EvReg h tok])) post /\
    match tok with
    | Some tc =>
        if fst tc <? L
        then exists lv, fst lv = L /\ call = [OInv (InvUser h tc (Some lv) true)]
        else call = []
    | None => call = []
    end.
Proof.
  intros inits watching s0 ls s h tok pre post H0 Hr Ht L.
  destruct (callback_history_exact_l inits watching s0 ls s H0 Hr) as [Hh _].
  destruct (taken_facts stack verify p on_new on_err cbcap inits watching s0 ls s H0 Hr) as [F _].
  rewrite Ht in F. apply Forall_app in F. destruct F as [Fpre _].
  exists (snd (cstep (after cb_init pre) (EvReg h tok))). split.
  - rewrite Hh, Ht. apply outs_mid_split.
  - pose proof (catchup_iff_l on_new on_err pre h tok Fpre) as C. cbn zeta in C. fold L in C.
    destruct tok as [tc|]; [|exact C]. destruct (fst tc <? L); [|exact C].
    destruct C as [lv [_ [C2 C3]]]. exists lv. auto.
Qed.

(* C06 no skip, every schedule: a handle whose registration is in the queue
   history and that has not been unregistered in between gets every version
   announced after it and above its token: the call is in the goroutine's
   outputs so far, or will be produced by the fold over what is still queued *)
Theorem sys_no_skip_l : forall inits watching s0 ls s pre h tok mid old new k sup post,
  snd (sys_init stack verify p inits watching) = Ok s0 -> run s0 ls = Some s ->
  enq_of (s_log s) = pre ++ EvReg h tok :: mid ++ EvNew old new k sup :: post ->
  no_unreg h mid -> tok_serial tok < k ->
  In (OInv (InvUser h old (Some new) false))
     (cb_hist (s_log s) ++ pending_of s ++ outs (after cb_init (taken_of (s_log s))) (s_cbq s)).
Proof.
  intros inits watching s0 ls s pre h tok mid old new k sup post H0 Hr He Hn Hk.
  destruct (callback_history_exact_l inits watching s0 ls s H0 Hr) as [Hh _].
  destruct (callback_fold_l stack verify p on_new on_err cbcap inits watching s0 ls s H0 Hr) as [Q1 _].
  rewrite app_assoc, Hh, <- outs_app, <- Q1, He.
  apply no_skip_l; assumption.
Qed.

(* ---------- no drop => every store is announced, in order ---------- *)

Definition new_cfgs (evs : list cb_event) : list vcfg :=
  flat_map (fun ev => match ev with EvNew _ n _ _ => [n] | _ => [] end) evs.
Lemma new_cfgs_app : forall a b, new_cfgs (a ++ b) = new_cfgs a ++ new_cfgs b.
Proof. intros. apply flat_map_app. Qed.

(* no submit of a new-config event found cbch full or the context done *)
Definition no_new_drop (log : list gevent) : bool :=
  forallb (fun g => match g with GAct (ATrySubmit (EvNew _ _ _ _)) true => false | _ => true end) log.

Lemma recv_news_are_stores : forall cur st (i : mon_in sv),
  new_cfgs (submits_of (snd (mon_recv stack verify p cur st i))) = stores_of (snd (mon_recv stack verify p cur st i)).
Proof.
  intros. destruct i as [src x rid|src|src|rid|]; cbn [mon_recv].
  - destruct (stack _) as [c|].
    + destruct (m_skip st); [|destruct (verify c)]; cbn; destruct rid; reflexivity.
    + cbn. destruct rid; reflexivity.
  - cbn. destruct (src_err_delivered p (m_skip st)); reflexivity.
  - cbn. destruct (existsb _ _); reflexivity.
  - destruct (m_skip st); [destruct (verify (snd cur))|]; reflexivity.
  - reflexivity.
Qed.

Lemma trace_news_are_stores : forall ins cur st,
  new_cfgs (submits_of (trace cur st ins)) = stores_of (trace cur st ins).
Proof.
  induction ins as [|i r IH]; intros; [reflexivity|].
  unfold MonitorProofs.trace. fold (trace cur st (i :: r)). rewrite (trace_cons stack verify p).
  rewrite submits_of_app, new_cfgs_app, stores_of_app, recv_news_are_stores. f_equal. apply IH.
Qed.

Lemma dropped_is_not_new : forall (es : list gevent) ev,
  mon_hist es = [ATrySubmit ev] -> enq_of es = [] -> no_new_drop es = true -> new_cfgs [ev] = [].
Proof.
  induction es as [|g r IH]; intros ev Hm He Hn; [discriminate|].
  cbn in Hn. apply andb_true_iff in Hn. destruct Hn as [Hg Hn].
  destruct g; cbn in Hm, He; try discriminate Hm; try discriminate He; try (apply IH; assumption).
  injection Hm as Ha Hr. subst a. destruct dropped.
  - destruct ev; try reflexivity. discriminate Hg.
  - cbn in He. discriminate He.
Qed.

Definition inv_news (s : sys) : Prop :=
  no_new_drop (s_log s) = true ->
  new_cfgs (enq_of (s_log s)) = new_cfgs (submits_of (mon_hist (s_log s))).

Lemma inv_news_step : forall s l s', thr_ok (s_thr s) -> inv_news s -> step s l = Some s' -> inv_news s'.
Proof.
  intros s l s' T I H Hn.
  destruct (step_es stack verify p on_new on_err cbcap s l s' H)
    as [es [L [[E1 E2]|[[tid [t [ev [Hl [Hpc [E1 [E2 _]]]]]]]|[st [ev [rest_p [d [Em [E1 E2]]]]]]]]]];
    rewrite L in Hn |- *; unfold no_new_drop in Hn; rewrite forallb_app in Hn; apply andb_true_iff in Hn;
    destruct Hn as [Hn1 Hn2]; specialize (I Hn1);
    rewrite enq_of_app, mon_hist_app, submits_of_app, !new_cfgs_app, I.
  - rewrite E1, E2. reflexivity.
  - rewrite E1, E2. pose proof (T tid t ev Hl Hpc) as Hok. destruct ev; try reflexivity. destruct Hok.
  - rewrite E1. cbn [submits_of flat_map app]. destruct d; rewrite E2.
    + rewrite (dropped_is_not_new es ev E1 E2 Hn2). reflexivity.
    + reflexivity.
Qed.

(* every schedule: if no new-config submit was ever dropped, then whenever the
   monitor is back at its select the new-config events put into the queue so
   far are exactly the stored configs, one per Store, in store order *)
Theorem no_drop_every_store_announced_l : forall inits watching s0 ls s st,
  snd (sys_init stack verify p inits watching) = Ok s0 -> run s0 ls = Some s ->
  no_new_drop (s_log s) = true -> s_mon s = MRun st [] ->
  new_cfgs (enq_of (s_log s)) = stores_of (mon_hist (s_log s)).
Proof.
  intros inits watching s0 ls s st H0 Hr Hn Hm.
  destruct (init_shape stack verify p inits watching s0 H0) as [c0 [st0 [E _]]].
  (* inv_news along the run (it needs thr_ok) *)
  destruct (init_inv_wf stack verify p inits watching s0 H0) as [_ [T0 S0]].
  assert (N0 : inv_news s0).
  { intros _. destruct (init_shape stack verify p inits watching s0 H0) as [c0' [st0' [_ [_ [_ [_ [L _]]]]]]].
    destruct (@nosub_verifs cfg sv (cr_verify_log (config_init stack verify p inits watching))) as [A B].
    rewrite L, A, B. reflexivity. }
  assert (G : forall ls s1 s, thr_ok (s_thr s1) -> inv_news s1 -> run s1 ls = Some s -> inv_news s).
  { clear ls s Hr Hn Hm. induction ls as [|l r IH]; intros s1 s T I Hr; cbn in Hr.
    - inversion Hr; subst. exact I.
    - destruct (step s1 l) as [s2|] eqn:Es; [|discriminate].
      eapply (IH s2 s); [| |exact Hr].
      + eapply step_thr_ok; eauto.
      + eapply inv_news_step; eauto. }
  rewrite (G ls s0 s T0 N0 Hr Hn).
  destruct (monitor_refines_l stack verify p on_new on_err cbcap inits watching s0 c0 st0 ls s H0 E Hr) as [rest [Hl Hi]].
  rewrite Hm in Hi. destruct Hi as [Ht _]. rewrite app_nil_r in Ht.
  rewrite Hl, mon_hist_app, submits_of_app, stores_of_app, S0.
  destruct (init_shape stack verify p inits watching s0 H0) as [c0' [st0' [_ [_ [_ [_ [L _]]]]]]].
  destruct (@verifs_hist cfg sv (cr_verify_log (config_init stack verify p inits watching))) as [A _].
  rewrite L at 1. rewrite (only_verifies_no_store _ A). cbn [app].
  rewrite Ht. apply trace_news_are_stores.
Qed.

(* ---------- unregister returns true only after its ack ---------- *)

(* scan a history: collect the acks (closed done channels); a "true" return
   of a call is allowed only if the done channel of that call is among them *)
Fixpoint acks_scan (seen : list N) (log : list gevent) : option (list N) :=
  match log with
  | [] => Some seen
  | GAck a :: r => acks_scan (a :: seen) r
  | GRet t (RetBool true) :: r => if existsb (N.eqb t) seen then acks_scan seen r else None
  | _ :: r => acks_scan seen r
  end.

Lemma acks_scan_app : forall a b seen,
  acks_scan seen (a ++ b) = match acks_scan seen a with Some s1 => acks_scan s1 b | None => None end.
Proof.
  induction a as [|g a IH]; intros b seen; [reflexivity|].
  destruct g; cbn; try apply IH.
  destruct r; try apply IH. destruct b0; [|apply IH]. destruct (existsb (N.eqb tid) seen); [apply IH|reflexivity].
Qed.

Definition acks_quiet (es : list gevent) : Prop := forall seen, acks_scan seen es = Some seen.

Lemma acks_quiet_app : forall a b, acks_quiet a -> acks_quiet b -> acks_quiet (a ++ b).
Proof. intros a b Ha Hb seen. rewrite acks_scan_app, Ha. apply Hb. Qed.

Lemma acks_quiet_verifs : forall vl : list (cfg * bool), acks_quiet (map (fun cb => GVerify (fst cb) (snd cb)) vl).
Proof. induction vl as [|x r IH]; intros seen; [reflexivity|]. cbn. apply IH. Qed.

Lemma acks_quiet_splitv : forall acts : list mon_act, acks_quiet (fst (@split_verifies cfg sv acts)).
Proof.
  induction acts as [|a r IH]; intros seen; [reflexivity|].
  destruct a; try reflexivity.
  cbn [System.split_verifies]. destruct (split_verifies r) as [g r'] eqn:E. cbn [fst] in *. cbn. apply IH.
Qed.

Lemma acks_quiet_enter : forall o : list cb_out, acks_quiet (cb_enter o).
Proof. intros [|[i|a] r] seen; reflexivity. Qed.

Definition inv_acks (s : sys) : Prop := acks_scan [] (s_log s) = Some (s_acks s).

Lemma inv_acks_frame : forall s s' es,
  inv_acks s -> s_log s' = s_log s ++ es -> acks_quiet es -> s_acks s' = s_acks s -> inv_acks s'.
Proof. intros s s' es I L Q A. unfold inv_acks. rewrite L, acks_scan_app, I, A. apply Q. Qed.

Ltac log_ext := first [ cbn; rewrite <- ?app_assoc; reflexivity | cbn; symmetry; apply app_nil_r ].

Ltac solve_aq :=
  repeat match goal with
  | |- acks_quiet [] => intros ?; reflexivity
  | |- acks_quiet (fst (split_verifies _)) => apply acks_quiet_splitv
  | |- acks_quiet (map _ _) => apply acks_quiet_verifs
  | |- acks_quiet (cb_enter _) => apply acks_quiet_enter
  | |- acks_quiet (?a :: ?l) => change (a :: l) with ([a] ++ l); apply acks_quiet_app; [intros ?; reflexivity|]
  | |- acks_quiet (?a ++ ?l) => apply acks_quiet_app
  end.

Lemma inv_acks_step : forall s l s', inv_acks s -> step s l = Some s' -> inv_acks s'.
Proof.
  intros s l s' I H. destruct l; cbn [System.step] in H.
  - unfold System.api_start in H. destruct (lookup tid (s_thr s)); [discriminate|].
    destruct op; unfold start_enqueue in H; inv_step H;
      (eapply inv_acks_frame; [exact I|log_ext| |reflexivity]); solve_aq.
  - unfold System.api_act in H. destruct (lookup tid (s_thr s)) as [t|] eqn:El; [|discriminate].
    destruct (t_pc t) eqn:Epc; try discriminate H.
    + (* PAwaitReply *)
      inv_step H; (eapply inv_acks_frame; [exact I|log_ext| |reflexivity]); solve_aq;
        try (intros ?; destruct r; reflexivity).
    + (* PEnqueue *)
      inv_step H; (eapply inv_acks_frame; [exact I|log_ext| |reflexivity]); solve_aq;
        try (intros ?; unfold enqueue_fail; destruct (t_op t); reflexivity).
    + (* PAwaitAck: the only place a call returns true *)
      destruct (arm =? 0).
      * inv_step H. eapply inv_acks_frame; [exact I|log_ext| |reflexivity]. solve_aq.
      * destruct (existsb (N.eqb tid) (s_acks s)) eqn:Ea; [|discriminate]. inversion H; subst s'.
        unfold inv_acks. cbn [s_log s_acks finish logged set_thread with_thr].
        rewrite acks_scan_app, I. cbn. rewrite Ea. reflexivity.
    + inv_step H; (eapply inv_acks_frame; [exact I|log_ext| |reflexivity]); solve_aq.
    + inv_step H; (eapply inv_acks_frame; [exact I|log_ext| |reflexivity]); solve_aq.
  - unfold System.mon_recv_step in H. inv_step H;
    match goal with |- inv_acks (mon_take _ _ _ ?s1 ?st ?i) =>
      eapply inv_acks_frame; [exact I|rewrite (mon_take_log stack verify p); log_ext| |
        unfold mon_take; destruct (mon_recv stack verify p (s_value s1) st i) as [? ?]; destruct (split_verifies _); reflexivity]
    end; solve_aq.
  - unfold System.mon_act_step in H. inv_step H;
      (eapply inv_acks_frame; [exact I|log_ext| |reflexivity]); solve_aq.
  - unfold System.cb_take_step in H. inv_step H;
      (eapply inv_acks_frame; [exact I|log_ext| |reflexivity]); solve_aq.
  - unfold cb_return_step in H. inv_step H.
    eapply inv_acks_frame; [exact I|log_ext| |reflexivity]. solve_aq.
  - unfold cb_ack_step in H. inv_step H. unfold inv_acks.
    cbn [s_log s_acks logged with_acks with_cb]. rewrite acks_scan_app, I. cbn [acks_scan]. apply acks_quiet_enter.
  - destruct (s_main s); [discriminate|]. inversion H; subst.
    eapply inv_acks_frame; [exact I|log_ext| |reflexivity]. solve_aq.
  - unfold cancel_call in H. inv_step H;
      (eapply inv_acks_frame; [exact I|log_ext| |reflexivity]); solve_aq;
      try (intros ?; destruct m; reflexivity).
Qed.

Lemma acks_scan_sound : forall log seen res tid l1 l2,
  acks_scan seen log = Some res -> log = l1 ++ GRet tid (RetBool true) :: l2 ->
  In (GAck tid) l1 \/ In tid seen.
Proof.
  induction log as [|g r IH]; intros seen res tid l1 l2 Hs Hl; [destruct l1; discriminate|].
  destruct l1 as [|g1 l1].
  - cbn in Hl. inversion Hl; subst. cbn in Hs.
    destruct (existsb (N.eqb tid) seen) eqn:E; [|discriminate]. right.
    apply existsb_exists in E. destruct E as [x [Hx Ex]]. apply N.eqb_eq in Ex. subst. exact Hx.
  - cbn in Hl. inversion Hl; subst g1 r.
    assert (Step : forall seen', acks_scan seen' (l1 ++ GRet tid (RetBool true) :: l2) = Some res ->
                   (forall x, In x seen' -> In x seen \/ g = GAck x) -> In (GAck tid) (g :: l1) \/ In tid seen).
    { intros seen' Hs' Hsub. destruct (IH seen' res tid l1 l2 Hs' eq_refl) as [Hin|Hin].
      - left. right. exact Hin.
      - destruct (Hsub tid Hin) as [Hx|Hx]; [right; exact Hx|left; left; exact Hx]. }
    destruct g; cbn in Hs; try (apply (Step seen Hs); intros x Hx; left; exact Hx).
    + apply (Step (a :: seen) Hs). intros x [->|Hx]; [right; reflexivity|left; exact Hx].
    + destruct r; try (apply (Step seen Hs); intros x Hx; left; exact Hx).
      destruct b; [|apply (Step seen Hs); intros x Hx; left; exact Hx].
      destruct (existsb (N.eqb tid0) seen); [|discriminate].
      apply (Step seen Hs). intros x Hx. left. exact Hx.
Qed.

(* C06/C08, every schedule: a call returns true - the unregister function is
   the only one that can - only after the callback goroutine has logged the ack
   of exactly that call's done channel (ack ids are the ids of the unregister
   calls: System.api_start enqueues EvUnreg h tid) *)
Theorem unregister_true_after_ack_l : forall inits watching s0 ls s tid l1 l2,
  snd (sys_init stack verify p inits watching) = Ok s0 -> run s0 ls = Some s ->
  s_log s = l1 ++ GRet tid (RetBool true) :: l2 -> In (GAck tid) l1.
Proof.
  intros inits watching s0 ls s tid l1 l2 H0 Hr Hl.
  assert (I : inv_acks s).
  { apply (run_inv stack verify p on_new on_err cbcap inv_acks inv_acks_step ls s0 s); [|exact Hr].
    unfold inv_acks.
    destruct (init_shape stack verify p inits watching s0 H0) as [c0 [st0 [_ [_ [_ [_ [L _]]]]]]].
    assert (Ha : s_acks s0 = []).
    { unfold sys_init in H0. cbn [snd] in H0.
      destruct (cr_out (config_init stack verify p inits watching)) as [[v st]| |]; try discriminate.
      inversion H0; subst. reflexivity. }
    rewrite L, Ha. apply acks_quiet_verifs. }
  destruct (acks_scan_sound (s_log s) [] (s_acks s) tid l1 l2 I Hl) as [Hin|[]]. exact Hin.
Qed.

End Proofs.
