(* MODEL of cb_mgr.go: the callback goroutine's loop body as a pure function.
   Definitions only; proofs are in CbMgrProofs.v.

   A config pointer handed to callbacks is modelled as a pair (serial tag,
   contents): the tag is the serial the monitor stored the config under, i.e.
   it stands for the identity of the *T the real code passes around.  Rejected
   configs were never stored and carry no tag. *)
From Coq Require Import List NArith Bool.
From Dials Require Import Base.Outcome.
Import ListNotations.
Open Scope N_scope.

Section CbMgr.
Context {cfg : Type}.

Definition vcfg : Type := N * cfg.

Inductive errkind := EStack | EVerify | ESource.

(* userCallbackEvent: the four message types of cbch (cb_mgr.go:18-64) *)
Inductive cb_event :=
| EvNew (old new : vcfg) (serial : N) (suppressed : bool)      (* newConfigEvent *)
| EvErr (e : errkind) (old : vcfg) (rej : option cfg)           (* watchErrorEvent *)
| EvReg (h : N) (tok : option vcfg)                             (* userCallbackRegistration; tok=None: CfgSerial zero value *)
| EvUnreg (h : N) (ack : N).                                    (* userCallbackUnregister; ack names the done channel *)

(* CfgSerial.s of a token; the zero token has s = 0 and cfg = nil *)
Definition tok_serial (tok : option vcfg) : N :=
  match tok with Some (s, _) => s | None => 0 end.

(* state local to runCBs (cb_mgr.go:67-69) *)
Record cb_state := mkCb {
  cb_last_serial : N;
  cb_last_version : option vcfg;          (* nil until the first newConfigEvent *)
  cb_handles : list (N * N)               (* (handle id, minSerial), in registration order *)
}.

Definition cb_init : cb_state := mkCb 0 None [].

(* one user-visible callback invocation *)
Inductive invocation :=
| InvNewGlobal (old new : vcfg)                                  (* Params.OnNewConfig *)
| InvErrGlobal (e : errkind) (old : vcfg) (rej : option cfg)     (* Params.OnWatchedError *)
| InvUser (h : N) (old : vcfg) (new : option vcfg) (catchup : bool).
  (* registered callback; new is an option only because lastVersion is a
     nilable pointer in the catch-up call; catchup is a ghost flag *)

(* what one loop iteration does that other goroutines can observe, in order *)
Inductive cb_out :=
| OInv (i : invocation)
| OAck (ack : N).            (* close(e.done) *)

Variable on_new on_err : bool.   (* Params.OnNewConfig / OnWatchedError non-nil *)

Definition deliver_new (old new : vcfg) (k : N) (hm : N * N) : list cb_out :=
  (* cb_mgr.go:83  if cbh.minSerial >= e.serial { continue } *)
  if k <=? snd hm then [] else [OInv (InvUser (fst hm) old (Some new) false)].

(* removal loop of the unregister arm (cb_mgr.go:100-106) *)
Definition remove_handle (h : N) (hs : list (N * N)) : list (N * N) :=
  filter (fun hm => negb (fst hm =? h)) hs.

(* runCBs loop body after the fix of finding 4 (make(.., 0, len)): total *)
Definition cb_step (st : cb_state) (ev : cb_event) : cb_state * list cb_out :=
  match ev with
  | EvErr e old rej =>
      (st, if on_err then [OInv (InvErrGlobal e old rej)] else [])
  | EvNew old new k sup =>
      (mkCb k (Some new) (cb_handles st),
       (if on_new && negb sup then [OInv (InvNewGlobal old new)] else [])
         ++ flat_map (deliver_new old new k) (cb_handles st))
  | EvReg h tok =>
      (mkCb (cb_last_serial st) (cb_last_version st) (cb_handles st ++ [(h, tok_serial tok)]),
       match tok with
       | Some tc =>
           (* cb_mgr.go:93  e.serial.cfg != nil && e.serial.s < lastSerial *)
           if fst tc <? cb_last_serial st
           then [OInv (InvUser h tc (cb_last_version st) true)] else []
       | None => []
       end)
  | EvUnreg h ack =>
      (mkCb (cb_last_serial st) (cb_last_version st) (remove_handle h (cb_handles st)),
       [OAck ack])
  end.

(* the loop body as it was on the pinned tree: make(.., 0, len(newCfgCBs)-1)
   panics (makeslice: cap out of range) when the handle list is empty *)
Definition cb_step_prefix (st : cb_state) (ev : cb_event) : outcome (cb_state * list cb_out) :=
  match ev with
  | EvUnreg h ack =>
      match cb_handles st with
      | [] => Panic 2
      | _ => Ok (cb_step st ev)
      end
  | _ => Ok (cb_step st ev)
  end.

Fixpoint cb_run (st : cb_state) (evs : list cb_event) : cb_state * list cb_out :=
  match evs with
  | [] => (st, [])
  | ev :: r =>
      let '(st1, o1) := cb_step st ev in
      let '(st2, o2) := cb_run st1 r in
      (st2, o1 ++ o2)
  end.

(* ---- vocabulary of the specification ---- *)

(* serial tags delivered as "new" to handle h *)
Definition delivered_to (h : N) (o : cb_out) : list N :=
  match o with
  | OInv (InvUser h' _ (Some nw) _) => if h' =? h then [fst nw] else []
  | _ => []
  end.
Definition deliveries (h : N) (os : list cb_out) : list N := flat_map (delivered_to h) os.

Definition is_user_inv_of (h : N) (o : cb_out) : bool :=
  match o with OInv (InvUser h' _ _ _) => h' =? h | _ => false end.

(* last serial announced by a newConfigEvent in evs; d if none *)
Fixpoint last_announced (d : N) (evs : list cb_event) : N :=
  match evs with
  | [] => d
  | EvNew _ _ k _ :: r => last_announced k r
  | _ :: r => last_announced d r
  end.

(* well-formedness supplied by the System: what the monitor puts into EvNew *)
Definition ev_wf (ev : cb_event) : Prop :=
  match ev with
  | EvNew old new k _ => fst new = k /\ fst old + 1 = k
  | _ => True
  end.

(* serials of newConfigEvents strictly increase, all above lo *)
Fixpoint incr_from (lo : N) (evs : list cb_event) : Prop :=
  match evs with
  | [] => True
  | EvNew _ _ k _ :: r => lo < k /\ incr_from k r
  | _ :: r => incr_from lo r
  end.

Definition reg_of (h : N) (ev : cb_event) : bool :=
  match ev with EvReg h' _ => h' =? h | _ => false end.
Definition unreg_of (h : N) (ev : cb_event) : bool :=
  match ev with EvUnreg h' _ => h' =? h | _ => false end.

End CbMgr.

Arguments vcfg : clear implicits.
Arguments cb_event : clear implicits.
Arguments cb_state : clear implicits.
Arguments invocation : clear implicits.
Arguments cb_out : clear implicits.
