(* PROOFS about the small-step system of Core/System.v: invariants proved by
   induction over arbitrary label sequences (all schedules). *)
From Coq Require Import List NArith Bool Lia.
From Dials Require Import Base.Outcome Core.CbMgr Core.Monitor Core.MonitorProofs Core.System.
Import ListNotations.
Open Scope N_scope.

Ltac bm H :=
  match type of H with
  | context [match ?x with _ => _ end] => let E := fresh "E" in destruct x eqn:E
  end.
Ltac inv_step H := repeat bm H; try discriminate H; try (injection H as H; subst).

Section Proofs.
Context {cfg sv : Type}.
Variable stack : list sv -> option cfg.
Variable verify : cfg -> bool.
Variable p : params.
Variable on_new on_err : bool.
Variable cbcap : N.

Notation sys := (sys cfg sv).
Notation label := (label sv).
Notation step := (@step cfg sv stack verify p on_new on_err cbcap).
Notation run := (@run cfg sv stack verify p on_new on_err cbcap).
Notation mon_act_step := (@mon_act_step cfg sv cbcap).
Notation mon_recv_step := (@mon_recv_step cfg sv stack verify p).
Notation api_start := (@api_start cfg sv verify p).
Notation api_act := (@api_act cfg sv cbcap).
Notation cb_take_step := (@cb_take_step cfg sv on_new on_err).

(* ---------- generic: invariants over all schedules ---------- *)

Lemma run_inv : forall (I : sys -> Prop),
  (forall s l s', I s -> step s l = Some s' -> I s') ->
  forall ls s s', I s -> run s ls = Some s' -> I s'.
Proof.
  intros I Hstep. induction ls as [|l r IH]; intros s s' Hi Hr; cbn in Hr.
  - inversion Hr; subst. exact Hi.
  - destruct (step s l) as [s1|] eqn:E; [|discriminate]. eapply IH; [|exact Hr]. eapply Hstep; eauto.
Qed.

Lemma run_app : forall a s b, run s (a ++ b) = match run s a with Some s1 => run s1 b | None => None end.
Proof.
  induction a as [|l a IH]; intros; cbn; [reflexivity|].
  destruct (step s l); [apply IH|reflexivity].
Qed.

(* ---------- what each kind of step leaves alone ---------- *)

(* the monitor's own part of the state: only monitor steps write it (single writer) *)
Definition mon_part (s : sys) := (s_mon s, s_done s, s_panic s, s_value s, s_replies s, s_eresps s).

Lemma finish_mon_part : forall (s : sys) tid t r, mon_part (finish s tid t r) = mon_part s.
Proof. reflexivity. Qed.

Lemma api_start_frame : forall s tid op s', api_start s tid op = Some s' -> mon_part s' = mon_part s /\ s_cb s' = s_cb s /\ s_cbq s' = s_cbq s /\ s_ctl s' = s_ctl s /\ s_main s' = s_main s /\ s_acks s' = s_acks s.
Proof.
  intros s tid op s' H. unfold System.api_start in H.
  destruct (lookup tid (s_thr s)); [discriminate|].
  destruct op; unfold start_enqueue in H; inv_step H; repeat split; reflexivity.
Qed.

Lemma api_act_frame : forall s tid arm s', api_act s tid arm = Some s' -> mon_part s' = mon_part s /\ s_cb s' = s_cb s /\ s_main s' = s_main s /\ s_acks s' = s_acks s.
Proof.
  intros s tid arm s' H. unfold System.api_act in H. inv_step H; repeat split; reflexivity.
Qed.

Lemma cancel_call_frame : forall (s : sys) tid s', cancel_call s tid = Some s' -> mon_part s' = mon_part s /\ s_cb s' = s_cb s /\ s_cbq s' = s_cbq s /\ s_ctl s' = s_ctl s /\ s_main s' = s_main s /\ s_acks s' = s_acks s.
Proof.
  intros s tid s' H. unfold cancel_call in H. inv_step H; repeat split; reflexivity.
Qed.

Lemma cb_take_frame : forall s s', cb_take_step s = Some s' -> mon_part s' = mon_part s /\ s_thr s' = s_thr s /\ s_ctl s' = s_ctl s /\ s_main s' = s_main s /\ s_acks s' = s_acks s.
Proof.
  intros s s' H. unfold System.cb_take_step in H. inv_step H; repeat split; reflexivity.
Qed.

Lemma cb_return_frame : forall (s : sys) s', cb_return_step s = Some s' -> mon_part s' = mon_part s /\ s_thr s' = s_thr s /\ s_ctl s' = s_ctl s /\ s_cbq s' = s_cbq s /\ s_main s' = s_main s /\ s_acks s' = s_acks s.
Proof.
  intros s s' H. unfold cb_return_step in H. inv_step H; repeat split; reflexivity.
Qed.

Lemma cb_ack_frame : forall (s : sys) s', cb_ack_step s = Some s' -> mon_part s' = mon_part s /\ s_thr s' = s_thr s /\ s_ctl s' = s_ctl s /\ s_cbq s' = s_cbq s /\ s_main s' = s_main s.
Proof.
  intros s s' H. unfold cb_ack_step in H. inv_step H; repeat split; reflexivity.
Qed.

(* every step that is not the monitor's leaves the monitor's part alone *)
Lemma non_monitor_frame : forall s l s',
  step s l = Some s' ->
  match l with LMonRecv _ | LMonAct _ => True | _ => mon_part s' = mon_part s end.
Proof.
  intros s l s' H. destruct l; cbn [System.step] in H; try exact I.
  - apply api_start_frame in H. tauto.
  - apply api_act_frame in H. tauto.
  - apply cb_take_frame in H. tauto.
  - apply cb_return_frame in H. tauto.
  - apply cb_ack_frame in H. tauto.
  - destruct (s_main s); [discriminate|]. inversion H. reflexivity.
  - apply cancel_call_frame in H. tauto.
Qed.

Lemma mon_part_eq : forall s s' : sys, mon_part s' = mon_part s ->
  s_mon s' = s_mon s /\ s_done s' = s_done s /\ s_panic s' = s_panic s /\ s_value s' = s_value s /\
  s_replies s' = s_replies s /\ s_eresps s' = s_eresps s.
Proof. unfold mon_part. intros s s' H. injection H; intros. repeat split; assumption. Qed.

(* ---------- C08: no reachable Panic state ---------- *)

Definition inv_done (s : sys) : Prop :=
  s_panic s = false /\ (s_done s = true -> s_mon s = MExited).

Lemma mon_take_fields : forall (s : sys) st i,
  let s' := mon_take stack verify p s st i in
  s_done s' = s_done s /\ s_panic s' = s_panic s /\ s_value s' = s_value s /\
  s_replies s' = s_replies s /\ s_eresps s' = s_eresps s /\ s_thr s' = s_thr s /\ s_cbq s' = s_cbq s /\
  s_ctl s' = s_ctl s /\ s_cb s' = s_cb s /\ s_main s' = s_main s /\
  exists st' pend, s_mon s' = MRun st' pend.
Proof.
  intros. subst s'. unfold mon_take.
  destruct (mon_recv stack verify p (s_value s) st i) as [st' acts].
  destruct (split_verifies acts) as [g pend]. cbn. repeat split; eauto.
Qed.

Lemma inv_done_step : forall s l s', inv_done s -> step s l = Some s' -> inv_done s'.
Proof.
  intros s l s' [Hp Hd] H.
  pose proof (non_monitor_frame s l s' H) as F.
  destruct l; try (apply mon_part_eq in F; destruct F as [F1 [F2 [F3 _]]]; unfold inv_done; rewrite F1, F2, F3; split; assumption).
  - (* LMonRecv *)
    cbn [System.step] in H. unfold System.mon_recv_step in H.
    destruct (s_mon s) as [|st pend|] eqn:Em; try discriminate H. destruct pend; [|discriminate H].
    assert (Hnd : s_done s = false).
    { destruct (s_done s) eqn:E; [|reflexivity]. specialize (Hd eq_refl). discriminate. }
    destruct src.
    + destruct (s_main s); [|discriminate]. inversion H; subst.
      destruct (mon_take_fields s st InCtxDone) as [A [B [_ [_ [_ [_ [_ [_ [_ [_ [st' [pd E]]]]]]]]]]]].
      split; [rewrite B; exact Hp|]. rewrite A, Hnd. discriminate.
    + destruct (s_ctl s) as [|rid rest]; [discriminate|]. inversion H; subst.
      destruct (mon_take_fields (with_ctl s rest) st (InEnable rid)) as [A [B _]].
      split; [rewrite B; exact Hp|]. rewrite A. cbn. rewrite Hnd. discriminate.
    + destruct (lookup tid (s_thr s)) as [t|]; [|discriminate].
      destruct (t_pc t); try discriminate. inversion H; subst.
      match goal with |- inv_done (mon_take _ _ _ ?s1 _ _) =>
        destruct (mon_take_fields s1 st (msg_in tid m)) as [A [B _]] end.
      split; [rewrite B|rewrite A]; destruct m as [? ? []| |]; cbn; try exact Hp; rewrite Hnd; discriminate.
  - (* LMonAct *)
    cbn [System.step] in H. unfold System.mon_act_step in H.
    destruct (s_mon s) as [|st pend|] eqn:Em; try discriminate H. destruct pend as [|a rest]; [discriminate H|].
    assert (Hnd : s_done s = false).
    { destruct (s_done s) eqn:E; [|reflexivity]. specialize (Hd eq_refl). discriminate. }
    destruct a; inv_step H; unfold inv_done; cbn; rewrite ?Hp, ?Hnd; split; try reflexivity; try discriminate; auto.
Qed.

Lemma init_inv_done : forall inits watching s0,
  snd (sys_init stack verify p inits watching) = Ok s0 -> inv_done s0.
Proof.
  intros inits watching s0 H. unfold sys_init in H. cbn [snd] in H.
  destruct (cr_out (config_init stack verify p inits watching)) as [[v st]| |]; try discriminate.
  inversion H; subst. split; [reflexivity|]. cbn. discriminate.
Qed.

Theorem no_panic_l : forall inits watching s0 ls s,
  snd (sys_init stack verify p inits watching) = Ok s0 -> run s0 ls = Some s -> s_panic s = false.
Proof.
  intros inits watching s0 ls s H0 Hr.
  apply (run_inv inv_done inv_done_step ls s0 s); [|exact Hr]. eapply init_inv_done; eauto.
Qed.

(* ---------- threads only move forward ---------- *)

Lemma lookup_update : forall {A} k k' (a : A) l,
  lookup k' (update k a l) = if k' =? k then Some a else lookup k' l.
Proof.
  induction l as [|[k0 a0] r IH]; cbn.
  - rewrite N.eqb_sym. reflexivity.
  - destruct (k0 =? k) eqn:E; cbn.
    + apply N.eqb_eq in E. subst. rewrite (N.eqb_sym k k'). destruct (k' =? k); reflexivity.
    + rewrite IH. destruct (k0 =? k') eqn:E2; [|reflexivity].
      apply N.eqb_eq in E2. subst. rewrite E. reflexivity.
Qed.

Definition not_offer (c : pc cfg sv) : bool := match c with POffer _ => false | _ => true end.
Definition not_ctlsend (c : pc cfg sv) : bool := match c with PCtlSend => false | _ => true end.

(* an API goroutine never goes back to offering on watcherChan or to sending on monCtl *)
Definition thr_mono (l l' : list (N * thread cfg sv)) : Prop :=
  forall tid t, lookup tid l = Some t ->
  exists t', lookup tid l' = Some t' /\
    (not_offer (t_pc t) = true -> not_offer (t_pc t') = true) /\
    (not_ctlsend (t_pc t) = true -> not_ctlsend (t_pc t') = true).

Lemma thr_mono_refl : forall l, thr_mono l l.
Proof. intros l tid t H. exists t. auto. Qed.

Lemma thr_mono_update : forall l tid x,
  (forall t, lookup tid l = Some t ->
     (not_offer (t_pc t) = true -> not_offer (t_pc x) = true) /\
     (not_ctlsend (t_pc t) = true -> not_ctlsend (t_pc x) = true)) ->
  thr_mono l (update tid x l).
Proof.
  intros l tid x H tid0 t Ht. rewrite lookup_update. destruct (tid0 =? tid) eqn:E.
  - apply N.eqb_eq in E. subst. exists x. split; [reflexivity|]. apply H. exact Ht.
  - exists t. auto.
Qed.

Lemma thr_mono_fresh : forall l tid x, lookup tid l = None -> thr_mono l (update tid x l).
Proof. intros. apply thr_mono_update. intros t Ht. congruence. Qed.

Lemma api_start_mono : forall s tid op s', api_start s tid op = Some s' -> thr_mono (s_thr s) (s_thr s').
Proof.
  intros s tid op s' H. unfold System.api_start in H.
  destruct (lookup tid (s_thr s)) eqn:El; [discriminate|].
  destruct op; unfold start_enqueue in H; inv_step H; cbn; apply thr_mono_fresh; exact El.
Qed.

Lemma api_act_mono : forall s tid arm s', api_act s tid arm = Some s' -> thr_mono (s_thr s) (s_thr s').
Proof.
  intros s tid arm s' H. unfold System.api_act in H.
  destruct (lookup tid (s_thr s)) as [t|] eqn:El; [|discriminate].
  destruct (t_pc t) eqn:Epc; inv_step H; cbn; apply thr_mono_update; intros t0 Ht0;
    rewrite El in Ht0; inversion Ht0; subst; rewrite Epc; cbn; auto.
Qed.

Lemma cancel_call_mono : forall (s : sys) tid s', cancel_call s tid = Some s' -> thr_mono (s_thr s) (s_thr s').
Proof.
  intros s tid s' H. unfold cancel_call in H.
  destruct (lookup tid (s_thr s)) as [t|] eqn:El; [|discriminate].
  destruct (t_cancel t); [discriminate|].
  destruct (t_pc t) eqn:Epc; inv_step H; cbn; apply thr_mono_update; intros t0 Ht0;
    rewrite El in Ht0; inversion Ht0; subst; rewrite ?Epc; cbn; auto.
Qed.

Lemma mon_recv_mono : forall s src s', mon_recv_step s src = Some s' -> thr_mono (s_thr s) (s_thr s').
Proof.
  intros s src s' H. unfold System.mon_recv_step in H.
  destruct (s_mon s) as [|st pend|]; try discriminate H. destruct pend; [|discriminate H].
  destruct src.
  - destruct (s_main s); [|discriminate]. inversion H; subst.
    destruct (mon_take_fields s st InCtxDone) as [_ [_ [_ [_ [_ [T _]]]]]]. rewrite T. apply thr_mono_refl.
  - destruct (s_ctl s) as [|rid rest]; [discriminate|]. inversion H; subst.
    destruct (mon_take_fields (with_ctl s rest) st (InEnable rid)) as [_ [_ [_ [_ [_ [T _]]]]]]. rewrite T. apply thr_mono_refl.
  - destruct (lookup tid (s_thr s)) as [t|] eqn:El; [|discriminate].
    destruct (t_pc t) eqn:Epc; try discriminate. inversion H; subst.
    match goal with |- thr_mono _ (s_thr (mon_take _ _ _ ?s1 _ _)) =>
      destruct (mon_take_fields s1 st (msg_in tid m)) as [_ [_ [_ [_ [_ [T _]]]]]] end.
    rewrite T. destruct m as [? ? []| |]; cbn; apply thr_mono_update; intros t0 Ht0;
      rewrite El in Ht0; inversion Ht0; subst; rewrite Epc; cbn; auto; discriminate.
Qed.

Lemma step_thr_mono : forall s l s', step s l = Some s' -> thr_mono (s_thr s) (s_thr s').
Proof.
  intros s l s' H. destruct l; cbn [System.step] in H.
  - eapply api_start_mono; eauto.
  - eapply api_act_mono; eauto.
  - eapply mon_recv_mono; eauto.
  - unfold System.mon_act_step in H. inv_step H; cbn; apply thr_mono_refl.
  - apply cb_take_frame in H. destruct H as [_ [T _]]. rewrite T. apply thr_mono_refl.
  - apply cb_return_frame in H. destruct H as [_ [T _]]. rewrite T. apply thr_mono_refl.
  - apply cb_ack_frame in H. destruct H as [_ [T _]]. rewrite T. apply thr_mono_refl.
  - destruct (s_main s); [discriminate|]. inversion H. apply thr_mono_refl.
  - eapply cancel_call_mono; eauto.
Qed.

(* ---------- reply channels are written once: the monitor never blocks ---------- *)

Notation mon_act := (mon_act cfg).

Definition reply_ids (pend : list mon_act) : list N :=
  flat_map (fun a => match a with AReply rid _ => [rid] | _ => [] end) pend.
Definition enable_ids (pend : list mon_act) : list N :=
  flat_map (fun a => match a with AEnableReply rid _ => [rid] | _ => [] end) pend.
Definition pend_of (s : sys) : list mon_act := match s_mon s with MRun _ pend => pend | _ => [] end.

Definition has_pc (f : pc cfg sv -> bool) (thr : list (N * thread cfg sv)) (tid : N) : Prop :=
  exists t, lookup tid thr = Some t /\ f (t_pc t) = true.

Lemma has_pc_mono_offer : forall l l' tid, thr_mono l l' -> has_pc not_offer l tid -> has_pc not_offer l' tid.
Proof. intros l l' tid M [t [H1 H2]]. destruct (M tid t H1) as [t' [A [B _]]]. exists t'. auto. Qed.
Lemma has_pc_mono_ctl : forall l l' tid, thr_mono l l' -> has_pc not_ctlsend l tid -> has_pc not_ctlsend l' tid.
Proof. intros l l' tid M [t [H1 H2]]. destruct (M tid t H1) as [t' [A [_ B]]]. exists t'. auto. Qed.

Record inv_chan (s : sys) : Prop := mkInvChan {
  ic_nodup_r : NoDup (reply_ids (pend_of s));
  ic_fresh_r : forall rid, In rid (reply_ids (pend_of s)) -> lookup rid (s_replies s) = None;
  ic_thr_r : forall rid, In rid (reply_ids (pend_of s)) \/ lookup rid (s_replies s) <> None ->
             has_pc not_offer (s_thr s) rid;
  ic_nodup_e : NoDup (s_ctl s ++ enable_ids (pend_of s));
  ic_fresh_e : forall rid, In rid (s_ctl s ++ enable_ids (pend_of s)) -> lookup rid (s_eresps s) = None;
  ic_thr_e : forall rid, In rid (s_ctl s ++ enable_ids (pend_of s)) \/ lookup rid (s_eresps s) <> None ->
             has_pc not_ctlsend (s_thr s) rid
}.

Notation splitv := (@split_verifies cfg sv).

Lemma split_verifies_ids : forall acts : list mon_act,
  reply_ids (snd (splitv acts)) = reply_ids acts /\
  enable_ids (snd (splitv acts)) = enable_ids acts.
Proof.
  induction acts as [|a r IH]; [split; reflexivity|].
  destruct a; try (split; reflexivity).
  cbn [System.split_verifies]. destruct (splitv r) as [g r'] eqn:E. cbn [snd] in *. exact IH.
Qed.

Lemma recv_ids : forall cur st (i : mon_in sv),
  let acts := snd (mon_recv stack verify p cur st i) in
  reply_ids acts = match i with InUpdate _ _ (Some r) => [r] | _ => [] end /\
  enable_ids acts = match i with InEnable r => [r] | _ => [] end.
Proof.
  intros. subst acts. destruct i as [src x rid|src|src|rid|]; cbn [mon_recv].
  - destruct (stack _) as [c|]; [destruct (m_skip st); [|destruct (verify c)]|]; destruct rid; split; reflexivity.
  - destruct (src_err_delivered p (m_skip st)); split; reflexivity.
  - cbn [snd]. destruct (existsb _ _); split; reflexivity.
  - destruct (m_skip st); [destruct (verify (snd cur))|]; split; reflexivity.
  - split; reflexivity.
Qed.

Lemma mon_take_mon : forall (s : sys) st i,
  s_mon (mon_take stack verify p s st i) =
  MRun (fst (mon_recv stack verify p (s_value s) st i))
       (snd (splitv (snd (mon_recv stack verify p (s_value s) st i)))).
Proof.
  intros. unfold mon_take. destruct (mon_recv stack verify p (s_value s) st i) as [st' acts].
  cbn [fst snd]. destruct (splitv acts) as [g pend]. reflexivity.
Qed.

Lemma mon_take_pend_ids : forall (s : sys) st i,
  reply_ids (pend_of (mon_take stack verify p s st i)) = match i with InUpdate _ _ (Some r) => [r] | _ => [] end /\
  enable_ids (pend_of (mon_take stack verify p s st i)) = match i with InEnable r => [r] | _ => [] end.
Proof.
  intros. unfold pend_of. rewrite mon_take_mon.
  destruct (split_verifies_ids (snd (mon_recv stack verify p (s_value s) st i))) as [A B].
  destruct (recv_ids (s_value s) st i) as [C D]. cbn zeta in C, D. rewrite A, B. auto.
Qed.

(* what an API step does to monCtl *)
Lemma api_act_ctl : forall s tid arm s', api_act s tid arm = Some s' ->
  s_ctl s' = s_ctl s \/
  (s_ctl s' = s_ctl s ++ [tid] /\ (exists t, lookup tid (s_thr s) = Some t /\ t_pc t = PCtlSend) /\
   has_pc not_ctlsend (s_thr s') tid).
Proof.
  intros s tid arm s' H. unfold System.api_act in H.
  destruct (lookup tid (s_thr s)) as [t|] eqn:El; [|discriminate].
  destruct (t_pc t) eqn:Epc; inv_step H; try (left; reflexivity).
  right. cbn. split; [reflexivity|]. split; [exists t; auto|].
  eexists. rewrite lookup_update, N.eqb_refl. split; reflexivity.
Qed.

Lemma not_both_ctl : forall thr tid t, lookup tid thr = Some t -> t_pc t = PCtlSend -> ~ has_pc not_ctlsend thr tid.
Proof. intros thr tid t H1 H2 [t' [H3 H4]]. rewrite H1 in H3. inversion H3; subst. rewrite H2 in H4. discriminate. Qed.
Lemma not_both_offer : forall thr tid t m, lookup tid thr = Some t -> t_pc t = POffer m -> ~ has_pc not_offer thr tid.
Proof. intros thr tid t m H1 H2 [t' [H3 H4]]. rewrite H1 in H3. inversion H3; subst. rewrite H2 in H4. discriminate. Qed.

Lemma nodup_insert_mid : forall (a : N) l1 l2, NoDup (l1 ++ l2) -> ~ In a (l1 ++ l2) -> NoDup (l1 ++ a :: l2).
Proof.
  induction l1 as [|x l1 IH]; cbn; intros l2 Hn Hi.
  - constructor; assumption.
  - inversion Hn; subst. constructor.
    + intros Hin. apply in_app_or in Hin. destruct Hin as [Hin|[Hin|Hin]].
      * apply H1. apply in_or_app. auto.
      * subst. apply Hi. left. reflexivity.
      * apply H1. apply in_or_app. auto.
    + apply IH; [assumption|]. intros Hin. apply Hi. right. exact Hin.
Qed.

Lemma inv_chan_frame : forall s s',
  inv_chan s -> thr_mono (s_thr s) (s_thr s') -> mon_part s' = mon_part s -> s_ctl s' = s_ctl s -> inv_chan s'.
Proof.
  intros s s' I M F C. apply mon_part_eq in F. destruct F as [F1 [_ [_ [_ [F5 F6]]]]].
  assert (P : pend_of s' = pend_of s) by (unfold pend_of; rewrite F1; reflexivity).
  destruct I as [a b c d e f]. constructor; rewrite ?P, ?F5, ?F6, ?C; auto.
  - intros rid H. eapply has_pc_mono_offer; eauto.
  - intros rid H. eapply has_pc_mono_ctl; eauto.
Qed.

Lemma lookup_update_none : forall {A} k k' (a : A) l, lookup k' (update k a l) = None -> lookup k' l = None /\ k' <> k.
Proof.
  intros A k k' a l H. rewrite lookup_update in H. destruct (k' =? k) eqn:E; [discriminate|].
  apply N.eqb_neq in E. auto.
Qed.

Lemma nodup_app_r : forall (l1 l2 : list N), NoDup (l1 ++ l2) -> NoDup l2.
Proof. induction l1; cbn; intros; [assumption|]. inversion H; subst. auto. Qed.

Lemma nodup_mid_r : forall (l0 l1 l2 : list N), NoDup (l0 ++ l1 ++ l2) -> NoDup (l0 ++ l2).
Proof.
  induction l0 as [|x l0 IH]; cbn; intros l1 l2 H.
  - eapply nodup_app_r; eauto.
  - inversion H; subst. constructor; [|eauto].
    intros Hin. apply H2. apply in_app_or in Hin. apply in_or_app. destruct Hin; [left|right; apply in_or_app; right]; assumption.
Qed.

(* the monitor drops a prefix of its pending actions without touching a channel *)
Lemma inv_chan_sub : forall (s s' : sys) r0 e0,
  inv_chan s -> s_thr s' = s_thr s -> s_ctl s' = s_ctl s ->
  s_replies s' = s_replies s -> s_eresps s' = s_eresps s ->
  reply_ids (pend_of s) = r0 ++ reply_ids (pend_of s') ->
  enable_ids (pend_of s) = e0 ++ enable_ids (pend_of s') ->
  inv_chan s'.
Proof.
  intros s s' r0 e0 [a b c d e f] T C R E Pr Pe.
  rewrite Pr in *. rewrite Pe in *.
  constructor; rewrite ?T, ?C, ?R, ?E.
  - eapply nodup_app_r; eauto.
  - intros rid H. apply b. apply in_or_app. auto.
  - intros rid [H|H]; apply c; [left; apply in_or_app|]; auto.
  - eapply nodup_mid_r; eauto.
  - intros rid H. apply e. apply in_app_or in H. apply in_or_app. destruct H; [left|right; apply in_or_app; right]; assumption.
  - intros rid [H|H]; apply f; [left|]; auto.
    apply in_app_or in H. apply in_or_app. destruct H; [left|right; apply in_or_app; right]; assumption.
Qed.

Lemma inv_chan_step : forall s l s', inv_chan s -> step s l = Some s' -> inv_chan s'.
Proof.
  intros s l s' I H.
  pose proof (step_thr_mono s l s' H) as M.
  pose proof (non_monitor_frame s l s' H) as F.
  destruct l; cbn [System.step] in H.
  - (* LApiStart *) apply api_start_frame in H. eapply inv_chan_frame; eauto. tauto.
  - (* LApiAct *)
    destruct (api_act_ctl s tid arm s' H) as [C|[C [[t [Ht Hpc]] Hnew]]]; [eapply inv_chan_frame; eauto|].
    apply mon_part_eq in F. destruct F as [F1 [_ [_ [_ [F5 F6]]]]].
    assert (P : pend_of s' = pend_of s) by (unfold pend_of; rewrite F1; reflexivity).
    destruct I as [a b c d e f].
    assert (Hfresh : ~ In tid (s_ctl s ++ enable_ids (pend_of s)) /\ lookup tid (s_eresps s) = None).
    { split.
      - intros Hin. eapply not_both_ctl; eauto.
      - destruct (lookup tid (s_eresps s)) eqn:E; [|reflexivity]. exfalso.
        eapply not_both_ctl; eauto. apply f. right. congruence. }
    destruct Hfresh as [Hf1 Hf2].
    constructor; rewrite ?P, ?F5, ?F6, ?C; auto.
    + intros rid Hr. eapply has_pc_mono_offer; eauto.
    + rewrite <- app_assoc. apply nodup_insert_mid; assumption.
    + intros rid Hr. rewrite <- app_assoc in Hr. apply in_app_or in Hr. destruct Hr as [Hr|Hr].
      * apply e. apply in_or_app. auto.
      * destruct Hr as [Hr|Hr]; [subst; exact Hf2|]. apply e. apply in_or_app. auto.
    + intros rid [Hr|Hr].
      * rewrite <- app_assoc in Hr. apply in_app_or in Hr. destruct Hr as [Hr|[Hr|Hr]].
        -- eapply has_pc_mono_ctl; eauto. apply f. left. apply in_or_app. auto.
        -- subst. exact Hnew.
        -- eapply has_pc_mono_ctl; eauto. apply f. left. apply in_or_app. auto.
      * eapply has_pc_mono_ctl; eauto.
  - (* LMonRecv *)
    unfold System.mon_recv_step in H.
    destruct (s_mon s) as [|st pend|] eqn:Em; try discriminate H. destruct pend; [|discriminate H].
    assert (P0 : pend_of s = []) by (unfold pend_of; rewrite Em; reflexivity).
    destruct I as [a b c d e f]. rewrite P0 in *. cbn [reply_ids enable_ids flat_map] in *. rewrite app_nil_r in *.
    destruct src.
    + destruct (s_main s); [|discriminate]. inversion H; subst. clear H.
      destruct (mon_take_pend_ids s st InCtxDone) as [R E].
      destruct (mon_take_fields s st InCtxDone) as [_ [_ [_ [Fr [Fe [Ft [_ [Fc _]]]]]]]].
      constructor; rewrite ?R, ?E, ?Fr, ?Fe, ?Ft, ?Fc, ?app_nil_r.
      * constructor.
      * intros r [].
      * intros r [[]|Hr]. apply c. auto.
      * exact d.
      * exact e.
      * exact f.
    + destruct (s_ctl s) as [|rid rest] eqn:Ec; [discriminate|]. inversion H; subst. clear H.
      destruct (mon_take_pend_ids (with_ctl s rest) st (InEnable rid)) as [R E].
      destruct (mon_take_fields (with_ctl s rest) st (InEnable rid)) as [_ [_ [_ [Fr [Fe [Ft [_ [Fc _]]]]]]]].
      cbn in Fr, Fe, Ft, Fc.
      assert (Hperm : forall x, In x (rest ++ [rid]) <-> In x (rid :: rest)).
      { intros x. rewrite in_app_iff. cbn. tauto. }
      constructor; rewrite ?R, ?E, ?Fr, ?Fe, ?Ft, ?Fc.
      * constructor.
      * intros r [].
      * intros r [[]|Hr]. apply c. auto.
      * inversion d; subst. apply nodup_insert_mid; rewrite app_nil_r; assumption.
      * intros r Hr. apply e. apply Hperm. exact Hr.
      * intros r [Hr|Hr]; [apply f; left; apply Hperm; exact Hr|apply f; auto].
    + destruct (lookup tid (s_thr s)) as [t|] eqn:El; [|discriminate].
      destruct (t_pc t) eqn:Epc; try discriminate. inversion H; subst. clear H.
      match goal with |- inv_chan (mon_take _ _ _ ?s1 _ _) => set (s1' := s1) in * end.
      destruct (mon_take_pend_ids s1' st (msg_in tid m)) as [R E].
      destruct (mon_take_fields s1' st (msg_in tid m)) as [_ [_ [_ [Fr [Fe [Ft [_ [Fc _]]]]]]]].
      assert (S1 : s_replies s1' = s_replies s /\ s_eresps s1' = s_eresps s /\ s_ctl s1' = s_ctl s).
      { subst s1'. destruct m as [? ? []| |]; repeat split; reflexivity. }
      destruct S1 as [S1 [S2 S3]].
      assert (Hnr : lookup tid (s_replies s) = None).
      { destruct (lookup tid (s_replies s)) eqn:E1; [|reflexivity]. exfalso.
        eapply not_both_offer; eauto. apply c. right. congruence. }
      assert (Ee : enable_ids (pend_of (mon_take stack verify p s1' st (msg_in tid m))) = []).
      { rewrite E. destruct m; reflexivity. }
      assert (Rr : forall r, In r (reply_ids (pend_of (mon_take stack verify p s1' st (msg_in tid m)))) ->
                   r = tid /\ has_pc not_offer (s_thr s1') tid).
      { intros r Hr. rewrite R in Hr. destruct m as [? ? []| |]; cbn in Hr; try contradiction.
        destruct Hr as [Hr|[]]. subst r. split; [reflexivity|].
        subst s1'. cbn. eexists. rewrite lookup_update, N.eqb_refl. split; reflexivity. }
      constructor; rewrite ?Ee, ?Fr, ?Fe, ?Ft, ?Fc, ?S1, ?S2, ?S3, ?app_nil_r.
      * rewrite R. destruct m as [? ? []| |]; cbn; repeat constructor; auto.
      * intros r Hr. destruct (Rr r Hr) as [-> _]. exact Hnr.
      * intros r [Hr|Hr].
        -- destruct (Rr r Hr) as [-> Hp]. exact Hp.
        -- rewrite <- Ft. eapply has_pc_mono_offer; [exact M|]. apply c. auto.
      * exact d.
      * exact e.
      * intros r Hr. rewrite <- Ft. eapply has_pc_mono_ctl; [exact M|]. apply f. exact Hr.
  - (* LMonAct *)
    unfold System.mon_act_step in H.
    destruct (s_mon s) as [|st pend|] eqn:Em; try discriminate H. destruct pend as [|x rest]; [discriminate H|].
    assert (P0 : pend_of s = x :: rest) by (unfold pend_of; rewrite Em; reflexivity).
    destruct x as [c0 b0|v|v|rid r|ev|rid r|].
    + inv_step H. eapply (inv_chan_sub s _ [] []); eauto; rewrite P0; reflexivity.
    + inv_step H. eapply (inv_chan_sub s _ [] []); eauto; rewrite P0; reflexivity.
    + inv_step H; eapply (inv_chan_sub s _ [] []); eauto; rewrite P0; reflexivity.
    + (* AReply *)
      inv_step H. destruct I as [a b c d e f]. rewrite P0 in *.
      cbn [reply_ids enable_ids flat_map app] in *. fold (reply_ids rest) in *. fold (enable_ids rest) in *.
      constructor; cbn [pend_of s_mon s_replies s_eresps s_thr s_ctl logged with_replies with_mon]; auto.
      * inversion a; subst; assumption.
      * intros rid0 Hr. rewrite lookup_update. inversion a; subst.
        destruct (rid0 =? rid) eqn:E1; [apply N.eqb_eq in E1; subst; contradiction|]. apply b. right. exact Hr.
      * intros rid0 [Hr|Hr]; [apply c; left; right; exact Hr|].
        rewrite lookup_update in Hr. destruct (rid0 =? rid) eqn:E1.
        -- apply N.eqb_eq in E1. subst. apply c. left. left. reflexivity.
        -- apply c. right. exact Hr.
    + inv_step H; eapply (inv_chan_sub s _ [] []); eauto; rewrite P0; reflexivity.
    + (* AEnableReply *)
      inv_step H. destruct I as [a b c d e f]. rewrite P0 in *.
      cbn [reply_ids enable_ids flat_map app] in *. fold (reply_ids rest) in *. fold (enable_ids rest) in *.
      constructor; cbn [pend_of s_mon s_replies s_eresps s_thr s_ctl logged with_eresps with_mon]; auto.
      * apply NoDup_remove_1 in d. exact d.
      * intros rid0 Hr. rewrite lookup_update.
        destruct (rid0 =? rid) eqn:E1.
        -- apply N.eqb_eq in E1. subst. apply NoDup_remove_2 in d. contradiction.
        -- apply e. apply in_app_or in Hr. apply in_or_app. destruct Hr; [left|right; right]; assumption.
      * intros rid0 [Hr|Hr].
        -- apply f. left. apply in_app_or in Hr. apply in_or_app. destruct Hr; [left|right; right]; assumption.
        -- rewrite lookup_update in Hr. destruct (rid0 =? rid) eqn:E1.
           ++ apply N.eqb_eq in E1. subst. apply f. left. apply in_or_app. right. left. reflexivity.
           ++ apply f. right. exact Hr.
    + (* AExit *)
      inv_step H. eapply (inv_chan_sub s _ (reply_ids rest) (enable_ids rest)); eauto; rewrite P0; cbn; rewrite app_nil_r; reflexivity.
  - (* LCbTake *) apply cb_take_frame in H. eapply inv_chan_frame; eauto. tauto.
  - apply cb_return_frame in H. eapply inv_chan_frame; eauto. tauto.
  - apply cb_ack_frame in H. eapply inv_chan_frame; eauto. tauto.
  - destruct (s_main s); [discriminate|]. inversion H; subst. eapply inv_chan_frame; eauto.
  - apply cancel_call_frame in H. eapply inv_chan_frame; eauto. tauto.
Qed.

Lemma init_inv_chan : forall inits watching s0,
  snd (sys_init stack verify p inits watching) = Ok s0 -> inv_chan s0.
Proof.
  intros inits watching s0 H. unfold sys_init in H. cbn [snd] in H.
  destruct (cr_out (config_init stack verify p inits watching)) as [[v st]| |]; try discriminate.
  inversion H; subst. clear H.
  assert (P : pend_of (mkSys v None (if existsb (fun b => b) watching then MRun st [] else MNone) [] [] false
                (if existsb (fun b => b) watching then CRun cb_init [] else CNone) [] false [] [] [] [] false
                (map (fun cb => GVerify (fst cb) (snd cb)) (cr_verify_log (config_init stack verify p inits watching)))) = []).
  { unfold pend_of. cbn. destruct (existsb _ watching); reflexivity. }
  constructor; rewrite P; cbn.
  - constructor.
  - intros ? [].
  - intros rid [[]|Hc]. exfalso. apply Hc. reflexivity.
  - constructor.
  - intros ? [].
  - intros rid [[]|Hc]. exfalso. apply Hc. reflexivity.
Qed.

(* C07 monitor_never_blocks_on_reply / C08 monitor_independent_of_callbacks:
   in every reachable state in which the monitor has something left to do, its
   next action can be taken at once - whatever the callback goroutine, the
   callbacks or the API callers are doing, and also when the caller it answers
   has long gone: Store always, the try-sends with one of their two arms, the
   replies because their channels have capacity 1 and are written once. *)
Theorem monitor_always_enabled_l : forall inits watching s0 ls s st a rest,
  snd (sys_init stack verify p inits watching) = Ok s0 -> run s0 ls = Some s ->
  s_mon s = MRun st (a :: rest) ->
  exists drop s', mon_act_step s drop = Some s'.
Proof.
  intros inits watching s0 ls s st a rest H0 Hr Hm.
  assert (I : inv_chan s).
  { apply (run_inv inv_chan inv_chan_step ls s0 s); [|exact Hr]. eapply init_inv_chan; eauto. }
  destruct I as [ia ib ic id ie if_].
  assert (P0 : pend_of s = a :: rest) by (unfold pend_of; rewrite Hm; reflexivity).
  rewrite P0 in *. unfold System.mon_act_step. rewrite Hm.
  destruct a as [c0 b0|v|v|rid r|ev|rid r|].
  - exists false. eexists. reflexivity.
  - exists false. eexists. reflexivity.
  - destruct (s_updates s); [exists true|exists false]; eexists; reflexivity.
  - exists false. rewrite (ib rid) by (left; reflexivity). eexists. reflexivity.
  - destruct (has_room cbcap s) eqn:E.
    + exists false. eexists. reflexivity.
    + exists true. rewrite orb_true_r. eexists. reflexivity.
  - exists false. rewrite (ie rid) by (apply in_or_app; right; left; reflexivity). eexists. reflexivity.
  - exists false. eexists. reflexivity.
Qed.

(* hence with the callback goroutine stuck for ever (no callback step is ever
   taken again) every pending action of the monitor still completes: after at
   most |pending| monitor steps it is back at its select *)
Theorem monitor_drains_without_callbacks_l : forall inits watching s0 ls s,
  snd (sys_init stack verify p inits watching) = Ok s0 -> run s0 ls = Some s ->
  exists ms s', Forall (fun l => match l with LMonAct _ => True | _ => False end) ms /\
    run s ms = Some s' /\ pend_of s' = [] /\ (length ms <= length (pend_of s))%nat.
Proof.
  intros inits watching s0 ls s H0 Hr.
  assert (G : forall n ls s, run s0 ls = Some s -> (length (pend_of s) <= n)%nat ->
    exists ms s', Forall (fun l => match l with LMonAct _ => True | _ => False end) ms /\
      run s ms = Some s' /\ pend_of s' = [] /\ (length ms <= length (pend_of s))%nat).
  { clear ls s Hr. induction n as [|n IH]; intros ls s Hr Hn.
    - exists [], s. repeat split; auto; [|cbn; lia]. destruct (pend_of s); [reflexivity|cbn in Hn; lia].
    - destruct (pend_of s) as [|a0 rest0] eqn:Ep.
      + exists [], s. repeat split; auto.
      + unfold pend_of in Ep. destruct (s_mon s) as [|st pend|] eqn:Em; try discriminate. subst pend.
        destruct (monitor_always_enabled_l inits watching s0 ls s st a0 rest0 H0 Hr Em) as [drop [s1 Hs1]].
        assert (Hp1 : (length (pend_of s1) <= length rest0)%nat).
        { unfold System.mon_act_step in Hs1. rewrite Em in Hs1.
          destruct a0; inv_step Hs1; unfold pend_of; cbn; lia. }
        assert (Hr1 : run s0 (ls ++ [LMonAct drop]) = Some s1).
        { rewrite run_app, Hr. cbn. rewrite Hs1. reflexivity. }
        cbn in Hn.
        destruct (IH (ls ++ [LMonAct drop]) s1 Hr1) as [ms [s' [Hf [Hrun [Hpe Hlen]]]]]; [lia|].
        exists (LMonAct drop :: ms), s'. repeat split; auto.
        * cbn. rewrite Hs1. exact Hrun.
        * cbn. lia. }
  eapply G; eauto.
Qed.

(* ---------- the monitor of the system refines the sequential monitor ---------- *)

Notation gevent := (gevent cfg sv).
Notation vcfg := (vcfg cfg).
Notation trace := (@trace cfg sv stack verify p).
Notation final_st := (@final_st cfg sv stack verify p).
Notation final_cur := (@final_cur cfg sv stack verify p).

(* what the monitor has done so far, and what it has received, read off the ghost history *)
Definition mon_hist (log : list gevent) : list mon_act :=
  flat_map (fun g => match g with GVerify c b => [AVerify c b] | GAct a _ => [a] | _ => [] end) log.
Definition recvs (log : list gevent) : list (mon_in sv) :=
  flat_map (fun g => match g with GRecv i => [i] | _ => [] end) log.

Lemma mon_hist_app : forall a b, mon_hist (a ++ b) = mon_hist a ++ mon_hist b.
Proof. intros. apply flat_map_app. Qed.
Lemma recvs_app : forall a b, recvs (a ++ b) = recvs a ++ recvs b.
Proof. intros. apply flat_map_app. Qed.

Lemma recvs_cons_recv : forall i l, recvs (GRecv i :: l) = i :: recvs l.
Proof. reflexivity. Qed.
Lemma mon_hist_cons_recv : forall i l, mon_hist (GRecv i :: l) = mon_hist l.
Proof. reflexivity. Qed.

Lemma splitv_spec : forall acts : list mon_act,
  mon_hist (fst (splitv acts)) ++ snd (splitv acts) = acts /\
  recvs (fst (splitv acts)) = [] /\
  (forall cur : vcfg, cur_after cur (mon_hist (fst (splitv acts))) = cur).
Proof.
  induction acts as [|a r IH]; [repeat split; reflexivity|].
  destruct a; try (repeat split; reflexivity).
  cbn [System.split_verifies]. destruct (splitv r) as [g r'] eqn:E. cbn [fst snd] in *.
  destruct IH as [A [B C]]. repeat split.
  - cbn. f_equal. exact A.
  - exact B.
  - intros cur. cbn. apply C.
Qed.

Lemma mon_take_log : forall (s : sys) st i,
  s_log (mon_take stack verify p s st i) =
  s_log s ++ GRecv i :: fst (splitv (snd (mon_recv stack verify p (s_value s) st i))).
Proof.
  intros. unfold mon_take. destruct (mon_recv stack verify p (s_value s) st i) as [st' acts].
  cbn [fst snd]. destruct (splitv acts) as [g pend]. reflexivity.
Qed.

Lemma cb_enter_hist : forall l : list (cb_out cfg), mon_hist (cb_enter l) = [] /\ recvs (cb_enter l) = [].
Proof. intros [|[]]; split; reflexivity. Qed.

Definition only_verifies (l : list mon_act) : Prop := forall a, In a l -> exists c b, a = AVerify c b.

Lemma only_verifies_nil : forall es : list gevent, mon_hist es = [] -> only_verifies (mon_hist es).
Proof. intros es H a Ha. rewrite H in Ha. destruct Ha. Qed.
Lemma only_verifies_app : forall a b, only_verifies a -> only_verifies b -> only_verifies (a ++ b).
Proof. intros a b Ha Hb x Hx. apply in_app_or in Hx. destruct Hx; auto. Qed.
Lemma only_verifies_no_store : forall l, only_verifies l -> stores_of l = [].
Proof.
  induction l as [|a r IH]; intros H; [reflexivity|].
  destruct (H a (or_introl eq_refl)) as [c [b ->]]. cbn. apply IH. intros x Hx. apply H. right. exact Hx.
Qed.
Lemma only_verifies_no_reply : forall l j rid r, only_verifies l -> nth_error l j <> Some (AReply rid r).
Proof.
  intros l j rid r H Hx. apply nth_error_In in Hx. destruct (H _ Hx) as [c [b E]]. discriminate.
Qed.

Lemma verifs_hist : forall vl : list (cfg * bool),
  only_verifies (mon_hist (map (fun cb => GVerify (fst cb) (snd cb)) vl)) /\
  recvs (map (fun cb => GVerify (fst cb) (snd cb)) vl) = [].
Proof.
  induction vl as [|x r [A B]]; [split; [intros a []|reflexivity]|]. cbn. split; [|exact B].
  intros a [<-|Ha]; [eauto|apply A; exact Ha].
Qed.

Lemma enter_nostore : forall (x : gevent) (l : list (cb_out cfg)), mon_hist [x] = [] -> recvs [x] = [] ->
  only_verifies (mon_hist (x :: cb_enter l)) /\ recvs (x :: cb_enter l) = [].
Proof.
  intros x l H1 H2. change (x :: cb_enter l) with ([x] ++ cb_enter l).
  rewrite mon_hist_app, recvs_app, H1, H2. destruct (cb_enter_hist l) as [A B]. rewrite A, B.
  split; [intros a []|reflexivity].
Qed.

Ltac log_ext := first [ cbn; rewrite <- ?app_assoc; reflexivity | cbn; symmetry; apply app_nil_r ].

(* steps of other goroutines add nothing to the monitor's history *)
Lemma step_log_nonmon : forall s l s', step s l = Some s' -> s_mon s <> MNone ->
  match l with
  | LMonRecv _ | LMonAct _ => True
  | _ => exists es, s_log s' = s_log s ++ es /\ mon_hist es = [] /\ recvs es = []
  end.
Proof.
  intros s l s' H Hm. destruct l; cbn [System.step] in H; try exact I.
  - unfold System.api_start in H. destruct (lookup tid (s_thr s)); [discriminate|].
    destruct op; unfold start_enqueue in H; inv_step H; try contradiction;
      (eexists; split; [log_ext|split; reflexivity]).
  - unfold System.api_act in H. inv_step H;
      (eexists; split; [log_ext|split; reflexivity]).
  - unfold System.cb_take_step in H. inv_step H; (eexists; split; [log_ext|]); cbn;
      try (split; reflexivity); apply cb_enter_hist.
  - unfold cb_return_step in H. inv_step H. eexists; split; [log_ext|]. cbn. apply cb_enter_hist.
  - unfold cb_ack_step in H. inv_step H. eexists; split; [log_ext|]. cbn. apply cb_enter_hist.
  - destruct (s_main s); [discriminate|]. inversion H. eexists. split; [reflexivity|split; reflexivity].
  - unfold cancel_call in H. inv_step H;
      (eexists; split; [log_ext|split; reflexivity]).
Qed.

Definition inv_ref (cur0 : vcfg) (st0 : mon_state sv) (log0 : list gevent) (s : sys) : Prop :=
  exists rest, s_log s = log0 ++ rest /\
  match s_mon s with
  | MNone => s_value s = cur0 /\ only_verifies (mon_hist rest) /\ recvs rest = []
  | MRun st pend =>
      mon_hist rest ++ pend = trace cur0 st0 (recvs rest) /\
      st = final_st cur0 st0 (recvs rest) /\
      s_value s = cur_after cur0 (mon_hist rest)
  | MExited =>
      (exists tl, mon_hist rest ++ tl = trace cur0 st0 (recvs rest)) /\
      s_value s = cur_after cur0 (mon_hist rest)
  end.

Lemma trace_snoc : forall cur st ins i,
  trace cur st (ins ++ [i]) = trace cur st ins ++ snd (mon_recv stack verify p (final_cur cur st ins) (final_st cur st ins) i).
Proof. intros. rewrite trace_app, trace_cons. cbn. rewrite app_nil_r. reflexivity. Qed.

Lemma final_st_snoc : forall cur st ins i,
  final_st cur st (ins ++ [i]) = fst (mon_recv stack verify p (final_cur cur st ins) (final_st cur st ins) i).
Proof. intros. rewrite final_st_app, final_st_cons. reflexivity. Qed.

(* the receive step, given that the state it starts from satisfies the invariant *)
Lemma inv_ref_take : forall cur0 st0 log0 (s s1 : sys) st i es,
  inv_ref cur0 st0 log0 s -> s_mon s = MRun st [] ->
  s_mon s1 = s_mon s -> s_value s1 = s_value s -> s_log s1 = s_log s ++ es -> mon_hist es = [] -> recvs es = [] ->
  inv_ref cur0 st0 log0 (mon_take stack verify p s1 st i).
Proof.
  intros cur0 st0 log0 s s1 st i es [rest [Hl Hm]] Em M1 V1 L1 He Hr.
  rewrite Em in Hm. destruct Hm as [Ht [Hst Hv]]. rewrite app_nil_r in Ht.
  exists (rest ++ es ++ GRecv i :: fst (splitv (snd (mon_recv stack verify p (s_value s1) st i)))).
  split.
  - rewrite mon_take_log, L1, Hl, <- !app_assoc. reflexivity.
  - rewrite mon_take_mon.
    set (acts := snd (mon_recv stack verify p (s_value s1) st i)).
    destruct (splitv_spec acts) as [A [B C]].
    assert (Hrec : recvs (rest ++ es ++ GRecv i :: fst (splitv acts)) = recvs rest ++ [i]).
    { rewrite !recvs_app, Hr, recvs_cons_recv, B. reflexivity. }
    assert (Hh : mon_hist (rest ++ es ++ GRecv i :: fst (splitv acts)) = mon_hist rest ++ mon_hist (fst (splitv acts))).
    { rewrite !mon_hist_app, He, mon_hist_cons_recv. reflexivity. }
    assert (Hcur : s_value s1 = final_cur cur0 st0 (recvs rest)).
    { rewrite V1, Hv, Ht, final_cur_is_cur_after. reflexivity. }
    rewrite Hrec, Hh. repeat split.
    + rewrite trace_snoc, <- app_assoc, A, Ht. subst acts. rewrite Hcur, Hst. reflexivity.
    + rewrite final_st_snoc, Hcur, Hst. reflexivity.
    + destruct (mon_take_fields s1 st i) as [_ [_ [Vt _]]]. rewrite Vt, V1, Hv, cur_after_app, C. reflexivity.
Qed.

Lemma cur_after_snoc : forall (cur : vcfg) l a,
  cur_after cur (l ++ [a]) = match a with AStore v => v | _ => cur_after cur l end.
Proof. intros. rewrite cur_after_app. destruct a; reflexivity. Qed.

Lemma inv_ref_step : forall cur0 st0 log0 s l s',
  inv_ref cur0 st0 log0 s -> step s l = Some s' -> inv_ref cur0 st0 log0 s'.
Proof.
  intros cur0 st0 log0 s l s' I H.
  destruct (s_mon s) as [|st pend|] eqn:Em.
  - (* no monitor: it never appears, the value never changes *)
    destruct I as [rest [Hl Hm]]. rewrite Em in Hm. destruct Hm as [Hv [Hs Hrc]].
    pose proof (non_monitor_frame s l s' H) as F.
    assert (Hlog : exists es, s_log s' = s_log s ++ es /\ only_verifies (mon_hist es) /\ recvs es = []).
    { destruct l; cbn [System.step] in H.
      - unfold System.api_start in H. destruct (lookup tid (s_thr s)); [discriminate|].
        destruct op; unfold start_enqueue in H; inv_step H;
          (eexists; split; [log_ext|]); try (split; [apply only_verifies_nil; reflexivity|reflexivity]).
        rewrite !mon_hist_app, !recvs_app.
        destruct (verifs_hist l) as [A B]. rewrite B. split; [|reflexivity].
        apply only_verifies_app; [intros a []|]. apply only_verifies_app; [exact A|intros a []].
      - unfold System.api_act in H. inv_step H; (eexists; split; [log_ext|split; [apply only_verifies_nil; reflexivity|reflexivity]]).
      - unfold System.mon_recv_step in H. rewrite Em in H. discriminate.
      - unfold System.mon_act_step in H. rewrite Em in H. discriminate.
      - unfold System.cb_take_step in H. inv_step H; (eexists; split; [log_ext|]);
          try (split; [apply only_verifies_nil; reflexivity|reflexivity]); apply enter_nostore; reflexivity.
      - unfold cb_return_step in H. inv_step H. eexists; split; [log_ext|]. apply enter_nostore; reflexivity.
      - unfold cb_ack_step in H. inv_step H. eexists; split; [log_ext|]. apply enter_nostore; reflexivity.
      - destruct (s_main s); [discriminate|]. inversion H. eexists. split; [reflexivity|split; [intros a []|reflexivity]].
      - unfold cancel_call in H. inv_step H; (eexists; split; [log_ext|split; [apply only_verifies_nil; reflexivity|reflexivity]]). }
    destruct Hlog as [es [Hes [Hse Hre]]]. exists (rest ++ es). rewrite Hes, Hl, app_assoc.
    split; [reflexivity|].
    destruct l; try (apply mon_part_eq in F; destruct F as [F1 [_ [_ [F4 _]]]]; rewrite F1, F4, Em;
                     rewrite mon_hist_app, recvs_app, Hrc, Hre; repeat split; auto using only_verifies_app).
    + cbn [System.step] in H. unfold System.mon_recv_step in H. rewrite Em in H. discriminate.
    + cbn [System.step] in H. unfold System.mon_act_step in H. rewrite Em in H. discriminate.
  - assert (Hne : s_mon s <> MNone) by (rewrite Em; discriminate).
    pose proof (step_log_nonmon s l s' H Hne) as L.
    pose proof (non_monitor_frame s l s' H) as F.
    destruct l;
      try (destruct L as [es [L1 [L2 L3]]]; apply mon_part_eq in F; destruct F as [F1 [_ [_ [F4 _]]]];
           destruct I as [rest [Hl Hm]]; exists (rest ++ es);
           rewrite L1, Hl, app_assoc, F1, F4, mon_hist_app, recvs_app, L2, L3, !app_nil_r;
           split; [reflexivity|exact Hm]).
    + (* LMonRecv *)
      cbn [System.step] in H. unfold System.mon_recv_step in H. rewrite Em in H.
      destruct pend; [|discriminate H].
      destruct src.
      * destruct (s_main s); [|discriminate]. inversion H; subst.
        eapply (inv_ref_take cur0 st0 log0 s s st InCtxDone []); eauto. rewrite app_nil_r. reflexivity.
      * destruct (s_ctl s) as [|rid rest]; [discriminate|]. inversion H; subst.
        eapply (inv_ref_take cur0 st0 log0 s (with_ctl s rest) st (InEnable rid) []); eauto. cbn. rewrite app_nil_r. reflexivity.
      * destruct (lookup tid (s_thr s)) as [t|]; [|discriminate].
        destruct (t_pc t); try discriminate. inversion H; subst.
        destruct m as [src0 v0 []|src0|src0].
        -- eapply (inv_ref_take cur0 st0 log0 s _ st _ []); eauto. cbn. rewrite app_nil_r. reflexivity.
        -- eapply (inv_ref_take cur0 st0 log0 s _ st _ [GRet tid RetNil]); eauto.
        -- eapply (inv_ref_take cur0 st0 log0 s _ st _ [GRet tid RetNil]); eauto.
        -- eapply (inv_ref_take cur0 st0 log0 s _ st _ [GRet tid RetUnit]); eauto.
    + (* LMonAct *)
      cbn [System.step] in H. unfold System.mon_act_step in H. rewrite Em in H.
      destruct pend as [|a rest_p]; [discriminate H|].
      destruct I as [rest [Hl Hm]]. rewrite Em in Hm. destruct Hm as [Ht [Hst Hv]].
      assert (G : forall d, mon_hist (rest ++ [GAct a d]) = mon_hist rest ++ [a]).
      { intros. rewrite mon_hist_app. reflexivity. }
      assert (Gr : forall d, recvs (rest ++ [GAct a d]) = recvs rest).
      { intros. rewrite recvs_app. cbn. apply app_nil_r. }
      destruct a as [c0 b0|v|v|rid r|ev|rid r|]; inv_step H.
      * exists (rest ++ [GVerify c0 b0]). cbn. rewrite Hl, app_assoc. split; [reflexivity|].
        rewrite mon_hist_app, recvs_app. cbn. rewrite app_nil_r, <- app_assoc. cbn.
        repeat split; auto. rewrite cur_after_snoc. exact Hv.
      * exists (rest ++ [GAct (AStore v) false]). cbn. rewrite Hl, app_assoc. split; [reflexivity|].
        rewrite G, Gr, <- app_assoc. cbn. repeat split; auto. rewrite cur_after_snoc. reflexivity.
      * exists (rest ++ [GAct (ATryUpdates v) true]). cbn. rewrite Hl, app_assoc. split; [reflexivity|].
        rewrite G, Gr, <- app_assoc. cbn. repeat split; auto. rewrite cur_after_snoc. exact Hv.
      * exists (rest ++ [GAct (ATryUpdates v) false]). cbn. rewrite Hl, app_assoc. split; [reflexivity|].
        rewrite G, Gr, <- app_assoc. cbn. repeat split; auto. rewrite cur_after_snoc. exact Hv.
      * exists (rest ++ [GAct (AReply rid r) false]). cbn. rewrite Hl, app_assoc. split; [reflexivity|].
        rewrite G, Gr, <- app_assoc. cbn. repeat split; auto. rewrite cur_after_snoc. exact Hv.
      * exists (rest ++ [GAct (ATrySubmit ev) true]). cbn. rewrite Hl, app_assoc. split; [reflexivity|].
        rewrite G, Gr, <- app_assoc. cbn. repeat split; auto. rewrite cur_after_snoc. exact Hv.
      * exists (rest ++ [GAct (ATrySubmit ev) false]). cbn. rewrite Hl, app_assoc. split; [reflexivity|].
        rewrite G, Gr, <- app_assoc. cbn. repeat split; auto. rewrite cur_after_snoc. exact Hv.
      * exists (rest ++ [GAct (AEnableReply rid r) false]). cbn. rewrite Hl, app_assoc. split; [reflexivity|].
        rewrite G, Gr, <- app_assoc. cbn. repeat split; auto. rewrite cur_after_snoc. exact Hv.
      * exists (rest ++ [GAct AExit false]). cbn. rewrite Hl, app_assoc. split; [reflexivity|].
        rewrite G, Gr. split; [exists rest_p; rewrite <- app_assoc; exact Ht|]. rewrite cur_after_snoc. exact Hv.
  - (* exited: nothing of the monitor moves any more *)
    assert (Hne : s_mon s <> MNone) by (rewrite Em; discriminate).
    pose proof (step_log_nonmon s l s' H Hne) as L.
    pose proof (non_monitor_frame s l s' H) as F.
    destruct l;
      try (destruct L as [es [L1 [L2 L3]]]; apply mon_part_eq in F; destruct F as [F1 [_ [_ [F4 _]]]];
           destruct I as [rest [Hl Hm]]; exists (rest ++ es);
           rewrite L1, Hl, app_assoc, F1, F4, mon_hist_app, recvs_app, L2, L3, !app_nil_r;
           split; [reflexivity|exact Hm]).
    + cbn [System.step] in H. unfold System.mon_recv_step in H. rewrite Em in H. discriminate.
    + cbn [System.step] in H. unfold System.mon_act_step in H. rewrite Em in H. discriminate.
Qed.

(* ---------- the initial state and the refinement theorem ---------- *)

Lemma init_shape : forall inits watching s0,
  snd (sys_init stack verify p inits watching) = Ok s0 ->
  exists c0 st0,
    cr_out (config_init stack verify p inits watching) = Ok ((0, c0), st0) /\
    s_value s0 = (0, c0) /\ m_slots st0 = inits /\ m_skip st0 = p_delay p /\
    s_log s0 = map (fun cb => GVerify (fst cb) (snd cb)) (cr_verify_log (config_init stack verify p inits watching)) /\
    s_mon s0 = (if existsb (fun b => b) watching then MRun st0 [] else MNone).
Proof.
  intros inits watching s0 H. unfold sys_init in H. cbn [snd] in H.
  destruct (cr_out (config_init stack verify p inits watching)) as [[v st]| |] eqn:E; try discriminate.
  inversion H; subst. clear H.
  unfold config_init in E. destruct (stack inits) as [c|]; [|discriminate].
  destruct (p_skip_initial p || p_delay p); [|destruct (verify c)]; cbn in E; try discriminate;
    inversion E; subst; exists c; eexists; repeat split; reflexivity.
Qed.

Lemma init_inv_ref : forall inits watching s0 c0 st0,
  snd (sys_init stack verify p inits watching) = Ok s0 ->
  cr_out (config_init stack verify p inits watching) = Ok ((0, c0), st0) ->
  inv_ref (0, c0) st0 (s_log s0) s0.
Proof.
  intros inits watching s0 c0 st0 H E.
  destruct (init_shape inits watching s0 H) as [c0' [st0' [E' [V [_ [_ [_ M]]]]]]].
  rewrite E in E'. inversion E'; subst c0' st0'.
  exists []. rewrite app_nil_r. split; [reflexivity|]. rewrite M.
  destruct (existsb _ watching); cbn; auto. repeat split; auto. intros a [].
Qed.

Theorem monitor_refines_l : forall inits watching s0 c0 st0 ls s,
  snd (sys_init stack verify p inits watching) = Ok s0 ->
  cr_out (config_init stack verify p inits watching) = Ok ((0, c0), st0) ->
  run s0 ls = Some s -> inv_ref (0, c0) st0 (s_log s0) s.
Proof.
  intros inits watching s0 c0 st0 ls s H E Hr.
  apply (run_inv (inv_ref (0, c0) st0 (s_log s0)) (inv_ref_step (0, c0) st0 (s_log s0)) ls s0 s); [|exact Hr].
  eapply init_inv_ref; eauto.
Qed.

(* ---------- consequences on the ghost history (for all schedules) ---------- *)

Lemma cur_after_stores : forall (l : list mon_act) (cur : vcfg), cur_after cur l = last (stores_of l) cur.
Proof.
  induction l as [|a r IH] using rev_ind; intros cur; [reflexivity|].
  rewrite cur_after_snoc, stores_of_app. destruct a; cbn [stores_of flat_map app]; rewrite ?app_nil_r; auto.
  rewrite last_last. reflexivity.
Qed.

Lemma last_in_or : forall {A} (l : list A) d, last l d = d \/ In (last l d) l.
Proof.
  induction l as [|x r IH]; intros d; [left; reflexivity|].
  destruct r as [|y r']; [right; left; reflexivity|].
  destruct (IH x) as [E|E].
  - right. change (last (x :: y :: r') d) with (last (y :: r') d).
    rewrite (last_cons_default r' y d x). rewrite E. left. reflexivity.
  - right. right. change (last (x :: y :: r') d) with (last (y :: r') d).
    rewrite (last_cons_default r' y d x). exact E.
Qed.

(* the stores of the whole history are those made after Config *)
Lemma hist_split : forall inits watching s0 s rest,
  snd (sys_init stack verify p inits watching) = Ok s0 -> s_log s = s_log s0 ++ rest ->
  stores_of (mon_hist (s_log s)) = stores_of (mon_hist rest) /\ recvs (s_log s) = recvs rest.
Proof.
  intros inits watching s0 s rest H Hl.
  destruct (init_shape inits watching s0 H) as [c0 [st0 [_ [_ [_ [_ [L _]]]]]]].
  rewrite Hl, L, mon_hist_app, recvs_app, stores_of_app.
  destruct (verifs_hist (cr_verify_log (config_init stack verify p inits watching))) as [A B].
  rewrite (only_verifies_no_store _ A), B. split; reflexivity.
Qed.

(* C04, for every schedule: while verification is active (neither Skip nor
   Delay) every config the monitor ever stored - hence everything View,
   ViewVersion, Events and the callbacks can hand out - has passed Verify, and so
   has the current one *)
Theorem sys_installed_verified_l : forall inits watching s0 ls s,
  p_skip_initial p = false -> p_delay p = false ->
  snd (sys_init stack verify p inits watching) = Ok s0 -> run s0 ls = Some s ->
  Forall (fun v => verify (snd v) = true) (stores_of (mon_hist (s_log s))) /\
  verify (snd (s_value s)) = true.
Proof.
  intros inits watching s0 ls s Hs Hd H0 Hr.
  destruct (init_shape inits watching s0 H0) as [c0 [st0 [E [V [Sl [Sk _]]]]]].
  destruct (config_verifies_initial_l stack verify p inits watching (0, c0) st0 Hs Hd E) as [Vc [Vk _]].
  destruct (monitor_refines_l inits watching s0 c0 st0 ls s H0 E Hr) as [rest [Hl Hm]].
  destruct (hist_split inits watching s0 s rest H0 Hl) as [St _]. rewrite St.
  assert (G : forall tl, mon_hist rest ++ tl = trace (0, c0) st0 (recvs rest) ->
              Forall (fun v => verify (snd v) = true) (stores_of (mon_hist rest))).
  { intros tl Ht. pose proof (installed_verified_l stack verify p (recvs rest) (0, c0) st0 Vk) as F.
    unfold MonitorProofs.trace in F. fold (trace (0, c0) st0 (recvs rest)) in F.
    rewrite <- Ht, stores_of_app in F. apply Forall_app in F. tauto. }
  assert (G2 : Forall (fun v => verify (snd v) = true) (stores_of (mon_hist rest)) ->
               s_value s = cur_after (0, c0) (mon_hist rest) -> verify (snd (s_value s)) = true).
  { intros F Hv. rewrite Hv, cur_after_stores. destruct (last_in_or (stores_of (mon_hist rest)) (0, c0)) as [E1|E1].
    - rewrite E1. exact Vc.
    - rewrite Forall_forall in F. apply F. exact E1. }
  destruct (s_mon s) as [|st pend|].
  - destruct Hm as [Hv [Hst _]]. rewrite (only_verifies_no_store _ Hst), Hv. split; [constructor|exact Vc].
  - destruct Hm as [Ht [_ Hv]]. split; [eapply G; eauto|]. apply G2; [eapply G; eauto|exact Hv].
  - destruct Hm as [[tl Ht] Hv]. split; [eapply G; eauto|]. apply G2; [eapply G; eauto|exact Hv].
Qed.

(* C05, for every schedule: whenever the monitor is back at its select, the
   view is the fresh stack of every source's latest value (or the last view
   that was accepted), and its slots are those latest values *)
Theorem sys_view_is_fresh_stack_l : forall inits watching s0 ls s st,
  snd (sys_init stack verify p inits watching) = Ok s0 -> run s0 ls = Some s ->
  s_mon s = MRun st [] ->
  snd (s_value s) = spec_view stack verify inits (snd (s_value s0)) (p_delay p) (recvs (s_log s)) /\
  m_slots st = latest inits (recvs (s_log s)).
Proof.
  intros inits watching s0 ls s st H0 Hr Hm.
  destruct (init_shape inits watching s0 H0) as [c0 [st0 [E [V [Sl [Sk _]]]]]].
  destruct (monitor_refines_l inits watching s0 c0 st0 ls s H0 E Hr) as [rest [Hl Hi]].
  destruct (hist_split inits watching s0 s rest H0 Hl) as [_ Rc]. rewrite Rc, V. cbn [snd].
  rewrite Hm in Hi. destruct Hi as [Ht [Hst Hv]]. rewrite app_nil_r in Ht.
  rewrite Hv, Ht, <- final_cur_is_cur_after.
  destruct (view_is_fresh_stack_l stack verify p (recvs rest) (0, c0) st0) as [A _].
  rewrite Sl, Sk in A. cbn [snd] in A. split; [exact A|].
  rewrite Hst. rewrite (slots_are_latest_l stack verify p (recvs rest) (0, c0) st0), Sl. reflexivity.
Qed.

Lemma consecutive_prefix : forall a b k, consecutive_from k (a ++ b) -> consecutive_from k a.
Proof. induction a as [|x a IH]; cbn; intros; [exact I|]. destruct H. split; eauto. Qed.

Lemma consecutive_bound : forall l k x, consecutive_from k l -> In x l -> k < x /\ x <= k + N.of_nat (length l).
Proof.
  induction l as [|y l IH]; intros k x Hc Hin; [destruct Hin|].
  cbn in Hc. destruct Hc as [Hy Hc]. destruct Hin as [->|Hin].
  - cbn [length]. lia.
  - destruct (IH (k + 1) x Hc Hin). cbn [length]. lia.
Qed.

Lemma consecutive_last : forall (l : list vcfg) k (d : vcfg), fst d = k -> consecutive_from k (map fst l) ->
  fst (last l d) = k + N.of_nat (length l).
Proof.
  induction l as [|x l IH]; intros k d Hd Hc; [cbn; lia|].
  cbn in Hc. destruct Hc as [Hx Hc].
  destruct l as [|y l']; [cbn; lia|].
  change (last (x :: y :: l') d) with (last (y :: l') d). rewrite (last_cons_default l' y d x).
  rewrite (IH (k + 1) x Hx Hc). cbn [length]. lia.
Qed.

(* C05, for every schedule: the k-th install has serial k, the published
   serial is the number of installs so far, and the published pair is the last
   one stored (config and serial belong together: one atomic pointer) *)
Theorem sys_serial_counts_installs_l : forall inits watching s0 ls s,
  snd (sys_init stack verify p inits watching) = Ok s0 -> run s0 ls = Some s ->
  consecutive_from 0 (map fst (stores_of (mon_hist (s_log s)))) /\
  fst (s_value s) = N.of_nat (length (stores_of (mon_hist (s_log s)))) /\
  s_value s = last (stores_of (mon_hist (s_log s))) (s_value s0).
Proof.
  intros inits watching s0 ls s H0 Hr.
  destruct (init_shape inits watching s0 H0) as [c0 [st0 [E [V [Sl [Sk _]]]]]].
  destruct (monitor_refines_l inits watching s0 c0 st0 ls s H0 E Hr) as [rest [Hl Hm]].
  destruct (hist_split inits watching s0 s rest H0 Hl) as [St _]. rewrite St, V.
  assert (G : forall tl, mon_hist rest ++ tl = trace (0, c0) st0 (recvs rest) ->
              consecutive_from 0 (map fst (stores_of (mon_hist rest)))).
  { intros tl Ht. destruct (serial_counts_installs_l stack verify p (recvs rest) (0, c0) st0) as [F _].
    unfold MonitorProofs.trace in F. fold (trace (0, c0) st0 (recvs rest)) in F.
    rewrite <- Ht, stores_of_app, map_app in F. eapply consecutive_prefix; eauto. }
  assert (G2 : consecutive_from 0 (map fst (stores_of (mon_hist rest))) ->
               s_value s = cur_after (0, c0) (mon_hist rest) ->
               fst (s_value s) = N.of_nat (length (stores_of (mon_hist rest))) /\
               s_value s = last (stores_of (mon_hist rest)) (0, c0)).
  { intros F Hv. rewrite Hv, cur_after_stores. split; [|reflexivity].
    rewrite (consecutive_last _ 0 (0, c0) eq_refl F). lia. }
  destruct (s_mon s) as [|st pend|].
  - destruct Hm as [Hv [Hst _]]. rewrite (only_verifies_no_store _ Hst), Hv. cbn. auto.
  - destruct Hm as [Ht [_ Hv]]. split; [eapply G; eauto|]. apply G2; [eapply G; eauto|exact Hv].
  - destruct Hm as [[tl Ht] Hv]. split; [eapply G; eauto|]. apply G2; [eapply G; eauto|exact Hv].
Qed.

(* C09, for every schedule: under DelayInitialVerification Verify is not
   called - not by Config, not by the monitor - before the first
   EnableVerification request has reached the monitor *)
Theorem sys_no_verify_before_enable_l : forall inits watching s0 ls s,
  p_delay p = true ->
  snd (sys_init stack verify p inits watching) = Ok s0 -> run s0 ls = Some s ->
  s_mon s <> MNone ->
  forallb (fun i => negb (is_enable i)) (recvs (s_log s)) = true ->
  verifies_of (mon_hist (s_log s)) = [].
Proof.
  intros inits watching s0 ls s Hd H0 Hr Hn He.
  destruct (init_shape inits watching s0 H0) as [c0 [st0 [E [V [Sl [Sk [L _]]]]]]].
  destruct (config_no_verify_under_delay_l stack verify p inits watching Hd) as [Vl _].
  rewrite Vl in L. cbn in L.
  destruct (monitor_refines_l inits watching s0 c0 st0 ls s H0 E Hr) as [rest [Hl Hm]].
  rewrite L in Hl. cbn in Hl. rewrite Hl in *.
  assert (Hk : m_skip st0 = true) by (rewrite Sk; exact Hd).
  destruct (no_verify_before_enable_l stack verify p (recvs rest) (0, c0) st0 Hk He) as [F _].
  unfold MonitorProofs.trace in F. fold (trace (0, c0) st0 (recvs rest)) in F.
  assert (G : forall tl, mon_hist rest ++ tl = trace (0, c0) st0 (recvs rest) -> verifies_of (mon_hist rest) = []).
  { intros tl Ht. rewrite <- Ht, verifies_of_app in F. apply app_eq_nil in F. tauto. }
  destruct (s_mon s) as [|st pend|]; [contradiction| |].
  - destruct Hm as [Ht _]. eapply G; eauto.
  - destruct Hm as [[tl Ht] _]. eapply G; eauto.
Qed.

(* C07, for every schedule: in the monitor's history every "installed <- nil"
   comes right after the Store (and the Events try-send) of one config, and at
   that moment and ever after the published serial is at least that config's *)
Theorem sys_reply_after_store_l : forall inits watching s0 ls s j rid,
  snd (sys_init stack verify p inits watching) = Ok s0 -> run s0 ls = Some s ->
  nth_error (mon_hist (s_log s)) j = Some (AReply rid RNil) ->
  exists v, (2 <= j)%nat /\ nth_error (mon_hist (s_log s)) (j - 2) = Some (AStore v) /\
            nth_error (mon_hist (s_log s)) (j - 1) = Some (ATryUpdates v) /\
            fst v <= fst (s_value s).
Proof.
  intros inits watching s0 ls s j rid H0 Hr Hj.
  destruct (init_shape inits watching s0 H0) as [c0 [st0 [E [V [Sl [Sk [L _]]]]]]].
  destruct (monitor_refines_l inits watching s0 c0 st0 ls s H0 E Hr) as [rest [Hl Hm]].
  assert (Ok1 : nil_reply_ok (mon_hist (s_log s0))).
  { intros j0 rid0 Hx. rewrite L in Hx.
    destruct (verifs_hist (cr_verify_log (config_init stack verify p inits watching))) as [A _].
    exfalso. eapply only_verifies_no_reply; eauto. }
  assert (Ok2 : nil_reply_ok (mon_hist rest)).
  { destruct (s_mon s) as [|st pend|].
    - destruct Hm as [_ [Hs _]]. intros j0 rid0 Hx. exfalso. eapply only_verifies_no_reply; eauto.
    - destruct Hm as [Ht _]. eapply nil_reply_ok_prefix. rewrite Ht. apply reply_after_store_l.
    - destruct Hm as [[tl Ht] _]. eapply nil_reply_ok_prefix. rewrite Ht. apply reply_after_store_l. }
  pose proof (nil_reply_ok_app _ _ Ok1 Ok2) as Ok3. rewrite <- mon_hist_app, <- Hl in Ok3.
  destruct (Ok3 j rid Hj) as [v [H2 [H3 H4]]]. exists v. repeat split; auto.
  destruct (sys_serial_counts_installs_l inits watching s0 ls s H0 Hr) as [C1 [C2 _]].
  assert (Hin : In (fst v) (map fst (stores_of (mon_hist (s_log s))))).
  { apply in_map. apply in_flat_map. exists (AStore v). split; [eapply nth_error_In; eauto|left; reflexivity]. }
  destruct (consecutive_bound _ 0 (fst v) C1 Hin) as [_ Hb]. rewrite map_length, N.add_0_l in Hb.
  rewrite C2. exact Hb.
Qed.

(* ---------- C07 / C08: contexts, shutdown, late calls ---------- *)

(* what is in a reply channel was put there by the monitor *)
Definition inv_replies (s : sys) : Prop :=
  forall rid r, lookup rid (s_replies s) = Some r -> In (AReply rid r) (mon_hist (s_log s)).

Lemma step_log_ext : forall s l s', step s l = Some s' -> exists es, s_log s' = s_log s ++ es.
Proof.
  intros s l s' H. destruct l; cbn [System.step] in H.
  - unfold System.api_start in H. destruct (lookup tid (s_thr s)); [discriminate|].
    destruct op; unfold start_enqueue in H; inv_step H; (eexists; log_ext).
  - unfold System.api_act in H. inv_step H; (eexists; log_ext).
  - unfold System.mon_recv_step in H. inv_step H; rewrite mon_take_log; (eexists; log_ext).
  - unfold System.mon_act_step in H. inv_step H; (eexists; log_ext).
  - unfold System.cb_take_step in H. inv_step H; (eexists; log_ext).
  - unfold cb_return_step in H. inv_step H; (eexists; log_ext).
  - unfold cb_ack_step in H. inv_step H; (eexists; log_ext).
  - destruct (s_main s); [discriminate|]. inversion H. eexists. reflexivity.
  - unfold cancel_call in H. inv_step H; (eexists; log_ext).
Qed.

Lemma inv_replies_step : forall s l s', inv_replies s -> step s l = Some s' -> inv_replies s'.
Proof.
  intros s l s' I H rid r Hl.
  destruct (step_log_ext s l s' H) as [es Hes].
  pose proof (non_monitor_frame s l s' H) as F.
  assert (Keep : s_replies s' = s_replies s -> In (AReply rid r) (mon_hist (s_log s'))).
  { intros E. rewrite Hes, mon_hist_app. apply in_or_app. left. apply I. rewrite <- E. exact Hl. }
  destruct l; try (apply Keep; apply mon_part_eq in F; tauto).
  - (* LMonRecv *)
    apply Keep. cbn [System.step] in H. unfold System.mon_recv_step in H. inv_step H;
    match goal with |- s_replies (mon_take _ _ _ ?s1 ?st ?i) = _ =>
      destruct (mon_take_fields s1 st i) as [_ [_ [_ [Fr _]]]]; rewrite Fr; reflexivity end.
  - (* LMonAct *)
    cbn [System.step] in H. unfold System.mon_act_step in H.
    destruct (s_mon s) as [|st pend|]; try discriminate H. destruct pend as [|a rest]; [discriminate H|].
    destruct a; inv_step H; try (apply Keep; reflexivity).
    cbn in Hl. rewrite lookup_update in Hl. cbn. rewrite mon_hist_app. apply in_or_app.
    destruct (rid =? rid0) eqn:E1.
    + apply N.eqb_eq in E1. subst. inversion Hl; subst. right. left. reflexivity.
    + left. apply I. exact Hl.
Qed.

(* C07: a blocking report returns nil only if the monitor answered nil on its
   channel - hence (sys_reply_after_store_l) only after the store *)
Theorem nil_return_needs_reply_l : forall inits watching s0 ls s tid t arm s' t',
  snd (sys_init stack verify p inits watching) = Ok s0 -> run s0 ls = Some s ->
  lookup tid (s_thr s) = Some t -> t_pc t = PAwaitReply ->
  api_act s tid arm = Some s' -> lookup tid (s_thr s') = Some t' -> t_pc t' = PDone RetNil ->
  In (AReply tid RNil) (mon_hist (s_log s)).
Proof.
  intros inits watching s0 ls s tid t arm s' t' H0 Hr Ht Hpc Ha Ht' Hpc'.
  assert (I : inv_replies s).
  { apply (run_inv inv_replies inv_replies_step ls s0 s); [|exact Hr].
    intros rid r Hl. unfold sys_init in H0. cbn [snd] in H0.
    destruct (cr_out (config_init stack verify p inits watching)) as [[v st]| |]; try discriminate.
    inversion H0; subst. discriminate Hl. }
  apply I. unfold System.api_act in Ha. rewrite Ht, Hpc in Ha.
  destruct (arm =? 0).
  - destruct (t_cancel t); [|discriminate]. inversion Ha; subst. cbn in Ht'.
    rewrite lookup_update, N.eqb_refl in Ht'. inversion Ht'; subst. discriminate Hpc'.
  - destruct (lookup tid (s_replies s)) as [r|]; [|discriminate]. inversion Ha; subst. cbn in Ht'.
    rewrite lookup_update, N.eqb_refl in Ht'. inversion Ht'; subst. cbn in Hpc'.
    destruct r; try discriminate. reflexivity.
Qed.

(* C07 blocking_ctx_returns / C08: a call whose context has ended can return
   at once, wherever it stands (the offering select does so by itself when the
   context is cancelled: cancel_call) *)
Theorem cancelled_call_returns_l : forall (s : sys) tid t,
  lookup tid (s_thr s) = Some t -> t_cancel t = true ->
  match t_pc t with
  | PDone _ => True
  | POffer _ => False          (* cannot be: cancelling an offering call completes it *)
  | _ => exists s' r, api_act s tid 0 = Some s' /\ lookup tid (s_thr s') = Some (mkThr (t_op t) (PDone r) true)
  end \/ (exists m, t_pc t = POffer m).
Proof.
  intros s tid t Hl Hc. destruct (t_pc t) eqn:Epc; try (left; exact I); try (right; eauto; fail);
    left; unfold System.api_act; rewrite Hl, Epc; cbn; rewrite Hc;
    eexists; eexists; (split; [reflexivity|]); cbn; rewrite lookup_update, N.eqb_refl, Hc; reflexivity.
Qed.

Theorem cancel_offering_returns_l : forall (s : sys) tid t m,
  lookup tid (s_thr s) = Some t -> t_pc t = POffer m -> t_cancel t = false ->
  exists s' r, cancel_call s tid = Some s' /\ lookup tid (s_thr s') = Some (mkThr (t_op t) (PDone r) true).
Proof.
  intros s tid t m Hl Hpc Hc. unfold cancel_call. rewrite Hl, Hc, Hpc.
  eexists. eexists. split; [reflexivity|]. cbn. rewrite lookup_update, N.eqb_refl. reflexivity.
Qed.

(* C08 shutdown: once the Config context is cancelled (or the last watcher is
   Done: pend = [AExit] by mon_recv) the monitor, as soon as it is at its
   select, leaves in two steps of its own, signalling monDone; the callback
   goroutine leaves once the queue is drained *)
Theorem shutdown_monitor_l : forall (s : sys) st,
  s_main s = true -> s_mon s = MRun st [] ->
  exists s2, run s [LMonRecv RCtx; LMonAct false] = Some s2 /\ s_mon s2 = MExited /\ s_done s2 = true.
Proof.
  intros s st Hm Em. cbn [System.run System.step]. unfold System.mon_recv_step. rewrite Em, Hm.
  unfold mon_take. cbn [mon_recv split_verifies]. cbn.
  eexists. split; [reflexivity|]. cbn. auto.
Qed.

Theorem shutdown_callbacks_l : forall (s : sys) cst,
  s_done s = true -> s_cb s = CRun cst [] -> s_cbq s = [] ->
  exists s', cb_take_step s = Some s' /\ s_cb s' = CExited.
Proof.
  intros s cst Hd Ec Eq. unfold System.cb_take_step. rewrite Ec, Eq, Hd. eexists. split; reflexivity.
Qed.

(* and while something is queued the callback goroutine can always take it *)
Theorem callbacks_drain_l : forall (s : sys) cst ev rest,
  s_cb s = CRun cst [] -> s_cbq s = ev :: rest -> exists s', cb_take_step s = Some s'.
Proof.
  intros s cst ev rest Ec Eq. unfold System.cb_take_step. rewrite Ec, Eq.
  destruct (cb_step on_new on_err cst ev). eexists. reflexivity.
Qed.

(* C08 late_calls_fail: after the monitor has exited, RegisterCallback returns
   nil and an unregister function (also when called again) returns false, at
   once; nothing is ever received from a reporter again, so a report or Done
   ends exactly when its context does (cancel_offering_returns_l); an
   EnableVerification request is never answered and ends with its context
   (cancelled_call_returns_l) *)
Theorem late_calls_fail_l : forall (s : sys) tid op s',
  s_done s = true -> s_mon s = MExited -> api_start s tid op = Some s' ->
  match op with
  | OpRegister _ _ => exists t, lookup tid (s_thr s') = Some t /\ t_pc t = PDone RetRegNil
  | OpUnregister _ => exists t, lookup tid (s_thr s') = Some t /\ t_pc t = PDone (RetBool false)
  | _ => True
  end /\ (forall src, mon_recv_step s' src = None).
Proof.
  intros s tid op s' Hd Em H.
  assert (Em' : s_mon s' = MExited).
  { apply api_start_frame in H. destruct H as [F _]. apply mon_part_eq in F. destruct F as [F1 _]. rewrite F1. exact Em. }
  split; [|intros src; unfold System.mon_recv_step; rewrite Em'; reflexivity].
  unfold System.api_start in H. destruct (lookup tid (s_thr s)); [discriminate|].
  destruct op; try exact I; unfold start_enqueue in H; cbn in H; rewrite Em, Hd in H; inv_step H;
    cbn; eexists; rewrite lookup_update, N.eqb_refl; split; reflexivity.
Qed.

End Proofs.
