(* PROOFS about the small-step system of Core/System.v: invariants proved by
   induction over arbitrary label sequences (all schedules). *)
From Coq Require Import List NArith Bool Lia.
From Dials Require Import Base.Outcome Core.CbMgr Core.Monitor Core.MonitorProofs Core.System.
Import ListNotations.
Open Scope N_scope.

Ltac bm H :=
  match type of H with
  | context [match ?x with _ => _ end] => let E := fresh "E" in destruct x eqn:E
  end.
Ltac inv_step H := repeat bm H; try discriminate H; try (injection H as H; subst).

Section Proofs.
Context {cfg sv : Type}.
Variable stack : list sv -> option cfg.
Variable verify : cfg -> bool.
Variable p : params.
Variable on_new on_err : bool.
Variable cbcap : N.

Notation sys := (sys cfg sv).
Notation label := (label sv).
Notation step := (@step cfg sv stack verify p on_new on_err cbcap).
Notation run := (@run cfg sv stack verify p on_new on_err cbcap).
Notation mon_act_step := (@mon_act_step cfg sv cbcap).
Notation mon_recv_step := (@mon_recv_step cfg sv stack verify p).
Notation api_start := (@api_start cfg sv verify p).
Notation api_act := (@api_act cfg sv cbcap).
Notation cb_take_step := (@cb_take_step cfg sv on_new on_err).

(* ---------- generic: invariants over all schedules ---------- *)

Lemma run_inv : forall (I : sys -> Prop),
  (forall s l s', I s -> step s l = Some s' -> I s') ->
  forall ls s s', I s -> run s ls = Some s' -> I s'.
Proof.
  intros I Hstep. induction ls as [|l r IH]; intros s s' Hi Hr; cbn in Hr.
  - inversion Hr; subst. exact Hi.
  - destruct (step s l) as [s1|] eqn:E; [|discriminate]. eapply IH; [|exact Hr]. eapply Hstep; eauto.
Qed.

Lemma run_app : forall a s b, run s (a ++ b) = match run s a with Some s1 => run s1 b | None => None end.
Proof.
  induction a as [|l a IH]; intros; cbn; [reflexivity|].
  destruct (step s l); [apply IH|reflexivity].
Qed.

(* ---------- what each kind of step leaves alone ---------- *)

(* the monitor's own part of the state: only monitor steps write it (single writer) *)
Definition mon_part (s : sys) := (s_mon s, s_done s, s_panic s, s_value s, s_replies s, s_eresps s).

Lemma finish_mon_part : forall (s : sys) tid t r, mon_part (finish s tid t r) = mon_part s.
Proof. reflexivity. Qed.

Lemma api_start_frame : forall s tid op s', api_start s tid op = Some s' -> mon_part s' = mon_part s /\ s_cb s' = s_cb s /\ s_cbq s' = s_cbq s /\ s_ctl s' = s_ctl s /\ s_main s' = s_main s /\ s_acks s' = s_acks s.
Proof.
  intros s tid op s' H. unfold System.api_start in H.
  destruct (lookup tid (s_thr s)); [discriminate|].
  destruct op; unfold start_enqueue in H; inv_step H; repeat split; reflexivity.
Qed.

Lemma api_act_frame : forall s tid arm s', api_act s tid arm = Some s' -> mon_part s' = mon_part s /\ s_cb s' = s_cb s /\ s_main s' = s_main s /\ s_acks s' = s_acks s.
Proof.
  intros s tid arm s' H. unfold System.api_act in H. inv_step H; repeat split; reflexivity.
Qed.

Lemma cancel_call_frame : forall (s : sys) tid s', cancel_call s tid = Some s' -> mon_part s' = mon_part s /\ s_cb s' = s_cb s /\ s_cbq s' = s_cbq s /\ s_ctl s' = s_ctl s /\ s_main s' = s_main s /\ s_acks s' = s_acks s.
Proof.
  intros s tid s' H. unfold cancel_call in H. inv_step H; repeat split; reflexivity.
Qed.

Lemma cb_take_frame : forall s s', cb_take_step s = Some s' -> mon_part s' = mon_part s /\ s_thr s' = s_thr s /\ s_ctl s' = s_ctl s /\ s_main s' = s_main s /\ s_acks s' = s_acks s.
Proof.
  intros s s' H. unfold System.cb_take_step in H. inv_step H; repeat split; reflexivity.
Qed.

Lemma cb_return_frame : forall (s : sys) s', cb_return_step s = Some s' -> mon_part s' = mon_part s /\ s_thr s' = s_thr s /\ s_ctl s' = s_ctl s /\ s_cbq s' = s_cbq s /\ s_main s' = s_main s /\ s_acks s' = s_acks s.
Proof.
  intros s s' H. unfold cb_return_step in H. inv_step H; repeat split; reflexivity.
Qed.

Lemma cb_ack_frame : forall (s : sys) s', cb_ack_step s = Some s' -> mon_part s' = mon_part s /\ s_thr s' = s_thr s /\ s_ctl s' = s_ctl s /\ s_cbq s' = s_cbq s /\ s_main s' = s_main s.
Proof.
  intros s s' H. unfold cb_ack_step in H. inv_step H; repeat split; reflexivity.
Qed.

(* every step that is not the monitor's leaves the monitor's part alone *)
Lemma non_monitor_frame : forall s l s',
  step s l = Some s' ->
  match l with LMonRecv _ | LMonAct _ => True | _ => mon_part s' = mon_part s end.
Proof.
  intros s l s' H. destruct l; cbn [System.step] in H; try exact I.
  - apply api_start_frame in H. tauto.
  - apply api_act_frame in H. tauto.
  - apply cb_take_frame in H. tauto.
  - apply cb_return_frame in H. tauto.
  - apply cb_ack_frame in H. tauto.
  - destruct (s_main s); [discriminate|]. inversion H. reflexivity.
  - apply cancel_call_frame in H. tauto.
Qed.

Lemma mon_part_eq : forall s s' : sys, mon_part s' = mon_part s ->
  s_mon s' = s_mon s /\ s_done s' = s_done s /\ s_panic s' = s_panic s /\ s_value s' = s_value s /\
  s_replies s' = s_replies s /\ s_eresps s' = s_eresps s.
Proof. unfold mon_part. intros s s' H. injection H; intros. repeat split; assumption. Qed.

(* ---------- C08: no reachable Panic state ---------- *)

Definition inv_done (s : sys) : Prop :=
  s_panic s = false /\ (s_done s = true -> s_mon s = MExited).

Lemma mon_take_fields : forall (s : sys) st i,
  let s' := mon_take stack verify p s st i in
  s_done s' = s_done s /\ s_panic s' = s_panic s /\ s_value s' = s_value s /\
  s_replies s' = s_replies s /\ s_eresps s' = s_eresps s /\ s_thr s' = s_thr s /\ s_cbq s' = s_cbq s /\
  s_ctl s' = s_ctl s /\ s_cb s' = s_cb s /\ s_main s' = s_main s /\
  exists st' pend, s_mon s' = MRun st' pend.
Proof.
  intros. subst s'. unfold mon_take.
  destruct (mon_recv stack verify p (s_value s) st i) as [st' acts].
  destruct (split_verifies acts) as [g pend]. cbn. repeat split; eauto.
Qed.

Lemma inv_done_step : forall s l s', inv_done s -> step s l = Some s' -> inv_done s'.
Proof.
  intros s l s' [Hp Hd] H.
  pose proof (non_monitor_frame s l s' H) as F.
  destruct l; try (apply mon_part_eq in F; destruct F as [F1 [F2 [F3 _]]]; unfold inv_done; rewrite F1, F2, F3; split; assumption).
  - (* LMonRecv *)
    cbn [System.step] in H. unfold System.mon_recv_step in H.
    destruct (s_mon s) as [|st pend|] eqn:Em; try discriminate H. destruct pend; [|discriminate H].
    assert (Hnd : s_done s = false).
    { destruct (s_done s) eqn:E; [|reflexivity]. specialize (Hd eq_refl). discriminate. }
    destruct src.
    + destruct (s_main s); [|discriminate]. inversion H; subst.
      destruct (mon_take_fields s st InCtxDone) as [A [B [_ [_ [_ [_ [_ [_ [_ [_ [st' [pd E]]]]]]]]]]]].
      split; [rewrite B; exact Hp|]. rewrite A, Hnd. discriminate.
    + destruct (s_ctl s) as [|rid rest]; [discriminate|]. inversion H; subst.
      destruct (mon_take_fields (with_ctl s rest) st (InEnable rid)) as [A [B _]].
      split; [rewrite B; exact Hp|]. rewrite A. cbn. rewrite Hnd. discriminate.
    + destruct (lookup tid (s_thr s)) as [t|]; [|discriminate].
      destruct (t_pc t); try discriminate. inversion H; subst.
      match goal with |- inv_done (mon_take _ _ _ ?s1 _ _) =>
        destruct (mon_take_fields s1 st (msg_in tid m)) as [A [B _]] end.
      split; [rewrite B|rewrite A]; destruct m as [? ? []| |]; cbn; try exact Hp; rewrite Hnd; discriminate.
  - (* LMonAct *)
    cbn [System.step] in H. unfold System.mon_act_step in H.
    destruct (s_mon s) as [|st pend|] eqn:Em; try discriminate H. destruct pend as [|a rest]; [discriminate H|].
    assert (Hnd : s_done s = false).
    { destruct (s_done s) eqn:E; [|reflexivity]. specialize (Hd eq_refl). discriminate. }
    destruct a; inv_step H; unfold inv_done; cbn; rewrite ?Hp, ?Hnd; split; try reflexivity; try discriminate; auto.
Qed.

Lemma init_inv_done : forall inits watching s0,
  snd (sys_init stack verify p inits watching) = Ok s0 -> inv_done s0.
Proof.
  intros inits watching s0 H. unfold sys_init in H. cbn [snd] in H.
  destruct (cr_out (config_init stack verify p inits watching)) as [[v st]| |]; try discriminate.
  inversion H; subst. split; [reflexivity|]. cbn. discriminate.
Qed.

Theorem no_panic_l : forall inits watching s0 ls s,
  snd (sys_init stack verify p inits watching) = Ok s0 -> run s0 ls = Some s -> s_panic s = false.
Proof.
  intros inits watching s0 ls s H0 Hr.
  apply (run_inv inv_done inv_done_step ls s0 s); [|exact Hr]. eapply init_inv_done; eauto.
Qed.

(* ---------- threads only move forward ---------- *)

Lemma lookup_update : forall {A} k k' (a : A) l,
  lookup k' (update k a l) = if k' =? k then Some a else lookup k' l.
Proof.
  induction l as [|[k0 a0] r IH]; cbn.
  - rewrite N.eqb_sym. reflexivity.
  - destruct (k0 =? k) eqn:E; cbn.
    + apply N.eqb_eq in E. subst. rewrite (N.eqb_sym k k'). destruct (k' =? k); reflexivity.
    + rewrite IH. destruct (k0 =? k') eqn:E2; [|reflexivity].
      apply N.eqb_eq in E2. subst. rewrite E. reflexivity.
Qed.

Definition not_offer (c : pc cfg sv) : bool := match c with POffer _ => false | _ => true end.
Definition not_ctlsend (c : pc cfg sv) : bool := match c with PCtlSend => false | _ => true end.

(* an API goroutine never goes back to offering on watcherChan or to sending on monCtl *)
Definition thr_mono (l l' : list (N * thread cfg sv)) : Prop :=
  forall tid t, lookup tid l = Some t ->
  exists t', lookup tid l' = Some t' /\
    (not_offer (t_pc t) = true -> not_offer (t_pc t') = true) /\
    (not_ctlsend (t_pc t) = true -> not_ctlsend (t_pc t') = true).

Lemma thr_mono_refl : forall l, thr_mono l l.
Proof. intros l tid t H. exists t. auto. Qed.

Lemma thr_mono_update : forall l tid x,
  (forall t, lookup tid l = Some t ->
     (not_offer (t_pc t) = true -> not_offer (t_pc x) = true) /\
     (not_ctlsend (t_pc t) = true -> not_ctlsend (t_pc x) = true)) ->
  thr_mono l (update tid x l).
Proof.
  intros l tid x H tid0 t Ht. rewrite lookup_update. destruct (tid0 =? tid) eqn:E.
  - apply N.eqb_eq in E. subst. exists x. split; [reflexivity|]. apply H. exact Ht.
  - exists t. auto.
Qed.

Lemma thr_mono_fresh : forall l tid x, lookup tid l = None -> thr_mono l (update tid x l).
Proof. intros. apply thr_mono_update. intros t Ht. congruence. Qed.

Lemma api_start_mono : forall s tid op s', api_start s tid op = Some s' -> thr_mono (s_thr s) (s_thr s').
Proof.
  intros s tid op s' H. unfold System.api_start in H.
  destruct (lookup tid (s_thr s)) eqn:El; [discriminate|].
  destruct op; unfold start_enqueue in H; inv_step H; cbn; apply thr_mono_fresh; exact El.
Qed.

Lemma api_act_mono : forall s tid arm s', api_act s tid arm = Some s' -> thr_mono (s_thr s) (s_thr s').
Proof.
  intros s tid arm s' H. unfold System.api_act in H.
  destruct (lookup tid (s_thr s)) as [t|] eqn:El; [|discriminate].
  destruct (t_pc t) eqn:Epc; inv_step H; cbn; apply thr_mono_update; intros t0 Ht0;
    rewrite El in Ht0; inversion Ht0; subst; rewrite Epc; cbn; auto.
Qed.

Lemma cancel_call_mono : forall (s : sys) tid s', cancel_call s tid = Some s' -> thr_mono (s_thr s) (s_thr s').
Proof.
  intros s tid s' H. unfold cancel_call in H.
  destruct (lookup tid (s_thr s)) as [t|] eqn:El; [|discriminate].
  destruct (t_cancel t); [discriminate|].
  destruct (t_pc t) eqn:Epc; inv_step H; cbn; apply thr_mono_update; intros t0 Ht0;
    rewrite El in Ht0; inversion Ht0; subst; rewrite ?Epc; cbn; auto.
Qed.

Lemma mon_recv_mono : forall s src s', mon_recv_step s src = Some s' -> thr_mono (s_thr s) (s_thr s').
Proof.
  intros s src s' H. unfold System.mon_recv_step in H.
  destruct (s_mon s) as [|st pend|]; try discriminate H. destruct pend; [|discriminate H].
  destruct src.
  - destruct (s_main s); [|discriminate]. inversion H; subst.
    destruct (mon_take_fields s st InCtxDone) as [_ [_ [_ [_ [_ [T _]]]]]]. rewrite T. apply thr_mono_refl.
  - destruct (s_ctl s) as [|rid rest]; [discriminate|]. inversion H; subst.
    destruct (mon_take_fields (with_ctl s rest) st (InEnable rid)) as [_ [_ [_ [_ [_ [T _]]]]]]. rewrite T. apply thr_mono_refl.
  - destruct (lookup tid (s_thr s)) as [t|] eqn:El; [|discriminate].
    destruct (t_pc t) eqn:Epc; try discriminate. inversion H; subst.
    match goal with |- thr_mono _ (s_thr (mon_take _ _ _ ?s1 _ _)) =>
      destruct (mon_take_fields s1 st (msg_in tid m)) as [_ [_ [_ [_ [_ [T _]]]]]] end.
    rewrite T. destruct m as [? ? []| |]; cbn; apply thr_mono_update; intros t0 Ht0;
      rewrite El in Ht0; inversion Ht0; subst; rewrite Epc; cbn; auto; discriminate.
Qed.

Lemma step_thr_mono : forall s l s', step s l = Some s' -> thr_mono (s_thr s) (s_thr s').
Proof.
  intros s l s' H. destruct l; cbn [System.step] in H.
  - eapply api_start_mono; eauto.
  - eapply api_act_mono; eauto.
  - eapply mon_recv_mono; eauto.
  - unfold System.mon_act_step in H. inv_step H; cbn; apply thr_mono_refl.
  - apply cb_take_frame in H. destruct H as [_ [T _]]. rewrite T. apply thr_mono_refl.
  - apply cb_return_frame in H. destruct H as [_ [T _]]. rewrite T. apply thr_mono_refl.
  - apply cb_ack_frame in H. destruct H as [_ [T _]]. rewrite T. apply thr_mono_refl.
  - destruct (s_main s); [discriminate|]. inversion H. apply thr_mono_refl.
  - eapply cancel_call_mono; eauto.
Qed.

(* ---------- reply channels are written once: the monitor never blocks ---------- *)

Notation mon_act := (mon_act cfg).

Definition reply_ids (pend : list mon_act) : list N :=
  flat_map (fun a => match a with AReply rid _ => [rid] | _ => [] end) pend.
Definition enable_ids (pend : list mon_act) : list N :=
  flat_map (fun a => match a with AEnableReply rid _ => [rid] | _ => [] end) pend.
Definition pend_of (s : sys) : list mon_act := match s_mon s with MRun _ pend => pend | _ => [] end.

Definition has_pc (f : pc cfg sv -> bool) (thr : list (N * thread cfg sv)) (tid : N) : Prop :=
  exists t, lookup tid thr = Some t /\ f (t_pc t) = true.

Lemma has_pc_mono_offer : forall l l' tid, thr_mono l l' -> has_pc not_offer l tid -> has_pc not_offer l' tid.
Proof. intros l l' tid M [t [H1 H2]]. destruct (M tid t H1) as [t' [A [B _]]]. exists t'. auto. Qed.
Lemma has_pc_mono_ctl : forall l l' tid, thr_mono l l' -> has_pc not_ctlsend l tid -> has_pc not_ctlsend l' tid.
Proof. intros l l' tid M [t [H1 H2]]. destruct (M tid t H1) as [t' [A [_ B]]]. exists t'. auto. Qed.

Record inv_chan (s : sys) : Prop := mkInvChan {
  ic_nodup_r : NoDup (reply_ids (pend_of s));
  ic_fresh_r : forall rid, In rid (reply_ids (pend_of s)) -> lookup rid (s_replies s) = None;
  ic_thr_r : forall rid, In rid (reply_ids (pend_of s)) \/ lookup rid (s_replies s) <> None ->
             has_pc not_offer (s_thr s) rid;
  ic_nodup_e : NoDup (s_ctl s ++ enable_ids (pend_of s));
  ic_fresh_e : forall rid, In rid (s_ctl s ++ enable_ids (pend_of s)) -> lookup rid (s_eresps s) = None;
  ic_thr_e : forall rid, In rid (s_ctl s ++ enable_ids (pend_of s)) \/ lookup rid (s_eresps s) <> None ->
             has_pc not_ctlsend (s_thr s) rid
}.

Notation splitv := (@split_verifies cfg sv).

Lemma split_verifies_ids : forall acts : list mon_act,
  reply_ids (snd (splitv acts)) = reply_ids acts /\
  enable_ids (snd (splitv acts)) = enable_ids acts.
Proof.
  induction acts as [|a r IH]; [split; reflexivity|].
  destruct a; try (split; reflexivity).
  cbn [System.split_verifies]. destruct (splitv r) as [g r'] eqn:E. cbn [snd] in *. exact IH.
Qed.

Lemma recv_ids : forall cur st (i : mon_in sv),
  let acts := snd (mon_recv stack verify p cur st i) in
  reply_ids acts = match i with InUpdate _ _ (Some r) => [r] | _ => [] end /\
  enable_ids acts = match i with InEnable r => [r] | _ => [] end.
Proof.
  intros. subst acts. destruct i as [src x rid|src|src|rid|]; cbn [mon_recv].
  - destruct (stack _) as [c|]; [destruct (m_skip st); [|destruct (verify c)]|]; destruct rid; split; reflexivity.
  - destruct (src_err_delivered p (m_skip st)); split; reflexivity.
  - cbn [snd]. destruct (existsb _ _); split; reflexivity.
  - destruct (m_skip st); [destruct (verify (snd cur))|]; split; reflexivity.
  - split; reflexivity.
Qed.

Lemma mon_take_mon : forall (s : sys) st i,
  s_mon (mon_take stack verify p s st i) =
  MRun (fst (mon_recv stack verify p (s_value s) st i))
       (snd (splitv (snd (mon_recv stack verify p (s_value s) st i)))).
Proof.
  intros. unfold mon_take. destruct (mon_recv stack verify p (s_value s) st i) as [st' acts].
  cbn [fst snd]. destruct (splitv acts) as [g pend]. reflexivity.
Qed.

Lemma mon_take_pend_ids : forall (s : sys) st i,
  reply_ids (pend_of (mon_take stack verify p s st i)) = match i with InUpdate _ _ (Some r) => [r] | _ => [] end /\
  enable_ids (pend_of (mon_take stack verify p s st i)) = match i with InEnable r => [r] | _ => [] end.
Proof.
  intros. unfold pend_of. rewrite mon_take_mon.
  destruct (split_verifies_ids (snd (mon_recv stack verify p (s_value s) st i))) as [A B].
  destruct (recv_ids (s_value s) st i) as [C D]. cbn zeta in C, D. rewrite A, B. auto.
Qed.

(* what an API step does to monCtl *)
Lemma api_act_ctl : forall s tid arm s', api_act s tid arm = Some s' ->
  s_ctl s' = s_ctl s \/
  (s_ctl s' = s_ctl s ++ [tid] /\ (exists t, lookup tid (s_thr s) = Some t /\ t_pc t = PCtlSend) /\
   has_pc not_ctlsend (s_thr s') tid).
Proof.
  intros s tid arm s' H. unfold System.api_act in H.
  destruct (lookup tid (s_thr s)) as [t|] eqn:El; [|discriminate].
  destruct (t_pc t) eqn:Epc; inv_step H; try (left; reflexivity).
  right. cbn. split; [reflexivity|]. split; [exists t; auto|].
  eexists. rewrite lookup_update, N.eqb_refl. split; reflexivity.
Qed.

Lemma not_both_ctl : forall thr tid t, lookup tid thr = Some t -> t_pc t = PCtlSend -> ~ has_pc not_ctlsend thr tid.
Proof. intros thr tid t H1 H2 [t' [H3 H4]]. rewrite H1 in H3. inversion H3; subst. rewrite H2 in H4. discriminate. Qed.
Lemma not_both_offer : forall thr tid t m, lookup tid thr = Some t -> t_pc t = POffer m -> ~ has_pc not_offer thr tid.
Proof. intros thr tid t m H1 H2 [t' [H3 H4]]. rewrite H1 in H3. inversion H3; subst. rewrite H2 in H4. discriminate. Qed.

Lemma nodup_insert_mid : forall (a : N) l1 l2, NoDup (l1 ++ l2) -> ~ In a (l1 ++ l2) -> NoDup (l1 ++ a :: l2).
Proof.
  induction l1 as [|x l1 IH]; cbn; intros l2 Hn Hi.
  - constructor; assumption.
  - inversion Hn; subst. constructor.
    + intros Hin. apply in_app_or in Hin. destruct Hin as [Hin|[Hin|Hin]].
      * apply H1. apply in_or_app. auto.
      * subst. apply Hi. left. reflexivity.
      * apply H1. apply in_or_app. auto.
    + apply IH; [assumption|]. intros Hin. apply Hi. right. exact Hin.
Qed.

Lemma inv_chan_frame : forall s s',
  inv_chan s -> thr_mono (s_thr s) (s_thr s') -> mon_part s' = mon_part s -> s_ctl s' = s_ctl s -> inv_chan s'.
Proof.
  intros s s' I M F C. apply mon_part_eq in F. destruct F as [F1 [_ [_ [_ [F5 F6]]]]].
  assert (P : pend_of s' = pend_of s) by (unfold pend_of; rewrite F1; reflexivity).
  destruct I as [a b c d e f]. constructor; rewrite ?P, ?F5, ?F6, ?C; auto.
  - intros rid H. eapply has_pc_mono_offer; eauto.
  - intros rid H. eapply has_pc_mono_ctl; eauto.
Qed.

Lemma lookup_update_none : forall {A} k k' (a : A) l, lookup k' (update k a l) = None -> lookup k' l = None /\ k' <> k.
Proof.
  intros A k k' a l H. rewrite lookup_update in H. destruct (k' =? k) eqn:E; [discriminate|].
  apply N.eqb_neq in E. auto.
Qed.

Lemma nodup_app_r : forall (l1 l2 : list N), NoDup (l1 ++ l2) -> NoDup l2.
Proof. induction l1; cbn; intros; [assumption|]. inversion H; subst. auto. Qed.

Lemma nodup_mid_r : forall (l0 l1 l2 : list N), NoDup (l0 ++ l1 ++ l2) -> NoDup (l0 ++ l2).
Proof.
  induction l0 as [|x l0 IH]; cbn; intros l1 l2 H.
  - eapply nodup_app_r; eauto.
  - inversion H; subst. constructor; [|eauto].
    intros Hin. apply H2. apply in_app_or in Hin. apply in_or_app. destruct Hin; [left|right; apply in_or_app; right]; assumption.
Qed.

(* the monitor drops a prefix of its pending actions without touching a channel *)
Lemma inv_chan_sub : forall (s s' : sys) r0 e0,
  inv_chan s -> s_thr s' = s_thr s -> s_ctl s' = s_ctl s ->
  s_replies s' = s_replies s -> s_eresps s' = s_eresps s ->
  reply_ids (pend_of s) = r0 ++ reply_ids (pend_of s') ->
  enable_ids (pend_of s) = e0 ++ enable_ids (pend_of s') ->
  inv_chan s'.
Proof.
  intros s s' r0 e0 [a b c d e f] T C R E Pr Pe.
  rewrite Pr in *. rewrite Pe in *.
  constructor; rewrite ?T, ?C, ?R, ?E.
  - eapply nodup_app_r; eauto.
  - intros rid H. apply b. apply in_or_app. auto.
  - intros rid [H|H]; apply c; [left; apply in_or_app|]; auto.
  - eapply nodup_mid_r; eauto.
  - intros rid H. apply e. apply in_app_or in H. apply in_or_app. destruct H; [left|right; apply in_or_app; right]; assumption.
  - intros rid [H|H]; apply f; [left|]; auto.
    apply in_app_or in H. apply in_or_app. destruct H; [left|right; apply in_or_app; right]; assumption.
Qed.

Lemma inv_chan_step : forall s l s', inv_chan s -> step s l = Some s' -> inv_chan s'.
Proof.
  intros s l s' I H.
  pose proof (step_thr_mono s l s' H) as M.
  pose proof (non_monitor_frame s l s' H) as F.
  destruct l; cbn [System.step] in H.
  - (* LApiStart *) apply api_start_frame in H. eapply inv_chan_frame; eauto. tauto.
  - (* LApiAct *)
    destruct (api_act_ctl s tid arm s' H) as [C|[C [[t [Ht Hpc]] Hnew]]]; [eapply inv_chan_frame; eauto|].
    apply mon_part_eq in F. destruct F as [F1 [_ [_ [_ [F5 F6]]]]].
    assert (P : pend_of s' = pend_of s) by (unfold pend_of; rewrite F1; reflexivity).
    destruct I as [a b c d e f].
    assert (Hfresh : ~ In tid (s_ctl s ++ enable_ids (pend_of s)) /\ lookup tid (s_eresps s) = None).
    { split.
      - intros Hin. eapply not_both_ctl; eauto.
      - destruct (lookup tid (s_eresps s)) eqn:E; [|reflexivity]. exfalso.
        eapply not_both_ctl; eauto. apply f. right. congruence. }
    destruct Hfresh as [Hf1 Hf2].
    constructor; rewrite ?P, ?F5, ?F6, ?C; auto.
    + intros rid Hr. eapply has_pc_mono_offer; eauto.
    + rewrite <- app_assoc. apply nodup_insert_mid; assumption.
    + intros rid Hr. rewrite <- app_assoc in Hr. apply in_app_or in Hr. destruct Hr as [Hr|Hr].
      * apply e. apply in_or_app. auto.
      * destruct Hr as [Hr|Hr]; [subst; exact Hf2|]. apply e. apply in_or_app. auto.
    + intros rid [Hr|Hr].
      * rewrite <- app_assoc in Hr. apply in_app_or in Hr. destruct Hr as [Hr|[Hr|Hr]].
        -- eapply has_pc_mono_ctl; eauto. apply f. left. apply in_or_app. auto.
        -- subst. exact Hnew.
        -- eapply has_pc_mono_ctl; eauto. apply f. left. apply in_or_app. auto.
      * eapply has_pc_mono_ctl; eauto.
  - (* LMonRecv *)
    unfold System.mon_recv_step in H.
    destruct (s_mon s) as [|st pend|] eqn:Em; try discriminate H. destruct pend; [|discriminate H].
    assert (P0 : pend_of s = []) by (unfold pend_of; rewrite Em; reflexivity).
    destruct I as [a b c d e f]. rewrite P0 in *. cbn [reply_ids enable_ids flat_map] in *. rewrite app_nil_r in *.
    destruct src.
    + destruct (s_main s); [|discriminate]. inversion H; subst. clear H.
      destruct (mon_take_pend_ids s st InCtxDone) as [R E].
      destruct (mon_take_fields s st InCtxDone) as [_ [_ [_ [Fr [Fe [Ft [_ [Fc _]]]]]]]].
      constructor; rewrite ?R, ?E, ?Fr, ?Fe, ?Ft, ?Fc, ?app_nil_r.
      * constructor.
      * intros r [].
      * intros r [[]|Hr]. apply c. auto.
      * exact d.
      * exact e.
      * exact f.
    + destruct (s_ctl s) as [|rid rest] eqn:Ec; [discriminate|]. inversion H; subst. clear H.
      destruct (mon_take_pend_ids (with_ctl s rest) st (InEnable rid)) as [R E].
      destruct (mon_take_fields (with_ctl s rest) st (InEnable rid)) as [_ [_ [_ [Fr [Fe [Ft [_ [Fc _]]]]]]]].
      cbn in Fr, Fe, Ft, Fc.
      assert (Hperm : forall x, In x (rest ++ [rid]) <-> In x (rid :: rest)).
      { intros x. rewrite in_app_iff. cbn. tauto. }
      constructor; rewrite ?R, ?E, ?Fr, ?Fe, ?Ft, ?Fc.
      * constructor.
      * intros r [].
      * intros r [[]|Hr]. apply c. auto.
      * inversion d; subst. apply nodup_insert_mid; rewrite app_nil_r; assumption.
      * intros r Hr. apply e. apply Hperm. exact Hr.
      * intros r [Hr|Hr]; [apply f; left; apply Hperm; exact Hr|apply f; auto].
    + destruct (lookup tid (s_thr s)) as [t|] eqn:El; [|discriminate].
      destruct (t_pc t) eqn:Epc; try discriminate. inversion H; subst. clear H.
      match goal with |- inv_chan (mon_take _ _ _ ?s1 _ _) => set (s1' := s1) in * end.
      destruct (mon_take_pend_ids s1' st (msg_in tid m)) as [R E].
      destruct (mon_take_fields s1' st (msg_in tid m)) as [_ [_ [_ [Fr [Fe [Ft [_ [Fc _]]]]]]]].
      assert (S1 : s_replies s1' = s_replies s /\ s_eresps s1' = s_eresps s /\ s_ctl s1' = s_ctl s).
      { subst s1'. destruct m as [? ? []| |]; repeat split; reflexivity. }
      destruct S1 as [S1 [S2 S3]].
      assert (Hnr : lookup tid (s_replies s) = None).
      { destruct (lookup tid (s_replies s)) eqn:E1; [|reflexivity]. exfalso.
        eapply not_both_offer; eauto. apply c. right. congruence. }
      assert (Ee : enable_ids (pend_of (mon_take stack verify p s1' st (msg_in tid m))) = []).
      { rewrite E. destruct m; reflexivity. }
      assert (Rr : forall r, In r (reply_ids (pend_of (mon_take stack verify p s1' st (msg_in tid m)))) ->
                   r = tid /\ has_pc not_offer (s_thr s1') tid).
      { intros r Hr. rewrite R in Hr. destruct m as [? ? []| |]; cbn in Hr; try contradiction.
        destruct Hr as [Hr|[]]. subst r. split; [reflexivity|].
        subst s1'. cbn. eexists. rewrite lookup_update, N.eqb_refl. split; reflexivity. }
      constructor; rewrite ?Ee, ?Fr, ?Fe, ?Ft, ?Fc, ?S1, ?S2, ?S3, ?app_nil_r.
      * rewrite R. destruct m as [? ? []| |]; cbn; repeat constructor; auto.
      * intros r Hr. destruct (Rr r Hr) as [-> _]. exact Hnr.
      * intros r [Hr|Hr].
        -- destruct (Rr r Hr) as [-> Hp]. exact Hp.
        -- rewrite <- Ft. eapply has_pc_mono_offer; [exact M|]. apply c. auto.
      * exact d.
      * exact e.
      * intros r Hr. rewrite <- Ft. eapply has_pc_mono_ctl; [exact M|]. apply f. exact Hr.
  - (* LMonAct *)
    unfold System.mon_act_step in H.
    destruct (s_mon s) as [|st pend|] eqn:Em; try discriminate H. destruct pend as [|x rest]; [discriminate H|].
    assert (P0 : pend_of s = x :: rest) by (unfold pend_of; rewrite Em; reflexivity).
    destruct x as [c0 b0|v|v|rid r|ev|rid r|].
    + inv_step H. eapply (inv_chan_sub s _ [] []); eauto; rewrite P0; reflexivity.
    + inv_step H. eapply (inv_chan_sub s _ [] []); eauto; rewrite P0; reflexivity.
    + inv_step H; eapply (inv_chan_sub s _ [] []); eauto; rewrite P0; reflexivity.
    + (* AReply *)
      inv_step H. destruct I as [a b c d e f]. rewrite P0 in *.
      cbn [reply_ids enable_ids flat_map app] in *. fold (reply_ids rest) in *. fold (enable_ids rest) in *.
      constructor; cbn [pend_of s_mon s_replies s_eresps s_thr s_ctl logged with_replies with_mon]; auto.
      * inversion a; subst; assumption.
      * intros rid0 Hr. rewrite lookup_update. inversion a; subst.
        destruct (rid0 =? rid) eqn:E1; [apply N.eqb_eq in E1; subst; contradiction|]. apply b. right. exact Hr.
      * intros rid0 [Hr|Hr]; [apply c; left; right; exact Hr|].
        rewrite lookup_update in Hr. destruct (rid0 =? rid) eqn:E1.
        -- apply N.eqb_eq in E1. subst. apply c. left. left. reflexivity.
        -- apply c. right. exact Hr.
    + inv_step H; eapply (inv_chan_sub s _ [] []); eauto; rewrite P0; reflexivity.
    + (* AEnableReply *)
      inv_step H. destruct I as [a b c d e f]. rewrite P0 in *.
      cbn [reply_ids enable_ids flat_map app] in *. fold (reply_ids rest) in *. fold (enable_ids rest) in *.
      constructor; cbn [pend_of s_mon s_replies s_eresps s_thr s_ctl logged with_eresps with_mon]; auto.
      * apply NoDup_remove_1 in d. exact d.
      * intros rid0 Hr. rewrite lookup_update.
        destruct (rid0 =? rid) eqn:E1.
        -- apply N.eqb_eq in E1. subst. apply NoDup_remove_2 in d. contradiction.
        -- apply e. apply in_app_or in Hr. apply in_or_app. destruct Hr; [left|right; right]; assumption.
      * intros rid0 [Hr|Hr].
        -- apply f. left. apply in_app_or in Hr. apply in_or_app. destruct Hr; [left|right; right]; assumption.
        -- rewrite lookup_update in Hr. destruct (rid0 =? rid) eqn:E1.
           ++ apply N.eqb_eq in E1. subst. apply f. left. apply in_or_app. right. left. reflexivity.
           ++ apply f. right. exact Hr.
    + (* AExit *)
      inv_step H. eapply (inv_chan_sub s _ (reply_ids rest) (enable_ids rest)); eauto; rewrite P0; cbn; rewrite app_nil_r; reflexivity.
  - (* LCbTake *) apply cb_take_frame in H. eapply inv_chan_frame; eauto. tauto.
  - apply cb_return_frame in H. eapply inv_chan_frame; eauto. tauto.
  - apply cb_ack_frame in H. eapply inv_chan_frame; eauto. tauto.
  - destruct (s_main s); [discriminate|]. inversion H; subst. eapply inv_chan_frame; eauto.
  - apply cancel_call_frame in H. eapply inv_chan_frame; eauto. tauto.
Qed.

Lemma init_inv_chan : forall inits watching s0,
  snd (sys_init stack verify p inits watching) = Ok s0 -> inv_chan s0.
Proof.
  intros inits watching s0 H. unfold sys_init in H. cbn [snd] in H.
  destruct (cr_out (config_init stack verify p inits watching)) as [[v st]| |]; try discriminate.
  inversion H; subst. clear H.
  assert (P : pend_of (mkSys v None (if existsb (fun b => b) watching then MRun st [] else MNone) [] [] false
                (if existsb (fun b => b) watching then CRun cb_init [] else CNone) [] false [] [] [] [] false
                (map (fun cb => GVerify (fst cb) (snd cb)) (cr_verify_log (config_init stack verify p inits watching)))) = []).
  { unfold pend_of. cbn. destruct (existsb _ watching); reflexivity. }
  constructor; rewrite P; cbn.
  - constructor.
  - intros ? [].
  - intros rid [[]|Hc]. exfalso. apply Hc. reflexivity.
  - constructor.
  - intros ? [].
  - intros rid [[]|Hc]. exfalso. apply Hc. reflexivity.
Qed.

(* C07 monitor_never_blocks_on_reply / C08 monitor_independent_of_callbacks:
   in every reachable state in which the monitor has something left to do, its
   next action can be taken at once - whatever the callback goroutine, the
   callbacks or the API callers are doing, and also when the caller it answers
   has long gone: Store always, the try-sends with one of their two arms, the
   replies because their channels have capacity 1 and are written once. *)
Theorem monitor_always_enabled_l : forall inits watching s0 ls s st a rest,
  snd (sys_init stack verify p inits watching) = Ok s0 -> run s0 ls = Some s ->
  s_mon s = MRun st (a :: rest) ->
  exists drop s', mon_act_step s drop = Some s'.
Proof.
  intros inits watching s0 ls s st a rest H0 Hr Hm.
  assert (I : inv_chan s).
  { apply (run_inv inv_chan inv_chan_step ls s0 s); [|exact Hr]. eapply init_inv_chan; eauto. }
  destruct I as [ia ib ic id ie if_].
  assert (P0 : pend_of s = a :: rest) by (unfold pend_of; rewrite Hm; reflexivity).
  rewrite P0 in *. unfold System.mon_act_step. rewrite Hm.
  destruct a as [c0 b0|v|v|rid r|ev|rid r|].
  - exists false. eexists. reflexivity.
  - exists false. eexists. reflexivity.
  - destruct (s_updates s); [exists true|exists false]; eexists; reflexivity.
  - exists false. rewrite (ib rid) by (left; reflexivity). eexists. reflexivity.
  - destruct (has_room cbcap s) eqn:E.
    + exists false. eexists. reflexivity.
    + exists true. rewrite orb_true_r. eexists. reflexivity.
  - exists false. rewrite (ie rid) by (apply in_or_app; right; left; reflexivity). eexists. reflexivity.
  - exists false. eexists. reflexivity.
Qed.

(* hence with the callback goroutine stuck for ever (no callback step is ever
   taken again) every pending action of the monitor still completes: after at
   most |pending| monitor steps it is back at its select *)
Theorem monitor_drains_without_callbacks_l : forall inits watching s0 ls s,
  snd (sys_init stack verify p inits watching) = Ok s0 -> run s0 ls = Some s ->
  exists ms s', Forall (fun l => match l with LMonAct _ => True | _ => False end) ms /\
    run s ms = Some s' /\ pend_of s' = [] /\ (length ms <= length (pend_of s))%nat.
Proof.
  intros inits watching s0 ls s H0 Hr.
  assert (G : forall n ls s, run s0 ls = Some s -> (length (pend_of s) <= n)%nat ->
    exists ms s', Forall (fun l => match l with LMonAct _ => True | _ => False end) ms /\
      run s ms = Some s' /\ pend_of s' = [] /\ (length ms <= length (pend_of s))%nat).
  { clear ls s Hr. induction n as [|n IH]; intros ls s Hr Hn.
    - exists [], s. repeat split; auto; [|cbn; lia]. destruct (pend_of s); [reflexivity|cbn in Hn; lia].
    - destruct (pend_of s) as [|a0 rest0] eqn:Ep.
      + exists [], s. repeat split; auto.
      + unfold pend_of in Ep. destruct (s_mon s) as [|st pend|] eqn:Em; try discriminate. subst pend.
        destruct (monitor_always_enabled_l inits watching s0 ls s st a0 rest0 H0 Hr Em) as [drop [s1 Hs1]].
        assert (Hp1 : (length (pend_of s1) <= length rest0)%nat).
        { unfold System.mon_act_step in Hs1. rewrite Em in Hs1.
          destruct a0; inv_step Hs1; unfold pend_of; cbn; lia. }
        assert (Hr1 : run s0 (ls ++ [LMonAct drop]) = Some s1).
        { rewrite run_app, Hr. cbn. rewrite Hs1. reflexivity. }
        cbn in Hn.
        destruct (IH (ls ++ [LMonAct drop]) s1 Hr1) as [ms [s' [Hf [Hrun [Hpe Hlen]]]]]; [lia|].
        exists (LMonAct drop :: ms), s'. repeat split; auto.
        * cbn. rewrite Hs1. exact Hrun.
        * cbn. lia. }
  eapply G; eauto.
Qed.

End Proofs.
