(* PROOFS: C04 observed_are_installed as an invariant of the system: in every
   schedule, every config returned by a ViewVersion/View read, received from or
   sent on Events, returned by EnableVerification, or passed to any callback
   (OnNewConfig, OnWatchedError's current config, registered callbacks, old or
   new argument, catch-up included) is the initial config or the config of a
   Store that is earlier in the history.  (The rejected config handed to
   OnWatchedError is by definition not installed and is not covered.) *)
From Coq Require Import List NArith Bool Lia.
From Dials Require Import Base.Outcome Core.CbMgr Core.CbMgrProofs Core.Monitor Core.MonitorProofs
  Core.System Core.SystemProofs.
Import ListNotations.
Open Scope N_scope.

Section Proofs.
Context {cfg sv : Type}.
Variable stack : list sv -> option cfg.
Variable verify : cfg -> bool.
Variable p : params.
Variable on_new on_err : bool.
Variable cbcap : N.

Notation sys := (sys cfg sv).
Notation label := (label sv).
Notation gevent := (gevent cfg sv).
Notation cb_event := (cb_event cfg).
Notation cb_out := (cb_out cfg).
Notation invocation := (invocation cfg).
Notation mon_act := (mon_act cfg).
Notation vcfg := (vcfg cfg).
Notation step := (@step cfg sv stack verify p on_new on_err cbcap).
Notation run := (@run cfg sv stack verify p on_new on_err cbcap).
Notation mon_hist := (@mon_hist cfg sv).
Notation pend_of := (@pend_of cfg sv).
Notation splitv := (@split_verifies cfg sv).

(* installed configs mentioned by the various objects *)
Definition ev_configs (ev : cb_event) : list vcfg :=
  match ev with
  | EvNew o n _ _ => [o; n]
  | EvErr _ o _ => [o]
  | EvReg _ (Some tc) => [tc]
  | _ => []
  end.
Definition inv_configs (i : invocation) : list vcfg :=
  match i with
  | InvNewGlobal o n => [o; n]
  | InvErrGlobal _ o _ => [o]
  | InvUser _ o (Some n) _ => [o; n]
  | InvUser _ o None _ => [o]
  end.
Definition out_configs (o : cb_out) : list vcfg := match o with OInv i => inv_configs i | OAck _ => [] end.
Definition act_configs (a : mon_act) : list vcfg :=
  match a with
  | ATryUpdates v => [v]
  | ATrySubmit ev => ev_configs ev
  | AEnableReply _ (EOk v) => [v]
  | _ => []
  end.
Definition ret_configs (r : ret cfg) : list vcfg :=
  match r with
  | RetView v => [v]
  | RetEvents (Some v) => [v]
  | RetEnable (EOk v) => [v]
  | _ => []
  end.
(* what a program observes at a history event *)
Definition obs_configs (g : gevent) : list vcfg :=
  match g with
  | GRet _ r => ret_configs r
  | GCall i => inv_configs i
  | GAct (ATryUpdates v) false => [v]      (* sent on the Events channel *)
  | _ => []
  end.

Variable init : vcfg.     (* the pair published by Config *)

(* v is the initial config or was stored somewhere in this history *)
Definition Inst (log : list gevent) (v : vcfg) : Prop := v = init \/ In v (stores_of (mon_hist log)).

Lemma inst_app : forall log es v, Inst log v -> Inst (log ++ es) v.
Proof.
  intros log es v [H|H]; [left; exact H|right].
  rewrite mon_hist_app, stores_of_app. apply in_or_app. left. exact H.
Qed.

(* pending monitor actions only mention configs installed by then *)
Fixpoint acts_ok (P : vcfg -> Prop) (l : list mon_act) : Prop :=
  match l with
  | [] => True
  | a :: r => (forall v, In v (act_configs a) -> P v) /\
              acts_ok (fun v => P v \/ match a with AStore w => v = w | _ => False end) r
  end.

Lemma acts_ok_mono : forall l (P Q : vcfg -> Prop), (forall v, P v -> Q v) -> acts_ok P l -> acts_ok Q l.
Proof.
  induction l as [|a r IH]; intros P Q H HP; [exact I|].
  destruct HP as [H1 H2]. split; [auto|]. eapply IH; [|exact H2]. intros v [Hv|Hv]; auto.
Qed.

Lemma recv_acts_ok : forall (P : vcfg -> Prop) cur st (i : mon_in sv),
  P cur -> acts_ok P (snd (mon_recv stack verify p cur st i)).
Proof.
  intros P cur st i Hc. destruct i as [src x rid|src|src|rid|]; cbn [mon_recv].
  - destruct (stack _) as [c|]; [destruct (m_skip st); [|destruct (verify c)]|]; destruct rid; cbn;
      repeat split; intros; repeat match goal with H : _ \/ _ |- _ => destruct H end; subst; auto; contradiction.
  - cbn [snd]. destruct (src_err_delivered p (m_skip st)); cbn;
      repeat split; intros; repeat match goal with H : _ \/ _ |- _ => destruct H end; subst; auto; contradiction.
  - cbn [snd]. destruct (existsb _ _); cbn; repeat split; intros; contradiction.
  - destruct (m_skip st); [destruct (verify (snd cur))|]; cbn;
      repeat split; intros; repeat match goal with H : _ \/ _ |- _ => destruct H end; subst; auto; contradiction.
  - cbn. repeat split; intros; contradiction.
Qed.

Lemma splitv_acts_ok : forall (acts : list mon_act) (P : vcfg -> Prop),
  acts_ok P acts -> acts_ok P (snd (splitv acts)).
Proof.
  induction acts as [|a r IH]; intros P H; [exact I|].
  destruct a; try exact H.
  cbn [System.split_verifies]. destruct (splitv r) as [g r'] eqn:E. cbn [snd] in *.
  apply IH. destruct H as [_ H]. eapply acts_ok_mono; [|exact H]. intros v [Hv|[]]. exact Hv.
Qed.

(* the callback goroutine's loop body only hands out configs it was given *)
Lemma cb_step_configs : forall (P : vcfg -> Prop) st ev,
  (forall v, In v (ev_configs ev) -> P v) ->
  (forall v, cb_last_version st = Some v -> P v) ->
  (forall o v, In o (snd (cb_step on_new on_err st ev)) -> In v (out_configs o) -> P v) /\
  (forall v, cb_last_version (fst (cb_step on_new on_err st ev)) = Some v -> P v).
Proof.
  intros P st ev He Hl. destruct ev as [o n k sup|e o rej|h tok|h a]; cbn [cb_step fst snd].
  - split.
    + intros x v Hx Hv. apply in_app_or in Hx. destruct Hx as [Hx|Hx].
      * destruct (on_new && negb sup); [|destruct Hx]. destruct Hx as [<-|[]]. apply He. exact Hv.
      * apply in_flat_map in Hx. destruct Hx as [hm [_ Hx]]. unfold deliver_new in Hx.
        destruct (k <=? snd hm); [destruct Hx|]. destruct Hx as [<-|[]]. apply He. exact Hv.
    + cbn. intros v Hv. inversion Hv; subst. apply He. right. left. reflexivity.
  - split; [|exact Hl]. intros x v Hx Hv. destruct on_err; [|destruct Hx]. destruct Hx as [<-|[]]. apply He. exact Hv.
  - split; [|exact Hl]. intros x v Hx Hv. destruct tok as [tc|]; [|destruct Hx].
    destruct (fst tc <? cb_last_serial st); [|destruct Hx]. destruct Hx as [<-|[]].
    cbn in Hv. destruct (cb_last_version st) as [lv|] eqn:E.
    + destruct Hv as [<-|[<-|[]]]; [apply He; left; reflexivity|apply Hl; reflexivity].
    + destruct Hv as [<-|[]]. apply He. left. reflexivity.
  - split; [|exact Hl]. intros x v Hx Hv. destruct Hx as [<-|[]]. destruct Hv.
Qed.

Record inv_obs (s : sys) : Prop := mkInvObs {
  io_value : Inst (s_log s) (s_value s);
  io_updates : forall v, s_updates s = Some v -> Inst (s_log s) v;
  io_tokens : forall sl v, lookup sl (s_tokens s) = Some v -> Inst (s_log s) v;
  io_eresps : forall rid v, lookup rid (s_eresps s) = Some (EOk v) -> Inst (s_log s) v;
  io_cbq : forall ev v, In ev (s_cbq s) -> In v (ev_configs ev) -> Inst (s_log s) v;
  io_thr : forall tid t ev v, lookup tid (s_thr s) = Some t -> t_pc t = PEnqueue ev ->
           In v (ev_configs ev) -> Inst (s_log s) v;
  io_cb : match s_cb s with
          | CRun cst pend =>
              (forall v, cb_last_version cst = Some v -> Inst (s_log s) v) /\
              (forall o v, In o pend -> In v (out_configs o) -> Inst (s_log s) v)
          | _ => True
          end;
  io_pend : acts_ok (Inst (s_log s)) (pend_of s);
  io_log : forall l1 g l2 v, s_log s = l1 ++ g :: l2 -> In v (obs_configs g) -> Inst l1 v
}.

Lemma io_log_ext : forall log es,
  (forall l1 g l2 v, log = l1 ++ g :: l2 -> In v (obs_configs g) -> Inst l1 v) ->
  (forall g v, In g es -> In v (obs_configs g) -> Inst log v) ->
  forall l1 g l2 v, log ++ es = l1 ++ g :: l2 -> In v (obs_configs g) -> Inst l1 v.
Proof.
  intros log es Hold Hnew l1 g l2 v Heq Hv.
  apply app_eq_app in Heq. destruct Heq as [l [[E1 E2]|[E1 E2]]].
  - (* log = l1 ++ l, g :: l2 = l ++ es *)
    destruct l as [|x l].
    + rewrite app_nil_r in E1. subst l1. cbn in E2. destruct es as [|e es']; [discriminate|].
      inversion E2; subst. eapply (Hnew _ v); [left; reflexivity|exact Hv].
    + cbn in E2. inversion E2; subst. eapply Hold; [reflexivity|exact Hv].
  - (* l1 = log ++ l, es = l ++ g :: l2 *)
    subst l1. apply inst_app. apply (Hnew g v); [|exact Hv]. rewrite E2. apply in_or_app. right. left. reflexivity.
Qed.

(* steps that touch neither the monitor's nor the callback goroutine's control state *)
Lemma inv_obs_frame : forall s s' es,
  inv_obs s -> s_log s' = s_log s ++ es ->
  (forall g v, In g es -> In v (obs_configs g) -> Inst (s_log s) v) ->
  s_value s' = s_value s ->
  (forall v, s_updates s' = Some v -> s_updates s = Some v) ->
  (forall sl v, lookup sl (s_tokens s') = Some v -> lookup sl (s_tokens s) = Some v \/ v = s_value s) ->
  (forall rid v, lookup rid (s_eresps s') = Some (EOk v) -> lookup rid (s_eresps s) = Some (EOk v)) ->
  (forall ev, In ev (s_cbq s') -> In ev (s_cbq s) \/ (forall v, In v (ev_configs ev) -> Inst (s_log s) v)) ->
  s_cb s' = s_cb s -> s_mon s' = s_mon s ->
  (forall tid t ev, lookup tid (s_thr s') = Some t -> t_pc t = PEnqueue ev ->
      (exists t0, lookup tid (s_thr s) = Some t0 /\ t_pc t0 = PEnqueue ev) \/
      (forall v, In v (ev_configs ev) -> Inst (s_log s) v)) ->
  inv_obs s'.
Proof.
  intros s s' es I L Hes Hv Hu Ht He Hq Hc Hm Hth.
  destruct I as [i1 i2 i3 i4 i5 i6 i7 i8 i9].
  constructor; rewrite L.
  - rewrite Hv. apply inst_app. exact i1.
  - intros v H. apply inst_app. eauto.
  - intros sl v H. apply inst_app. destruct (Ht sl v H) as [H1| ->]; eauto.
  - intros rid v H. apply inst_app. eauto.
  - intros ev v H1 H2. apply inst_app. destruct (Hq ev H1) as [H3|H3]; eauto.
  - intros tid t ev v H1 H2 H3. apply inst_app. destruct (Hth tid t ev H1 H2) as [[t0 [A B]]|H4]; eauto.
  - rewrite Hc. destruct (s_cb s) as [|cst pend|]; auto. destruct i7 as [A B]. split; intros; apply inst_app; eauto.
  - unfold SystemProofs.pend_of in *. rewrite Hm. eapply acts_ok_mono; [|exact i8]. intros v. apply inst_app.
  - apply io_log_ext; assumption.
Qed.

Ltac log_ext := first [ cbn; rewrite <- ?app_assoc; reflexivity | cbn; symmetry; apply app_nil_r ].

(* the thread-table obligation when one entry is replaced *)
Ltac thr_obl :=
  cbn; let tid0 := fresh "tid0" in let t0 := fresh "t0" in let ev0 := fresh "ev0" in
  let Hl0 := fresh "Hl0" in let Hpc0 := fresh "Hpc0" in let Et := fresh "Et" in
  intros tid0 t0 ev0 Hl0 Hpc0; rewrite lookup_update in Hl0;
  destruct (tid0 =? _) eqn:Et;
  [apply N.eqb_eq in Et; subst; inversion Hl0; subst; cbn in Hpc0; try discriminate Hpc0
  |left; eauto].

Definition es_ok (P : vcfg -> Prop) (es : list gevent) : Prop :=
  forall g v, In g es -> In v (obs_configs g) -> P v.

Lemma es_ok_nil : forall P, es_ok P [].
Proof. intros P g v []. Qed.
Lemma es_ok_cons : forall (P : vcfg -> Prop) g es,
  (forall v, In v (obs_configs g) -> P v) -> es_ok P es -> es_ok P (g :: es).
Proof. intros P g es Hg He g' v [<-|Hin] Hv; [auto|eapply He; eauto]. Qed.
Lemma es_ok_app : forall P a b, es_ok P a -> es_ok P b -> es_ok P (a ++ b).
Proof. intros P a b Ha Hb g v Hin Hv. apply in_app_or in Hin. destruct Hin; [eapply Ha|eapply Hb]; eauto. Qed.
Lemma es_ok_verifs : forall P (vl : list (cfg * bool)), es_ok P (map (fun cb => GVerify (fst cb) (snd cb)) vl).
Proof. intros P vl g v Hin Hv. apply in_map_iff in Hin. destruct Hin as [x [<- _]]. destruct Hv. Qed.
Lemma es_ok_splitv : forall P (acts : list mon_act), es_ok P (fst (splitv acts)).
Proof.
  intros P. induction acts as [|a r IH]; [apply es_ok_nil|].
  destruct a; try apply es_ok_nil.
  cbn [System.split_verifies]. destruct (splitv r) as [g r'] eqn:E. cbn [fst] in *.
  apply es_ok_cons; [intros v []|exact IH].
Qed.
Lemma es_ok_enter : forall (P : vcfg -> Prop) (pend : list cb_out),
  (forall o v, In o pend -> In v (out_configs o) -> P v) -> es_ok P (cb_enter pend).
Proof.
  intros P [|[i|a] r] H; try apply es_ok_nil. cbn. apply es_ok_cons; [|apply es_ok_nil].
  intros v Hv. apply (H (OInv i) v); [left; reflexivity|exact Hv].
Qed.

Ltac es_tac :=
  repeat first
    [ apply es_ok_nil | apply es_ok_verifs | apply es_ok_splitv
    | apply es_ok_cons; [cbn; try (intros ? []; fail)|]
    | apply es_ok_app ].

Lemma inv_obs_api_start : forall s tid op s', inv_obs s -> api_start verify p s tid op = Some s' -> inv_obs s'.
Proof.
  intros s tid op s' I H. unfold System.api_start in H.
  destruct (lookup tid (s_thr s)) eqn:El; [discriminate|].
  destruct op; unfold start_enqueue in H; inv_step H;
    (eapply inv_obs_frame;
       [exact I|log_ext| |reflexivity|cbn; try (intros; discriminate); auto|cbn; auto|cbn; auto|cbn; auto
       |reflexivity|reflexivity|thr_obl]); es_tac;
    first
      [ (intros v [<-|[]]; apply (io_value _ I))
      | (intros sl v Hl; rewrite lookup_update in Hl; destruct (sl =? _); [inversion Hl; auto|auto])
      | (intros v Hv; destruct (s_updates s) eqn:Eu; [destruct Hv as [<-|[]]; eapply io_updates; eauto|destruct Hv])
      | (right; match goal with Hp : PEnqueue _ = PEnqueue _ |- _ => inversion Hp; subst end;
         cbn; intros v Hv;
         first [contradiction
               |destruct (lookup _ (s_tokens s)) eqn:Etok; [destruct Hv as [<-|[]]; eapply io_tokens; eauto|destruct Hv]])
      | (unfold enable_nomon in *; intros v Hv;
         repeat match goal with Hq : (if ?b then _ else _) = _ |- _ => destruct b end;
         match goal with Hq : (_, _) = (_, _) |- _ => inversion Hq; subst end;
         cbn in Hv; try contradiction; destruct Hv as [<-|[]]; apply (io_value _ I)) ].
Qed.

Lemma inv_obs_api_act : forall s tid arm s', inv_obs s -> api_act cbcap s tid arm = Some s' -> inv_obs s'.
Proof.
  intros s tid arm s' I H. unfold System.api_act in H.
  destruct (lookup tid (s_thr s)) as [t|] eqn:El; [|discriminate].
  destruct (t_pc t) eqn:Epc; inv_step H;
    (eapply inv_obs_frame;
       [exact I|log_ext| |reflexivity|cbn; auto|cbn; auto|cbn; auto| |reflexivity|reflexivity|thr_obl]);
    try (cbn; auto; fail); es_tac.
  all: try (intros v Hv; destruct r; destruct Hv; fail).
  all: try (intros v Hv; unfold enqueue_fail in Hv; destruct (t_op t); destruct Hv; fail).
  all: try (cbn; intros ev0 Hin; apply in_app_or in Hin; destruct Hin as [Hin|[<-|[]]];
            [left; exact Hin|right; intros v Hv; eapply (io_thr _ I); eauto]; fail).
  intros v Hv. destruct e; [destruct Hv as [<-|[]]; eapply (io_eresps _ I); eauto|destruct Hv].
Qed.

Lemma inv_obs_cancel : forall s tid s', inv_obs s -> cancel_call s tid = Some s' -> inv_obs s'.
Proof.
  intros s tid s' I H. unfold cancel_call in H.
  destruct (lookup tid (s_thr s)) as [t|] eqn:El; [|discriminate].
  destruct (t_cancel t); [discriminate|].
  destruct (t_pc t) eqn:Epc; inv_step H;
    (eapply inv_obs_frame;
       [exact I|log_ext| |reflexivity|cbn; auto|cbn; auto|cbn; auto|cbn; auto|reflexivity|reflexivity|thr_obl]);
    es_tac.
  all: try (intros v Hv; destruct m; destruct Hv; fail).
  all: try (left; eexists; split; [exact El|congruence]).
Qed.

(* the general form: every component of the new state is either an old one or installed by now *)
Lemma inv_obs_gen : forall s s' es,
  inv_obs s -> s_log s' = s_log s ++ es -> es_ok (Inst (s_log s)) es ->
  Inst (s_log s') (s_value s') ->
  (forall v, s_updates s' = Some v -> s_updates s = Some v \/ Inst (s_log s') v) ->
  (forall sl v, lookup sl (s_tokens s') = Some v -> lookup sl (s_tokens s) = Some v) ->
  (forall rid v, lookup rid (s_eresps s') = Some (EOk v) ->
      lookup rid (s_eresps s) = Some (EOk v) \/ Inst (s_log s') v) ->
  (forall ev, In ev (s_cbq s') -> In ev (s_cbq s) \/ (forall v, In v (ev_configs ev) -> Inst (s_log s') v)) ->
  match s_cb s' with
  | CRun cst pend =>
      (forall v, cb_last_version cst = Some v -> Inst (s_log s') v) /\
      (forall o v, In o pend -> In v (out_configs o) -> Inst (s_log s') v)
  | _ => True
  end ->
  acts_ok (Inst (s_log s')) (pend_of s') ->
  s_thr s' = s_thr s ->
  inv_obs s'.
Proof.
  intros s s' es I L Hes Hv Hu Ht He Hq Hc Hp Hth.
  assert (M : forall v, Inst (s_log s) v -> Inst (s_log s') v) by (intros v Hi; rewrite L; apply inst_app; exact Hi).
  destruct I as [i1 i2 i3 i4 i5 i6 i7 i8 i9].
  constructor; auto.
  - intros v H. destruct (Hu v H); eauto.
  - intros sl v H. eauto.
  - intros rid v H. destruct (He rid v H); eauto.
  - intros ev v H1 H2. destruct (Hq ev H1) as [H3|H3]; eauto.
  - rewrite Hth. intros tid t ev v H1 H2 H3. eauto.
  - rewrite L. apply io_log_ext; assumption.
Qed.

Lemma inv_obs_take : forall s1 st i, inv_obs s1 -> inv_obs (mon_take stack verify p s1 st i).
Proof.
  intros s1 st i I. unfold mon_take.
  destruct (mon_recv stack verify p (s_value s1) st i) as [st' acts] eqn:Er.
  destruct (splitv acts) as [g pend] eqn:Es.
  eapply (inv_obs_gen s1 _ (GRecv i :: g)); [exact I|reflexivity| | | | | | | | |reflexivity]; cbn.
  - apply es_ok_cons; [intros v []|]. replace g with (fst (splitv acts)) by (rewrite Es; reflexivity). apply es_ok_splitv.
  - apply inst_app. apply (io_value _ I).
  - auto.
  - auto.
  - auto.
  - auto.
  - pose proof (io_cb _ I) as C. destruct (s_cb s1) as [|cst pd|]; auto. destruct C as [A B].
    split; intros; apply inst_app; eauto.
  - replace pend with (snd (splitv acts)) by (rewrite Es; reflexivity). apply splitv_acts_ok.
    replace acts with (snd (mon_recv stack verify p (s_value s1) st i)) by (rewrite Er; reflexivity).
    apply recv_acts_ok. apply inst_app. apply (io_value _ I).
Qed.

Lemma inv_obs_mon_recv : forall s src s', inv_obs s -> mon_recv_step stack verify p s src = Some s' -> inv_obs s'.
Proof.
  intros s src s' I H. unfold System.mon_recv_step in H.
  destruct (s_mon s) as [|st pend|]; try discriminate H. destruct pend; [|discriminate H].
  destruct src.
  - destruct (s_main s); [|discriminate]. inversion H; subst. apply inv_obs_take. exact I.
  - destruct (s_ctl s) as [|rid rest]; [discriminate|]. inversion H; subst. apply inv_obs_take.
    eapply (inv_obs_frame s _ []); [exact I|log_ext|apply es_ok_nil|reflexivity|auto|auto|auto|auto|reflexivity|reflexivity|].
    cbn. intros. left. eauto.
  - destruct (lookup tid (s_thr s)) as [t|] eqn:El; [|discriminate].
    destruct (t_pc t) eqn:Epc; try discriminate. inversion H; subst. apply inv_obs_take.
    destruct m as [src0 v0 []|src0|src0];
      (eapply inv_obs_frame; [exact I|log_ext| |reflexivity|cbn; auto|cbn; auto|cbn; auto|cbn; auto|reflexivity|reflexivity|thr_obl]);
      es_tac.
Qed.

Lemma inst_snoc : forall log (a : mon_act) d v,
  Inst log v \/ match a with AStore w => v = w | _ => False end -> Inst (log ++ [GAct a d]) v.
Proof.
  intros log a d v [H|H]; [apply inst_app; exact H|].
  destruct a; try contradiction. subst. right. rewrite mon_hist_app, stores_of_app. apply in_or_app. right. left. reflexivity.
Qed.

Lemma inv_obs_mon_act : forall s drop s', inv_obs s -> mon_act_step cbcap s drop = Some s' -> inv_obs s'.
Proof.
  intros s drop s' I H. unfold System.mon_act_step in H.
  destruct (s_mon s) as [|st pend|] eqn:Em; try discriminate H. destruct pend as [|a rest]; [discriminate H|].
  pose proof (io_pend _ I) as Hp. unfold SystemProofs.pend_of in Hp. rewrite Em in Hp. destruct Hp as [Ha Hr].
  pose proof (io_cb _ I) as Hc.
  assert (Hrest : forall d, acts_ok (Inst (s_log s ++ [GAct a d])) rest).
  { intros d. eapply acts_ok_mono; [|exact Hr]. intros v. apply inst_snoc. }
  destruct a as [c0 b0|v|v|rid r|ev|rid r|]; inv_step H;
    match goal with |- inv_obs (logged _ ?es) =>
      eapply (inv_obs_gen s _ es); [exact I|reflexivity| | | | | | | | |reflexivity]; cbn; auto
    end.
  all: try (es_tac; fail).
  all: try (apply inst_app; apply (io_value _ I)).
  all: try (destruct (s_cb s) as [|cst pd|]; auto; destruct Hc; split; intros; apply inst_app; eauto; fail).
  all: try (unfold SystemProofs.pend_of; cbn; apply Hrest).
  - (* AVerify (never pending in practice): pend *)
    unfold SystemProofs.pend_of. cbn. eapply acts_ok_mono; [|exact Hr]. intros v [Hv|[]]. apply inst_app. exact Hv.
  - (* AStore: the new value *)
    apply inst_snoc. right. reflexivity.
  - (* ATryUpdates sent: the event on the channel *)
    apply es_ok_cons; [|apply es_ok_nil]. cbn. intros w [<-|[]]. apply Ha. left. reflexivity.
  - intros w Hw. inversion Hw; subst. right. apply inst_app. apply Ha. left. reflexivity.
  - (* ATrySubmit enqueued *)
    intros ev0 Hin. apply in_app_or in Hin. destruct Hin as [Hin|[<-|[]]]; [left; exact Hin|].
    right. intros w Hw. apply inst_app. apply Ha. exact Hw.
  - (* AEnableReply *)
    intros rid0 w Hl. rewrite lookup_update in Hl. destruct (rid0 =? rid); [|left; exact Hl].
    inversion Hl; subst. right. apply inst_app. apply Ha. left. reflexivity.
Qed.

Lemma pend_mono : forall (s s' : sys) es, inv_obs s -> s_log s' = s_log s ++ es -> s_mon s' = s_mon s ->
  acts_ok (Inst (s_log s')) (pend_of s').
Proof.
  intros s s' es I L M. unfold SystemProofs.pend_of. rewrite M, L.
  eapply acts_ok_mono; [|exact (io_pend _ I)]. intros v. apply inst_app.
Qed.

Lemma inv_obs_cb_take : forall s s', inv_obs s -> cb_take_step on_new on_err s = Some s' -> inv_obs s'.
Proof.
  intros s s' I H. unfold System.cb_take_step in H.
  pose proof (io_cb _ I) as Hc.
  destruct (s_cb s) as [|cst pend|] eqn:Ec; try discriminate H. destruct pend; [|discriminate H].
  destruct Hc as [Hlv _].
  destruct (s_cbq s) as [|ev rest] eqn:Eq.
  - destruct (s_done s); [|discriminate]. inversion H; subst.
    eapply (inv_obs_gen s _ [GCbExit]); [exact I|reflexivity|es_tac| | | | | | |eapply pend_mono; [exact I|reflexivity|reflexivity]|reflexivity]; cbn; auto.
    + apply inst_app. apply (io_value _ I).
  - destruct (cb_step on_new on_err cst ev) as [cst' o] eqn:Es. inversion H; subst s'. clear H.
    assert (Hev : forall v, In v (ev_configs ev) -> Inst (s_log s) v).
    { intros v Hv. eapply (io_cbq _ I); [rewrite Eq; left; reflexivity|exact Hv]. }
    destruct (cb_step_configs (Inst (s_log s)) cst ev Hev Hlv) as [Ho Hl']. rewrite Es in Ho, Hl'. cbn [fst snd] in Ho, Hl'.
    eapply (inv_obs_gen s _ (GTake ev :: cb_enter o)); [exact I|reflexivity| | | | | | | |eapply pend_mono; [exact I|reflexivity|reflexivity]|reflexivity]; cbn; auto.
    + apply es_ok_cons; [intros v []|]. apply es_ok_enter. exact Ho.
    + apply inst_app. apply (io_value _ I).
    + intros ev0 Hin. left. rewrite Eq. right. exact Hin.
    + split; intros; apply inst_app; eauto.
Qed.

Lemma inv_obs_cb_return : forall (s s' : sys), inv_obs s -> cb_return_step s = Some s' -> inv_obs s'.
Proof.
  intros s s' I H. unfold cb_return_step in H.
  pose proof (io_cb _ I) as Hc.
  destruct (s_cb s) as [|cst pend|] eqn:Ec; try discriminate H. destruct pend as [|[i|a] r]; try discriminate H.
  inversion H; subst s'. clear H. destruct Hc as [Hlv Hp].
  eapply (inv_obs_gen s _ (GCbRet :: cb_enter r)); [exact I|reflexivity| | | | | | | |eapply pend_mono; [exact I|reflexivity|reflexivity]|reflexivity]; cbn; auto.
  - apply es_ok_cons; [intros v []|]. apply es_ok_enter. intros o v Ho Hv. eapply Hp; [right; exact Ho|exact Hv].
  - apply inst_app. apply (io_value _ I).
  - split; intros; apply inst_app; eauto. eapply Hp; [right; eassumption|eassumption].
Qed.

Lemma inv_obs_cb_ack : forall (s s' : sys), inv_obs s -> cb_ack_step s = Some s' -> inv_obs s'.
Proof.
  intros s s' I H. unfold cb_ack_step in H.
  pose proof (io_cb _ I) as Hc.
  destruct (s_cb s) as [|cst pend|] eqn:Ec; try discriminate H. destruct pend as [|[i|a] r]; try discriminate H.
  inversion H; subst s'. clear H. destruct Hc as [Hlv Hp].
  eapply (inv_obs_gen s _ (GAck a :: cb_enter r)); [exact I|reflexivity| | | | | | | |eapply pend_mono; [exact I|reflexivity|reflexivity]|reflexivity]; cbn; auto.
  - apply es_ok_cons; [intros v []|]. apply es_ok_enter. intros o v Ho Hv. eapply Hp; [right; exact Ho|exact Hv].
  - apply inst_app. apply (io_value _ I).
  - split; intros; apply inst_app; eauto. eapply Hp; [right; eassumption|eassumption].
Qed.

Lemma inv_obs_step : forall s l s', inv_obs s -> step s l = Some s' -> inv_obs s'.
Proof.
  intros s l s' I H. destruct l; cbn [System.step] in H.
  - eapply inv_obs_api_start; eauto.
  - eapply inv_obs_api_act; eauto.
  - eapply inv_obs_mon_recv; eauto.
  - eapply inv_obs_mon_act; eauto.
  - eapply inv_obs_cb_take; eauto.
  - eapply inv_obs_cb_return; eauto.
  - eapply inv_obs_cb_ack; eauto.
  - destruct (s_main s); [discriminate|]. inversion H; subst.
    eapply (inv_obs_frame s _ [GCancelMain]); [exact I|reflexivity|es_tac|reflexivity|auto|auto|auto|auto|reflexivity|reflexivity|].
    cbn. intros. left. eauto.
  - eapply inv_obs_cancel; eauto.
Qed.

Lemma init_inv_obs : forall inits watching s0,
  snd (sys_init stack verify p inits watching) = Ok s0 -> s_value s0 = init -> inv_obs s0.
Proof.
  intros inits watching s0 H Hi.
  destruct (init_shape stack verify p inits watching s0 H) as [c0 [st0 [_ [_ [_ [_ [L M]]]]]]].
  assert (Hs : s_updates s0 = None /\ s_tokens s0 = [] /\ s_eresps s0 = [] /\ s_cbq s0 = [] /\ s_thr s0 = [] /\
               (s_cb s0 = CNone \/ s_cb s0 = CRun cb_init [])).
  { unfold sys_init in H. cbn [snd] in H.
    destruct (cr_out (config_init stack verify p inits watching)) as [[v st]| |]; try discriminate.
    inversion H; subst. cbn. repeat split. destruct (existsb _ watching); auto. }
  destruct Hs as [S1 [S2 [S3 [S4 [S5 S6]]]]].
  constructor; rewrite ?S1, ?S2, ?S3, ?S4, ?S5.
  - left. exact Hi.
  - intros; discriminate.
  - intros; discriminate.
  - intros; discriminate.
  - intros ev v [].
  - intros; discriminate.
  - destruct S6 as [-> | ->]; [exact I|]. split; [intros; discriminate|intros ? ? []].
  - unfold SystemProofs.pend_of. rewrite M. destruct (existsb _ watching); exact I.
  - intros l1 g l2 v Hl Hv. exfalso.
    assert (Hg : In g (s_log s0)) by (rewrite Hl; apply in_or_app; right; left; reflexivity).
    rewrite L in Hg. apply in_map_iff in Hg. destruct Hg as [x [<- _]]. destruct Hv.
Qed.

End Proofs.

(* C04 observed_are_installed, every schedule: whatever config a program
   observes at some point of the history - the pair returned by a
   View/ViewVersion read, received from the Events channel or sent on it, returned
   by EnableVerification, or passed as old or new argument to OnNewConfig, to a
   registered callback (catch-up included) or as current config to
   OnWatchedError - is the pair published by Config or the pair of a Store that
   is earlier in the history *)
Theorem observed_are_installed_l : forall (cfg sv : Type) (stack : list sv -> option cfg) (verify : cfg -> bool)
    (p : params) (on_new on_err : bool) (cbcap : N) inits watching
    (s0 : sys cfg sv) ls (s : sys cfg sv) l1 g l2 v,
  snd (sys_init stack verify p inits watching) = Ok s0 ->
  run stack verify p on_new on_err cbcap s0 ls = Some s ->
  s_log s = l1 ++ g :: l2 -> In v (obs_configs g) ->
  v = s_value s0 \/ In v (stores_of (mon_hist l1)).
Proof.
  intros cfg sv stack verify p on_new on_err cbcap inits watching s0 ls s l1 g l2 v H0 Hr Hl Hv.
  assert (I : inv_obs (s_value s0) s).
  { apply (run_inv stack verify p on_new on_err cbcap (inv_obs (s_value s0))
             (inv_obs_step stack verify p on_new on_err cbcap (s_value s0)) ls s0 s); [|exact Hr].
    eapply init_inv_obs; eauto. }
  exact (io_log _ _ I l1 g l2 v Hl Hv).
Qed.
