(* Non-vacuity: concrete instances satisfying the hypotheses of the C04..C09
   theorems with non-trivial conclusions, and the pre-fix refutations.
   Everything here is decided by vm_compute on the concrete instance. *)
From Coq Require Import List NArith Bool Lia.
From Dials Require Import Base.Outcome Core.CbMgr Core.CbMgrProofs Core.Monitor Core.MonitorProofs
  Core.System Core.SystemProofs Core.Concrete.
Import ListNotations.
Open Scope N_scope.

Definition c0 := mkCfg 1 5 0.
Definition c1 := mkCfg 1 5 7.
Definition c2 := mkCfg 1 5 8.
Definition c3 := mkCfg 1 5 9.

(* a queue content: install 1; h=7 registers with the token of version 0
   (stale: catch-up); install 2; h unregisters; install 3 *)
Definition q1 : list (cb_event cfg3) :=
  [EvNew (0, c0) (1, c1) 1 false; EvReg 7 (Some (0, c0)); EvNew (1, c1) (2, c2) 2 false;
   EvUnreg 7 1; EvNew (2, c2) (3, c3) 3 false].

Example q1_wf : incr_from 0 q1 /\ Forall ev_wf q1 /\ reg_once 7 q1 /\ first_reg 7 q1 = Some (Some (0, c0)).
Proof. repeat split; try (cbn; lia); repeat constructor. Qed.

(* catch-up to 1, then 2, nothing after the unregister *)
Example q1_deliveries : deliveries 7 (outs true true cb_init q1) = [1; 2].
Proof. vm_compute. reflexivity. Qed.

Example q1_global_order : global_news (outs true true cb_init q1) = [1; 2; 3].
Proof. vm_compute. reflexivity. Qed.

(* the window of the >= rule: token read after the store of version 1, the
   registration queued before the event: event 1 is skipped for h, 2 delivered *)
Definition q2 : list (cb_event cfg3) :=
  [EvReg 7 (Some (1, c1)); EvNew (0, c0) (1, c1) 1 false; EvNew (1, c1) (2, c2) 2 false].
Example q2_deliveries : incr_from 0 q2 /\ Forall ev_wf q2 /\ reg_once 7 q2 /\
  deliveries 7 (outs true true cb_init q2) = [2].
Proof. repeat split; try (cbn; lia); repeat constructor. Qed.

(* ---- the monitor on the concrete config ---- *)

Definition pN := mkParams false false false.      (* verification active *)
Definition pD := mkParams false true true.        (* Delay + suppress *)
Definition st1 : mon_state sv3 := mkMon [mkSv None None None false; mkSv None None None false] [true; true] false.
Definition ins1 : list (mon_in sv3) :=
  [InUpdate 0 (mkSv None None (Some 7) false) (Some 11);      (* accepted *)
   InUpdate 0 (mkSv (Some 9) None None false) (Some 12);      (* fails Verify *)
   InUpdate 1 (mkSv None None None true) (Some 13);           (* fails to stack; stays in slot 1 *)
   InUpdate 0 (mkSv (Some 2) None None false) None;           (* still fails to stack *)
   InUpdate 1 (mkSv None None (Some 4) false) None;           (* recovers *)
   InSrcErr 0; InSrcDone 0; InSrcDone 1].

Example ins1_stores :
  stores_of (trace (stack3 c0) verify3 pN (0, c0) st1 ins1) = [(1, mkCfg 1 5 7); (2, mkCfg 2 5 4)].
Proof. vm_compute. reflexivity. Qed.

Example ins1_rejected :
  rejected (stack3 c0) verify3 (final_st (stack3 c0) verify3 pN (0, c0) st1 (firstn 1 ins1)) 0
           (mkSv (Some 9) None None false) = true /\
  rejected (stack3 c0) verify3 (final_st (stack3 c0) verify3 pN (0, c0) st1 (firstn 2 ins1)) 1
           (mkSv None None None true) = true.
Proof. split; vm_compute; reflexivity. Qed.

Example ins1_view : snd (final_cur (stack3 c0) verify3 pN (0, c0) st1 ins1)
  = spec_view (stack3 c0) verify3 (m_slots st1) c0 false ins1.
Proof. vm_compute. reflexivity. Qed.

(* delayed verification: an invalid config is installed unverified, enable
   fails, a fixing update arrives, enable succeeds, the next invalid one is rejected *)
Definition stD : mon_state sv3 := mkMon [mkSv None None None false] [true] true.
Definition insD : list (mon_in sv3) :=
  [InUpdate 0 (mkSv (Some 9) None None false) None; InEnable 21;
   InUpdate 0 (mkSv (Some 1) None None false) None; InEnable 22;
   InUpdate 0 (mkSv (Some 8) None None false) None].
Example insD_trace :
  verifies_of (trace (stack3 c0) verify3 pD (0, c0) stD insD)
    = [(mkCfg 9 5 0, false); (mkCfg 1 5 0, true); (mkCfg 8 5 0, false)] /\
  stores_of (trace (stack3 c0) verify3 pD (0, c0) stD insD) = [(1, mkCfg 9 5 0); (2, mkCfg 1 5 0)] /\
  m_skip (final_st (stack3 c0) verify3 pD (0, c0) stD insD) = false.
Proof. repeat split; vm_compute; reflexivity. Qed.

(* ---- the system: a schedule with a registration racing a store, a blocked
   callback, a cancelled blocking report, shutdown and late calls ---- *)

Definition srcs1 : list sv3 := [mkSv None None None false].
Definition sched1 : list (label sv3) :=
  [LApiStart 1 (OpOffer (MsgUpdate 0 (mkSv None None (Some 7) false) true));
   LMonRecv (ROffer 1); LMonAct false;                       (* store *)
   LApiStart 2 (OpToken 0); LApiStart 3 (OpRegister 1 (Some 0)); LApiAct 3 2;
   LCancelCall 1; LApiAct 1 0;                                (* the reporter gives up *)
   LMonAct false; LMonAct false; LMonAct false;               (* updates, reply (not blocked), submit *)
   LCbTake; LCbTake;                                          (* registration, then OnNewConfig is entered and held *)
   LApiStart 4 (OpOffer (MsgUpdate 0 (mkSv None None (Some 8) false) false));
   LMonRecv (ROffer 4); LMonAct false; LMonAct true; LMonAct false;   (* installed while the callback is held *)
   LCancelMain; LMonRecv RCtx; LMonAct false;                 (* the monitor exits *)
   LApiStart 5 (OpRegister 2 None); LApiStart 6 (OpUnregister 1);     (* late calls fail at once *)
   LCbReturn; LCbTake; LCbReturn; LCbReturn; LCbTake].        (* the queue drains, the goroutine leaves *)

Definition run1 :=
  match snd (sys_init (stack3 c0) verify3 pN srcs1 [true]) with
  | Ok s0 => System.run (stack3 c0) verify3 pN true true cbcap3 s0 sched1
  | _ => None
  end.

Example sched1_runs :
  match run1 with
  | Some s => s_value s = (2, mkCfg 1 5 8) /\ s_mon s = MExited /\ s_cb s = CExited /\ s_panic s = false /\
              lookup 1 (s_thr s) = Some (mkThr (OpOffer (MsgUpdate 0 (mkSv None None (Some 7) false) true)) (PDone RetCtxErr) true) /\
              lookup 5 (s_thr s) = Some (mkThr (OpRegister 2 None) (PDone RetRegNil) false) /\
              lookup 6 (s_thr s) = Some (mkThr (OpUnregister 1) (PDone (RetBool false)) false)
  | None => False
  end.
Proof. vm_compute. repeat split; reflexivity. Qed.

(* ---- the pinned tree (before the fixes) ---- *)

(* finding 4: register, unregister, unregister again panics in make(.., 0, -1) *)
Example finding4_pre_fix : cb_step_prefix true true
  (after true true (@cb_init cfg3) [EvReg 1 None; EvUnreg 1 1]) (EvUnreg 1 2) = Panic 2.
Proof. exact (second_unregister_pre_fix_refuted true true 1 1 2). Qed.

(* finding 5: the two states in which the pinned condition dropped source errors *)
Example finding5_pre_fix :
  src_err_delivered_prefix (mkParams false true false) true = false /\
  src_err_delivered (mkParams false true false) true = true /\
  src_err_delivered_prefix (mkParams false true true) false = false /\
  src_err_delivered (mkParams false true true) false = true.
Proof. exact src_err_pre_fix_refuted. Qed.
