(* PROOFS about the monitor as a sequential machine (Core/Monitor.v):
   C04 installed => verified, rejected changes nothing; C05 slots = latest,
   view = spec_view, serials count installs; C09 never early, atomic switch,
   exact suppression.  All statements quantify over arbitrary input lists. *)
From Coq Require Import List NArith Bool Lia Arith.
From Dials Require Import Base.Outcome Core.CbMgr Core.Monitor.
Import ListNotations.
Open Scope N_scope.

Section Proofs.
Context {cfg sv : Type}.
Variable stack : list sv -> option cfg.
Variable verify : cfg -> bool.
Variable p : params.

Notation vcfg := (vcfg cfg).
Notation mon_state := (mon_state sv).
Notation mon_in := (mon_in sv).
Notation mon_act := (mon_act cfg).
Notation recv := (@mon_recv cfg sv stack verify p).
Notation run := (@mon_run cfg sv stack verify p).

Definition trace (cur : vcfg) (st : mon_state) (ins : list mon_in) : list mon_act := snd (run cur st ins).
Definition final_cur (cur : vcfg) (st : mon_state) (ins : list mon_in) : vcfg := fst (fst (run cur st ins)).
Definition final_st (cur : vcfg) (st : mon_state) (ins : list mon_in) : mon_state := snd (fst (run cur st ins)).

Lemma run_cons : forall cur st i r,
  run cur st (i :: r) =
  let st1 := fst (recv cur st i) in
  let acts := snd (recv cur st i) in
  let cur1 := cur_after cur acts in
  (final_cur cur1 st1 r, final_st cur1 st1 r, acts ++ trace cur1 st1 r).
Proof.
  intros. unfold final_cur, final_st, trace. cbn [mon_run].
  destruct (recv cur st i) as [st1 acts]. cbn [fst snd].
  destruct (run (cur_after cur acts) st1 r) as [[c2 s2] a2]. reflexivity.
Qed.

Lemma trace_cons : forall cur st i r,
  trace cur st (i :: r) =
  snd (recv cur st i) ++ trace (cur_after cur (snd (recv cur st i))) (fst (recv cur st i)) r.
Proof. intros. unfold trace at 1. rewrite run_cons. reflexivity. Qed.
Lemma final_cur_cons : forall cur st i r,
  final_cur cur st (i :: r) = final_cur (cur_after cur (snd (recv cur st i))) (fst (recv cur st i)) r.
Proof. intros. unfold final_cur at 1. rewrite run_cons. reflexivity. Qed.
Lemma final_st_cons : forall cur st i r,
  final_st cur st (i :: r) = final_st (cur_after cur (snd (recv cur st i))) (fst (recv cur st i)) r.
Proof. intros. unfold final_st at 1. rewrite run_cons. reflexivity. Qed.

Lemma final_cur_app : forall a cur st b,
  final_cur cur st (a ++ b) = final_cur (final_cur cur st a) (final_st cur st a) b.
Proof.
  induction a as [|i a IH]; intros; [reflexivity|].
  cbn [app]. rewrite !final_cur_cons, final_st_cons. apply IH.
Qed.
Lemma final_st_app : forall a cur st b,
  final_st cur st (a ++ b) = final_st (final_cur cur st a) (final_st cur st a) b.
Proof.
  induction a as [|i a IH]; intros; [reflexivity|].
  cbn [app]. rewrite !final_st_cons, final_cur_cons. apply IH.
Qed.
Lemma trace_app : forall a cur st b,
  trace cur st (a ++ b) = trace cur st a ++ trace (final_cur cur st a) (final_st cur st a) b.
Proof.
  induction a as [|i a IH]; intros; [reflexivity|].
  cbn [app]. rewrite !trace_cons, final_cur_cons, final_st_cons, IH, app_assoc. reflexivity.
Qed.

Lemma cur_after_app : forall (a : list mon_act) (cur : vcfg) b, cur_after cur (a ++ b) = cur_after (cur_after cur a) b.
Proof. intros. unfold cur_after. apply fold_left_app. Qed.

Lemma stores_of_app : forall a b : list mon_act, stores_of (a ++ b) = stores_of a ++ stores_of b.
Proof. intros. apply flat_map_app. Qed.
Lemma verifies_of_app : forall a b : list mon_act, verifies_of (a ++ b) = verifies_of a ++ verifies_of b.
Proof. intros. apply flat_map_app. Qed.
Lemma submits_of_app : forall a b : list mon_act, submits_of (a ++ b) = submits_of a ++ submits_of b.
Proof. intros. apply flat_map_app. Qed.

Lemma stores_reply_to : forall rid r, stores_of (reply_to rid r : list mon_act) = [].
Proof. destruct rid; reflexivity. Qed.
Lemma verifies_reply_to : forall rid r, verifies_of (reply_to rid r : list mon_act) = [].
Proof. destruct rid; reflexivity. Qed.
Lemma submits_reply_to : forall rid r, submits_of (reply_to rid r : list mon_act) = [].
Proof. destruct rid; reflexivity. Qed.
Lemma cur_after_reply_to : forall (cur : vcfg) rid r, cur_after cur (reply_to rid r : list mon_act) = cur.
Proof. destruct rid; reflexivity. Qed.

(* ---------- the update step, case by case ---------- *)

(* an update is rejected when its stack fails, or fails Verify while
   verification is active *)
Definition rejected (st : mon_state) (src : nat) (v : sv) : bool :=
  match stack (set_nth src v (m_slots st)) with
  | None => true
  | Some c => negb (m_skip st) && negb (verify c)
  end.

Definition rej_kind (st : mon_state) (src : nat) (v : sv) : errkind * reply :=
  match stack (set_nth src v (m_slots st)) with
  | None => (EStack, RStackErr)
  | Some _ => (EVerify, RVerifyErr)
  end.

Lemma update_rejected_acts : forall cur st src v rid,
  rejected st src v = true ->
  exists vl,
    snd (recv cur st (InUpdate src v rid)) =
      vl ++ ATrySubmit (EvErr (fst (rej_kind st src v)) cur (stack (set_nth src v (m_slots st))))
         :: reply_to rid (snd (rej_kind st src v))
    /\ stores_of vl = [] /\ submits_of vl = [] /\
    vl = match stack (set_nth src v (m_slots st)) with Some c => [AVerify c false] | None => [] end.
Proof.
  intros cur st src v rid H. unfold rejected, rej_kind in *. cbn [mon_recv].
  destruct (stack (set_nth src v (m_slots st))) as [c|] eqn:Es.
  - apply andb_true_iff in H. destruct H as [H1 H2]. apply negb_true_iff in H1, H2.
    rewrite H1, H2. exists [AVerify c false]. cbn. auto.
  - exists []. cbn. auto.
Qed.

Lemma update_accepted_acts : forall cur st src v rid,
  rejected st src v = false ->
  exists c vl,
    stack (set_nth src v (m_slots st)) = Some c /\
    snd (recv cur st (InUpdate src v rid)) =
      vl ++ AStore (fst cur + 1, c) :: ATryUpdates (fst cur + 1, c) :: reply_to rid RNil
         ++ [ATrySubmit (EvNew cur (fst cur + 1, c) (fst cur + 1) (m_skip st && p_suppress p))]
    /\ vl = (if m_skip st then [] else [AVerify c true])
    /\ (m_skip st = false -> verify c = true).
Proof.
  intros cur st src v rid H. unfold rejected in H. cbn [mon_recv].
  destruct (stack (set_nth src v (m_slots st))) as [c|] eqn:Es; [|discriminate].
  exists c. destruct (m_skip st) eqn:Ek.
  - exists []. cbn. repeat split; auto. discriminate.
  - cbn in H. apply negb_false_iff in H. rewrite H. exists [AVerify c true]. cbn. auto.
Qed.

(* ---------- C04 ---------- *)

Lemma store_verified_step : forall cur st i v,
  m_skip st = false -> In (AStore v) (snd (recv cur st i)) -> verify (snd v) = true.
Proof.
  intros cur st i v Hk Hin. destruct i as [src x rid|src|src|rid|]; cbn [mon_recv] in Hin.
  - destruct (stack (set_nth src x (m_slots st))) as [c|].
    + rewrite Hk in Hin. destruct (verify c) eqn:Ev; cbn [snd] in Hin.
      * destruct Hin as [Hin|[Hin|[Hin|Hin]]]; try discriminate.
        -- inversion Hin; subst. exact Ev.
        -- apply in_app_or in Hin. destruct Hin as [Hin|[Hin|[]]]; [|discriminate].
           destruct rid; cbn in Hin; [destruct Hin as [Hin|[]]; discriminate|destruct Hin].
      * destruct Hin as [Hin|[Hin|Hin]]; try discriminate.
        destruct rid; cbn in Hin; [destruct Hin as [Hin|[]]; discriminate|destruct Hin].
    + cbn [snd] in Hin. destruct Hin as [Hin|Hin]; [discriminate|].
      destruct rid; cbn in Hin; [destruct Hin as [Hin|[]]; discriminate|destruct Hin].
  - cbn [snd] in Hin. destruct (src_err_delivered p (m_skip st)); cbn in Hin; [destruct Hin as [Hin|[]]; discriminate|destruct Hin].
  - cbn [snd] in Hin. destruct (existsb _ _); cbn in Hin; [destruct Hin|destruct Hin as [Hin|[]]; discriminate].
  - rewrite Hk in Hin. cbn in Hin. destruct Hin as [Hin|[]]; discriminate.
  - cbn in Hin. destruct Hin as [Hin|[]]; discriminate.
Qed.

Lemma skip_stays_off_step : forall cur st i, m_skip st = false -> m_skip (fst (recv cur st i)) = false.
Proof.
  intros cur st i Hk. destruct i as [src x rid|src|src|rid|]; cbn [mon_recv]; try exact Hk.
  - destruct (stack _); [rewrite Hk; destruct (verify c)|]; cbn; auto.
  - rewrite Hk. cbn. auto.
Qed.

Lemma skip_stays_off : forall ins cur st, m_skip st = false -> m_skip (final_st cur st ins) = false.
Proof.
  induction ins as [|i r IH]; intros; [assumption|].
  rewrite final_st_cons. apply IH. apply skip_stays_off_step. assumption.
Qed.

(* while verification is active every installed config has passed Verify *)
Theorem installed_verified_l : forall ins cur st,
  m_skip st = false ->
  Forall (fun v => verify (snd v) = true) (stores_of (trace cur st ins)).
Proof.
  induction ins as [|i r IH]; intros cur st Hk; [constructor|].
  rewrite trace_cons, stores_of_app. apply Forall_app. split.
  - apply Forall_forall. intros v Hv. unfold stores_of in Hv. apply in_flat_map in Hv.
    destruct Hv as [a [Ha Hv]]. destruct a; cbn in Hv; try contradiction. destruct Hv as [Hv|[]]. subst.
    eapply store_verified_step; eauto.
  - apply IH. apply skip_stays_off_step. assumption.
Qed.

(* the same from any point of a history at which verification is active
   (in particular after a successful EnableVerification) *)
Theorem installed_verified_from_l : forall pre post cur st,
  m_skip (final_st cur st pre) = false ->
  Forall (fun v => verify (snd v) = true)
         (stores_of (trace (final_cur cur st pre) (final_st cur st pre) post)).
Proof. intros. apply installed_verified_l. assumption. Qed.

Theorem config_verifies_initial_l : forall inits watching v st,
  p_skip_initial p = false -> p_delay p = false ->
  cr_out (config_init stack verify p inits watching) = Ok (v, st) ->
  verify (snd v) = true /\ m_skip st = false /\ fst v = 0.
Proof.
  intros inits watching v st Hs Hd H. unfold config_init in H. rewrite Hs, Hd in H.
  destruct (stack inits) as [c|]; [|discriminate]. cbn in H.
  destruct (verify c) eqn:Ev; [|discriminate]. cbn in H. inversion H; subst. auto.
Qed.

Theorem config_rejects_invalid_initial_l : forall inits watching c,
  p_skip_initial p = false -> p_delay p = false ->
  stack inits = Some c -> verify c = false ->
  cr_out (config_init stack verify p inits watching) = Err 2.
Proof.
  intros inits watching c Hs Hd Hst Hv. unfold config_init. rewrite Hst, Hs, Hd, Hv. reflexivity.
Qed.

(* a rejected update: nothing is stored, the error event carries the current
   config and (iff stacking succeeded) the rejected one, and a blocking
   reporter is answered with that error and never with nil *)
Theorem rejected_changes_nothing_l : forall cur st src v rid,
  rejected st src v = true ->
  let acts := snd (recv cur st (InUpdate src v rid)) in
  let e := fst (rej_kind st src v) in
  let r := snd (rej_kind st src v) in
  stores_of acts = [] /\ cur_after cur acts = cur /\
  submits_of acts = [EvErr e cur (stack (set_nth src v (m_slots st)))] /\
  r <> RNil /\
  (forall i, rid = Some i -> In (AReply i r) acts /\ ~ In (AReply i RNil) acts) /\
  m_skip (fst (recv cur st (InUpdate src v rid))) = m_skip st.
Proof.
  intros cur st src v rid H acts e r.
  destruct (update_rejected_acts cur st src v rid H) as [vl [Ha [Hs [Hsub Hvl]]]].
  fold acts in Ha. fold e in Ha. fold r in Ha.
  assert (Hr : r <> RNil).
  { unfold r, rej_kind. destruct (stack _); discriminate. }
  repeat split.
  - rewrite Ha, stores_of_app, Hs. cbn. apply stores_reply_to.
  - rewrite Ha, cur_after_app.
    assert (Hc : cur_after cur vl = cur).
    { rewrite Hvl. destruct (stack _); reflexivity. }
    rewrite Hc. cbn. apply cur_after_reply_to.
  - rewrite Ha, submits_of_app, Hsub. cbn. f_equal. apply submits_reply_to.
  - exact Hr.
  - subst rid. rewrite Ha. apply in_or_app. right. right. left. reflexivity.
  - subst rid. rewrite Ha. intros Hin. apply in_app_or in Hin. destruct Hin as [Hin|Hin].
    + rewrite Hvl in Hin. destruct (stack _); cbn in Hin; [destruct Hin as [Hin|[]]; discriminate|destruct Hin].
    + destruct Hin as [Hin|[Hin|[]]]; [discriminate|]. inversion Hin. congruence.
  - cbn [mon_recv]. destruct (stack _) as [c|]; [destruct (m_skip st); [|destruct (verify c)]|]; reflexivity.
Qed.

(* the error event, once taken by the callback goroutine, is handed to
   OnWatchedError with exactly these arguments *)
Theorem error_event_is_delivered_l : forall on_new (cst : cb_state cfg) e old rej,
  snd (@cb_step cfg on_new true cst (EvErr e old rej)) = [OInv (InvErrGlobal e old rej)].
Proof. reflexivity. Qed.

(* ---------- C05 ---------- *)

Lemma slots_step : forall cur st i,
  m_slots (fst (recv cur st i)) =
  match i with InUpdate src v _ => set_nth src v (m_slots st) | _ => m_slots st end.
Proof.
  intros. destruct i as [src x rid|src|src|rid|]; cbn [mon_recv]; try reflexivity.
  - destruct (stack _); [destruct (m_skip st); [|destruct (verify c)]|]; reflexivity.
  - destruct (m_skip st); [destruct (verify (snd cur))|]; reflexivity.
Qed.

(* the monitor's slots hold each source's most recently reported value *)
Theorem slots_are_latest_l : forall ins cur st,
  m_slots (final_st cur st ins) = latest (m_slots st) ins.
Proof.
  induction ins as [|i r IH]; intros; [reflexivity|].
  rewrite final_st_cons, IH, slots_step. unfold latest. cbn [fold_left].
  destruct i; reflexivity.
Qed.

Lemma latest_snoc : forall (inits : list sv) (ins : list mon_in) m,
  latest inits (ins ++ [m]) =
  match m with InUpdate src v _ => set_nth src v (latest inits ins) | _ => latest inits ins end.
Proof. intros. unfold latest. rewrite fold_left_app. reflexivity. Qed.

Lemma view_step : forall cur st i,
  let st1 := fst (recv cur st i) in
  let cur1 := cur_after cur (snd (recv cur st i)) in
  snd cur1 =
    match i with
    | InUpdate src v _ =>
        match stack (set_nth src v (m_slots st)) with
        | Some c => if m_skip st || verify c then c else snd cur
        | None => snd cur
        end
    | _ => snd cur
    end
  /\ m_skip st1 = match i with InEnable _ => m_skip st && negb (verify (snd cur)) | _ => m_skip st end.
Proof.
  intros. subst st1 cur1. destruct i as [src x rid|src|src|rid|]; cbn [mon_recv].
  - destruct (stack _) as [c|].
    + destruct (m_skip st) eqn:Ek; cbn [orb].
      * cbn [snd fst]. split; [|reflexivity]. unfold cur_after. cbn [fold_left].
        rewrite fold_left_app. destruct rid; reflexivity.
      * destruct (verify c); cbn [snd fst]; (split; [|reflexivity]).
        -- unfold cur_after. cbn [fold_left]. rewrite fold_left_app. destruct rid; reflexivity.
        -- unfold cur_after. cbn [fold_left]. destruct rid; reflexivity.
    + cbn [snd fst]. split; [|reflexivity]. unfold cur_after. cbn [fold_left]. destruct rid; reflexivity.
  - cbn [snd fst]. split; [|reflexivity]. destruct (src_err_delivered p (m_skip st)); reflexivity.
  - cbn [snd fst]. split; [|reflexivity]. destruct (existsb _ _); reflexivity.
  - destruct (m_skip st) eqn:Ek; [destruct (verify (snd cur)) eqn:Ev|]; cbn; auto.
  - cbn. auto.
Qed.

(* the incrementally maintained view is the fresh stack of the latest values,
   or the last view that was accepted *)
Theorem view_is_fresh_stack_l : forall ins cur st,
  snd (final_cur cur st ins) = spec_view stack verify (m_slots st) (snd cur) (m_skip st) ins /\
  m_skip (final_st cur st ins) = spec_skip stack verify (m_slots st) (snd cur) (m_skip st) ins.
Proof.
  intros ins cur st. induction ins as [|m pre IH] using rev_ind; [split; reflexivity|].
  destruct IH as [IHv IHs].
  rewrite final_cur_app, final_st_app.
  unfold spec_view, spec_skip in *. rewrite rev_unit. cbn [spec_rev].
  destruct (spec_rev stack verify (m_slots st) (snd cur) (m_skip st) (rev pre)) as [v sk] eqn:Esp.
  cbn [fst snd] in IHv, IHs.
  rewrite final_cur_cons, final_st_cons. cbn [final_cur final_st mon_run fst snd].
  destruct (view_step (final_cur cur st pre) (final_st cur st pre) m) as [Hv Hs].
  unfold final_cur, final_st in Hv, Hs |- *. cbn [mon_run fst snd].
  rewrite Hv, Hs. rewrite <- rev_unit, rev_involutive.
  fold (final_st cur st pre) in *. fold (final_cur cur st pre) in *.
  destruct m as [src x rid|src|src|rid|]; cbn [fst snd]; try (rewrite IHv, IHs; split; reflexivity).
  - rewrite latest_snoc, <- slots_are_latest_l with (cur := cur), IHs.
    destruct (stack _) as [c|]; [|rewrite IHv; split; reflexivity].
    destruct (sk || verify c); cbn [fst snd]; rewrite ?IHv; split; reflexivity.
Qed.

Lemma stores_step : forall cur st i,
  let acts := snd (recv cur st i) in
  (stores_of acts = [] /\ cur_after cur acts = cur) \/
  (exists c, stores_of acts = [(fst cur + 1, c)] /\ cur_after cur acts = (fst cur + 1, c)).
Proof.
  intros. subst acts. destruct i as [src x rid|src|src|rid|].
  - destruct (rejected st src x) eqn:Er.
    + left. pose proof (rejected_changes_nothing_l cur st src x rid Er) as H. cbn zeta in H. tauto.
    + right. destruct (update_accepted_acts cur st src x rid Er) as [c [vl [Hst [Ha [Hvl _]]]]].
      exists c. rewrite Ha, stores_of_app, cur_after_app.
      assert (stores_of vl = [] /\ cur_after cur vl = cur) as [E1 E2]
        by (rewrite Hvl; destruct (m_skip st); auto).
      rewrite E1, E2. cbn [stores_of flat_map app]. fold (stores_of (reply_to rid RNil
         ++ [ATrySubmit (EvNew cur (fst cur + 1, c) (fst cur + 1) (m_skip st && p_suppress p))])).
      rewrite stores_of_app, stores_reply_to. cbn. split; [reflexivity|].
      unfold cur_after. cbn [fold_left]. rewrite fold_left_app. cbn. destruct rid; reflexivity.
  - left. cbn [mon_recv snd]. destruct (src_err_delivered p (m_skip st)); auto.
  - left. cbn [mon_recv snd]. destruct (existsb _ _); auto.
  - left. cbn [mon_recv]. destruct (m_skip st); [destruct (verify (snd cur))|]; auto.
  - left. auto.
Qed.

Lemma last_cons_default : forall {A} (l : list A) x d d', last (x :: l) d = last (x :: l) d'.
Proof.
  induction l as [|y l IH]; intros x d d'; [reflexivity|].
  change (last (x :: y :: l) d) with (last (y :: l) d).
  change (last (x :: y :: l) d') with (last (y :: l) d'). apply IH.
Qed.

(* the k-th install has serial k: serials go up by exactly one per store, and
   the published serial is the number of stores so far *)
Theorem serial_counts_installs_l : forall ins cur st,
  consecutive_from (fst cur) (map fst (stores_of (trace cur st ins))) /\
  fst (final_cur cur st ins) = fst cur + N.of_nat (length (stores_of (trace cur st ins))) /\
  final_cur cur st ins = last (stores_of (trace cur st ins)) cur.
Proof.
  induction ins as [|i r IH]; intros cur st.
  - cbn. repeat split. lia.
  - rewrite trace_cons, final_cur_cons, stores_of_app, map_app, app_length.
    specialize (IH (cur_after cur (snd (recv cur st i))) (fst (recv cur st i))).
    destruct IH as [IH1 [IH2 IH3]].
    destruct (stores_step cur st i) as [[E1 E2]|[c [E1 E2]]]; cbn zeta in E1, E2; rewrite E1, E2 in *.
    + cbn [map app length]. repeat split; auto.
    + cbn [map app length fst] in *. repeat split; auto.
      * rewrite IH2. lia.
      * rewrite IH3. destruct (stores_of _) as [|v l]; [reflexivity|].
        change (last ((fst cur + 1, c) :: v :: l) cur) with (last (v :: l) cur).
        apply last_cons_default.
Qed.

(* every value offered to the Events channel is the config just stored, in store order *)
Definition updates_of (acts : list mon_act) : list vcfg :=
  flat_map (fun a => match a with ATryUpdates v => [v] | _ => [] end) acts.

Lemma updates_step : forall cur st i, updates_of (snd (recv cur st i)) = stores_of (snd (recv cur st i)).
Proof.
  intros. destruct i as [src x rid|src|src|rid|]; cbn [mon_recv].
  - destruct (stack _) as [c|].
    + destruct (m_skip st); [|destruct (verify c)]; cbn; destruct rid; reflexivity.
    + cbn. destruct rid; reflexivity.
  - cbn. destruct (src_err_delivered p (m_skip st)); reflexivity.
  - cbn. destruct (existsb _ _); reflexivity.
  - destruct (m_skip st); [destruct (verify (snd cur))|]; reflexivity.
  - reflexivity.
Qed.

Theorem events_follow_stores_l : forall ins cur st,
  updates_of (trace cur st ins) = stores_of (trace cur st ins).
Proof.
  induction ins as [|i r IH]; intros; [reflexivity|].
  rewrite trace_cons. unfold updates_of. rewrite flat_map_app. fold (updates_of (snd (recv cur st i))).
  rewrite stores_of_app, updates_step. f_equal. apply IH.
Qed.

(* what the monitor announces to the callback goroutine is well-formed: the
   new-config events carry old = the config current at receive time, new = the
   config just stored, serial = its serial, in strictly increasing order *)
Lemma submits_step_wf : forall cur st i,
  let acts := snd (recv cur st i) in
  Forall ev_wf (submits_of acts) /\
  incr_from (fst cur) (submits_of acts) /\
  last_announced (fst cur) (submits_of acts) <= fst (cur_after cur acts) /\
  fst cur <= fst (cur_after cur acts).
Proof.
  intros. subst acts. destruct i as [src x rid|src|src|rid|].
  - destruct (rejected st src x) eqn:Er.
    + pose proof (rejected_changes_nothing_l cur st src x rid Er) as H. cbn zeta in H.
      destruct H as [_ [Hc [Hs _]]]. rewrite Hs, Hc. cbn. repeat split; try lia. constructor; [exact I|constructor].
    + destruct (update_accepted_acts cur st src x rid Er) as [c [vl [Hst [Ha [Hvl _]]]]].
      assert (Hsub : submits_of (snd (recv cur st (InUpdate src x rid))) =
                     [EvNew cur (fst cur + 1, c) (fst cur + 1) (m_skip st && p_suppress p)]).
      { rewrite Ha, submits_of_app. assert (E : submits_of vl = []) by (rewrite Hvl; destruct (m_skip st); reflexivity).
        rewrite E. cbn [submits_of flat_map app].
        fold (submits_of (reply_to rid RNil ++ [ATrySubmit (EvNew cur (fst cur + 1, c) (fst cur + 1) (m_skip st && p_suppress p))])).
        rewrite submits_of_app, submits_reply_to. reflexivity. }
      destruct (stores_step cur st (InUpdate src x rid)) as [[E1 E2]|[c' [E1 E2]]]; cbn zeta in E1, E2.
      * exfalso. rewrite Ha, stores_of_app in E1. apply app_eq_nil in E1. destruct E1 as [_ E1]. discriminate.
      * rewrite Hsub, E2. cbn. repeat split; try lia. constructor; [cbn; auto|constructor].
  - cbn [mon_recv snd]. destruct (src_err_delivered p (m_skip st)); cbn; repeat split; try lia; repeat constructor.
  - cbn [mon_recv snd]. destruct (existsb _ _); cbn; repeat split; try lia; repeat constructor.
  - cbn [mon_recv]. destruct (m_skip st); [destruct (verify (snd cur))|]; cbn; repeat split; try lia; repeat constructor.
  - cbn. repeat split; try lia; repeat constructor.
Qed.

Lemma incr_from_app : forall (a b : list (cb_event cfg)) lo,
  incr_from lo a -> incr_from (last_announced lo a) b -> incr_from lo (a ++ b).
Proof.
  induction a as [|e a IH]; intros b lo Ha Hb; [exact Hb|].
  destruct e; cbn in *; try (apply IH; assumption).
  destruct Ha. split; [assumption|]. apply IH; assumption.
Qed.

Lemma incr_from_weaken : forall (a : list (cb_event cfg)) lo lo', lo' <= lo -> incr_from lo a -> incr_from lo' a.
Proof.
  induction a as [|e a IH]; intros lo lo' Hle H; [exact I|].
  destruct e; cbn in *; try (eapply IH; eassumption).
  destruct H. split; [lia|assumption].
Qed.

Lemma last_announced_app : forall (a b : list (cb_event cfg)) lo,
  last_announced lo (a ++ b) = last_announced (last_announced lo a) b.
Proof. induction a as [|e a IH]; intros; [reflexivity|]. destruct e; cbn; apply IH. Qed.

Theorem submitted_events_wf_l : forall ins cur st,
  Forall ev_wf (submits_of (trace cur st ins)) /\
  incr_from (fst cur) (submits_of (trace cur st ins)) /\
  last_announced (fst cur) (submits_of (trace cur st ins)) <= fst (final_cur cur st ins).
Proof.
  induction ins as [|i r IH]; intros cur st.
  - cbn. repeat split; [constructor|lia].
  - rewrite trace_cons, final_cur_cons, submits_of_app.
    destruct (submits_step_wf cur st i) as [H1 [H2 [H3 H4]]]. cbn zeta in *.
    destruct (IH (cur_after cur (snd (recv cur st i))) (fst (recv cur st i))) as [I1 [I2 I3]].
    repeat split.
    + apply Forall_app. auto.
    + apply incr_from_app; [assumption|]. eapply incr_from_weaken; [|exact I2]. assumption.
    + rewrite last_announced_app.
      (* last_announced is monotone in its default only through the list *)
      clear - I3 H3 I2.
      set (b := submits_of (trace (cur_after cur (snd (recv cur st i))) (fst (recv cur st i)) r)) in *.
      set (hi := fst (cur_after cur (snd (recv cur st i)))) in *.
      set (lo := last_announced (fst cur) (submits_of (snd (recv cur st i)))) in *.
      assert (G : forall (l : list (cb_event cfg)) x y, x <= y -> last_announced x l <= last_announced y l \/ last_announced x l = last_announced y l).
      { induction l as [|e l IHl]; intros; cbn; [left; assumption|]. destruct e; auto. }
      assert (G2 : forall (l : list (cb_event cfg)) x y, x <= y -> last_announced x l <= last_announced y l).
      { intros. destruct (G l x y H); lia. }
      specialize (G2 b lo hi H3). lia.
Qed.

(* ---------- C07: a nil reply comes right after the store of that very update ---------- *)

Lemma final_cur_is_cur_after : forall ins cur st, final_cur cur st ins = cur_after cur (trace cur st ins).
Proof.
  induction ins as [|i r IH]; intros; [reflexivity|].
  rewrite final_cur_cons, trace_cons, cur_after_app. apply IH.
Qed.

(* in a list of monitor actions, every "installed <- nil" sits immediately
   after the Store and the Events try-send of one and the same config *)
Definition nil_reply_ok (l : list mon_act) : Prop :=
  forall j rid, nth_error l j = Some (AReply rid RNil) ->
  exists v, (2 <= j)%nat /\ nth_error l (j - 2) = Some (AStore v) /\ nth_error l (j - 1) = Some (ATryUpdates v).

Lemma nil_reply_ok_app : forall a b, nil_reply_ok a -> nil_reply_ok b -> nil_reply_ok (a ++ b).
Proof.
  intros a b Ha Hb j rid H.
  destruct (Nat.lt_ge_cases j (length a)) as [Hlt|Hge].
  - rewrite nth_error_app1 in H by assumption. destruct (Ha j rid H) as [v [H2 [H3 H4]]].
    exists v. repeat split; [assumption| |]; rewrite nth_error_app1 by lia; assumption.
  - rewrite nth_error_app2 in H by assumption. destruct (Hb _ rid H) as [v [H2 [H3 H4]]].
    exists v. split; [lia|]. split; rewrite nth_error_app2 by lia.
    + replace (j - 2 - length a)%nat with (j - length a - 2)%nat by lia. assumption.
    + replace (j - 1 - length a)%nat with (j - length a - 1)%nat by lia. assumption.
Qed.

Lemma nil_reply_ok_prefix : forall a b, nil_reply_ok (a ++ b) -> nil_reply_ok a.
Proof.
  intros a b H j rid Hj.
  assert (Hlt : (j < length a)%nat) by (apply nth_error_Some; congruence).
  destruct (H j rid) as [v [H2 [H3 H4]]]; [rewrite nth_error_app1 by assumption; assumption|].
  exists v. split; [assumption|]. rewrite nth_error_app1 in H3, H4 by lia. auto.
Qed.

Ltac scan_list j H := repeat (destruct j as [|j]; cbn in H; try discriminate H).

Lemma nil_reply_ok_step : forall cur st i, nil_reply_ok (snd (recv cur st i)).
Proof.
  intros cur st i j rid0 H. destruct i as [src x rid|src|src|rid|]; cbn [mon_recv] in *.
  - destruct (stack _) as [c|].
    + destruct (m_skip st); [|destruct (verify c)]; destruct rid as [r|]; cbn [snd reply_to app] in *.
      * scan_list j H. inversion H; subst. exists (fst cur + 1, c). cbn. auto.
      * scan_list j H.
      * scan_list j H. inversion H; subst. exists (fst cur + 1, c). cbn. repeat split; auto; lia.
      * scan_list j H.
      * scan_list j H.
      * scan_list j H.
    + destruct rid as [r|]; cbn [snd reply_to app] in *; scan_list j H.
  - cbn [snd] in *. destruct (src_err_delivered p (m_skip st)); scan_list j H.
  - cbn [snd] in *. destruct (existsb _ _); scan_list j H.
  - destruct (m_skip st); [destruct (verify (snd cur))|]; cbn [snd] in *; scan_list j H.
  - cbn [snd] in *. scan_list j H.
Qed.

Theorem reply_after_store_l : forall ins cur st, nil_reply_ok (trace cur st ins).
Proof.
  induction ins as [|i r IH]; intros cur st.
  - intros j rid H. destruct j; discriminate H.
  - rewrite trace_cons. apply nil_reply_ok_app; [apply nil_reply_ok_step|apply IH].
Qed.

(* a rejected update is answered with its error and nothing is stored in that batch *)
Theorem error_reply_no_store_l : forall cur st src v rid,
  rejected st src v = true -> stores_of (snd (recv cur st (InUpdate src v (Some rid)))) = [] /\
  In (AReply rid (snd (rej_kind st src v))) (snd (recv cur st (InUpdate src v (Some rid)))).
Proof.
  intros cur st src v rid H.
  pose proof (rejected_changes_nothing_l cur st src v (Some rid) H) as R. cbn zeta in R.
  destruct R as [R1 [_ [_ [_ [R5 _]]]]]. split; [exact R1|]. apply (R5 rid eq_refl).
Qed.

(* ---------- C09 ---------- *)

Definition is_enable (i : mon_in) : bool := match i with InEnable _ => true | _ => false end.

Lemma verifies_step_skip : forall cur st i,
  m_skip st = true -> is_enable i = false ->
  verifies_of (snd (recv cur st i)) = [] /\ m_skip (fst (recv cur st i)) = true.
Proof.
  intros cur st i Hk Hi. destruct i as [src x rid|src|src|rid|]; try discriminate; cbn [mon_recv].
  - destruct (stack _) as [c|]; rewrite ?Hk; cbn; (split; [|auto]); destruct rid; reflexivity.
  - cbn. split; [|assumption]. destruct (src_err_delivered p (m_skip st)); reflexivity.
  - cbn. split; [|assumption]. destruct (existsb _ _); reflexivity.
  - cbn. auto.
Qed.

(* under delayed verification Verify is not called before the first
   EnableVerification request is processed *)
Theorem no_verify_before_enable_l : forall ins cur st,
  m_skip st = true -> forallb (fun i => negb (is_enable i)) ins = true ->
  verifies_of (trace cur st ins) = [] /\ m_skip (final_st cur st ins) = true.
Proof.
  induction ins as [|i r IH]; intros cur st Hk Hn; [auto|].
  cbn in Hn. apply andb_true_iff in Hn. destruct Hn as [Hn1 Hn2]. apply negb_true_iff in Hn1.
  destruct (verifies_step_skip cur st i Hk Hn1) as [E1 E2].
  rewrite trace_cons, final_st_cons, verifies_of_app, E1. cbn [app]. apply IH; assumption.
Qed.

Theorem config_no_verify_under_delay_l : forall inits watching,
  p_delay p = true ->
  cr_verify_log (config_init stack verify p inits watching) = [] /\
  (forall v st, cr_out (config_init stack verify p inits watching) = Ok (v, st) -> m_skip st = true).
Proof.
  intros inits watching Hd. unfold config_init. rewrite Hd, orb_true_r.
  destruct (stack inits); cbn; split; auto; intros v st H; inversion H; reflexivity || discriminate.
Qed.

(* EnableVerification verifies exactly the installed config, once; success
   returns it with its serial and switches verification on; failure returns
   the error and leaves the delay in force *)
Theorem enable_verifies_installed_l : forall cur st rid,
  m_skip st = true ->
  recv cur st (InEnable rid) =
    if verify (snd cur)
    then (mkMon (m_slots st) (m_watch st) false, [AVerify (snd cur) true; AEnableReply rid (EOk cur)])
    else (st, [AVerify (snd cur) false; AEnableReply rid EErr]).
Proof. intros cur st rid Hk. cbn [mon_recv]. rewrite Hk. reflexivity. Qed.

Theorem enable_when_active_l : forall cur st rid,
  m_skip st = false -> recv cur st (InEnable rid) = (st, [AEnableReply rid (EOk cur)]).
Proof. intros cur st rid Hk. cbn [mon_recv]. rewrite Hk. reflexivity. Qed.

(* after a successful enable every later install is verified *)
Theorem after_enable_all_verified_l : forall pre rid post cur st,
  let cur1 := final_cur cur st pre in
  let st1 := final_st cur st pre in
  verify (snd cur1) = true ->
  Forall (fun v => verify (snd v) = true)
         (stores_of (trace (final_cur cur st (pre ++ [InEnable rid])) (final_st cur st (pre ++ [InEnable rid])) post)).
Proof.
  intros pre rid post cur st cur1 st1 Hv. apply installed_verified_l.
  rewrite final_st_app, final_st_cons. cbn [final_st mon_run fst snd].
  fold cur1. fold st1. cbn [mon_recv]. destruct (m_skip st1) eqn:Ek; [rewrite Hv|]; cbn; auto.
Qed.

(* the suppression bit of a new-config event and the fate of a source error
   depend on exactly skipVerify && option at the moment the message is handled *)
Theorem suppression_exact_l : forall cur st,
  (forall src v rid ev, In (ATrySubmit ev) (snd (recv cur st (InUpdate src v rid))) ->
     match ev with
     | EvNew _ _ _ sup => sup = m_skip st && p_suppress p
     | _ => True
     end) /\
  (forall src, submits_of (snd (recv cur st (InSrcErr src))) =
     if m_skip st && p_suppress p then [] else [EvErr ESource cur None]).
Proof.
  intros cur st. split.
  - intros src v rid ev Hin. destruct ev as [o n k sup| | |]; try exact I.
    destruct (rejected st src v) eqn:Er.
    + destruct (update_rejected_acts cur st src v rid Er) as [vl [Ha [_ [_ Hvl]]]].
      rewrite Ha in Hin. apply in_app_or in Hin. destruct Hin as [Hin|[Hin|Hin]].
      * rewrite Hvl in Hin. destruct (stack _); cbn in Hin; [destruct Hin as [Hin|[]]; discriminate|destruct Hin].
      * discriminate.
      * destruct rid; cbn in Hin; [destruct Hin as [Hin|[]]; discriminate|destruct Hin].
    + destruct (update_accepted_acts cur st src v rid Er) as [c [vl [_ [Ha [Hvl _]]]]].
      rewrite Ha in Hin. apply in_app_or in Hin. destruct Hin as [Hin|[Hin|[Hin|Hin]]]; try discriminate.
      * rewrite Hvl in Hin. destruct (m_skip st); cbn in Hin; [destruct Hin|destruct Hin as [Hin|[]]; discriminate].
      * apply in_app_or in Hin. destruct Hin as [Hin|[Hin|[]]].
        -- destruct rid; cbn in Hin; [destruct Hin as [Hin|[]]; discriminate|destruct Hin].
        -- inversion Hin. reflexivity.
  - intros src. cbn [mon_recv snd]. unfold src_err_delivered. destruct (m_skip st && p_suppress p); reflexivity.
Qed.

(* skipVerify is true iff Delay was requested and no enable has succeeded: it
   starts as p_delay, only an InEnable whose Verify succeeds clears it, and
   nothing sets it again *)
Theorem skip_only_cleared_by_successful_enable_l : forall cur st i,
  m_skip (fst (recv cur st i)) =
  match i with InEnable _ => m_skip st && negb (verify (snd cur)) | _ => m_skip st end.
Proof. intros. apply view_step. Qed.

(* no watching source: verify the installed config and return it with its serial *)
Theorem enable_without_monitor_l : forall cur,
  p_delay p = true ->
  enable_nomon verify p cur =
    if verify (snd cur) then ([(snd cur, true)], EOk cur) else ([(snd cur, false)], EErr).
Proof. intros cur Hd. unfold enable_nomon. rewrite Hd. reflexivity. Qed.

Theorem enable_noop_without_delay_l : forall cur,
  p_delay p = false -> enable_nomon verify p cur = ([], EOk cur).
Proof. intros cur Hd. unfold enable_nomon. rewrite Hd. reflexivity. Qed.

End Proofs.

(* finding 5 on the pinned tree: with Delay set and the suppress option unset,
   a source error before EnableVerification was dropped; with the option set
   it was dropped for ever, even after a successful enable *)
Lemma src_err_pre_fix_refuted :
  src_err_delivered_prefix (mkParams false true false) true = false /\
  src_err_delivered (mkParams false true false) true = true /\
  src_err_delivered_prefix (mkParams false true true) false = false /\
  src_err_delivered (mkParams false true true) false = true.
Proof. repeat split. Qed.
