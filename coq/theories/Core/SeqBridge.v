(* PROOFS: bridge between the small-step system (Core/System.v) and the
   sequential model Ez/SeqDials.v used for ez and Blank (C18, C20).

   For a system state whose monitor is at its select with nothing pending, the
   schedule "a blocking reporter offers an update of source i; the monitor
   receives it and performs all its pending actions; the reporter takes the
   reply" leads from a state abstracting to the SeqDials state st to one
   abstracting to fst (d_update st i v), and the reporter returns the class of
   snd (d_update st i v); likewise for EnableVerification (d_enable) and Done
   (d_done).  The abstraction reads the dstate fields off the system state and
   its ghost history. *)
From Coq Require Import List NArith Bool Lia.
From Dials Require Import Base.Outcome Reflect.Ty Stack.Overlay Ez.SeqDials
  Core.CbMgr Core.Monitor Core.MonitorProofs Core.System Core.SystemProofs.
Import ListNotations.
Open Scope N_scope.

Section Bridge.
Variable fs : fields.
Variable defaults : cfgv.
Variable verify : cfgv -> bool.
Variable prm : dparams.
Variable on_new on_err : bool.
Variable cbcap : N.

(* the instance of the core model: configs are field-value lists, source
   values are layers, stacking is C01's compose (a panic of compose is outside
   both models' common ground and excluded in the statements) *)
Definition stackB (slots : list val) : option cfgv :=
  match compose fs defaults slots with Ok v => Some v | _ => None end.
Definition pB : params :=
  mkParams (SeqDials.p_skip prm) (SeqDials.p_delay prm) (SeqDials.p_suppress prm).

Notation sysB := (sys cfgv val).
Notation geventB := (gevent cfgv val).
Notation stepB := (@step cfgv val stackB verify pB on_new on_err cbcap).
Notation splitB := (@split_verifies cfgv val).
Notation runB := (@run cfgv val stackB verify pB on_new on_err cbcap).

Lemma set_nth_same : forall {A} i (x : A) l, Monitor.set_nth i x l = SeqDials.set_nth i x l.
Proof. intros A i x l. revert i. induction l as [|y l IH]; intros [|i]; cbn; try reflexivity. Qed.

(* ---- the abstraction ---- *)

Definition vlog_of (log : list geventB) : list cfgv :=
  flat_map (fun g => match g with GVerify c _ => [c] | _ => [] end) log.
Definition newcfg_of (log : list geventB) : list (cfgv * cfgv) :=
  flat_map (fun g => match g with GCall (InvNewGlobal o n) => [(snd o, snd n)] | _ => [] end) log.
Definition errcb_of (log : list geventB) : list (cfgv * option cfgv) :=
  flat_map (fun g => match g with GCall (InvErrGlobal _ o rej) => [(snd o, rej)] | _ => [] end) log.

Lemma vlog_of_app : forall a b, vlog_of (a ++ b) = vlog_of a ++ vlog_of b.
Proof. intros. apply flat_map_app. Qed.
Lemma newcfg_of_app : forall a b, newcfg_of (a ++ b) = newcfg_of a ++ newcfg_of b.
Proof. intros. apply flat_map_app. Qed.
Lemma errcb_of_app : forall a b, errcb_of (a ++ b) = errcb_of a ++ errcb_of b.
Proof. intros. apply flat_map_app. Qed.

(* a system state with a running monitor (state st, at its select) as a SeqDials state *)
Definition abs (s : sysB) (st : mon_state val) : dstate :=
  {| d_slots := m_slots st; d_watching := m_watch st;
     d_cur := snd (s_value s); d_serial := fst (s_value s);
     d_skipv := m_skip st; d_events := option_map snd (s_updates s);
     d_vlog := vlog_of (s_log s);
     d_newcfg := newcfg_of (s_log s); d_errcb := errcb_of (s_log s);
     d_alive := true |}.

(* equality on the fields the monitor owns (everything but the two callback logs) *)
Definition mon_eq (a b : dstate) : Prop :=
  d_slots a = d_slots b /\ d_watching a = d_watching b /\ d_cur a = d_cur b /\ d_serial a = d_serial b /\
  d_skipv a = d_skipv b /\ d_events a = d_events b /\ d_vlog a = d_vlog b /\ d_alive a = d_alive b.

(* class of a reply *)
Definition ret_matches {A} (o : outcome A) (r : ret cfgv) : Prop :=
  match o with
  | Ok _ => r = RetNil
  | Err _ => r = RetStackErr \/ r = RetVerifyErr
  | Panic _ => False
  end.

(* ---- single steps, as equations ---- *)

Lemma step_start_offer : forall (s : sysB) tid m,
  lookup tid (s_thr s) = None ->
  stepB s (LApiStart tid (OpOffer m)) =
  Some (set_thread (logged s [GStart tid (OpOffer m)]) tid (mkThr (OpOffer m) (POffer m) false)).
Proof. intros s tid m H. cbn [System.step]. unfold System.api_start. rewrite H. reflexivity. Qed.

Lemma mon_take_eq : forall (s : sysB) st i,
  mon_take stackB verify pB s st i =
  logged (with_mon s (MRun (fst (mon_recv stackB verify pB (s_value s) st i))
                           (snd (splitB (snd (mon_recv stackB verify pB (s_value s) st i))))))
         (GRecv i :: fst (splitB (snd (mon_recv stackB verify pB (s_value s) st i)))).
Proof.
  intros. unfold mon_take. destruct (mon_recv stackB verify pB (s_value s) st i) as [st' acts].
  cbn [fst snd]. destruct (splitB acts) as [g pend]. reflexivity.
Qed.

Lemma step_recv_offer : forall (s : sysB) st tid t m,
  s_mon s = MRun st [] -> lookup tid (s_thr s) = Some t -> t_pc t = POffer m ->
  stepB s (LMonRecv (ROffer tid)) =
  Some (mon_take stackB verify pB
          (match m with
           | MsgUpdate _ _ true => set_thread s tid (mkThr (t_op t) PAwaitReply (t_cancel t))
           | MsgDone _ => finish s tid t RetUnit
           | _ => finish s tid t RetNil
           end) st (msg_in tid m)).
Proof.
  intros s st tid t m Hm Hl Hp. cbn [System.step]. unfold System.mon_recv_step. rewrite Hm, Hl, Hp. reflexivity.
Qed.

Lemma step_mon_act : forall (s : sysB) st a rest d,
  s_mon s = MRun st (a :: rest) ->
  stepB s (LMonAct d) = mon_act_step cbcap s d.
Proof. reflexivity. Qed.

Ltac simp_state :=
  cbn [s_value s_updates s_mon s_ctl s_cbq s_done s_cb s_thr s_main s_replies s_eresps s_acks s_tokens
       s_panic s_log logged with_value with_updates with_mon with_ctl with_cbq with_done with_cb with_thr
       with_main with_replies with_eresps with_acks with_tokens set_thread finish
       t_op t_pc t_cancel fst snd].

(* the monitor performs the head of its pending list (Store / reply / try-sends
   with the arm that is ready; the non-sending arm only when the channel is full) *)
Definition drop_flag (s : sysB) (a : mon_act cfgv) : bool :=
  match a with
  | ATryUpdates _ => match s_updates s with Some _ => true | None => false end
  | ATrySubmit _ => negb (has_room cbcap s)
  | _ => false
  end.

Ltac bridge_tail s tid Hrep sched :=
  exists sched;
  let Eu := fresh "Eu" in let Er := fresh "Er" in
  destruct (s_updates s) as [?u|] eqn:Eu; destruct (has_room _ s) eqn:Er; do 3 eexists;
  (split; [cbn [System.run System.step negb]; unfold System.mon_act_step, System.api_act, has_room in *;
           repeat (progress (simp_state; cbn [negb N.eqb existsb reply_ret];
                             rewrite ?Eu, ?Hrep, ?Er, ?lookup_update, ?N.eqb_refl, ?orb_true_r));
           reflexivity|]);
  (split; [simp_state; reflexivity|]);
  (split; [unfold mon_eq, abs; simp_state;
           cbn [d_slots d_watching d_cur d_serial d_skipv d_events d_vlog d_alive option_map];
           rewrite ?Eu; rewrite ?vlog_of_app; cbn [vlog_of flat_map app]; rewrite ?app_nil_r; repeat split; reflexivity|]);
  (split; [simp_state; rewrite lookup_update, N.eqb_refl; reflexivity|]);
  (split; [cbn; auto|]);
  (split; [simp_state; reflexivity|]);
  (split; [simp_state; cbn [submits_of flat_map app snd]; rewrite ?app_nil_r; reflexivity|]);
  (split; simp_state; rewrite ?newcfg_of_app, ?errcb_of_app; cbn [newcfg_of errcb_of flat_map app]; rewrite ?app_nil_r; reflexivity).

(* ---- a value update ---- *)

Theorem seq_update_refines_system_l : forall (s : sysB) st tid i v,
  s_mon s = MRun st [] ->
  lookup tid (s_thr s) = None -> lookup tid (s_replies s) = None ->
  (forall c, compose fs defaults (Monitor.set_nth i v (m_slots st)) <> Panic c) ->
  let d := d_update fs defaults verify prm (abs s st) i v in
  exists ls s' st' r,
    runB s (LApiStart tid (OpOffer (MsgUpdate i v true)) :: LMonRecv (ROffer tid) :: ls) = Some s' /\
    s_mon s' = MRun st' [] /\
    mon_eq (abs s' st') (fst d) /\
    lookup tid (s_thr s') = Some (mkThr (OpOffer (MsgUpdate i v true)) (PDone r) false) /\
    ret_matches (snd d) r /\
    s_cb s' = s_cb s /\
    s_cbq s' = s_cbq s ++
      (if has_room cbcap s
       then submits_of (snd (mon_recv stackB verify pB (s_value s) st (InUpdate i v (Some tid))))
       else []) /\
    newcfg_of (s_log s') = newcfg_of (s_log s) /\ errcb_of (s_log s') = errcb_of (s_log s).
Proof.
  intros s st tid i v Hm Hl Hrep Hnp d.
  set (m := MsgUpdate i v true). set (op := OpOffer m).
  set (s1 := set_thread (logged s [GStart tid op]) tid (mkThr op (POffer m) false)).
  assert (E1 : stepB s (LApiStart tid op) = Some s1) by (apply step_start_offer; exact Hl).
  assert (E2 : stepB s1 (LMonRecv (ROffer tid)) =
               Some (mon_take stackB verify pB (set_thread s1 tid (mkThr op PAwaitReply false)) st (InUpdate i v (Some tid)))).
  { rewrite (step_recv_offer s1 st tid (mkThr op (POffer m) false) m); [reflexivity|exact Hm| |reflexivity].
    subst s1. simp_state. rewrite lookup_update, N.eqb_refl. reflexivity. }
  cbn [System.run]. rewrite E1, E2, mon_take_eq. clear E1 E2.
  subst d. unfold d_update. cbn [abs d_slots d_skipv d_cur d_serial d_events d_vlog d_watching d_newcfg d_errcb d_alive].
  rewrite <- set_nth_same.
  subst s1. simp_state.
  assert (Hst : stackB (Monitor.set_nth i v (m_slots st)) =
                match compose fs defaults (Monitor.set_nth i v (m_slots st)) with Ok c => Some c | _ => None end)
    by reflexivity.
  destruct (compose fs defaults (Monitor.set_nth i v (m_slots st))) as [c|c|c] eqn:Ec; [| |exfalso; eapply Hnp; eauto].
  - (* stacking succeeded *)
    destruct (m_skip st) eqn:Ek; cbn [negb andb].
    + (* verification delayed: accepted without Verify *)
      assert (ER : mon_recv stackB verify pB (s_value s) st (InUpdate i v (Some tid)) =
                   (mkMon (Monitor.set_nth i v (m_slots st)) (m_watch st) true,
                    [AStore (fst (s_value s) + 1, c); ATryUpdates (fst (s_value s) + 1, c); AReply tid RNil;
                     ATrySubmit (EvNew (s_value s) (fst (s_value s) + 1, c) (fst (s_value s) + 1) (true && Monitor.p_suppress pB))]))
        by (cbn [mon_recv]; rewrite Hst, Ek; reflexivity).
      rewrite ER. cbn [fst snd System.split_verifies].
      bridge_tail s tid Hrep
        [LMonAct false; LMonAct (match s_updates s with Some _ => true | None => false end);
         LMonAct false; LMonAct (negb (has_room cbcap s)); @LApiAct val tid 1].
    + destruct (verify c) eqn:Ev; cbn [negb andb].
      * (* verified and accepted *)
        assert (ER : mon_recv stackB verify pB (s_value s) st (InUpdate i v (Some tid)) =
                     (mkMon (Monitor.set_nth i v (m_slots st)) (m_watch st) false,
                      [AVerify c true; AStore (fst (s_value s) + 1, c); ATryUpdates (fst (s_value s) + 1, c); AReply tid RNil;
                       ATrySubmit (EvNew (s_value s) (fst (s_value s) + 1, c) (fst (s_value s) + 1) (false && Monitor.p_suppress pB))]))
          by (cbn [mon_recv]; rewrite Hst, Ek, Ev; reflexivity).
        rewrite ER. cbn [fst snd System.split_verifies].
        bridge_tail s tid Hrep
          [LMonAct false; LMonAct (match s_updates s with Some _ => true | None => false end);
           LMonAct false; LMonAct (negb (has_room cbcap s)); @LApiAct val tid 1].
      * (* rejected by Verify *)
        assert (ER : mon_recv stackB verify pB (s_value s) st (InUpdate i v (Some tid)) =
                     (mkMon (Monitor.set_nth i v (m_slots st)) (m_watch st) false,
                      [AVerify c false; ATrySubmit (EvErr EVerify (s_value s) (Some c)); AReply tid RVerifyErr]))
          by (cbn [mon_recv]; rewrite Hst, Ek, Ev; reflexivity).
        rewrite ER. cbn [fst snd System.split_verifies].
        bridge_tail s tid Hrep [LMonAct (negb (has_room cbcap s)); LMonAct false; @LApiAct val tid 1].
  - (* stacking failed *)
    assert (ER : mon_recv stackB verify pB (s_value s) st (InUpdate i v (Some tid)) =
                 (mkMon (Monitor.set_nth i v (m_slots st)) (m_watch st) (m_skip st),
                  [ATrySubmit (EvErr EStack (s_value s) None); AReply tid RStackErr]))
      by (cbn [mon_recv]; rewrite Hst; reflexivity).
    rewrite ER. cbn [fst snd System.split_verifies].
    bridge_tail s tid Hrep [LMonAct (negb (has_room cbcap s)); LMonAct false; @LApiAct val tid 1].
Qed.

(* ---- EnableVerification ---- *)

Definition enable_matches (o : outcome (cfgv * N)) (r : ret cfgv) : Prop :=
  match o with
  | Ok (c, k) => r = RetEnable (EOk (k, c))
  | Err _ => r = RetEnable EErr
  | Panic _ => False
  end.

Ltac run_steps Hs :=
  cbn [System.run System.step negb]; unfold System.api_start, System.mon_recv_step, System.mon_act_step, System.api_act, ctlcap in *;
  repeat (progress (simp_state; cbn [negb N.eqb existsb reply_ret length N.of_nat N.ltb N.compare Pos.of_succ_nat];
                    rewrite ?Hs, ?lookup_update, ?N.eqb_refl, ?orb_true_r)).

Theorem seq_enable_refines_system_l : forall (s : sysB) st tid,
  s_mon s = MRun st [] -> s_ctl s = [] ->
  lookup tid (s_thr s) = None -> lookup tid (s_eresps s) = None ->
  let d := d_enable verify prm (abs s st) in
  exists ls s' st' r,
    runB s (LApiStart tid OpEnable :: ls) = Some s' /\
    s_mon s' = MRun st' [] /\
    mon_eq (abs s' st') (fst d) /\
    lookup tid (s_thr s') = Some (mkThr OpEnable (PDone r) false) /\
    enable_matches (snd d) r /\
    s_cb s' = s_cb s /\ s_cbq s' = s_cbq s.
Proof.
  intros s st tid Hm Hc Hl He d. subst d. unfold d_enable.
  cbn [abs d_slots d_skipv d_cur d_serial d_events d_vlog d_watching d_newcfg d_errcb d_alive].
  destruct (SeqDials.p_delay prm) eqn:Ed; cbn [negb].
  - (* delayed verification: through the monitor *)
    destruct (m_skip st) eqn:Ek; cbn [negb].
    + (* still delayed: Verify the installed config *)
      destruct (verify (snd (s_value s))) eqn:Ev.
      * exists [LApiAct tid 1; LMonRecv RCtl; LMonAct false; LApiAct tid 1]. do 3 eexists.
        split; [cbn [System.run System.step]; unfold System.api_start; rewrite Hl; simp_state; cbn [Monitor.p_delay pB]; rewrite Ed, Hm; cbn [negb];
                cbn [System.run System.step]; unfold System.api_act; simp_state; rewrite lookup_update, N.eqb_refl; simp_state;
                cbn [N.eqb]; unfold ctlcap; rewrite Hc; cbn [length N.of_nat N.ltb N.compare];
                cbn [System.run System.step]; unfold System.mon_recv_step; simp_state; rewrite Hm; cbn [app]; simp_state;
                rewrite mon_take_eq; simp_state; cbn [mon_recv]; rewrite Ek, Ev; cbn [fst snd System.split_verifies];
                cbn [System.run System.step]; unfold System.mon_act_step; simp_state; rewrite He;
                cbn [System.run System.step]; unfold System.api_act; simp_state; rewrite !lookup_update, !N.eqb_refl; simp_state;
                cbn [N.eqb]; rewrite ?lookup_update, ?N.eqb_refl; reflexivity|].
        split; [simp_state; reflexivity|].
        split; [unfold mon_eq, abs; simp_state; cbn [d_slots d_watching d_cur d_serial d_skipv d_events d_vlog d_alive option_map];
                rewrite ?vlog_of_app; cbn [vlog_of flat_map app]; rewrite ?app_nil_r; repeat split; reflexivity|].
        split; [simp_state; rewrite lookup_update, N.eqb_refl; reflexivity|].
        split; [cbn; destruct (s_value s); reflexivity|]. split; simp_state; reflexivity.
      * exists [LApiAct tid 1; LMonRecv RCtl; LMonAct false; LApiAct tid 1]. do 3 eexists.
        split; [cbn [System.run System.step]; unfold System.api_start; rewrite Hl; simp_state; cbn [Monitor.p_delay pB]; rewrite Ed, Hm; cbn [negb];
                cbn [System.run System.step]; unfold System.api_act; simp_state; rewrite lookup_update, N.eqb_refl; simp_state;
                cbn [N.eqb]; unfold ctlcap; rewrite Hc; cbn [length N.of_nat N.ltb N.compare];
                cbn [System.run System.step]; unfold System.mon_recv_step; simp_state; rewrite Hm; cbn [app]; simp_state;
                rewrite mon_take_eq; simp_state; cbn [mon_recv]; rewrite Ek, Ev; cbn [fst snd System.split_verifies];
                cbn [System.run System.step]; unfold System.mon_act_step; simp_state; rewrite He;
                cbn [System.run System.step]; unfold System.api_act; simp_state; rewrite !lookup_update, !N.eqb_refl; simp_state;
                cbn [N.eqb]; rewrite ?lookup_update, ?N.eqb_refl; reflexivity|].
        split; [simp_state; reflexivity|].
        split; [unfold mon_eq, abs; simp_state; cbn [d_slots d_watching d_cur d_serial d_skipv d_events d_vlog d_alive option_map];
                rewrite ?vlog_of_app; cbn [vlog_of flat_map app]; rewrite ?app_nil_r, ?Ek; repeat split; try reflexivity; destruct st; cbn in *; congruence|].
        split; [simp_state; rewrite lookup_update, N.eqb_refl; reflexivity|].
        split; [cbn; reflexivity|]. split; simp_state; reflexivity.
    + (* verification already enabled: answered without Verify *)
      exists [LApiAct tid 1; LMonRecv RCtl; LMonAct false; LApiAct tid 1]. do 3 eexists.
      split; [cbn [System.run System.step]; unfold System.api_start; rewrite Hl; simp_state; cbn [Monitor.p_delay pB]; rewrite Ed, Hm; cbn [negb];
              cbn [System.run System.step]; unfold System.api_act; simp_state; rewrite lookup_update, N.eqb_refl; simp_state;
              cbn [N.eqb]; unfold ctlcap; rewrite Hc; cbn [length N.of_nat N.ltb N.compare];
              cbn [System.run System.step]; unfold System.mon_recv_step; simp_state; rewrite Hm; cbn [app]; simp_state;
              rewrite mon_take_eq; simp_state; cbn [mon_recv]; rewrite Ek; cbn [fst snd System.split_verifies];
              cbn [System.run System.step]; unfold System.mon_act_step; simp_state; rewrite He;
              cbn [System.run System.step]; unfold System.api_act; simp_state; rewrite !lookup_update, !N.eqb_refl; simp_state;
              cbn [N.eqb]; rewrite ?lookup_update, ?N.eqb_refl; reflexivity|].
      split; [simp_state; reflexivity|].
      split; [unfold mon_eq, abs; simp_state; cbn [d_slots d_watching d_cur d_serial d_skipv d_events d_vlog d_alive option_map];
              rewrite ?vlog_of_app; cbn [vlog_of flat_map app]; rewrite ?app_nil_r; repeat split; reflexivity|].
      split; [simp_state; rewrite lookup_update, N.eqb_refl; reflexivity|].
      split; [cbn; destruct (s_value s); reflexivity|]. split; simp_state; reflexivity.
  - (* no delay: a no-op answered by the caller itself *)
    exists []. do 3 eexists.
    split; [cbn [System.run System.step]; unfold System.api_start; rewrite Hl; simp_state; cbn [Monitor.p_delay pB]; rewrite Ed; cbn [negb]; reflexivity|].
    split; [simp_state; exact Hm|].
    split; [unfold mon_eq, abs; simp_state; cbn [d_slots d_watching d_cur d_serial d_skipv d_events d_vlog d_alive option_map];
            rewrite ?vlog_of_app; cbn [vlog_of flat_map app]; rewrite ?app_nil_r; repeat split; reflexivity|].
    split; [simp_state; rewrite lookup_update, N.eqb_refl; reflexivity|].
    split; [cbn; destruct (s_value s); reflexivity|]. split; simp_state; reflexivity.
Qed.

(* ---- WatchArgs.Done ---- *)

Theorem seq_done_refines_system_l : forall (s : sysB) st tid i,
  s_mon s = MRun st [] -> lookup tid (s_thr s) = None ->
  let d := d_done (abs s st) i in
  exists s' st',
    runB s [LApiStart tid (OpOffer (MsgDone i)); LMonRecv (ROffer tid)] = Some s' /\
    s_mon s' = MRun st' (if d_alive d then [] else [AExit]) /\
    (d_slots (abs s' st') = d_slots d /\ d_watching (abs s' st') = d_watching d /\ d_cur (abs s' st') = d_cur d /\
     d_serial (abs s' st') = d_serial d /\ d_skipv (abs s' st') = d_skipv d /\ d_events (abs s' st') = d_events d /\
     d_vlog (abs s' st') = d_vlog d) /\
    lookup tid (s_thr s') = Some (mkThr (OpOffer (MsgDone i)) (PDone RetUnit) false) /\
    s_cb s' = s_cb s /\ s_cbq s' = s_cbq s /\
    (d_alive d = false ->
       exists s'', stepB s' (LMonAct false) = Some s'' /\ s_mon s'' = MExited /\ s_done s'' = true).
Proof.
  intros s st tid i Hm Hl d. subst d. unfold d_done.
  cbn [abs d_slots d_skipv d_cur d_serial d_events d_vlog d_watching d_newcfg d_errcb d_alive andb].
  rewrite <- set_nth_same.
  set (m := @MsgDone val i). set (op := OpOffer m).
  set (s1 := set_thread (logged s [GStart tid op]) tid (mkThr op (POffer m) false)).
  assert (E1 : stepB s (LApiStart tid op) = Some s1) by (apply step_start_offer; exact Hl).
  assert (E2 : stepB s1 (LMonRecv (ROffer tid)) =
               Some (mon_take stackB verify pB (finish s1 tid (mkThr op (POffer m) false) RetUnit) st (InSrcDone i))).
  { rewrite (step_recv_offer s1 st tid (mkThr op (POffer m) false) m); [reflexivity|exact Hm| |reflexivity].
    subst s1. simp_state. rewrite lookup_update, N.eqb_refl. reflexivity. }
  cbn [System.run]. rewrite E1, E2, mon_take_eq. clear E1 E2. subst s1. simp_state. cbn [mon_recv fst snd].
  destruct (existsb (fun b : bool => b) (Monitor.set_nth i false (m_watch st))) eqn:Ex;
    cbn [System.split_verifies fst snd]; do 2 eexists.
  - split; [reflexivity|]. split; [simp_state; reflexivity|].
    split; [unfold abs; simp_state; cbn [d_slots d_watching d_cur d_serial d_skipv d_events d_vlog option_map];
            rewrite ?vlog_of_app; cbn [vlog_of flat_map app]; rewrite ?app_nil_r; repeat split; reflexivity|].
    split; [simp_state; rewrite !lookup_update, !N.eqb_refl; reflexivity|].
    split; [simp_state; reflexivity|]. split; [simp_state; reflexivity|]. intros; discriminate.
  - split; [reflexivity|]. split; [simp_state; reflexivity|].
    split; [unfold abs; simp_state; cbn [d_slots d_watching d_cur d_serial d_skipv d_events d_vlog option_map];
            rewrite ?vlog_of_app; cbn [vlog_of flat_map app]; rewrite ?app_nil_r; repeat split; reflexivity|].
    split; [simp_state; rewrite !lookup_update, !N.eqb_refl; reflexivity|].
    split; [simp_state; reflexivity|]. split; [simp_state; reflexivity|].
    intros _. eexists. cbn [System.step]. unfold System.mon_act_step. simp_state.
    split; [reflexivity|]. split; simp_state; reflexivity.
Qed.

(* ---- the global callbacks, once the callback goroutine has drained ---- *)

Notation cb_outB := (cb_out cfgv).
Notation cstepB := (@cb_step cfgv on_new on_err).

Definition glob_new (os : list cb_outB) : list (cfgv * cfgv) :=
  flat_map (fun o => match o with OInv (InvNewGlobal o n) => [(snd o, snd n)] | _ => [] end) os.
Definition glob_err (os : list cb_outB) : list (cfgv * option cfgv) :=
  flat_map (fun o => match o with OInv (InvErrGlobal _ o rej) => [(snd o, rej)] | _ => [] end) os.
Definition all_inv (os : list cb_outB) : Prop := forall o, In o os -> exists i, o = OInv i.

(* what the drain leaves untouched *)
Definition same_but_cb (s s' : sysB) : Prop :=
  s_mon s' = s_mon s /\ s_value s' = s_value s /\ s_updates s' = s_updates s /\ s_thr s' = s_thr s /\
  vlog_of (s_log s') = vlog_of (s_log s).

Lemma cb_drain : forall r i (s : sysB) cst,
  s_cb s = CRun cst (OInv i :: r) -> all_inv r ->
  exists s', runB s (repeat (@LCbReturn val) (S (length r))) = Some s' /\ s_cb s' = CRun cst [] /\
    newcfg_of (s_log s') = newcfg_of (s_log s) ++ glob_new r /\
    errcb_of (s_log s') = errcb_of (s_log s) ++ glob_err r /\
    same_but_cb s s' /\ s_cbq s' = s_cbq s.
Proof.
  induction r as [|o r IH]; intros i s cst Hc Ha.
  - eexists. cbn [repeat length System.run System.step]. unfold cb_return_step. rewrite Hc.
    split; [reflexivity|]. unfold same_but_cb. simp_state. cbn [cb_enter].
    rewrite newcfg_of_app, errcb_of_app, vlog_of_app. cbn. rewrite !app_nil_r. repeat split; reflexivity.
  - destruct (Ha o (or_introl eq_refl)) as [j ->].
    assert (Ha' : all_inv r) by (intros x Hx; apply Ha; right; exact Hx).
    set (s1 := logged (with_cb s (CRun cst (OInv j :: r))) (GCbRet :: cb_enter (OInv j :: r))).
    destruct (IH j s1 cst eq_refl Ha') as [s' [Hr [Hc' [Hn [He [[M1 [M2 [M3 [M4 M5]]]] Hq]]]]]].
    exists s'. split.
    + change (repeat (@LCbReturn val) (S (length (OInv j :: r)))) with (@LCbReturn val :: repeat (@LCbReturn val) (S (length r))).
      cbn [System.run System.step]. unfold cb_return_step at 1. rewrite Hc. exact Hr.
    + split; [exact Hc'|]. subst s1. simp_state. cbn [cb_enter] in *.
      cbn [s_log logged with_cb with_cbq] in Hn, He, M5.
      rewrite newcfg_of_app in Hn. rewrite errcb_of_app in He. rewrite vlog_of_app in M5.
      split; [rewrite Hn; cbn [glob_new flat_map]; destruct j; cbn; rewrite <- ?app_assoc; reflexivity|].
      split; [rewrite He; cbn [glob_err flat_map]; destruct j; cbn; rewrite <- ?app_assoc; reflexivity|].
      split; [|exact Hq]. unfold same_but_cb. simp_state. rewrite M5. cbn. rewrite app_nil_r. auto.
Qed.

Lemma cb_take_drain : forall (s : sysB) cst ev rest,
  s_cb s = CRun cst [] -> s_cbq s = ev :: rest -> all_inv (snd (cstepB cst ev)) ->
  exists ls s', runB s (@LCbTake val :: ls) = Some s' /\ s_cb s' = CRun (fst (cstepB cst ev)) [] /\ s_cbq s' = rest /\
    newcfg_of (s_log s') = newcfg_of (s_log s) ++ glob_new (snd (cstepB cst ev)) /\
    errcb_of (s_log s') = errcb_of (s_log s) ++ glob_err (snd (cstepB cst ev)) /\
    same_but_cb s s'.
Proof.
  intros s cst ev rest Hc Hq Ha.
  destruct (cstepB cst ev) as [cst' o] eqn:Es. cbn [fst snd] in *.
  set (s1 := logged (with_cb (with_cbq s rest) (CRun cst' o)) (GTake ev :: cb_enter o)).
  assert (E1 : stepB s (@LCbTake val) = Some s1).
  { cbn [System.step]. unfold System.cb_take_step. rewrite Hc, Hq, Es. reflexivity. }
  destruct o as [|o r].
  - exists [], s1. cbn [System.run]. rewrite E1. subst s1. unfold same_but_cb. simp_state. cbn [cb_enter].
    rewrite newcfg_of_app, errcb_of_app, vlog_of_app. cbn. rewrite !app_nil_r.
    repeat split; reflexivity.
  - destruct (Ha o (or_introl eq_refl)) as [j ->].
    assert (Ha' : all_inv r) by (intros x Hx; apply Ha; right; exact Hx).
    destruct (cb_drain r j s1 cst' eq_refl Ha') as [s' [Hr [Hc' [Hn [He [[M1 [M2 [M3 [M4 M5]]]] Hq']]]]]].
    exists (repeat (@LCbReturn val) (S (length r))), s'. cbn [System.run]. rewrite E1.
    split; [exact Hr|]. split; [exact Hc'|]. subst s1. simp_state. cbn [cb_enter] in *.
    cbn [s_log logged with_cb with_cbq] in Hn, He, M5.
    rewrite newcfg_of_app in Hn. rewrite errcb_of_app in He. rewrite vlog_of_app in M5.
    split; [exact Hq'|].
    split; [rewrite Hn; cbn [glob_new flat_map]; destruct j; cbn; rewrite <- ?app_assoc; reflexivity|].
    split; [rewrite He; cbn [glob_err flat_map]; destruct j; cbn; rewrite <- ?app_assoc; reflexivity|].
    unfold same_but_cb. simp_state. rewrite M5. cbn. rewrite app_nil_r. auto.
Qed.

Lemma deliver_glob : forall o n k (hs : list (N * N)),
  glob_new (flat_map (@deliver_new cfgv o n k) hs) = [] /\ glob_err (flat_map (@deliver_new cfgv o n k) hs) = [] /\
  all_inv (flat_map (@deliver_new cfgv o n k) hs).
Proof.
  induction hs as [|x r [A [B C]]]; [repeat split; intros ? []|].
  cbn [flat_map].
  assert (Hx : glob_new (@deliver_new cfgv o n k x) = [] /\ glob_err (@deliver_new cfgv o n k x) = [] /\
               all_inv (@deliver_new cfgv o n k x)).
  { unfold deliver_new. destruct (k <=? snd x); cbn; repeat split; auto; intros y Hy;
      first [contradiction|destruct Hy as [<-|[]]; eexists; reflexivity]. }
  destruct Hx as [X1 [X2 X3]]. unfold glob_new, glob_err in *. rewrite !flat_map_app, A, B, X1, X2.
  repeat split; auto. intros y Hy. apply in_app_or in Hy. destruct Hy; auto.
Qed.

Lemma glob_of_new : forall cst o n k sup,
  glob_new (snd (cstepB cst (EvNew o n k sup))) = (if on_new && negb sup then [(snd o, snd n)] else []) /\
  glob_err (snd (cstepB cst (EvNew o n k sup))) = [] /\ all_inv (snd (cstepB cst (EvNew o n k sup))).
Proof.
  intros. cbn [cb_step snd]. destruct (deliver_glob o n k (cb_handles cst)) as [A [B C]].
  unfold glob_new, glob_err in *. rewrite !flat_map_app, A, B.
  destruct (on_new && negb sup); cbn; repeat split; auto.
  - intros y Hy. destruct Hy as [<-|Hy]; [eexists; reflexivity|apply C; exact Hy].
Qed.

Lemma glob_of_err : forall cst e o rej,
  glob_new (snd (cstepB cst (EvErr e o rej))) = [] /\
  glob_err (snd (cstepB cst (EvErr e o rej))) = (if on_err then [(snd o, rej)] else []) /\
  all_inv (snd (cstepB cst (EvErr e o rej))).
Proof.
  intros. cbn [cb_step snd]. destruct on_err; cbn; repeat split; auto.
  - intros y [<-|[]]. eexists; reflexivity.
  - intros y [].
Qed.

Lemma dstate_eta : forall a b : dstate,
  d_slots a = d_slots b -> d_watching a = d_watching b -> d_cur a = d_cur b -> d_serial a = d_serial b ->
  d_skipv a = d_skipv b -> d_events a = d_events b -> d_vlog a = d_vlog b ->
  d_newcfg a = d_newcfg b -> d_errcb a = d_errcb b -> d_alive a = d_alive b -> a = b.
Proof. intros [] []; cbn; intros; subst; reflexivity. Qed.

(* what the update puts into the queue, and what the global callbacks make of it *)
Lemma update_callbacks_agree : forall (s : sysB) st i v tid cst,
  on_new = true -> on_err = true ->
  (forall c, compose fs defaults (Monitor.set_nth i v (m_slots st)) <> Panic c) ->
  let d := d_update fs defaults verify prm (abs s st) i v in
  exists ev,
    submits_of (snd (mon_recv stackB verify pB (s_value s) st (InUpdate i v (Some tid)))) = [ev] /\
    all_inv (snd (cstepB cst ev)) /\
    d_newcfg (fst d) = newcfg_of (s_log s) ++ glob_new (snd (cstepB cst ev)) /\
    d_errcb (fst d) = errcb_of (s_log s) ++ glob_err (snd (cstepB cst ev)).
Proof.
  intros s st i v tid cst Hon Hoe Hnp d. subst d. unfold d_update.
  cbn [abs d_slots d_skipv d_cur d_serial d_events d_vlog d_watching d_newcfg d_errcb d_alive].
  rewrite <- set_nth_same. cbn [mon_recv].
  assert (Hst : stackB (Monitor.set_nth i v (m_slots st)) =
                match compose fs defaults (Monitor.set_nth i v (m_slots st)) with Ok c => Some c | _ => None end)
    by reflexivity.
  rewrite Hst.
  destruct (compose fs defaults (Monitor.set_nth i v (m_slots st))) as [c|c|c] eqn:Ec; [| |exfalso; eapply Hnp; eauto].
  - destruct (m_skip st) eqn:Ek; cbn [negb andb].
    + exists (EvNew (s_value s) (fst (s_value s) + 1, c) (fst (s_value s) + 1) (true && Monitor.p_suppress pB)).
      split; [reflexivity|].
      destruct (glob_of_new cst (s_value s) (fst (s_value s) + 1, c) (fst (s_value s) + 1) (true && Monitor.p_suppress pB)) as [A [B C]].
      split; [exact C|]. cbn [fst d_newcfg d_errcb]. rewrite A, B, Hon, app_nil_r. cbn [pB Monitor.p_suppress andb].
      destruct (SeqDials.p_suppress prm); cbn; rewrite ?app_nil_r; auto.
    + destruct (verify c) eqn:Ev; cbn [negb andb].
      * exists (EvNew (s_value s) (fst (s_value s) + 1, c) (fst (s_value s) + 1) (false && Monitor.p_suppress pB)).
        split; [reflexivity|].
        destruct (glob_of_new cst (s_value s) (fst (s_value s) + 1, c) (fst (s_value s) + 1) (false && Monitor.p_suppress pB)) as [A [B C]].
        split; [exact C|]. cbn [fst d_newcfg d_errcb]. rewrite A, B, Hon, app_nil_r. cbn. auto.
      * exists (EvErr EVerify (s_value s) (Some c)). split; [reflexivity|].
        destruct (glob_of_err cst EVerify (s_value s) (Some c)) as [A [B C]].
        split; [exact C|]. cbn [fst d_newcfg d_errcb]. rewrite A, B, Hoe, app_nil_r. auto.
  - exists (EvErr EStack (s_value s) None). split; [reflexivity|].
    destruct (glob_of_err cst EStack (s_value s) None) as [A [B C]].
    split; [exact C|]. cbn [fst d_newcfg d_errcb]. rewrite A, B, Hoe, app_nil_r. auto.
Qed.

(* the whole dstate: the update schedule followed by the callback goroutine
   taking the event and all callbacks returning *)
Theorem seq_update_refines_system_full_l : forall (s : sysB) st tid i v cst,
  s_mon s = MRun st [] ->
  lookup tid (s_thr s) = None -> lookup tid (s_replies s) = None ->
  (forall c, compose fs defaults (Monitor.set_nth i v (m_slots st)) <> Panic c) ->
  on_new = true -> on_err = true -> 0 < cbcap ->
  s_cb s = CRun cst [] -> s_cbq s = [] ->
  let d := d_update fs defaults verify prm (abs s st) i v in
  exists ls s' st' r cst',
    runB s ls = Some s' /\
    s_mon s' = MRun st' [] /\ s_cb s' = CRun cst' [] /\ s_cbq s' = [] /\
    abs s' st' = fst d /\
    lookup tid (s_thr s') = Some (mkThr (OpOffer (MsgUpdate i v true)) (PDone r) false) /\
    ret_matches (snd d) r.
Proof.
  intros s st tid i v cst Hm Hl Hrep Hnp Hon Hoe Hcap Hc Hq d.
  destruct (seq_update_refines_system_l s st tid i v Hm Hl Hrep Hnp)
    as [ls1 [s1 [st1 [r [R1 [M1 [[E1 [E2 [E3 [E4 [E5 [E6 [E7 E8]]]]]]] [T1 [RM [C1 [Q1 [N1 X1]]]]]]]]]]]].
  destruct (update_callbacks_agree s st i v tid cst Hon Hoe Hnp) as [ev [Hs [Ha [Dn De]]]].
  assert (Hroom : has_room cbcap s = true).
  { unfold has_room. rewrite Hq. cbn. apply N.ltb_lt. exact Hcap. }
  rewrite Hroom, Hs, Hq in Q1. cbn [app] in Q1. rewrite Hc in C1.
  destruct (cb_take_drain s1 cst ev [] C1 Q1 Ha) as [ls2 [s2 [R2 [C2 [Q2 [Hn [He [S1 [S2 [S3 [S4 S5]]]]]]]]]]].
  exists ((LApiStart tid (OpOffer (MsgUpdate i v true)) :: LMonRecv (ROffer tid) :: ls1) ++ LCbTake :: ls2),
         s2, st1, r, (fst (cstepB cst ev)).
  split; [rewrite (run_app stackB verify pB on_new on_err cbcap), R1; exact R2|].
  split; [rewrite S1; exact M1|]. split; [exact C2|]. split; [exact Q2|].
  split; [|split; [rewrite S4; exact T1|exact RM]].
  fold d in E1, E2, E3, E4, E5, E6, E7, E8, Dn, De.
  apply dstate_eta; cbn [abs d_slots d_watching d_cur d_serial d_skipv d_events d_vlog d_newcfg d_errcb d_alive] in *.
  - exact E1.
  - exact E2.
  - rewrite S2. exact E3.
  - rewrite S2. exact E4.
  - exact E5.
  - rewrite S3. exact E6.
  - rewrite S5. exact E7.
  - rewrite Hn, N1, Dn. reflexivity.
  - rewrite He, X1, De. reflexivity.
  - exact E8.
Qed.

(* ---- Params.Config ---- *)

Theorem seq_config_refines_system_l : forall layers watching,
  existsb (fun b => b) watching = true ->
  (forall c, compose fs defaults layers <> Panic c) ->
  match d_config fs defaults verify prm layers watching with
  | Ok d0 => exists s0 st0, snd (sys_init stackB verify pB layers watching) = Ok s0 /\
                            s_mon s0 = MRun st0 [] /\ s_cb s0 = CRun cb_init [] /\ s_cbq s0 = [] /\ abs s0 st0 = d0
  | Err _ => exists c, snd (sys_init stackB verify pB layers watching) = Err c
  | Panic _ => False
  end.
Proof.
  intros layers watching Hw Hnp. unfold d_config, sys_init, config_init.
  assert (Hst : stackB layers = match compose fs defaults layers with Ok c => Some c | _ => None end) by reflexivity.
  rewrite Hst. cbn [pB Monitor.p_skip_initial Monitor.p_delay].
  destruct (compose fs defaults layers) as [c|c|c] eqn:Ec; [| |exfalso; eapply Hnp; eauto].
  - destruct (SeqDials.p_skip prm); destruct (SeqDials.p_delay prm); cbn [negb andb orb cr_out cr_verify_log snd];
      try (rewrite Hw; do 2 eexists; repeat split; reflexivity).
    destruct (verify c); cbn [cr_out cr_verify_log snd].
    + rewrite Hw. do 2 eexists. repeat split; reflexivity.
    + eexists. reflexivity.
  - eexists. reflexivity.
Qed.

End Bridge.
