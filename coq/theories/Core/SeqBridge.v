(* PROOFS: bridge between the small-step system (Core/System.v) and the
   sequential model Ez/SeqDials.v used for ez and Blank (C18, C20).

   For a system state whose monitor is at its select with nothing pending, the
   schedule "a blocking reporter offers an update of source i; the monitor
   receives it and performs all its pending actions; the reporter takes the
   reply" leads from a state abstracting to the SeqDials state st to one
   abstracting to fst (d_update st i v), and the reporter returns the class of
   snd (d_update st i v); likewise for EnableVerification (d_enable) and Done
   (d_done).  The abstraction reads the dstate fields off the system state and
   its ghost history. *)
From Coq Require Import List NArith Bool Lia.
From Dials Require Import Base.Outcome Reflect.Ty Stack.Overlay Ez.SeqDials
  Core.CbMgr Core.Monitor Core.MonitorProofs Core.System Core.SystemProofs.
Import ListNotations.
Open Scope N_scope.

Section Bridge.
Variable fs : fields.
Variable defaults : cfgv.
Variable verify : cfgv -> bool.
Variable prm : dparams.
Variable on_new on_err : bool.
Variable cbcap : N.

(* the instance of the core model: configs are field-value lists, source
   values are layers, stacking is C01's compose (a panic of compose is outside
   both models' common ground and excluded in the statements) *)
Definition stackB (slots : list val) : option cfgv :=
  match compose fs defaults slots with Ok v => Some v | _ => None end.
Definition pB : params :=
  mkParams (SeqDials.p_skip prm) (SeqDials.p_delay prm) (SeqDials.p_suppress prm).

Notation sysB := (sys cfgv val).
Notation geventB := (gevent cfgv val).
Notation stepB := (@step cfgv val stackB verify pB on_new on_err cbcap).
Notation splitB := (@split_verifies cfgv val).
Notation runB := (@run cfgv val stackB verify pB on_new on_err cbcap).

Lemma set_nth_same : forall {A} i (x : A) l, Monitor.set_nth i x l = SeqDials.set_nth i x l.
Proof. intros A i x l. revert i. induction l as [|y l IH]; intros [|i]; cbn; try reflexivity. Qed.

(* ---- the abstraction ---- *)

Definition vlog_of (log : list geventB) : list cfgv :=
  flat_map (fun g => match g with GVerify c _ => [c] | _ => [] end) log.
Definition newcfg_of (log : list geventB) : list (cfgv * cfgv) :=
  flat_map (fun g => match g with GCall (InvNewGlobal o n) => [(snd o, snd n)] | _ => [] end) log.
Definition errcb_of (log : list geventB) : list (cfgv * option cfgv) :=
  flat_map (fun g => match g with GCall (InvErrGlobal _ o rej) => [(snd o, rej)] | _ => [] end) log.

Lemma vlog_of_app : forall a b, vlog_of (a ++ b) = vlog_of a ++ vlog_of b.
Proof. intros. apply flat_map_app. Qed.
Lemma newcfg_of_app : forall a b, newcfg_of (a ++ b) = newcfg_of a ++ newcfg_of b.
Proof. intros. apply flat_map_app. Qed.
Lemma errcb_of_app : forall a b, errcb_of (a ++ b) = errcb_of a ++ errcb_of b.
Proof. intros. apply flat_map_app. Qed.

(* a system state with a running monitor (state st, at its select) as a SeqDials state *)
Definition abs (s : sysB) (st : mon_state val) : dstate :=
  {| d_slots := m_slots st; d_watching := m_watch st;
     d_cur := snd (s_value s); d_serial := fst (s_value s);
     d_skipv := m_skip st; d_events := option_map snd (s_updates s);
     d_vlog := vlog_of (s_log s);
     d_newcfg := newcfg_of (s_log s); d_errcb := errcb_of (s_log s);
     d_alive := true |}.

(* equality on the fields the monitor owns (everything but the two callback logs) *)
Definition mon_eq (a b : dstate) : Prop :=
  d_slots a = d_slots b /\ d_watching a = d_watching b /\ d_cur a = d_cur b /\ d_serial a = d_serial b /\
  d_skipv a = d_skipv b /\ d_events a = d_events b /\ d_vlog a = d_vlog b /\ d_alive a = d_alive b.

(* class of a reply *)
Definition ret_matches {A} (o : outcome A) (r : ret cfgv) : Prop :=
  match o with
  | Ok _ => r = RetNil
  | Err _ => r = RetStackErr \/ r = RetVerifyErr
  | Panic _ => False
  end.

(* ---- single steps, as equations ---- *)

Lemma step_start_offer : forall (s : sysB) tid m,
  lookup tid (s_thr s) = None ->
  stepB s (LApiStart tid (OpOffer m)) =
  Some (set_thread (logged s [GStart tid (OpOffer m)]) tid (mkThr (OpOffer m) (POffer m) false)).
Proof. intros s tid m H. cbn [System.step]. unfold System.api_start. rewrite H. reflexivity. Qed.

Lemma mon_take_eq : forall (s : sysB) st i,
  mon_take stackB verify pB s st i =
  logged (with_mon s (MRun (fst (mon_recv stackB verify pB (s_value s) st i))
                           (snd (splitB (snd (mon_recv stackB verify pB (s_value s) st i))))))
         (GRecv i :: fst (splitB (snd (mon_recv stackB verify pB (s_value s) st i)))).
Proof.
  intros. unfold mon_take. destruct (mon_recv stackB verify pB (s_value s) st i) as [st' acts].
  cbn [fst snd]. destruct (splitB acts) as [g pend]. reflexivity.
Qed.

Lemma step_recv_offer : forall (s : sysB) st tid t m,
  s_mon s = MRun st [] -> lookup tid (s_thr s) = Some t -> t_pc t = POffer m ->
  stepB s (LMonRecv (ROffer tid)) =
  Some (mon_take stackB verify pB
          (match m with
           | MsgUpdate _ _ true => set_thread s tid (mkThr (t_op t) PAwaitReply (t_cancel t))
           | MsgDone _ => finish s tid t RetUnit
           | _ => finish s tid t RetNil
           end) st (msg_in tid m)).
Proof.
  intros s st tid t m Hm Hl Hp. cbn [System.step]. unfold System.mon_recv_step. rewrite Hm, Hl, Hp. reflexivity.
Qed.

Lemma step_mon_act : forall (s : sysB) st a rest d,
  s_mon s = MRun st (a :: rest) ->
  stepB s (LMonAct d) = mon_act_step cbcap s d.
Proof. reflexivity. Qed.

Ltac simp_state :=
  cbn [s_value s_updates s_mon s_ctl s_cbq s_done s_cb s_thr s_main s_replies s_eresps s_acks s_tokens
       s_panic s_log logged with_value with_updates with_mon with_ctl with_cbq with_done with_cb with_thr
       with_main with_replies with_eresps with_acks with_tokens set_thread finish
       t_op t_pc t_cancel fst snd].

(* the monitor performs the head of its pending list (Store / reply / try-sends
   with the arm that is ready; the non-sending arm only when the channel is full) *)
Definition drop_flag (s : sysB) (a : mon_act cfgv) : bool :=
  match a with
  | ATryUpdates _ => match s_updates s with Some _ => true | None => false end
  | ATrySubmit _ => negb (has_room cbcap s)
  | _ => false
  end.

Ltac bridge_tail s tid Hrep sched :=
  exists sched;
  let Eu := fresh "Eu" in let Er := fresh "Er" in
  destruct (s_updates s) as [?u|] eqn:Eu; destruct (has_room _ s) eqn:Er; do 3 eexists;
  (split; [cbn [System.run System.step negb]; unfold System.mon_act_step, System.api_act, has_room in *;
           repeat (progress (simp_state; cbn [negb N.eqb existsb reply_ret];
                             rewrite ?Eu, ?Hrep, ?Er, ?lookup_update, ?N.eqb_refl, ?orb_true_r));
           reflexivity|]);
  (split; [simp_state; reflexivity|]);
  (split; [unfold mon_eq, abs; simp_state;
           cbn [d_slots d_watching d_cur d_serial d_skipv d_events d_vlog d_alive option_map];
           rewrite ?Eu; rewrite ?vlog_of_app; cbn [vlog_of flat_map app]; rewrite ?app_nil_r; repeat split; reflexivity|]);
  (split; [simp_state; rewrite lookup_update, N.eqb_refl; reflexivity|]);
  (split; [cbn; auto|]);
  (split; [simp_state; reflexivity|]);
  first [ (eexists; split; [simp_state; reflexivity|intros _; reflexivity])
        | (exists []; split; [simp_state; rewrite app_nil_r; reflexivity|intros Hr; unfold has_room in *; congruence]) ].

(* ---- a value update ---- *)

Theorem seq_update_refines_system_l : forall (s : sysB) st tid i v,
  s_mon s = MRun st [] ->
  lookup tid (s_thr s) = None -> lookup tid (s_replies s) = None ->
  (forall c, compose fs defaults (Monitor.set_nth i v (m_slots st)) <> Panic c) ->
  let d := d_update fs defaults verify prm (abs s st) i v in
  exists ls s' st' r,
    runB s (LApiStart tid (OpOffer (MsgUpdate i v true)) :: LMonRecv (ROffer tid) :: ls) = Some s' /\
    s_mon s' = MRun st' [] /\
    mon_eq (abs s' st') (fst d) /\
    lookup tid (s_thr s') = Some (mkThr (OpOffer (MsgUpdate i v true)) (PDone r) false) /\
    ret_matches (snd d) r /\
    s_cb s' = s_cb s /\
    (exists evs, s_cbq s' = s_cbq s ++ evs /\ (has_room cbcap s = true -> length evs = 1%nat)).
Proof.
  intros s st tid i v Hm Hl Hrep Hnp d.
  set (m := MsgUpdate i v true). set (op := OpOffer m).
  set (s1 := set_thread (logged s [GStart tid op]) tid (mkThr op (POffer m) false)).
  assert (E1 : stepB s (LApiStart tid op) = Some s1) by (apply step_start_offer; exact Hl).
  assert (E2 : stepB s1 (LMonRecv (ROffer tid)) =
               Some (mon_take stackB verify pB (set_thread s1 tid (mkThr op PAwaitReply false)) st (InUpdate i v (Some tid)))).
  { rewrite (step_recv_offer s1 st tid (mkThr op (POffer m) false) m); [reflexivity|exact Hm| |reflexivity].
    subst s1. simp_state. rewrite lookup_update, N.eqb_refl. reflexivity. }
  cbn [System.run]. rewrite E1, E2, mon_take_eq. clear E1 E2.
  subst d. unfold d_update. cbn [abs d_slots d_skipv d_cur d_serial d_events d_vlog d_watching d_newcfg d_errcb d_alive].
  rewrite <- set_nth_same.
  subst s1. simp_state.
  assert (Hst : stackB (Monitor.set_nth i v (m_slots st)) =
                match compose fs defaults (Monitor.set_nth i v (m_slots st)) with Ok c => Some c | _ => None end)
    by reflexivity.
  destruct (compose fs defaults (Monitor.set_nth i v (m_slots st))) as [c|c|c] eqn:Ec; [| |exfalso; eapply Hnp; eauto].
  - (* stacking succeeded *)
    destruct (m_skip st) eqn:Ek; cbn [negb andb].
    + (* verification delayed: accepted without Verify *)
      assert (ER : mon_recv stackB verify pB (s_value s) st (InUpdate i v (Some tid)) =
                   (mkMon (Monitor.set_nth i v (m_slots st)) (m_watch st) true,
                    [AStore (fst (s_value s) + 1, c); ATryUpdates (fst (s_value s) + 1, c); AReply tid RNil;
                     ATrySubmit (EvNew (s_value s) (fst (s_value s) + 1, c) (fst (s_value s) + 1) (true && Monitor.p_suppress pB))]))
        by (cbn [mon_recv]; rewrite Hst, Ek; reflexivity).
      rewrite ER. cbn [fst snd System.split_verifies].
      bridge_tail s tid Hrep
        [LMonAct false; LMonAct (match s_updates s with Some _ => true | None => false end);
         LMonAct false; LMonAct (negb (has_room cbcap s)); @LApiAct val tid 1].
    + destruct (verify c) eqn:Ev; cbn [negb andb].
      * (* verified and accepted *)
        assert (ER : mon_recv stackB verify pB (s_value s) st (InUpdate i v (Some tid)) =
                     (mkMon (Monitor.set_nth i v (m_slots st)) (m_watch st) false,
                      [AVerify c true; AStore (fst (s_value s) + 1, c); ATryUpdates (fst (s_value s) + 1, c); AReply tid RNil;
                       ATrySubmit (EvNew (s_value s) (fst (s_value s) + 1, c) (fst (s_value s) + 1) (false && Monitor.p_suppress pB))]))
          by (cbn [mon_recv]; rewrite Hst, Ek, Ev; reflexivity).
        rewrite ER. cbn [fst snd System.split_verifies].
        bridge_tail s tid Hrep
          [LMonAct false; LMonAct (match s_updates s with Some _ => true | None => false end);
           LMonAct false; LMonAct (negb (has_room cbcap s)); @LApiAct val tid 1].
      * (* rejected by Verify *)
        assert (ER : mon_recv stackB verify pB (s_value s) st (InUpdate i v (Some tid)) =
                     (mkMon (Monitor.set_nth i v (m_slots st)) (m_watch st) false,
                      [AVerify c false; ATrySubmit (EvErr EVerify (s_value s) (Some c)); AReply tid RVerifyErr]))
          by (cbn [mon_recv]; rewrite Hst, Ek, Ev; reflexivity).
        rewrite ER. cbn [fst snd System.split_verifies].
        bridge_tail s tid Hrep [LMonAct (negb (has_room cbcap s)); LMonAct false; @LApiAct val tid 1].
  - (* stacking failed *)
    assert (ER : mon_recv stackB verify pB (s_value s) st (InUpdate i v (Some tid)) =
                 (mkMon (Monitor.set_nth i v (m_slots st)) (m_watch st) (m_skip st),
                  [ATrySubmit (EvErr EStack (s_value s) None); AReply tid RStackErr]))
      by (cbn [mon_recv]; rewrite Hst; reflexivity).
    rewrite ER. cbn [fst snd System.split_verifies].
    bridge_tail s tid Hrep [LMonAct (negb (has_room cbcap s)); LMonAct false; @LApiAct val tid 1].
Qed.

End Bridge.
