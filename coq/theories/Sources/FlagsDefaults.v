(* flag_defaults_are_template (property C12) in full: the default a flag is
   registered with is the template's value of its leaf, where "the template's
   value of a leaf" is a POSITIONAL reading of the template value (no names):
   the leaves of the config type in the order the sources flatten it, a nil
   pointer on the way (or a nil user pointer) meaning "no value", for which
   the flag gets the zero value of the leaf's concrete type.  The proof shows
   that transform.GetField's walk by field NAMES along dialsfieldpath arrives
   at exactly these positions, for types whose structs have distinct field
   names (Go guarantees it). *)
From Coq Require Import String.
From Coq Require Import List NArith ZArith Bool Lia.
From Dials Require Import Base.Outcome Base.Runes Reflect.Ty Reflect.Ptrify Stack.Overlay Text.CaseConv
  Text.ParseInt Text.ParseText Sources.Flatten Sources.FlattenSpec Sources.FlattenProofs Sources.Env Sources.EnvSpec
  Sources.EnvProofs Sources.EnvGuards Sources.Flags Sources.FlagsProofs.
Import ListNotations.
Open Scope list_scope.

(* ---- positional reading of the template ---- *)
Definition ohd (ovs : option (list val)) : option val :=
  match ovs with Some (v :: _) => Some v | _ => None end.
Definition otl (ovs : option (list val)) : option (list val) :=
  match ovs with Some (_ :: r) => Some r | _ => None end.

Definition leaf_value (t : ty) (ov : option val) : option val :=
  match ov with Some v => option_map snd (strip_ptrs t v) | None => None end.

Fixpoint tl_ty (t : ty) (ov : option val) {struct t} : option (list (option val)) :=
  match t with
  | TStruct fs _ => Some (tl_fields fs (match ov with Some (VStruct vs) => Some vs | _ => None end))
  | TPtr (TStruct fs _) => Some (tl_fields fs (match ov with Some (VPtr (VStruct vs)) => Some vs | _ => None end))
  | _ => None
  end
with tl_fields (fs : fields) (ovs : option (list val)) {struct fs} : list (option val) :=
  match fs with
  | FNil => []
  | FCons n tags _ t r =>
      (if omit_field n tags || is_chan_func t then []
       else match tl_ty t (ohd ovs) with
            | Some l => l
            | None => [leaf_value t (ohd ovs)]
            end) ++ tl_fields r (otl ovs)
  end.

(* distinct field names in every struct *)
Fixpoint names_ok_ty (t : ty) {struct t} : bool :=
  match t with
  | TStruct fs _ => names_ok fs
  | TPtr (TStruct fs _) => names_ok fs
  | _ => true
  end
with names_ok (fs : fields) {struct fs} : bool :=
  match fs with
  | FNil => true
  | FCons n _ _ t r => negb (existsb (str_eqb n) (field_names r)) && names_ok_ty t && names_ok r
  end.

(* ---- GetField ---- *)
Lemma get_field_none p : get_field p None = None.
Proof. destruct p; reflexivity. Qed.

Definition sub_struct (t : ty) (ov : option val) : option (fields * list val) :=
  match ov with
  | Some v => match strip_ptrs t v with Some (TStruct fs _, VStruct vs) => Some (fs, vs) | _ => None end
  | None => None
  end.

Definition look_in (s : option (fields * list val)) (n : str) : option (ty * val) :=
  match s with Some (fs, vs) => field_by_name n fs vs | None => None end.

Lemma get_field_cons n rest t v :
  get_field (n :: rest) (Some (t, v)) = get_field rest (look_in (sub_struct t (Some v)) n).
Proof.
  simpl. destruct (strip_ptrs t v) as [[t' v']|]; [|now rewrite get_field_none].
  destruct t'; try now rewrite get_field_none.
  destruct v'; try now rewrite get_field_none. reflexivity.
Qed.

(* the struct the positional reading descends into = the struct GetField steps into *)
Lemma tl_ty_sub t ov l :
  cfg_ok_ty t = true -> tl_ty t ov = Some l ->
  exists fs, (exists n, t = TStruct fs n \/ t = TPtr (TStruct fs n)) /\
             l = tl_fields fs (option_map snd (sub_struct t ov)).
Proof.
  intros Hok H. destruct t; simpl in H; try discriminate.
  - destruct t; try discriminate. inversion H; subst. exists fs. split; [eauto|].
    f_equal. destruct ov as [v|]; auto. destruct v; auto. simpl. destruct v; auto.
  - inversion H; subst. exists fs. split; [eauto|].
    f_equal. destruct ov as [v|]; auto. destruct v; auto.
Qed.

Lemma existsb_false_in n l : existsb (str_eqb n) l = false -> forall m, In m l -> str_eqb m n = false.
Proof.
  induction l as [|x l IH]; simpl; intros H m Hin; [contradiction|].
  apply orb_false_iff in H as [H1 H2]. destruct Hin as [->|Hin]; auto.
  destruct (str_eqb m n) eqn:E; auto. apply str_eqb_eq in E. subst. now rewrite str_eqb_refl in H1.
Qed.

Lemma leaf_flat_none t ov t' :
  cfg_ok_ty t = true -> tl_ty t ov = None -> ptrify_ty t = Some t' ->
  forall cfg a b c, flat_ty cfg t' a b c = None.
Proof.
  intros Hok Htl Hp cfg a b c.
  destruct t; simpl in Htl, Hp, Hok; try discriminate; try (inversion Hp; subst t'; reflexivity).
  destruct t; simpl in Htl, Hp, Hok; try discriminate; inversion Hp; subst t'; try reflexivity.
  simpl. destruct (count_ty t) eqn:Ec; [discriminate|].
  now destruct (count_none _ Ec) as (_ & _ & -> & _).
Qed.

Definition defaults_spec (fsuf : fields) : Prop :=
  cfg_ok fsuf = true -> names_ok fsuf = true ->
  forall cfg top names tagp path root (look : str -> option (ty * val)) ovsuf ls,
    (forall n, In n (field_names fsuf) ->
               look n = match ovsuf with Some vsuf => field_by_name n fsuf vsuf | None => None end) ->
    (forall n rest, get_field (path ++ n :: rest) root = get_field rest (look n)) ->
    flat_fields cfg (ptrify_fields fsuf) top names tagp path = Ok ls ->
    Forall2 (fun l o => get_field (lf_path l) root = o) ls (tl_fields fsuf ovsuf).

Lemma defaults_mut :
  (forall t, match t with
             | TStruct fs _ | TPtr (TStruct fs _) => defaults_spec fs
             | _ => True end) /\
  (forall fs, defaults_spec fs).
Proof.
  apply ty_fields_ind; intros; cbv beta in *; auto.
  - destruct t; auto.
  - (* FNil *) intros _ _ cfg top names tagp path root look ovsuf ls _ _ Hfl.
    simpl in Hfl. inversion Hfl. constructor.
  - (* FCons *)
    intros Hok Hnm cfg top names tagp path root look ovsuf ls Hlook Hget Hfl.
    simpl in Hok, Hnm. apply andb_true_iff in Hok as [Hokt Hokr].
    apply andb_true_iff in Hnm as [Hnm Hnr]. apply andb_true_iff in Hnm as [Hfresh Hnt].
    apply negb_true_iff in Hfresh.
    (* the tail sees the same lookups *)
    assert (Hlook' : forall n, In n (field_names rest) ->
               look n = match otl ovsuf with Some vs => field_by_name n rest vs | None => None end).
    { intros n Hin. rewrite (Hlook n) by (simpl; auto).
      pose proof (existsb_false_in _ _ Hfresh n Hin) as Hne.
      destruct ovsuf as [[|v vs]|]; simpl; auto. now rewrite Hne. }
    simpl ptrify_fields in Hfl. simpl tl_fields.
    destruct (omit_field f_name f_tags) eqn:Eomit; simpl orb.
    { simpl. eapply H0; eauto. }
    simpl in Hokt.
    destruct (ptrify_ty t) as [t'|] eqn:Ept.
    2:{ assert (Hcf : is_chan_func t = true) by (destruct t; simpl in Ept; try discriminate; auto;
                                                  destruct t; discriminate).
        rewrite Hcf. simpl. eapply H0; eauto. }
    assert (Hcf : is_chan_func t = false) by (destruct t; simpl in Ept |- *; auto; discriminate).
    rewrite Hcf.
    (* flatten the kept field *)
    simpl in Hfl.
    destruct (top && negb (top_kind_ok t')); [discriminate|].
    apply obind_ok in Hfl as ([tg tagp'] & Hgt & Hfl).
    apply obind_ok in Hfl as (here & Hhere & Hfl).
    apply obind_ok in Hfl as (rst & Hrst & Hfl). inversion Hfl; subst ls; clear Hfl.
    apply Forall2_app; [|eapply H0; eauto].
    (* the head field's value as GetField finds it *)
    assert (Hhead : look f_name = match ohd ovsuf with Some v => Some (t, v) | None => None end).
    { rewrite (Hlook f_name) by (simpl; auto).
      destruct ovsuf as [[|v vs]|]; simpl; auto. now rewrite str_eqb_refl. }
    simpl in Hhere.
    destruct (tl_ty t (ohd ovsuf)) as [l|] eqn:Etl.
    + (* a nested struct *)
      destruct (tl_ty_sub _ _ _ Hokt Etl) as (sub & (nm & Hshape) & ->).
      assert (Ht' : t' = TPtr (TStruct (ptrify_fields sub) [])).
      { destruct Hshape as [->| ->]; simpl in Ept; inversion Ept; reflexivity. }
      subst t'. simpl in Hhere.
      assert (Hsub : defaults_spec sub /\ cfg_ok sub = true /\ names_ok sub = true).
      { destruct Hshape as [->| ->]; simpl in H, Hokt, Hnt; auto. }
      destruct Hsub as (Hspec & Hoks & Hnms).
      eapply (Hspec Hoks Hnms cfg false _ _ (path ++ [f_name]) root
                (look_in (sub_struct t (ohd ovsuf)))); [| |exact Hhere].
      * intros n _. unfold look_in. destruct (sub_struct t (ohd ovsuf)) as [[fs' vs']|] eqn:Es; simpl; auto.
        assert (fs' = sub).
        { unfold sub_struct in Es. destruct (ohd ovsuf) as [v|]; [|discriminate].
          destruct Hshape as [->| ->]; simpl in Es.
          - destruct v; try discriminate. inversion Es. reflexivity.
          - destruct v; try discriminate. simpl in Es. destruct v; try discriminate. inversion Es. reflexivity. }
        subst. reflexivity.
      * intros n rest'. rewrite <- app_assoc. simpl. rewrite Hget, Hhead.
        destruct (ohd ovsuf) as [v|]; [apply get_field_cons|].
        simpl. now rewrite !get_field_none.
    + (* a leaf *)
      rewrite (leaf_flat_none _ _ _ Hokt Etl Ept) in Hhere. inversion Hhere; subst here. constructor; [|constructor].
      simpl. rewrite (Hget f_name []), Hhead. unfold leaf_value.
      destruct (ohd ovsuf); reflexivity.
Qed.

Theorem flag_defaults_are_template_l p ne te fs tmpl regs :
  cfg_ok fs = true -> names_ok fs = true -> alias_free (flag_alias_keys p) fs = true ->
  flag_regs p ne te fs tmpl = Ok regs ->
  Forall2 (fun r o => rg_init r = match o with
                                  | Some v => v
                                  | None => zero (strip_ptr_ty (lf_ty (rg_leaf r)))
                                  end)
          regs (tl_fields fs (Some tmpl)).
Proof.
  intros Hok Hnm Haf H. apply flag_regs_ok in H as (ls & Hfl & -> & _).
  unfold flag_keys in Hfl.
  rewrite alias_fields_id in Hfl by (apply (proj2 (ptrify_alias_free_mut _)); exact Haf).
  apply Forall2_map_l.
  assert (HF : Forall2 (fun l o => get_field (lf_path l) (Some (TStruct fs [], VStruct tmpl)) = o)
                       ls (tl_fields fs (Some tmpl))).
  { eapply (proj2 defaults_mut fs Hok Hnm _ true [] [] []
              (Some (TStruct fs [], VStruct tmpl)) (fun n => field_by_name n fs tmpl) (Some tmpl));
      [reflexivity| |exact Hfl].
    intros n rest. reflexivity. }
  eapply Forall2_imp; [|exact HF]. intros l o Hl. simpl. unfold template_value. rewrite Hl.
  destruct o; reflexivity.
Qed.

(* ---- integer slices accumulate like string slices ---- *)
Definition int_slice (sg : bool) (b : N) (t : str) : outcome (list val) :=
  if sg then omap (map VInt) (signed_slice (sw_of b) t)
  else omap (map (fun n => VInt (Z.of_N n))) (unsigned_slice (uw_of b) t).

Lemma set_all_intslice sg b : forall texts st vss,
  Forall2 (fun t vs => int_slice sg b t = Ok vs) texts vss -> texts <> [] ->
  exists st', set_all (FkIntSlice sg b) st texts = Ok st' /\
              st_val st' = VList ((if st_defaulted st then [] else vlist_of (st_val st)) ++ concat vss) /\
              st_defaulted st' = false.
Proof.
  induction texts as [|t texts IH]; intros st vss HF Hne; [congruence|].
  inversion HF as [|? vs ? vss' Ht HF']; subst.
  change (set_all (FkIntSlice sg b) st (t :: texts))
    with (st'' <- flag_set (FkIntSlice sg b) st t ;; set_all (FkIntSlice sg b) st'' texts).
  unfold flag_set at 1. unfold int_slice in Ht. rewrite Ht. simpl obind.
  destruct texts as [|t2 texts].
  - inversion HF'; subst. simpl. rewrite app_nil_r. eauto.
  - destruct (IH (mkFstate (VList ((if st_defaulted st then [] else vlist_of (st_val st)) ++ vs)) false) vss' HF')
      as (st' & Hs & Hv & Hd); [discriminate|].
    exists st'. split; auto. split; auto. rewrite Hv. simpl. now rewrite app_assoc.
Qed.

Theorem flag_accumulate_ints_l sg b dflt texts vss :
  Forall2 (fun t vs => int_slice sg b t = Ok vs) texts vss -> texts <> [] ->
  exists st', set_all (FkIntSlice sg b) (mkFstate dflt true) texts = Ok st' /\
              st_val st' = VList (concat vss).
Proof.
  intros HF Hne. destruct (set_all_intslice sg b texts (mkFstate dflt true) vss HF Hne) as (st' & Hs & Hv & _).
  exists st'. split; auto.
Qed.
