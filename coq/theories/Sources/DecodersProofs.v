(* Proofs for property C13: the dials side of the four decoders (duration
   substitution + tag copy, reverse translation) is transparent over the
   generic tag-directed decoder. *)
From Coq Require Import String.
From Coq Require Import List NArith ZArith Bool Lia.
From Dials Require Import Base.Outcome Base.Runes Reflect.Ty Stack.Overlay Text.ParseText
  Sources.Flatten Sources.FlattenProofs Sources.TimeText Sources.Decoders Sources.DecodersSpec.
Import ListNotations.
Open Scope list_scope.

Lemma tag_lookup_app_l k (a b : list (str * str)) :
  tag_lookup k (a ++ b) = match tag_lookup k a with Some v => Some v | None => tag_lookup k b end.
Proof. induction a as [|[k0 v0] a IH]; simpl; auto. destruct (str_eqb k k0); auto. Qed.

(* ---- the list helpers inside keyed_decode, named ---- *)
Fixpoint dec_list (f : doc -> outcome val) (l : list doc) : outcome (list val) :=
  match l with
  | [] => Ok []
  | x :: r => v <- f x ;; vs <- dec_list f r ;; Ok (v :: vs)
  end.

Fixpoint dec_kvs (f : doc -> outcome val) (l : list (str * doc)) : outcome (list (val * val)) :=
  match l with
  | [] => Ok []
  | (k, x) :: r => v <- f x ;; m <- dec_kvs f r ;; Ok (kv_ins k v m)
  end.

Lemma dec_list_ext f g l : (forall d, f d = g d) -> dec_list f l = dec_list g l.
Proof. intros H. induction l; simpl; auto. now rewrite H, IHl. Qed.

Lemma dec_kvs_ext f g l : (forall d, f d = g d) -> dec_kvs f l = dec_kvs g l.
Proof. intros H. induction l as [|[k x] l IH]; simpl; auto. now rewrite H, IH. Qed.

(* the lemmas about the generic decoder hold for either kind of library
   (with or without a datetime token of its own) *)
Section Lib.
Variable nt : bool.
Local Notation keyed_decode := (Decoders.keyed_decode nt).
Local Notation keyed_fields := (Decoders.keyed_fields nt).

Lemma keyed_slice nd key d e n :
  keyed_decode nd key d (TSlice e n) =
  if netip e n then match d with DStr s | DBytes s => parse_ip s | _ => Err 40 end
  else match d with DList l => omap VList (dec_list (fun x => keyed_decode nd key x e) l) | _ => Err 40 end.
Proof.
  simpl. destruct (netip e n); [reflexivity|].
  destruct d; try reflexivity. f_equal.
  induction l; simpl; auto. now rewrite IHl.
Qed.

Lemma netip_sub_type e n : netip (sub_type e) n = netip e n.
Proof.
  destruct e; try reflexivity. simpl. destruct (str_eqb name duration_name); reflexivity.
Qed.

Lemma netip_struct fs m n : netip (TStruct fs m) n = false.
Proof. reflexivity. Qed.

Lemma keyed_map nd key d kn e n :
  keyed_decode nd key d (TMap (TBasic KString kn) e n) =
  match d with DMap kvs => omap VMap (dec_kvs (fun x => keyed_decode nd key x e) (rev kvs)) | _ => Err 40 end.
Proof.
  destruct d; try reflexivity. simpl. f_equal.
  induction (rev kvs) as [|[k x] l IH]; simpl; auto. now rewrite IH.
Qed.

Lemma keyed_struct nd key d fs n :
  keyed_decode nd key d (TStruct fs n) =
  match d with DMap kvs => omap VStruct (keyed_fields nd key kvs fs) | _ => Err 43 end.
Proof. destruct d; reflexivity. Qed.

Lemma keyed_ptr nd key d t : keyed_decode nd key d (TPtr t) = omap VPtr (keyed_decode nd key d t).
Proof. reflexivity. Qed.

(* ---- zero values do not see the substitution or the tag copy ---- *)
Lemma zero_sub_type t : zero (sub_type t) = zero t.
Proof.
  induction t; simpl; auto.
  - destruct (str_eqb name duration_name); reflexivity.
  - now rewrite IHt.
Qed.

Lemma zero_subst_mut :
  (forall t, zero (subst_ty t) = zero t) /\ (forall fs, zero_fields (subst_fields fs) = zero_fields fs).
Proof.
  apply ty_fields_ind; intros; cbv beta in *; try reflexivity.
  - simpl. destruct (str_eqb _ _); reflexivity.
  - destruct t; reflexivity.
  - destruct t; reflexivity.
  - destruct t; simpl; try (now rewrite zero_sub_type); try reflexivity.
    + destruct (str_eqb _ _); reflexivity.
    + simpl in H. now rewrite H.
  - simpl. now rewrite H.
  - simpl. now rewrite H, H0.
Qed.

Lemma zero_tagcopy_mut src new :
  (forall t, zero (tagcopy_ty src new t) = zero t) /\
  (forall fs, zero_fields (tagcopy_fields src new fs) = zero_fields fs).
Proof.
  apply ty_fields_ind; intros; cbv beta in *; try reflexivity.
  - destruct t; reflexivity.
  - destruct t; reflexivity.
  - destruct t; try reflexivity. simpl. simpl in H. now rewrite H.
  - simpl. now rewrite H.
  - simpl. now rewrite H, H0.
Qed.

(* ---- the substitution makes a library without native duration strings
   behave like one with them ---- *)
Lemma decode_basic_sub k name d :
  decode_basic false k (if str_eqb name duration_name then parsing_duration_name else name) d =
  decode_basic true k name d.
Proof.
  destruct (str_eqb name duration_name) eqn:E; unfold decode_basic.
  - rewrite E. simpl. rewrite orb_true_r. reflexivity.
  - rewrite E. simpl. rewrite !orb_false_r. reflexivity.
Qed.

Lemma sub_type_decode key : forall t, scalarish t = true ->
  forall d, keyed_decode false key d (sub_type t) = keyed_decode true key d t.
Proof.
  induction t; intros Hs d; simpl in Hs; try discriminate; try reflexivity.
  - simpl. destruct (str_eqb name duration_name) eqn:E.
    + pose proof (decode_basic_sub k name d) as H. rewrite E in H. exact H.
    + pose proof (decode_basic_sub k name d) as H. rewrite E in H. exact H.
  - simpl sub_type. rewrite !keyed_ptr, IHt by assumption. reflexivity.
  - simpl sub_type. rewrite !keyed_slice, netip_sub_type. destruct (netip t name); auto. destruct d; auto.
    rewrite (dec_list_ext _ (fun x => keyed_decode true key x t)); auto.
  - apply andb_true_iff in Hs as [Hk Hv]. simpl sub_type.
    destruct t1; try reflexivity. simpl sub_type.
    destruct k; try reflexivity;
      destruct (str_eqb name0 duration_name); try reflexivity;
      rewrite !keyed_map; destruct d; auto;
      rewrite (dec_kvs_ext _ (fun x => keyed_decode true key x t2)); auto.
Qed.

(* keys do not change under the substitution: tags are kept *)
Lemma subst_decode_mut key :
  (forall t, dec_ok_ty t = true ->
             forall d, keyed_decode false key d (subst_ty t) = keyed_decode true key d t) /\
  (forall fs, dec_ok fs = true ->
              forall kvs, keyed_fields false key kvs (subst_fields fs) = keyed_fields true key kvs fs).
Proof.
  apply ty_fields_ind; intros; cbv beta in *.
  - apply (sub_type_decode key (TBasic k name)); auto.
  - reflexivity.
  - (* TPtr *)
    destruct t; try (apply (sub_type_decode key (TPtr _)); exact H0).
    change (subst_ty (TPtr (TStruct fs name))) with (TPtr (subst_ty (TStruct fs name))).
    rewrite !keyed_ptr, H; auto.
  - (* TSlice *)
    destruct t; try (apply (sub_type_decode key (TSlice _ name)); exact H0).
    change (subst_ty (TSlice (TStruct fs name0) name)) with (TSlice (subst_ty (TStruct fs name0)) name).
    rewrite !keyed_slice, !netip_struct. destruct d; auto.
    rewrite (dec_list_ext _ (fun x => keyed_decode true key x (TStruct fs name0))); auto.
  - (* TArray *) destruct t; reflexivity.
  - (* TMap *) apply (sub_type_decode key (TMap k v name)); auto.
  - (* TStruct *)
    change (subst_ty (TStruct fs name)) with (TStruct (subst_fields fs) name).
    rewrite !keyed_struct. destruct d; auto. simpl in H0. now rewrite H.
  - reflexivity.
  - reflexivity.
  - reflexivity.
  - reflexivity.
  - (* FCons *)
    simpl in H1. apply andb_true_iff in H1 as [Ht Hr]. simpl.
    rewrite (proj1 zero_subst_mut), H0 by assumption.
    destruct (doc_lookup (key f_name f_tags) kvs); auto. now rewrite H.
Qed.

(* the key the library computes after the tag copy = the specification key *)
Lemma key_after_copy f n tags :
  tag_wf f tags = true ->
  field_key (fmt_tag f) n (copy_tag dials_tag (fmt_tag f) tags) = spec_key f n tags.
Proof.
  unfold tag_wf, field_key, spec_key, copy_tag, tag_get. intros Hwf.
  destruct (tag_lookup dials_tag tags) as [[|d0 d]|] eqn:Ed;
    destruct (tag_lookup (fmt_tag f) tags) as [[|c0 c]|] eqn:Ef; try discriminate;
    rewrite ?Ef; try reflexivity.
  rewrite tag_lookup_app_l, Ef. simpl. now rewrite str_eqb_refl.
Qed.

(* a type without structs is decoded the same whatever the key function *)
Lemma scalar_key_indep nd key1 key2 : forall t, scalarish t = true ->
  forall d, keyed_decode nd key1 d t = keyed_decode nd key2 d t.
Proof.
  induction t; intros Hs d; simpl in Hs; try discriminate; try reflexivity.
  - rewrite !keyed_ptr, IHt by assumption. reflexivity.
  - rewrite !keyed_slice. destruct (netip t name); auto. destruct d; auto.
    rewrite (dec_list_ext _ (fun x => keyed_decode nd key2 x t)); auto.
  - apply andb_true_iff in Hs as [Hk Hv].
    destruct t1; try reflexivity. destruct k; try reflexivity.
    rewrite !keyed_map. destruct d; auto.
    rewrite (dec_kvs_ext _ (fun x => keyed_decode nd key2 x t2)); auto.
Qed.

Lemma tagcopy_scalar src new t : scalarish t = true -> tagcopy_ty src new t = t.
Proof.
  destruct t; simpl; intros H; try discriminate; try reflexivity; destruct t; simpl in H; try discriminate; reflexivity.
Qed.

Lemma tagcopy_decode_mut nd f :
  (forall t, dec_ok_ty t = true -> tags_wf_ty f t = true ->
     forall d, keyed_decode nd (field_key (fmt_tag f)) d (tagcopy_ty dials_tag (fmt_tag f) t) =
               keyed_decode nd (spec_key f) d t) /\
  (forall fs, dec_ok fs = true -> tags_wf f fs = true ->
     forall kvs, keyed_fields nd (field_key (fmt_tag f)) kvs (tagcopy_fields dials_tag (fmt_tag f) fs) =
                 keyed_fields nd (spec_key f) kvs fs).
Proof.
  assert (Hsc : forall t, scalarish t = true -> forall d,
             keyed_decode nd (field_key (fmt_tag f)) d (tagcopy_ty dials_tag (fmt_tag f) t) =
             keyed_decode nd (spec_key f) d t).
  { intros t Hs d. rewrite tagcopy_scalar by assumption. now apply scalar_key_indep. }
  apply ty_fields_ind; intros; cbv beta in *; try (apply Hsc; assumption).
  - (* TPtr *)
    destruct t; try (apply Hsc; exact H0).
    change (tagcopy_ty dials_tag (fmt_tag f) (TPtr (TStruct fs name)))
      with (TPtr (tagcopy_ty dials_tag (fmt_tag f) (TStruct fs name))).
    rewrite !keyed_ptr, H; auto.
  - (* TSlice *)
    destruct t; try (apply Hsc; exact H0).
    change (tagcopy_ty dials_tag (fmt_tag f) (TSlice (TStruct fs name0) name))
      with (TSlice (tagcopy_ty dials_tag (fmt_tag f) (TStruct fs name0)) name).
    rewrite !keyed_slice, !netip_struct. destruct d; auto.
    rewrite (dec_list_ext _ (fun x => keyed_decode nd (spec_key f) x (TStruct fs name0))); auto.
  - (* TArray *) destruct t; reflexivity.
  - (* TStruct *)
    change (tagcopy_ty dials_tag (fmt_tag f) (TStruct fs name))
      with (TStruct (tagcopy_fields dials_tag (fmt_tag f) fs) name).
    rewrite !keyed_struct. destruct d; auto. simpl in H0, H1. now rewrite H.
  - reflexivity.
  - (* FCons *)
    simpl in H1, H2. apply andb_true_iff in H1 as [Ht Hr].
    apply andb_true_iff in H2 as [H2 Hwr]. apply andb_true_iff in H2 as [Hwtag Hwt].
    simpl. rewrite key_after_copy, (proj1 (zero_tagcopy_mut _ _)), H0 by assumption.
    destruct (doc_lookup (spec_key f f_name f_tags) kvs); auto. now rewrite H.
Qed.

(* ---- the substitution preserves the side conditions ---- *)
Lemma scalarish_sub_type t : scalarish (sub_type t) = scalarish t.
Proof.
  induction t; simpl; auto.
  - destruct (str_eqb name duration_name); reflexivity.
  - now rewrite IHt1, IHt2.
Qed.

Lemma dec_ok_sub_type t : scalarish t = true -> dec_ok_ty (sub_type t) = true.
Proof.
  intros H. rewrite <- scalarish_sub_type in H.
  destruct (sub_type t) eqn:E; simpl in *; auto; try discriminate;
    destruct t0; simpl in *; auto; discriminate.
Qed.

Lemma scalar_dec_ok t : dec_ok_ty t = true -> (forall fs n, t <> TStruct fs n) ->
  (forall fs n, t <> TPtr (TStruct fs n)) -> (forall fs n m, t <> TSlice (TStruct fs n) m) ->
  (forall fs n k, t <> TArray k (TStruct fs n)) -> scalarish t = true.
Proof.
  destruct t; simpl; auto; intros H H1 H2 H3 H4.
  - destruct t; auto. now contradiction (H2 fs name).
  - destruct t; auto. now contradiction (H3 fs name0 name).
  - destruct t; auto. now contradiction (H4 fs name n).
  - now contradiction (H1 fs name).
Qed.

Lemma dec_ok_subst_mut :
  (forall t, dec_ok_ty t = true -> dec_ok_ty (subst_ty t) = true) /\
  (forall fs, dec_ok fs = true -> dec_ok (subst_fields fs) = true).
Proof.
  apply ty_fields_ind; intros; cbv beta in *; auto.
  - apply (dec_ok_sub_type (TBasic k name)). exact H.
  - destruct t; try (apply (dec_ok_sub_type (TPtr _)); exact H0). simpl in *. auto.
  - destruct t; try (apply (dec_ok_sub_type (TSlice _ name)); exact H0). simpl in *. auto.
  - destruct t; try (apply (dec_ok_sub_type (TArray n _)); exact H0). simpl in *. auto.
  - apply (dec_ok_sub_type (TMap k v name)). exact H1.
  - simpl in *. apply andb_true_iff in H1 as [Ht Hr]. now rewrite H, H0.
Qed.

Lemma tags_wf_sub_type f t : tags_wf_ty f (sub_type t) = tags_wf_ty f t.
Proof.
  induction t; simpl; auto. destruct (str_eqb name duration_name); reflexivity.
Qed.

Lemma tags_wf_subst_mut f :
  (forall t, tags_wf_ty f (subst_ty t) = tags_wf_ty f t) /\
  (forall fs, tags_wf f (subst_fields fs) = tags_wf f fs).
Proof.
  apply ty_fields_ind; intros; cbv beta in *; try reflexivity.
  - apply (tags_wf_sub_type f (TBasic k name)).
  - destruct t; try apply (tags_wf_sub_type f (TPtr _)). simpl in *. exact H.
  - destruct t; try apply (tags_wf_sub_type f (TSlice _ name)). simpl in *. exact H.
  - destruct t; try apply (tags_wf_sub_type f (TArray n _)). simpl in *. exact H.
  - apply (tags_wf_sub_type f (TMap k v name)).
  - simpl. exact H.
  - simpl. now rewrite H, H0.
Qed.

End Lib.

(* ---- decoders_agree ---- *)
Theorem decoders_agree_l f d pfs :
  dec_ok pfs = true -> tags_wf f pfs = true -> decode f d pfs = spec_decode f d pfs.
Proof.
  intros Hok Hwf. unfold decode, spec_decode, spec_fields, generic_fields. destruct d; auto.
  destruct f; simpl translated; simpl lib_native_dur; simpl lib_native_time.
  - rewrite (proj2 (tagcopy_decode_mut _ false FJson)).
    + apply (proj2 (subst_decode_mut _ _)); auto.
    + now apply dec_ok_subst_mut.
    + now rewrite (proj2 (tags_wf_subst_mut FJson)).
  - now apply (proj2 (tagcopy_decode_mut _ true FYaml)).
  - now apply (proj2 (tagcopy_decode_mut _ true FToml)).
  - rewrite (proj2 (tagcopy_decode_mut _ false FCue)).
    + apply (proj2 (subst_decode_mut _ _)); auto.
    + now apply dec_ok_subst_mut.
    + now rewrite (proj2 (tags_wf_subst_mut FCue)).
Qed.

(* ---- sets as lists (the set-slice wrapper ez puts around every decoder) ---- *)
Theorem set_as_list_l f d pfs :
  dec_ok (setslice_fields pfs) = true -> tags_wf f (setslice_fields pfs) = true ->
  decode_wrapped f d pfs = spec_wrapped f d pfs.
Proof.
  intros Hok Hwf. unfold decode_wrapped, spec_wrapped. rewrite decoders_agree_l by assumption.
  destruct (spec_decode f d (setslice_fields pfs)); reflexivity.
Qed.

(* ---- without format-specific tags the four formats use the same keys ---- *)
Lemma spec_key_no_fmt f n tags : no_fmt tags = true ->
  spec_key f n tags = match tag_get dials_tag tags with [] => n | k => k end.
Proof.
  unfold no_fmt, spec_key, tag_get. intros H.
  destruct (tag_lookup json_tag tags) eqn:Ej; try discriminate.
  destruct (tag_lookup yaml_tag tags) eqn:Ey; try discriminate.
  destruct (tag_lookup toml_tag tags) eqn:Et; try discriminate.
  destruct f; simpl fmt_tag; rewrite ?Ej, ?Ey, ?Et; reflexivity.
Qed.

Lemma spec_same_keys_mut nt nd f g :
  (forall t, no_fmt_ty t = true -> forall d, keyed_decode nt nd (spec_key f) d t = keyed_decode nt nd (spec_key g) d t) /\
  (forall fs, no_fmt_fields fs = true ->
              forall kvs, keyed_fields nt nd (spec_key f) kvs fs = keyed_fields nt nd (spec_key g) kvs fs).
Proof.
  apply ty_fields_ind; intros; cbv beta in *; try reflexivity.
  - rewrite !keyed_ptr, H; auto.
  - rewrite !keyed_slice. destruct (netip t name); auto. destruct d; auto.
    rewrite (dec_list_ext _ (fun x => keyed_decode nt nd (spec_key g) x t)); auto.
  - destruct k; try reflexivity. destruct k; try reflexivity.
    rewrite !keyed_map. destruct d; auto.
    rewrite (dec_kvs_ext _ (fun x => keyed_decode nt nd (spec_key g) x v)); auto.
  - rewrite !keyed_struct. destruct d; auto. simpl in H0. now rewrite H.
  - simpl in H1. apply andb_true_iff in H1 as [H1 Hr]. apply andb_true_iff in H1 as [Hn Ht].
    simpl. rewrite !spec_key_no_fmt, H0 by assumption.
    destruct (doc_lookup _ kvs); auto. now rewrite H.
Qed.

Lemma no_fmt_tag_wf f tags : no_fmt tags = true -> tag_wf f tags = true.
Proof.
  unfold no_fmt, tag_wf. intros H.
  destruct (tag_lookup json_tag tags) eqn:Ej; try discriminate.
  destruct (tag_lookup yaml_tag tags) eqn:Ey; try discriminate.
  destruct (tag_lookup toml_tag tags) eqn:Et; try discriminate.
  destruct f; simpl fmt_tag; rewrite ?Ej, ?Ey, ?Et; reflexivity.
Qed.

Lemma no_fmt_tags_wf_mut f :
  (forall t, no_fmt_ty t = true -> tags_wf_ty f t = true) /\
  (forall fs, no_fmt_fields fs = true -> tags_wf f fs = true).
Proof.
  apply ty_fields_ind; intros; cbv beta in *; simpl in *; auto.
  apply andb_true_iff in H1 as [H1 Hr]. apply andb_true_iff in H1 as [Hn Ht].
  now rewrite H, H0, (no_fmt_tag_wf f f_tags Hn).
Qed.

(* ---- the two kinds of library (datetime token or not) differ only where a
   string meets a time.Time leaf ---- *)
Lemma dec_list_ext_in f g l : (forall d, In d l -> f d = g d) -> dec_list f l = dec_list g l.
Proof.
  induction l; simpl; intros H; auto. rewrite (H a), IHl; auto.
Qed.

Lemma dec_kvs_ext_in f g l : (forall k d, In (k, d) l -> f d = g d) -> dec_kvs f l = dec_kvs g l.
Proof.
  induction l as [|[k x] l IH]; simpl; intros H; auto. rewrite (H k x), IH; auto.
  intros k' d' Hin. apply (H k'). now right.
Qed.

Lemma doc_lookup_in k kvs d : doc_lookup k kvs = Some d -> exists k', In (k', d) kvs.
Proof.
  induction kvs as [|[k0 d0] r IH]; simpl; [discriminate|].
  destruct (str_eqb k k0).
  - intros H. inversion H; subst. exists k0. now left.
  - intros H. destruct (IH H) as [k' Hin]. exists k'. now right.
Qed.

Lemma nt_free_mut nd key nt1 nt2 :
  (forall t, time_free_ty t = true -> forall d, keyed_decode nt1 nd key d t = keyed_decode nt2 nd key d t) /\
  (forall fs, time_free fs = true -> forall kvs, keyed_fields nt1 nd key kvs fs = keyed_fields nt2 nd key kvs fs).
Proof.
  apply ty_fields_ind; intros; cbv beta in *; try reflexivity.
  - destruct ptr_recv; try reflexivity. simpl in H. simpl.
    destruct (str_eqb id time_name); [discriminate|reflexivity].
  - rewrite !keyed_ptr, H; auto.
  - rewrite !keyed_slice. destruct (netip t name); auto. destruct d; auto.
    rewrite (dec_list_ext _ (fun x => keyed_decode nt2 nd key x t)); auto.
  - destruct k; try reflexivity. destruct k; try reflexivity.
    rewrite !keyed_map. destruct d; auto.
    rewrite (dec_kvs_ext _ (fun x => keyed_decode nt2 nd key x v)); auto.
  - rewrite !keyed_struct. destruct d; auto. simpl in H0. now rewrite H.
  - simpl in H1. apply andb_true_iff in H1 as [Ht Hr]. simpl. rewrite H0 by assumption.
    destruct (doc_lookup _ kvs); auto. now rewrite H.
Qed.

Lemma nt_marked_mut nd key nt1 nt2 :
  (forall t d, no_time_str d = true -> keyed_decode nt1 nd key d t = keyed_decode nt2 nd key d t) /\
  (forall fs kvs, forallb (fun kv => no_time_str (snd kv)) kvs = true ->
                  keyed_fields nt1 nd key kvs fs = keyed_fields nt2 nd key kvs fs).
Proof.
  apply ty_fields_ind; intros; cbv beta in *; try reflexivity.
  - destruct ptr_recv; try reflexivity. simpl.
    destruct (str_eqb id time_name); [|reflexivity].
    destruct d; try reflexivity. simpl in H. unfold decode_time, time_value.
    destruct (rfc3339 s); [discriminate|]. destruct nt1, nt2; reflexivity.
  - rewrite !keyed_ptr, H; auto.
  - rewrite !keyed_slice. destruct (netip t name); auto. destruct d; auto.
    simpl in H0. rewrite forallb_forall in H0.
    rewrite (dec_list_ext_in _ (fun x => keyed_decode nt2 nd key x t)); auto.
  - destruct k; try reflexivity. destruct k; try reflexivity.
    rewrite !keyed_map. destruct d; auto.
    simpl in H1. rewrite forallb_forall in H1.
    rewrite (dec_kvs_ext_in _ (fun x => keyed_decode nt2 nd key x v)); auto.
    intros k' d' Hin. apply H0. apply in_rev in Hin. exact (H1 _ Hin).
  - rewrite !keyed_struct. destruct d; auto. simpl in H0. now rewrite H.
  - simpl. rewrite H0 by assumption.
    destruct (doc_lookup _ kvs) eqn:El; auto. rewrite H; auto.
    destruct (doc_lookup_in _ _ _ El) as [k' Hin]. rewrite forallb_forall in H1. exact (H1 _ Hin).
Qed.

(* same data, same config: without format-specific tags all four decoders
   return the outcome of the generic decoder keyed by the dials tags - on every
   document tree whose timestamps are written as timestamps *)
Theorem decoders_agree_all_l f g d pfs :
  dec_ok pfs = true -> no_fmt_fields pfs = true ->
  time_free pfs = true \/ no_time_str d = true ->
  decode f d pfs = decode g d pfs.
Proof.
  intros Hok Hnf Ht.
  rewrite !decoders_agree_l by (auto; now apply no_fmt_tags_wf_mut).
  unfold spec_decode, spec_fields. destruct d; auto.
  rewrite (proj2 (spec_same_keys_mut (lib_native_time f) true f g)) by assumption.
  destruct Ht as [Ht|Ht].
  - now apply (proj2 (nt_free_mut _ _ _ _)).
  - now apply (proj2 (nt_marked_mut _ _ _ _)).
Qed.

(* ---- characterisation of a struct decode: field by field ---- *)
Lemma keyed_fields_char nt nd key kvs fs vs :
  keyed_fields nt nd key kvs fs = Ok vs <->
  Forall2 (fun fld v => match doc_lookup (key (fst (fst fld)) (snd (fst fld))) kvs with
                        | Some d => keyed_decode nt nd key d (snd fld) = Ok v
                        | None => v = zero (snd fld)
                        end) (fields_list fs) vs.
Proof.
  revert vs. induction fs as [|n tags an t r IH]; intros vs; simpl.
  - split; intros H; inversion H; auto.
  - split.
    + intros H. apply obind_ok in H as (v & Hv & H). apply obind_ok in H as (vs' & Hvs & H).
      inversion H; subst. constructor; [|now apply IH]. simpl.
      destruct (doc_lookup (key n tags) kvs); [exact Hv|]. now inversion Hv.
    + intros H. inversion H as [|fld v l vs' Hv Hr]; subst. simpl in Hv.
      apply IH in Hr. rewrite Hr.
      destruct (doc_lookup (key n tags) kvs); [now rewrite Hv|now subst].
Qed.

(* absent key => the field is left unset (nil for every pointerified field) *)
Theorem absent_is_unset_l f kvs pfs vs :
  dec_ok pfs = true -> tags_wf f pfs = true -> decode f (DMap kvs) pfs = Ok vs ->
  Forall2 (fun fld v => doc_lookup (spec_key f (fst (fst fld)) (snd (fst fld))) kvs = None -> v = zero (snd fld))
          (fields_list pfs) vs.
Proof.
  intros Hok Hwf H. rewrite decoders_agree_l in H by assumption.
  unfold spec_decode, spec_fields in H.
  apply keyed_fields_char in H. eapply Forall2_imp; [|exact H].
  intros fld v Hm Hn. cbv beta in Hm. rewrite Hn in Hm. exact Hm.
Qed.

(* a present key whose value does not decode at the field's type makes the
   whole decode fail: an error is total, never a partially filled value *)
Theorem error_is_total_l f kvs pfs n tags t d :
  dec_ok pfs = true -> tags_wf f pfs = true ->
  In (n, tags, t) (fields_list pfs) -> doc_lookup (spec_key f n tags) kvs = Some d ->
  (forall v, spec_ty f d t <> Ok v) ->
  forall vs, decode f (DMap kvs) pfs <> Ok vs.
Proof.
  intros Hok Hwf Hin Hl Hbad vs H. rewrite decoders_agree_l in H by assumption.
  unfold spec_decode, spec_fields in H.
  apply keyed_fields_char in H.
  induction H as [|fld v l vs' Hv _ IH]; [inversion Hin|].
  destruct Hin as [->|Hin]; auto. simpl in Hv. rewrite Hl in Hv. exact (Hbad _ Hv).
Qed.

(* ---- duration forms ---- *)
Definition dur_leaf : ty := TPtr (TBasic (KInt 64) duration_name).

(* what each library is handed for a duration leaf *)
Definition dur_leaf_seen (f : format) : ty :=
  match f with FJson | FCue => subst_ty dur_leaf | FYaml | FToml => dur_leaf end.

Theorem duration_forms_l (f : format) (key : str -> list (str * str) -> str) :
  (forall s, keyed_decode (lib_native_time f) (lib_native_dur f) key (DStr s) (dur_leaf_seen f) =
             omap VPtr (omap VInt (parse_duration s))) /\
  (forall z, keyed_decode (lib_native_time f) (lib_native_dur f) key (DInt z) (dur_leaf_seen f) =
             omap VPtr (decode_int 64 z)).
Proof. destruct f; split; intros; reflexivity. Qed.

(* ---- timestamps ---- *)
Definition time_leaf : ty := TPtr (TTextU time_name true).

(* a timestamp the way format f writes one *)
Definition own_time (f : format) (s : str) : doc := if lib_native_time f then DTime s else DStr s.

Theorem time_forms_l (f : format) (key : str -> list (str * str) -> str) (s : str) :
  subst_ty time_leaf = time_leaf /\
  keyed_decode (lib_native_time f) (lib_native_dur f) key (own_time f s) time_leaf = omap VPtr (time_value s) /\
  keyed_decode (lib_native_time f) (lib_native_dur f) key (DTime s) time_leaf = omap VPtr (time_value s).
Proof. destruct f; repeat split; reflexivity. Qed.
