(* A source's value between a lower and a higher layer (properties C11 / C12
   composed with C01).

   Generic part (about C01's by-name specification `stack` only): the
   EFFECTIVE LEAVES of a config value - depth first over the retained fields,
   a leaf below a nil struct pointer counting as its zero value - after
   stacking one layer are, leaf by leaf,
        the layer's leaf (unwrapped) if it is set, else the leaf before,
   where the layer's leaves are read positionally from the pointerified layer
   value (FlattenSpec.read_fields, the reading the source theorems use).
   Stacking several layers folds this (C01: stack_layers_compose), and C01's
   compose_eq_stack says dials' compose computes `stack`. *)
From Coq Require Import String.
From Coq Require Import List NArith ZArith Bool Lia.
From Dials Require Import Base.Outcome Base.Runes Reflect.Ty Reflect.Ptrify Stack.Overlay Stack.StackSpec
  Stack.Spine Stack.StackProofs.
From Dials Require Sources.FlattenSpec Sources.FlattenProofs Sources.EnvGuards.
Import ListNotations.
Open Scope list_scope.

Module FS := Dials.Sources.FlattenSpec.
Module EG := Dials.Sources.EnvGuards.
Module FP := Dials.Sources.FlattenProofs.

Definition ohd (ovs : option (list val)) : option val :=
  match ovs with Some (v :: _) => Some v | _ => None end.
Definition otl (ovs : option (list val)) : option (list val) :=
  match ovs with Some (_ :: r) => Some r | _ => None end.

(* effective leaves of a value of the ORIGINAL config type *)
Fixpoint eff_ty (t : ty) (ov : option val) {struct t} : option (list val) :=
  match t with
  | TStruct fs _ => Some (eff_fields fs (match ov with Some (VStruct vs) => Some vs | _ => None end))
  | TPtr (TStruct fs _) => Some (eff_fields fs (match ov with Some (VPtr (VStruct vs)) => Some vs | _ => None end))
  | _ => None
  end
with eff_fields (fs : fields) (ovs : option (list val)) {struct fs} : list val :=
  match fs with
  | FNil => []
  | FCons n tags _ t r =>
      (if omit_field n tags || is_chan_func t then []
       else match eff_ty t (ohd ovs) with
            | Some l => l
            | None => [match ohd ovs with Some v => v | None => zero t end]
            end) ++ eff_fields r (otl ovs)
  end.

(* the types of those leaves *)
Fixpoint ltys_ty (t : ty) {struct t} : option (list ty) :=
  match t with
  | TStruct fs _ => Some (ltys fs)
  | TPtr (TStruct fs _) => Some (ltys fs)
  | _ => None
  end
with ltys (fs : fields) {struct fs} : list ty :=
  match fs with
  | FNil => []
  | FCons n tags _ t r =>
      (if omit_field n tags || is_chan_func t then []
       else match ltys_ty t with Some l => l | None => [t] end) ++ ltys r
  end.

(* one layer over the leaves: a set layer leaf wins *)
Fixpoint over (ts : list ty) (bs ls : list val) : list val :=
  match ts, bs, ls with
  | t :: ts', b :: bs', l :: ls' => (if is_vnil l then b else unwrap t l) :: over ts' bs' ls'
  | _, _, _ => []
  end.

Lemma over_app t1 t2 b1 b2 l1 l2 :
  length b1 = length t1 -> length l1 = length t1 ->
  over (t1 ++ t2) (b1 ++ b2) (l1 ++ l2) = over t1 b1 l1 ++ over t2 b2 l2.
Proof.
  revert b1 l1. induction t1 as [|t t1 IH]; intros [|b b1] [|l l1] Hb Hl; simpl in *; try discriminate; auto.
  rewrite IH by lia. reflexivity.
Qed.

Lemma over_nil_layer ts bs : length bs = length ts -> over ts bs (repeat VNil (length ts)) = bs.
Proof.
  revert bs. induction ts as [|t ts IH]; intros [|b bs] H; simpl in *; try discriminate; auto.
  rewrite IH by lia. reflexivity.
Qed.

(* ---- lengths ---- *)
Lemma lengths_mut :
  (forall t, EG.cfg_ok_ty t = true ->
     match ltys_ty t with
     | Some l => (forall ov, exists l', eff_ty t ov = Some l' /\ length l' = length l) /\
                 (forall t', ptrify_ty t = Some t' ->
                    forall v, exists l', FS.read_ty t' v = Some l' /\ length l' = length l)
     | None => (forall ov, eff_ty t ov = None) /\
               (forall t', ptrify_ty t = Some t' -> forall v, FS.read_ty t' v = None)
     end) /\
  (forall fs, EG.cfg_ok fs = true ->
     (forall ovs, length (eff_fields fs ovs) = length (ltys fs)) /\
     (forall olvs, length (FS.read_fields (ptrify_fields fs) olvs) = length (ltys fs))).
Proof.
  apply ty_fields_ind.
  - intros k name _. split; intros; try reflexivity. inversion H. reflexivity.
  - intros id pr _. split; intros; try reflexivity. inversion H. reflexivity.
  - intros t IH Hok. destruct t; simpl in *;
      try (split; intros; [reflexivity|]; match goal with H : Some _ = Some _ |- _ => inversion H end; simpl;
           try reflexivity).
    + destruct (FS.count_ty t) eqn:Ec; [discriminate|].
      now destruct (FP.count_none _ Ec) as (_ & -> & _).
    + destruct (IH Hok) as [He Hr].
      assert (Hfe : forall ovs, length (eff_fields fs ovs) = length (ltys fs)).
      { intros ovs. destruct (He (match ovs with Some vs => Some (VStruct vs) | None => None end)) as (l' & Hl & Hlen).
        simpl in Hl. inversion Hl. subst l'. destruct ovs; exact Hlen. }
      assert (Hfr : forall olvs, length (FS.read_fields (ptrify_fields fs) olvs) = length (ltys fs)).
      { intros olvs.
        destruct (Hr _ eq_refl (match olvs with Some vs => Some (VPtr (VStruct vs)) | None => None end)) as (l' & Hl & Hlen).
        simpl in Hl. inversion Hl. subst l'. destruct olvs; exact Hlen. }
      split.
      * intros ov. eexists. split; [reflexivity|]. apply Hfe.
      * intros t' Hp v. inversion Hp; subst. simpl. eexists. split; [reflexivity|]. apply Hfr.
  - intros t _ name _. split; intros; try reflexivity. inversion H. reflexivity.
  - intros n t _ _. split; intros; try reflexivity. inversion H. reflexivity.
  - intros k _ v _ name _. split; intros; try reflexivity. inversion H. reflexivity.
  - intros fs IH name Hok. simpl in Hok. destruct (IH Hok) as [He Hr]. simpl. split.
    + intros ov. eexists. split; [reflexivity|]. apply He.
    + intros t' Hp v. inversion Hp; subst. simpl. eexists. split; [reflexivity|]. apply Hr.
  - intros H. discriminate.
  - intros _. split; intros; try reflexivity. discriminate.
  - intros _. split; intros; try reflexivity. discriminate.
  - intros _. split; intros; reflexivity.
  - intros n tags an t IHt r IHr Hok. simpl in Hok. apply andb_true_iff in Hok as [Ht Hr].
    destruct (IHr Hr) as [Her Hrr]. simpl.
    destruct (omit_field n tags) eqn:Eo; simpl.
    + split; intros; [apply Her|apply Hrr].
    + simpl in Ht. specialize (IHt Ht).
      destruct (is_chan_func t) eqn:Ec.
      * assert (ptrify_ty t = None) by (now apply chan_func_ptrify). rewrite H. simpl.
        split; intros; [apply Her|apply Hrr].
      * destruct (ptrify_ty t) as [t'|] eqn:Ep.
        2:{ apply chan_func_ptrify in Ep. congruence. }
        simpl. destruct (ltys_ty t) as [l|].
        -- destruct IHt as [He Hrd]. split.
           ++ intros ovs. destruct (He (ohd ovs)) as (l' & -> & Hlen). rewrite !app_length, Her. lia.
           ++ intros olvs. destruct (Hrd _ eq_refl (match olvs with Some (v :: _) => Some v | _ => None end)) as (l' & -> & Hlen).
              rewrite !app_length, Hrr. lia.
        -- destruct IHt as [He Hrd]. split.
           ++ intros ovs. rewrite He. simpl. now rewrite Her.
           ++ intros olvs. rewrite (Hrd _ eq_refl). simpl. now rewrite Hrr.
Qed.

Lemma len_eff fs ovs : EG.cfg_ok fs = true -> length (eff_fields fs ovs) = length (ltys fs).
Proof. intros H. apply (proj2 lengths_mut fs H). Qed.
Lemma len_read fs olvs : EG.cfg_ok fs = true ->
  length (FS.read_fields (ptrify_fields fs) olvs) = length (ltys fs).
Proof. intros H. apply (proj2 lengths_mut fs H). Qed.

Lemma read_none fs : EG.cfg_ok fs = true ->
  FS.read_fields (ptrify_fields fs) None = repeat VNil (length (ltys fs)).
Proof.
  intros H. rewrite (proj2 FP.read_none_mut). f_equal.
  rewrite <- (len_read fs None H), (proj2 FP.read_none_mut). now rewrite repeat_length.
Qed.

(* the zero struct has the leaves of "no struct at all" *)
Lemma eff_zero_mut :
  (forall t, match t with
             | TStruct fs _ | TPtr (TStruct fs _) => eff_fields fs (Some (zero_fields fs)) = eff_fields fs None
             | _ => True end) /\
  (forall fs, eff_fields fs (Some (zero_fields fs)) = eff_fields fs None).
Proof.
  apply ty_fields_ind; intros; cbv beta in *; auto.
  - destruct t; auto.
  - simpl. rewrite H0. f_equal.
    destruct (omit_field f_name f_tags || is_chan_func t); auto.
    destruct t; simpl in *; auto; try (destruct t; simpl in *; auto); try (now rewrite H).
Qed.

Definition ol_field (t : ty) : Prop :=
  forall b lv pt, Spine.wf_ty t = true -> EG.cfg_ok_ty t = true -> ptrify_ty t = Some pt ->
    spine t b = true -> spine pt lv = true ->
    match eff_ty t (Some (stack_field t b [lv])) with Some l => l | None => [stack_field t b [lv]] end =
    over (match ltys_ty t with Some l => l | None => [t] end)
         (match eff_ty t (Some b) with Some l => l | None => [b] end)
         (match FS.read_ty pt (Some lv) with Some l => l | None => [lv] end).

Definition ol_fields (fs : fields) : Prop :=
  forall bvs lvs pre lpre, Spine.wf_fields fs = true -> EG.cfg_ok fs = true ->
    spine_fields fs bvs = true -> spine_fields (ptrify_fields fs) lvs = true ->
    length pre = length lpre ->
    fresh_for (field_names (ptrify_fields fs)) pre ->
    nodup_names (field_names (ptrify_fields fs)) = true ->
    eff_fields fs (Some (stack_fields fs bvs (pre ++ field_names (ptrify_fields fs)) [lpre ++ lvs])) =
    over (ltys fs) (eff_fields fs (Some bvs)) (FS.read_fields (ptrify_fields fs) (Some lvs)).

Definition ol_ty (t : ty) : Prop :=
  ol_field t /\ match t with TStruct fs _ => ol_fields fs | _ => True end.

Lemma ol_leaf t pt : ltys_ty t = None -> (forall v, FS.read_ty pt v = None) ->
  (forall b l, stack_field t b l = match last_set l with Some lv => unwrap t lv | None => b end) ->
  forall b lv, match eff_ty t (Some (stack_field t b [lv])) with Some l => l | None => [stack_field t b [lv]] end =
    over (match ltys_ty t with Some l => l | None => [t] end)
         (match eff_ty t (Some b) with Some l => l | None => [b] end)
         (match FS.read_ty pt (Some lv) with Some l => l | None => [lv] end).
Proof.
  intros Hl Hr Hs b lv. rewrite Hl, Hr.
  assert (He : forall ov, eff_ty t ov = None).
  { intros ov. destruct t; simpl in *; try discriminate; auto. destruct t; simpl in *; try discriminate; auto. }
  rewrite !He, Hs. simpl. destruct lv; reflexivity.
Qed.

Lemma ol_struct fs (Q : ol_fields fs) :
  Spine.wf_fields fs = true -> nodup_names (field_names (ptrify_fields fs)) = true -> EG.cfg_ok fs = true ->
  forall bvs lvs, spine_fields fs bvs = true -> spine_fields (ptrify_fields fs) lvs = true ->
  eff_fields fs (Some (stack_fields fs bvs (field_names (ptrify_fields fs)) [lvs])) =
  over (ltys fs) (eff_fields fs (Some bvs)) (FS.read_fields (ptrify_fields fs) (Some lvs)).
Proof.
  intros Hwf Hnd Hok bvs lvs Hb Hl.
  apply (Q bvs lvs [] [] Hwf Hok Hb Hl eq_refl); [intros n _; reflexivity|exact Hnd].
Qed.

Lemma one_layer_leaves : (forall t, ol_ty t) /\ (forall fs, ol_fields fs).
Proof.
  ty_cases.
  - (* TBasic *) split; [|exact I]. intros b lv pt _ _ Hpt _ _. inversion Hpt; subst.
    apply ol_leaf; auto.
  - (* TTextU *) split; [|exact I]. intros b lv pt _ _ Hpt _ _. inversion Hpt; subst.
    apply ol_leaf; auto.
  - (* TPtr *) split; [|exact I]. destruct IH as [_ IHs].
    intros b lv pt Hwf Hok Hpt Hb Hlv.
    destruct t as [k0 n0|i0 p0|t0|t0 n0|n0 t0|k0 v0 n0|fs n0| | |].
    7: { (* pointer to struct *)
      cbn in Hpt. inversion Hpt; subst pt. clear Hpt.
      cbn [Spine.wf_ty] in Hwf. apply andb_true_iff in Hwf as [Hnd Hwf]. cbn in Hok.
      cbn in Hb, Hlv.
      destruct lv as [| | | | | |x| | | |]; try discriminate.
      { (* layer unset *)
        destruct b as [| | | | | |bx| | | |]; try discriminate.
        - simpl. rewrite (read_none fs Hok).
          rewrite over_nil_layer; [reflexivity|now apply len_eff].
        - destruct bx as [| | | | | | | | |bvs|]; try discriminate.
          simpl. rewrite (read_none fs Hok).
          rewrite (proj2 stack_nil) by exact Hb.
          rewrite over_nil_layer; [reflexivity|now apply len_eff]. }
      destruct x as [| | | | | | | | |lvs|]; try discriminate.
      destruct b as [| | | | | |bx| | | |]; try discriminate.
      - simpl.
        rewrite (ol_struct fs IHs Hwf Hnd Hok _ _ (proj2 spine_zero fs) Hlv).
        now rewrite (proj2 eff_zero_mut).
      - destruct bx as [| | | | | | | | |bvs|]; try discriminate.
        simpl.
        apply (ol_struct fs IHs Hwf Hnd Hok _ _ Hb Hlv). }
    all: cbn in Hpt; inversion Hpt; subst pt; clear Hpt; cbn in Hok;
      apply ol_leaf; auto; intros v; cbn;
      try reflexivity;
      try (destruct (FS.count_ty _) eqn:Ec; [discriminate|]; now destruct (FP.count_none _ Ec) as (_ & -> & _)).
  - (* TSlice *) split; [|exact I]. intros b lv pt _ _ Hpt _ _. inversion Hpt; subst. apply ol_leaf; auto.
  - (* TArray *) split; [|exact I]. intros b lv pt _ _ Hpt _ _. inversion Hpt; subst. apply ol_leaf; auto.
  - (* TMap *) split; [|exact I]. intros b lv pt _ _ Hpt _ _. inversion Hpt; subst. apply ol_leaf; auto.
  - (* TStruct *) split; [|exact IH].
    intros b lv pt Hwf Hok Hpt Hb Hlv. cbn in Hpt. inversion Hpt; subst pt. clear Hpt.
    cbn [Spine.wf_ty] in Hwf. apply andb_true_iff in Hwf as [Hnd Hwf]. cbn in Hok, Hb, Hlv.
    destruct b as [| | | | | | | | |bvs|]; try discriminate.
    destruct lv as [| | | | | |x| | | |]; try discriminate.
    + simpl. rewrite (read_none fs Hok).
      rewrite (proj2 stack_nil) by exact Hb.
      rewrite over_nil_layer; [reflexivity|now apply len_eff].
    + destruct x as [| | | | | | | | |lvs|]; try discriminate.
      simpl.
      apply (ol_struct fs IH Hwf Hnd Hok _ _ Hb Hlv).
  - (* TIface *) split; [|exact I]. intros b lv pt _ Hok. discriminate.
  - (* TChan *) split; [|exact I]. intros b lv pt _ _ Hpt. discriminate.
  - (* TFunc *) split; [|exact I]. intros b lv pt _ _ Hpt. discriminate.
  - (* FNil *) intros bvs lvs pre lpre _ _ Hb _ _ _ _. destruct bvs; [reflexivity|discriminate].
  - (* FCons *) destruct IHt as [IHt _].
    intros bvs lvs pre lpre Hwf Hok Hb Hl Hlen Hfresh Hnd.
    destruct bvs as [|bv bvs]; [discriminate|]. cbn in Hb. apply andb_true_iff in Hb as [Hbv Hbvs].
    cbn in Hwf, Hok. apply andb_true_iff in Hwf as [Hwft Hwfr]. apply andb_true_iff in Hok as [Hokt Hokr].
    cbn [stack_fields eff_fields ltys ohd otl].
    destruct (omit_field n tags) eqn:Hom.
    + cbn [ptrify_fields] in *. rewrite Hom in *. cbn [orb app].
      apply (IHr bvs lvs pre lpre Hwfr Hokr Hbvs Hl Hlen Hfresh Hnd).
    + cbn [orb] in *. destruct (is_chan_func t) eqn:Hcf.
      * pose proof (proj1 (chan_func_ptrify t) Hcf) as Hnone.
        cbn [ptrify_fields] in *. rewrite Hom, Hnone in *. cbn [app].
        apply (IHr bvs lvs pre lpre Hwfr Hokr Hbvs Hl Hlen Hfresh Hnd).
      * destruct (ptrify_ty t) as [pt|] eqn:Hpt;
          [|apply chan_func_ptrify in Hpt; congruence].
        cbn [ptrify_fields] in *. rewrite Hom, Hpt in *.
        destruct lvs as [|lv lvs]; [discriminate|]. cbn in Hl. apply andb_true_iff in Hl as [Hlv Hlvs].
        cbn [field_names] in *. cbn [nodup_names] in Hnd. apply andb_true_iff in Hnd as [Hnin Hnd].
        apply negb_true_iff in Hnin.
        assert (Hpre : name_in n pre = false).
        { apply Hfresh. cbn. rewrite str_eqb_refl. reflexivity. }
        cbn [map]. rewrite (by_name_skip n pre lpre _ _ Hpre Hlen), by_name_head.
        cbn [FS.read_fields].
        specialize (IHr bvs lvs (pre ++ [n]) (lpre ++ [lv]) Hwfr Hokr Hbvs Hlvs).
        rewrite <- !app_assoc in IHr. cbn [app] in IHr.
        rewrite IHr; [| | |exact Hnd].
        -- pose proof (IHt bv lv pt Hwft Hokt Hpt Hbv Hlv) as Ht.
           rewrite Ht. symmetry. apply over_app.
           ++ pose proof (proj1 lengths_mut t Hokt) as HL.
              destruct (ltys_ty t) as [l|].
              ** destruct HL as [He _]. destruct (He (Some bv)) as (l' & -> & Hlen'). exact Hlen'.
              ** destruct HL as [He _]. now rewrite He.
           ++ pose proof (proj1 lengths_mut t Hokt) as HL.
              destruct (ltys_ty t) as [l|].
              ** destruct HL as [_ Hr]. destruct (Hr _ Hpt (Some lv)) as (l' & -> & Hlen'). exact Hlen'.
              ** destruct HL as [_ Hr]. now rewrite (Hr _ Hpt).
        -- rewrite !app_length. cbn. lia.
        -- intros m Hm. rewrite name_in_app. cbn. rewrite orb_false_r.
           rewrite (Hfresh m) by (cbn; rewrite Hm; apply orb_true_r). cbn.
           destruct (str_eqb m n) eqn:E; [|reflexivity]. apply str_eqb_eq in E. subst m. congruence.
Qed.

(* ---- several layers ---- *)
Definition cfg_both (fs : fields) : Prop := StackProofs.cfg_ok fs = true /\ EG.cfg_ok fs = true.

Lemma cfg_both_parts fs : cfg_both fs ->
  Spine.wf_fields fs = true /\ nodup_names (field_names (ptrify_fields fs)) = true /\ EG.cfg_ok fs = true.
Proof.
  intros [H1 H2]. unfold StackProofs.cfg_ok in H1.
  apply andb_true_iff in H1 as [H1 Hn]. apply andb_true_iff in H1 as [Hw _]. auto.
Qed.

Lemma stack_one fs d l : cfg_both fs ->
  spine_fields fs d = true -> spine_fields (ptrify_fields fs) l = true ->
  eff_fields fs (Some (stack_fields fs d (field_names (ptrify_fields fs)) [l])) =
  over (ltys fs) (eff_fields fs (Some d)) (FS.read_fields (ptrify_fields fs) (Some l)).
Proof.
  intros Hc Hd Hl. destruct (cfg_both_parts fs Hc) as (Hw & Hn & Hok).
  apply (ol_struct fs (proj2 one_layer_leaves fs) Hw Hn Hok _ _ Hd Hl).
Qed.

Lemma stack_one_spine fs d l : cfg_both fs ->
  spine_fields fs d = true -> spine_fields (ptrify_fields fs) l = true ->
  spine_fields fs (stack_fields fs d (field_names (ptrify_fields fs)) [l]) = true.
Proof.
  intros [Hc _] Hd Hl.
  assert (Hlo : forallb (layer_ok fs) [VStruct l] = true) by (simpl; unfold layer_ok; simpl; now rewrite Hl).
  exact (proj2 (compose_eq_stack_l fs Hc [VStruct l] d Hd Hlo)).
Qed.

(* three layers: lower, the source's value, higher *)
Theorem stack_between fs d lo src hi : cfg_both fs ->
  spine_fields fs d = true ->
  spine_fields (ptrify_fields fs) lo = true -> spine_fields (ptrify_fields fs) src = true ->
  spine_fields (ptrify_fields fs) hi = true ->
  compose fs d [VStruct lo; VStruct src; VStruct hi] = Ok (stack fs d [VStruct lo; VStruct src; VStruct hi]) /\
  eff_fields fs (Some (stack fs d [VStruct lo; VStruct src; VStruct hi])) =
  over (ltys fs)
       (over (ltys fs)
             (over (ltys fs) (eff_fields fs (Some d)) (FS.read_fields (ptrify_fields fs) (Some lo)))
             (FS.read_fields (ptrify_fields fs) (Some src)))
       (FS.read_fields (ptrify_fields fs) (Some hi)).
Proof.
  intros Hc Hd Hlo Hsrc Hhi. split.
  - assert (Hl : forallb (layer_ok fs) [VStruct lo; VStruct src; VStruct hi] = true)
      by (simpl; unfold layer_ok; simpl; now rewrite Hlo, Hsrc, Hhi).
    exact (proj1 (compose_eq_stack_l fs (proj1 Hc) _ d Hd Hl)).
  - unfold stack. simpl flat_map.
    change [lo; src; hi] with ([lo] ++ [src] ++ [hi]).
    rewrite !(proj2 stack_app).
    pose proof (stack_one_spine fs d lo Hc Hd Hlo) as S1.
    pose proof (stack_one_spine fs _ src Hc S1 Hsrc) as S2.
    rewrite (stack_one fs _ hi Hc S2 Hhi), (stack_one fs _ src Hc S1 Hsrc), (stack_one fs d lo Hc Hd Hlo).
    reflexivity.
Qed.

(* per leaf: the higher layer if it sets the leaf, else the source's value if
   the source sets it, else the lower layer if it sets it, else the default *)
Lemma over3_nth ts ds los ss his i t dv lo s hi :
  nth_error ts i = Some t -> nth_error ds i = Some dv -> nth_error los i = Some lo ->
  nth_error ss i = Some s -> nth_error his i = Some hi ->
  nth_error (over ts (over ts (over ts ds los) ss) his) i =
  Some (if negb (is_vnil hi) then unwrap t hi
        else if negb (is_vnil s) then unwrap t s
        else if negb (is_vnil lo) then unwrap t lo else dv).
Proof.
  revert ds los ss his i. induction ts as [|t0 ts IH]; intros ds los ss his i Ht Hd Hl Hs Hh.
  - destruct i; discriminate.
  - destruct ds as [|d0 ds], los as [|l0 los], ss as [|s0 ss], his as [|h0 his];
      try (destruct i; discriminate).
    destruct i as [|i]; simpl in *.
    + inversion Ht; inversion Hd; inversion Hl; inversion Hs; inversion Hh; subst.
      destruct (is_vnil hi), (is_vnil s), (is_vnil lo); reflexivity.
    + now apply IH.
Qed.

(* ---- the value a source returns has the layer's shape ---- *)
Lemma app_eq_len {A} (a c b d : list A) : length a = length c -> a ++ b = c ++ d -> a = c /\ b = d.
Proof.
  revert c. induction a as [|x a IH]; intros [|y c] Hl H; simpl in *; try discriminate; auto.
  inversion H; subst. destruct (IH c) as [-> ->]; auto.
Qed.

Definition leaf_spines (pts : list (FS.path * ty)) (vs : list val) : Prop :=
  Forall2 (fun pt v => spine (snd pt) v = true) pts vs.

Definition pop_spine_spec (fs : fields) : Prop :=
  FS.wf_fields fs = true ->
  forall pre vals vs rest any used, Dials.Sources.Flatten.pop_fields fs vals = Ok (vs, rest, any) ->
  vals = used ++ rest -> length used = FS.count_fields fs ->
  leaf_spines (FS.paths_fields fs pre) used -> spine_fields fs vs = true.

Module FL := Dials.Sources.Flatten.

Lemma F2_len {A B} (R : A -> B -> Prop) l r : Forall2 R l r -> length l = length r.
Proof. induction 1; simpl; auto. Qed.

Lemma leaf_spines_app_inv p1 p2 u1 u2 :
  length p1 = length u1 -> leaf_spines (p1 ++ p2) (u1 ++ u2) -> leaf_spines p1 u1 /\ leaf_spines p2 u2.
Proof.
  intros Hl H. unfold leaf_spines in *. apply Forall2_app_inv_l in H as (a & b & Ha & Hb & E).
  destruct (app_eq_len u1 a u2 b) as [-> ->]; auto.
  rewrite <- Hl. exact (F2_len _ _ _ Ha).
Qed.

Lemma pop_spine_mut :
  (forall t, match t with
             | TStruct fs _ | TPtr (TStruct fs _) => pop_spine_spec fs
             | _ => True end) /\
  (forall fs, pop_spine_spec fs).
Proof.
  apply ty_fields_ind; intros; cbv beta in *; auto.
  - destruct t; auto.
  - (* FNil *) intros _ pre vals vs rst any used Hp _ _ _. simpl in Hp. inversion Hp. reflexivity.
  - (* FCons *)
    intros Hwf pre vals vs rst any used Hp Hv Hlen Hsp.
    simpl in Hwf. apply andb_true_iff in Hwf as [Hwt Hwr].
    simpl in Hp.
    apply FP.obind_ok in Hp as ([[v rest1] any1] & Hx & Hp).
    apply FP.obind_ok in Hp as ([[vs' rest2] any2] & Hy & Hp).
    simpl in Hp, Hy. injection Hp as Hvs Hrst Hany. subst vs rst any.
    destruct (FP.pop_read _ _ _ _ _ Hwr Hy) as (used2 & Hv2 & Hl2 & _).
    simpl in Hsp.
    destruct (FP.wf_ty_cases _ Hwt) as [(sub & n & Ht & Hws)|[Hc Hz]].
    + subst t. simpl in Hx, H, Hsp, Hlen.
      apply FP.obind_ok in Hx as ([[fvs r1] a1] & Hsub & Hx). simpl in Hx.
      destruct (FP.pop_read _ _ _ _ _ Hws Hsub) as (used1 & Hv1 & Hl1 & _).
      assert (Hr1 : r1 = rest1) by (destruct a1; simpl in Hx; inversion Hx; reflexivity).
      subst r1.
      assert (Hu : used = used1 ++ used2).
      { rewrite Hv1, Hv2, app_assoc in Hv. now apply app_inv_tail in Hv. }
      subst used.
      assert (Hpl : length (FS.paths_fields sub (pre ++ [FS.mkComp f_name f_tags f_anon])) = length used1).
      { rewrite (proj2 FP.paths_count_mut). now rewrite Hl1. }
      destruct (leaf_spines_app_inv _ _ _ _ Hpl Hsp) as [Hs1 Hs2].
      simpl. rewrite (H0 Hwr pre _ _ _ _ used2 Hy Hv2 Hl2 Hs2), andb_true_r.
      destruct a1; simpl in Hx; inversion Hx; subst; simpl; auto.
      eapply (H Hws); eauto.
    + destruct (FP.count_none _ Hc) as (Hpn & _ & _ & Hpaths). rewrite Hpn in Hx. rewrite Hpaths in Hsp.
      simpl in Hlen. rewrite Hc in Hlen. simpl in Hlen.
      destruct vals as [|v0 vals']; [discriminate|]. injection Hx as Hv0 Hr Ha. subst v rest1 any1.
      destruct used as [|u used']; [discriminate|].
      rewrite Hv2 in Hv. simpl in Hv. injection Hv as Hu Hrest. subst u.
      apply app_inv_tail in Hrest. subst used'.
      simpl in Hsp. inversion Hsp as [|? ? ? ? Hhead Htail]; subst.
      simpl. simpl in Hhead. rewrite Hhead. simpl.
      eapply (H0 Hwr); eauto.
Qed.
