(* Examples (non-vacuity of the hypotheses), and the refutation of the
   watch-set invariant for the pinned tree's updateDirWatches (DESIGN finding
   12).  Everything here is closed by vm_compute on concrete traces. *)
From Coq Require Import List NArith Bool.
From Dials Require Import Base.Outcome Base.Runes Sources.FileWatch Sources.FileWatchProofs.
Import ListNotations.
Open Scope N_scope.

(* a concrete instance: contents below 100 decode to themselves, the checksum
   is the identity (injective) *)
Definition ex_decode (c : content) : option value := if c <? 100 then Some c else None.
Definition ex_hmac (c : content) : csum := c.

Definition p_cfg : path := [[99]; [102]].          (* c/f  : the config path *)
Definition p_other : path := [[111]; [103]].       (* o/g  : a file in another directory *)
Definition p_tmp : path := [[99]; [116]].          (* c/t  : a temporary file next to the config *)

Definition fs_of (r : read_result) (res : path) : fs := mkFs r (Some res) true true.

(* regular file -> symlink into another directory -> two rename-overs, the
   second with malformed content; every change followed by the event inotify
   delivers for it; the kernel drops the watch on the replaced inode *)
Definition ex_trace : list item :=
  [ Fs (fs_of (Content 1) p_other); KernelDrop p_cfg; In (IEvent p_tmp); In (IEvent p_cfg);
    Fs (fs_of (Content 2) p_cfg); In (IEvent p_tmp); In (IEvent p_cfg);
    In ITick;
    Fs (fs_of (Content 2) p_cfg); In (IEvent p_cfg);           (* identical content, new inode *)
    Fs (fs_of (Content 100) p_cfg); In (IEvent p_cfg);         (* malformed *)
    Fs (fs_of NotExist p_cfg); In (IEvent p_cfg);              (* deleted *)
    Fs (fs_of (Content 100) p_cfg); In (IEvent p_cfg); In IReload ].

Definition ex_init := (init_fs 0 p_cfg, init_state ex_hmac p_cfg 0 0 p_cfg).
Definition ex_run udw t := snd (run ex_decode ex_hmac udw p_cfg t ex_init).

(* the hypotheses of watchset_invariant / converges_given_notification are
   satisfiable by a history that exercises every branch *)
Example ex_trace_ok :
  trace_ok ex_decode ex_hmac update_dir_watches p_cfg ex_trace (fst ex_init) (snd ex_init) = true.
Proof. vm_compute. reflexivity. Qed.

Example ex_e_notify :
  e_notify ex_decode ex_hmac update_dir_watches p_cfg ex_trace (fst ex_init) (snd ex_init) = true.
Proof. vm_compute. reflexivity. Qed.

Example ex_final :
  let st := ex_run update_dir_watches ex_trace in
  view st = Some (2, 2) /\ last_is_error (st_reports st) = true /\
  n_values (st_reports st) = 3 /\ n_errors (st_reports st) = 3 /\
  winv p_cfg st = true /\ st_watching st = true.
Proof. vm_compute. repeat split; reflexivity. Qed.

(* E-notify is not trivially true: a change that no input follows violates it *)
Example ex_e_notify_fails :
  e_notify ex_decode ex_hmac update_dir_watches p_cfg [Fs (fs_of (Content 5) p_cfg); In (IEvent p_tmp)]
           (fst ex_init) (snd ex_init) = false.
Proof. vm_compute. reflexivity. Qed.

(* DESIGN finding 12, pinned tree: after the config path (a regular file) is
   replaced by a symlink into another directory, updateDirWatches removes the
   watch on the config's own directory; the history satisfies every
   environment side condition, the invariant does not hold afterwards, and an
   event for a later rename-over of the config path could never be delivered. *)
Definition f12_trace : list item :=
  [ Fs (fs_of (Content 1) p_other); KernelDrop p_cfg; In (IEvent p_cfg) ].

Lemma watchset_invariant_pre_fix_refuted :
  trace_ok ex_decode ex_hmac update_dir_watches_prefix p_cfg f12_trace (fst ex_init) (snd ex_init) = true /\
  winv p_cfg (ex_run update_dir_watches_prefix f12_trace) = false /\
  mem (dir p_cfg) (st_watches (ex_run update_dir_watches_prefix f12_trace)) = false.
Proof. vm_compute. repeat split; reflexivity. Qed.

(* the repaired code keeps it *)
Example f12_fixed :
  winv p_cfg (ex_run update_dir_watches f12_trace) = true /\
  mem (dir p_cfg) (st_watches (ex_run update_dir_watches f12_trace)) = true /\
  mem (dir p_other) (st_watches (ex_run update_dir_watches f12_trace)) = true.
Proof. vm_compute. repeat split; reflexivity. Qed.

(* cancel: the loop returns, all watches are released, later inputs are ignored *)
Example ex_cancel :
  let st := ex_run update_dir_watches (ex_trace ++ [In ICtxDone; Fs (fs_of (Content 7) p_cfg); In (IEvent p_cfg)]) in
  st_running st = false /\ st_watches st = [] /\ view st = Some (2, 2).
Proof. vm_compute. repeat split; reflexivity. Qed.
