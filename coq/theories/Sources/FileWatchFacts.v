(* Examples (non-vacuity of the hypotheses), and the refutation of the
   watch-set invariant for the pinned tree's updateDirWatches (DESIGN finding
   12).  Everything here is closed by vm_compute on concrete traces. *)
From Coq Require Import List NArith Bool.
From Dials Require Import Base.Outcome Base.Runes Sources.FileWatch Sources.FileWatchProofs Sources.FileWatchNoLost.
Import ListNotations.
Open Scope N_scope.

(* a concrete instance: contents below 100 decode to themselves, the checksum
   is the identity (injective) *)
Definition ex_decode (c : content) : option value := if c <? 100 then Some c else None.
Definition ex_hmac (c : content) : csum := c.

Definition p_cfg : path := [[99]; [102]].          (* c/f  : the config path *)
Definition p_other : path := [[111]; [103]].       (* o/g  : a file in another directory *)
Definition p_tmp : path := [[99]; [116]].          (* c/t  : a temporary file next to the config *)

(* a readable state resolved to res; the link resolution is consistent with it *)
Definition fs_of (r : read_result) (res : path) : fs :=
  mkFs r (Some res) (if path_eqb p_cfg res then None else Some res) true true [dir p_cfg].
(* the same state reached by a change that shows only in the directories ds *)
Definition fs_at (ds : list path) (r : read_result) (res : path) : fs :=
  mkFs r (Some res) (if path_eqb p_cfg res then None else Some res) true true ds.
(* the file is absent; link = where a dangling symlink points, if any *)
Definition fs_gone (ds : list path) (link : option path) : fs := mkFs NotExist None link false true ds.

(* regular file -> symlink into another directory -> two rename-overs, the
   second with malformed content; every change followed by the event inotify
   delivers for it; the kernel drops the watch on the replaced inode *)
Definition ex_trace : list item :=
  [ In IRecheck;                                                 (* the initial token: nothing changed *)
    Fs (fs_of (Content 1) p_other); KernelDrop p_cfg; In (IEvent p_tmp); In (IEvent p_cfg);
    In IRecheck;                                                 (* token left by the new directory watch *)
    Fs (fs_of (Content 2) p_cfg); In (IEvent p_tmp); InRead (IEvent p_cfg); Cont;
    In IRecheck; In ITick;
    Fs (fs_of (Content 2) p_cfg); In (IEvent p_cfg);           (* identical content, new inode *)
    Fs (fs_of (Content 100) p_cfg); In (IEvent p_cfg);         (* malformed *)
    Fs (fs_gone [dir p_cfg] None); In (IEvent p_cfg);          (* deleted *)
    Fs (fs_of (Content 100) p_cfg); In (IEvent p_cfg); In IReload ].

Definition ex_init := (init_fs p_cfg 0 p_cfg, init_state ex_hmac p_cfg 0 0 p_cfg).
Definition ex_run udw t := snd (run ex_decode ex_hmac udw p_cfg t ex_init).

(* the hypotheses of watchset_invariant / converges_given_notification are
   satisfiable by a history that exercises every branch *)
Example ex_trace_ok :
  trace_ok ex_decode ex_hmac update_dir_watches p_cfg ex_trace (fst ex_init) (snd ex_init) = true.
Proof. vm_compute. reflexivity. Qed.

Example ex_e_notify :
  e_notify ex_decode ex_hmac update_dir_watches p_cfg ex_trace (fst ex_init) (snd ex_init) = true.
Proof. vm_compute. reflexivity. Qed.

Example ex_final :
  let st := ex_run update_dir_watches ex_trace in
  view st = Some (2, 2) /\ last_is_error (st_reports st) = true /\
  n_values (st_reports st) = 3 /\ n_errors (st_reports st) = 3 /\
  winv p_cfg st = true /\ st_watching st = true.
Proof. vm_compute. repeat split; reflexivity. Qed.

(* E-notify is not trivially true: a change that no input follows violates it *)
Example ex_e_notify_fails :
  e_notify ex_decode ex_hmac update_dir_watches p_cfg [Fs (fs_of (Content 5) p_cfg); In (IEvent p_tmp)]
           (fst ex_init) (snd ex_init) = false.
Proof. vm_compute. reflexivity. Qed.

(* DESIGN finding 12, pinned tree: after the config path (a regular file) is
   replaced by a symlink into another directory, updateDirWatches removes the
   watch on the config's own directory; the history satisfies every
   environment side condition, the invariant does not hold afterwards, and an
   event for a later rename-over of the config path could never be delivered. *)
Definition f12_trace : list item :=
  [ Fs (fs_of (Content 1) p_other); KernelDrop p_cfg; In (IEvent p_cfg) ].

Lemma watchset_invariant_pre_fix_refuted :
  trace_ok ex_decode ex_hmac update_dir_watches_prefix p_cfg f12_trace (fst ex_init) (snd ex_init) = true /\
  winv p_cfg (ex_run update_dir_watches_prefix f12_trace) = false /\
  mem (dir p_cfg) (st_watches (ex_run update_dir_watches_prefix f12_trace)) = false.
Proof. vm_compute. repeat split; reflexivity. Qed.

(* the repaired code keeps it *)
Example f12_fixed :
  winv p_cfg (ex_run update_dir_watches f12_trace) = true /\
  mem (dir p_cfg) (st_watches (ex_run update_dir_watches f12_trace)) = true /\
  mem (dir p_other) (st_watches (ex_run update_dir_watches f12_trace)) = true.
Proof. vm_compute. repeat split; reflexivity. Qed.

(* The read-before-watch window (second repair).  The config path is switched
   to a file in another directory; the loop reads it (InRead) and, before the
   rest of the pass has added the watch on the new directory (Cont), the new
   target is rewritten in place: no watch covers it at that moment, so no event
   will ever be delivered for that write.  Without the recheck token (= the
   pinned code, or this trace as it stands) the view stays stale; the repaired
   loop has left itself a token, receives it, and converges. *)
Definition window_trace : list item :=
  [ In IRecheck;
    Fs (fs_of (Content 1) p_other); KernelDrop p_cfg;
    InRead (IEvent p_cfg);                      (* reads content 1 *)
    Fs (fs_at [dir p_other] (Content 6) p_other);  (* in-place rewrite, directory not yet watched *)
    Cont ].                                     (* now the directory watch is added *)

Example window_unwatched_at_write :
  mem (dir p_other) (st_watches (ex_run update_dir_watches (firstn 4 window_trace))) = false.
Proof. vm_compute. reflexivity. Qed.

Example window_stale_without_token :
  let st := ex_run update_dir_watches window_trace in
  view st = Some (1, 1) /\ st_recheck st = true /\ mem (dir p_other) (st_watches st) = true /\
  e_notify ex_decode ex_hmac update_dir_watches p_cfg window_trace (fst ex_init) (snd ex_init) = false.
Proof. vm_compute. repeat split; reflexivity. Qed.

Example window_converges_with_token :
  let t := window_trace ++ [In IRecheck] in
  view (ex_run update_dir_watches t) = Some (6, 6) /\
  trace_ok ex_decode ex_hmac update_dir_watches p_cfg t (fst ex_init) (snd ex_init) = true /\
  e_notify ex_decode ex_hmac update_dir_watches p_cfg t (fst ex_init) (snd ex_init) = true.
Proof. vm_compute. repeat split; reflexivity. Qed.

(* the same at start-up: a change between dials.Config's initial Value() and
   Watch() adding the watches is picked up by the initial token *)
Example startup_window :
  view (ex_run update_dir_watches [Fs (fs_of (Content 3) p_cfg)]) = Some (0, 0) /\
  view (ex_run update_dir_watches [Fs (fs_of (Content 3) p_cfg); In IRecheck]) = Some (3, 3).
Proof. vm_compute. repeat split; reflexivity. Qed.

(* The former known-finding class C17/2, now repaired: the config path is
   switched to a target in another directory and the target is deleted before
   the loop has looked (dangling symlink).  The not-exist branch follows the
   dangling link (fs_linkres) and watches the directory the target will
   re-appear in, leaving a token; the re-creation is then covered by that watch
   and the view converges.  Without following the link (the state has no link
   resolution: fs_gone .. None = what the code before the repair could see) the
   directory stays unwatched although the belief-based invariant holds. *)
Definition dangling_trace (link : option path) : list item :=
  [ In IRecheck;
    Fs (fs_of (Content 1) p_other); KernelDrop p_cfg;   (* switched, event for c/f queued *)
    Fs (fs_gone [dir p_other] link);                     (* target deleted: dangling link *)
    In (IEvent p_cfg);                                   (* the loop looks: not exist *)
    In IRecheck ].

Example dangling_now_watched :
  let st := ex_run update_dir_watches (dangling_trace (Some p_other)) in
  mem (dir p_other) (st_watches st) = true /\ st_resolved st = p_other /\ idle st = true /\
  view (ex_run update_dir_watches (dangling_trace (Some p_other) ++
          [Fs (fs_at [dir p_other] (Content 2) p_other); In (IEvent p_other)])) = Some (2, 2).
Proof. vm_compute. repeat split; reflexivity. Qed.

Example dangling_target_pre_fix_refuted :
  let st := ex_run update_dir_watches (dangling_trace None) in
  view st = Some (0, 0) /\ winv p_cfg st = true /\ idle st = true /\
  mem (dir p_other) (st_watches st) = false.
Proof. vm_compute. repeat split; reflexivity. Qed.

(* ---- no_lost_update: its hypotheses are satisfiable, and without the token
   the conclusion fails under the very same hypotheses ---- *)

Definition nlu_t1 : list item :=
  [ Fs (fs_of (Content 1) p_other); KernelDrop p_cfg;
    InRead (IEvent p_cfg) ].                    (* reads content 1; second half pending *)
Definition nlu_f : fs := fs_at [dir p_other] (Content 6) p_other.   (* written while o/ is unwatched *)

Example nlu_hypotheses_hold :
  let t := In IRecheck :: nlu_t1 ++ Fs nlu_f :: [Cont; In IRecheck] in
  trace_ok ex_decode ex_hmac update_dir_watches p_cfg t (fst ex_init) (snd ex_init) = true /\
  env_ok ex_decode ex_hmac update_dir_watches p_cfg t (fst ex_init) (snd ex_init) = true /\
  e_covered ex_decode ex_hmac update_dir_watches p_cfg t (fst ex_init) (snd ex_init) = true /\
  idle (ex_run update_dir_watches t) = true /\
  view (ex_run update_dir_watches t) = Some (6, 6).
Proof. vm_compute. repeat split; reflexivity. Qed.

(* General shape of the refutation for the loop without the recheck token (no
   token is ever received = the code before the second repair): a trace that
   satisfies every environment hypothesis of no_lost_update, in which the last
   change falls between a pass's read and its second half, ends with the loop
   blocked in its select and the view stale. *)
Lemma no_lost_update_pre_fix_refuted :
  exists t1 f t2,
    forallb (fun it => negb (is_fs it)) t2 = true /\
    forallb no_token (t1 ++ Fs f :: t2) = true /\
    trace_ok ex_decode ex_hmac update_dir_watches p_cfg (t1 ++ Fs f :: t2) (fst ex_init) (snd ex_init) = true /\
    env_ok ex_decode ex_hmac update_dir_watches p_cfg (t1 ++ Fs f :: t2) (fst ex_init) (snd ex_init) = true /\
    e_covered ex_decode ex_hmac update_dir_watches p_cfg (t1 ++ Fs f :: t2) (fst ex_init) (snd ex_init) = true /\
    at_select (ex_run update_dir_watches (t1 ++ Fs f :: t2)) = true /\
    fs_read f = Content 6 /\ ex_decode 6 = Some 6 /\
    view (ex_run update_dir_watches (t1 ++ Fs f :: t2)) = Some (1, 1).
Proof. exists nlu_t1, nlu_f, [Cont]. vm_compute. repeat split; reflexivity. Qed.

(* cancel: the loop returns, all watches are released, later inputs are ignored *)
Example ex_cancel :
  let st := ex_run update_dir_watches (ex_trace ++ [In ICtxDone; Fs (fs_of (Content 7) p_cfg); In (IEvent p_cfg)]) in
  st_running st = false /\ st_watches st = [] /\ view st = Some (2, 2).
Proof. vm_compute. repeat split; reflexivity. Qed.
