(* Proofs for property C11 (environment source). *)
From Coq Require Import String.
From Coq Require Import List NArith ZArith Bool Lia.
From Dials Require Import Base.Outcome Base.Runes Reflect.Ty Stack.Overlay Text.CaseConv
  Text.GoCamelSpec Text.GoCamelProofs Text.GoCamelFacts Text.ParseInt Text.ParseIntProofs Text.Split Text.ParseText
  Sources.Flatten Sources.FlattenSpec Sources.FlattenProofs Sources.Env Sources.EnvSpec.
Import ListNotations.
Open Scope list_scope.

(* ---- omapM ---- *)
Lemma omapM_ok {A B} (f : A -> outcome B) l r :
  omapM f l = Ok r -> Forall2 (fun a b => f a = Ok b) l r.
Proof.
  revert r. induction l as [|a l IH]; simpl; intros r H.
  - inversion H. constructor.
  - apply obind_ok in H as (b & Hb & H). apply obind_ok in H as (bs & Hbs & H).
    inversion H; subst. constructor; auto.
Qed.

Lemma omapM_ext {A B} (f g : A -> outcome B) l :
  Forall (fun a => f a = g a) l -> omapM f l = omapM g l.
Proof.
  induction 1; simpl; auto. rewrite H, IHForall. reflexivity.
Qed.

Lemma Forall2_length' {A B} (R : A -> B -> Prop) l r : Forall2 R l r -> length l = length r.
Proof. induction 1; simpl; auto. Qed.

(* ---- DecodeGoTags never fails (extractInitialisms terminates) ---- *)
Lemma go_flush_some acc ws : exists r, go_flush acc ws = Some r.
Proof.
  unfold go_flush. destruct (nonempty acc); eauto. destruct (all_upper acc); eauto.
  destruct (extract_initialisms acc) eqn:E; eauto. now apply extract_total in E.
Qed.

Lemma go_loop_total wb s : forall prev acc ws, exists r, go_loop wb prev acc ws s = Ok r.
Proof.
  induction s as [|c s IH]; intros prev acc ws.
  - simpl. eauto.
  - rewrite go_loop_cons. cbv zeta.
    destruct (_ || _ || wb c).
    + destruct (go_flush_some acc ws) as (r & ->). apply IH.
    + destruct (_ && is_upper c).
      * destruct (nonempty acc && all_upper (acc ++ [c])).
        -- destruct (extract_initialisms (acc ++ [c])) eqn:E; eauto. now apply extract_total in E.
        -- apply IH.
      * apply IH.
Qed.

Lemma decode_go_tags_total s : exists ws, decode_go_tags s = Ok ws.
Proof. apply go_loop_total. Qed.

(* ---- names ---- *)
Lemma owords_eqb_ok a ws : owords_eqb a (Ok ws) = true -> a = Ok ws.
Proof.
  destruct a; simpl; try discriminate. intros H. apply strs_eqb_eq in H. congruence.
Qed.

Lemma dialsenv_neq_dials : str_eqb dialsenv_tag dials_tag = false.
Proof. reflexivity. Qed.
Lemma dialsenv_neq_fieldpath : str_eqb dialsenv_tag fieldpath_tag = false.
Proof. reflexivity. Qed.

Lemma tag_lookup_app k a b :
  tag_lookup k (a ++ b) = match tag_lookup k a with Some v => Some v | None => tag_lookup k b end.
Proof.
  induction a as [|[k0 v0] a IH]; simpl; auto. destruct (str_eqb k k0); auto.
Qed.

Lemma nonempty_true (s : str) : nonempty s = true -> s <> [].
Proof. destruct s; simpl; congruence. Qed.

(* one flattened leaf whose derivation follows path p *)
Lemma env_leaf_var_spec prefix l p t :
  leaf_rel env_cfg [] [] l (p, t) -> name_guard p = true ->
  exists v, spec_var prefix p = Ok v /\ env_leaf_var prefix l = Ok v.
Proof.
  intros (sfx & parts & Hp & Hne & Hr & Ht & Ho & Hty) Hg. simpl in Hp. subst sfx.
  simpl in Ht.
  assert (Henv : tag_lookup dialsenv_tag (lf_tags l) = tag_lookup dialsenv_tag (leaf_tags p))
    by (apply Ho; reflexivity).
  unfold name_guard, has_env_tag in Hg. unfold spec_var, env_leaf_var, env_final_tags.
  rewrite Ht. rewrite Hr in Hg.
  destruct (tag_get dialsenv_tag (leaf_tags p)) as [|e0 e] eqn:Eenv; simpl in Hg.
  - (* derived name *)
    unfold tag_get in Eenv.
    destruct (tag_lookup dialsenv_tag (leaf_tags p)) eqn:El; [discriminate|].
    unfold camel_join_safe in Hg. rewrite Hr in Hg.
    destruct (spec_words p) as [ws| |] eqn:Ews; try discriminate.
    apply andb_true_iff in Hg as [Hg Hdec]. apply andb_true_iff in Hg as [Hn1 Hn2].
    apply owords_eqb_ok in Hdec.
    destruct (encode_upper_camel_t parts) as [|c0 cs] eqn:Ec; [discriminate|].
    rewrite Hdec. simpl obind.
    destruct (encode_upper_snake ws) as [|u0 us] eqn:Eu; [discriminate|].
    eexists. split; [reflexivity|].
    assert (Hget : tag_get dialsenv_tag (tag_set dials_tag (u0 :: us) (lf_tags l)) = []).
    { unfold tag_get. rewrite tag_lookup_set_other by reflexivity. now rewrite Henv. }
    rewrite Hget. unfold env_var, tag_get.
    rewrite tag_lookup_app, tag_lookup_set_other by reflexivity. rewrite Henv. simpl.
    try rewrite str_eqb_refl. reflexivity.
  - (* dialsenv tag *)
    destruct (encode_upper_camel_t parts) as [|c0 cs] eqn:Ec; [discriminate|].
    destruct (decode_go_tags_total (c0 :: cs)) as (ws & ->). simpl obind.
    eexists. split; [reflexivity|].
    assert (Hget : tag_get dialsenv_tag (tag_set dials_tag (encode_upper_snake ws) (lf_tags l)) = e0 :: e).
    { unfold tag_get. rewrite tag_lookup_set_other by reflexivity. rewrite Henv. exact Eenv. }
    destruct (encode_upper_snake ws); unfold env_var; rewrite ?Hget; try reflexivity.
Qed.

Lemma Forall2_compose {A B C} (R1 : A -> B -> Prop) (R2 : B -> C -> Prop) (R : A -> C -> Prop) la lb lc :
  (forall a b c, R1 a b -> R2 b c -> R a c) -> Forall2 R1 la lb -> Forall2 R2 lb lc -> Forall2 R la lc.
Proof.
  intros H F1. revert lc. induction F1; intros lc F2; inversion F2; subst; constructor; eauto.
Qed.

Lemma env_plan_ok prefix pfs plan :
  env_plan prefix pfs = Ok plan ->
  exists ls vars,
    flatten env_cfg (alias_fields env_alias_keys pfs) = Ok ls /\
    has_dup (map lf_name ls) = false /\
    Forall2 (fun l v => env_leaf_var prefix l = Ok v) ls vars /\
    plan = combine ls vars.
Proof.
  unfold env_plan. intros H.
  apply obind_ok in H as (ls & Hls & H). apply obind_ok in H as (tags & Htags & H).
  destruct (has_dup (map lf_name ls)) eqn:Hd; [discriminate|].
  apply obind_ok in H as (vars & Hvars & H). inversion H; subst.
  exists ls, vars. repeat split; auto.
  eapply Forall2_compose; [|apply omapM_ok; exact Htags|apply omapM_ok; exact Hvars].
  intros l tg v H1 H2. unfold env_leaf_var. now rewrite H1.
Qed.

Lemma Forall2_combine_l {A B C} (R : A -> B -> Prop) (P : A * B -> C -> Prop) la lb lc :
  Forall2 R la lb -> Forall2 P (combine la lb) lc ->
  Forall2 (fun a c => exists b, R a b /\ P (a, b) c) la lc.
Proof.
  intros F. revert lc. induction F; simpl; intros lc F2; inversion F2; subst; constructor; eauto.
Qed.

(* ---- env_name_spec ---- *)
Theorem env_name_spec_l prefix pfs plan :
  alias_free env_alias_keys pfs = true ->
  env_plan prefix pfs = Ok plan ->
  Forall2 (fun lv pt => name_guard (fst pt) = true -> spec_var prefix (fst pt) = Ok (snd lv))
          plan (paths pfs).
Proof.
  intros Haf H. apply env_plan_ok in H as (ls & vars & Hfl & _ & Hv & ->).
  rewrite alias_fields_id in Hfl by assumption.
  apply flat_paths in Hfl.
  revert vars Hv. induction Hfl as [|l pt ls pts Hrel _ IH]; intros vars Hv; inversion Hv; subst; simpl.
  - constructor.
  - constructor; auto. simpl. intros Hg. destruct pt as [p t].
    destruct (env_leaf_var_spec prefix l p t Hrel Hg) as (v & Hs & Hl). simpl. congruence.
Qed.

(* ---- the value: every leaf holds the cast of its own variable ---- *)
Theorem env_leaves_l prefix pfs env vs :
  env_supported pfs = true -> env_value prefix pfs env = Ok vs ->
  exists plan, env_plan prefix pfs = Ok plan /\
    Forall2 (fun lv x => cast (lf_ty (fst lv)) (lookup_env env (snd lv)) = Ok x) plan (leaves_of pfs vs).
Proof.
  unfold env_supported, env_value. intros Hs H. apply andb_true_iff in Hs as [Haf Hwf].
  apply obind_ok in H as (plan & Hplan & H). apply obind_ok in H as (vals & Hvals & H).
  apply obind_ok in H as (vs0 & Hpop & H).
  rewrite alias_fields_id in Hpop by assumption.
  rewrite (populate_unalias_id _ _ _ _ Hwf Haf Hpop) in H. inversion H; subst.
  exists plan. split; auto.
  rewrite (populate_leaves _ _ _ Hwf Hpop). apply omapM_ok. exact Hvals.
Qed.

(* leaf types of a well-shaped pointerified type are nil-able *)
Lemma paths_nilable_mut :
  (forall t, match t with
             | TStruct fs _ | TPtr (TStruct fs _) =>
                 wf_fields fs = true -> forall pre, Forall (fun pt => zero (snd pt) = VNil) (paths_fields fs pre)
             | _ => True end) /\
  (forall fs, wf_fields fs = true -> forall pre, Forall (fun pt => zero (snd pt) = VNil) (paths_fields fs pre)).
Proof.
  apply ty_fields_ind; intros; cbv beta in *; auto.
  - destruct t; auto.
  - constructor.
  - simpl in H1. apply andb_true_iff in H1 as [Hwt Hwr]. simpl. apply Forall_app. split; [|auto].
    destruct (wf_ty_cases _ Hwt) as [(sub & n & -> & Hws)|[Hc Hz]].
    + simpl. apply H. exact Hws.
    + destruct (count_none _ Hc) as (_ & _ & _ & Hp). rewrite Hp. constructor; auto.
Qed.

Lemma of_pval_set v : is_vnil (of_pval v) = false.
Proof. destruct v; reflexivity. Qed.

Lemma parse_text_set t s x : parse_text t s = Ok x -> is_set x = true.
Proof.
  unfold parse_text, is_set. destruct (to_ps t) as [pt|].
  - destruct (PS.parse_string isp0 true true pt s); simpl; intros H; inversion H. now rewrite of_pval_set.
  - destruct t; simpl; try discriminate.
    + destruct (str_eqb name duration_name); [discriminate|].
      destruct k; try discriminate.
      * destruct (parse_float bits s); simpl; intros H; inversion H; reflexivity.
      * unfold parse_complex.
        destruct (fst (complex_parts bits s)); simpl; try discriminate.
        destruct (snd (complex_parts bits s)); simpl; try discriminate.
        intros H; inversion H; reflexivity.
    + destruct (string_slice isp0 s); simpl; try discriminate.
      destruct (map_out _ a); simpl; intros H; inversion H; reflexivity.
Qed.

Lemma cast_some_set t s x : cast t (Some s) = Ok x -> is_set x = true.
Proof.
  destruct t; simpl; try discriminate; try apply parse_text_set.
  destruct (parse_text t s); simpl; try discriminate. intros H. inversion H. reflexivity.
Qed.

(* what a present variable gives at each kind of leaf *)
Lemma cast_char t s :
  cast (TPtr t) (Some s) = omap VPtr (parse_text t s) /\
  (forall e n, cast (TSlice e n) (Some s) = parse_text (TSlice e n) s) /\
  (forall k e n, cast (TMap k e n) (Some s) = parse_text (TMap k e n) s).
Proof. repeat split. Qed.

Lemma Forall2_Forall_r {A B} (R : A -> B -> Prop) (P : B -> Prop) (Q : A -> B -> Prop) la lb :
  Forall2 R la lb -> Forall P lb -> (forall a b, R a b -> P b -> Q a b) -> Forall2 Q la lb.
Proof.
  intros F. induction F; intros HP HQ; constructor; inversion HP; subst; auto.
Qed.

(* plan leaves carry the types of the depth-first paths *)
Lemma plan_types prefix pfs plan :
  alias_free env_alias_keys pfs = true -> env_plan prefix pfs = Ok plan ->
  Forall2 (fun lv pt => lf_ty (fst lv) = snd pt) plan (paths pfs).
Proof.
  intros Haf H. apply env_plan_ok in H as (ls & vars & Hfl & _ & Hv & ->).
  rewrite alias_fields_id in Hfl by assumption. apply flat_paths in Hfl.
  revert vars Hv. induction Hfl as [|l pt ls pts Hrel _ IH]; intros vars Hv; inversion Hv; subst; simpl;
    constructor; auto.
  destruct Hrel as (? & ? & ? & ? & ? & ? & ? & Hty). exact Hty.
Qed.

Lemma Forall2_flip_types {A B C} (R : A -> B -> Prop) (S : A -> C -> Prop) (Q : A -> C -> Prop) (P : B -> Prop)
      la lb lc :
  Forall2 R la lb -> Forall P lb -> Forall2 S la lc ->
  (forall a b c, R a b -> P b -> S a c -> Q a c) -> Forall2 Q la lc.
Proof.
  intros F. revert lc. induction F; intros lc HP HS HQ; inversion HS; subst; constructor;
    inversion HP; subst; eauto.
Qed.

Theorem env_sets_exactly_present_l prefix pfs env vs :
  env_supported pfs = true -> env_value prefix pfs env = Ok vs ->
  exists plan, env_plan prefix pfs = Ok plan /\
    Forall2 (fun lv x => is_set x = true <-> lookup_env env (snd lv) <> None) plan (leaves_of pfs vs).
Proof.
  intros Hs H. destruct (env_leaves_l _ _ _ _ Hs H) as (plan & Hplan & HF).
  exists plan. split; auto.
  unfold env_supported in Hs. apply andb_true_iff in Hs as [Haf Hwf].
  pose proof (plan_types _ _ _ Haf Hplan) as Hty.
  pose proof (proj2 paths_nilable_mut pfs Hwf []) as Hnil.
  eapply Forall2_flip_types; [exact Hty|exact Hnil|exact HF|].
  intros [l v] pt x Ht Hz Hc. simpl in *.
  destruct (lookup_env env v) as [s|].
  - apply cast_some_set in Hc. split; [discriminate|auto].
  - simpl in Hc. inversion Hc. rewrite Ht, Hz. simpl. split; [discriminate|congruence].
Qed.

Theorem env_value_parsed_l prefix pfs env vs :
  env_supported pfs = true -> env_value prefix pfs env = Ok vs ->
  exists plan, env_plan prefix pfs = Ok plan /\
    Forall2 (fun lv x => forall s, lookup_env env (snd lv) = Some s ->
               cast (lf_ty (fst lv)) (Some s) = Ok x)
            plan (leaves_of pfs vs).
Proof.
  intros Hs H. destruct (env_leaves_l _ _ _ _ Hs H) as (plan & Hplan & HF).
  exists plan. split; auto.
  eapply Forall2_imp; [|exact HF]. intros [l v] x Hc s Hl. simpl in *. now rewrite Hl in Hc.
Qed.

(* ---- frame: only the variables named by the leaves matter ---- *)
Theorem env_frame_l prefix pfs env env' :
  (forall plan, env_plan prefix pfs = Ok plan ->
                Forall (fun lv => lookup_env env (snd lv) = lookup_env env' (snd lv)) plan) ->
  env_value prefix pfs env = env_value prefix pfs env'.
Proof.
  intros H. unfold env_value. destruct (env_plan prefix pfs) as [plan| |] eqn:E; simpl; auto.
  rewrite (omapM_ext _ (fun lv => cast (lf_ty (fst lv)) (lookup_env env' (snd lv))) plan); auto.
  eapply Forall_impl; [|exact (H plan eq_refl)]. intros lv Hl. simpl. now rewrite Hl.
Qed.

Lemma lookup_env_app env extra k :
  lookup_env (extra ++ env) k =
  match lookup_env extra k with Some v => Some v | None => lookup_env env k end.
Proof. apply tag_lookup_app. Qed.

Lemma lookup_env_app_r env extra k :
  lookup_env (env ++ extra) k =
  match lookup_env env k with Some v => Some v | None => lookup_env extra k end.
Proof. apply tag_lookup_app. Qed.

(* decoy variables - anything not named by a leaf, e.g. prefixes or suffixes
   of real names - change nothing, wherever they sit in the environment *)
Corollary env_frame_decoys_l prefix pfs env extra :
  (forall plan, env_plan prefix pfs = Ok plan ->
                Forall (fun lv => lookup_env extra (snd lv) = None) plan) ->
  env_value prefix pfs (extra ++ env) = env_value prefix pfs env /\
  env_value prefix pfs (env ++ extra) = env_value prefix pfs env.
Proof.
  intros H. split; apply env_frame_l; intros plan Hp; (eapply Forall_impl; [|exact (H plan Hp)]);
    intros lv Hl; simpl in *.
  - now rewrite lookup_env_app, Hl.
  - rewrite lookup_env_app_r, Hl. now destruct (lookup_env env (snd lv)).
Qed.

(* ---- a bad value is never a value ---- *)
Theorem env_bad_value_is_error_l prefix pfs env plan l var s :
  env_plan prefix pfs = Ok plan -> In (l, var) plan ->
  lookup_env env var = Some s -> (forall x, cast (lf_ty l) (Some s) <> Ok x) ->
  forall vs, env_value prefix pfs env <> Ok vs.
Proof.
  intros Hp Hin Hl Hbad vs H. unfold env_value in H. rewrite Hp in H. simpl in H.
  apply obind_ok in H as (vals & Hvals & _). apply omapM_ok in Hvals.
  clear Hp. induction Hvals as [|lv x plan' vals' Hc _ IH]; [inversion Hin|].
  destruct Hin as [->|Hin]; auto. simpl in Hc. rewrite Hl in Hc. exact (Hbad _ Hc).
Qed.

(* ---- integers: corollaries of C15 (int_never_wraps / uint_never_wraps):
   the parsed value is the literal's value and fits the leaf's width; a
   literal outside the range is an error ---- *)
Lemma parse_text_int_spec w name s v :
  str_eqb name duration_name = false ->
  (parse_text (TBasic (KInt w) name) s = Ok v <->
   exists z, v = VInt z /\ lit_value s = Some z /\ in_srange (sw_of w) z = true).
Proof.
  intros Hn. unfold parse_text. simpl. rewrite Hn. simpl.
  pose proof (parse_number_int_spec (sw_of w) s) as Hspec.
  destruct (parse_number_int (sw_of w) s) as [z| |] eqn:E; simpl; split.
  - intros H. inversion H. exists z. split; auto. now apply Hspec.
  - intros (z' & -> & Hl & Hr). f_equal. f_equal.
    assert (Ok z = Ok z') by (apply Hspec; auto). congruence.
  - discriminate.
  - intros (z' & _ & Hl & Hr). assert (Err code = Ok z') by (apply Hspec; auto). discriminate.
  - discriminate.
  - intros (z' & _ & Hl & Hr). assert (Panic code = Ok z') by (apply Hspec; auto). discriminate.
Qed.

Lemma parse_text_uint_spec w name s v :
  str_eqb name duration_name = false -> (w =? 1)%N = false ->
  (parse_text (TBasic (KUint w) name) s = Ok v <->
   exists n, v = VInt (Z.of_N n) /\ lit_uvalue s = Some n /\ in_urange (uw_of w) n = true).
Proof.
  intros Hn Hw. unfold parse_text. simpl. rewrite Hn. simpl.
  assert (Hu : forall (A : Type) (a b : A), match uw_of w with UPtr => a | _ => b end = b).
  { intros. unfold uw_of. destruct w as [|p]; auto. repeat (destruct p; auto); discriminate. }
  rewrite Hu.
  pose proof (parse_number_uint_spec (uw_of w) s) as Hspec.
  destruct (parse_number_uint (uw_of w) s) as [z| |] eqn:E; simpl; split.
  - intros H. inversion H. exists z. split; auto. now apply Hspec.
  - intros (z' & -> & Hl & Hr). f_equal. f_equal.
    assert (Ok z = Ok z') by (apply Hspec; auto). congruence.
  - discriminate.
  - intros (z' & _ & Hl & Hr). assert (Err code = Ok z') by (apply Hspec; auto). discriminate.
  - discriminate.
  - intros (z' & _ & Hl & Hr). assert (Panic code = Ok z') by (apply Hspec; auto). discriminate.
Qed.
