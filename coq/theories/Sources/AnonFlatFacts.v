(* Examples (non-vacuity) and refutation witnesses for decoders/yaml with
   FlattenAnonymous (property C13). *)
From Coq Require Import String.
From Coq Require Import List NArith ZArith Bool.
From Dials Require Import Base.Outcome Base.Runes Reflect.Ty Reflect.Ptrify Stack.Overlay
  Text.ParseText Sources.Flatten Sources.TimeText Sources.Decoders Sources.DecodersSpec
  Sources.DecodersFacts Sources.AnonFlat.
Import ListNotations.
Open Scope string_scope.
Open Scope list_scope.

Definition tint := TBasic (KInt 0) (S "int").
Definition tstr := TBasic KString (S "string").

(* struct {
     Name string `dials:"name"`
     Base   `dials:"base"`     // struct { Port int `dials:"port"`; Host string `dials:"host"` }
     *Extra `dials:"extra"`    // struct { Tags []string `dials:"tags"`; Deep `dials:"deep"` }, Deep = struct{ X int `dials:"x"` }
   } *)
Definition flat_fs : fields :=
  FCons (S "Name") [tg "dials" "name"] false tstr
 (FCons (S "Base") [tg "dials" "base"] true
    (TStruct (FCons (S "Port") [tg "dials" "port"] false tint
             (FCons (S "Host") [tg "dials" "host"] false tstr FNil)) (S "Base"))
 (FCons (S "Extra") [tg "dials" "extra"] true
    (TPtr (TStruct (FCons (S "Tags") [tg "dials" "tags"] false (TSlice tstr [])
                   (FCons (S "Deep") [tg "dials" "deep"] true
                      (TStruct (FCons (S "X") [tg "dials" "x"] false tint FNil) (S "Deep")) FNil)) (S "Extra")))
  FNil)).
Definition flat_pfs := ptrify_fields flat_fs.

Example flat_supported :
  dec_ok flat_pfs = true /\ tags_wf FYaml flat_pfs = true /\ anon_ok flat_pfs = true /\
  uniq_fields (anonflat_fields (tagcopy_fields dials_tag yaml_tag flat_pfs)) = true.
Proof. vm_compute. repeat split; reflexivity. Qed.

(* the flattened type yaml.v2 is handed: Name, Port, Host, Tags and - hoisted
   one level only - the embedded Deep as a field keyed "deep" *)
Example flat_type_names :
  fnames (anonflat_fields (tagcopy_fields dials_tag yaml_tag flat_pfs)) =
  [S "Name"; S "Port"; S "Host"; S "Tags"; S "Deep"].
Proof. vm_compute. reflexivity. Qed.

Example flat_reads_embedded_from_parent :
  decode_yaml_flat (DMap [(S "name", DStr (S "x")); (S "port", DInt 80); (S "tags", DList [DStr (S "a")]);
                          (S "deep", DMap [(S "x", DInt 7)])]) flat_pfs =
  Ok [VPtr (VStr (S "x"));
      VPtr (VStruct [VPtr (VInt 80); VNil]);
      VPtr (VStruct [VList [VStr (S "a")]; VPtr (VStruct [VPtr (VInt 7)])])].
Proof. vm_compute. reflexivity. Qed.

(* nothing of an embedded struct in the document: its pointer stays nil; its
   own key ("base") is not a key of the flattened type *)
Example flat_absent_embedded_stays_nil :
  decode_yaml_flat (DMap [(S "name", DStr (S "x")); (S "base", DMap [(S "port", DInt 1)])]) flat_pfs =
  Ok [VPtr (VStr (S "x")); VNil; VNil].
Proof. vm_compute. reflexivity. Qed.

(* without the option the embedded structs are keyed fields *)
Example unflattened_reads_by_key :
  decode FYaml (DMap [(S "port", DInt 80); (S "base", DMap [(S "port", DInt 1)])]) flat_pfs =
  Ok [VNil; VPtr (VStruct [VPtr (VInt 1); VNil]); VNil].
Proof. vm_compute. reflexivity. Qed.

(* ---- the guard uniq_fields is not vacuous: hoisting next to a field of the
   same Go name is a TranslateType error (legal Go: the outer field shadows) ---- *)
(* struct { Port int `dials:"p"`; Base `dials:"base"` } with Base = struct{ Port int `dials:"port"` } *)
Definition clash_fs : fields :=
  FCons (S "Port") [tg "dials" "p"] false tint
 (FCons (S "Base") [tg "dials" "base"] true
    (TStruct (FCons (S "Port") [tg "dials" "port"] false tint FNil) (S "Base")) FNil).

Definition clash_doc : doc := DMap [(S "p", DInt 1)].

Lemma flat_name_clash_refuted_l :
  let pfs := ptrify_fields clash_fs in
  uniq_fields pfs = true /\
  uniq_fields (anonflat_fields (tagcopy_fields dials_tag yaml_tag pfs)) = false /\
  decode_yaml_flat clash_doc pfs = Err e_dup_names /\
  spec_yaml_flat clash_doc pfs = Ok [VPtr (VInt 1); VNil].
Proof. vm_compute. repeat split; reflexivity. Qed.

(* ---- the guard anon_ok is not vacuous: inside a slice element (not
   pointerified) an absent plain struct that embeds a *struct with a non-nilable
   field gets the embedded pointer allocated (reproduced on the real decoder by
   `build/c13 demo6`) ---- *)
(* struct { L []struct{ S struct{ *E `dials:"e"` } `dials:"s"`; K int `dials:"k"` } `dials:"l"` }, E = struct{ N int `dials:"n"` } *)
Definition alloc_fs : fields :=
  FCons (S "L") [tg "dials" "l"] false
    (TSlice (TStruct
       (FCons (S "S") [tg "dials" "s"] false
          (TStruct (FCons (S "E") [tg "dials" "e"] true
                      (TPtr (TStruct (FCons (S "N") [tg "dials" "n"] false tint FNil) (S "E"))) FNil) [])
       (FCons (S "K") [tg "dials" "k"] false tint FNil)) []) []) FNil.
Definition alloc_doc : doc := DMap [(S "l", DList [DMap [(S "k", DInt 1)]])].

Lemma flat_alloc_refuted_l :
  let pfs := ptrify_fields alloc_fs in
  dec_ok pfs = true /\ anon_ok pfs = false /\
  decode_yaml_flat alloc_doc pfs = Ok [VList [VStruct [VStruct [VPtr (VStruct [VInt 0])]; VInt 1]]] /\
  spec_yaml_flat alloc_doc pfs = Ok [VList [VStruct [VStruct [VNil]; VInt 1]]].
Proof. vm_compute. repeat split; reflexivity. Qed.
