(* End-to-end precedence (property C18, engine c18e2e): the file layer from the
   decoder model, the environment layer from the env-source model and the flag
   layer from the flag-source model, stacked by dials' compose over the
   defaults.  A corollary of C01's compose_eq_stack (through
   LayerBetween.stack_between), decoders_agree (C13), env_layer_between (C11)
   and flag_layer_between (C12). *)
From Coq Require Import String.
From Coq Require Import List NArith ZArith Bool Lia.
From Dials Require Import Base.Outcome Base.Runes Reflect.Ty Reflect.Ptrify Stack.Overlay Stack.StackSpec
  Stack.StackProofs Text.ParseText
  Sources.Flatten Sources.FlattenSpec Sources.FlattenProofs Sources.TimeText
  Sources.Decoders Sources.DecodersSpec Sources.DecodersProofs
  Sources.Env Sources.EnvSpec Sources.EnvProofs Sources.EnvGuards
  Sources.Flags Sources.FlagsProofs Sources.LayerBetween Sources.SourceLayers.
Import ListNotations.
Open Scope list_scope.

Module SP := Dials.Stack.Spine.

(* ---- what a decoder returns has the layer's shape ---- *)
Lemma keyed_spine_mut nt nd key :
  (forall t d v, keyed_decode nt nd key d t = Ok v -> SP.spine t v = true) /\
  (forall fs kvs vs, keyed_fields nt nd key kvs fs = Ok vs -> SP.spine_fields fs vs = true).
Proof.
  apply ty_fields_ind; intros; cbv beta in *; try reflexivity.
  - (* TPtr *)
    rewrite keyed_ptr in H0. destruct (keyed_decode nt nd key d t) eqn:E; try discriminate.
    simpl in H0. inversion H0; subst v. specialize (H d a E).
    destruct t; try reflexivity. simpl in H. simpl. exact H.
  - (* TStruct *)
    rewrite keyed_struct in H0. destruct d; try discriminate.
    destruct (keyed_fields nt nd key kvs fs) eqn:E; try discriminate.
    simpl in H0. inversion H0; subst v. simpl. exact (H kvs a E).
  - (* FNil *) simpl in H. inversion H. reflexivity.
  - (* FCons *)
    simpl in H1. apply obind_ok in H1 as (v & Hv & H1). apply obind_ok in H1 as (vs' & Hr & H1).
    inversion H1; subst vs. simpl. rewrite (H0 kvs vs' Hr), andb_true_r.
    destruct (doc_lookup (key f_name f_tags) kvs) as [d|].
    + exact (H d v Hv).
    + inversion Hv. apply (proj1 spine_zero).
Qed.

Lemma decode_spine f dc pfs fl :
  dec_ok pfs = true -> tags_wf f pfs = true -> decode f dc pfs = Ok fl -> SP.spine_fields pfs fl = true.
Proof.
  intros Hd Hw H. rewrite decoders_agree_l in H by assumption.
  unfold spec_decode, spec_fields in H. destruct dc; try discriminate.
  exact (proj2 (keyed_spine_mut _ _ _) _ _ _ H).
Qed.

(* ---- defaults < file < environment < flags, leaf by leaf ---- *)
Theorem e2e_precedence_l f dc prefix env p ne te occs fs d fl el gl :
  cfg_both fs ->
  alias_free env_alias_keys fs = true -> alias_free (flag_alias_keys p) fs = true ->
  dec_ok (ptrify_fields fs) = true -> tags_wf f (ptrify_fields fs) = true ->
  SP.spine_fields fs d = true ->
  decode f dc (ptrify_fields fs) = Ok fl ->
  env_value prefix (ptrify_fields fs) env = Ok el ->
  flag_value p ne te fs d occs = Ok gl ->
  let pfs := ptrify_fields fs in
  let r := stack fs d [VStruct fl; VStruct el; VStruct gl] in
  (* dials' compose succeeds and is the by-name stacking *)
  compose fs d [VStruct fl; VStruct el; VStruct gl] = Ok r /\
  (* every effective leaf: the flag layer's value if it sets the leaf, else the
     environment layer's, else the file layer's, else the default *)
  (forall i t dv x e g,
     nth_error (ltys fs) i = Some t -> nth_error (eff_fields fs (Some d)) i = Some dv ->
     nth_error (leaves_of pfs fl) i = Some x -> nth_error (leaves_of pfs el) i = Some e ->
     nth_error (leaves_of pfs gl) i = Some g ->
     nth_error (eff_fields fs (Some r)) i =
     Some (if negb (is_vnil g) then unwrap t g
           else if negb (is_vnil e) then unwrap t e
           else if negb (is_vnil x) then unwrap t x else dv)) /\
  (* the file layer is what the strict specification decoder reads, keyed by
     the format tag else the dials tag *)
  spec_decode f dc pfs = Ok fl /\
  (* the environment layer sets a leaf exactly when its variable is present,
     to the parse of that variable *)
  (exists plan, env_plan prefix pfs = Ok plan /\
     Forall2 (fun lv x => cast (lf_ty (fst lv)) (lookup_env env (snd lv)) = Ok x /\
                          (is_set x = true <-> lookup_env env (snd lv) <> None))
             plan (leaves_of pfs el)) /\
  (* the flag layer leaves unset every leaf whose flag was not given; a given
     flag's leaf holds what Value writes for the flag's final state *)
  (exists regs states,
     flag_regs p ne te fs d = Ok regs /\ run_occs regs [] occs = Ok states /\
     Forall2 (fun rg x =>
                (~ In (rg_name rg) (map fst occs) -> x = VNil) /\
                (forall st k, st_lookup (rg_name rg) states = Some st -> rg_kind rg = Some k ->
                              write_leaf p k (lf_ty (rg_leaf rg)) (st_val st) = Ok x))
             regs (leaves_of pfs gl)).
Proof.
  intros Hc Hae Haf Hdo Htw Hd Hfl Hel Hgl pfs r.
  pose proof (decode_spine _ _ _ _ Hdo Htw Hfl) as Sfl.
  assert (Hsup : env_supported pfs = true) by (apply env_supported_ptrify; [apply Hc|exact Hae]).
  pose proof (env_value_spine _ _ _ _ Hsup Hel) as Sel.
  assert (Haf' : alias_free (flag_alias_keys p) pfs = true)
    by (apply (proj2 (ptrify_alias_free_mut _)); exact Haf).
  assert (Hwf : wf_fields pfs = true) by (apply ptrify_wf; apply Hc).
  pose proof (flag_value_spine _ _ _ _ _ _ _ Haf' Hwf Hgl) as Sgl.
  destruct (stack_between fs d fl el gl Hc Hd Sfl Sel Sgl) as [H1 H2].
  split; [exact H1|]. split.
  - intros i t dv x e g Ht Hdv Hx He Hg. fold r in H2. rewrite H2.
    exact (over3_nth _ _ _ _ _ i t dv x e g Ht Hdv Hx He Hg).
  - split; [now rewrite <- decoders_agree_l by assumption|]. split.
    + destruct (env_layer_between_l prefix fs env d fl gl el Hc Hae Hd Sfl Sgl Hel) as (_ & _ & He). exact He.
    + destruct (flag_layer_between_l p ne te fs d occs d fl fl gl Hc Haf Hd Sfl Sfl Hgl) as (_ & _ & Hg). exact Hg.
Qed.
