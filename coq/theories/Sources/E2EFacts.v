(* Non-vacuity of the end-to-end precedence theorem (property C18, engine
   c18e2e): a config type inside every side condition, one document, one
   environment, one command line. *)
From Coq Require Import String.
From Coq Require Import List NArith ZArith Bool.
From Dials Require Import Base.Outcome Base.Runes Reflect.Ty Reflect.Ptrify Stack.Overlay Stack.StackSpec
  Stack.StackProofs Text.ParseText Sources.Flatten Sources.FlattenSpec Sources.TimeText
  Sources.Decoders Sources.DecodersSpec Sources.DecodersFacts Sources.Env Sources.EnvSpec Sources.Flags
  Sources.LayerBetween.
Import ListNotations.
Open Scope string_scope.
Open Scope list_scope.

(* struct {
     Name string `dials:"name"`
     Port int16  `dials:"port"`
     Sub  struct { Wait time.Duration `dials:"wait"`; On bool `dials:"on"` } `dials:"sub"`
   } *)
Definition e2e_fs : fields :=
  FCons (S "Name") [tg "dials" "name"] false (TBasic KString (S "string"))
 (FCons (S "Port") [tg "dials" "port"] false (TBasic (KInt 16) (S "int16"))
 (FCons (S "Sub") [tg "dials" "sub"] false
    (TStruct (FCons (S "Wait") [tg "dials" "wait"] false tdur
             (FCons (S "On") [tg "dials" "on"] false (TBasic KBool (S "bool")) FNil)) []) FNil)).

Definition e2e_defaults : list val := [VStr (S "d"); VInt 1; VStruct [VInt 5; VBool false]].

(* {"name": "f", "port": 2, "sub": {"wait": "1s"}}   PORT=3 SUB_WAIT=2s   -sub-wait=3s *)
Definition e2e_doc : doc :=
  DMap [(S "name", DStr (S "f")); (S "port", DInt 2); (S "sub", DMap [(S "wait", DStr (S "1s"))])].
Definition e2e_env : list (str * str) := [(S "PORT", S "3"); (S "SUB_WAIT", S "2s")].
Definition e2e_occs : list (str * str) := [(S "sub-wait", S "3s")].

Example e2e_side_conditions :
  cfg_both e2e_fs /\ alias_free env_alias_keys e2e_fs = true /\ alias_free (flag_alias_keys PStd) e2e_fs = true /\
  dec_ok (ptrify_fields e2e_fs) = true /\ tags_wf FJson (ptrify_fields e2e_fs) = true /\
  Dials.Stack.Spine.spine_fields e2e_fs e2e_defaults = true.
Proof. repeat split; vm_compute; reflexivity. Qed.

(* name: file (no higher source); port: environment over file; sub.wait: flag
   over environment over file; sub.on: the default *)
Definition e2e_result : list val := [VStr (S "f"); VInt 3; VStruct [VInt 3000000000; VBool false]].

Example e2e_example :
  let pfs := ptrify_fields e2e_fs in
  exists fl el gl,
    decode FJson e2e_doc pfs = Ok fl /\ env_value [] pfs e2e_env = Ok el /\
    flag_value PStd 0 0 e2e_fs e2e_defaults e2e_occs = Ok gl /\
    compose e2e_fs e2e_defaults [VStruct fl; VStruct el; VStruct gl] =
    Ok e2e_result.
Proof. vm_compute. do 3 eexists. repeat split; reflexivity. Qed.
