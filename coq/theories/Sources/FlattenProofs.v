(* Proofs about the shared flatten / populate / alias model:
     flat_paths      the accumulating walk of the flatten mangler visits
                     exactly the depth-first leaf paths and gives each leaf
                     the tag derived from the parts along its path
     pop_read        populateStruct puts the i-th leaf value at the i-th
                     leaf position (shared depth-first order), allocating a
                     parent only if a child is set
     alias_fields_id / pop_unalias_id   without alias tags the alias mangler
                     is the identity in both directions *)
From Coq Require Import String.
From Coq Require Import List NArith ZArith Bool Lia.
From Dials Require Import Base.Outcome Base.Runes Reflect.Ty Stack.Overlay Text.CaseConv
  Sources.Flatten Sources.FlattenSpec.
Import ListNotations.
Open Scope list_scope.

Lemma obind_ok {A B} (o : outcome A) (f : A -> outcome B) b :
  obind o f = Ok b -> exists a, o = Ok a /\ f a = Ok b.
Proof. destruct o; simpl; intros; try discriminate; eauto. Qed.

Lemma Forall2_imp {A B} (R1 R2 : A -> B -> Prop) l1 l2 :
  (forall a b, R1 a b -> R2 a b) -> Forall2 R1 l1 l2 -> Forall2 R2 l1 l2.
Proof. intros H F. induction F; constructor; auto. Qed.

(* ---- tags ---- *)
Lemma tag_lookup_set_same k v tags : tag_lookup k (tag_set k v tags) = Some v.
Proof.
  induction tags as [|[k0 v0] r IH]; simpl.
  - now rewrite str_eqb_refl.
  - destruct (str_eqb k k0) eqn:E; simpl.
    + now rewrite str_eqb_refl.
    + now rewrite E.
Qed.

Lemma tag_lookup_set_other k k' v tags :
  str_eqb k' k = false -> tag_lookup k' (tag_set k v tags) = tag_lookup k' tags.
Proof.
  intros Hne. induction tags as [|[k0 v0] r IH]; simpl.
  - now rewrite Hne.
  - destruct (str_eqb k k0) eqn:E; simpl.
    + apply str_eqb_eq in E. subst k0. now rewrite Hne.
    + destruct (str_eqb k' k0); auto.
Qed.

Lemma tag_get_set_same k v tags : tag_get k (tag_set k v tags) = v.
Proof. unfold tag_get. now rewrite tag_lookup_set_same. Qed.

Lemma tag_get_set_other k k' v tags :
  str_eqb k' k = false -> tag_get k' (tag_set k v tags) = tag_get k' tags.
Proof. intros. unfold tag_get. now rewrite tag_lookup_set_other. Qed.

Lemma dials_neq_fieldpath : str_eqb dials_tag fieldpath_tag = false.
Proof. reflexivity. Qed.

(* ---- flatten visits the depth-first paths ---- *)
Definition other_tags (lt pt : list (str * str)) : Prop :=
  forall k, str_eqb k dials_tag = false -> str_eqb k fieldpath_tag = false ->
            tag_lookup k lt = tag_lookup k pt.

Definition leaf_rel (cfg : flat_cfg) (tagp : list str) (pre : path) (l : leaf) (pt : path * ty) : Prop :=
  exists sfx parts,
    fst pt = pre ++ sfx /\ sfx <> [] /\ raw_parts sfx = Ok parts /\
    tag_get dials_tag (lf_tags l) = fc_tag_enc cfg (tagp ++ parts) /\
    other_tags (lf_tags l) (leaf_tags sfx) /\ lf_ty l = snd pt.

Lemma leaf_tags_cons c sfx : sfx <> [] -> leaf_tags (c :: sfx) = leaf_tags sfx.
Proof.
  intros H. unfold leaf_tags. simpl.
  destruct (rev sfx) eqn:E.
  - apply (f_equal (@rev comp)) in E. rewrite rev_involutive in E. simpl in E. congruence.
  - reflexivity.
Qed.

Lemma leaf_rel_push cfg tagp pre c cparts l pt :
  comp_parts c = Ok cparts ->
  leaf_rel cfg (tagp ++ cparts) (pre ++ [c]) l pt -> leaf_rel cfg tagp pre l pt.
Proof.
  intros Hc (sfx & parts & Hp & Hne & Hr & Ht & Ho & Hty).
  exists (c :: sfx), (cparts ++ parts). repeat split.
  - rewrite Hp. now rewrite <- app_assoc.
  - discriminate.
  - simpl. rewrite Hc. simpl. rewrite Hr. reflexivity.
  - rewrite Ht. now rewrite app_assoc.
  - rewrite leaf_tags_cons by assumption. exact Ho.
  - exact Hty.
Qed.

Lemma get_tag_ok cfg n tags an tagp path tg tagp' :
  get_tag cfg n tags an tagp path = Ok (tg, tagp') ->
  exists cparts, comp_parts (mkComp n tags an) = Ok cparts /\ tagp' = tagp ++ cparts /\
    tg = tag_set fieldpath_tag (join comma path) (tag_set dials_tag (fc_tag_enc cfg tagp') tags).
Proof.
  unfold get_tag, comp_parts. simpl. intros H.
  apply obind_ok in H as (x & Hx & H). inversion H; subst; clear H.
  destruct (tag_lookup dials_tag tags) as [t|].
  - inversion Hx; subst. eauto.
  - destruct an.
    + inversion Hx; subst. exists []. rewrite app_nil_r. auto.
    + apply obind_ok in Hx as (ws & Hws & Hx). inversion Hx; subst. eauto.
Qed.

Lemma flat_paths_mut cfg :
  (forall t names tagp path pre,
      match flat_ty cfg t names tagp path with
      | Some o => exists pl, paths_ty t pre = Some pl /\
                             forall ls, o = Ok ls -> Forall2 (leaf_rel cfg tagp pre) ls pl
      | None => paths_ty t pre = None
      end) /\
  (forall fs top names tagp path pre ls,
      flat_fields cfg fs top names tagp path = Ok ls ->
      Forall2 (leaf_rel cfg tagp pre) ls (paths_fields fs pre)).
Proof.
  apply ty_fields_ind; intros; simpl; auto.
  - (* TPtr *) apply H.
  - (* TStruct *) eexists. split; [reflexivity|]. intros ls Hls. eapply H; eauto.
  - (* FNil *) inversion H. constructor.
  - (* FCons *)
    rename H1 into Hf. simpl in Hf.
    destruct (top && negb (top_kind_ok t)); [discriminate|].
    apply obind_ok in Hf as ([tg tagp'] & Hgt & Hf).
    apply obind_ok in Hf as (here & Hhere & Hf).
    apply obind_ok in Hf as (rst & Hrst & Hf).
    inversion Hf; subst; clear Hf.
    apply get_tag_ok in Hgt as (cparts & Hc & -> & ->).
    apply Forall2_app.
    + simpl in Hhere.
      specialize (H (if f_anon then names else names ++ [f_name]) (tagp ++ cparts) (path ++ [f_name])
                    (pre ++ [mkComp f_name f_tags f_anon])).
      destruct (flat_ty cfg t _ _ _) as [o|].
      * destruct H as (pl & -> & Hpl).
        specialize (Hpl _ Hhere).
        eapply Forall2_imp; [|exact Hpl]. intros l pt. apply leaf_rel_push. exact Hc.
      * rewrite H. inversion Hhere; subst. constructor; [|constructor].
        exists [mkComp f_name f_tags f_anon], cparts. simpl. repeat split.
        -- discriminate.
        -- rewrite Hc. simpl. now rewrite app_nil_r.
        -- rewrite tag_get_set_other by reflexivity. apply tag_get_set_same.
        -- intros k Hk1 Hk2. rewrite tag_lookup_set_other by assumption.
           now rewrite tag_lookup_set_other by assumption.
    + eapply H0; eauto.
Qed.

Theorem flat_paths cfg fs ls :
  flatten cfg fs = Ok ls -> Forall2 (leaf_rel cfg [] []) ls (paths fs).
Proof. intros H. eapply (proj2 (flat_paths_mut cfg)); eauto. Qed.

(* ---- types that are not (pointers to) structs ---- *)
Lemma count_none t : count_ty t = None ->
  (forall vals, pop_ty t vals = None) /\ (forall v, read_ty t v = None) /\
  (forall cfg names tagp path, flat_ty cfg t names tagp path = None) /\
  (forall pre, paths_ty t pre = None).
Proof.
  induction t; simpl; intros H; try discriminate; auto.
  destruct (IHt H) as (A & B & C & D). repeat split; intros; auto.
Qed.

Lemma wf_ty_cases t : wf_ty t = true ->
  (exists fs n, t = TPtr (TStruct fs n) /\ wf_fields fs = true) \/
  (count_ty t = None /\ zero t = VNil).
Proof.
  destruct t; simpl; try discriminate; auto.
  destruct t; simpl; try discriminate; auto.
  - destruct (count_ty t); try discriminate; auto.
  - intros H. left. eauto.
Qed.

Definition setb (v : val) : bool := negb (is_vnil v).

Lemma read_none_mut :
  (forall t, read_ty t None = match count_ty t with Some k => Some (repeat VNil k) | None => None end) /\
  (forall fs, read_fields fs None = repeat VNil (count_fields fs)).
Proof.
  apply ty_fields_ind; intros; cbv beta in *; simpl; auto.
  - rewrite H. reflexivity.
  - rewrite H, H0. destruct (count_ty t); simpl.
    + now rewrite repeat_app.
    + reflexivity.
Qed.

Lemma all_unset_repeat l : existsb setb l = false -> l = repeat VNil (length l).
Proof.
  induction l as [|v l IH]; simpl; auto. intros H.
  apply orb_false_iff in H as [H1 H2]. rewrite <- IH by assumption.
  unfold setb in H1. destruct v; simpl in H1; try discriminate. reflexivity.
Qed.

Definition pop_spec (fs : fields) : Prop :=
  wf_fields fs = true ->
  forall vals vs rest any, pop_fields fs vals = Ok (vs, rest, any) ->
  exists used, vals = used ++ rest /\ length used = count_fields fs /\
               read_fields fs (Some vs) = used /\ any = existsb setb used /\
               length vs = fields_len fs.

Lemma pop_read_mut :
  (forall t, match t with
             | TStruct fs _ => pop_spec fs
             | TPtr (TStruct fs _) => pop_spec fs
             | _ => True
             end) /\
  (forall fs, pop_spec fs).
Proof.
  apply ty_fields_ind; intros; auto.
  - (* TPtr *) destruct t; auto.
  - (* FNil *) intros _ vals vs rest any H. simpl in H. inversion H; subst. exists []. simpl. auto.
  - (* FCons *)
    intros Hwf vals vs rst any Hp. simpl in Hwf. apply andb_true_iff in Hwf as [Hwt Hwr].
    simpl in Hp.
    apply obind_ok in Hp as ([[v rest1] any1] & Hx & Hp).
    apply obind_ok in Hp as ([[vs' rest2] any2] & Hy & Hp).
    simpl in Hp, Hy. injection Hp as Hvs Hrst Hany. subst vs rst any.
    destruct (H0 Hwr _ _ _ _ Hy) as (used2 & Hv2 & Hl2 & Hr2 & Ha2 & Hlen2).
    destruct (wf_ty_cases _ Hwt) as [(sub & n & Ht & Hws)|[Hc Hz]].
    + subst t. simpl in Hx. simpl in H.
      apply obind_ok in Hx as ([[fvs r1] a1] & Hsub & Hx). simpl in Hx.
      destruct (H Hws _ _ _ _ Hsub) as (used1 & Hv1 & Hl1 & Hr1 & Ha1 & Hlen1).
      exists (used1 ++ used2). simpl.
      destruct a1.
      * simpl in Hx. injection Hx as Hv Hr Ha. subst v rest1 any1. simpl.
        rewrite Hr1, Hr2, app_length, existsb_app, <- Ha1, <- Ha2, <- app_assoc, <- Hv2, <- Hv1, Hl1, Hl2, Hlen2.
        auto.
      * injection Hx as Hv Hr Ha. subst v rest1 any1. simpl.
        rewrite (proj2 read_none_mut), Hr2, <- Hl1, <- (all_unset_repeat used1) by (symmetry; exact Ha1).
        rewrite app_length, existsb_app, <- Ha1, <- Ha2, <- app_assoc, <- Hv2, <- Hv1, Hl2, Hlen2. auto.
    + destruct (count_none _ Hc) as (Hpn & Hrn & _). rewrite Hpn in Hx.
      destruct vals as [|v0 vals']; [discriminate|]. injection Hx as Hv Hr Ha. subst v rest1 any1.
      exists (v0 :: used2). simpl. rewrite Hrn, Hc, Hr2, <- Hv2, <- Ha2, Hl2, Hlen2. unfold setb. auto.
Qed.

Theorem pop_read fs vals vs rest any :
  wf_fields fs = true -> pop_fields fs vals = Ok (vs, rest, any) ->
  exists used, vals = used ++ rest /\ length used = count_fields fs /\
               read_fields fs (Some vs) = used /\ any = existsb setb used /\
               length vs = fields_len fs.
Proof. intros. eapply (proj2 pop_read_mut); eauto. Qed.

Corollary populate_leaves fs vals vs :
  wf_fields fs = true -> populate fs vals = Ok vs -> leaves_of fs vs = vals.
Proof.
  unfold populate. intros Hwf H.
  apply obind_ok in H as ([[vs' rest] any] & Hp & H). simpl in H.
  destruct rest; [|discriminate]. inversion H; subst.
  destruct (pop_read _ _ _ _ _ Hwf Hp) as (used & -> & _ & Hr & _). now rewrite app_nil_r.
Qed.

(* number of paths = number of leaves *)
Lemma paths_count_mut :
  (forall t pre, match paths_ty t pre with
                 | Some l => count_ty t = Some (length l)
                 | None => count_ty t = None end) /\
  (forall fs pre, length (paths_fields fs pre) = count_fields fs).
Proof.
  apply ty_fields_ind; intros; cbv beta in *; simpl; auto.
  - apply H.
  - rewrite app_length, H0.
    specialize (H (pre ++ [mkComp f_name f_tags f_anon])).
    destruct (paths_ty t _); rewrite H; reflexivity.
Qed.

(* ---- without alias tags the alias mangler is the identity ---- *)
Lemma alias_id_mut keys :
  (forall t, alias_free_ty keys t = true -> alias_ty keys t = t) /\
  (forall fs, alias_free keys fs = true -> alias_fields keys fs = fs).
Proof.
  apply ty_fields_ind; intros; cbv beta in *; simpl; auto.
  - (* TPtr *) destruct t; auto. simpl in *. specialize (H H0). simpl in H. congruence.
  - (* TStruct *) simpl in H0. now rewrite H.
  - (* FCons *) simpl in H1.
    apply andb_true_iff in H1 as [H1 H3]. apply andb_true_iff in H1 as [H1 H2].
    destruct (alias_split keys f_tags); [discriminate|].
    now rewrite H, H0.
Qed.

Lemma alias_fields_id keys fs : alias_free keys fs = true -> alias_fields keys fs = fs.
Proof. apply alias_id_mut. Qed.

Definition unalias_spec keys (fs : fields) : Prop :=
  wf_fields fs = true -> alias_free keys fs = true ->
  forall vals vs rest any, pop_fields fs vals = Ok (vs, rest, any) ->
  unalias_fields keys fs vs = Ok vs.

Lemma unalias_leaf keys t v : count_ty t = None -> unalias_ty keys t v = Ok v.
Proof.
  intros H. destruct t; simpl in *; try discriminate; auto.
  destruct t; simpl in *; try discriminate; auto.
Qed.

Lemma pop_unalias_mut keys :
  (forall t, match t with
             | TStruct fs _ => unalias_spec keys fs
             | TPtr (TStruct fs _) => unalias_spec keys fs
             | _ => True
             end) /\
  (forall fs, unalias_spec keys fs).
Proof.
  apply ty_fields_ind; intros; auto.
  - destruct t; auto.
  - intros _ _ vals vs rest any H. simpl in H. inversion H; subst. reflexivity.
  - intros Hwf Haf vals vs rst any Hp. simpl in Hwf, Haf.
    apply andb_true_iff in Hwf as [Hwt Hwr].
    apply andb_true_iff in Haf as [Haf Har]. apply andb_true_iff in Haf as [Has Hat].
    simpl in Hp.
    apply obind_ok in Hp as ([[v rest1] any1] & Hx & Hp).
    apply obind_ok in Hp as ([[vs' rest2] any2] & Hy & Hp).
    simpl in Hp, Hy. injection Hp as Hvs Hrst Hany. subst vs rst any.
    simpl. destruct (alias_split keys f_tags); [discriminate|].
    rewrite (H0 Hwr Har _ _ _ _ Hy).
    destruct (wf_ty_cases _ Hwt) as [(sub & n & Ht & Hws)|[Hc Hz]].
    + subst t. simpl in Hx, H, Hat.
      apply obind_ok in Hx as ([[fvs r1] a1] & Hsub & Hx). simpl in Hx.
      destruct a1; injection Hx as Hv Hr Ha; subst v rest1 any1; simpl.
      * now rewrite (H Hws Hat _ _ _ _ Hsub).
      * reflexivity.
    + rewrite unalias_leaf by assumption. reflexivity.
Qed.

Theorem populate_unalias_id keys fs vals vs :
  wf_fields fs = true -> alias_free keys fs = true ->
  populate fs vals = Ok vs -> unalias_fields keys fs vs = Ok vs.
Proof.
  unfold populate. intros Hwf Haf H.
  apply obind_ok in H as ([[vs' rest] any] & Hp & H). simpl in H.
  destruct rest; [|discriminate]. inversion H; subst.
  eapply (proj2 (pop_unalias_mut keys)); eauto.
Qed.
