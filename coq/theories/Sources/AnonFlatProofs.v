(* Proofs for decoders/yaml with FlattenAnonymous (property C13): the type
   rewrite + generic decode + regrouping equals the direct reading of embedded
   structs from the enclosing mapping. *)
From Coq Require Import String.
From Coq Require Import List NArith ZArith Bool Lia.
From Dials Require Import Base.Outcome Base.Runes Reflect.Ty Stack.Overlay Text.ParseText
  Sources.Flatten Sources.FlattenProofs Sources.TimeText Sources.Decoders Sources.DecodersSpec
  Sources.DecodersProofs Sources.AnonFlat.
Import ListNotations.
Open Scope list_scope.

Lemma omap_idf {A} (f : A -> A) (o : outcome A) : (forall v, f v = v) -> omap f o = o.
Proof. intros H. destruct o; simpl; auto. now rewrite H. Qed.

Lemma firstn_len_app {A} (a b : list A) n : length a = n -> firstn n (a ++ b) = a.
Proof. intros <-. rewrite firstn_app, Nat.sub_diag, firstn_all. simpl. now rewrite app_nil_r. Qed.

Lemma skipn_len_app {A} (a b : list A) n : length a = n -> skipn n (a ++ b) = b.
Proof. intros <-. rewrite skipn_app, Nat.sub_diag, skipn_all. reflexivity. Qed.

Lemma flen_anonrec : forall fs, flen (anonrec_fields fs) = flen fs.
Proof. induction fs; simpl; auto. Qed.

Lemma dec_docs_list f l : dec_docs f l = dec_list f l.
Proof. induction l; simpl; auto; now rewrite IHl. Qed.

Lemma dec_list_omap_map (f g : doc -> outcome val) (h : val -> val) l :
  (forall x, omap h (f x) = g x) -> omap (map h) (dec_list f l) = dec_list g l.
Proof.
  intros H. induction l; simpl; auto. rewrite <- H, <- IHl.
  destruct (f a); simpl; auto. destruct (dec_list f l); reflexivity.
Qed.

(* what the induction carries for a type: the statement about the fields of
   the struct an embedded field of that type would hoist *)
Definition inner (P : fields -> Prop) (t : ty) : Prop :=
  match t with
  | TStruct fs _ => P fs
  | TPtr (TStruct fs _) => P fs
  | _ => True
  end.

(* ---- zero values ---- *)
Lemma zero_fields_fapp : forall a b, zero_fields (fapp a b) = zero_fields a ++ zero_fields b.
Proof. induction a; intros; simpl; auto. now rewrite IHa. Qed.

Lemma zero_fields_len : forall fs, length (zero_fields fs) = flen fs.
Proof. induction fs; simpl; auto. Qed.

Lemma nilable_zero t : nilable t = true -> zero (anonflat_ty t) = VNil.
Proof.
  destruct t; simpl; try discriminate; auto; destruct t; reflexivity.
Qed.

Lemma all_nilable_zero : forall fs, all_nilable fs = true ->
  all_nil (zero_fields (anonrec_fields fs)) = true /\
  unrec_fields fs (zero_fields (anonrec_fields fs)) = zero_fields (anonrec_fields fs).
Proof.
  induction fs as [|n tags an t r IH]; simpl; intros H; auto.
  apply andb_true_iff in H as [Ht Hr]. destruct (IH Hr) as [I1 I2].
  rewrite (nilable_zero t Ht). simpl. split; auto. rewrite I2. f_equal.
  destruct t; try discriminate; try reflexivity; destruct t; reflexivity.
Qed.

Definition PZF (fs : fields) : Prop :=
  anon_ok fs = true ->
  unflat_fields fs (zero_fields (anonflat_fields fs)) = zero_fields fs /\
  unrec_fields fs (zero_fields (anonrec_fields fs)) = zero_fields fs.

Lemma zero_unflat_mut :
  (forall t, (anon_ok_ty t = true -> unflat_ty t (zero (anonflat_ty t)) = zero t) /\ inner PZF t) /\
  (forall fs, PZF fs).
Proof.
  apply ty_fields_ind; unfold PZF; intros; cbv beta in *; try (split; [reflexivity|exact I]).
  - (* TPtr *) split.
    + destruct t; reflexivity.
    + destruct t; try exact I. simpl. exact (proj2 H).
  - split; [|exact I]. destruct t; reflexivity.
  - (* TArray *) split; [|exact I]. destruct t; try reflexivity.
    intros H0. simpl in H0. simpl. destruct H as [H _]. specialize (H H0). simpl in H.
    induction (N.to_nat n); simpl; auto. inversion IHn0. rewrite !H2. f_equal. f_equal. exact H.
  - (* TStruct *) split; [|exact H]. intros H0. simpl in H0. simpl. f_equal. now apply H.
  - split; reflexivity.
  - (* FCons *)
    rename H1 into Hok. simpl in Hok. apply andb_true_iff in Hok as [Hok Hr]. apply andb_true_iff in Hok as [Hn Ht].
    destruct (H0 Hr) as [R1 R2]. destruct H as [H Hin]. specialize (H Ht).
    split.
    + destruct f_anon.
      * destruct t; try (simpl; rewrite R1; f_equal; exact H).
        -- (* embedded *T *)
           destruct t; try (simpl; rewrite R1; f_equal; exact H).
           simpl. rewrite zero_fields_fapp.
           destruct (all_nilable_zero _ Hn) as [A1 A2].
           rewrite firstn_len_app, skipn_len_app by (now rewrite zero_fields_len, flen_anonrec).
           rewrite A2, A1, R1. reflexivity.
        -- (* embedded T *)
           simpl. rewrite zero_fields_fapp.
           rewrite firstn_len_app, skipn_len_app by (now rewrite zero_fields_len, flen_anonrec).
           rewrite R1. simpl in Hin, Ht. destruct (Hin Ht) as [_ I2]. now rewrite I2.
      * destruct t; simpl; rewrite R1; f_equal; exact H.
    + simpl. rewrite R2. f_equal. exact H.
Qed.

Section Flat.
Variables (nt nd : bool) (key : str -> list (str * str) -> str).
Local Notation K := (keyed_decode nt nd key).
Local Notation KF := (keyed_fields nt nd key).
Local Notation S' := (sflat_ty nt nd key).
Local Notation SF := (sflat_fields nt nd key).

Lemma KF_len kvs : forall fs vs, KF kvs fs = Ok vs -> length vs = flen fs.
Proof.
  induction fs as [|n tags an t r IH]; intros vs H; simpl in H.
  - now inversion H.
  - apply obind_ok in H as (v & _ & H). apply obind_ok in H as (vs' & Hr & H).
    inversion H; subst. simpl. now rewrite (IH _ Hr).
Qed.

Lemma KF_fapp kvs : forall a b,
  KF kvs (fapp a b) = (va <- KF kvs a ;; vb <- KF kvs b ;; Ok (va ++ vb)).
Proof.
  induction a as [|n tags an t r IH]; intros b; simpl.
  - destruct (KF kvs b); reflexivity.
  - rewrite IH.
    destruct (match doc_lookup (key n tags) kvs with Some d => K d t | None => Ok (zero t) end); simpl; auto.
    destruct (KF kvs r); simpl; auto. destruct (KF kvs b); reflexivity.
Qed.

(* ---- equations of the specification ---- *)
Lemma S_struct d fs n :
  S' d (TStruct fs n) = match d with DMap kvs => omap VStruct (SF true kvs fs) | _ => Err 43 end.
Proof. destruct d; reflexivity. Qed.

Lemma S_ptr_struct d fs n :
  S' d (TPtr (TStruct fs n)) = omap VPtr (S' d (TStruct fs n)).
Proof. destruct d; reflexivity. Qed.

Lemma S_slice_struct d fs n m :
  S' d (TSlice (TStruct fs n) m) =
  match d with DList l => omap VList (dec_list (fun x => S' x (TStruct fs n)) l) | _ => Err 40 end.
Proof.
  destruct d; reflexivity.
Qed.

Lemma SF_cons h kvs n tags an t r :
  SF h kvs (FCons n tags an t r) =
  (v <- match h && an, t with
        | true, TStruct ifs _ => omap VStruct (SF false kvs ifs)
        | true, TPtr (TStruct ifs _) =>
            iv <- SF false kvs ifs ;; Ok (if all_nil iv then VNil else VPtr (VStruct iv))
        | _, _ => match doc_lookup (key n tags) kvs with Some d => S' d t | None => Ok (zero t) end
        end ;;
   vs <- SF h kvs r ;; Ok (v :: vs)).
Proof. reflexivity. Qed.

(* ---- the rewrite + generic decode + regrouping = the direct reading ---- *)
Definition PAF (fs : fields) : Prop :=
  anon_ok fs = true ->
  (forall kvs, omap (unflat_fields fs) (KF kvs (anonflat_fields fs)) = SF true kvs fs) /\
  (forall kvs, omap (unrec_fields fs) (KF kvs (anonrec_fields fs)) = SF false kvs fs).

Ltac leaf := intros _ d; apply omap_idf; intros v; reflexivity.

Lemma flat_transparent_mut :
  (forall t, (anon_ok_ty t = true -> forall d, omap (unflat_ty t) (K d (anonflat_ty t)) = S' d t) /\ inner PAF t) /\
  (forall fs, PAF fs).
Proof.
  apply ty_fields_ind; unfold PAF; intros; cbv beta in *; try (split; [leaf|exact I]).
  - (* TPtr *) split.
    + destruct t; try leaf.
      intros Hok d. destruct H as [_ Hin]. simpl in Hin, Hok. destruct (Hin Hok) as [A1 _].
      change (anonflat_ty (TPtr (TStruct fs name))) with (TPtr (TStruct (anonflat_fields fs) name)).
      rewrite keyed_ptr, keyed_struct, S_ptr_struct, S_struct. destruct d; try reflexivity.
      rewrite <- A1. destruct (KF kvs (anonflat_fields fs)); reflexivity.
    + destruct t; try exact I. exact (proj2 H).
  - (* TSlice *) split; [|exact I]. destruct t; try leaf.
    intros Hok d. destruct H as [_ Hin]. simpl in Hin, Hok. destruct (Hin Hok) as [A1 _].
    change (anonflat_ty (TSlice (TStruct fs name0) name)) with (TSlice (TStruct (anonflat_fields fs) name0) name).
    rewrite keyed_slice, netip_struct, S_slice_struct. destruct d; try reflexivity.
    rewrite <- (dec_list_omap_map (fun x => K x (TStruct (anonflat_fields fs) name0)) (fun x => S' x (TStruct fs name0))
                  (fun x => match x with VStruct vs => VStruct (unflat_fields fs vs) | _ => x end)).
    + destruct (dec_list _ l); reflexivity.
    + intros x. rewrite keyed_struct, S_struct. destruct x; try reflexivity.
      rewrite <- A1. destruct (KF kvs (anonflat_fields fs)); reflexivity.
  - (* TArray *) split; [|exact I]. destruct t; try leaf. intros _ d. reflexivity.
  - (* TMap *) split; [|exact I]. intros _ d.
    change (S' d (TMap k v name)) with (K d (TMap k v name)). apply omap_idf. intros; reflexivity.
  - (* TStruct *) split; [|exact H]. intros Hok d. simpl in Hok. destruct (H Hok) as [A1 _].
    change (anonflat_ty (TStruct fs name)) with (TStruct (anonflat_fields fs) name).
    rewrite keyed_struct, S_struct. destruct d; try reflexivity.
    rewrite <- A1. destruct (KF kvs (anonflat_fields fs)); reflexivity.
  - (* FNil *) split; intros; reflexivity.
  - (* FCons *)
    rename H1 into Hok. simpl in Hok. apply andb_true_iff in Hok as [Hok Hr]. apply andb_true_iff in Hok as [Hn Ht].
    destruct (H0 Hr) as [R1 R2]. destruct H as [Hty Hin]. specialize (Hty Ht).
    pose proof (proj1 (proj1 zero_unflat_mut t) Ht) as Hz.
    assert (G1 : forall kvs,
      omap (fun vs => match vs with v :: vs' => unflat_ty t v :: unflat_fields rest vs' | [] => [] end)
           (KF kvs (FCons f_name f_tags f_anon (anonflat_ty t) (anonflat_fields rest))) =
      (v <- match doc_lookup (key f_name f_tags) kvs with Some d => S' d t | None => Ok (zero t) end ;;
       vs <- SF true kvs rest ;; Ok (v :: vs))).
    { intros kvs. simpl keyed_fields. rewrite <- R1.
      destruct (doc_lookup (key f_name f_tags) kvs) as [d|].
      - rewrite <- (Hty d). destruct (K d (anonflat_ty t)); simpl; auto.
        destruct (KF kvs (anonflat_fields rest)); reflexivity.
      - simpl. rewrite <- Hz. destruct (KF kvs (anonflat_fields rest)); reflexivity. }
    split; intros kvs.
    + rewrite SF_cons. destruct f_anon.
      * destruct t; try (exact (G1 kvs)).
        -- (* embedded *T *)
           destruct t; try (exact (G1 kvs)).
           simpl in Hin, Ht. destruct (Hin Ht) as [_ I2].
           simpl anonflat_fields. rewrite KF_fapp. simpl andb. cbv iota. rewrite <- I2, <- R1.
           destruct (KF kvs (anonrec_fields fs)) eqn:Ea; simpl; try reflexivity.
           destruct (KF kvs (anonflat_fields rest)) eqn:Eb; simpl; try reflexivity.
           rewrite firstn_len_app, skipn_len_app by (rewrite (KF_len _ _ _ Ea); apply flen_anonrec).
           reflexivity.
        -- (* embedded T *)
           simpl in Hin, Ht. destruct (Hin Ht) as [_ I2].
           simpl anonflat_fields. rewrite KF_fapp. simpl andb. cbv iota. rewrite <- I2, <- R1.
           destruct (KF kvs (anonrec_fields fs)) eqn:Ea; simpl; try reflexivity.
           destruct (KF kvs (anonflat_fields rest)) eqn:Eb; simpl; try reflexivity.
           rewrite firstn_len_app, skipn_len_app by (rewrite (KF_len _ _ _ Ea); apply flen_anonrec).
           reflexivity.
      * exact (G1 kvs).
    + simpl keyed_fields. rewrite SF_cons. simpl andb. cbv iota. rewrite <- R2.
      destruct (doc_lookup (key f_name f_tags) kvs) as [d|].
      * rewrite <- (Hty d). destruct (K d (anonflat_ty t)); simpl; auto.
        destruct (KF kvs (anonrec_fields rest)); reflexivity.
      * simpl. rewrite <- Hz. destruct (KF kvs (anonrec_fields rest)); reflexivity.
Qed.
End Flat.

(* ---- the tag copy under the direct reading: keys become the specification keys ---- *)
Lemma S_scalar nt nd key t : scalarish t = true -> forall d, sflat_ty nt nd key d t = keyed_decode nt nd key d t.
Proof.
  destruct t; intros Hs d; try reflexivity; simpl in Hs; try discriminate;
    destruct t; simpl in Hs; try discriminate; reflexivity.
Qed.

Section Copy.
Variables (nt nd : bool) (f : format).
Local Notation S1 := (sflat_ty nt nd (field_key (fmt_tag f))).
Local Notation SF1 := (sflat_fields nt nd (field_key (fmt_tag f))).
Local Notation S2 := (sflat_ty nt nd (spec_key f)).
Local Notation SF2 := (sflat_fields nt nd (spec_key f)).
Local Notation cp_ty := (tagcopy_ty dials_tag (fmt_tag f)).
Local Notation cp := (tagcopy_fields dials_tag (fmt_tag f)).

Definition PBF (fs : fields) : Prop :=
  dec_ok fs = true -> tags_wf f fs = true -> forall h kvs, SF1 h kvs (cp fs) = SF2 h kvs fs.

Lemma copy_sflat_mut :
  (forall t, (dec_ok_ty t = true -> tags_wf_ty f t = true -> forall d, S1 d (cp_ty t) = S2 d t) /\ inner PBF t) /\
  (forall fs, PBF fs).
Proof.
  assert (Hsc : forall t, scalarish t = true -> forall d, S1 d (cp_ty t) = S2 d t).
  { intros t Hs d. rewrite tagcopy_scalar by assumption. rewrite !S_scalar by assumption.
    now apply scalar_key_indep. }
  apply ty_fields_ind; unfold PBF; intros; cbv beta in *;
    try (split; [intros Hd _; apply Hsc; exact Hd | exact I]).
  - (* TPtr *) split.
    + destruct t; try (intros Hd _; apply Hsc; exact Hd).
      intros Hd Hw d. destruct H as [_ Hin]. simpl in Hin, Hd, Hw.
      change (cp_ty (TPtr (TStruct fs name))) with (TPtr (TStruct (cp fs) name)).
      rewrite !S_ptr_struct, !S_struct. destruct d; try reflexivity. now rewrite Hin.
    + destruct t; try exact I. exact (proj2 H).
  - (* TSlice *) split; [|exact I]. destruct t; try (intros Hd _; apply Hsc; exact Hd).
    intros Hd Hw d. destruct H as [_ Hin]. simpl in Hin, Hd, Hw.
    change (cp_ty (TSlice (TStruct fs name0) name)) with (TSlice (TStruct (cp fs) name0) name).
    rewrite !S_slice_struct. destruct d; try reflexivity. f_equal. apply dec_list_ext.
    intros x. rewrite !S_struct. destruct x; try reflexivity. now rewrite Hin.
  - (* TArray *) split; [|exact I]. destruct t; try (intros Hd _; apply Hsc; exact Hd).
    intros _ _ d. reflexivity.
  - (* TStruct *) split; [|exact H]. intros Hd Hw d. simpl in Hd, Hw.
    change (cp_ty (TStruct fs name)) with (TStruct (cp fs) name).
    rewrite !S_struct. destruct d; try reflexivity. now rewrite H.
  - (* FNil *) reflexivity.
  - (* FCons *)
    rename H1 into Hd. rename H2 into Hw. simpl in Hd, Hw.
    apply andb_true_iff in Hd as [Ht Hr].
    apply andb_true_iff in Hw as [Hw Hwr]. apply andb_true_iff in Hw as [Hwtag Hwt].
    destruct H as [Hty Hin]. specialize (Hty Ht Hwt).
    change (cp (FCons f_name f_tags f_anon t rest))
      with (FCons f_name (copy_tag dials_tag (fmt_tag f) f_tags) f_anon (cp_ty t) (cp rest)).
    rewrite !SF_cons, key_after_copy, (proj1 (zero_tagcopy_mut _ _)), H0 by assumption.
    assert (G : match doc_lookup (spec_key f f_name f_tags) kvs with
                | Some d => S1 d (cp_ty t) | None => Ok (zero t) end =
                match doc_lookup (spec_key f f_name f_tags) kvs with
                | Some d => S2 d t | None => Ok (zero t) end).
    { destruct (doc_lookup _ kvs); auto. }
    destruct (h && f_anon).
    + destruct t; try (simpl tagcopy_ty in *; cbv iota; rewrite G; reflexivity);
        try (destruct t; simpl tagcopy_ty in *; cbv iota; rewrite G; reflexivity).
      * (* embedded *T *)
        destruct t; try (simpl tagcopy_ty in *; cbv iota; rewrite G; reflexivity).
        simpl in Hin, Ht, Hwt. cbv iota.
        change (cp_ty (TPtr (TStruct fs name))) with (TPtr (TStruct (cp fs) name)). cbv iota.
        now rewrite Hin.
      * (* embedded T *)
        simpl in Hin, Ht, Hwt.
        change (cp_ty (TStruct fs name)) with (TStruct (cp fs) name). cbv iota.
        now rewrite Hin.
    + cbv iota. rewrite G. reflexivity.
Qed.
End Copy.

(* ---- the side condition does not see the tag copy ---- *)
Lemma nilable_tagcopy a b t : nilable (tagcopy_ty a b t) = nilable t.
Proof. destruct t; try reflexivity; destruct t; reflexivity. Qed.

Lemma all_nilable_tagcopy a b : forall fs, all_nilable (tagcopy_fields a b fs) = all_nilable fs.
Proof. induction fs; simpl; auto. now rewrite nilable_tagcopy, IHfs. Qed.

Lemma anon_ok_tagcopy_mut a b :
  (forall t, anon_ok_ty (tagcopy_ty a b t) = anon_ok_ty t) /\
  (forall fs, anon_ok (tagcopy_fields a b fs) = anon_ok fs).
Proof.
  apply ty_fields_ind; intros; cbv beta in *; try reflexivity.
  - destruct t; try reflexivity. exact H.
  - destruct t; try reflexivity. exact H.
  - destruct t; try reflexivity. exact H.
  - exact H.
  - simpl. rewrite H, H0. f_equal. f_equal.
    destruct f_anon; try reflexivity. destruct t; try reflexivity; destruct t; try reflexivity.
    simpl. apply all_nilable_tagcopy.
Qed.

(* ---- FlattenAnonymous is transparent: the embedded structs are read from
   the enclosing mapping, keyed by the dials tags ---- *)
Theorem yaml_flatten_l d pfs :
  dec_ok pfs = true -> tags_wf FYaml pfs = true -> anon_ok pfs = true ->
  uniq_fields (anonflat_fields (tagcopy_fields dials_tag yaml_tag pfs)) = true ->
  decode_yaml_flat d pfs = spec_yaml_flat d pfs.
Proof.
  intros Hd Hw Ha Hu. unfold decode_yaml_flat, spec_yaml_flat. rewrite Hu.
  destruct d; try reflexivity. unfold generic_fields.
  assert (Ha' : anon_ok (tagcopy_fields dials_tag yaml_tag pfs) = true)
    by now rewrite (proj2 (anon_ok_tagcopy_mut _ _)).
  pose proof (proj1 (proj2 (flat_transparent_mut false true (field_key yaml_tag)) _ Ha') kvs) as A.
  rewrite <- (proj2 (copy_sflat_mut false true FYaml) pfs Hd Hw true kvs).
  simpl fmt_tag. rewrite <- A.
  destruct (keyed_fields false true (field_key yaml_tag) kvs _); reflexivity.
Qed.

Theorem yaml_flatten_wrapped_l d pfs :
  dec_ok (setslice_fields pfs) = true -> tags_wf FYaml (setslice_fields pfs) = true ->
  anon_ok (setslice_fields pfs) = true ->
  uniq_fields (anonflat_fields (tagcopy_fields dials_tag yaml_tag (setslice_fields pfs))) = true ->
  decode_yaml_flat_wrapped d pfs = spec_yaml_flat_wrapped d pfs.
Proof.
  intros. unfold decode_yaml_flat_wrapped, spec_yaml_flat_wrapped.
  rewrite yaml_flatten_l by assumption. destruct (spec_yaml_flat d (setslice_fields pfs)); reflexivity.
Qed.
