(* Specification side of flattening (shared by C11 and C12), independent of
   the accumulating walk of the flatten mangler:
     - the leaf paths of a pointerified field list in depth-first order,
       each path being the list of (name, tags, embedded?) components from the
       top-level field down to the leaf;
     - the name parts a path contributes (the `dials` tag of a component if
       present, nothing for an untagged embedded field, else the words of
       the Go field name);
     - reading the leaves of a returned value back in depth-first order
       (leaves below a nil struct pointer read as unset). *)
From Coq Require Import String.
From Coq Require Import List NArith ZArith Bool.
From Dials Require Import Base.Outcome Base.Runes Reflect.Ty Stack.Overlay Text.CaseConv Sources.Flatten.
Import ListNotations.
Open Scope list_scope.
Open Scope N_scope.

Record comp := mkComp { c_name : str; c_tags : list (str * str); c_anon : bool }.
Definition path := list comp.

Fixpoint paths_ty (t : ty) (pre : path) {struct t} : option (list (path * ty)) :=
  match t with
  | TPtr t' => paths_ty t' pre
  | TStruct fs _ => Some (paths_fields fs pre)
  | _ => None
  end
with paths_fields (fs : fields) (pre : path) {struct fs} : list (path * ty) :=
  match fs with
  | FNil => []
  | FCons n tags an t r =>
      let p := pre ++ [mkComp n tags an] in
      match paths_ty t p with Some l => l | None => [(p, t)] end ++ paths_fields r pre
  end.

Definition paths (fs : fields) : list (path * ty) := paths_fields fs [].

(* what one component contributes to the name *)
Definition comp_parts (c : comp) : outcome (list str) :=
  match tag_lookup dials_tag (c_tags c) with
  | Some t => Ok [t]
  | None => if c_anon c then Ok [] else decode_go_camel (c_name c)
  end.

Fixpoint raw_parts (p : path) : outcome (list str) :=
  match p with
  | [] => Ok []
  | c :: r => a <- comp_parts c ;; b <- raw_parts r ;; Ok (a ++ b)
  end.

(* the tags of the leaf component (the last one) *)
Definition leaf_tags (p : path) : list (str * str) :=
  match rev p with c :: _ => c_tags c | [] => [] end.

(* number of leaves, and reading them back from a value *)
Fixpoint count_ty (t : ty) {struct t} : option nat :=
  match t with
  | TPtr t' => count_ty t'
  | TStruct fs _ => Some (count_fields fs)
  | _ => None
  end
with count_fields (fs : fields) {struct fs} : nat :=
  match fs with
  | FNil => O
  | FCons _ _ _ t r => (match count_ty t with Some k => k | None => 1%nat end + count_fields r)%nat
  end.

Fixpoint read_ty (t : ty) (v : option val) {struct t} : option (list val) :=
  match t with
  | TPtr t' => read_ty t' (match v with Some (VPtr x) => Some x | _ => None end)
  | TStruct fs _ => Some (read_fields fs (match v with Some (VStruct vs) => Some vs | _ => None end))
  | _ => None
  end
with read_fields (fs : fields) (vs : option (list val)) {struct fs} : list val :=
  match fs with
  | FNil => []
  | FCons _ _ _ t r =>
      let v := match vs with Some (v :: _) => Some v | _ => None end in
      let vs' := match vs with Some (_ :: r') => Some r' | _ => None end in
      match read_ty t v with
      | Some l => l
      | None => [match v with Some x => x | None => VNil end]
      end ++ read_fields r vs'
  end.

(* the leaves of the top-level field values `vs` of a value of type `fs` *)
Definition leaves_of (fs : fields) (vs : list val) : list val := read_fields fs (Some vs).

(* no alias tags anywhere (aliases are property C14) *)
Fixpoint alias_free_ty (keys : list str) (t : ty) {struct t} : bool :=
  match t with
  | TPtr (TStruct fs _) => alias_free keys fs
  | TStruct fs _ => alias_free keys fs
  | _ => true
  end
with alias_free (keys : list str) (fs : fields) {struct fs} : bool :=
  match fs with
  | FNil => true
  | FCons _ tags _ t r =>
      match alias_split keys tags with None => true | Some _ => false end &&
      alias_free_ty keys t && alias_free keys r
  end.


(* shape of a pointerified config type as the theorems need it: a struct
   field is exactly a pointer to a struct (no **struct, no struct by value),
   every leaf is nil-able *)
Fixpoint wf_ty (t : ty) {struct t} : bool :=
  match t with
  | TPtr (TStruct fs _) => wf_fields fs
  | TPtr t' => match count_ty t' with None => true | Some _ => false end
  | TSlice _ _ | TMap _ _ _ => true
  | _ => false
  end
with wf_fields (fs : fields) {struct fs} : bool :=
  match fs with
  | FNil => true
  | FCons _ _ _ t r => wf_ty t && wf_fields r
  end.

