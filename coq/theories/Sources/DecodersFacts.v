(* Examples (non-vacuity) and refutation witnesses for property C13. *)
From Coq Require Import String.
From Coq Require Import List NArith ZArith Bool.
From Dials Require Import Base.Outcome Base.Runes Reflect.Ty Reflect.Ptrify Stack.Overlay
  Text.ParseText Sources.Flatten Sources.TimeText Sources.Decoders Sources.DecodersSpec.
Import ListNotations.
Open Scope string_scope.
Open Scope list_scope.

Definition S := s2r.
Definition tg (k v : string) := (S k, S v).
Definition tdur := TBasic (KInt 64) duration_name.

(* struct {
     Name string        `dials:"name"`
     Lvl  uint8         `dials:"lvl" json:"jl" yaml:"yl"`
     Sub  struct { Port int16 `dials:"port"`; Timeout time.Duration `dials:"timeout"` } `dials:"sub"`
     PSub *struct { On bool `dials:"on"` }  `dials:"psub"`
     Tags []string      `dials:"tags"`
     Subs []struct { Wait time.Duration `dials:"wait"` } `dials:"subs"`
     M    map[string]time.Duration `dials:"m"`
   } *)
Definition ex_fs : fields :=
  FCons (S "Name") [tg "dials" "name"] false (TBasic KString (S "string"))
 (FCons (S "Lvl") [tg "dials" "lvl"; tg "json" "jl"; tg "yaml" "yl"] false (TBasic (KUint 8) (S "uint8"))
 (FCons (S "Sub") [tg "dials" "sub"] false
    (TStruct (FCons (S "Port") [tg "dials" "port"] false (TBasic (KInt 16) (S "int16"))
             (FCons (S "Timeout") [tg "dials" "timeout"] false tdur FNil)) [])
 (FCons (S "PSub") [tg "dials" "psub"] false
    (TPtr (TStruct (FCons (S "On") [tg "dials" "on"] false (TBasic KBool (S "bool")) FNil) []))
 (FCons (S "Tags") [tg "dials" "tags"] false (TSlice (TBasic KString (S "string")) [])
 (FCons (S "Subs") [tg "dials" "subs"] false
    (TSlice (TStruct (FCons (S "Wait") [tg "dials" "wait"] false tdur FNil) []) [])
 (FCons (S "M") [tg "dials" "m"] false (TMap (TBasic KString (S "string")) tdur []) FNil)))))).

Definition ex_pfs := ptrify_fields ex_fs.

Example ex_supported : dec_ok ex_pfs = true /\ forallb (fun f => tags_wf f ex_pfs) [FJson; FYaml; FToml; FCue] = true.
Proof. vm_compute. split; reflexivity. Qed.

Definition ex_doc : doc :=
  DMap [(S "name", DStr (S "x")); (S "lvl", DInt 7); (S "jl", DInt 1); (S "yl", DInt 2);
        (S "sub", DMap [(S "timeout", DStr (S "1h30m")); (S "port", DInt 80)]);
        (S "psub", DMap []);
        (S "subs", DList [DMap [(S "wait", DInt 1500)]; DMap []]);
        (S "m", DMap [(S "b", DStr (S "250ms")); (S "a", DInt 5)]);
        (S "unknown", DInt 9)].

(* the format tag wins where present (Lvl: jl / yl / lvl), absent keys stay nil,
   an empty mapping allocates the pointer struct with nothing set *)
Example ex_json :
  decode FJson ex_doc ex_pfs =
  Ok [VPtr (VStr (S "x")); VPtr (VInt 1);
      VPtr (VStruct [VPtr (VInt 80); VPtr (VInt 5400000000000)]);
      VPtr (VStruct [VNil]); VNil;
      VList [VStruct [VInt 1500]; VStruct [VInt 0]];
      VMap [(VStr (S "a"), VInt 5); (VStr (S "b"), VInt 250000000)]].
Proof. vm_compute. reflexivity. Qed.

Example ex_formats_differ_only_in_lvl :
  map (fun f => omap (fun vs => nth 1 vs VNil) (decode f ex_doc ex_pfs)) [FJson; FYaml; FToml; FCue] =
  [Ok (VPtr (VInt 1)); Ok (VPtr (VInt 2)); Ok (VPtr (VInt 7)); Ok (VPtr (VInt 1))].
Proof. vm_compute. reflexivity. Qed.

Example ex_errors :
  map (fun d => class_of (decode FToml d ex_pfs))
      [DMap [(S "sub", DMap [(S "port", DInt 40000)])];          (* out of range for int16 *)
       DMap [(S "tags", DStr (S "notalist"))];
       DMap [(S "m", DMap [(S "a", DStr (S "bogus"))])];
       DList []] = [CErr; CErr; CErr; CErr].
Proof. vm_compute. reflexivity. Qed.

(* ---- sets as lists, TextUnmarshaler leaves ---- *)
(* struct { Tags map[string]struct{} `dials:"tags"`; Who rty.TUp `dials:"who"`; Addr net.IP `dials:"addr"` } *)
Definition set_fs : fields :=
  FCons (S "Tags") [tg "dials" "tags"] false (TMap (TBasic KString (S "string")) (TStruct FNil []) [])
 (FCons (S "Who") [tg "dials" "who"] false (TTextU (S "TUp") true)
 (FCons (S "Addr") [tg "dials" "addr"] false (TSlice (TBasic (KUint 8) (S "uint8")) netip_name) FNil)).
Definition set_pfs := ptrify_fields set_fs.

Example set_supported :
  dec_ok (setslice_fields set_pfs) = true /\
  forallb (fun f => tags_wf f (setslice_fields set_pfs)) [FJson; FYaml; FToml; FCue] = true.
Proof. vm_compute. split; reflexivity. Qed.

Example set_as_list_example :
  map (fun f => decode_wrapped f
                  (DMap [(S "tags", DList [DStr (S "b"); DStr (S "a"); DStr (S "b")]);
                         (S "who", DStr (S "me")); (S "addr", DStr (S "10.0.0.1"))]) set_pfs)
      [FJson; FYaml; FToml; FCue] =
  let v := Ok [VMap [(VStr (S "a"), VStruct []); (VStr (S "b"), VStruct [])];
               VPtr (VText (S "me"));
               VList (map (fun n => VInt (Z.of_N n)) [0;0;0;0;0;0;0;0;0;0;255;255;10;0;0;1]%N)] in
  [v; v; v; v].
Proof. vm_compute. reflexivity. Qed.

(* ---- timestamps ---- *)
(* struct { At time.Time `dials:"at"`; Log []struct{ When time.Time `dials:"when"` } `dials:"log"` } *)
Definition ttime := TTextU time_name true.
Definition time_fs : fields :=
  FCons (S "At") [tg "dials" "at"] false ttime
 (FCons (S "Log") [tg "dials" "log"] false
    (TSlice (TStruct (FCons (S "When") [tg "dials" "when"] false ttime FNil) []) []) FNil).
Definition time_pfs := ptrify_fields time_fs.

Example time_values :
  map (fun s => time_value (S s))
      ["2021-03-04T05:06:07Z"; "2021-03-04T07:06:07.5+02:00"; "2021-03-04T5:06:07,25Z"; "0001-01-01T00:00:00Z";
       "2021-02-29T05:06:07Z"; "2021-03-04T05:06:60Z"; "2021-03-04 05:06:07Z"; "2021-03-04T05:06:07"] =
  [Ok (VList [VInt 1614834367; VInt 0]); Ok (VList [VInt 1614834367; VInt 500000000]);
   Ok (VList [VInt 1614834367; VInt 250000000]); Ok (VText []);
   Err e_time; Err e_time; Err e_time; Err e_time].
Proof. vm_compute. reflexivity. Qed.

(* a timestamp written as a timestamp: the same instant from all four; an
   unset time.Time inside a slice element is the zero time *)
Example time_same_in_all_formats :
  map (fun f => decode f (DMap [(S "at", DTime (S "2021-03-04T07:06:07+02:00"));
                                (S "log", DList [DMap [(S "when", DTime (S "1970-01-01T00:00:01Z"))]; DMap []])]) time_pfs)
      [FJson; FYaml; FToml; FCue] =
  let v := Ok [VPtr (VList [VInt 1614834367; VInt 0]);
               VList [VStruct [VList [VInt 1; VInt 0]]; VStruct [VText []]]] in
  [v; v; v; v].
Proof. vm_compute. reflexivity. Qed.

(* a string that spells a timestamp is one for JSON, YAML and Cue, not for
   TOML: the guard no_time_str of decoders_agree_all is not vacuous *)
Definition time_str_doc : doc := DMap [(S "at", DStr (S "2021-03-04T05:06:07Z"))].

Lemma time_string_refuted_l :
  let d := time_str_doc in
  dec_ok time_pfs = true /\ no_fmt_fields time_pfs = true /\
  time_free time_pfs = false /\ no_time_str d = false /\
  map (fun f => class_of (decode f d time_pfs)) [FJson; FYaml; FToml; FCue] = [COk; COk; CErr; COk].
Proof. vm_compute. repeat split; reflexivity. Qed.

(* ---- the guard dec_ok is not vacuous (known finding C13/2): a struct that is
   the value type of a map is reached neither by the tag copy nor by the
   duration substitution; JSON and Cue reject a duration string there, YAML
   and TOML read it.  (Field name = tag here, so that the libraries' name
   fallback finds the key in every format.) ---- *)
Definition ref_fs : fields :=
  FCons (S "M") [tg "dials" "m"] false
    (TMap (TBasic KString (S "string"))
          (TStruct (FCons (S "D") [tg "dials" "D"] false tdur FNil) []) []) FNil.
Definition ref_doc : doc := DMap [(S "m", DMap [(S "a", DMap [(S "D", DStr (S "1h"))])])].

Lemma decoders_agree_refuted_l :
  dec_ok (ptrify_fields ref_fs) = false /\
  map (fun f => class_of (decode f ref_doc (ptrify_fields ref_fs))) [FJson; FYaml; FToml; FCue] =
  [CErr; COk; COk; CErr].
Proof. vm_compute. split; reflexivity. Qed.
