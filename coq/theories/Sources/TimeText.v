(* time.Time leaves of the file decoders (definitions only).

   encoding/json, cue (through encoding/json) and yaml.v2 hand the string of a
   time.Time field to Time.UnmarshalJSON / UnmarshalText, i.e. to
   time.Parse(time.RFC3339) (Go 1.23: the strict RFC 3339 checks of
   parseStrictRFC3339 are disabled, so the language is that of the layout
   parser); go-toml reads a TOML offset datetime with the same function.

   The language of time/format.go parse() for "2006-01-02T15:04:05Z07:00":
     YYYY-MM-DDTh[h]:mm:ss[(.|,)d+](Z|(+|-)hh:mm)
   year exactly four digits, month 01..12, day 01..days of the month, the hour
   ONE or two digits below 24, minute and second two digits below 60 (no leap
   second), a fraction of which the first nine digits count, an offset with
   hh <= 24 and mm <= 60 (sic), and nothing after it.

   The value observed is the instant: Unix seconds and nanoseconds; the zero
   instant 0001-01-01T00:00:00Z is what an unset time.Time holds and is
   observed as the empty text (zero (TTextU ..)). *)
From Coq Require Import String.
From Coq Require Import List NArith ZArith Bool.
From Dials Require Import Base.Outcome Base.Runes Reflect.Ty.
Import ListNotations.
Open Scope list_scope.
Open Scope Z_scope.

Definition time_name : str := s2r "time.Time"%string.

Definition is_time (t : ty) : bool :=
  match t with TTextU id true => str_eqb id time_name | _ => false end.

Definition e_time : N := 44%N.    (* not a timestamp *)

Definition dig (r : rune) : option Z := if is_digit r then Some (Z.of_N r - 48) else None.

Definition num2 (a b : rune) : option Z :=
  match dig a, dig b with Some x, Some y => Some (10 * x + y) | _, _ => None end.

Definition leap (y : Z) : bool := (y mod 4 =? 0) && (negb (y mod 100 =? 0) || (y mod 400 =? 0)).

Definition days_in (y m : Z) : Z :=
  if (m =? 2) then (if leap y then 29 else 28)
  else if (m =? 4) || (m =? 6) || (m =? 9) || (m =? 11) then 30 else 31.

(* days from 1970-01-01 to y-m-d in the proleptic Gregorian calendar *)
Definition days_from_civil (y m d : Z) : Z :=
  let y' := if m <=? 2 then y - 1 else y in
  let era := y' / 400 in
  let yoe := y' - era * 400 in
  let mp := (m + 9) mod 12 in
  let doy := (153 * mp + 2) / 5 + d - 1 in
  let doe := yoe * 365 + yoe / 4 - yoe / 100 + doy in
  era * 146097 + doe - 719468.

(* getnum(value, false): one or two digits *)
Definition hour_part (r : str) : option (Z * str) :=
  match r with
  | a :: r1 =>
      match dig a with
      | None => None
      | Some x => match r1 with
                  | b :: r2 => match dig b with Some y => Some (10 * x + y, r2) | None => Some (x, r1) end
                  | [] => Some (x, r1)
                  end
      end
  | [] => None
  end.

Fixpoint span_dig (s : str) : list Z * str :=
  match s with
  | c :: r => match dig c with
              | Some x => let (ds, rest) := span_dig r in (x :: ds, rest)
              | None => ([], s)
              end
  | [] => ([], [])
  end.

(* the first nine digits, scaled to nanoseconds *)
Fixpoint nanos (n : nat) (ds : list Z) (acc : Z) : Z :=
  match n with
  | O => acc
  | S n' => match ds with
            | d :: r => nanos n' r (acc * 10 + d)
            | [] => nanos n' [] (acc * 10)
            end
  end.

Definition frac_part (r : str) : Z * str :=
  match r with
  | sep :: c :: _ =>
      if ((sep =? 46) || (sep =? 44))%N && is_digit c
      then let (ds, rest) := span_dig (tl r) in (nanos 9 ds 0, rest)
      else (0, r)
  | _ => (0, r)
  end.

(* offset in seconds east of UTC *)
Definition zone_part (r : str) : option Z :=
  match r with
  | [90%N] => Some 0
  | sg :: h1 :: h2 :: 58%N :: m1 :: m2 :: [] =>
      match num2 h1 h2, num2 m1 m2 with
      | Some hh, Some mm =>
          if (hh <=? 24) && (mm <=? 60) then
            if (sg =? 43)%N then Some ((hh * 60 + mm) * 60)
            else if (sg =? 45)%N then Some (- ((hh * 60 + mm) * 60))
            else None
          else None
      | _, _ => None
      end
  | _ => None
  end.

(* time.Parse(time.RFC3339, s): Unix seconds and nanoseconds *)
Definition rfc3339 (s : str) : option (Z * Z) :=
  match s with
  | y1 :: y2 :: y3 :: y4 :: 45%N :: m1 :: m2 :: 45%N :: d1 :: d2 :: 84%N :: r =>
      match num2 y1 y2, num2 y3 y4, num2 m1 m2, num2 d1 d2, hour_part r with
      | Some yh, Some yl, Some mo, Some d, Some (h, 58%N :: n1 :: n2 :: 58%N :: s1 :: s2 :: r2) =>
          match num2 n1 n2, num2 s1 s2 with
          | Some mi, Some se =>
              let y := yh * 100 + yl in
              if (1 <=? mo) && (mo <=? 12) && (1 <=? d) && (d <=? days_in y mo)
                 && (h <? 24) && (mi <? 60) && (se <? 60) then
                let (ns, r3) := frac_part r2 in
                match zone_part r3 with
                | Some off => Some (days_from_civil y mo d * 86400 + h * 3600 + mi * 60 + se - off, ns)
                | None => None
                end
              else None
          | _, _ => None
          end
      | _, _, _, _, _ => None
      end
  | _ => None
  end.

Definition zero_instant : Z := days_from_civil 1 1 1 * 86400.

Definition time_value (s : str) : outcome val :=
  match rfc3339 s with
  | Some (sec, ns) =>
      if (sec =? zero_instant) && (ns =? 0) then Ok (VText []) else Ok (VList [VInt sec; VInt ns])
  | None => Err e_time
  end.
