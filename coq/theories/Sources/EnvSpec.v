(* Specification side of the environment source (property C11). *)
From Coq Require Import String.
From Coq Require Import List NArith ZArith Bool.
From Dials Require Import Base.Outcome Base.Runes Reflect.Ty Stack.Overlay Text.CaseConv
  Text.GoCamelSpec Text.ParseText Sources.Flatten Sources.FlattenSpec Sources.Env.
Import ListNotations.
Open Scope list_scope.
Open Scope N_scope.

(* ---- names ---- *)
(* the words a component stands for: those of its `dials` tag, nothing for an
   untagged embedded field, else those of the Go field name *)
Definition comp_words (c : comp) : outcome words :=
  match tag_lookup dials_tag (c_tags c) with
  | Some t => decode_go_tags t
  | None => if c_anon c then Ok [] else decode_go_camel (c_name c)
  end.

Fixpoint spec_words (p : path) : outcome words :=
  match p with
  | [] => Ok []
  | c :: r => a <- comp_words c ;; b <- spec_words r ;; Ok (a ++ b)
  end.

Definition with_prefix (prefix v : str) : str :=
  match prefix with [] => v | _ => prefix ++ underscore :: v end.

Definition has_env_tag (p : path) : bool := nonempty (tag_get dialsenv_tag (leaf_tags p)).

(* the documented variable of a leaf *)
Definition spec_var (prefix : str) (p : path) : outcome str :=
  match tag_get dialsenv_tag (leaf_tags p) with
  | [] => ws <- spec_words p ;; Ok (with_prefix prefix (encode_upper_snake ws))
  | v => Ok (with_prefix prefix v)
  end.

Definition owords_eqb (a b : outcome words) : bool :=
  match a, b with Ok x, Ok y => strs_eqb x y | _, _ => false end.

(* the decidable guard of env_name_spec: the UpperCamel concatenation of the
   parts along the path splits again into the words of the components (and
   names something); its complement is known-finding class C11/1 *)
Definition camel_join_safe (p : path) : bool :=
  match raw_parts p, spec_words p with
  | Ok parts, Ok ws =>
      nonempty (encode_upper_camel_t parts) && nonempty (encode_upper_snake ws) &&
      owords_eqb (decode_go_tags (encode_upper_camel_t parts)) (Ok ws)
  | _, _ => false
  end.

(* with a (non-empty) dialsenv tag only the existence of a derived tag value
   is needed; an explicitly empty dialsenv tag makes env.go panic *)
Definition name_guard (p : path) : bool :=
  if has_env_tag p then
    match raw_parts p with
    | Ok parts => nonempty (encode_upper_camel_t parts)
    | _ => false
    end
  else match tag_lookup dialsenv_tag (leaf_tags p) with
       | Some _ => false
       | None => camel_join_safe p
       end.

Definition env_supported (pfs : fields) : bool :=
  alias_free env_alias_keys pfs && wf_fields pfs.

Definition is_set (v : val) : bool := negb (is_vnil v).
