(* env_layer_between / flag_layer_between: the value of the environment source
   and of the two flag sources, stacked between a lower and a higher layer
   (C01's compose), leaf by leaf:
     the higher layer's leaf if it sets it, else the source's leaf if the
     variable is present / the flag was given, else the lower layer's leaf if
     it sets it, else the default. *)
From Coq Require Import String.
From Coq Require Import List NArith ZArith Bool Lia.
From Dials Require Import Base.Outcome Base.Runes Reflect.Ty Reflect.Ptrify Stack.Overlay Stack.StackSpec
  Text.ParseText Sources.Flatten Sources.FlattenSpec Sources.FlattenProofs Sources.Env Sources.EnvSpec
  Sources.EnvProofs Sources.EnvGuards Sources.Flags Sources.FlagsProofs Sources.LayerBetween.
From Dials Require Stack.Spine Stack.StackProofs Sources.EnvFacts.
Import ListNotations.
Open Scope list_scope.

Module SP := Dials.Stack.Spine.

Lemma cast_spine t o x : cast t o = Ok x -> SP.spine t x = true.
Proof.
  destruct o as [s|]; simpl.
  - destruct t; try discriminate; try (intros; reflexivity).
    destruct t; try (destruct (parse_text _ s); simpl; try discriminate; intros H; inversion H; reflexivity).
    unfold parse_text. simpl. discriminate.
  - intros H. inversion H. apply (proj1 Dials.Stack.StackProofs.spine_zero).
Qed.

Lemma Forall2_swap_types {A B C} (R : A -> B -> Prop) (S : A -> C -> Prop) (Q : B -> C -> Prop) la lb lc :
  Forall2 R la lb -> Forall2 S la lc -> (forall a b c, R a b -> S a c -> Q b c) -> Forall2 Q lb lc.
Proof.
  intros F. revert lc. induction F; intros lc HS HQ; inversion HS; subst; constructor; eauto.
Qed.

(* the value env.Source.Value returns has the shape of a layer *)
Lemma env_value_spine prefix pfs env vs :
  env_supported pfs = true -> env_value prefix pfs env = Ok vs -> SP.spine_fields pfs vs = true.
Proof.
  unfold env_supported, env_value. intros Hs H. apply andb_true_iff in Hs as [Haf Hwf].
  apply obind_ok in H as (plan & Hplan & H). apply obind_ok in H as (vals & Hvals & H).
  apply obind_ok in H as (vs0 & Hpop & H).
  rewrite alias_fields_id in Hpop by assumption.
  rewrite (populate_unalias_id _ _ _ _ Hwf Haf Hpop) in H. inversion H; subst vs0.
  unfold populate in Hpop. apply obind_ok in Hpop as ([[vs' rest] any] & Hp & Hpop). simpl in Hpop.
  destruct rest; [|discriminate]. inversion Hpop; subst vs'.
  destruct (pop_read _ _ _ _ _ Hwf Hp) as (used & Hu & Hl & _). rewrite app_nil_r in Hu. subst used.
  eapply (proj2 pop_spine_mut pfs Hwf [] vals vs [] any vals Hp); [now rewrite app_nil_r|exact Hl|].
  pose proof (plan_types _ _ _ Haf Hplan) as Hty. apply omapM_ok in Hvals.
  unfold leaf_spines.
  eapply Forall2_swap_types; [exact Hty|exact Hvals|].
  intros [l v] pt x Ht Hc. simpl in *. rewrite <- Ht. eapply cast_spine; eauto.
Qed.

Theorem env_layer_between_l prefix fs env d lo hi src :
  cfg_both fs -> alias_free env_alias_keys fs = true ->
  SP.spine_fields fs d = true ->
  SP.spine_fields (ptrify_fields fs) lo = true -> SP.spine_fields (ptrify_fields fs) hi = true ->
  env_value prefix (ptrify_fields fs) env = Ok src ->
  (* dials' compose succeeds and is the by-name stacking *)
  compose fs d [VStruct lo; VStruct src; VStruct hi] = Ok (stack fs d [VStruct lo; VStruct src; VStruct hi]) /\
  (* leaf by leaf: higher, else the source, else lower, else the default *)
  eff_fields fs (Some (stack fs d [VStruct lo; VStruct src; VStruct hi])) =
    over (ltys fs) (over (ltys fs) (over (ltys fs) (eff_fields fs (Some d)) (leaves_of (ptrify_fields fs) lo))
                         (leaves_of (ptrify_fields fs) src))
         (leaves_of (ptrify_fields fs) hi) /\
  (* where the source sets a leaf exactly when its variable is present, to the parse of that variable *)
  exists plan, env_plan prefix (ptrify_fields fs) = Ok plan /\
    Forall2 (fun lv x => cast (lf_ty (fst lv)) (lookup_env env (snd lv)) = Ok x /\
                         (is_set x = true <-> lookup_env env (snd lv) <> None))
            plan (leaves_of (ptrify_fields fs) src).
Proof.
  intros Hc Haf Hd Hlo Hhi Hv.
  assert (Hsup : env_supported (ptrify_fields fs) = true) by (apply env_supported_ptrify; [apply Hc|exact Haf]).
  pose proof (env_value_spine _ _ _ _ Hsup Hv) as Hsrc.
  destruct (stack_between fs d lo src hi Hc Hd Hlo Hsrc Hhi) as [H1 H2].
  split; [exact H1|]. split; [exact H2|].
  destruct (env_leaves_l _ _ _ _ Hsup Hv) as (plan & Hplan & HF).
  destruct (env_sets_exactly_present_l _ _ _ _ Hsup Hv) as (plan' & Hplan' & HF').
  rewrite Hplan in Hplan'. inversion Hplan'; subst plan'.
  exists plan. split; auto.
  clear -HF HF'. revert HF'. induction HF; intros HF'; inversion HF'; subst; constructor; auto.
Qed.

(* ---- the flag sources ---- *)
Lemma strip_struct_no_kind p t fs n : strip_ptr_ty t = TStruct fs n -> flag_kind p (strip_ptr_ty t) = None.
Proof. intros ->. reflexivity. Qed.

Lemma write_leaf_spine p k lt v x :
  flag_kind p (strip_ptr_ty lt) = Some k -> write_leaf p k lt v = Ok x -> SP.spine lt x = true.
Proof.
  intros Hk Hw. destruct lt; try reflexivity.
  - (* TPtr *)
    assert (Hx : exists y, x = VPtr y).
    { destruct k; simpl in Hw; destruct p; try (destruct (fits lt v)); inversion Hw; eauto. }
    destruct Hx as [y ->]. destruct lt; try reflexivity. simpl in Hk. discriminate.
  - (* TStruct *) simpl in Hk. discriminate.
Qed.

Lemma flag_value_spine p ne te fs tmpl occs vs :
  alias_free (flag_alias_keys p) (ptrify_fields fs) = true -> wf_fields (ptrify_fields fs) = true ->
  flag_value p ne te fs tmpl occs = Ok vs -> SP.spine_fields (ptrify_fields fs) vs = true.
Proof.
  intros Haf Hwf H. unfold flag_value, flag_value_with in H.
  apply obind_ok in H as (regs & Hregs & H). apply obind_ok in H as (states & Hst & H).
  apply obind_ok in H as (vals & Hvals & H). apply obind_ok in H as (vs0 & Hpop & H).
  rewrite alias_fields_id in Hpop by assumption.
  rewrite (populate_unalias_id _ _ _ _ Hwf Haf Hpop) in H. inversion H; subst vs0.
  unfold populate in Hpop. apply obind_ok in Hpop as ([[vs' rest] any] & Hp & Hpop). simpl in Hpop.
  destruct rest; [|discriminate]. inversion Hpop; subst vs'.
  destruct (pop_read _ _ _ _ _ Hwf Hp) as (used & Hu & Hl & _). rewrite app_nil_r in Hu. subst used.
  eapply (proj2 pop_spine_mut _ Hwf [] vals vs [] any vals Hp); [now rewrite app_nil_r|exact Hl|].
  (* the registered leaves carry the types of the depth-first paths *)
  apply flag_regs_ok in Hregs as (ls & Hfl & -> & _).
  unfold flag_keys in Hfl. rewrite alias_fields_id in Hfl by assumption.
  apply flat_paths in Hfl. apply omapM_ok in Hvals.
  unfold leaf_spines.
  assert (Hty : Forall2 (fun r pt => lf_ty (rg_leaf r) = snd pt /\
                                      (forall k, rg_kind r = Some k -> flag_kind p (strip_ptr_ty (lf_ty (rg_leaf r))) = Some k))
                        (map (mk_reg p fs tmpl) ls) (paths (ptrify_fields fs))).
  { apply Forall2_map_l. eapply Forall2_imp; [|exact Hfl].
    intros l pt (? & ? & ? & ? & ? & ? & ? & Hty). simpl. split; [exact Hty|].
    intros k. destruct (dash_tag p l); [discriminate|auto]. }
  pose proof (proj2 paths_nilable_mut _ Hwf []) as Hnil.
  assert (Hty' : Forall2 (fun r pt => (lf_ty (rg_leaf r) = snd pt /\
                                      (forall k, rg_kind r = Some k -> flag_kind p (strip_ptr_ty (lf_ty (rg_leaf r))) = Some k)) /\
                                      zero (snd pt) = VNil)
                        (map (mk_reg p fs tmpl) ls) (paths (ptrify_fields fs))).
  { eapply Forall2_Forall_r; [exact Hty|exact Hnil|]. intros; auto. }
  eapply Forall2_swap_types; [exact Hty'|exact Hvals|].
  intros r pt x [[Ht Hk] Hz] Hc. cbv beta in Hc. rewrite <- Ht in *.
  assert (Hn : SP.spine (lf_ty (rg_leaf r)) VNil = true).
  { destruct (lf_ty (rg_leaf r)); try reflexivity; try discriminate. destruct t; reflexivity. }
  destruct (st_lookup (rg_name r) states) as [st|].
  - destruct (rg_kind r) as [k|] eqn:Ek.
    + eapply write_leaf_spine; [apply Hk; reflexivity|exact Hc].
    + inversion Hc. exact Hn.
  - inversion Hc. exact Hn.
Qed.

Theorem flag_layer_between_l p ne te fs tmpl occs d lo hi src :
  cfg_both fs -> alias_free (flag_alias_keys p) fs = true ->
  SP.spine_fields fs d = true ->
  SP.spine_fields (ptrify_fields fs) lo = true -> SP.spine_fields (ptrify_fields fs) hi = true ->
  flag_value p ne te fs tmpl occs = Ok src ->
  compose fs d [VStruct lo; VStruct src; VStruct hi] = Ok (stack fs d [VStruct lo; VStruct src; VStruct hi]) /\
  eff_fields fs (Some (stack fs d [VStruct lo; VStruct src; VStruct hi])) =
    over (ltys fs) (over (ltys fs) (over (ltys fs) (eff_fields fs (Some d)) (leaves_of (ptrify_fields fs) lo))
                         (leaves_of (ptrify_fields fs) src))
         (leaves_of (ptrify_fields fs) hi) /\
  (* where the source leaves unset every leaf whose flag was not given, and a
     given flag's leaf holds what Value writes for the flag's final state *)
  exists regs states,
    flag_regs p ne te fs tmpl = Ok regs /\ run_occs regs [] occs = Ok states /\
    Forall2 (fun r x =>
               (~ In (rg_name r) (map fst occs) -> x = VNil) /\
               (forall st k, st_lookup (rg_name r) states = Some st -> rg_kind r = Some k ->
                             write_leaf p k (lf_ty (rg_leaf r)) (st_val st) = Ok x))
            regs (leaves_of (ptrify_fields fs) src).
Proof.
  intros Hc Haf Hd Hlo Hhi Hv.
  assert (Haf' : alias_free (flag_alias_keys p) (ptrify_fields fs) = true)
    by (apply (proj2 (ptrify_alias_free_mut _)); exact Haf).
  assert (Hwf : wf_fields (ptrify_fields fs) = true) by (apply ptrify_wf; apply Hc).
  pose proof (flag_value_spine _ _ _ _ _ _ _ Haf' Hwf Hv) as Hsrc.
  destruct (stack_between fs d lo src hi Hc Hd Hlo Hsrc Hhi) as [H1 H2].
  split; [exact H1|]. split; [exact H2|].
  exact (flag_only_visited_set_l _ _ _ _ _ _ _ Haf' Hwf Hv).
Qed.

(* ---- non-vacuity: the example config type of EnvFacts satisfies the side
   conditions, and a concrete three-layer stack ---- *)
Example ex_cfg_both : cfg_both Dials.Sources.EnvFacts.ex_fs /\
                      alias_free env_alias_keys Dials.Sources.EnvFacts.ex_fs = true.
Proof. repeat split; vm_compute; reflexivity. Qed.
