(* decoders/yaml with Decoder.FlattenAnonymous (definitions only):
     transform/anonymous_flatten_mangler.go   AnonymousFlattenMangler
     decoders/yaml/yaml.go                    manglers = [tag copy; anonymous flatten]

   Mangle hoists the exported fields of an embedded struct / *struct into the
   parent, ONE level (a hoisted field that is itself embedded stays an
   embedded field); the transformer then recurses with the same mangler into
   every struct, *struct, []struct and [N]struct field of the result.
   TranslateType fails when two fields of one resulting struct have the same
   Go name.  Unmangle regroups the hoisted values; an embedded *struct whose
   hoisted values are all nil stays nil.

   Not modelled: unexported inner fields (pointerification has dropped them),
   embedded TextUnmarshaler structs (the mangler hoists their fields; none is
   generated). *)
From Coq Require Import String.
From Coq Require Import List NArith ZArith Bool.
From Dials Require Import Base.Outcome Base.Runes Reflect.Ty Stack.Overlay Text.ParseText
  Sources.Flatten Sources.TimeText Sources.Decoders Sources.DecodersSpec.
Import ListNotations.
Open Scope list_scope.
Open Scope N_scope.

Fixpoint fapp (a b : fields) : fields :=
  match a with
  | FNil => b
  | FCons n tg an t r => FCons n tg an t (fapp r b)
  end.

Fixpoint flen (fs : fields) : nat :=
  match fs with FNil => O | FCons _ _ _ _ r => S (flen r) end.

Fixpoint fnames (fs : fields) : list str :=
  match fs with FNil => [] | FCons n _ _ _ r => n :: fnames r end.

(* ---- TranslateType with the AnonymousFlattenMangler ---- *)
Fixpoint anonflat_ty (t : ty) {struct t} : ty :=
  match t with
  | TStruct fs n => TStruct (anonflat_fields fs) n
  | TPtr (TStruct fs n) => TPtr (TStruct (anonflat_fields fs) n)
  | TSlice (TStruct fs n) m => TSlice (TStruct (anonflat_fields fs) n) m
  | TArray k (TStruct fs n) => TArray k (TStruct (anonflat_fields fs) n)
  | _ => t
  end
with anonflat_fields (fs : fields) {struct fs} : fields :=      (* Mangle, then the recursion *)
  match fs with
  | FNil => FNil
  | FCons n tags an t r =>
      match an, t with
      | true, TStruct ifs _ => fapp (anonrec_fields ifs) (anonflat_fields r)
      | true, TPtr (TStruct ifs _) => fapp (anonrec_fields ifs) (anonflat_fields r)
      | _, _ => FCons n tags an (anonflat_ty t) (anonflat_fields r)
      end
  end
with anonrec_fields (fs : fields) {struct fs} : fields :=       (* hoisted fields: only the recursion *)
  match fs with
  | FNil => FNil
  | FCons n tags an t r => FCons n tags an (anonflat_ty t) (anonrec_fields r)
  end.

(* every struct of the type has pairwise distinct field names *)
Fixpoint uniq_ty (t : ty) {struct t} : bool :=
  match t with
  | TStruct fs _ => uniq_fields fs
  | TPtr t' => uniq_ty t'
  | TSlice e _ => uniq_ty e
  | TArray _ e => uniq_ty e
  | _ => true
  end
with uniq_fields (fs : fields) {struct fs} : bool :=
  negb (has_dup (fnames fs)) &&
  (fix each (l : fields) : bool :=
     match l with FNil => true | FCons _ _ _ t r => uniq_ty t && each r end) fs.

(* ---- ReverseTranslate: regroup the hoisted values (t: the type before the
   mangler, v: a value of the flattened type) ---- *)
Definition all_nil (vs : list val) : bool :=
  forallb (fun v => match v with VNil => true | _ => false end) vs.

Fixpoint unflat_ty (t : ty) (v : val) {struct t} : val :=
  match t, v with
  | TStruct fs _, VStruct vs => VStruct (unflat_fields fs vs)
  | TPtr (TStruct fs _), VPtr (VStruct vs) => VPtr (VStruct (unflat_fields fs vs))
  | TSlice (TStruct fs _) _, VList l =>
      VList (map (fun x => match x with VStruct vs => VStruct (unflat_fields fs vs) | _ => x end) l)
  | TArray _ (TStruct fs _), VList l =>
      VList (map (fun x => match x with VStruct vs => VStruct (unflat_fields fs vs) | _ => x end) l)
  | _, _ => v
  end
with unflat_fields (fs : fields) (vs : list val) {struct fs} : list val :=
  match fs with
  | FNil => []
  | FCons n tags an t r =>
      match an, t with
      | true, TStruct ifs _ =>
          let k := flen ifs in
          VStruct (unrec_fields ifs (firstn k vs)) :: unflat_fields r (skipn k vs)
      | true, TPtr (TStruct ifs _) =>
          let k := flen ifs in
          let iv := unrec_fields ifs (firstn k vs) in
          (if all_nil iv then VNil else VPtr (VStruct iv)) :: unflat_fields r (skipn k vs)
      | _, _ =>
          match vs with
          | v :: vs' => unflat_ty t v :: unflat_fields r vs'
          | [] => []
          end
      end
  end
with unrec_fields (fs : fields) (vs : list val) {struct fs} : list val :=
  match fs, vs with
  | FCons _ _ _ t r, v :: vs' => unflat_ty t v :: unrec_fields r vs'
  | _, _ => []
  end.

(* side condition of the regrouping: the fields of an embedded *struct are of
   nilable types (what pointerification guarantees outside slice elements),
   so that "all hoisted values nil" means "nothing was set".  With a
   non-nilable hoisted field the mangler allocates the embedded pointer even
   when the enclosing plain struct is absent from the document. *)
Definition nilable (t : ty) : bool :=
  match t with TPtr _ | TSlice _ _ | TMap _ _ _ | TIface | TChan | TFunc => true | _ => false end.

Fixpoint all_nilable (fs : fields) : bool :=
  match fs with FNil => true | FCons _ _ _ t r => nilable t && all_nilable r end.

Fixpoint anon_ok_ty (t : ty) {struct t} : bool :=
  match t with
  | TStruct fs _ => anon_ok fs
  | TPtr t' => anon_ok_ty t'
  | TSlice e _ => anon_ok_ty e
  | TArray _ e => anon_ok_ty e
  | _ => true
  end
with anon_ok (fs : fields) {struct fs} : bool :=
  match fs with
  | FNil => true
  | FCons _ _ an t r =>
      match an, t with true, TPtr (TStruct ifs _) => all_nilable ifs | _, _ => true end
      && anon_ok_ty t && anon_ok r
  end.

(* Decoder{FlattenAnonymous: true}.Decode on the pointerified config type *)
Definition e_dup_names : N := 4.

Definition decode_yaml_flat (d : doc) (pfs : fields) : outcome (list val) :=
  let cfs := tagcopy_fields dials_tag yaml_tag pfs in
  let tfs := anonflat_fields cfs in
  if uniq_fields tfs then
    match d with
    | DMap kvs => vs <- generic_fields false true yaml_tag kvs tfs ;; Ok (unflat_fields cfs vs)
    | _ => Err 43
    end
  else Err e_dup_names.

(* ---- specification: read the fields of an embedded struct / *struct from
   the enclosing mapping, one level; no type is rewritten ---- *)
Fixpoint dec_docs (f : doc -> outcome val) (l : list doc) : outcome (list val) :=
  match l with
  | [] => Ok []
  | x :: r => v <- f x ;; vs <- dec_docs f r ;; Ok (v :: vs)
  end.

Section Spec.
Variables (nt nd : bool) (key : str -> list (str * str) -> str).

Fixpoint sflat_ty (d : doc) (t : ty) {struct t} : outcome val :=
  match t with
  | TStruct fs _ =>
      match d with DMap kvs => omap VStruct (sflat_fields true kvs fs) | _ => Err 43 end
  | TPtr (TStruct fs _) =>
      omap VPtr (match d with DMap kvs => omap VStruct (sflat_fields true kvs fs) | _ => Err 43 end)
  | TSlice (TStruct fs _) _ =>
      match d with
      | DList l =>
          omap VList (dec_docs (fun x => match x with
                                         | DMap kvs => omap VStruct (sflat_fields true kvs fs)
                                         | _ => Err 43
                                         end) l)
      | _ => Err 40
      end
  | _ => keyed_decode nt nd key d t
  end
with sflat_fields (hoist : bool) (kvs : list (str * doc)) (fs : fields) {struct fs} : outcome (list val) :=
  match fs with
  | FNil => Ok []
  | FCons n tags an t r =>
      v <- match hoist && an, t with
           | true, TStruct ifs _ => omap VStruct (sflat_fields false kvs ifs)
           | true, TPtr (TStruct ifs _) =>
               iv <- sflat_fields false kvs ifs ;; Ok (if all_nil iv then VNil else VPtr (VStruct iv))
           | _, _ =>
               match doc_lookup (key n tags) kvs with
               | Some d => sflat_ty d t
               | None => Ok (zero t)
               end
           end ;;
      vs <- sflat_fields hoist kvs r ;;
      Ok (v :: vs)
  end.
End Spec.

Definition spec_yaml_flat (d : doc) (pfs : fields) : outcome (list val) :=
  match d with
  | DMap kvs => sflat_fields false true (spec_key FYaml) true kvs pfs
  | _ => Err 43
  end.

(* with the set-slice wrapper *)
Definition decode_yaml_flat_wrapped (d : doc) (pfs : fields) : outcome (list val) :=
  vs <- decode_yaml_flat d (setslice_fields pfs) ;; Ok (unset_fields pfs vs).
Definition spec_yaml_flat_wrapped (d : doc) (pfs : fields) : outcome (list val) :=
  omap (unset_fields pfs) (spec_yaml_flat d (setslice_fields pfs)).
