(* Model of /repo/sources/env/env.go: env.Source.Value on a pointerified
   config type (definitions only).

   Chain (env.go:31-44):  alias -> flatten (UpperCamel names, UpperCamel tags)
     -> reformat dials tag (DecodeGoTags / EncodeUpperSnakeCase; falls back to
        DecodeGoCamelCase of the flattened NAME when the tag is empty)
     -> copy dials to dialsenv unless dialsenv is non-empty -> string cast.
   Then (env.go:49-72): per flattened field, panic on an empty dialsenv tag,
   prefix, os.LookupEnv, write &value into present fields only; finally
   ReverseTranslate: string-cast Unmangle (parse.String at the leaf type),
   flatten Unmangle (populateStruct), alias Unmangle.

   os.LookupEnv is a finite association list (first binding wins; the
   harness never binds a name twice).

   Outcome codes added here.  Err: 4 two flattened fields with one Go name
   (TranslateType reports it since the fix; reflect.StructOf panicked before),
   5 "empty dialsenv tag".  Panic: 6 Type.Elem of a non-pointer leaf type. *)
From Coq Require Import String.
From Coq Require Import List NArith ZArith Bool.
From Dials Require Import Base.Outcome Base.Runes Reflect.Ty Stack.Overlay Text.CaseConv
  Text.ParseText Sources.Flatten.
Import ListNotations.
Open Scope list_scope.
Open Scope N_scope.

Definition dialsenv_tag : str := s2r "dialsenv"%string.

Definition env_cfg : flat_cfg := mkFlatCfg encode_upper_camel_t encode_upper_camel_t.
Definition env_alias_keys : list str := [dials_tag; dialsenv_tag].

Fixpoint omapM {A B} (f : A -> outcome B) (l : list A) : outcome (list B) :=
  match l with
  | [] => Ok []
  | a :: r => b <- f a ;; bs <- omapM f r ;; Ok (b :: bs)
  end.

(* TagReformattingMangler.Mangle followed by TagCopyingMangler.Mangle *)
Definition env_final_tags (l : leaf) : outcome (list (str * str)) :=
  ws <- match tag_get dials_tag (lf_tags l) with
        | [] => decode_go_camel (lf_name l)
        | nameVal => decode_go_tags nameVal
        end ;;
  let enc := encode_upper_snake ws in
  let tags1 := tag_set dials_tag enc (lf_tags l) in
  Ok match enc with
     | [] => tags1
     | _ => match tag_get dialsenv_tag tags1 with
            | [] => tags1 ++ [(dialsenv_tag, enc)]
            | _ => tags1
            end
     end.

(* env.go:52-62; an empty dialsenv tag (the tags along the path decode to no
   word at all, e.g. `dials:"_"`) is a returned error since the fix for it -
   the pinned code panicked here *)
Definition env_var (prefix : str) (tags : list (str * str)) : outcome str :=
  match tag_get dialsenv_tag tags with
  | [] => Err 5
  | v => Ok match prefix with [] => v | _ => prefix ++ underscore :: v end
  end.

Definition lookup_env (env : list (str * str)) (k : str) : option str := tag_lookup k env.

(* StringCastingMangler.Unmangle *)
Definition cast (t : ty) (text : option str) : outcome val :=
  match text with
  | None => Ok (zero t)
  | Some s =>
      match t with
      | TSlice _ _ | TMap _ _ _ => parse_text t s
      | TPtr e => omap VPtr (parse_text e s)
      | _ => Panic 6
      end
  end.

Definition env_leaf_var (prefix : str) (l : leaf) : outcome str :=
  tags <- env_final_tags l ;; env_var prefix tags.

(* Translate + the lookup loop's name computation: the flattened leaves, each
   with the variable env.go looks up for it *)
Definition env_plan (prefix : str) (pfs : fields) : outcome (list (leaf * str)) :=
  ls <- flatten env_cfg (alias_fields env_alias_keys pfs) ;;
  tags <- omapM env_final_tags ls ;;
  if has_dup (map lf_name ls) then Err 4 else
  vars <- omapM (env_var prefix) tags ;;
  Ok (combine ls vars).

Definition env_value (prefix : str) (pfs : fields) (env : list (str * str)) : outcome (list val) :=
  plan <- env_plan prefix pfs ;;
  vals <- omapM (fun lv => cast (lf_ty (fst lv)) (lookup_env env (snd lv))) plan ;;
  vs <- populate (alias_fields env_alias_keys pfs) vals ;;
  unalias_fields env_alias_keys pfs vs.
