(* MODEL of sources/file/file.go (property C17): definitions only.

   Source.Value        -> source_value   (read, decode, checksum recorded only
                                          after a successful decode, unchanged-
                                          checksum suppression)
   WatchingSource.Watch-> init_state     (the three initial fsnotify watches,
                                          a token in the recheck channel)
   watchLoop           -> step = select + read_phase (Source.Value) +
                          cont_phase (not-exist branch / EvalSymlinks, re-add
                          of the file watch, updateDirWatches, recheck token);
                          step_read / cont run the two halves separately
   updateDirWatches    -> update_dir_watches  (the repaired code) and
                          update_dir_watches_prefix (the pinned tree, finding 12)

   The file system and the kernel are the ENVIRONMENT: a trace is a list of
   items, each either a change of what a read through the config path returns
   (Fs), an input delivered to the loop's select followed by a whole pass of
   the loop body (In), the same split in two so that the file system can
   change in between - the select receives the input and Source.Value reads
   the file (InRead), later the rest of the pass runs: EvalSymlinks, watch
   updates (Cont) - or the kernel dropping an inotify watch because the
   watched inode was deleted or moved (KernelDrop).
   One benign commutation: the source reports (ReportNewValue/ReportError) at
   the very end of a pass; the model records the report together with the read,
   because nothing between the two depends on the file system or on the
   report.  Paths are lists of components; filepath.Dir = removelast.
   Contents, decoded values and checksums are numbers; the decoder and the
   keyed checksum are parameters of the model (Section variables). *)
From Coq Require Import List NArith Bool.
From Dials Require Import Base.Outcome Base.Runes.
Import ListNotations.
Open Scope N_scope.

Definition path := list str.
Definition path_eqb : path -> path -> bool := strs_eqb.
Definition dir (p : path) : path := removelast p.          (* filepath.Dir *)
Definition k8s_link : str := [46; 46; 100; 105; 114].      (* "..dir": k8sIntermediateSymlinkDir *)
Definition k8s_data : str := [46; 46; 100; 97; 116; 97].   (* "..data": k8sDataSymlinkDir *)

Definition content := N.
Definition value := N.
Definition csum := N.

(* what os.Open + reading the whole file returns at some moment *)
Inductive read_result := NotExist | Content (c : content) | IOErr.

(* the environment as seen through the config path at some moment *)
Record fs := mkFs {
  fs_read : read_result;          (* result of opening and reading the path *)
  fs_resolved : option path;      (* filepath.EvalSymlinks(cleanedPath); None = error *)
  fs_linkres : option path;       (* the not-exist branch's view of a (dangling) symlink:
                                     EvalSymlinks(Dir(Readlink(cleanedPath))) + Base; None = the
                                     path is no symlink or its target's directory is missing *)
  fs_addfile_ok : bool;           (* would watcher.Add(cleanedPath) succeed *)
  fs_adddir_ok : bool;            (* would watcher.Add(dir of resolved path) succeed *)
  fs_where : list path            (* ghost, about the change that led to this state: the
                                     directories in which it shows as inotify activity that
                                     yields an event passing the loop's filter *)
}.

(* watch sets: fsnotify's path-indexed watch list *)
Definition mem (p : path) (w : list path) : bool := existsb (path_eqb p) w.
Definition wadd (p : path) (w : list path) : list path := if mem p w then w else p :: w.
Definition wremove (p : path) (w : list path) : list path :=
  filter (fun q => negb (path_eqb p q)) w.

(* what the watcher hands to dials: ReportNewValue / ReportError.  The content
   inside RValue is ghost (lets theorems speak about "the content that was
   reported"); the initial Source.Value() result given to dials.Config is the
   oldest entry of the log. *)
Inductive report := RValue (c : content) (v : value) | RError.

Fixpoint last_value (l : list report) : option (content * value) :=
  match l with
  | [] => None
  | RValue c v :: _ => Some (c, v)
  | RError :: r => last_value r
  end.
Definition is_value (r : report) : bool := match r with RValue _ _ => true | RError => false end.
Definition n_values (l : list report) : N := N.of_nat (length (filter is_value l)).
Definition n_errors (l : list report) : N := N.of_nat (length (filter (fun r => negb (is_value r)) l)).
Definition last_is_error (l : list report) : bool :=
  match l with RError :: _ => true | _ => false end.

Inductive input :=
| IEvent (name : path)     (* ev := <-ws.watcher.Events *)
| ITick                    (* <-tickerChan *)
| IReload                  (* <-ws.Reload *)
| IWatchErr                (* <-ws.watcher.Errors *)
| IRecheck                 (* <-recheck: the loop's own "a watch was added" token *)
| ICtxDone                 (* <-ctx.Done() *)
| IEventsClosed            (* Events channel closed *)
| IErrorsClosed.           (* Errors channel closed *)

Inductive item :=
| Fs (f : fs)              (* the file system changes: reads return f from now on *)
| In (i : input)           (* the loop's select receives i; one whole pass of the body *)
| InRead (i : input)       (* the select receives i; only Source.Value has run so far *)
| Cont                     (* the rest of a pass begun by InRead *)
| KernelDrop (p : path).   (* inotify removed the watch registered under path p *)

Record lstate := mkSt {
  st_csum : option csum;       (* Source.lastHMACSHA256 *)
  st_watching : bool;          (* watchingFile *)
  st_resolved : path;          (* resolvedCfgPath *)
  st_watches : list path;      (* fsnotify watch list *)
  st_reports : list report;    (* newest first *)
  st_running : bool;           (* false once watchLoop has returned *)
  st_pending : option bool;    (* Some e: Value has run (e = configExists), rest of the pass pending *)
  st_recheck : bool;           (* a token is waiting in the recheck channel *)
  st_exists : bool;            (* ghost: the file existed at the last read *)
  st_dropped : bool            (* ghost: the kernel dropped the file watch since it was last added *)
}.

Definition view (st : lstate) : option (content * value) := last_value (st_reports st).

Section Model.
Variable decode : content -> option value.     (* dials.Decoder.Decode on the bytes *)
Variable hmac : content -> csum.               (* HMAC-SHA256 with the per-run key *)

(* classes of (value, parseErr) returned by Source.Value *)
Inductive value_result :=
| VNew (c : content) (v : value)   (* nil error *)
| VUnchanged                       (* *unchangedCSumErr *)
| VNotExist                        (* os.IsNotExist(openErr) *)
| VError.                          (* open/read error or *DecoderErr *)

Definition csum_is (a : option csum) (k : csum) : bool :=
  match a with Some x => x =? k | None => false end.

(* Source.Value: the checksum is stored (lastHMACNew) only after Decode
   succeeded; it is stored also when it is unchanged (same value). *)
Definition source_value (last : option csum) (r : read_result) : value_result * option csum :=
  match r with
  | NotExist => (VNotExist, last)
  | IOErr => (VError, last)
  | Content c =>
      match decode c with
      | None => (VError, last)
      | Some v =>
          let k := hmac c in
          if csum_is last k then (VUnchanged, Some k) else (VNew c v, Some k)
      end
  end.

Definition report_of (vr : value_result) (l : list report) : list report :=
  match vr with
  | VNew c v => RValue c v :: l     (* args.ReportNewValue *)
  | VError => RError :: l           (* args.ReportError *)
  | VUnchanged | VNotExist => l
  end.

(* updateDirWatches after the fix: the watch on the directory of the cleaned
   config path is never removed *)
Definition update_dir_watches (cfg : path) (addok : bool) (old new : path) (w : list path) : list path :=
  if path_eqb old new then (if addok then wadd new w else w)   (* the watch is refreshed: Add is idempotent *)
  else if negb addok then w
  else let w1 := wadd new w in
       if path_eqb old (dir cfg) then w1 else wremove old w1.

(* updateDirWatches of the pinned tree (DESIGN finding 12) *)
Definition update_dir_watches_prefix (cfg : path) (addok : bool) (old new : path) (w : list path) : list path :=
  if path_eqb old new then w
  else if negb addok then w
  else wremove old (wadd new w).

Section Loop.
Variable udw : path -> bool -> path -> path -> list path -> list path.
Variable cfg : path.                           (* cleanedPath *)

(* the event-name filter of watchLoop *)
Definition passes (st : lstate) (name : path) : bool :=
  path_eqb name (st_resolved st) || path_eqb name cfg || path_eqb name (dir cfg)
  || path_eqb name (dir cfg ++ [k8s_link]) || path_eqb name (dir cfg ++ [k8s_data])
  || path_eqb name (dir (st_resolved st)).

(* first half of a pass: Source.Value (+ the report, see the header) *)
Definition read_phase (f : fs) (st : lstate) : lstate :=
  let '(vr, cs) := source_value (st_csum st) (fs_read f) in
  mkSt cs (st_watching st) (st_resolved st) (st_watches st) (report_of vr (st_reports st)) true
       (Some (match vr with VNotExist => false | _ => true end)) (st_recheck st)
       (st_exists st) (st_dropped st).

(* second half: the not-exist branch (remove the file watch; follow a dangling
   symlink to the directory its target names), or EvalSymlinks + re-adding the
   file watch + updateDirWatches; a token is put into the recheck channel
   whenever a watch may have been added, and when the file vanished between the
   read and EvalSymlinks *)
Definition cont_phase (f : fs) (st : lstate) : lstate :=
  match st_pending st with
  | None => st
  | Some false =>
      let w0 := if st_watching st then wremove cfg (st_watches st) else st_watches st in
      match fs_linkres f with
      | None => mkSt (st_csum st) false (st_resolved st) w0 (st_reports st) true None
                     (st_recheck st) false false
      | Some r =>
          let old := dir (st_resolved st) in
          mkSt (st_csum st) false r (udw cfg (fs_adddir_ok f) old (dir r) w0) (st_reports st) true None
               (st_recheck st || negb (path_eqb old (dir r))) false false
      end
  | Some true =>
      let old := dir (st_resolved st) in
      let res := match fs_resolved f with Some r => r | None => st_resolved st end in
      let vanished := match fs_resolved f, fs_read f with None, NotExist => true | _, _ => false end in
      let '(watching, w1, dropped, added) :=
        if st_watching st then (true, st_watches st, st_dropped st, false)
        else if fs_addfile_ok f then (true, wadd cfg (st_watches st), false, true)
        else (false, st_watches st, false, false) in
      let w2 := udw cfg (fs_adddir_ok f) old (dir res) w1 in
      mkSt (st_csum st) watching res w2 (st_reports st) true None
           (st_recheck st || added || negb (path_eqb old (dir res)) || vanished) true dropped
  end.

(* one whole pass of the loop body after the select *)
Definition reload (f : fs) (st : lstate) : lstate := cont_phase f (read_phase f st).

(* watchLoop returns: deferred watcher.Close() releases every watch *)
Definition stop (st : lstate) : lstate :=
  mkSt (st_csum st) (st_watching st) (st_resolved st) [] (st_reports st) false None false
       (st_exists st) (st_dropped st).

(* receiving from the recheck channel takes the token *)
Definition take (i : input) (st : lstate) : lstate :=
  match i with
  | IRecheck => mkSt (st_csum st) (st_watching st) (st_resolved st) (st_watches st) (st_reports st)
                     (st_running st) (st_pending st) false (st_exists st) (st_dropped st)
  | _ => st
  end.

Definition triggers (st : lstate) (i : input) : bool :=
  match i with
  | IEvent name => passes st name
  | ITick | IReload | IWatchErr => true
  | IRecheck => st_recheck st
  | ICtxDone | IEventsClosed | IErrorsClosed => false
  end.

Definition stops (i : input) : bool :=
  match i with ICtxDone | IEventsClosed | IErrorsClosed => true | _ => false end.

(* the loop is blocked in its select *)
Definition at_select (st : lstate) : bool :=
  st_running st && match st_pending st with None => true | Some _ => false end.

Definition step_with (body : fs -> lstate -> lstate) (f : fs) (st : lstate) (i : input) : lstate :=
  if negb (at_select st) then st
  else if stops i then stop st
  else if triggers st i then body f (take i st)
  else st.

Definition step : fs -> lstate -> input -> lstate := step_with reload.
Definition step_read : fs -> lstate -> input -> lstate := step_with read_phase.
Definition cont (f : fs) (st : lstate) : lstate :=
  if st_running st then cont_phase f st else st.

Definition drop (p : path) (st : lstate) : lstate :=
  if negb (st_running st) then st
  else mkSt (st_csum st) (st_watching st) (st_resolved st) (wremove p (st_watches st))
            (st_reports st) true (st_pending st) (st_recheck st) (st_exists st)
            (st_dropped st || (path_eqb p cfg && st_watching st)).

Definition run1 (fst : fs * lstate) (it : item) : fs * lstate :=
  let '(f, st) := fst in
  match it with
  | Fs f' => (f', st)
  | In i => (f, step f st i)
  | InRead i => (f, step_read f st i)
  | Cont => (f, cont f st)
  | KernelDrop p => (f, drop p st)
  end.

Definition run (t : list item) (fst : fs * lstate) : fs * lstate := fold_left run1 t fst.

End Loop.

(* WatchingSource.Watch after dials.Config called Source.Value once:
   Add(cleanedPath), Add(Dir(cleanedPath)), Add(Dir(resolved)) if different;
   watchLoop starts with a token in the recheck channel *)
Definition init_watches (cfg r0 : path) : list path :=
  let w := wadd (dir cfg) [cfg] in
  if path_eqb cfg r0 then w else wadd (dir r0) w.

Definition init_state (cfg : path) (c0 : content) (v0 : value) (r0 : path) : lstate :=
  mkSt (Some (hmac c0)) true r0 (init_watches cfg r0) [RValue c0 v0] true None true true false.

Definition init_fs (cfg : path) (c0 : content) (r0 : path) : fs :=
  mkFs (Content c0) (Some r0) (if path_eqb cfg r0 then None else Some r0) true true [].

(* the pair (file system, loop state) right after Watch returned, and the loop
   state after a trace from there *)
Definition start (cfg : path) (c0 : content) (v0 : value) (r0 : path) : fs * lstate :=
  (init_fs cfg c0 r0, init_state cfg c0 v0 r0).
Definition after (udw : path -> bool -> path -> path -> list path -> list path)
           (cfg : path) (c0 : content) (v0 : value) (r0 : path) (t : list item) : lstate :=
  snd (run udw cfg t (start cfg c0 v0 r0)).
Definition fs_after (udw : path -> bool -> path -> path -> list path -> list path)
           (cfg : path) (c0 : content) (v0 : value) (r0 : path) (t : list item) : fs :=
  fst (run udw cfg t (start cfg c0 v0 r0)).

(* an error-producing read: I/O error, or content the decoder rejects *)
Definition bad_read (r : read_result) : Prop :=
  r = IOErr \/ exists c, r = Content c /\ decode c = None.

(* every file-system change in the trace keeps content c *)
Definition same_content (c : content) (it : item) : bool :=
  match it with
  | Fs f => match fs_read f with Content c' => c' =? c | _ => false end
  | _ => true
  end.

(* ---- decidable side conditions used by the theorems ---- *)

(* the watch-set invariant *)
Definition winv (cfg : path) (st : lstate) : bool :=
  negb (st_running st) ||
  (mem (dir cfg) (st_watches st)
   && mem (dir (st_resolved st)) (st_watches st)
   && implb (st_exists st) (st_watching st)
   && implb (st_watching st && negb (st_dropped st)) (mem cfg (st_watches st))
   && implb (negb (st_watching st)) (negb (mem cfg (st_watches st)))).

(* a well-formed file-system observation: the config path is not itself the
   directory of its (possible) target *)
Definition fs_ok (cfg : path) (f : fs) : bool :=
  match fs_resolved f with Some r => negb (path_eqb (dir r) cfg) | None => true end
  && match fs_linkres f with Some r => negb (path_eqb (dir r) cfg) | None => true end.

Definition adds_ok (f : fs) : bool := fs_addfile_ok f && fs_adddir_ok f.
Definition linkadd_ok (f : fs) : bool :=
  match fs_linkres f with Some _ => fs_adddir_ok f | None => true end.

(* environment side conditions: watcher.Add succeeds on what a pass wants to
   add; the kernel never drops the watch of the config directory nor of the
   directory currently believed to hold the target (those directories are not
   deleted or moved) *)
Fixpoint trace_ok (udw : path -> bool -> path -> path -> list path -> list path)
         (cfg : path) (t : list item) (f : fs) (st : lstate) : bool :=
  match t with
  | [] => true
  | Fs f' :: t' => fs_ok cfg f' && trace_ok udw cfg t' f' st
  | In i :: t' =>
      match fs_read f with NotExist => linkadd_ok f | _ => adds_ok f end
      && trace_ok udw cfg t' f (step udw cfg f st i)
  | InRead i :: t' => trace_ok udw cfg t' f (step_read cfg f st i)
  | Cont :: t' =>
      match st_pending st with Some true => adds_ok f | Some false => linkadd_ok f | None => true end
      && trace_ok udw cfg t' f (cont udw cfg f st)
  | KernelDrop p :: t' =>
      negb (path_eqb p (dir cfg)) && negb (path_eqb p (dir (st_resolved st)))
      && trace_ok udw cfg t' f (drop cfg p st)
  end.

(* the select receives i and i makes the loop re-read *)
Definition receives (cfg : path) (st : lstate) (i : input) : bool :=
  at_select st && negb (stops i) && triggers cfg st i.

(* some input of t makes the loop re-read *)
Fixpoint notified (udw : path -> bool -> path -> path -> list path -> list path)
         (cfg : path) (t : list item) (f : fs) (st : lstate) : bool :=
  match t with
  | [] => false
  | Fs f' :: t' => notified udw cfg t' f' st
  | In i :: t' => receives cfg st i || notified udw cfg t' f (step udw cfg f st i)
  | InRead i :: t' => receives cfg st i || notified udw cfg t' f (step_read cfg f st i)
  | Cont :: t' => notified udw cfg t' f (cont udw cfg f st)
  | KernelDrop p :: t' => notified udw cfg t' f (drop cfg p st)
  end.

(* E-notify: every change of what a read returns is followed by an input that
   makes the loop re-read, provided the watch-set invariant held when the
   change happened *)
Fixpoint e_notify (udw : path -> bool -> path -> path -> list path -> list path)
         (cfg : path) (t : list item) (f : fs) (st : lstate) : bool :=
  match t with
  | [] => true
  | Fs f' :: t' => implb (winv cfg st) (notified udw cfg t' f' st) && e_notify udw cfg t' f' st
  | In i :: t' => e_notify udw cfg t' f (step udw cfg f st i)
  | InRead i :: t' => e_notify udw cfg t' f (step_read cfg f st i)
  | Cont :: t' => e_notify udw cfg t' f (cont udw cfg f st)
  | KernelDrop p :: t' => e_notify udw cfg t' f (drop cfg p st)
  end.

(* ---- the environment of no_lost_update: notification by coverage ---- *)

(* where the file is, or would (re)appear *)
Definition loc (f : fs) : option path :=
  match fs_resolved f with Some r => Some r | None => fs_linkres f end.

Definition opt_path_eqb (a b : option path) : bool :=
  match a, b with
  | Some x, Some y => path_eqb x y
  | None, None => true
  | _, _ => false
  end.

(* the directory of the file's (possible) location is not watched *)
Definition uncov (f : fs) (st : lstate) : bool :=
  match loc f with Some r => negb (mem (dir r) (st_watches st)) | None => false end.

(* inotify can report the change that led to f': one of the directories in
   which it shows is watched at the moment it happens *)
Definition covered (w : list path) (f' : fs) : bool := existsb (fun d => mem d w) (fs_where f').

(* shape of a file-system state: readable <-> EvalSymlinks succeeds; the two
   resolutions agree when both exist; a config path that is not a symlink
   resolves inside its own directory (the directory part of the config path is
   symlink-free) *)
Definition fs_shape (cfg : path) (f : fs) : bool :=
  match fs_read f, fs_resolved f with
  | NotExist, None => true
  | NotExist, Some _ => false
  | _, None => false
  | _, Some r => match fs_linkres f with
                 | Some r' => path_eqb r r'
                 | None => path_eqb (dir r) (dir cfg)
                 end
  end.

(* a well-formed change f -> f': it shows in the config's own directory or in
   the directory of the file's location before the change; and whenever the
   location itself changes (new symlink, swapped intermediate link, removed
   entry) the config's own directory is involved *)
Definition change_ok (cfg : path) (f f' : fs) : bool :=
  fs_shape cfg f'
  && (mem (dir cfg) (fs_where f')
      || match loc f with Some r => mem (dir r) (fs_where f') | None => false end)
  && (opt_path_eqb (loc f) (loc f') || mem (dir cfg) (fs_where f')).

Fixpoint env_ok (udw : path -> bool -> path -> path -> list path -> list path)
         (cfg : path) (t : list item) (f : fs) (st : lstate) : bool :=
  match t with
  | [] => true
  | Fs f' :: t' => change_ok cfg f f' && env_ok udw cfg t' f' st
  | In i :: t' => env_ok udw cfg t' f (step udw cfg f st i)
  | InRead i :: t' => env_ok udw cfg t' f (step_read cfg f st i)
  | Cont :: t' => env_ok udw cfg t' f (cont udw cfg f st)
  | KernelDrop p :: t' =>
      (* the directory that holds (or will hold) the file is not deleted or moved *)
      match loc f with Some r => negb (path_eqb p (dir r)) | None => true end
      && env_ok udw cfg t' f (drop cfg p st)
  end.

(* E-notify by coverage: a change that a watch in place AT THAT MOMENT can see
   is followed by an input that makes the loop re-read *)
Fixpoint e_covered (udw : path -> bool -> path -> path -> list path -> list path)
         (cfg : path) (t : list item) (f : fs) (st : lstate) : bool :=
  match t with
  | [] => true
  | Fs f' :: t' => implb (covered (st_watches st) f') (notified udw cfg t' f' st)
                   && e_covered udw cfg t' f' st
  | In i :: t' => e_covered udw cfg t' f (step udw cfg f st i)
  | InRead i :: t' => e_covered udw cfg t' f (step_read cfg f st i)
  | Cont :: t' => e_covered udw cfg t' f (cont udw cfg f st)
  | KernelDrop p :: t' => e_covered udw cfg t' f (drop cfg p st)
  end.

(* ghost: the file system changed since the last read began *)
Fixpoint stale_run (udw : path -> bool -> path -> path -> list path -> list path)
         (cfg : path) (t : list item) (f : fs) (st : lstate) (s : bool) : bool :=
  match t with
  | [] => s
  | Fs f' :: t' => stale_run udw cfg t' f' st true
  | In i :: t' => stale_run udw cfg t' f (step udw cfg f st i) (s && negb (receives cfg st i))
  | InRead i :: t' => stale_run udw cfg t' f (step_read cfg f st i) (s && negb (receives cfg st i))
  | Cont :: t' => stale_run udw cfg t' f (cont udw cfg f st) s
  | KernelDrop p :: t' => stale_run udw cfg t' f (drop cfg p st) s
  end.

(* the loop is idle: blocked in its select with no token waiting *)
Definition idle (st : lstate) : bool := at_select st && negb (st_recheck st).

(* the recheck token is never received: the loop as it was before the repair *)
Definition no_token (it : item) : bool :=
  match it with In IRecheck | InRead IRecheck => false | _ => true end.

Definition is_fs (it : item) : bool := match it with Fs _ => true | _ => false end.
Definition is_stop (it : item) : bool :=
  match it with In i | InRead i => stops i | _ => false end.

End Model.
