(* Examples (non-vacuity) and the pre-fix witness for property C12. *)
From Coq Require Import String.
From Coq Require Import List NArith ZArith Bool.
From Dials Require Import Base.Outcome Base.Runes Reflect.Ty Reflect.Ptrify Stack.Overlay Text.CaseConv
  Text.ParseText Sources.Flatten Sources.FlattenSpec Sources.Env Sources.Flags Sources.FlagsProofs.
Import ListNotations.
Open Scope string_scope.
Open Scope list_scope.

Definition S := s2r.
Definition tg (k v : string) := (S k, S v).

(* struct {
     Name    string   `dialsflag:"who" dialspflag:"who"`
     Server  struct { Port int16; Hosts []string; Limits []int8 } `dials:"srv"`
     Verbose bool
     Addr    net.IP
     Labels  map[string]string
   } *)
Definition ex_fs : fields :=
  FCons (S "Name") [tg "dialsflag" "who"; tg "dialspflag" "who"] false (TBasic KString (S "string"))
 (FCons (S "Server") [tg "dials" "srv"] false
    (TStruct (FCons (S "Port") [] false (TBasic (KInt 16) (S "int16"))
             (FCons (S "Hosts") [] false (TSlice (TBasic KString (S "string")) [])
             (FCons (S "Limits") [] false (TSlice (TBasic (KInt 8) (S "int8")) []) FNil))) [])
 (FCons (S "Verbose") [] false (TBasic KBool (S "bool"))
 (FCons (S "Addr") [] false (TSlice (TBasic (KUint 8) (S "uint8")) netip_name)
 (FCons (S "Labels") [] false (TMap (TBasic KString (S "string")) (TBasic KString (S "string")) []) FNil)))).

(* template: Name "n", Port 8080, Hosts ["a"], Limits nil, Verbose false, Addr nil, Labels nil *)
Definition ex_tmpl : list val :=
  [VStr (S "n"); VStruct [VInt 8080; VList [VStr (S "a")]; VNil]; VBool false; VNil; VNil].

Example ex_shape :
  alias_free (flag_alias_keys PStd) (ptrify_fields ex_fs) = true /\ wf_fields (ptrify_fields ex_fs) = true.
Proof. vm_compute. split; reflexivity. Qed.

(* names (source tag, else kebab join of tags and words) and advertised defaults *)
Example ex_advertised :
  omap flag_advertised (flag_regs PStd 0 0 ex_fs ex_tmpl) =
  Ok [(S "who", VStr (S "n")); (S "srv-port", VInt 8080); (S "srv-hosts", VList [VStr (S "a")]);
      (S "srv-limits", VList []); (S "verbose", VBool false); (S "addr", VOpaque 2); (S "labels", VMap [])].
Proof. vm_compute. reflexivity. Qed.

(* only the visited flags are set; repeated slice and map flags accumulate and
   the first occurrence drops the default ["a"] *)
Example ex_value :
  flag_value PStd 0 0 ex_fs ex_tmpl
    [(S "srv-hosts", S "x,y"); (S "labels", S "k:v"); (S "srv-hosts", S "z"); (S "labels", S "k2:w,k:u");
     (S "addr", S "10.0.0.1")] =
  Ok [VNil;
      VPtr (VStruct [VNil; VList [VStr (S "x"); VStr (S "y"); VStr (S "z")]; VNil]);
      VNil;
      VList (map (fun n => VInt (Z.of_N n)) [0;0;0;0;0;0;0;0;0;0;255;255;10;0;0;1]%N);
      VMap [(VStr (S "k"), VStr (S "u")); (VStr (S "k2"), VStr (S "w"))]].
Proof. vm_compute. reflexivity. Qed.

(* an int16 leaf rides on a 64-bit Int flag in the std package: 40000 parses
   and is rejected by the overflow check; pflag's Int16 flag rejects it itself *)
Example ex_overflow :
  map (fun p => class_of (flag_value p 0 0 ex_fs ex_tmpl [(S "srv-port", S "40000")])) [PStd; PPflag] = [CErr; CErr] /\
  map (fun p => flag_value p 0 0 ex_fs ex_tmpl [(S "srv-port", S "-0x8000")]) [PStd; PPflag] =
  [Ok [VNil; VPtr (VStruct [VPtr (VInt (-32768)); VNil; VNil]); VNil; VNil; VNil];
   Ok [VNil; VPtr (VStruct [VPtr (VInt (-32768)); VNil; VNil]); VNil; VNil; VNil]].
Proof. vm_compute. split; reflexivity. Qed.

Example ex_undefined_flag : class_of (flag_value PStd 0 0 ex_fs ex_tmpl [(S "nope", S "1")]) = CErr.
Proof. vm_compute. reflexivity. Qed.

(* DESIGN finding 17, before the fix: with the std package the net.IP flag given
   on the command line made Value panic; pflag was fine *)
Lemma flag_netip_pre_fix_refuted_l :
  class_of (flag_value_with write_leaf_pre_fix PStd 0 0 ex_fs ex_tmpl [(S "addr", S "10.0.0.1")]) = CPanic /\
  class_of (flag_value_with write_leaf_pre_fix PPflag 0 0 ex_fs ex_tmpl [(S "addr", S "10.0.0.1")]) = COk /\
  class_of (flag_value PStd 0 0 ex_fs ex_tmpl [(S "addr", S "10.0.0.1")]) = COk.
Proof. vm_compute. repeat split; reflexivity. Qed.

(* a declared type of every scalar kind is a flag-supported leaf; before the
   second fix a declared COMPLEX type given on the command line made the std
   source panic (the helper's pointer was not dereferenced) *)
Definition named_fs : fields :=
  FCons (S "Gain") [] false (TBasic (KComplex 64) (S "rty.NC64"))
 (FCons (S "Ratio") [] false (TBasic (KFloat 32) (S "rty.NF32"))
 (FCons (S "On") [] false (TBasic KBool (S "rty.NBool")) FNil)).
Definition named_tmpl : list val := [VList [VFloat 0; VFloat 0]; VFloat 0; VBool false].

Example named_values :
  map (fun p => flag_value p 0 0 named_fs named_tmpl
                  [(S "gain", S "(1.5-2i)"); (S "ratio", S "0.25"); (S "on", S "false")]) [PStd; PPflag] =
  let v := Ok [VPtr (VList [VFloat 1536; VFloat (-2048)]); VPtr (VFloat 256); VPtr (VBool false)] in [v; v].
Proof. vm_compute. reflexivity. Qed.

(* math.MaxFloat32 is in range; MaxFloat32 + 2^100 (a float64 that would round
   to it) is not: the std source tests the range before narrowing *)
Example named_float32_boundary :
  map (fun t => class_of (flag_value PStd 0 0 named_fs named_tmpl [(S "ratio", S t)]))
      ["340282346638528859811704183484516925440"; "340282347906179460039933584981220130816"] = [COk; CErr].
Proof. vm_compute. reflexivity. Qed.

Example named_float32_overflow :
  map (fun p => class_of (flag_value p 0 0 named_fs named_tmpl [(S "ratio", S "1e39")])) [PStd; PPflag] = [CErr; CErr].
Proof. vm_compute. reflexivity. Qed.

Lemma flag_named_complex_pre_fix_refuted_l :
  class_of (flag_value_with write_leaf_pre_fix2 PStd 0 0 named_fs named_tmpl [(S "gain", S "2i")]) = CPanic /\
  class_of (flag_value_with write_leaf_pre_fix2 PPflag 0 0 named_fs named_tmpl [(S "gain", S "2i")]) = COk /\
  class_of (flag_value PStd 0 0 named_fs named_tmpl [(S "gain", S "2i")]) = COk.
Proof. vm_compute. repeat split; reflexivity. Qed.
